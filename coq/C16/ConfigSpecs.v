(* C16 -- what a `true` of each checker of ConfigChecks.v means.

   Part A: fast_pow_mod (BigZ inside) is modular exponentiation on Z.
   Part B: a logical relation between field dictionaries; the BigZ-backed dictionaries
           B1/B2/B3 are related to the specification-level Z1/Z2/Z3 (ZpOps/QuadOps/CubicOps
           on Z), and every generic checker returns the same boolean on related dictionaries.
   Part C: spec lemmas: checker = true  ->  the mathematical statement, over Z / Z1 / Z2 / Z3. *)
From Coq Require Import ZArith List Bool Lia.
From Bignums Require Import BigZ.
From V Require Import Base.Field C13.Poly C16.ConfigChecks.
Import ListNotations.
Open Scope Z_scope.

Local Notation zv := BigZ.to_Z.

(* ------------------------------------------------------------------ Part A *)

Lemma bpow_pos_spec : forall e a m, (zv (m)) <> 0 ->
  (zv (bpow_pos a e m)) = ((zv (a)) ^ Zpos e) mod (zv (m)).
Proof.
  induction e as [e IH | e IH |]; intros a m Hm; cbn [bpow_pos].
  - rewrite BigZ.spec_modulo, BigZ.spec_mul, BigZ.spec_modulo, BigZ.spec_mul, IH by assumption.
    rewrite Pos2Z.inj_xI, Z.pow_add_r, Z.pow_1_r, Z.pow_twice_r by lia.
    rewrite <- Z.mul_mod by assumption.
    rewrite Z.mul_mod_idemp_l by assumption. reflexivity.
  - rewrite BigZ.spec_modulo, BigZ.spec_mul, IH by assumption.
    rewrite Pos2Z.inj_xO, Z.pow_twice_r.
    rewrite <- Z.mul_mod by assumption. reflexivity.
  - rewrite BigZ.spec_modulo, Z.pow_1_r. reflexivity.
Qed.

Lemma fast_pow_mod_spec : forall a e m, 0 <= e -> m <> 0 -> fast_pow_mod a e m = a ^ e mod m.
Proof.
  intros a e m He Hm. destruct e as [| e | e]; cbn [fast_pow_mod]; [reflexivity | | lia].
  rewrite bpow_pos_spec by (rewrite BigZ.spec_of_Z; assumption).
  rewrite !BigZ.spec_of_Z. reflexivity.
Qed.

(* ------------------------------------------------------------------ Part B: logical relation *)

Record frel {T U : Type} (R : T -> U -> Prop) (F : Fops T) (G : Fops U) : Prop := mk_frel {
  r_0 : R (f0 F) (f0 G);
  r_1 : R (f1 F) (f1 G);
  r_add : forall a a' b b', R a a' -> R b b' -> R (fadd F a b) (fadd G a' b');
  r_sub : forall a a' b b', R a a' -> R b b' -> R (fsub F a b) (fsub G a' b');
  r_mul : forall a a' b b', R a a' -> R b b' -> R (fmul F a b) (fmul G a' b');
  r_neg : forall a a', R a a' -> R (fneg F a) (fneg G a');
  r_inv : forall a a', R a a' -> R (finv F a) (finv G a');
  r_eqb : forall a a' b b', R a a' -> R b b' -> feqb F a b = feqb G a' b';
  r_coords : forall a a', R a a' -> fcoords F a = fcoords G a';
  r_of : forall l, R (fof F l) (fof G l);
  r_deg : fdeg F = fdeg G
}.

Ltac rel H :=
  repeat (first [ assumption | apply (r_add _ _ _ H) | apply (r_sub _ _ _ H) | apply (r_mul _ _ _ H)
                | apply (r_neg _ _ _ H) | apply (r_inv _ _ _ H) | apply (r_0 _ _ _ H)
                | apply (r_1 _ _ _ H) | apply (r_of _ _ _ H) ]).

(* feqb of the specification-level dictionary decides Leibniz equality *)
Definition eqb_ok {U} (G : Fops U) : Prop := forall a b, feqb G a b = true <-> a = b.

(* ---- base: BpOps (of_Z p) ~ ZpOps p *)
Definition Rz (b : bigZ) (z : Z) : Prop := (zv (b)) = z.

Lemma nz_spec : forall x, (zv (nz x)) = (zv (x)).
Proof.
  intros x. unfold nz. rewrite BigZ.spec_eqb. destruct (Z.eqb_spec (zv (x)) (zv (BigZ.zero))) as [E | E].
  - symmetry. exact E.
  - reflexivity.
Qed.

Lemma begcd_spec : forall fuel r0 r1 s0 s1,
  ((zv (fst (begcd fuel r0 r1 s0 s1))), (zv (snd (begcd fuel r0 r1 s0 s1)))) =
  egcd fuel (zv (r0)) (zv (r1)) (zv (s0)) (zv (s1)).
Proof.
  induction fuel as [| f IH]; intros r0 r1 s0 s1; cbn [begcd egcd].
  - reflexivity.
  - rewrite BigZ.spec_eqb. change (zv (BigZ.zero)) with 0.
    destruct ((zv (r1)) =? 0); [reflexivity|].
    rewrite IH. rewrite !BigZ.spec_sub, !BigZ.spec_mul, !BigZ.spec_div. reflexivity.
Qed.

Lemma binv_mod_spec : forall a p, (zv (binv_mod a p)) = inv_mod (zv (a)) (zv (p)).
Proof.
  intros a p. unfold binv_mod, inv_mod.
  rewrite BigZ.spec_eqb, BigZ.spec_modulo. change (zv (BigZ.zero)) with 0.
  destruct ((zv (a)) mod (zv (p)) =? 0); [reflexivity|].
  pose proof (begcd_spec (2 * Z.to_nat (Z.log2 (zv (p))) + 4) (BigZ.modulo a p) p BigZ.one BigZ.zero) as H.
  rewrite BigZ.spec_modulo in H. change (zv (BigZ.one)) with 1 in H. change (zv (BigZ.zero)) with 0 in H.
  destruct (begcd (2 * Z.to_nat (Z.log2 (zv (p))) + 4) (BigZ.modulo a p) p BigZ.one BigZ.zero) as [g s].
  cbn [fst snd] in H. rewrite <- H. rewrite BigZ.spec_modulo. reflexivity.
Qed.

Lemma B1_rel : forall p, frel Rz (B1 p) (Z1 p).
Proof.
  intros p. unfold B1, Z1, BpOps, ZpOps, Rz.
  constructor; cbn [f0 f1 fadd fsub fmul fneg finv feqb fcoords fof fdeg].
  - reflexivity.
  - rewrite BigZ.spec_modulo, BigZ.spec_of_Z. reflexivity.
  - intros a a' b b' <- <-. rewrite nz_spec, BigZ.spec_modulo, BigZ.spec_add, BigZ.spec_of_Z. reflexivity.
  - intros a a' b b' <- <-. rewrite nz_spec, BigZ.spec_modulo, BigZ.spec_sub, BigZ.spec_of_Z. reflexivity.
  - intros a a' b b' <- <-. rewrite nz_spec, BigZ.spec_modulo, BigZ.spec_mul, BigZ.spec_of_Z. reflexivity.
  - intros a a' <-. rewrite nz_spec, BigZ.spec_modulo, BigZ.spec_opp, BigZ.spec_of_Z. reflexivity.
  - intros a a' <-. rewrite nz_spec, binv_mod_spec, BigZ.spec_of_Z. reflexivity.
  - intros a a' b b' <- <-. apply BigZ.spec_eqb.
  - intros a a' <-. reflexivity.
  - intros l. rewrite nz_spec, BigZ.spec_modulo, !BigZ.spec_of_Z. reflexivity.
  - reflexivity.
Qed.

Lemma Z1_eqb_ok : forall p, eqb_ok (Z1 p).
Proof. intros p a b. cbn. apply Z.eqb_eq. Qed.

(* ---- quadratic and cubic extensions preserve the relation *)
Definition R2 {T U} (R : T -> U -> Prop) (a : T * T) (b : U * U) : Prop :=
  R (fst a) (fst b) /\ R (snd a) (snd b).
Definition R3 {T U} (R : T -> U -> Prop) (a : T * T * T) (b : U * U * U) : Prop :=
  R (fst (fst a)) (fst (fst b)) /\ R (snd (fst a)) (snd (fst b)) /\ R (snd a) (snd b).

Section Lift.
  Context {T U : Type} (R : T -> U -> Prop) (B : Fops T) (B' : Fops U) (H : frel R B B')
          (nr : T) (nr' : U) (Hnr : R nr nr').

  Lemma quad_rel : frel (R2 R) (QuadOps B nr) (QuadOps B' nr').
  Proof.
    constructor; unfold R2;
      cbn [f0 f1 fadd fsub fmul fneg finv feqb fcoords fof fdeg QuadOps qadd qsub qmul qneg qinv qnorm qeqb fst snd].
    - split; rel H.
    - split; rel H.
    - intros [a0 a1] [a0' a1'] [b0 b1] [b0' b1'] [? ?] [? ?]; cbn [fst snd] in *. split; rel H.
    - intros [a0 a1] [a0' a1'] [b0 b1] [b0' b1'] [? ?] [? ?]; cbn [fst snd] in *. split; rel H.
    - intros [a0 a1] [a0' a1'] [b0 b1] [b0' b1'] [? ?] [? ?]; cbn [fst snd] in *. split; rel H.
    - intros [a0 a1] [a0' a1'] [? ?]; cbn [fst snd] in *. split; rel H.
    - intros [a0 a1] [a0' a1'] [? ?]; cbn [fst snd] in *. split; rel H.
    - intros [a0 a1] [a0' a1'] [b0 b1] [b0' b1'] [? ?] [? ?]; cbn [fst snd] in *.
      unfold qeqb; cbn [fst snd].
      rewrite (r_eqb _ _ _ H a0 a0' b0 b0'), (r_eqb _ _ _ H a1 a1' b1 b1') by assumption. reflexivity.
    - intros [a0 a1] [a0' a1'] [? ?]; cbn [fst snd] in *.
      rewrite (r_coords _ _ _ H a0 a0'), (r_coords _ _ _ H a1 a1') by assumption. reflexivity.
    - intros l. rewrite (r_deg _ _ _ H). split; rel H.
    - rewrite (r_deg _ _ _ H). reflexivity.
  Qed.

  Lemma cubic_rel : frel (R3 R) (CubicOps B nr) (CubicOps B' nr').
  Proof.
    constructor; unfold R3;
      cbn [f0 f1 fadd fsub fmul fneg finv feqb fcoords fof fdeg CubicOps cadd csub cmul cneg cinv ceqb c0 c1 c2 fst snd].
    - repeat split; rel H.
    - repeat split; rel H.
    - intros [[a0 a1] a2] [[a0' a1'] a2'] [[b0 b1] b2] [[b0' b1'] b2'] [? [? ?]] [? [? ?]]; cbn [fst snd] in *.
      repeat split; rel H.
    - intros [[a0 a1] a2] [[a0' a1'] a2'] [[b0 b1] b2] [[b0' b1'] b2'] [? [? ?]] [? [? ?]]; cbn [fst snd] in *.
      repeat split; rel H.
    - intros [[a0 a1] a2] [[a0' a1'] a2'] [[b0 b1] b2] [[b0' b1'] b2'] [? [? ?]] [? [? ?]]; cbn [fst snd] in *.
      repeat split; rel H.
    - intros [[a0 a1] a2] [[a0' a1'] a2'] [? [? ?]]; cbn [fst snd] in *. repeat split; rel H.
    - intros [[a0 a1] a2] [[a0' a1'] a2'] [? [? ?]]; cbn [fst snd] in *.
      repeat split; rel H.
    - intros [[a0 a1] a2] [[a0' a1'] a2'] [[b0 b1] b2] [[b0' b1'] b2'] [? [? ?]] [? [? ?]]; cbn [fst snd] in *.
      unfold ceqb, c0, c1, c2; cbn [fst snd].
      rewrite (r_eqb _ _ _ H a0 a0' b0 b0'), (r_eqb _ _ _ H a1 a1' b1 b1'), (r_eqb _ _ _ H a2 a2' b2 b2') by assumption.
      reflexivity.
    - intros [[a0 a1] a2] [[a0' a1'] a2'] [? [? ?]]; cbn [fst snd] in *.
      unfold c0, c1, c2; cbn [fst snd].
      rewrite (r_coords _ _ _ H a0 a0'), (r_coords _ _ _ H a1 a1'), (r_coords _ _ _ H a2 a2') by assumption.
      reflexivity.
    - intros l. rewrite (r_deg _ _ _ H). repeat split; rel H.
    - rewrite (r_deg _ _ _ H). reflexivity.
  Qed.
End Lift.

Lemma quad_eqb_ok : forall {U} (B : Fops U) nr, eqb_ok B -> eqb_ok (QuadOps B nr).
Proof.
  intros U B nr E [a0 a1] [b0 b1]. cbn [feqb QuadOps]. unfold qeqb; cbn [fst snd].
  split.
  - intros Hb. apply andb_true_iff in Hb as [H0 H1]. apply E in H0, H1. subst. reflexivity.
  - intros [= -> ->]. apply andb_true_iff; split; apply E; reflexivity.
Qed.
Lemma cubic_eqb_ok : forall {U} (B : Fops U) nr, eqb_ok B -> eqb_ok (CubicOps B nr).
Proof.
  intros U B nr E [[a0 a1] a2] [[b0 b1] b2]. cbn [feqb CubicOps]. unfold ceqb, c0, c1, c2; cbn [fst snd].
  split.
  - intros Hb. apply andb_true_iff in Hb as [Hb H2]. apply andb_true_iff in Hb as [H0 H1].
    apply E in H0, H1, H2. subst. reflexivity.
  - intros [= -> -> ->]. repeat (apply andb_true_iff; split); apply E; reflexivity.
Qed.

(* a computation dictionary B together with the specification dictionary G it stands for *)
Definition stands_for {T U} (B : Fops T) (G : Fops U) : Prop :=
  (exists R, frel R B G) /\ eqb_ok G.

Theorem B1_stands_for_Z1 : forall p, stands_for (B1 p) (Z1 p).
Proof. intros p. split; [exists Rz; apply B1_rel | apply Z1_eqb_ok]. Qed.
Theorem B2_stands_for_Z2 : forall p beta, stands_for (B2 p beta) (Z2 p beta).
Proof.
  intros p beta. split.
  - exists (R2 Rz). apply quad_rel; [apply B1_rel | apply (r_of _ _ _ (B1_rel p))].
  - apply quad_eqb_ok, Z1_eqb_ok.
Qed.
Theorem B3_stands_for_Z3 : forall p beta, stands_for (B3 p beta) (Z3 p beta).
Proof.
  intros p beta. split.
  - exists (R3 Rz). apply cubic_rel; [apply B1_rel | apply (r_of _ _ _ (B1_rel p))].
  - apply cubic_eqb_ok, Z1_eqb_ok.
Qed.

(* any further quadratic / cubic level over dictionaries that stand for each other *)
Theorem BQ_stands_for : forall {T U} (B : Fops T) (G : Fops U) nr,
  stands_for B G -> stands_for (BQ B nr) (BQ G nr).
Proof.
  intros T U B G nr [[R H] E]. split.
  - exists (R2 R). apply quad_rel; [exact H | apply (r_of _ _ _ H)].
  - apply quad_eqb_ok, E.
Qed.
Theorem BC_stands_for : forall {T U} (B : Fops T) (G : Fops U) nr,
  stands_for B G -> stands_for (BC B nr) (BC G nr).
Proof.
  intros T U B G nr [[R H] E]. split.
  - exists (R3 R). apply cubic_rel; [exact H | apply (r_of _ _ _ H)].
  - apply cubic_eqb_ok, E.
Qed.

(* ------------------------------------------------------------------ Part B': every generic
   checker computes the same boolean on related dictionaries *)

Definition Rpt {T U} (R : T -> U -> Prop) (P : option (T * T)) (Q : option (U * U)) : Prop :=
  match P, Q with
  | None, None => True
  | Some (x, y), Some (x', y') => R x x' /\ R y y'
  | _, _ => False
  end.

Section Transfer.
  Context {T U : Type} (R : T -> U -> Prop) (F : Fops T) (G : Fops U) (H : frel R F G).

  Lemma el_rel : forall l, R (el F l) (el G l).
  Proof. intros l. apply (r_of _ _ _ H). Qed.

  Lemma fpow_pos_rel : forall e a a', R a a' -> R (fpow_pos F a e) (fpow_pos G a' e).
  Proof.
    induction e as [e IH | e IH |]; intros a a' Ha; cbn [fpow_pos]; rel H; apply IH; assumption.
  Qed.
  Lemma fpow_rel : forall e a a', R a a' -> R (fpow F a e) (fpow G a' e).
  Proof.
    intros [| e | e] a a' Ha; cbn [fpow]; [apply (r_1 _ _ _ H) | apply fpow_pos_rel; assumption |].
    apply fpow_pos_rel. apply (r_inv _ _ _ H). assumption.
  Qed.

  Lemma el_eq_tr : forall a b, el_eq F a b = el_eq G a b.
  Proof. intros. unfold el_eq. apply (r_eqb _ _ _ H); apply el_rel. Qed.
  Lemma mul_is_tr : forall a b c, mul_is F a b c = mul_is G a b c.
  Proof. intros. unfold mul_is. apply (r_eqb _ _ _ H); rel H; apply el_rel. Qed.
  Lemma pow_is_tr : forall a e c, pow_is F a e c = pow_is G a e c.
  Proof.
    intros. unfold pow_is. f_equal. apply (r_eqb _ _ _ H); [apply fpow_rel|]; apply el_rel.
  Qed.
  Lemma pow_isnt_tr : forall a e c, pow_isnt F a e c = pow_isnt G a e c.
  Proof.
    intros. unfold pow_isnt. do 2 f_equal. apply (r_eqb _ _ _ H); [apply fpow_rel|]; apply el_rel.
  Qed.
  Lemma nonzero_ok_tr : forall a, nonzero_ok F a = nonzero_ok G a.
  Proof. intros. unfold nonzero_ok. f_equal. apply (r_eqb _ _ _ H); rel H; apply el_rel. Qed.
  Lemma mul_pow_is_tr : forall a b e c, mul_pow_is F a b e c = mul_pow_is G a b e c.
  Proof.
    intros. unfold mul_pow_is. f_equal. apply (r_eqb _ _ _ H); [|apply el_rel].
    apply (r_mul _ _ _ H); [apply el_rel | apply fpow_rel; apply el_rel].
  Qed.
  Lemma swu_exceptional_ok_tr : forall q a b z, swu_exceptional_ok F q a b z = swu_exceptional_ok G q a b z.
  Proof.
    intros. unfold swu_exceptional_ok. f_equal. apply (r_eqb _ _ _ H); [|apply (r_1 _ _ _ H)].
    apply fpow_rel. rel H; apply el_rel.
  Qed.
  Lemma fft_root_ok_tr : forall root s, fft_root_ok F root s = fft_root_ok G root s.
  Proof. intros. unfold fft_root_ok. rewrite !pow_is_tr. reflexivity. Qed.
  Lemma fft_large_ok_tr : forall w s b k, fft_large_ok F w s b k = fft_large_ok G w s b k.
  Proof. intros. unfold fft_large_ok. rewrite !pow_is_tr, !pow_isnt_tr. reflexivity. Qed.
  Lemma tower_sq_tr : forall a, tower_sq F a = tower_sq G a.
  Proof. intros. unfold tower_sq. apply (r_coords _ _ _ H). rel H; apply el_rel. Qed.
  Lemma tower_cube_tr : forall a, tower_cube F a = tower_cube G a.
  Proof. intros. unfold tower_cube. apply (r_coords _ _ _ H). rel H; apply el_rel. Qed.
  Lemma frob_ok_from_tr : forall tbl beta p k m pi,
    frob_ok_from F beta p k m pi tbl = frob_ok_from G beta p k m pi tbl.
  Proof.
    induction tbl as [| c tl IH]; intros; cbn [frob_ok_from]; [reflexivity|].
    rewrite pow_is_tr, IH. reflexivity.
  Qed.
  Lemma frob_ok_tr : forall beta p k m tbl, frob_ok F beta p k m tbl = frob_ok G beta p k m tbl.
  Proof. intros. unfold frob_ok. rewrite frob_ok_from_tr. reflexivity. Qed.
  Lemma fp3_sqrt_ok_tr : forall p s tm q, fp3_sqrt_ok F p s tm q = fp3_sqrt_ok G p s tm q.
  Proof. intros. unfold fp3_sqrt_ok. rewrite !pow_is_tr. reflexivity. Qed.

  (* curves *)
  Lemma sw_add_rel : forall a a' P P' Q Q', R a a' -> Rpt R P P' -> Rpt R Q Q' ->
    Rpt R (sw_add F a P Q) (sw_add G a' P' Q').
  Proof.
    intros a a' P P' Q Q' Ha HP HQ.
    destruct P as [[x1 y1] |], P' as [[x1' y1'] |]; cbn [Rpt] in HP; try contradiction;
    destruct Q as [[x2 y2] |], Q' as [[x2' y2'] |]; cbn [Rpt] in HQ; try contradiction;
    cbn [sw_add]; try assumption; try exact I.
    destruct HP as [Hx1 Hy1], HQ as [Hx2 Hy2].
    rewrite (r_eqb _ _ _ H x1 x1' x2 x2') by assumption.
    destruct (feqb G x1' x2').
    - rewrite (r_eqb _ _ _ H (fadd F y1 y2) (fadd G y1' y2') (f0 F) (f0 G)) by rel H.
      destruct (feqb G (fadd G y1' y2') (f0 G)); cbn [Rpt]; [exact I|]. split; rel H.
    - cbn [Rpt]. split; rel H.
  Qed.
  Lemma sw_mul_pos_rel : forall n a a' P P', R a a' -> Rpt R P P' ->
    Rpt R (sw_mul_pos F a n P) (sw_mul_pos G a' n P').
  Proof.
    induction n as [n IH | n IH |]; intros a a' P P' Ha HP; cbn [sw_mul_pos]; [| | assumption];
      repeat (apply sw_add_rel; try assumption); apply IH; assumption.
  Qed.
  Lemma sw_mul_rel : forall n a a' P P', R a a' -> Rpt R P P' ->
    Rpt R (sw_mul F a n P) (sw_mul G a' n P').
  Proof.
    intros [| n | n] a a' P P' Ha HP; cbn [sw_mul Rpt]; try exact I. apply sw_mul_pos_rel; assumption.
  Qed.
  Lemma pt_eqb_rel : forall P P' Q Q', Rpt R P P' -> Rpt R Q Q' -> pt_eqb F P Q = pt_eqb G P' Q'.
  Proof.
    intros P P' Q Q' HP HQ.
    destruct P as [[x1 y1] |], P' as [[x1' y1'] |]; cbn [Rpt] in HP; try contradiction;
    destruct Q as [[x2 y2] |], Q' as [[x2' y2'] |]; cbn [Rpt] in HQ; try contradiction;
    cbn [pt_eqb]; try reflexivity.
    destruct HP, HQ. rewrite (r_eqb _ _ _ H x1 x1' x2 x2'), (r_eqb _ _ _ H y1 y1' y2 y2') by assumption.
    reflexivity.
  Qed.
  Lemma sw_on_ok_tr : forall a b x y, sw_on_ok F a b x y = sw_on_ok G a b x y.
  Proof. intros. unfold sw_on_ok, sw_on. apply (r_eqb _ _ _ H); rel H; apply el_rel. Qed.
  Lemma sw_order_ok_tr : forall a x y r, sw_order_ok F a x y r = sw_order_ok G a x y r.
  Proof.
    intros. unfold sw_order_ok. f_equal. apply pt_eqb_rel; [|exact I].
    apply sw_mul_rel; [apply el_rel|]. cbn [Rpt]. split; apply el_rel.
  Qed.
  Lemma glv_endo_ok_tr : forall a x y beta lam, glv_endo_ok F a x y beta lam = glv_endo_ok G a x y beta lam.
  Proof.
    intros. unfold glv_endo_ok. f_equal. apply pt_eqb_rel.
    - apply sw_mul_rel; [apply el_rel|]. cbn [Rpt]. split; apply el_rel.
    - cbn [Rpt]. split; rel H; apply el_rel.
  Qed.

  (* polynomials as coefficient lists (C13/Poly.v) *)
  Local Notation RL := (Forall2 R).
  Lemma els_rel : forall l, RL (els F l) (els G l).
  Proof. induction l as [| a l IH]; cbn [els map]; constructor; [apply el_rel | exact IH]. Qed.
  Lemma padd_rel : forall p p' q q', RL p p' -> RL q q' -> RL (padd (fadd F) p q) (padd (fadd G) p' q').
  Proof.
    intros p p' q q' Hp. revert q q'. induction Hp as [| a a' p p' Ha Hp IH]; intros q q' Hq.
    - destruct Hq; cbn [padd]; [constructor | constructor; assumption].
    - destruct Hq as [| b b' q q' Hb Hq]; cbn [padd].
      + constructor; assumption.
      + constructor; [rel H | apply IH; assumption].
  Qed.
  Lemma pscale_rel : forall c c' p p', R c c' -> RL p p' -> RL (pscale (fmul F) c p) (pscale (fmul G) c' p').
  Proof.
    intros c c' p p' Hc Hp. unfold pscale. induction Hp as [| a a' p p' Ha Hp IH]; cbn [map]; constructor;
      [rel H | exact IH].
  Qed.
  Lemma pmul_rel : forall p p' q q', RL p p' -> RL q q' ->
    RL (pmul (f0 F) (fadd F) (fmul F) p q) (pmul (f0 G) (fadd G) (fmul G) p' q').
  Proof.
    intros p p' q q' Hp Hq. induction Hp as [| a a' p p' Ha Hp IH]; cbn [pmul]; [constructor|].
    apply padd_rel; [apply pscale_rel; assumption|]. constructor; [apply (r_0 _ _ _ H) | exact IH].
  Qed.
  Lemma pzero_tr : forall p p', RL p p' -> pzero (f0 F) (feqb F) p = pzero (f0 G) (feqb G) p'.
  Proof.
    intros p p' Hp. induction Hp as [| a a' p p' Ha Hp IH]; cbn [pzero]; [reflexivity|].
    rewrite IH. f_equal. apply (r_eqb _ _ _ H); rel H.
  Qed.
  Lemma peqb_tr : forall p p' q q', RL p p' -> RL q q' ->
    peqb (f0 F) (feqb F) p q = peqb (f0 G) (feqb G) p' q'.
  Proof.
    intros p p' q q' Hp. revert q q'. induction Hp as [| a a' p p' Ha Hp IH]; intros q q' Hq.
    - destruct Hq as [| b b' q q' Hb Hq]; cbn [peqb]; [reflexivity|].
      apply (pzero_tr (b :: q) (b' :: q')). constructor; assumption.
    - destruct Hq as [| b b' q q' Hb Hq]; cbn [peqb].
      + apply (pzero_tr (a :: p) (a' :: p')). constructor; assumption.
      + rewrite (IH q q' Hq). f_equal. apply (r_eqb _ _ _ H); assumption.
  Qed.
  Lemma iso_identity_tr : forall a' b' A B xn xd yn yd,
    iso_identity (f0 F) (f1 F) (fadd F) (fmul F) (feqb F) (el F a') (el F b') (el F A) (el F B)
                 (els F xn) (els F xd) (els F yn) (els F yd) =
    iso_identity (f0 G) (f1 G) (fadd G) (fmul G) (feqb G) (el G a') (el G b') (el G A) (el G B)
                 (els G xn) (els G xd) (els G yn) (els G yd).
  Proof.
    intros. unfold iso_identity, iso_lhs, iso_rhs.
    apply peqb_tr;
      repeat (first [ apply pmul_rel | apply padd_rel | apply pscale_rel | apply els_rel | apply el_rel
                    | apply Forall2_cons | apply Forall2_nil | apply (r_0 _ _ _ H) | apply (r_1 _ _ _ H) ]).
  Qed.
  Lemma wb_iso_ok_tr : forall a' b' A B xn xd yn yd,
    wb_iso_ok F a' b' A B xn xd yn yd = wb_iso_ok G a' b' A B xn xd yn yd.
  Proof.
    intros. unfold wb_iso_ok.
    rewrite (pzero_tr _ _ (els_rel xd)), (pzero_tr _ _ (els_rel yd)), (pzero_tr _ _ (els_rel yn)), iso_identity_tr.
    reflexivity.
  Qed.

  Lemma sw_te_ok_tr : forall a d x y mA mB sa sb X Y,
    sw_te_ok F a d x y mA mB sa sb X Y = sw_te_ok G a d x y mA mB sa sb X Y.
  Proof.
    intros. unfold sw_te_ok.
    repeat match goal with
           | |- andb _ _ = andb _ _ => f_equal
           | |- negb _ = negb _ => f_equal
           | |- feqb F _ _ = feqb G _ _ => apply (r_eqb _ _ _ H); rel H; apply el_rel
           end.
    match goal with
    | |- (if ?c then _ else _) = (if ?c' then _ else _) =>
        replace c with c' by (symmetry; apply (r_eqb _ _ _ H); rel H; apply el_rel); destruct c'
    end; apply (r_eqb _ _ _ H); rel H; apply el_rel.
  Qed.

  Definition Rpr (P : T * T) (Q : U * U) : Prop := R (fst P) (fst Q) /\ R (snd P) (snd Q).
  Lemma te_add_rel : forall a a' d d' P P' Q Q', R a a' -> R d d' -> Rpr P P' -> Rpr Q Q' ->
    Rpr (te_add F a d P Q) (te_add G a' d' P' Q').
  Proof.
    intros a a' d d' [x1 y1] [x1' y1'] [x2 y2] [x2' y2'] Ha Hd [? ?] [? ?]; cbn [fst snd] in *.
    unfold te_add, Rpr; cbn [fst snd]. split; rel H.
  Qed.
  Lemma te_mul_pos_rel : forall n a a' d d' P P', R a a' -> R d d' -> Rpr P P' ->
    Rpr (te_mul_pos F a d n P) (te_mul_pos G a' d' n P').
  Proof.
    induction n as [n IH | n IH |]; intros a a' d d' P P' Ha Hd HP; cbn [te_mul_pos]; [| | assumption];
      repeat (apply te_add_rel; try assumption); apply IH; assumption.
  Qed.
  Lemma te_mul_rel : forall n a a' d d' P P', R a a' -> R d d' -> Rpr P P' ->
    Rpr (te_mul F a d n P) (te_mul G a' d' n P').
  Proof.
    intros [| n | n] a a' d d' P P' Ha Hd HP; cbn [te_mul]; try (apply te_mul_pos_rel; assumption);
      split; cbn [fst snd]; rel H.
  Qed.
  Lemma te_on_ok_tr : forall a d x y, te_on_ok F a d x y = te_on_ok G a d x y.
  Proof. intros. unfold te_on_ok, te_on. apply (r_eqb _ _ _ H); rel H; apply el_rel. Qed.
  Lemma te_order_ok_tr : forall a d x y r, te_order_ok F a d x y r = te_order_ok G a d x y r.
  Proof.
    intros. unfold te_order_ok.
    pose proof (te_mul_rel r (el F a) (el G a) (el F d) (el G d) (el F x, el F y) (el G x, el G y)
                  (el_rel a) (el_rel d) (conj (el_rel x) (el_rel y))) as Hm.
    destruct (te_mul F (el F a) (el F d) r (el F x, el F y)) as [rx ry].
    destruct (te_mul G (el G a) (el G d) r (el G x, el G y)) as [rx' ry'].
    destruct Hm as [Hx Hy]; cbn [fst snd] in *.
    rewrite (r_eqb _ _ _ H rx rx' (f0 F) (f0 G)), (r_eqb _ _ _ H ry ry' (f1 F) (f1 G)) by rel H.
    rewrite (r_eqb _ _ _ H (el F x) (el G x) (f0 F) (f0 G)), (r_eqb _ _ _ H (el F y) (el G y) (f1 F) (f1 G))
      by (rel H; apply el_rel).
    reflexivity.
  Qed.
  Lemma mont_te_ok_tr : forall q a d ma mb, mont_te_ok F q a d ma mb = mont_te_ok G q a d ma mb.
  Proof.
    intros. unfold mont_te_ok.
    rewrite (r_eqb _ _ _ H (fsub F (el F a) (el F d)) (fsub G (el G a) (el G d)) (f0 F) (f0 G))
      by (rel H; apply el_rel).
    rewrite (r_eqb _ _ _ H (fmul F (el F ma) (fsub F (el F a) (el F d))) (fmul G (el G ma) (fsub G (el G a) (el G d)))
               (fadd F (fadd F (el F a) (el F d)) (fadd F (el F a) (el F d)))
               (fadd G (fadd G (el G a) (el G d)) (fadd G (el G a) (el G d)))) by (rel H; apply el_rel).
    rewrite (r_eqb _ _ _ H (fpow F (fmul F (el F mb) (fsub F (el F a) (el F d))) ((q - 1) / 2))
               (fpow G (fmul G (el G mb) (fsub G (el G a) (el G d))) ((q - 1) / 2)) (f1 F) (f1 G)).
    - reflexivity.
    - apply fpow_rel. rel H; apply el_rel.
    - rel H.
  Qed.
End Transfer.

(* ------------------------------------------------------------------ Part C: spec lemmas *)

Ltac andb_split H :=
  repeat match type of H with
         | (_ && _) = true => let H' := fresh "Hc" in apply andb_true_iff in H as [H H']
         end.
Ltac zify_b :=
  repeat match goal with
         | H : (_ =? _) = true |- _ => apply Z.eqb_eq in H
         | H : (_ <? _) = true |- _ => apply Z.ltb_lt in H
         | H : (_ <=? _) = true |- _ => apply Z.leb_le in H
         | H : negb _ = true |- _ => apply negb_true_iff in H
         | H : (_ =? _) = false |- _ => apply Z.eqb_neq in H
         end.

(* ---- integer level *)

Theorem mont_consts_spec : forall p n r r2 inv, mont_consts_ok p n r r2 inv = true ->
  1 < p /\ Z.odd p = true /\ 2 ^ (64 * (n - 1)) <= p < 2 ^ (64 * n) /\
  r = 2 ^ (64 * n) mod p /\ r2 = (r * r) mod p /\
  0 <= inv < 2 ^ 64 /\ (inv * p) mod 2 ^ 64 = 2 ^ 64 - 1.
Proof.
  intros p n r r2 inv H. unfold mont_consts_ok, mont_r, W64 in H. andb_split H. zify_b.
  repeat split; assumption.
Qed.

Theorem mont_r2_is_r_squared : forall p n, 0 <= n -> p <> 0 ->
  mont_r2 p n = (mont_r p n * mont_r p n) mod p.
Proof.
  intros p n Hn Hp. unfold mont_r2, mont_r. rewrite <- Z.mul_mod by assumption.
  rewrite <- Z.pow_add_r by lia. f_equal. f_equal. lia.
Qed.

Theorem limbs_spec : forall n l v, (val_limbs l =? v) && limbs_wf n l = true ->
  val_limbs l = v /\ Z.of_nat (length l) = n /\ Forall (fun x => 0 <= x < 2 ^ 64) l.
Proof.
  intros n l v H. unfold limbs_wf in H. andb_split H. andb_split Hc. zify_b. repeat split; try assumption.
  apply Forall_forall. intros x Hx. rewrite forallb_forall in Hc0. specialize (Hc0 x Hx).
  andb_split Hc0. zify_b. unfold W64 in *. lia.
Qed.

Theorem mont_form_spec : forall p r std raw, mont_form_ok p r std raw = true -> raw = (std * r) mod p.
Proof. intros p r std raw H. unfold mont_form_ok in H. zify_b. assumption. Qed.

Theorem bits_spec : forall p bits, bits_ok p bits = true -> 0 < bits /\ 2 ^ (bits - 1) <= p < 2 ^ bits.
Proof. intros p bits H. unfold bits_ok in H. andb_split H. zify_b. lia. Qed.

Theorem two_adic_spec : forall p s t tm pm, two_adic_ok p s t tm pm = true ->
  0 < s /\ p - 1 = 2 ^ s * t /\ Z.odd t = true /\ tm = (t - 1) / 2 /\ pm = (p - 1) / 2.
Proof. intros p s t tm pm H. unfold two_adic_ok in H. andb_split H. zify_b. repeat split; assumption. Qed.

Theorem gen_nonresidue_spec : forall p g, gen_nonresidue_ok p g = true ->
  2 < p /\ g ^ ((p - 1) / 2) mod p = p - 1.
Proof.
  intros p g H. unfold gen_nonresidue_ok in H. andb_split H. zify_b.
  rewrite fast_pow_mod_spec in Hc by (try apply Z.div_pos; lia). split; assumption.
Qed.

Theorem two_adic_root_spec : forall p g s t root, two_adic_root_ok p g s t root = true ->
  2 < p /\ 0 < s /\ root = g ^ t mod p /\ root ^ (2 ^ s) mod p = 1 /\ root ^ (2 ^ (s - 1)) mod p = p - 1.
Proof.
  intros p g s t root H. unfold two_adic_root_ok in H. andb_split H. zify_b.
  rewrite fast_pow_mod_spec in Hc1 by lia.
  rewrite fast_pow_mod_spec in Hc0 by (try apply Z.pow_nonneg; lia).
  rewrite fast_pow_mod_spec in Hc by (try apply Z.pow_nonneg; lia).
  repeat split; assumption.
Qed.

Theorem plus_one_div_four_spec : forall p o, plus_one_div_four_ok p o = true ->
  (p mod 4 = 3 /\ o = [(p + 1) / 4]) \/ (p mod 4 <> 3 /\ o = []).
Proof.
  intros p o H. unfold plus_one_div_four_ok in H.
  destruct (Z.eqb_spec (p mod 4) 3) as [E | E].
  - left. destruct o as [| v [| ? ?]]; try discriminate. zify_b. subst. split; [assumption | reflexivity].
  - right. destruct o; [split; [assumption | reflexivity] | discriminate].
Qed.

Theorem large_subgroup_spec : forall p g s b k w, large_subgroup_ok p g s b k w = true ->
  let n := 2 ^ s * b ^ k in
  2 < p /\ 0 < s /\ 1 < b /\ 0 < k /\ (p - 1) mod n = 0 /\ w = g ^ ((p - 1) / n) mod p /\
  w ^ (n / 2) mod p <> 1 /\ w ^ (n / b) mod p <> 1.
Proof.
  intros p g s b k w H n. unfold large_subgroup_ok in H. fold n in H. andb_split H. zify_b.
  assert (Hn : 0 < n) by (unfold n; apply Z.mul_pos_pos; apply Z.pow_pos_nonneg; lia).
  rewrite fast_pow_mod_spec in Hc1 by (try (apply Z.div_pos; lia); lia).
  rewrite fast_pow_mod_spec in Hc0 by (try (apply Z.div_pos; lia); lia).
  rewrite fast_pow_mod_spec in Hc by (try (apply Z.div_pos; lia); lia).
  repeat split; assumption.
Qed.

Theorem flags_spec : forall p n spare mul, flags_ok p n spare mul = true ->
  spare = (p <? 2 ^ (64 * n - 1)) /\
  mul = ((p <? 2 ^ (64 * n - 1)) && negb (p =? 2 ^ (64 * n - 1) - 1)).
Proof.
  intros p n spare mul H. unfold flags_ok in H. andb_split H.
  apply eqb_prop in H, Hc. split; assumption.
Qed.
Theorem flag_square_spec : forall p n sq, flag_square_ok p n sq = true ->
  sq = ((p <? 2 ^ (64 * n - 2)) && negb (p =? 2 ^ (64 * n - 2) - 1)).
Proof. intros p n sq H. unfold flag_square_ok in H. apply eqb_prop in H. assumption. Qed.

Theorem cofactor_inv_spec : forall r h hinv, cofactor_inv_ok r h hinv = true ->
  1 < r /\ 0 <= hinv < r /\ (h * hinv) mod r = 1.
Proof. intros r h hinv H. unfold cofactor_inv_ok in H. andb_split H. zify_b. lia. Qed.

Theorem hasse_spec : forall q h r, hasse_ok q h r = true -> (h * r - (q + 1)) ^ 2 <= 4 * q.
Proof. intros q h r H. unfold hasse_ok in H. zify_b. assumption. Qed.

Theorem glv_lambda_spec : forall r lam, glv_lambda_ok r lam = true ->
  0 <= lam < r /\ (lam * lam + lam + 1) mod r = 0.
Proof. intros r lam H. unfold glv_lambda_ok in H. andb_split H. zify_b. lia. Qed.

Theorem glv_lattice_spec : forall r lam co, glv_lattice_ok r lam co = true ->
  exists n11 n12 n21 n22, co = [n11; n12; n21; n22] /\ 0 < r /\
    (n11 + lam * n12) mod r = 0 /\ (n21 + lam * n22) mod r = 0 /\ Z.abs (n11 * n22 - n12 * n21) = r.
Proof.
  intros r lam co H. unfold glv_lattice_ok in H.
  destruct co as [| n11 [| n12 [| n21 [| n22 [| ? ?]]]]]; try discriminate.
  andb_split H. zify_b. exists n11, n12, n21, n22. repeat split; assumption.
Qed.

Theorem bls12_params_spec : forall x p r, bls12_params_ok x p r = true ->
  r = x ^ 4 - x ^ 2 + 1 /\ 3 * p = (x - 1) ^ 2 * r + 3 * x.
Proof. intros x p r H. unfold bls12_params_ok in H. andb_split H. zify_b. split; assumption. Qed.
Theorem bn_params_spec : forall x p r, bn_params_ok x p r = true ->
  p = 36 * x ^ 4 + 36 * x ^ 3 + 24 * x ^ 2 + 6 * x + 1 /\ r = 36 * x ^ 4 + 36 * x ^ 3 + 18 * x ^ 2 + 6 * x + 1.
Proof. intros x p r H. unfold bn_params_ok in H. andb_split H. zify_b. split; assumption. Qed.
Theorem bw6_params_spec : forall x r xm l1, bw6_params_ok x r xm l1 = true ->
  3 * r = (x - 1) ^ 2 * (x ^ 4 - x ^ 2 + 1) + 3 * x /\ 3 * xm = Z.abs (x - 1) /\ l1 = x.
Proof. intros x r xm l1 H. unfold bw6_params_ok in H. andb_split H. zify_b. repeat split; assumption. Qed.
Theorem mnt4_final_exp_spec : forall p r w1 w0, mnt4_final_exp_ok p r w1 w0 = true ->
  (w1 * p + w0) * r = p * p + 1.
Proof. intros p r w1 w0 H. unfold mnt4_final_exp_ok in H. zify_b. assumption. Qed.
Theorem mnt6_final_exp_spec : forall p r w1 w0, mnt6_final_exp_ok p r w1 w0 = true ->
  (w1 * p + w0) * r = p * p - p + 1.
Proof. intros p r w1 w0 H. unfold mnt6_final_exp_ok in H. zify_b. assumption. Qed.
Theorem sqrt_precomp_spec : forall p g kind v, sqrt_precomp_ok p g kind v = true ->
  (p mod 4 = 3 /\ kind = 2 /\ v = [(p + 1) / 4]) \/
  (p mod 4 <> 3 /\ kind = 1 /\ exists s q tm, v = [s; q; tm] /\ 2 < p /\ 0 < s /\ 0 <= tm /\
     p - 1 = 2 ^ s * (2 * tm + 1) /\ q = g ^ (2 * tm + 1) mod p /\ q ^ (2 ^ (s - 1)) mod p = p - 1).
Proof.
  intros p g kind v H. unfold sqrt_precomp_ok in H.
  destruct (Z.eqb_spec (p mod 4) 3) as [E | E].
  - left. andb_split H. destruct v as [| m [| ? ?]]; try discriminate. zify_b. subst. repeat split; assumption.
  - right. andb_split H. destruct v as [| s [| q [| tm [| ? ?]]]]; try discriminate.
    andb_split Hc. zify_b.
    rewrite fast_pow_mod_spec in Hc1 by lia.
    rewrite fast_pow_mod_spec in Hc0 by (try apply Z.pow_nonneg; lia).
    split; [assumption|]. split; [assumption|]. exists s, q, tm. repeat split; assumption.
Qed.

Theorem bw6_curve_spec : forall x p r ht hy t0 h1 h2, bw6_curve_ok x p r ht hy t0 h1 h2 = true ->
  let t := bw6_t x r ht t0 in let y3 := bw6_y3 x r hy t0 in
  12 * p = 3 * t ^ 2 + y3 ^ 2 /\ t = p + 1 - h1 * r /\ (2 * (p + 1 - h2 * r) - t) ^ 2 = y3 ^ 2.
Proof.
  intros x p r ht hy t0 h1 h2 H t y3. unfold bw6_curve_ok in H. fold t y3 in H. andb_split H. zify_b.
  repeat split; assumption.
Qed.

Theorem ate_loop_mod_spec : forall l p r, ate_loop_mod_ok l p r = true -> 0 < l /\ 0 < r /\ (l - p) mod r = 0.
Proof. intros l p r H. unfold ate_loop_mod_ok in H. andb_split H. zify_b. repeat split; assumption. Qed.

Lemma lists_eqb_eq : forall a b, lists_eqb a b = true -> a = b.
Proof.
  induction a as [| x a IH]; intros [| y b] H; unfold lists_eqb in H; cbn [length combine forallb Nat.eqb fst snd] in H;
    try discriminate; [reflexivity|].
  andb_split H. andb_split Hc. zify_b. subst. f_equal. apply IH. unfold lists_eqb. rewrite H, Hc0. reflexivity.
Qed.
Theorem embeds_ok_spec : forall x c deg, embeds_ok x c deg = true -> x = c :: repeat 0 (Z.to_nat deg - 1).
Proof. intros x c deg H. apply lists_eqb_eq. exact H. Qed.
Theorem opt_embeds_ok_spec : forall o c deg, opt_embeds_ok o c deg = true ->
  (o = [] /\ c = []) \/ (exists v, c = [v] /\ o = [v :: repeat 0 (Z.to_nat deg - 1)]).
Proof.
  intros o c deg H. unfold opt_embeds_ok in H.
  destruct o as [| w [| ? ?]], c as [| v [| ? ?]]; try discriminate.
  - left. split; reflexivity.
  - right. exists v. split; [reflexivity|]. apply embeds_ok_spec in H. subst. reflexivity.
Qed.

Theorem naf_ok_spec : forall l, naf_ok l = true -> Forall (fun d => -1 <= d <= 1) l.
Proof.
  intros l H. unfold naf_ok in H. apply Forall_forall. intros d Hd. rewrite forallb_forall in H.
  specialize (H d Hd). andb_split H. zify_b. lia.
Qed.

(* ---- field level: stated over the specification dictionary G that B stands for *)

Section FieldSpecs.
  Context {T U : Type} (B : Fops T) (G : Fops U) (SF : stands_for B G).

  Theorem el_eq_spec : forall a b, el_eq B a b = true -> el G a = el G b.
  Proof.
    destruct SF as [[R H] E]. intros a b Hb. rewrite (el_eq_tr R B G H) in Hb. apply E. exact Hb.
  Qed.
  Theorem mul_is_spec : forall a b c, mul_is B a b c = true -> fmul G (el G a) (el G b) = el G c.
  Proof.
    destruct SF as [[R H] E]. intros a b c Hb. rewrite (mul_is_tr R B G H) in Hb. apply E. exact Hb.
  Qed.
  Theorem pow_is_spec : forall a e c, pow_is B a e c = true -> 0 <= e /\ fpow G (el G a) e = el G c.
  Proof.
    destruct SF as [[R H] E]. intros a e c Hb. rewrite (pow_is_tr R B G H) in Hb. unfold pow_is in Hb.
    andb_split Hb. zify_b. split; [assumption | apply E; assumption].
  Qed.
  Theorem pow_isnt_spec : forall a e c, pow_isnt B a e c = true -> 0 <= e /\ fpow G (el G a) e <> el G c.
  Proof.
    destruct SF as [[R H] E]. intros a e c Hb. rewrite (pow_isnt_tr R B G H) in Hb. unfold pow_isnt in Hb.
    andb_split Hb. zify_b. split; [assumption|]. intros Heq. apply E in Heq. rewrite Heq in Hc. discriminate.
  Qed.

  Theorem nonzero_ok_spec : forall a, nonzero_ok B a = true -> el G a <> f0 G.
  Proof.
    destruct SF as [[R H] E]. intros a Hb. rewrite (nonzero_ok_tr R B G H) in Hb. unfold nonzero_ok in Hb.
    zify_b. intros Heq. apply E in Heq. rewrite Heq in Hb. discriminate.
  Qed.
  Theorem mul_pow_is_spec : forall a b e c, mul_pow_is B a b e c = true ->
    0 <= e /\ fmul G (el G a) (fpow G (el G b) e) = el G c.
  Proof.
    destruct SF as [[R H] E]. intros a b e c Hb. rewrite (mul_pow_is_tr R B G H) in Hb. unfold mul_pow_is in Hb.
    andb_split Hb. zify_b. split; [assumption | apply E; assumption].
  Qed.
  Theorem fft_root_ok_spec : forall root s, fft_root_ok B root s = true ->
    0 < s /\ fpow G (el G root) (2 ^ s) = el G [1] /\ fpow G (el G root) (2 ^ (s - 1)) = el G [-1].
  Proof.
    intros root s Hb. unfold fft_root_ok in Hb.
    apply andb_true_iff in Hb as [Hb H3]. apply andb_true_iff in Hb as [H1 H2].
    apply Z.ltb_lt in H1. apply pow_is_spec in H2, H3. repeat split; [assumption | apply H2 | apply H3].
  Qed.
  Theorem fft_large_ok_spec : forall w s b k, fft_large_ok B w s b k = true ->
    let n := 2 ^ s * b ^ k in
    0 < s /\ 1 < b /\ 0 < k /\ fpow G (el G w) n = el G [1] /\
    fpow G (el G w) (n / 2) <> el G [1] /\ fpow G (el G w) (n / b) <> el G [1].
  Proof.
    intros w s b k Hb n. unfold fft_large_ok in Hb. fold n in Hb.
    apply andb_true_iff in Hb as [Hb H6]. apply andb_true_iff in Hb as [Hb H5].
    apply andb_true_iff in Hb as [Hb H4]. apply andb_true_iff in Hb as [Hb H3].
    apply andb_true_iff in Hb as [H1 H2].
    apply Z.ltb_lt in H1, H2, H3. apply pow_is_spec in H4. apply pow_isnt_spec in H5, H6.
    repeat split; try assumption; [apply H4 | apply H5 | apply H6].
  Qed.
  Theorem swu_exceptional_ok_spec : forall q a b z, swu_exceptional_ok B q a b z = true ->
    let x := fmul G (el G b) (finv G (fmul G (el G z) (el G a))) in
    Z.odd q = true /\
    fpow G (fadd G (fadd G (fmul G (fmul G x x) x) (fmul G (el G a) x)) (el G b)) ((q - 1) / 2) = f1 G.
  Proof.
    destruct SF as [[R H] E]. intros q a b z Hb. rewrite (swu_exceptional_ok_tr R B G H) in Hb.
    unfold swu_exceptional_ok in Hb. cbv zeta. andb_split Hb. split; [assumption | apply E; assumption].
  Qed.
  (* the shipped coefficient lists satisfy the isogeny identity over the specification field
     (C13/IsoProofs.v turns [iso_identity ... = true] into "points of E' go to points of E") *)
  Theorem wb_iso_ok_spec : forall a' b' A Bc xn xd yn yd, wb_iso_ok B a' b' A Bc xn xd yn yd = true ->
    pzero (f0 G) (feqb G) (els G xd) = false /\ pzero (f0 G) (feqb G) (els G yd) = false /\
    pzero (f0 G) (feqb G) (els G yn) = false /\
    iso_identity (f0 G) (f1 G) (fadd G) (fmul G) (feqb G) (el G a') (el G b') (el G A) (el G Bc)
                 (els G xn) (els G xd) (els G yn) (els G yd) = true.
  Proof.
    destruct SF as [[R H] E]. intros a' b' A Bc xn xd yn yd Hb. rewrite (wb_iso_ok_tr R B G H) in Hb.
    unfold wb_iso_ok in Hb. andb_split Hb. zify_b. repeat split; assumption.
  Qed.
  Theorem sw_te_ok_spec : forall a d x y mA mB sa sb X Y, sw_te_ok B a d x y mA mB sa sb X Y = true ->
    let two := fadd G (f1 G) (f1 G) in let three := fadd G two (f1 G) in let four := fadd G two two in
    let nine := fmul G three three in
    let Am := el G mA in let Bm := el G mB in
    let u3 := fsub G (fmul G three (fmul G Bm (el G X))) Am in
    let v3 := fmul G three (fmul G (el G x) (fmul G Bm (el G Y))) in
    let k := fmul G Bm (fsub G (el G a) (el G d)) in
    three <> f0 G /\ Bm <> f0 G /\
    fmul G (fmul G three (fmul G Bm Bm)) (el G sa) = fsub G three (fmul G Am Am) /\
    fmul G (fmul G (fmul G nine three) (fmul G (fmul G Bm Bm) Bm)) (el G sb) =
      fsub G (fmul G two (fmul G (fmul G Am Am) Am)) (fmul G nine Am) /\
    el G y <> f1 G /\
    fmul G u3 (fsub G (f1 G) (el G y)) = fmul G three (fadd G (f1 G) (el G y)) /\
    ((k = four /\ v3 = u3) \/ fmul G (fmul G v3 v3) k = fmul G four (fmul G u3 u3)).
  Proof.
    destruct SF as [[R H] E]. intros a d x y mA mB sa sb X Y Hb. rewrite (sw_te_ok_tr R B G H) in Hb.
    unfold sw_te_ok in Hb. cbv zeta. andb_split Hb. zify_b.
    assert (NE : forall u w, feqb G u w = false -> u <> w).
    { intros u w Hf Heq. apply E in Heq. rewrite Heq in Hf. discriminate. }
    repeat split; try (apply E; assumption); try (apply NE; assumption).
    match type of Hc with
    | (if ?c then _ else _) = true => destruct c eqn:Ek
    end.
    - left. split; apply E; assumption.
    - right. apply E; assumption.
  Qed.

  Lemma frob_from_spec : forall tbl beta p k m j, 0 <= p ->
    frob_ok_from B beta p k m (p ^ Z.of_nat j) tbl = true ->
    forall i, (i < length tbl)%nat ->
      (p ^ Z.of_nat (j + i) - 1) mod k = 0 /\
      fpow G (el G beta) (m * ((p ^ Z.of_nat (j + i) - 1) / k)) = el G (nth i tbl []).
  Proof.
    induction tbl as [| c tl IH]; intros beta p k m j Hp Hb i Hi; cbn [length] in Hi; [lia|].
    cbn [frob_ok_from] in Hb. andb_split Hb. zify_b.
    destruct i as [| i'].
    - rewrite Nat.add_0_r. cbn [nth]. split; [assumption|]. apply pow_is_spec in Hc0. apply Hc0.
    - cbn [nth]. replace (j + S i')%nat with (S j + i')%nat by lia. apply IH; [assumption | | lia].
      replace (p ^ Z.of_nat (S j)) with (p ^ Z.of_nat j * p); [assumption|].
      rewrite Nat2Z.inj_succ, Z.pow_succ_r by lia. ring.
  Qed.
  (* FROBENIUS_COEFF table: entry i is beta^(m (p^i - 1)/k), the division being exact *)
  Theorem frob_ok_spec : forall beta p k m tbl, frob_ok B beta p k m tbl = true ->
    0 < k /\ 0 < m /\ 1 < p /\
    forall i, (i < length tbl)%nat ->
      (p ^ Z.of_nat i - 1) mod k = 0 /\
      fpow G (el G beta) (m * ((p ^ Z.of_nat i - 1) / k)) = el G (nth i tbl []).
  Proof.
    intros beta p k m tbl Hb. unfold frob_ok in Hb. andb_split Hb. zify_b.
    split; [assumption|]. split; [assumption|]. split; [assumption|]. intros i Hi.
    apply (frob_from_spec tbl beta p k m 0); [lia | exact Hc | exact Hi].
  Qed.

  Theorem fp3_sqrt_spec : forall p s tm q, fp3_sqrt_ok B p s tm q = true ->
    0 < s /\ p ^ 3 - 1 = 2 ^ s * (2 * tm + 1) /\
    fpow G (el G q) (2 ^ s) = el G [1] /\ fpow G (el G q) (2 ^ (s - 1)) = el G [-1].
  Proof.
    intros p s tm q Hb. unfold fp3_sqrt_ok in Hb. andb_split Hb. zify_b.
    apply pow_is_spec in Hc0, Hc. repeat split; try assumption; [apply Hc0 | apply Hc].
  Qed.

  (* ---- curves *)
  Lemma pt_eqb_sound : eqb_ok G -> forall P Q, pt_eqb G P Q = true -> P = Q.
  Proof.
    intros E [[x1 y1] |] [[x2 y2] |] Hb; cbn [pt_eqb] in Hb; try discriminate; [|reflexivity].
    andb_split Hb. apply E in Hb, Hc. subst. reflexivity.
  Qed.

  Theorem sw_on_ok_spec : forall a b x y, sw_on_ok B a b x y = true ->
    fmul G (el G y) (el G y) =
    fadd G (fadd G (fmul G (fmul G (el G x) (el G x)) (el G x)) (fmul G (el G a) (el G x))) (el G b).
  Proof.
    destruct SF as [[R H] E]. intros a b x y Hb. rewrite (sw_on_ok_tr R B G H) in Hb.
    unfold sw_on_ok, sw_on in Hb. apply E. exact Hb.
  Qed.
  (* r * G = O in the affine chord-and-tangent law over the specification field *)
  Theorem sw_order_ok_spec : forall a x y r, sw_order_ok B a x y r = true ->
    0 < r /\ sw_mul G (el G a) r (Some (el G x, el G y)) = None.
  Proof.
    destruct SF as [[R H] E]. intros a x y r Hb. rewrite (sw_order_ok_tr R B G H) in Hb.
    unfold sw_order_ok in Hb. andb_split Hb. zify_b. split; [assumption|].
    apply (pt_eqb_sound E). assumption.
  Qed.
  Theorem glv_endo_ok_spec : forall a x y beta lam, glv_endo_ok B a x y beta lam = true ->
    0 < lam /\
    sw_mul G (el G a) lam (Some (el G x, el G y)) = Some (fmul G (el G beta) (el G x), el G y).
  Proof.
    destruct SF as [[R H] E]. intros a x y beta lam Hb. rewrite (glv_endo_ok_tr R B G H) in Hb.
    unfold glv_endo_ok in Hb. andb_split Hb. zify_b. split; [assumption|].
    apply (pt_eqb_sound E). assumption.
  Qed.

  Theorem te_on_ok_spec : forall a d x y, te_on_ok B a d x y = true ->
    fadd G (fmul G (el G a) (fmul G (el G x) (el G x))) (fmul G (el G y) (el G y)) =
    fadd G (f1 G) (fmul G (el G d) (fmul G (fmul G (el G x) (el G x)) (fmul G (el G y) (el G y)))).
  Proof.
    destruct SF as [[R H] E]. intros a d x y Hb. rewrite (te_on_ok_tr R B G H) in Hb.
    unfold te_on_ok, te_on in Hb. apply E. exact Hb.
  Qed.
  Theorem te_order_ok_spec : forall a d x y r, te_order_ok B a d x y r = true ->
    0 < r /\ te_mul G (el G a) (el G d) r (el G x, el G y) = (f0 G, f1 G) /\
    (el G x, el G y) <> (f0 G, f1 G).
  Proof.
    destruct SF as [[R H] E]. intros a d x y r Hb. rewrite (te_order_ok_tr R B G H) in Hb.
    unfold te_order_ok in Hb. andb_split Hb. zify_b.
    destruct (te_mul G (el G a) (el G d) r (el G x, el G y)) as [rx ry].
    andb_split Hc0. apply E in Hc0, Hc1. subst. repeat split; try assumption.
    intros [= Hx Hy]. rewrite Hx, Hy in Hc.
    assert (E0 : feqb G (f0 G) (f0 G) = true) by (apply E; reflexivity).
    assert (E1 : feqb G (f1 G) (f1 G) = true) by (apply E; reflexivity).
    rewrite E0, E1 in Hc. discriminate.
  Qed.
  Theorem mont_te_ok_spec : forall q a d ma mb, mont_te_ok B q a d ma mb = true ->
    fsub G (el G a) (el G d) <> f0 G /\
    fmul G (el G ma) (fsub G (el G a) (el G d)) =
      fadd G (fadd G (el G a) (el G d)) (fadd G (el G a) (el G d)) /\
    fpow G (fmul G (el G mb) (fsub G (el G a) (el G d))) ((q - 1) / 2) = f1 G.
  Proof.
    destruct SF as [[R H] E]. intros q a d ma mb Hb. rewrite (mont_te_ok_tr R B G H) in Hb.
    unfold mont_te_ok in Hb. andb_split Hb. zify_b.
    repeat split; try (apply E; assumption).
    intros Heq. apply E in Heq. rewrite Heq in Hb. discriminate.
  Qed.
End FieldSpecs.
