(* C16 -- the integer-level model functions evaluated by run_C16 (and compared with the
   const fns of /repo) are the mathematical functions the checkers speak about. *)
From Coq Require Import ZArith List Bool Lia.
From V Require Import Base.Field C16.ConfigChecks.
Import ListNotations.
Open Scope Z_scope.

Lemma two_adic_fuel_spec : forall k v s, 0 < v < 2 ^ Z.of_nat k -> 0 <= s ->
  let '(s', t) := two_adic_fuel k v s in
  2 ^ s' * t = 2 ^ s * v /\ Z.odd t = true /\ s <= s'.
Proof.
  induction k as [| k IH]; intros v s Hv Hs.
  - cbn in Hv. lia.
  - cbn [two_adic_fuel]. destruct (Z.even v) eqn:Ev.
    + assert (Hv2 : v = 2 * (v / 2)).
      { apply Z.even_spec in Ev. destruct Ev as [w ->]. rewrite Z.mul_comm, Z.div_mul by lia. ring. }
      assert (Hr : 0 < v / 2 < 2 ^ Z.of_nat k).
      { rewrite Nat2Z.inj_succ, Z.pow_succ_r in Hv by lia. lia. }
      specialize (IH (v / 2) (s + 1) Hr ltac:(lia)).
      destruct (two_adic_fuel k (v / 2) (s + 1)) as [s' t]. destruct IH as [E [O L]].
      repeat split; [| assumption | lia].
      rewrite E, Z.pow_add_r, Z.pow_1_r by lia. rewrite Hv2 at 2. ring.
    + repeat split; [| lia]. rewrite <- Z.negb_even, Ev. reflexivity.
Qed.

(* two_adic p = (s, t): p - 1 = 2^s * t with t odd (BigInt::two_adic_valuation / _coefficient) *)
Theorem two_adic_model_spec : forall p, 1 < p ->
  let '(s, t) := two_adic p in p - 1 = 2 ^ s * t /\ Z.odd t = true /\ 0 <= s.
Proof.
  intros p Hp. unfold two_adic. destruct (Z.leb_spec p 1) as [? | _]; [lia|].
  pose proof (Z.log2_spec p ltac:(lia)) as [_ Hl].
  assert (Hv : 0 < p - 1 < 2 ^ Z.of_nat (Z.to_nat (Z.log2 p) + 1)).
  { rewrite Nat2Z.inj_add, Z2Nat.id by apply Z.log2_nonneg. change (Z.of_nat 1) with 1.
    replace (Z.log2 p + 1) with (Z.succ (Z.log2 p)) by lia. lia. }
  pose proof (two_adic_fuel_spec _ _ 0 Hv ltac:(lia)) as H.
  destruct (two_adic_fuel (Z.to_nat (Z.log2 p) + 1) (p - 1) 0) as [s t].
  destruct H as [E [O L]]. repeat split; [| assumption | assumption].
  rewrite E. rewrite Z.pow_0_r. ring.
Qed.

(* num_bits p = bit length (BigInt::const_num_bits on a minimal-length representation) *)
Theorem num_bits_model_spec : forall p, 0 < p -> 2 ^ (num_bits p - 1) <= p < 2 ^ num_bits p.
Proof.
  intros p Hp. unfold num_bits. destruct (Z.leb_spec p 0) as [? | _]; [lia|].
  pose proof (Z.log2_spec p Hp) as [H1 H2].
  replace (Z.log2 p + 1 - 1) with (Z.log2 p) by lia.
  replace (Z.log2 p + 1) with (Z.succ (Z.log2 p)) by lia. lia.
Qed.

(* pow_mod of Base/Field.v (used by run_C16 for Fp::pow and the root derivation) is modular
   exponentiation *)
Lemma pow_mod_pos_spec : forall e a p, p <> 0 -> pow_mod_pos a e p = (a ^ Zpos e) mod p.
Proof.
  induction e as [e IH | e IH |]; intros a p Hp; cbn [pow_mod_pos].
  - rewrite IH by assumption.
    rewrite Pos2Z.inj_xI, Z.pow_add_r, Z.pow_1_r, Z.pow_twice_r by lia.
    rewrite <- Z.mul_mod by assumption.
    rewrite Z.mul_mod_idemp_l by assumption. reflexivity.
  - rewrite IH by assumption.
    rewrite Pos2Z.inj_xO, Z.pow_twice_r.
    rewrite <- Z.mul_mod by assumption. reflexivity.
  - rewrite Z.pow_1_r. reflexivity.
Qed.
Theorem pow_mod_model_spec : forall a e p, 0 <= e -> p <> 0 -> pow_mod a e p = a ^ e mod p.
Proof.
  intros a e p He Hp. destruct e as [| e | e]; cbn [pow_mod]; [reflexivity | | lia].
  apply pow_mod_pos_spec. assumption.
Qed.

(* ---------- the INV loop of montgomery_backend.rs ---------- *)
Lemma odd_square_mod8 : forall a, Z.odd a = true -> exists c, a * a = 1 + 8 * c.
Proof.
  intros a Ha. apply Z.odd_spec in Ha. destruct Ha as [b ->].
  destruct (Z.even b) eqn:Eb.
  - apply Z.even_spec in Eb. destruct Eb as [k ->]. exists (k * (2 * k + 1)). ring.
  - assert (Ob : Z.odd b = true) by (rewrite <- Z.negb_even, Eb; reflexivity).
    apply Z.odd_spec in Ob. destruct Ob as [k ->]. exists ((2 * k + 1) * (k + 1)). ring.
Qed.

(* a odd: a^(2^(n+1)) = 1 (mod 2^(n+3)) *)
Lemma odd_pow2_pow : forall (n : nat) a, Z.odd a = true ->
  exists c, a ^ (2 ^ (Z.of_nat n + 1)) = 1 + 2 ^ (Z.of_nat n + 3) * c.
Proof.
  induction n as [| n IH]; intros a Ha.
  - destruct (odd_square_mod8 a Ha) as [c Hc]. exists c.
    change (Z.of_nat 0 + 1) with 1. change (Z.of_nat 0 + 3) with 3.
    change (2 ^ 1) with 2. change (2 ^ 3) with 8. rewrite Z.pow_2_r. exact Hc.
  - destruct (IH a Ha) as [c Hc].
    exists (c + 2 ^ (Z.of_nat n + 2) * c * c).
    rewrite Nat2Z.inj_succ. set (N := Z.of_nat n) in *. assert (HN : 0 <= N) by (unfold N; lia).
    replace (Z.succ N + 1) with (Z.succ (N + 1)) by lia.
    rewrite (Z.pow_succ_r 2 (N + 1)) by lia. rewrite Z.pow_twice_r, Hc.
    replace (Z.succ N + 3) with (Z.succ (Z.succ (N + 2))) by lia.
    replace (N + 3) with (Z.succ (N + 2)) by lia.
    rewrite !(Z.pow_succ_r 2) by lia. ring.
Qed.

Lemma mont_inv_loop_spec : forall (k : nat) inv m0 e, 0 <= e ->
  inv mod W64 = m0 ^ e mod W64 ->
  mont_inv_loop k inv m0 mod W64 = m0 ^ (2 ^ Z.of_nat k * (e + 1) - 1) mod W64.
Proof.
  assert (HW : W64 <> 0) by (unfold W64; lia).
  induction k as [| k IH]; intros inv m0 e He Hinv; cbn [mont_inv_loop].
  - rewrite Hinv. f_equal. f_equal. change (Z.of_nat 0) with 0. rewrite Z.pow_0_r. lia.
  - rewrite (IH _ m0 (2 * e + 1)); [| lia |].
    + f_equal. f_equal. rewrite Nat2Z.inj_succ, Z.pow_succ_r by lia. ring.
    + rewrite Z.mod_mod by assumption.
      rewrite Z.mul_mod_idemp_l by assumption.
      rewrite (Z.mul_mod (inv * inv)) by assumption.
      rewrite (Z.mul_mod inv inv) by assumption. rewrite Hinv.
      rewrite <- (Z.mul_mod (m0 ^ e)) by assumption.
      rewrite <- Z.mul_mod by assumption.
      f_equal. rewrite Z.pow_add_r, Z.pow_1_r, Z.pow_twice_r by lia. ring.
Qed.

Lemma pow_pred : forall m E, 0 <= E -> m ^ E * m = m ^ (Z.succ E).
Proof. intros m E HE. rewrite Z.pow_succ_r by assumption. apply Z.mul_comm. Qed.

(* montgomery_backend.rs `inv`: for every odd modulus the computed INV satisfies INV * p = -1 (mod 2^64) *)
Theorem mont_inv_model_spec : forall p, Z.odd p = true ->
  0 <= mont_inv p < W64 /\ (mont_inv p * p) mod W64 = W64 - 1.
Proof.
  intros p Hp. assert (HW : W64 <> 0) by (unfold W64; lia).
  split; [unfold mont_inv; apply Z.mod_pos_bound; unfold W64; lia|].
  set (m0 := p mod W64).
  assert (Hm0 : Z.odd m0 = true).
  { pose proof (Z.div_mod p W64 HW) as D. rewrite D in Hp.
    replace (W64 * (p / W64) + p mod W64) with (p mod W64 + 2 * (2 ^ 63 * (p / W64))) in Hp
      by (unfold W64; change (2 ^ 64) with (2 * 2 ^ 63); ring).
    rewrite Z.odd_add_mul_2 in Hp. exact Hp. }
  pose proof (mont_inv_loop_spec 63 1 m0 0 ltac:(lia) eq_refl) as HL.
  replace (2 ^ Z.of_nat 63 * (0 + 1) - 1) with (2 ^ 63 - 1) in HL by (rewrite Z.mul_1_r; reflexivity).
  destruct (odd_pow2_pow 62 m0 Hm0) as [c Hc].
  change (Z.of_nat 62 + 1) with 63 in Hc. change (Z.of_nat 62 + 3) with 65 in Hc.
  assert (HLp : (mont_inv_loop 63 1 m0 * p) mod W64 = 1).
  { rewrite Z.mul_mod, HL by assumption. fold m0.
    rewrite Z.mul_mod_idemp_l by assumption.
    assert (HE0 : 0 <= 2 ^ 63 - 1) by (vm_compute; discriminate).
    rewrite (pow_pred m0 (2 ^ 63 - 1) HE0).
    change (Z.succ (2 ^ 63 - 1)) with (2 ^ 63). rewrite Hc. change (2 ^ 65) with (W64 * 2). rewrite <- Z.mul_assoc, Z.mul_comm.
    rewrite Z.mod_add by assumption. reflexivity. }
  unfold mont_inv. fold m0. rewrite Z.mul_mod_idemp_l by assumption.
  rewrite Z.mul_opp_l. rewrite Z.mod_opp_l_nz; [rewrite HLp; reflexivity | assumption | rewrite HLp; discriminate].
Qed.
