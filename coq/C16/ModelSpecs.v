(* C16 -- the integer-level model functions evaluated by run_C16 (and compared with the
   const fns of /repo) are the mathematical functions the checkers speak about. *)
From Coq Require Import ZArith List Bool Lia.
From V Require Import Base.Field C16.ConfigChecks.
Import ListNotations.
Open Scope Z_scope.

Lemma two_adic_fuel_spec : forall k v s, 0 < v < 2 ^ Z.of_nat k -> 0 <= s ->
  let '(s', t) := two_adic_fuel k v s in
  2 ^ s' * t = 2 ^ s * v /\ Z.odd t = true /\ s <= s'.
Proof.
  induction k as [| k IH]; intros v s Hv Hs.
  - cbn in Hv. lia.
  - cbn [two_adic_fuel]. destruct (Z.even v) eqn:Ev.
    + assert (Hv2 : v = 2 * (v / 2)).
      { apply Z.even_spec in Ev. destruct Ev as [w ->]. rewrite Z.mul_comm, Z.div_mul by lia. ring. }
      assert (Hr : 0 < v / 2 < 2 ^ Z.of_nat k).
      { rewrite Nat2Z.inj_succ, Z.pow_succ_r in Hv by lia. lia. }
      specialize (IH (v / 2) (s + 1) Hr ltac:(lia)).
      destruct (two_adic_fuel k (v / 2) (s + 1)) as [s' t]. destruct IH as [E [O L]].
      repeat split; [| assumption | lia].
      rewrite E, Z.pow_add_r, Z.pow_1_r by lia. rewrite Hv2 at 2. ring.
    + repeat split; [| lia]. rewrite <- Z.negb_even, Ev. reflexivity.
Qed.

(* two_adic p = (s, t): p - 1 = 2^s * t with t odd (BigInt::two_adic_valuation / _coefficient) *)
Theorem two_adic_model_spec : forall p, 1 < p ->
  let '(s, t) := two_adic p in p - 1 = 2 ^ s * t /\ Z.odd t = true /\ 0 <= s.
Proof.
  intros p Hp. unfold two_adic. destruct (Z.leb_spec p 1) as [? | _]; [lia|].
  pose proof (Z.log2_spec p ltac:(lia)) as [_ Hl].
  assert (Hv : 0 < p - 1 < 2 ^ Z.of_nat (Z.to_nat (Z.log2 p) + 1)).
  { rewrite Nat2Z.inj_add, Z2Nat.id by apply Z.log2_nonneg. change (Z.of_nat 1) with 1.
    replace (Z.log2 p + 1) with (Z.succ (Z.log2 p)) by lia. lia. }
  pose proof (two_adic_fuel_spec _ _ 0 Hv ltac:(lia)) as H.
  destruct (two_adic_fuel (Z.to_nat (Z.log2 p) + 1) (p - 1) 0) as [s t].
  destruct H as [E [O L]]. repeat split; [| assumption | assumption].
  rewrite E. rewrite Z.pow_0_r. ring.
Qed.

(* num_bits p = bit length (BigInt::const_num_bits on a minimal-length representation) *)
Theorem num_bits_model_spec : forall p, 0 < p -> 2 ^ (num_bits p - 1) <= p < 2 ^ num_bits p.
Proof.
  intros p Hp. unfold num_bits. destruct (Z.leb_spec p 0) as [? | _]; [lia|].
  pose proof (Z.log2_spec p Hp) as [H1 H2].
  replace (Z.log2 p + 1 - 1) with (Z.log2 p) by lia.
  replace (Z.log2 p + 1) with (Z.succ (Z.log2 p)) by lia. lia.
Qed.

(* pow_mod of Base/Field.v (used by run_C16 for Fp::pow and the root derivation) is modular
   exponentiation *)
Lemma pow_mod_pos_spec : forall e a p, p <> 0 -> pow_mod_pos a e p = (a ^ Zpos e) mod p.
Proof.
  induction e as [e IH | e IH |]; intros a p Hp; cbn [pow_mod_pos].
  - rewrite IH by assumption.
    rewrite Pos2Z.inj_xI, Z.pow_add_r, Z.pow_1_r, Z.pow_twice_r by lia.
    rewrite <- Z.mul_mod by assumption.
    rewrite Z.mul_mod_idemp_l by assumption. reflexivity.
  - rewrite IH by assumption.
    rewrite Pos2Z.inj_xO, Z.pow_twice_r.
    rewrite <- Z.mul_mod by assumption. reflexivity.
  - rewrite Z.pow_1_r. reflexivity.
Qed.
Theorem pow_mod_model_spec : forall a e p, 0 <= e -> p <> 0 -> pow_mod a e p = a ^ e mod p.
Proof.
  intros a e p He Hp. destruct e as [| e | e]; cbn [pow_mod]; [reflexivity | | lia].
  apply pow_mod_pos_spec. assumption.
Qed.
