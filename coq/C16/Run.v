(* Uniform case interpreter for C16: the integer-level model functions the configuration
   checkers are made of (ConfigChecks.v), evaluated on case arguments and compared with the
   const fns / Fp::pow of /repo by the harness (harness/src/bin/c16.rs).
   First result list is the status: [0] ok, [9] unsupported. *)
From V Require Import Base.Field C16.ConfigChecks.
Require Import ZArith List. Import ListNotations. Open Scope Z_scope.

Definition ok (r : list (list Z)) : list (list Z) := [0] :: r.
Definition unsupported : list (list Z) := [[9]].
Definition arg (n : nat) (a : list (list Z)) : list Z := nth n a [].
Definition arg0 (n : nat) (a : list (list Z)) : Z := hd 0 (arg n a).

Definition run_C16 (op : Z) (a : list (list Z)) : list (list Z) :=
  match op with
  | 1 => let n := arg0 0 a in let p := val_limbs (arg 1 a) in ok [[mont_r p n]; [mont_r2 p n]]
  | 2 => let p := val_limbs (arg 1 a) in let '(s, t) := two_adic p in ok [[s]; [t]]
  | 3 => ok [[num_bits (val_limbs (arg 1 a))]]
  | 4 => let p := arg0 1 a in let n := arg0 2 a in
         ok [[p]; [n]; [mont_r p n]; [mont_r2 p n]; [mont_inv p]]
  | 5 => let p := arg0 1 a in let '(s, t) := two_adic p in
         ok [[p]; [s]; [t]; [(t - 1) / 2]; [(p - 1) / 2]; [num_bits p]]
  | 6 => let p := arg0 1 a in let g := arg0 2 a in let '(s, t) := two_adic p in
         ok [[p]; [g mod p]; [pow_mod g t p]]
  | 7 => let p := arg0 1 a in ok [[p]; [pow_mod (arg0 2 a) (arg0 3 a) p]]
  | 99 => ok []
  | _ => unsupported
  end.
