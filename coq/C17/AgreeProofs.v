(* C17 proofs: the sparse and the dense form of the same table agree everywhere --
   evaluation, fix_variables, + - neg, += (f, q), relabel commute with
   to_dense_multilinear_extension. *)
From V Require Import Base.Field C17.Mle C17.SparseMle C17.Spec C17.DenseProofs C17.SparseProofs
  C17.SwapBits C17.RelabelProofs.
Require Import Lia List Arith Bool Ring.
Import ListNotations.
Local Open Scope nat_scope.

Section Agree.
  Context {T : Type} (F : Fops T).
  Hypothesis Rth : ring_theory (f0 F) (f1 F) (fadd F) (fmul F) (fsub F) (fneg F) (@eq T).
  Hypothesis eqb_spec : forall a b, feqb F a b = true <-> a = b.
  Add Ring Rr : Rth.
  Local Notation zero := (f0 F).

  (* the dense form of a sparse extension *)
  Definition dense_of (p : smle T) : dmle T := mkD (s_nv p) (s_to_evaluations F p).

  Lemma dense_of_ok : forall p, s_wf p -> s_to_dense F p = Ok (dense_of p) /\ d_wf (dense_of p).
  Proof.
    intros p Hp. split; [apply s_to_dense_spec; exact Hp|].
    unfold d_wf, dense_of. cbn [d_ev d_nv]. apply (s_to_evaluations_spec F p Hp).
  Qed.
  Lemma dense_of_tab : forall p i, s_wf p -> i < pow2 (s_nv p) ->
    tab F (dense_of p) i = m_lookup F i (s_ev p).
  Proof. intros p i Hp Hi. unfold tab, dense_of. cbn [d_ev]. apply (s_to_evaluations_spec F p Hp). exact Hi. Qed.
  Lemma lookup_out_of_range : forall (m : smap T) N i, Forall (fun e => fst e < N) m -> N <= i ->
    m_lookup F i m = zero.
  Proof.
    intros m N i Hm Hi. unfold m_lookup.
    induction m as [|[k v] m IH]; cbn [m_get]; [reflexivity|].
    inversion Hm as [|? ? Hk Hm']; subst. cbn [fst] in Hk.
    destruct (Nat.eqb_spec i k); [lia|]. apply IH. exact Hm'.
  Qed.
  (* for every index (also beyond the table) the dense table is the sparse lookup *)
  Lemma dense_of_tab_all : forall p i, s_wf p -> tab F (dense_of p) i = m_lookup F i (s_ev p).
  Proof.
    intros p i Hp. destruct (Nat.lt_ge_cases i (pow2 (s_nv p))) as [Hi|Hi].
    - apply dense_of_tab; assumption.
    - unfold tab, dense_of. cbn [d_ev]. rewrite nth_overflow.
      + symmetry. apply (lookup_out_of_range _ (pow2 (s_nv p))); [apply Hp | exact Hi].
      + destruct (s_to_evaluations_spec F p Hp) as [Hl _]. lia.
  Qed.

  (* two well-formed sparse extensions with the same lookups have the same dense form *)
  Lemma dense_eq : forall (d : dmle T) (q : smle T), d_wf d -> s_wf q -> d_nv d = s_nv q ->
    (forall i, i < pow2 (s_nv q) -> tab F d i = m_lookup F i (s_ev q)) -> dense_of q = d.
  Proof.
    intros [nv ev] q Hd Hq Hn Ht. unfold dense_of. cbn [d_nv] in Hn. subst nv. f_equal.
    destruct (s_to_evaluations_spec F q Hq) as [Hl Hs]. unfold d_wf in Hd. cbn [d_nv d_ev] in Hd.
    apply (nth_ext _ _ zero zero); [congruence|].
    intros i Hi. rewrite Hl in Hi. rewrite (Hs i Hi). symmetry. apply (Ht i Hi).
  Qed.

  (* sparse_dense_agree: evaluation *)
  Theorem sparse_dense_eval : forall p x, s_wf p -> length x = s_nv p ->
    s_eval F p x = d_eval F (dense_of p) x.
  Proof.
    intros p x Hp Hx. destruct (dense_of_ok p Hp) as [_ Hw].
    rewrite (s_eval_dense_table F Rth p x Hp Hx).
    rewrite (d_eval_spec F Rth (dense_of p) x Hw) by exact Hx. reflexivity.
  Qed.

  (* fix_variables commutes with densification, every partial point *)
  Theorem sparse_dense_fix : forall p pp, s_wf p -> length pp <= s_nv p ->
    exists q, s_fix F p pp = Ok q /\ s_wf q /\ d_fix F (dense_of p) pp = Ok (dense_of q).
  Proof.
    intros p pp Hp Hle. destruct (s_fix_total F Rth p pp Hp Hle) as [q Hq].
    destruct (s_fix_spec F Rth p pp q Hp Hq) as (Hqw & Hqn & Hqt).
    destruct (dense_of_ok p Hp) as [_ Hw].
    destruct (d_fix_spec F Rth (dense_of p) pp Hw Hle) as (dq & Hdq & Hdn & Hdw & Hdt).
    exists q. split; [exact Hq|]. split; [exact Hqw|]. rewrite Hdq. f_equal. symmetry.
    apply dense_eq; try assumption.
    - rewrite Hdn, Hqn. reflexivity.
    - intros c Hc. rewrite Hdt, Hqt. apply sumf_ext. intros b Hb. f_equal.
      apply dense_of_tab_all. exact Hp.
  Qed.

  Theorem sparse_dense_add : forall a b, s_wf a -> s_wf b -> s_nv a = s_nv b ->
    exists r, s_add F a b = Ok r /\ s_wf r /\ d_add F (dense_of a) (dense_of b) = Ok (dense_of r).
  Proof.
    intros a b Ha Hb Hn. destruct (s_add_spec F Rth eqb_spec a b Ha Hb Hn) as (r & Hr & Hrw & Hrn & Hrt).
    destruct (dense_of_ok a Ha) as [_ Hwa]. destruct (dense_of_ok b Hb) as [_ Hwb].
    destruct (d_add_spec F Rth eqb_spec (dense_of a) (dense_of b) Hwa Hwb Hn) as (d & Hd & Hdw & Hdn & Hdt).
    exists r. split; [exact Hr|]. split; [exact Hrw|]. rewrite Hd. f_equal. symmetry.
    apply dense_eq; try assumption.
    - rewrite Hdn, Hrn. reflexivity.
    - intros i Hi. rewrite Hdt, Hrt, !dense_of_tab_all by assumption. reflexivity.
  Qed.

  Theorem sparse_dense_sub : forall a b, s_wf a -> s_wf b -> s_nv a = s_nv b ->
    exists r, s_sub F a b = Ok r /\ s_wf r /\ d_sub F (dense_of a) (dense_of b) = Ok (dense_of r).
  Proof.
    intros a b Ha Hb Hn. destruct (s_sub_spec F Rth eqb_spec a b Ha Hb Hn) as (r & Hr & Hrw & Hrn & Hrt).
    destruct (dense_of_ok a Ha) as [_ Hwa]. destruct (dense_of_ok b Hb) as [_ Hwb].
    destruct (d_sub_spec F Rth eqb_spec (dense_of a) (dense_of b) Hwa Hwb Hn) as (d & Hd & Hdw & Hdn & Hdt).
    exists r. split; [exact Hr|]. split; [exact Hrw|]. rewrite Hd. f_equal. symmetry.
    apply dense_eq; try assumption.
    - rewrite Hdn, Hrn. reflexivity.
    - intros i Hi. rewrite Hdt, Hrt, !dense_of_tab_all by assumption. reflexivity.
  Qed.

  Theorem sparse_dense_neg : forall a, s_wf a ->
    s_wf (s_neg F a) /\ d_neg F (dense_of a) = dense_of (s_neg F a).
  Proof.
    intros a Ha. destruct (s_neg_spec F Rth a Ha) as (Hw & Hn & Ht).
    destruct (dense_of_ok a Ha) as [_ Hwa].
    destruct (d_neg_spec F Rth (dense_of a) Hwa) as (Hdw & Hdn & Hdt).
    split; [exact Hw|]. symmetry. apply dense_eq; try assumption.
    intros i Hi. rewrite Hdt, Ht, dense_of_tab_all by assumption. reflexivity.
  Qed.

  Theorem sparse_dense_add_scaled : forall a f b, s_wf a -> s_wf b -> s_nv a = s_nv b ->
    exists r, s_add_scaled F a f b = Ok r /\ s_wf r /\
              d_add_scaled F (dense_of a) f (dense_of b) = Ok (dense_of r).
  Proof.
    intros a f b Ha Hb Hn.
    destruct (s_add_scaled_spec F Rth eqb_spec a f b Ha Hb Hn) as (r & Hr & Hrw & Hrn & Hrt).
    destruct (dense_of_ok a Ha) as [_ Hwa]. destruct (dense_of_ok b Hb) as [_ Hwb].
    destruct (d_add_scaled_spec F Rth eqb_spec (dense_of a) f (dense_of b) Hwa Hwb Hn)
      as (d & Hd & Hdw & Hdn & Hdt).
    exists r. split; [exact Hr|]. split; [exact Hrw|]. rewrite Hd. f_equal. symmetry.
    apply dense_eq; try assumption.
    - rewrite Hdn, Hrn. reflexivity.
    - intros i Hi. rewrite Hdt, Hrt, !dense_of_tab_all by assumption. reflexivity.
  Qed.

  (* relabel: every valid window, including the one that ends at the last variable *)
  Theorem sparse_relabel_spec : forall p a0 b0 k,
    let a := Nat.min a0 b0 in let b := Nat.max a0 b0 in
    s_wf p -> a <> b -> k <> 0 -> a + k <= b -> b + k <= s_nv p ->
    exists q, s_relabel p a0 b0 k = Ok q /\ s_wf q /\ s_nv q = s_nv p /\
      forall i, i < pow2 (s_nv p) -> m_lookup F i (s_ev q) = m_lookup F (swap_bits_nat i a b k) (s_ev p).
  Proof.
    intros p a0 b0 k a b Hp Hab Hk H1 H2.
    assert (Hok : exists q, s_relabel p a0 b0 k = Ok q).
    { unfold s_relabel.
      assert (Ea : (if b0 <? a0 then b0 else a0) = a) by (unfold a; destruct (Nat.ltb_spec b0 a0); lia).
      assert (Eb : (if b0 <? a0 then a0 else b0) = b) by (unfold b; destruct (Nat.ltb_spec b0 a0); lia).
      rewrite Ea, Eb.
      replace (a + k <=? s_nv p) with true by (symmetry; apply Nat.leb_le; lia).
      replace (b + k <=? s_nv p) with true by (symmetry; apply Nat.leb_le; lia).
      replace (a =? b) with false by (symmetry; apply Nat.eqb_neq; exact Hab).
      replace (k =? 0) with false by (symmetry; apply Nat.eqb_neq; exact Hk).
      replace (a + k <=? b) with true by (symmetry; apply Nat.leb_le; lia).
      cbn [andb orb negb]. eexists. reflexivity. }
    destruct Hok as [q Hq]. exists q. split; [exact Hq|].
    apply (s_relabel_spec F p a0 b0 k q Hp); [| |exact Hq].
    - intros i _. apply swap_bits_nat_invol. exact H1.
    - intros i Hi. apply swap_bits_nat_range; assumption.
  Qed.

  Theorem sparse_dense_relabel : forall p a0 b0 k,
    let a := Nat.min a0 b0 in let b := Nat.max a0 b0 in
    s_wf p -> a <> b -> k <> 0 -> a + k <= b -> b + k <= s_nv p ->
    exists q, s_relabel p a0 b0 k = Ok q /\ s_wf q /\
              d_relabel F (dense_of p) a0 b0 k = Ok (dense_of q).
  Proof.
    intros p a0 b0 k a b Hp Hab Hk H1 H2.
    destruct (sparse_relabel_spec p a0 b0 k Hp Hab Hk H1 H2) as (q & Hq & Hqw & Hqn & Hqt).
    destruct (dense_of_ok p Hp) as [_ Hw].
    destruct (d_relabel_spec F (dense_of p) a0 b0 k Hw Hab Hk H1 H2) as (d & Hd & Hdw & Hdn & Hdt).
    exists q. split; [exact Hq|]. split; [exact Hqw|]. rewrite Hd. f_equal. symmetry.
    apply dense_eq; try assumption.
    - rewrite Hdn, Hqn. reflexivity.
    - intros i Hi. cbn [dense_of d_nv] in Hdt. rewrite Hqn in Hi.
      rewrite (Hdt i Hi), (Hqt i Hi). apply dense_of_tab_all. exact Hp.
  Qed.
End Agree.
