(* C17 proofs: DenseMultilinearExtension::concat. *)
From V Require Import Base.Field C17.Mle C17.Spec C17.DenseProofs.
Require Import Lia List Arith Bool Ring.
Import ListNotations.
Local Open Scope nat_scope.

(* ---------- ceil(log2) ---------- *)
Lemma pow2_mono : forall a b, a <= b -> pow2 a <= pow2 b.
Proof. intros a b H. unfold pow2. apply Nat.pow_le_mono_r; lia. Qed.
Lemma pow2_S' : forall n, pow2 (S n) = 2 * pow2 n.
Proof. intros n. unfold pow2. cbn [Nat.pow]. lia. Qed.

Lemma clog2_aux_spec : forall fuel k x, x <= pow2 (k + fuel) -> (k = 0 \/ pow2 (k - 1) < x) ->
  x <= pow2 (clog2_aux fuel k x) /\
  (clog2_aux fuel k x = 0 \/ pow2 (clog2_aux fuel k x - 1) < x).
Proof.
  induction fuel as [|f IH]; intros k x Hb Hm; cbn [clog2_aux].
  - rewrite Nat.add_0_r in Hb. auto.
  - destruct (Nat.leb_spec x (pow2 k)) as [Hle|Hgt]; [auto|].
    apply IH.
    + replace (S k + f) with (k + S f) by lia. exact Hb.
    + right. replace (S k - 1) with k by lia. exact Hgt.
Qed.
(* clog2 x is the least k with x <= 2^k *)
Lemma clog2_spec : forall x, x <= pow2 (clog2 x) /\ (clog2 x = 0 \/ pow2 (clog2 x - 1) < x).
Proof.
  intros x. unfold clog2. apply clog2_aux_spec; [|auto]. cbn [plus].
  unfold pow2. apply Nat.lt_le_incl, Nat.pow_gt_lin_r. lia.
Qed.
Lemma clog2_unique : forall x k, x <= pow2 k -> (k = 0 \/ pow2 (k - 1) < x) -> clog2 x = k.
Proof.
  intros x k H1 H2. destruct (clog2_spec x) as [G1 G2].
  destruct (Nat.lt_trichotomy (clog2 x) k) as [L|[E|L]]; [|exact E|].
  - destruct H2 as [->|H2]; [lia|].
    assert (pow2 (clog2 x) <= pow2 (k - 1)) by (apply pow2_mono; lia). lia.
  - destruct G2 as [G2|G2]; [lia|].
    assert (pow2 k <= pow2 (clog2 x - 1)) by (apply pow2_mono; lia). lia.
Qed.
Lemma clog2_pow2_mul : forall m c, 0 < c -> clog2 (pow2 m * c) = m + clog2 c.
Proof.
  intros m c Hc. destruct (clog2_spec c) as [G1 G2]. apply clog2_unique.
  - rewrite pow2_add. apply Nat.mul_le_mono_l. exact G1.
  - destruct G2 as [G2|G2].
    + rewrite G2, Nat.add_0_r. destruct m as [|m]; [left; reflexivity|right].
      replace (S m - 1) with m by lia. rewrite pow2_S'.
      pose proof (pow2_pos m). nia.
    + right. destruct (clog2 c) as [|j]; [change (pow2 (0 - 1)) with 1 in G2|].
      * destruct m as [|m]; [cbn in *; unfold pow2 in *; cbn in *; lia|].
        replace (S m + 0 - 1) with m by lia. rewrite pow2_S'. pose proof (pow2_pos m). nia.
      * replace (m + S j - 1) with (m + j) by lia. replace (S j - 1) with j in G2 by lia.
        rewrite pow2_add. pose proof (pow2_pos m). nia.
Qed.

Section Concat.
  Context {T : Type} (F : Fops T).
  Hypothesis Rth : ring_theory (f0 F) (f1 F) (fadd F) (fmul F) (fsub F) (fneg F) (@eq T).
  Hypothesis eqb_spec : forall a b, feqb F a b = true <-> a = b.
  Add Ring Rr : Rth.
  Local Notation zero := (f0 F).
  Local Notation "a [*] b" := (fmul F a b) (at level 40, left associativity).

  (* blocks of equal length L: entry b + L*c of the concatenation is entry b of block c *)
  Lemma concat_nth_block : forall (ls : list (list T)) L b c, Forall (fun l => length l = L) ls ->
    b < L -> nth (b + L * c) (concat ls) zero = nth b (nth c ls []) zero.
  Proof.
    induction ls as [|l ls IH]; intros L b c Hall Hb.
    - cbn [concat]. rewrite (nth_nil0 F).
      replace (nth c (@nil (list T)) []) with (@nil T) by (destruct c; reflexivity).
      rewrite (nth_nil0 F). reflexivity.
    - inversion Hall as [|? ? Hl Hall']; subst. cbn [concat]. destruct c as [|c].
      + cbn [nth]. rewrite Nat.mul_0_r, Nat.add_0_r. apply app_nth1. exact Hb.
      + cbn [nth]. rewrite app_nth2 by nia.
        replace (b + length l * S c - length l) with (b + length l * c) by nia.
        apply IH; assumption.
  Qed.

  Lemma concat_length_blocks : forall (ls : list (list T)) L, Forall (fun l => length l = L) ls ->
    length (concat ls) = L * length ls.
  Proof.
    induction ls as [|l ls IH]; intros L H; cbn [concat length]; [lia|].
    inversion H; subst. rewrite app_length, (IH (length l)) by assumption. nia.
  Qed.

  (* table level, any list of well-formed operands (any arities): the tables one after the
     other, zero-padded to the next power of two *)
  Theorem d_concat_table : forall ps,
    let total := length (concat (map d_ev ps)) in
    d_concat F ps = Ok (mkD (clog2 total) (concat (map d_ev ps) ++ repeat zero (pow2 (clog2 total) - total)))
    /\ total <= pow2 (clog2 total) /\ (clog2 total = 0 \/ pow2 (clog2 total - 1) < total).
  Proof.
    intros ps total. destruct (clog2_spec total) as [G1 G2]. split; [|split; assumption].
    unfold d_concat. fold total. unfold d_from_vec.
    rewrite app_length, repeat_length. fold total.
    replace (total + (pow2 (clog2 total) - total)) with (pow2 (clog2 total)) by lia.
    rewrite Nat.eqb_refl. reflexivity.
  Qed.

  (* concat_spec: 2^j-or-fewer operands of the same arity m give an (m + ceil(log2 count))-variate
     extension with  f(x, y) = sum_c eq(c, y) * f_c(x)  (missing operands count as zero) *)
  Theorem d_concat_spec : forall ps m x y, ps <> [] ->
    Forall (fun p => d_wf p /\ d_nv p = m) ps -> length x = m -> length y = clog2 (length ps) ->
    exists r, d_concat F ps = Ok r /\ d_wf r /\ d_nv r = m + clog2 (length ps) /\
      d_eval F r (x ++ y) =
      Ok (hsum F (fun c => hsum F (fun b => nth b (nth c (map d_ev ps) []) zero) x) y).
  Proof.
    intros ps m x y Hne Hall Hx Hy.
    assert (Hblocks : Forall (fun l => length l = pow2 m) (map d_ev ps)).
    { apply Forall_map. eapply Forall_impl; [|exact Hall]. intros p [Hw Hn]. unfold d_wf in Hw. congruence. }
    destruct (d_concat_table ps) as (Hok & G1 & G2). cbv zeta in *.
    set (total := length (concat (map d_ev ps))) in *.
    assert (Htot : total = pow2 m * length ps).
    { unfold total. rewrite (concat_length_blocks _ _ Hblocks), map_length. reflexivity. }
    assert (Hnv : clog2 total = m + clog2 (length ps)).
    { rewrite Htot. apply clog2_pow2_mul. destruct ps; [congruence|cbn; lia]. }
    set (r := mkD (clog2 total) (concat (map d_ev ps) ++ repeat zero (pow2 (clog2 total) - total))) in *.
    assert (Hwf : d_wf r).
    { unfold d_wf, r. cbn [d_ev d_nv]. rewrite app_length, repeat_length. fold total. lia. }
    exists r. split; [exact Hok|]. split; [exact Hwf|]. split; [exact Hnv|].
    (* fix the first m variables, then evaluate the rest *)
    destruct (d_fix_spec F Rth r x Hwf) as (q & Hq & Hqn & Hqw & Hqt); [cbn [d_nv r]; lia|].
    rewrite <- (d_eval_fix F r x y q Hwf) by (assumption || (cbn [d_nv r]; lia)).
    rewrite (d_eval_spec F Rth q y Hqw) by (rewrite Hqn; cbn [d_nv r]; lia).
    f_equal. apply (hsum_ext F). intros c. rewrite Hqt. unfold hsum. rewrite Hx.
    apply (sumf_ext F). intros b Hb. f_equal. unfold tab, r. cbn [d_ev].
    destruct (Nat.lt_ge_cases (b + pow2 m * c) total) as [Hin|Hout].
    - rewrite app_nth1 by exact Hin. apply concat_nth_block; assumption.
    - (* in the zero padding: block c does not exist *)
      assert (Hc : length (map d_ev ps) <= c) by (rewrite map_length; nia).
      rewrite (nth_overflow (map d_ev ps) [] Hc), nth_nil0.
      rewrite app_nth2 by (fold total; lia).
      destruct (nth_in_or_default (b + pow2 m * c - length (concat (map d_ev ps)))
                  (repeat zero (pow2 (clog2 total) - total)) zero) as [Hi|Hd]; [|exact Hd].
      apply repeat_spec in Hi. exact Hi.
  Qed.
End Concat.
