(* C17 proofs, dense multilinear extensions: the modelled algorithms of C17/Mle.v equal the
   specification-level notions of C17/Spec.v, for every commutative ring of coefficients
   (in particular every field), every number of variables, every table, every point. *)
From V Require Import Base.Field C17.Mle C17.SparseMle C17.MvPoly C17.Spec.
Require Import Lia List Ring ZArith Bool Arith.
Import ListNotations.
Local Open Scope nat_scope.

Section DenseProofs.
  Context {T : Type} (F : Fops T).
  Hypothesis Rth : ring_theory (f0 F) (f1 F) (fadd F) (fmul F) (fsub F) (fneg F) (@eq T).
  Hypothesis eqb_spec : forall a b, feqb F a b = true <-> a = b.
  Add Ring Rr : Rth.
  Local Notation zero := (f0 F).
  Local Notation one := (f1 F).
  Local Notation "a [+] b" := (fadd F a b) (at level 50, left associativity).
  Local Notation "a [-] b" := (fsub F a b) (at level 50, left associativity).
  Local Notation "a [*] b" := (fmul F a b) (at level 40, left associativity).

  (* ------------------------------------------------------------------ *)
  (* finite sums                                                         *)
  Lemma sumf_ext : forall n f g, (forall i, i < n -> f i = g i) -> sumf F f n = sumf F g n.
  Proof.
    induction n as [|n IH]; intros f g H; cbn [sumf]; [reflexivity|].
    rewrite (IH f g), H; auto.
  Qed.
  Lemma sumf_double : forall n f,
    sumf F f (2 * n) = sumf F (fun c => (f (2 * c) [+] f (2 * c + 1))) n.
  Proof.
    induction n as [|n IH]; intros f; [reflexivity|].
    replace (2 * S n) with (S (S (2 * n))) by lia. cbn [sumf]. rewrite IH.
    replace (2 * n + 1) with (S (2 * n)) by lia. ring.
  Qed.
  Lemma sumf_add : forall n f g,
    sumf F (fun i => (f i [+] g i)) n = (sumf F f n [+] sumf F g n).
  Proof. induction n as [|n IH]; intros f g; cbn [sumf]; [ring | rewrite IH; ring]. Qed.
  Lemma sumf_scale_r : forall n f c,
    sumf F (fun i => (f i [*] c)) n = (sumf F f n [*] c).
  Proof. induction n as [|n IH]; intros f c; cbn [sumf]; [ring | rewrite IH; ring]. Qed.
  Lemma sumf_zero : forall n f, (forall i, i < n -> f i = zero) -> sumf F f n = zero.
  Proof.
    induction n as [|n IH]; intros f H; cbn [sumf]; [reflexivity|].
    rewrite IH, H by auto. ring.
  Qed.

  Lemma pow2_S : forall n, pow2 (S n) = 2 * pow2 n.
  Proof. intros n. unfold pow2. cbn [Nat.pow]. lia. Qed.
  Lemma pow2_pos : forall n, 0 < pow2 n.
  Proof. intros n. unfold pow2. apply Nat.neq_0_lt_0, Nat.pow_nonzero. lia. Qed.
  Lemma pow2_add : forall a b, pow2 (a + b) = pow2 a * pow2 b.
  Proof. intros a b. unfold pow2. apply Nat.pow_add_r. Qed.

  (* ------------------------------------------------------------------ *)
  (* eq polynomial on even / odd indices                                 *)
  Lemma eqpoly_even : forall c r x, eqpoly F (2 * c) (r :: x) = ((one [-] r) [*] eqpoly F c x).
  Proof.
    intros c r x. cbn [eqpoly]. rewrite Nat.odd_mul, Nat.div2_double. reflexivity.
  Qed.
  Lemma eqpoly_odd : forall c r x, eqpoly F (2 * c + 1) (r :: x) = (r [*] eqpoly F c x).
  Proof.
    intros c r x. cbn [eqpoly]. replace (2 * c + 1) with (S (2 * c)) by lia.
    rewrite Nat.odd_succ, Nat.even_mul, Nat.div2_succ_double. reflexivity.
  Qed.

  (* ------------------------------------------------------------------ *)
  (* one folding pass                                                    *)
  Lemma fold_pairs_length : forall m r t, length t = 2 * m -> length (fold_pairs F r t) = m.
  Proof.
    induction m as [|m IH]; intros r t H.
    - destruct t; [reflexivity | discriminate].
    - destruct t as [|a [|b t]]; cbn [length] in H; try lia.
      cbn [fold_pairs length]. rewrite IH; [reflexivity | lia].
  Qed.
  Lemma nth_nil0 : forall i, nth i (@nil T) zero = zero.
  Proof. destruct i; reflexivity. Qed.
  Lemma fold_pairs_nth : forall m r t c, length t = 2 * m ->
    nth c (fold_pairs F r t) zero =
    (nth (2 * c) t zero [+] r [*] (nth (2 * c + 1) t zero [-] nth (2 * c) t zero)).
  Proof.
    induction m as [|m IH]; intros r t c H.
    - destruct t; [|discriminate]. cbn [fold_pairs]. rewrite !nth_nil0. ring.
    - destruct t as [|a [|b t]]; cbn [length] in H; try lia.
      cbn [fold_pairs]. destruct c as [|c].
      + reflexivity.
      + cbn [nth]. replace (2 * S c) with (S (S (2 * c))) by lia.
        replace (S (S (2 * c)) + 1) with (S (S (2 * c + 1))) by lia. cbn [nth].
        apply IH. lia.
  Qed.

  (* ------------------------------------------------------------------ *)
  (* fix_variables: the folded table                                      *)
  Definition fixl (pp : list T) (t : list T) : list T :=
    fold_left (fun t r => fold_pairs F r t) pp t.

  Lemma fixl_length : forall pp t k, length t = pow2 (length pp + k) -> length (fixl pp t) = pow2 k.
  Proof.
    induction pp as [|r pp IH]; intros t k H; cbn [fixl fold_left length] in *.
    - exact H.
    - apply IH. apply fold_pairs_length. rewrite H. cbn [plus]. apply pow2_S.
  Qed.

  Lemma fixl_spec : forall pp t k c, length t = pow2 (length pp + k) ->
    nth c (fixl pp t) zero =
    sumf F (fun b => (nth (b + pow2 (length pp) * c) t zero [*] eqpoly F b pp)) (pow2 (length pp)).
  Proof.
    induction pp as [|r pp IH]; intros t k c H.
    - cbn [fixl fold_left length eqpoly]. change (pow2 0) with 1. cbn [sumf].
      replace (0 + 1 * c) with c by lia. ring.
    - cbn [fixl fold_left length] in *.
      assert (Hl : length t = 2 * pow2 (length pp + k)) by (rewrite H; apply pow2_S).
      change (fold_left (fun t r => fold_pairs F r t) pp (fold_pairs F r t))
        with (fixl pp (fold_pairs F r t)).
      rewrite (IH (fold_pairs F r t) k c) by (apply fold_pairs_length; exact Hl).
      rewrite pow2_S, sumf_double. apply sumf_ext. intros b Hb.
      rewrite (fold_pairs_nth _ r t _ Hl), eqpoly_even, eqpoly_odd.
      replace (2 * b + 2 * pow2 (length pp) * c) with (2 * (b + pow2 (length pp) * c)) by lia.
      replace (2 * b + 1 + 2 * pow2 (length pp) * c) with (2 * (b + pow2 (length pp) * c) + 1) by lia.
      ring.
  Qed.

  (* ------------------------------------------------------------------ *)
  (* fix_variables and evaluate                                           *)
  Local Notation tabF := (tab F).

  Lemma d_fix_ok : forall p pp, d_wf p -> length pp <= d_nv p ->
    d_fix F p pp = Ok (mkD (d_nv p - length pp) (fixl pp (d_ev p))) /\
    length (fixl pp (d_ev p)) = pow2 (d_nv p - length pp).
  Proof.
    intros p pp Hwf Hle. unfold d_wf in Hwf.
    assert (Hlen : length (fixl pp (d_ev p)) = pow2 (d_nv p - length pp)).
    { apply fixl_length. rewrite Hwf. f_equal. lia. }
    split; [|exact Hlen]. unfold d_fix.
    replace (length pp <=? d_nv p) with true by (symmetry; apply Nat.leb_le; exact Hle).
    fold (fixl pp (d_ev p)). rewrite firstn_all2 by lia.
    unfold d_from_vec. rewrite Hlen, Nat.eqb_refl. reflexivity.
  Qed.

  Lemma d_fix_panic : forall p pp, d_nv p < length pp -> d_fix F p pp = Panic.
  Proof.
    intros p pp H. unfold d_fix.
    replace (length pp <=? d_nv p) with false by (symmetry; apply Nat.leb_gt; exact H). reflexivity.
  Qed.

  (* fix_variables_spec: for every partial point of length 0..n the new table is the
     partial hypercube sum over the bound variables *)
  Theorem d_fix_spec : forall p pp, d_wf p -> length pp <= d_nv p ->
    exists q, d_fix F p pp = Ok q /\ d_nv q = d_nv p - length pp /\ d_wf q /\
      forall c, tabF q c =
        sumf F (fun b => tabF p (b + pow2 (length pp) * c) [*] eqpoly F b pp) (pow2 (length pp)).
  Proof.
    intros p pp Hwf Hle. destruct (d_fix_ok p pp Hwf Hle) as [Hok Hlen].
    eexists. split; [exact Hok|]. split; [reflexivity|]. split; [exact Hlen|].
    intros c. unfold tab. cbn [d_ev].
    apply (fixl_spec pp (d_ev p) (d_nv p - length pp)).
    rewrite Hwf. f_equal. lia.
  Qed.

  Lemma d_eval_fixl : forall p x, d_wf p -> length x = d_nv p ->
    d_eval F p x = Ok (nth 0 (fixl x (d_ev p)) zero).
  Proof.
    intros p x Hwf Hx. unfold d_eval. rewrite Hx, Nat.eqb_refl.
    destruct (d_fix_ok p x Hwf) as [Hok Hlen]; [lia|]. rewrite Hok. cbn [rbind d_ev].
    replace (d_nv p - length x) with 0 in Hlen by lia. change (pow2 0) with 1 in Hlen.
    destruct (fixl x (d_ev p)) as [|v l]; [discriminate|]. reflexivity.
  Qed.

  (* mle_eval_is_hypercube_sum *)
  Theorem d_eval_spec : forall p x, d_wf p -> length x = d_nv p ->
    d_eval F p x = Ok (hsum F (tabF p) x).
  Proof.
    intros p x Hwf Hx. rewrite (d_eval_fixl p x Hwf Hx). f_equal.
    rewrite (fixl_spec x (d_ev p) 0 0) by (rewrite Hwf; f_equal; lia).
    unfold hsum, tab. apply sumf_ext. intros b _. f_equal. f_equal. lia.
  Qed.

  Lemma d_eval_panic : forall p x, length x <> d_nv p -> d_eval F p x = Panic.
  Proof.
    intros p x H. unfold d_eval. apply Nat.eqb_neq in H. rewrite H. reflexivity.
  Qed.

  (* evaluating after fixing a prefix = evaluating at the concatenated point *)
  Theorem d_eval_fix : forall p pp y q, d_wf p -> length pp + length y = d_nv p ->
    d_fix F p pp = Ok q -> d_eval F q y = d_eval F p (pp ++ y).
  Proof.
    intros p pp y q Hwf Hlen Hq.
    destruct (d_fix_ok p pp Hwf) as [Hok Hl]; [lia|]. rewrite Hok in Hq. injection Hq as <-.
    rewrite d_eval_fixl; [| exact Hl | cbn [d_nv]; lia].
    rewrite d_eval_fixl; [| exact Hwf | rewrite app_length; lia].
    cbn [d_ev]. unfold fixl. rewrite fold_left_app. reflexivity.
  Qed.

  (* ------------------------------------------------------------------ *)
  (* hypercube sums are linear in the table                               *)
  Lemma hsum_ext : forall t u x, (forall i, t i = u i) -> hsum F t x = hsum F u x.
  Proof. intros t u x H. unfold hsum. apply sumf_ext. intros i _. rewrite H. reflexivity. Qed.
  Lemma hsum_add : forall u v x, hsum F (fun i => u i [+] v i) x = hsum F u x [+] hsum F v x.
  Proof.
    intros u v x. unfold hsum. rewrite <- sumf_add. apply sumf_ext. intros i _. ring.
  Qed.
  Lemma hsum_scale : forall u c x, hsum F (fun i => u i [*] c) x = hsum F u x [*] c.
  Proof.
    intros u c x. unfold hsum. rewrite <- sumf_scale_r. apply sumf_ext. intros i _. ring.
  Qed.
  Lemma hsum_zero : forall x, hsum F (fun _ => zero) x = zero.
  Proof. intros x. unfold hsum. apply sumf_zero. intros i _. ring. Qed.

  (* ------------------------------------------------------------------ *)
  (* list helpers                                                         *)
  Lemma zipw_length : forall (f : T -> T -> T) a b, length (zipw f a b) = Nat.min (length a) (length b).
  Proof. induction a as [|x a IH]; intros [|y b]; cbn [zipw length Nat.min]; auto. Qed.
  Lemma zipw_nth : forall a b i, length a = length b ->
    nth i (zipw (fadd F) a b) zero = nth i a zero [+] nth i b zero.
  Proof.
    induction a as [|x a IH]; intros [|y b] i H; try discriminate.
    - cbn [zipw]. rewrite !nth_nil0. ring.
    - cbn [zipw]. destruct i; cbn [nth]; [reflexivity|]. apply IH. injection H as H. exact H.
  Qed.
  Lemma nth_map0 : forall (f : T -> T) l i, f zero = zero -> nth i (map f l) zero = f (nth i l zero).
  Proof. intros f l i H. rewrite <- (map_nth f l zero i). rewrite H. reflexivity. Qed.

  Lemma d_is_zero_true : forall p, d_wf p -> d_is_zero F p = true -> p = d_zero F.
  Proof.
    intros [nv ev] Hwf H. unfold d_is_zero in H. cbn [d_nv d_ev] in *.
    apply andb_true_iff in H. destruct H as [Hn Hv]. apply Nat.eqb_eq in Hn. subst nv.
    unfold d_wf in Hwf. cbn [d_nv d_ev] in Hwf. change (pow2 0) with 1 in Hwf.
    destruct ev as [|v [|w ev]]; try discriminate. apply eqb_spec in Hv. subst v. reflexivity.
  Qed.
  Lemma d_is_zero_zero : d_is_zero F (d_zero F) = true.
  Proof. unfold d_is_zero, d_zero. cbn [d_nv d_ev Nat.eqb andb]. apply eqb_spec. reflexivity. Qed.
  Lemma tab_zero : forall i, tabF (d_zero F) i = zero.
  Proof. intros [|[|i]]; reflexivity. Qed.

  (* ------------------------------------------------------------------ *)
  (* + - neg, += (f, q), * : the table of the result is the pointwise operation *)
  Theorem d_add_spec : forall a b, d_wf a -> d_wf b -> d_nv a = d_nv b ->
    exists r, d_add F a b = Ok r /\ d_wf r /\ d_nv r = d_nv a /\
      forall i, tabF r i = tabF a i [+] tabF b i.
  Proof.
    intros a b Ha Hb Hn. unfold d_add.
    destruct (d_is_zero F b) eqn:Zb.
    { exists a. repeat split; auto. intros i. rewrite (d_is_zero_true b Hb Zb), tab_zero. ring. }
    destruct (d_is_zero F a) eqn:Za.
    { exists b. repeat split; auto. intros i. rewrite (d_is_zero_true a Ha Za), tab_zero. ring. }
    rewrite Hn, Nat.eqb_refl. unfold d_wf in *.
    assert (Hl : length (zipw (fadd F) (d_ev a) (d_ev b)) = pow2 (d_nv b)).
    { rewrite zipw_length, Ha, Hb, Hn. apply Nat.min_id. }
    unfold d_from_vec. rewrite Hl, Nat.eqb_refl. eexists. split; [reflexivity|].
    cbn [d_nv d_ev]. repeat split; auto. intros i. unfold tab. cbn [d_ev].
    apply zipw_nth. congruence.
  Qed.

  (* the special zero() representation is neutral whatever the arity of the other operand *)
  Theorem d_add_zero_r : forall a, d_add F a (d_zero F) = Ok a.
  Proof. intros a. unfold d_add. rewrite d_is_zero_zero. reflexivity. Qed.
  Theorem d_add_zero_l : forall b, d_wf b -> d_add F (d_zero F) b = Ok b.
  Proof.
    intros b Hb. unfold d_add. destruct (d_is_zero F b) eqn:Zb.
    - rewrite (d_is_zero_true b Hb Zb). reflexivity.
    - rewrite d_is_zero_zero. reflexivity.
  Qed.

  Lemma neg_zero : fneg F zero = zero.
  Proof. ring. Qed.
  Theorem d_neg_spec : forall a, d_wf a ->
    d_wf (d_neg F a) /\ d_nv (d_neg F a) = d_nv a /\ forall i, tabF (d_neg F a) i = fneg F (tabF a i).
  Proof.
    intros a Ha. unfold d_neg, d_wf, tab in *. cbn [d_nv d_ev]. rewrite map_length.
    repeat split; auto. intros i. apply nth_map0. apply neg_zero.
  Qed.

  Theorem d_sub_spec : forall a b, d_wf a -> d_wf b -> d_nv a = d_nv b ->
    exists r, d_sub F a b = Ok r /\ d_wf r /\ d_nv r = d_nv a /\
      forall i, tabF r i = tabF a i [-] tabF b i.
  Proof.
    intros a b Ha Hb Hn. destruct (d_neg_spec b Hb) as (Hw & Hnv & Ht).
    destruct (d_add_spec a (d_neg F b) Ha Hw) as (r & Hr & Hrw & Hrn & Hrt); [congruence|].
    exists r. unfold d_sub. repeat split; auto. intros i. rewrite Hrt, Ht. ring.
  Qed.

  Theorem d_add_scaled_spec : forall a f b, d_wf a -> d_wf b -> d_nv a = d_nv b ->
    exists r, d_add_scaled F a f b = Ok r /\ d_wf r /\ d_nv r = d_nv a /\
      forall i, tabF r i = tabF a i [+] f [*] tabF b i.
  Proof.
    intros a f b Ha Hb Hn. unfold d_add_scaled.
    set (b' := mkD (d_nv b) (map (fun x => f [*] x) (d_ev b))).
    assert (Hw : d_wf b') by (unfold d_wf, b' in *; cbn [d_nv d_ev]; rewrite map_length; exact Hb).
    destruct (d_add_spec a b' Ha Hw Hn) as (r & Hr & Hrw & Hrn & Hrt).
    exists r. repeat split; auto. intros i. rewrite Hrt. f_equal.
    unfold tab, b'. cbn [d_ev]. apply (nth_map0 (fun x => f [*] x)). ring.
  Qed.

  (* scaling, every scalar including 0 and 1: same arity, table scaled entrywise.
     For the scalar 0 this is the n-variable zero extension (the Rust code returns the
     0-variable zero() instead: finding F10). *)
  Theorem d_scale_spec : forall a s, d_wf a ->
    d_wf (d_scale F a s) /\ d_nv (d_scale F a s) = d_nv a /\
    forall i, tabF (d_scale F a s) i = tabF a i [*] s.
  Proof.
    intros a s Ha. unfold d_scale.
    destruct (feqb F s zero) eqn:E0.
    - apply eqb_spec in E0. subst s. unfold d_wf, tab in *. cbn [d_nv d_ev]. rewrite map_length.
      repeat split; auto. intros i. rewrite (nth_map0 (fun _ => zero)) by reflexivity. ring.
    - destruct (feqb F s one) eqn:E1.
      + apply eqb_spec in E1. subst s. repeat split; auto. intros i. ring.
      + unfold d_wf, tab in *. cbn [d_nv d_ev]. rewrite map_length.
        repeat split; auto. intros i. apply (nth_map0 (fun x => x [*] s)). ring.
  Qed.

  (* ------------------------------------------------------------------ *)
  (* the same statements at the level of evaluation at an arbitrary point   *)
  Theorem d_add_eval : forall a b x, d_wf a -> d_wf b -> d_nv a = d_nv b -> length x = d_nv a ->
    exists r va vb, d_add F a b = Ok r /\ d_eval F a x = Ok va /\ d_eval F b x = Ok vb /\
                    d_eval F r x = Ok (va [+] vb).
  Proof.
    intros a b x Ha Hb Hn Hx. destruct (d_add_spec a b Ha Hb Hn) as (r & Hr & Hrw & Hrn & Hrt).
    exists r, (hsum F (tabF a) x), (hsum F (tabF b) x).
    rewrite !d_eval_spec by congruence. repeat split; auto. f_equal.
    rewrite <- hsum_add. apply hsum_ext. exact Hrt.
  Qed.
  Theorem d_sub_eval : forall a b x, d_wf a -> d_wf b -> d_nv a = d_nv b -> length x = d_nv a ->
    exists r va vb, d_sub F a b = Ok r /\ d_eval F a x = Ok va /\ d_eval F b x = Ok vb /\
                    d_eval F r x = Ok (va [-] vb).
  Proof.
    intros a b x Ha Hb Hn Hx. destruct (d_sub_spec a b Ha Hb Hn) as (r & Hr & Hrw & Hrn & Hrt).
    exists r, (hsum F (tabF a) x), (hsum F (tabF b) x).
    rewrite !d_eval_spec by congruence. repeat split; auto. f_equal.
    transitivity (hsum F (fun i => tabF a i [+] tabF b i [*] fneg F one) x).
    - apply hsum_ext. intros i. rewrite Hrt. ring.
    - rewrite hsum_add, hsum_scale. ring.
  Qed.
  Theorem d_neg_eval : forall a x, d_wf a -> length x = d_nv a ->
    exists va, d_eval F a x = Ok va /\ d_eval F (d_neg F a) x = Ok (fneg F va).
  Proof.
    intros a x Ha Hx. destruct (d_neg_spec a Ha) as (Hw & Hnv & Ht).
    exists (hsum F (tabF a) x). rewrite !d_eval_spec by congruence. split; auto. f_equal.
    transitivity (hsum F (fun i => tabF a i [*] fneg F one) x).
    - apply hsum_ext. intros i. rewrite Ht. ring.
    - rewrite hsum_scale. ring.
  Qed.
  Theorem d_add_scaled_eval : forall a f b x, d_wf a -> d_wf b -> d_nv a = d_nv b -> length x = d_nv a ->
    exists r va vb, d_add_scaled F a f b = Ok r /\ d_eval F a x = Ok va /\ d_eval F b x = Ok vb /\
                    d_eval F r x = Ok (va [+] f [*] vb).
  Proof.
    intros a f b x Ha Hb Hn Hx.
    destruct (d_add_scaled_spec a f b Ha Hb Hn) as (r & Hr & Hrw & Hrn & Hrt).
    exists r, (hsum F (tabF a) x), (hsum F (tabF b) x).
    rewrite !d_eval_spec by congruence. repeat split; auto. f_equal.
    transitivity (hsum F (fun i => tabF a i [+] tabF b i [*] f) x).
    - apply hsum_ext. intros i. rewrite Hrt. ring.
    - rewrite hsum_add, hsum_scale. ring.
  Qed.
  Theorem d_scale_eval : forall a s x, d_wf a -> length x = d_nv a ->
    exists va, d_eval F a x = Ok va /\ d_eval F (d_scale F a s) x = Ok (va [*] s).
  Proof.
    intros a s x Ha Hx. destruct (d_scale_spec a s Ha) as (Hw & Hnv & Ht).
    exists (hsum F (tabF a) x). rewrite !d_eval_spec by congruence. split; auto. f_equal.
    rewrite <- hsum_scale. apply hsum_ext. exact Ht.
  Qed.
  (* F10, as the property demands it: p * 0 evaluates to 0 at every point of p's arity *)
  Corollary d_scale_zero_eval : forall a x, d_wf a -> length x = d_nv a ->
    d_eval F (d_scale F a zero) x = Ok zero.
  Proof.
    intros a x Ha Hx. destruct (d_scale_eval a zero x Ha Hx) as (va & _ & H). rewrite H. f_equal. ring.
  Qed.

  (* from_evaluations_vec accepts exactly the tables of length 2^n *)
  Lemma d_from_vec_spec : forall nv (ev : list T),
    (length ev = pow2 nv -> d_from_vec nv ev = Ok (mkD nv ev)) /\
    (length ev <> pow2 nv -> d_from_vec nv ev = Panic).
  Proof.
    intros nv ev. unfold d_from_vec. split; intros H.
    - rewrite H, Nat.eqb_refl. reflexivity.
    - apply Nat.eqb_neq in H. rewrite H. reflexivity.
  Qed.
End DenseProofs.
