(* A concrete dictionary satisfying the section hypotheses of the C17 theorems (used by the
   `Example`s of Props/C17.v to show that the hypotheses are satisfiable): the ring of
   integers.  (Every field satisfies them as well: [F_R] turns a [field_theory] into the
   required [ring_theory].) *)
From V Require Import Base.Field.
Require Import ZArith ZArithRing Ring_theory Field_theory.

Definition ZOps : Fops Z :=
  {| f0 := 0; f1 := 1; fadd := Z.add; fsub := Z.sub; fmul := Z.mul; fneg := Z.opp;
     finv := fun _ => 0; feqb := Z.eqb; fcoords := fun a => [a]; fof := fun l => hd 0 l;
     fdeg := 1%nat; fchar := 0 |}.

Lemma ZOps_ring : ring_theory (f0 ZOps) (f1 ZOps) (fadd ZOps) (fmul ZOps) (fsub ZOps) (fneg ZOps) (@eq Z).
Proof. exact Zth. Qed.
Lemma ZOps_eqb : forall a b, feqb ZOps a b = true <-> a = b.
Proof. exact Z.eqb_eq. Qed.

(* any field dictionary qualifies *)
Lemma field_is_ring : forall (T : Type) (F : Fops T),
  field_theory (f0 F) (f1 F) (fadd F) (fmul F) (fsub F) (fneg F) (fun a b => fmul F a (finv F b)) (finv F) (@eq T) ->
  ring_theory (f0 F) (f1 F) (fadd F) (fmul F) (fsub F) (fneg F) (@eq T).
Proof. intros T F H. exact (F_R H). Qed.
