(* C17 model, part 1: DenseMultilinearExtension
   (poly/src/evaluations/multivariate/multilinear/{dense,mod}.rs).
   Field-generic: everything takes a dictionary [F : Fops T] (coq/Base/Field.v).
   Executable definitions only -- no proofs in this file (proofs: C17/DenseProofs.v).

   Conventions.  `usize` values that are lengths / variable counts / table indices are
   [nat] (they never exceed 2^num_vars, a few thousand at most in any run); the bit
   manipulation of [swap_bits] is written on [Z] with the same shifts, masks and xors as
   the Rust function.  A panic (failed `assert!`, slice index out of range) is the
   outcome [Panic]; fuel exhaustion of a bounded search is the distinct [OutOfFuel]. *)
From V Require Import Base.Field.
Require Import Lia.

Inductive res (A : Type) : Type := Ok (a : A) | Panic | OutOfFuel.
Arguments Ok {A} a. Arguments Panic {A}. Arguments OutOfFuel {A}.
Definition rbind {A B : Type} (r : res A) (f : A -> res B) : res B :=
  match r with Ok a => f a | Panic => Panic | OutOfFuel => OutOfFuel end.

Definition pow2 (n : nat) : nat := Nat.pow 2 n.

(* mod.rs swap_bits(x, a, b, n): exchange the n-bit windows at bit positions a and b *)
Definition swap_bits (x a b n : Z) : Z :=
  let a_bits := Z.land (Z.shiftr x a) (Z.ones n) in         (* (x >> a) & ((1 << n) - 1) *)
  let b_bits := Z.land (Z.shiftr x b) (Z.ones n) in
  let local_xor_mask := Z.lxor a_bits b_bits in
  let global_xor_mask := Z.lor (Z.shiftl local_xor_mask a) (Z.shiftl local_xor_mask b) in
  Z.lxor x global_xor_mask.
Definition swap_bits_nat (i a b k : nat) : nat :=
  Z.to_nat (swap_bits (Z.of_nat i) (Z.of_nat a) (Z.of_nat b) (Z.of_nat k)).

(* ark_std::log2 = ceil(log2 x), 0 for x <= 1: least k with x <= 2^k (search with fuel x) *)
Fixpoint clog2_aux (fuel k x : nat) : nat :=
  match fuel with
  | O => k
  | S f => if Nat.leb x (pow2 k) then k else clog2_aux f (S k) x
  end.
Definition clog2 (x : nat) : nat := clog2_aux x 0 x.

(* zip-with truncating to the shorter list (Rust: a.iter().zip(b)) *)
Fixpoint zipw {A B C : Type} (f : A -> B -> C) (l1 : list A) (l2 : list B) : list C :=
  match l1, l2 with
  | a :: t1, b :: t2 => f a b :: zipw f t1 t2
  | _, _ => []
  end.

(* v[i] = x  (no effect when i is out of range; callers guard) *)
Fixpoint upd {A : Type} (l : list A) (i : nat) (x : A) : list A :=
  match l, i with
  | [], _ => []
  | _ :: t, O => x :: t
  | a :: t, S i' => a :: upd t i' x
  end.

Section Dense.
  Context {T : Type} (F : Fops T).
  Local Notation zero := (f0 F).
  Local Notation one := (f1 F).
  Local Notation add := (fadd F).
  Local Notation sub := (fsub F).
  Local Notation mul := (fmul F).
  Local Notation neg := (fneg F).

  Record dmle : Type := mkD { d_nv : nat; d_ev : list T }.

  (* Vec::swap(i, j) *)
  Definition swap_nth (l : list T) (i j : nat) : list T :=
    upd (upd l i (nth j l zero)) j (nth i l zero).

  (* from_evaluations_vec / from_evaluations_slice: assert_eq!(len, 1 << num_vars) *)
  Definition d_from_vec (nv : nat) (ev : list T) : res dmle :=
    if Nat.eqb (length ev) (pow2 nv) then Ok (mkD nv ev) else Panic.

  (* Zero::zero() -- the special representation: 0 variables, table [0] *)
  Definition d_zero : dmle := mkD 0 [zero].
  (* is_zero: num_vars == 0 && evaluations[0].is_zero() *)
  Definition d_is_zero (p : dmle) : bool :=
    Nat.eqb (d_nv p) 0 && match d_ev p with v :: _ => feqb F v zero | [] => false end.

  (* one pass of fix_variables: t[b] = t[2b] + r * (t[2b+1] - t[2b]), b = 0 .. len/2 - 1.
     (The Rust loop works in place on the front half of the vector; entry b is written
     after entries 2b, 2b+1 >= b are read and before any later read, so the pass maps the
     live prefix of length 2m to the list of the m new values.) *)
  Fixpoint fold_pairs (r : T) (t : list T) : list T :=
    match t with
    | lo :: hi :: t' => add lo (mul r (sub hi lo)) :: fold_pairs r t'
    | _ => []
    end.

  (* fix_variables(partial_point): bind the first variables, left to right.
     The final `from_evaluations_slice(nv - dim, &poly[..1 << (nv - dim)])` keeps exactly
     the live prefix, which is the whole folded list here. *)
  Definition d_fix (p : dmle) (pp : list T) : res dmle :=
    if Nat.leb (length pp) (d_nv p) then
      let poly := fold_left (fun t r => fold_pairs r t) pp (d_ev p) in
      d_from_vec (d_nv p - length pp) (firstn (pow2 (d_nv p - length pp)) poly)
    else Panic.

  (* Polynomial::evaluate: assert!(point.len() == num_vars); fix_variables(point)[0] *)
  Definition d_eval (p : dmle) (x : list T) : res T :=
    if Nat.eqb (length x) (d_nv p) then
      rbind (d_fix p x) (fun q => match d_ev q with v :: _ => Ok v | [] => Panic end)
    else Panic.

  (* Index<usize> *)
  Definition d_index (p : dmle) (i : nat) : res T :=
    match nth_error (d_ev p) i with Some v => Ok v | None => Panic end.

  Definition d_to_evaluations (p : dmle) : list T := d_ev p.

  (* relabel_in_place(a, b, k) *)
  Definition d_relabel (p : dmle) (a0 b0 k : nat) : res dmle :=
    let a := if Nat.ltb b0 a0 then b0 else a0 in
    let b := if Nat.ltb b0 a0 then a0 else b0 in
    if Nat.eqb a b || Nat.eqb k 0 then Ok p
    else if negb (Nat.leb (b + k) (d_nv p)) then Panic         (* "invalid relabel argument" *)
    else if negb (Nat.leb (a + k) b) then Panic                 (* "overlapped swap window" *)
    else
      Ok (mkD (d_nv p)
            (fold_left (fun ev i => let j := swap_bits_nat i a b k in
                                    if Nat.ltb i j then swap_nth ev i j else ev)
                       (seq 0 (length (d_ev p))) (d_ev p))).

  (* &a + &b *)
  Definition d_add (a b : dmle) : res dmle :=
    if d_is_zero b then Ok a
    else if d_is_zero a then Ok b
    else if Nat.eqb (d_nv a) (d_nv b) then
      d_from_vec (d_nv a) (zipw add (d_ev a) (d_ev b))
    else Panic.

  Definition d_neg (a : dmle) : dmle := mkD (d_nv a) (map neg (d_ev a)).
  (* &a - &b = a + &(b.clone().neg()) *)
  Definition d_sub (a b : dmle) : res dmle := d_add a (d_neg b).
  (* a += (f, &b):  other = f * b entrywise, then a + other *)
  Definition d_add_scaled (a : dmle) (f : T) (b : dmle) : res dmle :=
    d_add a (mkD (d_nv b) (map (fun x => mul f x) (d_ev b))).

  (* &a * &scalar.  The zero branch is modelled as the property demands: the n-variable
     zero extension (the Rust code returns the 0-variable `zero()` here: finding F10). *)
  Definition d_scale (a : dmle) (s : T) : dmle :=
    if feqb F s zero then mkD (d_nv a) (map (fun _ => zero) (d_ev a))
    else if feqb F s one then a
    else mkD (d_nv a) (map (fun x => mul x s) (d_ev a)).

  (* concat(polys): tables one after the other, padded with zeros to the next power of two *)
  Definition d_concat (ps : list dmle) : res dmle :=
    let evs := concat (map d_ev ps) in
    let total := length evs in
    let nv := clog2 total in                       (* log2(total.next_power_of_two()) *)
    d_from_vec nv (evs ++ repeat zero (pow2 nv - total)).
End Dense.

Arguments dmle : clear implicits.
Arguments mkD {T} _ _. Arguments d_nv {T} _. Arguments d_ev {T} _.
