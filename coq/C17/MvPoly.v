(* C17 model, part 3: multivariate SparseTerm and SparsePolynomial<F, SparseTerm>
   (poly/src/polynomial/multivariate/{mod,sparse}.rs).
   Executable definitions only (proofs: C17/MvProofs.v).

   A term is a list of (variable, power); variables are [nat] (indices into the point),
   powers are [Z] (usize; sums of powers are assumed not to wrap, i.e. < 2^64).
   `sort_by` is a stable sort: modelled by stable insertion sort (the result of a stable
   sort is unique for a total preorder, whatever the algorithm). *)
From V Require Import Base.Field C17.Mle.
Require Import Lia.

Definition term : Type := list (nat * Z).

(* stable insertion sort w.r.t. a comparison function *)
Section Sort.
  Context {A : Type} (cmp : A -> A -> comparison).
  (* x precedes (in the input) everything already in l: it goes before the first y with
     not (y < x), so that equal elements keep their input order *)
  Fixpoint sinsert (x : A) (l : list A) : list A :=
    match l with
    | [] => [x]
    | y :: l' => match cmp y x with Lt => y :: sinsert x l' | _ => x :: l end
    end.
  Definition ssort (l : list A) : list A := fold_right sinsert [] l.
End Sort.

(* SparseTerm::combine: sum the powers of equal adjacent variables *)
Fixpoint combine_go (cur : nat * Z) (l : term) : term :=
  match l with
  | [] => [cur]
  | (v, p) :: l' => if Nat.eqb (fst cur) v then combine_go (fst cur, snd cur + p) l'
                    else cur :: combine_go (v, p) l'
  end.
Definition t_combine (l : term) : term :=
  match l with [] => [] | x :: l' => combine_go x l' end.

(* SparseTerm::new *)
Definition term_new (raw : term) : term :=
  let t := filter (fun vp => negb (snd vp =? 0)) raw in
  if Nat.ltb 1 (length t)
  then t_combine (ssort (fun a b => Nat.compare (fst a) (fst b)) t)
  else t.

Definition t_degree (t : term) : Z := fold_left (fun s vp => s + snd vp) t 0.
Definition t_vars (t : term) : list nat := map fst t.
Definition t_powers (t : term) : list Z := map snd t.
Definition t_is_constant (t : term) : bool :=
  match t with [] => true | _ => t_degree t =? 0 end.

(* PartialOrd::partial_cmp / Ord::cmp *)
Fixpoint t_cmp_lex (a b : term) : comparison :=
  match a, b with
  | (cv, cp) :: a', (ov, op) :: b' =>
      if Nat.eqb ov cv then (if negb (cp =? op) then Z.compare cp op else t_cmp_lex a' b')
      else Nat.compare ov cv
  | _, _ => Eq
  end.
Definition t_cmp (a b : term) : comparison :=
  if t_degree a =? t_degree b then t_cmp_lex a b else Z.compare (t_degree a) (t_degree b).

(* derived PartialEq on the underlying Vec<(usize, usize)> *)
Fixpoint t_eqb (a b : term) : bool :=
  match a, b with
  | [], [] => true
  | (v, p) :: a', (w, q) :: b' => Nat.eqb v w && (p =? q) && t_eqb a' b'
  | _, _ => false
  end.

Section Mv.
  Context {T : Type} (F : Fops T).
  Local Notation zero := (f0 F).
  Local Notation one := (f1 F).
  Local Notation add := (fadd F).
  Local Notation mul := (fmul F).
  Local Notation neg := (fneg F).

  (* SparseTerm::evaluate: product of point[var]^power (callers guarantee var < len) *)
  Definition t_eval (t : term) (x : list T) : T :=
    fold_right (fun vp acc => mul (fpow F (nth (fst vp) x zero) (snd vp)) acc) one t.

  Definition mterms : Type := list (T * term).
  Record mvpoly : Type := mkP { p_nv : nat; p_terms : mterms }.

  Definition remove_zeros (l : mterms) : mterms :=
    filter (fun ct => negb (feqb F (fst ct) zero)) l.

  (* the dedup loop of from_coefficients_vec: equal adjacent terms have their
     coefficients added (prev_coeff += coeff), left to right *)
  Fixpoint dedup_go (cur : T * term) (l : mterms) : mterms :=
    match l with
    | [] => [cur]
    | (c, t) :: l' => if t_eqb (snd cur) t then dedup_go (add (fst cur) c, snd cur) l'
                      else cur :: dedup_go (c, t) l'
    end.
  Definition dedup (l : mterms) : mterms :=
    match l with [] => [] | x :: l' => dedup_go x l' end.

  Definition term_in_range (nv : nat) (t : term) : bool :=
    forallb (fun vp => Nat.ltb (fst vp) nv) t.

  (* from_coefficients_vec(num_vars, terms): sort, assert variable range, merge, drop zeros *)
  Definition p_from (nv : nat) (ts : mterms) : res mvpoly :=
    let sorted := ssort (fun a b => t_cmp (snd a) (snd b)) ts in
    if forallb (fun ct => term_in_range nv (snd ct)) sorted
    then Ok (mkP nv (remove_zeros (dedup sorted)))
    else Panic.                                      (* "Invalid number of indeterminates" *)

  Definition p_is_zero (p : mvpoly) : bool :=
    forallb (fun ct => feqb F (fst ct) zero) (p_terms p).

  (* Polynomial::evaluate *)
  Definition p_eval (p : mvpoly) (x : list T) : res T :=
    if negb (Nat.leb (p_nv p) (length x)) then Panic          (* "Invalid evaluation domain" *)
    else if p_is_zero p then Ok zero
    else if negb (forallb (fun ct => term_in_range (length x) (snd ct)) (p_terms p))
    then Panic                                                 (* point[var] out of range *)
    else Ok (fold_right (fun ct acc => add (mul (fst ct) (t_eval (snd ct) x)) acc) zero (p_terms p)).

  Definition p_degree (p : mvpoly) : Z :=
    fold_right (fun ct acc => Z.max (t_degree (snd ct)) acc) 0 (p_terms p).

  (* &a + &b : merge of the two sorted term lists *)
  Fixpoint p_merge (l1 : mterms) : mterms -> mterms :=
    fix inner (l2 : mterms) : mterms :=
      match l1, l2 with
      | [], _ => l2
      | _, [] => l1
      | (c1, t1) :: l1', (c2, t2) :: l2' =>
          match t_cmp t1 t2 with
          | Lt => (c1, t1) :: p_merge l1' l2
          | Eq => (add c1 c2, t1) :: p_merge l1' l2'
          | Gt => (c2, t2) :: inner l2'
          end
      end.
  Definition p_add (a b : mvpoly) : mvpoly :=
    mkP (Nat.max (p_nv a) (p_nv b)) (remove_zeros (p_merge (p_terms a) (p_terms b))).
  Definition p_neg (a : mvpoly) : mvpoly :=
    mkP (p_nv a) (map (fun ct => (neg (fst ct), snd ct)) (p_terms a)).
  Definition p_sub (a b : mvpoly) : mvpoly := p_add a (p_neg b).
  (* a += (f, &b): coefficients of b times f, then + *)
  Definition p_add_scaled (a : mvpoly) (f : T) (b : mvpoly) : mvpoly :=
    p_add a (mkP (p_nv b) (map (fun ct => (mul (fst ct) f, snd ct)) (p_terms b))).
End Mv.

Arguments mvpoly : clear implicits. Arguments mterms : clear implicits.
Arguments mkP {T} _ _. Arguments p_nv {T} _. Arguments p_terms {T} _.
