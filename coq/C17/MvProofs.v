(* C17 proofs, part 3: multivariate SparseTerm / SparsePolynomial model (C17/MvPoly.v)
   against the specification-level notions of C17/Spec.v.
   Only hypotheses: commutative-ring laws of the field dictionary and correctness of feqb. *)
From V Require Import Base.Field C17.Mle C17.MvPoly C17.Spec.
Require Import Lia List Ring Permutation Bool ZArith.
Import ListNotations.
Open Scope Z_scope.

(* ---------- generic facts on the stable insertion sort ---------- *)
Section Adj.
  Context {A : Type}.
  (* adjacent elements related by R *)
  Fixpoint adj (R : A -> A -> Prop) (l : list A) : Prop :=
    match l with
    | [] => True
    | a :: l' => match l' with [] => True | b :: _ => R a b end /\ adj R l'
    end.

  Lemma adj_tail : forall R a l, adj R (a :: l) -> adj R l.
  Proof. intros R a l H. simpl in H. tauto. Qed.

End Adj.

Section SortFacts.
  Context {A : Type} (cmp : A -> A -> comparison).

  Lemma sinsert_perm : forall x l, Permutation (sinsert cmp x l) (x :: l).
  Proof.
    intros x l. induction l as [|y l IH]; simpl.
    - apply Permutation_refl.
    - destruct (cmp y x).
      + apply Permutation_refl.
      + eapply perm_trans; [apply perm_skip; exact IH | apply perm_swap].
      + apply Permutation_refl.
  Qed.

  Lemma ssort_perm : forall l, Permutation (ssort cmp l) l.
  Proof.
    intros l. induction l as [|x l IH]; simpl.
    - apply perm_nil.
    - eapply perm_trans; [apply sinsert_perm | apply perm_skip; exact IH].
  Qed.

  (* the output of the sort is R-sorted as soon as R contains "cmp = Lt" and the reverse of "cmp <> Lt" *)
  Lemma sinsert_adj : forall (R : A -> A -> Prop),
    (forall y x, cmp y x = Lt -> R y x) -> (forall y x, cmp y x <> Lt -> R x y) ->
    forall x l, adj R l -> adj R (sinsert cmp x l).
  Proof.
    intros R R_lt R_nlt x l. induction l as [|y l IH]; intros Hl.
    - simpl. tauto.
    - simpl. destruct (cmp y x) eqn:E.
      + simpl. split; [apply R_nlt; congruence | exact Hl].
      + destruct Hl as [Hh Ht]. specialize (IH Ht).
        change (adj R (y :: sinsert cmp x l)). simpl. split; [|exact IH].
        destruct l as [|z l].
        * simpl. apply R_lt; exact E.
        * simpl. destruct (cmp z x); try exact Hh; apply R_lt; exact E.
      + simpl. split; [apply R_nlt; congruence | exact Hl].
  Qed.

  Lemma ssort_adj : forall (R : A -> A -> Prop),
    (forall y x, cmp y x = Lt -> R y x) -> (forall y x, cmp y x <> Lt -> R x y) ->
    forall l, adj R (ssort cmp l).
  Proof.
    intros R R_lt R_nlt l. induction l as [|x l IH]; simpl.
    - exact I.
    - apply sinsert_adj; assumption.
  Qed.
End SortFacts.

Section MvProofs.
  Context {T : Type} (F : Fops T).
  Hypothesis Rth : ring_theory (f0 F) (f1 F) (fadd F) (fmul F) (fsub F) (fneg F) (@eq T).
  Hypothesis eqb_spec : forall a b, feqb F a b = true <-> a = b.
  Add Ring Rr : Rth.

  Local Notation zero := (f0 F).
  Local Notation one := (f1 F).
  Local Notation "a [+] b" := (fadd F a b) (at level 50, left associativity).
  Local Notation "a [*] b" := (fmul F a b) (at level 40, left associativity).
  Local Notation "a [-] b" := (fsub F a b) (at level 50, left associativity).
  Local Notation "[-] a" := (fneg F a) (at level 35, right associativity).

  (* ---------- 1. fpow vs pown ---------- *)
  Lemma pown_add : forall x m n, pown F x (m + n) = pown F x m [*] pown F x n.
  Proof.
    intros x m n. induction m as [|m IH]; simpl.
    - ring.
    - rewrite IH. ring.
  Qed.

  Lemma fpow_pos_spec : forall a p, fpow_pos F a p = pown F a (Pos.to_nat p).
  Proof.
    intros a p. induction p as [p IH|p IH|].
    - cbn [fpow_pos]. rewrite IH. rewrite Pos2Nat.inj_xI.
      replace (S (2 * Pos.to_nat p)) with (S (Pos.to_nat p + Pos.to_nat p)) by lia.
      cbn [pown]. rewrite pown_add. ring.
    - cbn [fpow_pos]. rewrite IH. rewrite Pos2Nat.inj_xO.
      replace (2 * Pos.to_nat p)%nat with (Pos.to_nat p + Pos.to_nat p)%nat by lia.
      rewrite pown_add. ring.
    - simpl. ring.
  Qed.

  Theorem fpow_nonneg_spec : forall x e, 0 <= e -> fpow F x e = pown F x (Z.to_nat e).
  Proof.
    intros x e He. destruct e as [|p|p].
    - reflexivity.
    - simpl. apply fpow_pos_spec.
    - lia.
  Qed.
  (* ---------- 2. SparseTerm::new preserves the value ---------- *)
  Definition nonneg_pows (t : term) : Prop := Forall (fun vp : nat * Z => 0 <= snd vp) t.

  Lemma t_eval_raw : forall t x, nonneg_pows t -> t_eval F t x = raw_term_val F t x.
  Proof.
    intros t x H. induction H as [|vp t Hvp Ht IH]; simpl.
    - reflexivity.
    - rewrite IH. rewrite fpow_nonneg_spec by exact Hvp. reflexivity.
  Qed.

  Lemma raw_val_perm : forall t t' x, Permutation t t' -> raw_term_val F t x = raw_term_val F t' x.
  Proof.
    intros t t' x H. induction H as [|a l l' H IH|a b l|l l' l'' H1 IH1 H2 IH2]; simpl.
    - reflexivity.
    - rewrite IH. reflexivity.
    - ring.
    - rewrite IH1. exact IH2.
  Qed.

  Lemma raw_val_filter : forall t x,
    raw_term_val F (filter (fun vp : nat * Z => negb (snd vp =? 0)) t) x = raw_term_val F t x.
  Proof.
    intros t x. induction t as [|[v p] t IH]; simpl.
    - reflexivity.
    - destruct (Z.eqb_spec p 0) as [E|E]; simpl.
      + subst p. simpl. rewrite IH. ring.
      + rewrite IH. reflexivity.
  Qed.

  Lemma raw_val_combine_go : forall l cur x, nonneg_pows (cur :: l) ->
    raw_term_val F (combine_go cur l) x = raw_term_val F (cur :: l) x.
  Proof.
    intros l. induction l as [|[v p] l IH]; intros cur x H.
    - reflexivity.
    - inversion H as [|? ? Hc Hl]; subst. inversion Hl as [|? ? Hp Hl']; subst. simpl in Hc, Hp.
      cbn [combine_go]. destruct (Nat.eqb_spec (fst cur) v) as [E|E].
      + rewrite IH.
        * simpl. rewrite Z2Nat.inj_add by lia. rewrite pown_add. subst v. ring.
        * constructor; [simpl; lia | exact Hl'].
      + change (raw_term_val F (cur :: combine_go (v, p) l) x = raw_term_val F (cur :: (v, p) :: l) x).
        simpl. rewrite IH by exact Hl. reflexivity.
  Qed.

  Lemma raw_val_combine : forall t x, nonneg_pows t ->
    raw_term_val F (t_combine t) x = raw_term_val F t x.
  Proof.
    intros t x H. destruct t as [|a t]; [reflexivity|]. simpl. apply raw_val_combine_go. exact H.
  Qed.

  Lemma nonneg_filter : forall (f : nat * Z -> bool) t, nonneg_pows t -> nonneg_pows (filter f t).
  Proof.
    intros f t H. unfold nonneg_pows in *. rewrite Forall_forall in *.
    intros y Hy. apply filter_In in Hy. apply H. tauto.
  Qed.

  Lemma nonneg_combine_go : forall l cur, nonneg_pows (cur :: l) -> nonneg_pows (combine_go cur l).
  Proof.
    intros l. induction l as [|[v p] l IH]; intros cur H.
    - exact H.
    - inversion H as [|? ? Hc Hl]; subst. inversion Hl as [|? ? Hp Hl']; subst. simpl in Hc, Hp.
      cbn [combine_go]. destruct (Nat.eqb (fst cur) v).
      + apply IH. constructor; [simpl; lia | exact Hl'].
      + constructor; [exact Hc | apply IH; exact Hl].
  Qed.

  Lemma nonneg_combine : forall t, nonneg_pows t -> nonneg_pows (t_combine t).
  Proof.
    intros t H. destruct t as [|a t]; [exact H|]. simpl. apply nonneg_combine_go. exact H.
  Qed.

  Definition var_cmp (a b : nat * Z) : comparison := Nat.compare (fst a) (fst b).

  Lemma term_new_unfold : forall raw,
    term_new raw =
    let t := filter (fun vp : nat * Z => negb (snd vp =? 0)) raw in
    if Nat.ltb 1 (length t) then t_combine (ssort var_cmp t) else t.
  Proof. reflexivity. Qed.

  Lemma term_new_nonneg : forall raw, nonneg_pows raw -> nonneg_pows (term_new raw).
  Proof.
    intros raw H. rewrite term_new_unfold. cbv zeta.
    pose proof (nonneg_filter (fun vp : nat * Z => negb (snd vp =? 0)) raw H) as Hf.
    destruct (Nat.ltb 1 _).
    - apply nonneg_combine. unfold nonneg_pows.
      eapply Permutation_Forall; [apply Permutation_sym; apply ssort_perm | exact Hf].
    - exact Hf.
  Qed.

  Theorem term_new_eval : forall raw x, Forall (fun vp : nat * Z => 0 <= snd vp) raw ->
    t_eval F (term_new raw) x = raw_term_val F raw x.
  Proof.
    intros raw x H. rewrite t_eval_raw by (apply term_new_nonneg; exact H).
    rewrite term_new_unfold. cbv zeta.
    pose proof (nonneg_filter (fun vp : nat * Z => negb (snd vp =? 0)) raw H) as Hf.
    destruct (Nat.ltb 1 _).
    - rewrite raw_val_combine.
      + rewrite (raw_val_perm _ _ x (ssort_perm var_cmp _)). apply raw_val_filter.
      + unfold nonneg_pows. eapply Permutation_Forall; [apply Permutation_sym; apply ssort_perm | exact Hf].
    - apply raw_val_filter.
  Qed.

  (* ---------- 3. SparseTerm::new gives a canonical term ---------- *)
  Definition pos_pows (t : term) : Prop := Forall (fun vp : nat * Z => 0 < snd vp) t.
  Definition var_le (a b : nat * Z) : Prop := (fst a <= fst b)%nat.
  Definition var_lt (a b : nat * Z) : Prop := (fst a < fst b)%nat.

  Lemma canon_of_adj : forall t, adj var_lt t -> pos_pows t -> term_canon t.
  Proof.
    intros t. induction t as [|[v p] t IH]; intros Ha Hp.
    - exact I.
    - inversion Hp as [|? ? Hp1 Hp2]; subst. destruct Ha as [Hh Ht]. simpl.
      split; [exact Hp1|]. split; [|apply IH; assumption].
      destruct t as [|[v' p'] t]; [exact I | exact Hh].
  Qed.

  Lemma adj_of_canon : forall t, term_canon t -> adj var_lt t /\ pos_pows t.
  Proof.
    intros t. induction t as [|[v p] t IH]; intros H.
    - split; [exact I | constructor].
    - simpl in H. destruct H as [Hp [Hh Ht]]. destruct (IH Ht) as [Ha Hpp]. split.
      + simpl. split; [|exact Ha]. destruct t as [|[v' p'] t]; [exact I | exact Hh].
      + constructor; [exact Hp | exact Hpp].
  Qed.

  Lemma canon_tail : forall a t, term_canon (a :: t) -> term_canon t.
  Proof. intros [v p] t H. simpl in H. tauto. Qed.

  Lemma combine_go_hd : forall l cur, exists p l', combine_go cur l = (fst cur, p) :: l'.
  Proof.
    intros l. induction l as [|[v p] l IH]; intros cur.
    - exists (snd cur), []. destruct cur; reflexivity.
    - cbn [combine_go]. destruct (Nat.eqb (fst cur) v).
      + destruct (IH (fst cur, snd cur + p)) as [q [l' E]]. exists q, l'. exact E.
      + exists (snd cur), (combine_go (v, p) l). destruct cur; reflexivity.
  Qed.

  Lemma adj_le_hd : forall (a a' : nat * Z) l, fst a = fst a' -> adj var_le (a :: l) -> adj var_le (a' :: l).
  Proof.
    intros a a' l E H. destruct l as [|b l]; simpl in *; [tauto|].
    unfold var_le in *. rewrite <- E. exact H.
  Qed.

  Lemma combine_go_adj : forall l cur, adj var_le (cur :: l) -> adj var_lt (combine_go cur l).
  Proof.
    intros l. induction l as [|[v p] l IH]; intros cur H.
    - simpl. tauto.
    - cbn [combine_go]. destruct (Nat.eqb_spec (fst cur) v) as [E|E].
      + apply IH. apply adj_le_hd with (a := (v, p)); [simpl; congruence|].
        apply adj_tail in H. exact H.
      + destruct H as [Hh Ht]. specialize (IH _ Ht).
        destruct (combine_go_hd l (v, p)) as [q [l' Eq]]. rewrite Eq in *.
        simpl. split; [|exact IH]. unfold var_le, var_lt in *. simpl in *. lia.
  Qed.

  Lemma pos_combine_go : forall l cur, pos_pows (cur :: l) -> pos_pows (combine_go cur l).
  Proof.
    intros l. induction l as [|[v p] l IH]; intros cur H.
    - exact H.
    - inversion H as [|? ? Hc Hl]; subst. inversion Hl as [|? ? Hp Hl']; subst. simpl in Hc, Hp.
      cbn [combine_go]. destruct (Nat.eqb (fst cur) v).
      + apply IH. constructor; [simpl; lia | exact Hl'].
      + constructor; [exact Hc | apply IH; exact Hl].
  Qed.

  Lemma var_sorted : forall t, adj var_le (ssort var_cmp t).
  Proof.
    intros t. apply ssort_adj.
    - intros y x H. unfold var_cmp in H. apply Nat.compare_lt_iff in H. unfold var_le. lia.
    - intros y x H. unfold var_cmp in H. unfold var_le.
      destruct (Nat.compare_spec (fst y) (fst x)) as [E|E|E]; try lia. congruence.
  Qed.

  Theorem term_new_canon : forall raw, Forall (fun vp : nat * Z => 0 <= snd vp) raw ->
    term_canon (term_new raw).
  Proof.
    intros raw H. rewrite term_new_unfold. cbv zeta.
    set (t := filter (fun vp : nat * Z => negb (snd vp =? 0)) raw).
    assert (Hpos : pos_pows t).
    { unfold pos_pows, t. rewrite Forall_forall in *. intros y Hy. apply filter_In in Hy.
      destruct Hy as [Hy1 Hy2]. specialize (H y Hy1). simpl in H.
      destruct (Z.eqb_spec (snd y) 0); simpl in Hy2; [discriminate | lia]. }
    destruct (Nat.ltb 1 (length t)) eqn:E.
    - assert (Hpos' : pos_pows (ssort var_cmp t)).
      { unfold pos_pows. eapply Permutation_Forall; [apply Permutation_sym; apply ssort_perm | exact Hpos]. }
      pose proof (var_sorted t) as Hs.
      destruct (ssort var_cmp t) as [|a s]; [exact I|]. simpl.
      apply canon_of_adj; [apply combine_go_adj; exact Hs | apply pos_combine_go; exact Hpos'].
    - apply Nat.ltb_ge in E. destruct t as [|a [|b t]]; simpl in E; try lia.
      + exact I.
      + apply canon_of_adj; [simpl; tauto | exact Hpos].
  Qed.

  (* ---------- 4. the term order ---------- *)
  Definition deg (t : term) : Z := fold_right (fun (vp : nat * Z) s => snd vp + s) 0 t.

  Lemma t_degree_fold : forall t a, fold_left (fun s (vp : nat * Z) => s + snd vp) t a = a + deg t.
  Proof.
    intros t. induction t as [|vp t IH]; intros a; simpl.
    - lia.
    - rewrite IH. lia.
  Qed.

  Lemma t_degree_deg : forall t, t_degree t = deg t.
  Proof. intros t. unfold t_degree. rewrite t_degree_fold. lia. Qed.

  Lemma deg_app : forall a c, deg (a ++ c) = deg a + deg c.
  Proof.
    intros a c. induction a as [|vp a IH]; simpl; [lia | rewrite IH; lia].
  Qed.

  Lemma t_degree_app : forall a c, t_degree (a ++ c) = t_degree a + t_degree c.
  Proof. intros a c. rewrite !t_degree_deg. apply deg_app. Qed.

  Lemma canon_deg_nonneg : forall t, term_canon t -> 0 <= deg t.
  Proof.
    intros t. induction t as [|[v p] t IH]; intros H; simpl.
    - lia.
    - simpl in H. destruct H as [Hp [_ Ht]]. specialize (IH Ht). lia.
  Qed.

  Lemma canon_deg_pos : forall t, term_canon t -> t <> [] -> 0 < deg t.
  Proof.
    intros t H Hn. destruct t as [|[v p] t]; [congruence|].
    pose proof (canon_deg_nonneg t (canon_tail _ _ H)) as Ht.
    simpl in H. simpl. lia.
  Qed.

  Theorem t_eqb_spec : forall a b, t_eqb a b = true <-> a = b.
  Proof.
    intros a. induction a as [|[v p] a IH]; intros [|[w q] b]; simpl.
    - tauto.
    - split; intros H; discriminate.
    - split; intros H; discriminate.
    - rewrite !andb_true_iff, Nat.eqb_eq, Z.eqb_eq, IH. split.
      + intros [[E1 E2] E3]. congruence.
      + intros E. inversion E. tauto.
  Qed.

  Lemma t_cmp_lex_refl : forall a, t_cmp_lex a a = Eq.
  Proof.
    intros a. induction a as [|[v p] a IH]; simpl.
    - reflexivity.
    - rewrite Nat.eqb_refl, Z.eqb_refl. simpl. exact IH.
  Qed.

  Lemma t_cmp_refl : forall a, t_cmp a a = Eq.
  Proof. intros a. unfold t_cmp. rewrite Z.eqb_refl. apply t_cmp_lex_refl. Qed.

  Lemma t_cmp_lex_eq : forall a b, term_canon a -> term_canon b -> deg a = deg b ->
    t_cmp_lex a b = Eq -> a = b.
  Proof.
    intros a. induction a as [|[cv cp] a IH]; intros [|[ov op] b] Ha Hb Hd H.
    - reflexivity.
    - exfalso. pose proof (canon_deg_pos _ Hb) as Hpos. simpl in *.
      assert (Hlt : 0 < op + deg b) by (apply Hpos; congruence). lia.
    - exfalso. pose proof (canon_deg_pos _ Ha) as Hpos. simpl in *.
      assert (Hlt : 0 < cp + deg a) by (apply Hpos; congruence). lia.
    - simpl in H. destruct (Nat.eqb_spec ov cv) as [E|E].
      + destruct (Z.eqb_spec cp op) as [E2|E2]; simpl in H.
        * subst. f_equal. apply IH.
          -- eapply canon_tail; exact Ha.
          -- eapply canon_tail; exact Hb.
          -- simpl in Hd. lia.
          -- exact H.
        * apply Z.compare_eq in H. contradiction.
      + apply Nat.compare_eq in H. contradiction.
  Qed.

  Theorem t_cmp_eq_iff : forall a b, term_canon a -> term_canon b -> (t_cmp a b = Eq <-> a = b).
  Proof.
    intros a b Ha Hb. split.
    - unfold t_cmp. rewrite !t_degree_deg. destruct (Z.eqb_spec (deg a) (deg b)) as [E|E]; intros H.
      + apply t_cmp_lex_eq; assumption.
      + apply Z.compare_eq in H. contradiction.
    - intros E. subst. apply t_cmp_refl.
  Qed.

  Lemma t_cmp_lex_antisym : forall a b, t_cmp_lex b a = CompOpp (t_cmp_lex a b).
  Proof.
    intros a. induction a as [|[cv cp] a IH]; intros [|[ov op] b]; simpl; try reflexivity.
    rewrite (Nat.eqb_sym cv ov). destruct (Nat.eqb ov cv).
    - rewrite (Z.eqb_sym op cp). destruct (cp =? op); simpl.
      + apply IH.
      + apply Z.compare_antisym.
    - apply Nat.compare_antisym.
  Qed.

  (* holds for all terms, canonical or not *)
  Theorem t_cmp_antisym : forall a b, t_cmp b a = CompOpp (t_cmp a b).
  Proof.
    intros a b. unfold t_cmp. rewrite (Z.eqb_sym (t_degree b) (t_degree a)).
    destruct (t_degree a =? t_degree b).
    - apply t_cmp_lex_antisym.
    - apply Z.compare_antisym.
  Qed.

  Lemma t_cmp_lex_trans : forall a b c, t_cmp_lex a b = Lt -> t_cmp_lex b c = Lt -> t_cmp_lex a c = Lt.
  Proof.
    intros a. induction a as [|[av ap] a IH]; intros [|[bv bp] b] [|[cv cp] c] H1 H2;
      simpl in H1, H2; try discriminate.
    simpl.
    destruct (Nat.eqb_spec bv av) as [E1|E1]; destruct (Nat.eqb_spec cv bv) as [E2|E2];
      destruct (Nat.eqb_spec cv av) as [E3|E3]; try (exfalso; lia);
      repeat match goal with
             | H : context [?x =? ?y] |- _ => destruct (Z.eqb_spec x y); simpl in H
             | |- context [?x =? ?y] => destruct (Z.eqb_spec x y); simpl
             end;
      rewrite ?Z.compare_lt_iff, ?Nat.compare_lt_iff in *; try lia.
    eapply IH; eassumption.
  Qed.

  (* holds for all terms, canonical or not *)
  Theorem t_cmp_trans : forall a b c, t_cmp a b = Lt -> t_cmp b c = Lt -> t_cmp a c = Lt.
  Proof.
    intros a b c. unfold t_cmp.
    destruct (Z.eqb_spec (t_degree a) (t_degree b)) as [E1|E1];
      destruct (Z.eqb_spec (t_degree b) (t_degree c)) as [E2|E2];
      destruct (Z.eqb_spec (t_degree a) (t_degree c)) as [E3|E3];
      rewrite ?Z.compare_lt_iff; intros H1 H2; try lia.
    eapply t_cmp_lex_trans; eassumption.
  Qed.

  Lemma t_cmp_nlt_ngt : forall a b, t_cmp a b <> Lt -> t_cmp b a <> Gt.
  Proof. intros a b H. rewrite t_cmp_antisym. destruct (t_cmp a b); simpl; congruence. Qed.

  Lemma t_cmp_gt_lt : forall a b, t_cmp a b = Gt -> t_cmp b a = Lt.
  Proof. intros a b H. rewrite t_cmp_antisym, H. reflexivity. Qed.

  (* ---------- 5. from_coefficients_vec: evaluation ---------- *)
  Definition terms_val' (ts : mterms T) (x : list T) : T :=
    fold_right (fun (ct : T * term) acc => fst ct [*] t_eval F (snd ct) x [+] acc) zero ts.
  Definition p_val (q : mvpoly T) (x : list T) : T := terms_val' (p_terms q) x.
  Definition tcmp2 (a b : T * term) : comparison := t_cmp (snd a) (snd b).
  (* every term of the list satisfies P *)
  Definition all_terms (P : term -> Prop) (l : mterms T) : Prop := Forall (fun ct : T * term => P (snd ct)) l.
  Definition in_range (n : nat) (t : term) : Prop := term_in_range n t = true.

  Lemma val_perm : forall l l' x, Permutation l l' -> terms_val' l x = terms_val' l' x.
  Proof.
    intros l l' x H. induction H as [|a l l' H IH|a b l|l l' l'' H1 IH1 H2 IH2]; simpl.
    - reflexivity.
    - rewrite IH. reflexivity.
    - ring.
    - rewrite IH1. exact IH2.
  Qed.

  Lemma val_dedup_go : forall l cur x, terms_val' (dedup_go F cur l) x = terms_val' (cur :: l) x.
  Proof.
    intros l. induction l as [|[c t] l IH]; intros cur x.
    - reflexivity.
    - cbn [dedup_go]. destruct (t_eqb (snd cur) t) eqn:E.
      + apply t_eqb_spec in E. rewrite IH. simpl. subst t. ring.
      + change (terms_val' (cur :: dedup_go F (c, t) l) x = terms_val' (cur :: (c, t) :: l) x).
        simpl. rewrite IH. reflexivity.
  Qed.

  Lemma val_dedup : forall l x, terms_val' (dedup F l) x = terms_val' l x.
  Proof. intros [|a l] x; [reflexivity | apply val_dedup_go]. Qed.

  Lemma val_remove_zeros : forall l x, terms_val' (remove_zeros F l) x = terms_val' l x.
  Proof.
    intros l x. induction l as [|[c t] l IH]; simpl.
    - reflexivity.
    - destruct (feqb F c zero) eqn:E; simpl.
      + apply eqb_spec in E. subst c. rewrite IH. ring.
      + rewrite IH. reflexivity.
  Qed.

  Lemma all_terms_dedup_go : forall P l cur, all_terms P (cur :: l) -> all_terms P (dedup_go F cur l).
  Proof.
    intros P l. induction l as [|[c t] l IH]; intros cur H.
    - exact H.
    - inversion H as [|? ? Hc Hl]; subst. inversion Hl as [|? ? Ht Hl']; subst.
      cbn [dedup_go]. destruct (t_eqb (snd cur) t).
      + apply IH. constructor; [exact Hc | exact Hl'].
      + constructor; [exact Hc | apply IH; exact Hl].
  Qed.

  Lemma all_terms_dedup : forall P l, all_terms P l -> all_terms P (dedup F l).
  Proof. intros P [|a l] H; [exact H | apply all_terms_dedup_go; exact H]. Qed.

  Lemma all_terms_filter : forall P (f : T * term -> bool) l, all_terms P l -> all_terms P (filter f l).
  Proof.
    intros P f l H. unfold all_terms in *. rewrite Forall_forall in *.
    intros y Hy. apply filter_In in Hy. apply H. tauto.
  Qed.

  Lemma all_terms_perm : forall P l l', Permutation l l' -> all_terms P l -> all_terms P l'.
  Proof. intros P l l' Hp H. unfold all_terms in *. eapply Permutation_Forall; eassumption. Qed.

  Lemma all_terms_impl : forall (P Q : term -> Prop) l, (forall t, P t -> Q t) -> all_terms P l -> all_terms Q l.
  Proof. intros P Q l HPQ H. unfold all_terms in *. eapply Forall_impl; [|exact H]. intros a Ha. apply HPQ. exact Ha. Qed.

  Lemma in_range_mono : forall n m t, (n <= m)%nat -> in_range n t -> in_range m t.
  Proof.
    intros n m t Hnm H. unfold in_range, term_in_range in *. rewrite forallb_forall in *.
    intros vp Hvp. specialize (H vp Hvp). apply Nat.ltb_lt in H. apply Nat.ltb_lt. lia.
  Qed.

  Lemma forallb_range_iff : forall n l,
    forallb (fun ct : T * term => term_in_range n (snd ct)) l = true <-> all_terms (in_range n) l.
  Proof. intros n l. unfold all_terms, in_range. rewrite forallb_forall, Forall_forall. tauto. Qed.

  Lemma val_all_zero : forall l x,
    forallb (fun ct : T * term => feqb F (fst ct) zero) l = true -> terms_val' l x = zero.
  Proof.
    intros l x. induction l as [|[c t] l IH]; simpl; intros H.
    - reflexivity.
    - apply andb_true_iff in H. destruct H as [H1 H2]. apply eqb_spec in H1. subst c.
      rewrite IH by exact H2. ring.
  Qed.

  (* evaluate = the plain sum of coeff * term value, as soon as no index is out of range *)
  Theorem p_eval_val : forall q x, (p_nv q <= length x)%nat ->
    all_terms (in_range (length x)) (p_terms q) -> p_eval F q x = Ok (p_val q x).
  Proof.
    intros q x Hnv Hr. unfold p_eval.
    destruct (Nat.leb_spec (p_nv q) (length x)) as [Hle|Hle]; [|lia]. simpl.
    unfold p_is_zero. destruct (forallb _ (p_terms q)) eqn:Ez.
    - unfold p_val. rewrite val_all_zero by exact Ez. reflexivity.
    - apply forallb_range_iff in Hr. rewrite Hr. reflexivity.
  Qed.

  Lemma p_from_unfold : forall nv ts,
    p_from F nv ts =
    if forallb (fun ct : T * term => term_in_range nv (snd ct)) (ssort tcmp2 ts)
    then Ok (mkP nv (remove_zeros F (dedup F (ssort tcmp2 ts)))) else Panic.
  Proof. reflexivity. Qed.

  Lemma p_from_ok_inv : forall nv ts q, p_from F nv ts = Ok q ->
    all_terms (in_range nv) ts /\ q = mkP nv (remove_zeros F (dedup F (ssort tcmp2 ts))).
  Proof.
    intros nv ts q H. rewrite p_from_unfold in H.
    destruct (forallb _ (ssort tcmp2 ts)) eqn:E; [|discriminate].
    split; [|congruence]. apply forallb_range_iff in E.
    eapply all_terms_perm; [apply ssort_perm | exact E].
  Qed.

  Theorem p_from_ok_iff : forall nv ts,
    (exists q, p_from F nv ts = Ok q) <-> all_terms (in_range nv) ts.
  Proof.
    intros nv ts. split.
    - intros [q H]. apply p_from_ok_inv in H. tauto.
    - intros H. rewrite p_from_unfold.
      assert (E : forallb (fun ct : T * term => term_in_range nv (snd ct)) (ssort tcmp2 ts) = true).
      { apply forallb_range_iff. eapply all_terms_perm; [apply Permutation_sym; apply ssort_perm | exact H]. }
      rewrite E. eexists. reflexivity.
  Qed.

  Theorem p_from_no_fuel : forall nv ts, p_from F nv ts <> OutOfFuel.
  Proof. intros nv ts. rewrite p_from_unfold. destruct (forallb _ _); discriminate. Qed.

  Theorem p_from_panic_iff : forall nv ts,
    p_from F nv ts = Panic <-> exists ct, In ct ts /\ term_in_range nv (snd ct) = false.
  Proof.
    intros nv ts. rewrite p_from_unfold. split.
    - destruct (forallb _ (ssort tcmp2 ts)) eqn:E; [discriminate|]. intros _.
      assert (Hex : existsb (fun ct : T * term => negb (term_in_range nv (snd ct))) (ssort tcmp2 ts) = true).
      { clear - E. induction (ssort tcmp2 ts) as [|a l IH]; simpl in *; [discriminate|].
        destruct (term_in_range nv (snd a)); simpl in *; [apply IH; exact E | reflexivity]. }
      apply existsb_exists in Hex. destruct Hex as [ct [Hin Hct]]. exists ct. split.
      + eapply Permutation_in; [apply ssort_perm | exact Hin].
      + destruct (term_in_range nv (snd ct)); [discriminate | reflexivity].
    - intros [ct [Hin Hct]]. destruct (forallb _ (ssort tcmp2 ts)) eqn:E; [|reflexivity].
      rewrite forallb_forall in E.
      assert (Hin' : In ct (ssort tcmp2 ts)).
      { eapply Permutation_in; [apply Permutation_sym; apply ssort_perm | exact Hin]. }
      specialize (E ct Hin'). congruence.
  Qed.

  Lemma p_from_terms_val : forall nv ts q x, p_from F nv ts = Ok q -> p_val q x = terms_val' ts x.
  Proof.
    intros nv ts q x H. apply p_from_ok_inv in H. destruct H as [_ Hq]. subst q.
    unfold p_val. simpl. rewrite val_remove_zeros, val_dedup. apply val_perm. apply ssort_perm.
  Qed.

  Lemma p_from_all_terms : forall P nv ts q, p_from F nv ts = Ok q ->
    all_terms P ts -> all_terms P (p_terms q).
  Proof.
    intros P nv ts q H HP. apply p_from_ok_inv in H. destruct H as [_ Hq]. subst q. simpl.
    apply all_terms_filter. apply all_terms_dedup.
    eapply all_terms_perm; [apply Permutation_sym; apply ssort_perm | exact HP].
  Qed.

  (* no assumption on the terms at all: duplicates, zero coefficients, any order *)
  Theorem p_from_eval_gen : forall nv ts q x, p_from F nv ts = Ok q -> (nv <= length x)%nat ->
    p_eval F q x = Ok (terms_val' ts x).
  Proof.
    intros nv ts q x H Hnv. rewrite <- (p_from_terms_val nv ts q x H).
    pose proof (p_from_ok_inv _ _ _ H) as [Hr Hq].
    apply p_eval_val.
    - subst q. simpl. exact Hnv.
    - eapply all_terms_impl; [|apply (p_from_all_terms _ _ _ _ H Hr)].
      intros t Ht. eapply in_range_mono; eassumption.
  Qed.

  Theorem p_from_eval : forall nv ts q x, Forall (fun ct : T * term => term_canon (snd ct)) ts ->
    p_from F nv ts = Ok q -> (nv <= length x)%nat -> p_eval F q x = Ok (terms_val' ts x).
  Proof. intros nv ts q x _ H Hnv. eapply p_from_eval_gen; eassumption. Qed.

  Theorem mv_from_terms_spec : forall nv (raws : list (T * term)) q x,
    Forall (fun cr : T * term => Forall (fun vp : nat * Z => 0 <= snd vp) (snd cr)) raws ->
    p_from F nv (map (fun cr : T * term => (fst cr, term_new (snd cr))) raws) = Ok q ->
    (nv <= length x)%nat ->
    p_eval F q x = Ok (terms_val F raws x).
  Proof.
    intros nv raws q x Hraw H Hnv. rewrite (p_from_eval_gen _ _ _ _ H Hnv). f_equal.
    clear H. induction Hraw as [|cr raws Hcr Hraws IH]; simpl.
    - reflexivity.
    - rewrite IH. rewrite term_new_eval by exact Hcr. reflexivity.
  Qed.

  (* ---------- 6. from_coefficients_vec: canonical form ---------- *)
  Definition t_lt2 (a b : T * term) : Prop := t_cmp (snd a) (snd b) = Lt.
  Definition t_le2 (a b : T * term) : Prop := t_cmp (snd a) (snd b) <> Gt.

  Lemma terms_sorted_adj : forall l, terms_sorted l <-> adj t_lt2 l.
  Proof.
    intros l. induction l as [|[c t] l IH]; simpl.
    - tauto.
    - rewrite IH. destruct l as [|[c' t'] l]; unfold t_lt2; simpl; tauto.
  Qed.

  Lemma sorted_le : forall ts, adj t_le2 (ssort tcmp2 ts).
  Proof.
    intros ts. apply ssort_adj.
    - intros y x H. unfold t_le2, tcmp2 in *. congruence.
    - intros y x H. unfold t_le2, tcmp2 in *. apply t_cmp_nlt_ngt. exact H.
  Qed.

  Lemma adj_le2_hd : forall (a a' : T * term) l, snd a = snd a' -> adj t_le2 (a :: l) -> adj t_le2 (a' :: l).
  Proof.
    intros a a' l E H. destruct l as [|b l]; simpl in *; [tauto|].
    unfold t_le2 in *. rewrite <- E. exact H.
  Qed.

  Lemma dedup_go_hd : forall l cur, exists c l', dedup_go F cur l = (c, snd cur) :: l'.
  Proof.
    intros l. induction l as [|[c t] l IH]; intros cur.
    - exists (fst cur), []. destruct cur; reflexivity.
    - cbn [dedup_go]. destruct (t_eqb (snd cur) t).
      + destruct (IH (fst cur [+] c, snd cur)) as [c' [l' E]]. exists c', l'. exact E.
      + exists (fst cur), (dedup_go F (c, t) l). destruct cur; reflexivity.
  Qed.

  Lemma dedup_go_sorted : forall l cur, all_terms term_canon (cur :: l) -> adj t_le2 (cur :: l) ->
    adj t_lt2 (dedup_go F cur l).
  Proof.
    intros l. induction l as [|[c t] l IH]; intros cur Hc H.
    - simpl. tauto.
    - inversion Hc as [|? ? Hc1 Hc2]; subst. inversion Hc2 as [|? ? Hc3 Hc4]; subst. simpl in Hc1, Hc3.
      cbn [dedup_go]. destruct (t_eqb (snd cur) t) eqn:E.
      + apply t_eqb_spec in E. apply IH.
        * constructor; [exact Hc1 | exact Hc4].
        * apply adj_le2_hd with (a := (c, t)); [simpl; congruence|].
          apply adj_tail in H. exact H.
      + destruct H as [Hh Ht]. specialize (IH _ Hc2 Ht).
        destruct (dedup_go_hd l (c, t)) as [c' [l' Eq]]. rewrite Eq in *.
        simpl. split; [|exact IH]. unfold t_le2, t_lt2 in *. simpl in *.
        destruct (t_cmp (snd cur) t) eqn:Ec; try congruence.
        apply t_cmp_eq_iff in Ec; try assumption. subst t.
        assert (Et : t_eqb (snd cur) (snd cur) = true) by (apply t_eqb_spec; reflexivity). congruence.
  Qed.

  Lemma dedup_sorted : forall l, all_terms term_canon l -> adj t_le2 l -> adj t_lt2 (dedup F l).
  Proof. intros [|a l] Hc H; [exact I | apply dedup_go_sorted; assumption]. Qed.

  (* strictly sorted lists: the head is below every later element (uses transitivity) *)
  Lemma adj_lt_all : forall l a, adj t_lt2 (a :: l) -> Forall (t_lt2 a) l.
  Proof.
    intros l. induction l as [|b l IH]; intros a H.
    - constructor.
    - destruct H as [Hab Hbl]. constructor; [exact Hab|].
      specialize (IH _ Hbl). eapply Forall_impl; [|exact IH].
      intros c Hbc. unfold t_lt2 in *. eapply t_cmp_trans; eassumption.
  Qed.

  Lemma adj_lt_cons : forall l a, Forall (t_lt2 a) l -> adj t_lt2 l -> adj t_lt2 (a :: l).
  Proof.
    intros l a Hall H. simpl. split; [|exact H].
    destruct l as [|b l]; [exact I|]. inversion Hall; assumption.
  Qed.

  Lemma filter_sorted : forall (f : T * term -> bool) l, adj t_lt2 l -> adj t_lt2 (filter f l).
  Proof.
    intros f l. induction l as [|a l IH]; intros H.
    - exact I.
    - pose proof (adj_lt_all _ _ H) as Hall. apply adj_tail in H. specialize (IH H).
      simpl. destruct (f a); [|exact IH].
      apply adj_lt_cons; [|exact IH].
      rewrite Forall_forall in *. intros y Hy. apply filter_In in Hy. apply Hall. tauto.
  Qed.

  Lemma remove_zeros_nonzero : forall l, Forall (fun ct : T * term => fst ct <> zero) (remove_zeros F l).
  Proof.
    intros l. rewrite Forall_forall. intros y Hy. unfold remove_zeros in Hy.
    apply filter_In in Hy. destruct Hy as [_ Hy]. intros E.
    apply eqb_spec in E. rewrite E in Hy. discriminate.
  Qed.

  Lemma p_canon_intro : forall nv l, adj t_lt2 l -> all_terms term_canon l ->
    Forall (fun ct : T * term => fst ct <> zero) l -> p_canon F (mkP nv l).
  Proof.
    intros nv l Hs Hc Hz. unfold p_canon. simpl. split.
    - apply terms_sorted_adj. exact Hs.
    - unfold all_terms in Hc. rewrite Forall_forall in *. intros y Hy. split; [apply Hc | apply Hz]; exact Hy.
  Qed.

  Lemma p_canon_elim : forall q, p_canon F q ->
    adj t_lt2 (p_terms q) /\ all_terms term_canon (p_terms q) /\
    Forall (fun ct : T * term => fst ct <> zero) (p_terms q).
  Proof.
    intros q [Hs Hc]. split; [apply terms_sorted_adj; exact Hs|].
    unfold all_terms. rewrite Forall_forall in Hc. split; apply Forall_forall; intros y Hy; apply (Hc y Hy).
  Qed.

  Theorem p_from_canon : forall nv ts q, Forall (fun ct : T * term => term_canon (snd ct)) ts ->
    p_from F nv ts = Ok q -> p_canon F q.
  Proof.
    intros nv ts q Hc H. pose proof (p_from_all_terms term_canon _ _ _ H Hc) as Hcq.
    apply p_from_ok_inv in H. destruct H as [_ Hq]. subst q. simpl in Hcq.
    apply p_canon_intro.
    - apply filter_sorted. apply dedup_sorted.
      + eapply all_terms_perm; [apply Permutation_sym; apply ssort_perm | exact Hc].
      + apply sorted_le.
    - exact Hcq.
    - apply remove_zeros_nonzero.
  Qed.

  (* ---------- 7. operators: pointwise meaning ---------- *)
  Lemma p_merge_nil_l : forall l2 : mterms T, p_merge F [] l2 = l2.
  Proof. intros [|a l2]; reflexivity. Qed.
  Lemma p_merge_nil_r : forall l1 : mterms T, p_merge F l1 [] = l1.
  Proof. intros [|[c t] l1]; reflexivity. Qed.
  Lemma p_merge_cons : forall c1 t1 l1 c2 t2 l2,
    p_merge F ((c1, t1) :: l1) ((c2, t2) :: l2) =
    match t_cmp t1 t2 with
    | Lt => (c1, t1) :: p_merge F l1 ((c2, t2) :: l2)
    | Eq => (c1 [+] c2, t1) :: p_merge F l1 l2
    | Gt => (c2, t2) :: p_merge F ((c1, t1) :: l1) l2
    end.
  Proof. reflexivity. Qed.

  Lemma val_merge : forall l1 l2 x, all_terms term_canon l1 -> all_terms term_canon l2 ->
    terms_val' (p_merge F l1 l2) x = terms_val' l1 x [+] terms_val' l2 x.
  Proof.
    intros l1. induction l1 as [|[c1 t1] l1 IH1]; intros l2 x H1 H2.
    - rewrite p_merge_nil_l. simpl. ring.
    - induction l2 as [|[c2 t2] l2 IH2].
      + rewrite p_merge_nil_r. simpl. ring.
      + inversion H1 as [|? ? Ht1 H1']; subst. inversion H2 as [|? ? Ht2 H2']; subst. simpl in Ht1, Ht2.
        rewrite p_merge_cons. destruct (t_cmp t1 t2) eqn:E.
        * apply t_cmp_eq_iff in E; try assumption. subst t2.
          cbn [terms_val' fold_right fst snd]. fold (terms_val' (p_merge F l1 l2) x).
          rewrite IH1 by assumption. fold (terms_val' l1 x). fold (terms_val' l2 x). ring.
        * cbn [terms_val' fold_right fst snd]. fold (terms_val' (p_merge F l1 ((c2, t2) :: l2)) x).
          rewrite IH1 by assumption. fold (terms_val' l1 x).
          cbn [terms_val' fold_right fst snd]. fold (terms_val' l2 x). ring.
        * cbn [terms_val' fold_right fst snd]. fold (terms_val' (p_merge F ((c1, t1) :: l1) l2) x).
          rewrite IH2 by assumption.
          cbn [terms_val' fold_right fst snd]. fold (terms_val' l1 x). fold (terms_val' l2 x). ring.
  Qed.

  Theorem p_add_pointwise : forall a b x,
    all_terms term_canon (p_terms a) -> all_terms term_canon (p_terms b) ->
    p_val (p_add F a b) x = p_val a x [+] p_val b x.
  Proof.
    intros a b x Ha Hb. unfold p_val, p_add. simpl. rewrite val_remove_zeros. apply val_merge; assumption.
  Qed.

  Theorem p_neg_pointwise : forall a x, p_val (p_neg F a) x = [-] p_val a x.
  Proof.
    intros a x. unfold p_val, p_neg. simpl. induction (p_terms a) as [|[c t] l IH]; simpl.
    - ring.
    - rewrite IH. ring.
  Qed.

  Lemma all_terms_map_snd : forall P (g : T -> T) l,
    all_terms P l -> all_terms P (map (fun ct : T * term => (g (fst ct), snd ct)) l).
  Proof.
    intros P g l H. unfold all_terms in *. induction H as [|a l Ha Hl IH]; simpl; constructor; assumption.
  Qed.

  Theorem p_sub_pointwise : forall a b x,
    all_terms term_canon (p_terms a) -> all_terms term_canon (p_terms b) ->
    p_val (p_sub F a b) x = p_val a x [-] p_val b x.
  Proof.
    intros a b x Ha Hb. unfold p_sub. rewrite p_add_pointwise.
    - rewrite p_neg_pointwise. ring.
    - exact Ha.
    - unfold p_neg. simpl. apply all_terms_map_snd. exact Hb.
  Qed.

  Theorem p_add_scaled_pointwise : forall a f b x,
    all_terms term_canon (p_terms a) -> all_terms term_canon (p_terms b) ->
    p_val (p_add_scaled F a f b) x = p_val a x [+] f [*] p_val b x.
  Proof.
    intros a f b x Ha Hb. unfold p_add_scaled. rewrite p_add_pointwise.
    - f_equal. unfold p_val. simpl. induction (p_terms b) as [|[c t] l IH]; simpl.
      + ring.
      + inversion Hb as [|? ? Hb1 Hb2]; subst. rewrite IH by exact Hb2. ring.
    - exact Ha.
    - simpl. apply (all_terms_map_snd term_canon (fun c => c [*] f)). exact Hb.
  Qed.

  Lemma all_terms_merge : forall P l1 l2, all_terms P l1 -> all_terms P l2 -> all_terms P (p_merge F l1 l2).
  Proof.
    intros P l1. induction l1 as [|[c1 t1] l1 IH1]; intros l2 H1 H2.
    - rewrite p_merge_nil_l. exact H2.
    - induction l2 as [|[c2 t2] l2 IH2].
      + rewrite p_merge_nil_r. exact H1.
      + inversion H1 as [|? ? Ht1 H1']; subst. inversion H2 as [|? ? Ht2 H2']; subst.
        rewrite p_merge_cons. destruct (t_cmp t1 t2).
        * constructor; [exact Ht1 | apply IH1; assumption].
        * constructor; [exact Ht1 | apply IH1; assumption].
        * constructor; [exact Ht2 | apply IH2; assumption].
  Qed.

  Lemma p_add_all_terms : forall P a b, all_terms P (p_terms a) -> all_terms P (p_terms b) ->
    all_terms P (p_terms (p_add F a b)).
  Proof.
    intros P a b Ha Hb. unfold p_add. simpl. apply all_terms_filter. apply all_terms_merge; assumption.
  Qed.

  Theorem p_add_eval : forall a b x,
    all_terms term_canon (p_terms a) -> all_terms term_canon (p_terms b) ->
    (Nat.max (p_nv a) (p_nv b) <= length x)%nat ->
    all_terms (in_range (length x)) (p_terms a) -> all_terms (in_range (length x)) (p_terms b) ->
    p_eval F a x = Ok (p_val a x) /\ p_eval F b x = Ok (p_val b x) /\
    p_eval F (p_add F a b) x = Ok (p_val a x [+] p_val b x).
  Proof.
    intros a b x Ha Hb Hnv Hra Hrb. split; [|split].
    - apply p_eval_val; [lia | exact Hra].
    - apply p_eval_val; [lia | exact Hrb].
    - rewrite <- p_add_pointwise by assumption. apply p_eval_val.
      + simpl. exact Hnv.
      + apply p_add_all_terms; assumption.
  Qed.

  (* ---------- 8. operators: canonical form; degree ---------- *)
  (* sorted with canonical terms, zero coefficients allowed *)
  Definition p_sorted (q : mvpoly T) : Prop :=
    adj t_lt2 (p_terms q) /\ all_terms term_canon (p_terms q).

  Lemma p_canon_sorted : forall q, p_canon F q -> p_sorted q.
  Proof. intros q H. apply p_canon_elim in H. unfold p_sorted. tauto. Qed.

  Lemma lt_all_trans : forall (a b : T * term) l, t_lt2 a b -> Forall (t_lt2 b) l -> Forall (t_lt2 a) l.
  Proof.
    intros a b l Hab H. eapply Forall_impl; [|exact H].
    intros c Hbc. unfold t_lt2 in *. eapply t_cmp_trans; eassumption.
  Qed.

  Lemma merge_lt_all : forall (a : T * term) l1 l2, Forall (t_lt2 a) l1 -> Forall (t_lt2 a) l2 ->
    Forall (t_lt2 a) (p_merge F l1 l2).
  Proof.
    intros a l1 l2 H1 H2.
    exact (all_terms_merge (fun t => t_cmp (snd a) t = Lt) l1 l2 H1 H2).
  Qed.

  Lemma merge_sorted : forall l1 l2, all_terms term_canon l1 -> all_terms term_canon l2 ->
    adj t_lt2 l1 -> adj t_lt2 l2 -> adj t_lt2 (p_merge F l1 l2).
  Proof.
    intros l1. induction l1 as [|[c1 t1] l1 IH1]; intros l2 Hc1 Hc2 H1 H2.
    - rewrite p_merge_nil_l. exact H2.
    - induction l2 as [|[c2 t2] l2 IH2].
      + rewrite p_merge_nil_r. exact H1.
      + inversion Hc1 as [|? ? Ht1 Hc1']; subst. inversion Hc2 as [|? ? Ht2 Hc2']; subst. simpl in Ht1, Ht2.
        pose proof (adj_lt_all _ _ H1) as Ha1. pose proof (adj_lt_all _ _ H2) as Ha2.
        pose proof (adj_tail _ _ _ H1) as H1'. pose proof (adj_tail _ _ _ H2) as H2'.
        rewrite p_merge_cons. destruct (t_cmp t1 t2) eqn:E.
        * apply t_cmp_eq_iff in E; try assumption. subst t2.
          apply adj_lt_cons; [|apply IH1; assumption].
          apply merge_lt_all; [exact Ha1 | exact Ha2].
        * apply adj_lt_cons; [|apply IH1; assumption].
          apply merge_lt_all; [exact Ha1|].
          constructor; [exact E|]. eapply lt_all_trans; [|exact Ha2]. exact E.
        * apply t_cmp_gt_lt in E.
          apply adj_lt_cons; [|apply IH2; assumption].
          apply merge_lt_all; [|exact Ha2].
          constructor; [exact E|]. eapply lt_all_trans; [|exact Ha1]. exact E.
  Qed.

  Lemma p_add_canon_gen : forall a b, p_sorted a -> p_sorted b -> p_canon F (p_add F a b).
  Proof.
    intros a b [Hsa Hca] [Hsb Hcb]. unfold p_add. apply p_canon_intro.
    - apply filter_sorted. apply merge_sorted; assumption.
    - apply all_terms_filter. apply all_terms_merge; assumption.
    - apply remove_zeros_nonzero.
  Qed.

  Theorem p_add_canon : forall a b, p_canon F a -> p_canon F b -> p_canon F (p_add F a b).
  Proof. intros a b Ha Hb. apply p_add_canon_gen; apply p_canon_sorted; assumption. Qed.

  Lemma adj_map_coeff : forall (g : T -> T) l,
    adj t_lt2 l -> adj t_lt2 (map (fun ct : T * term => (g (fst ct), snd ct)) l).
  Proof.
    intros g l. induction l as [|a l IH]; intros H.
    - exact I.
    - destruct H as [Hh Ht]. simpl. split; [|apply IH; exact Ht].
      destruct l as [|b l]; [exact I | exact Hh].
  Qed.

  Lemma p_neg_sorted : forall a, p_sorted a -> p_sorted (p_neg F a).
  Proof.
    intros a [Hs Hc]. unfold p_sorted, p_neg. simpl. split.
    - apply adj_map_coeff. exact Hs.
    - apply all_terms_map_snd. exact Hc.
  Qed.

  Lemma neg_nonzero : forall l : mterms T, Forall (fun ct : T * term => fst ct <> zero) l ->
    Forall (fun ct : T * term => fst ct <> zero) (map (fun ct : T * term => ([-] fst ct, snd ct)) l).
  Proof.
    intros l Hz. induction Hz as [|ct l Hct Hl IH]; simpl; constructor.
    - simpl. intros E. apply Hct. replace (fst ct) with ([-] [-] fst ct) by ring. rewrite E. ring.
    - exact IH.
  Qed.

  Theorem p_neg_canon : forall a, p_canon F a -> p_canon F (p_neg F a).
  Proof.
    intros a H. destruct (p_neg_sorted a (p_canon_sorted a H)) as [Hs Hc].
    apply p_canon_elim in H. destruct H as [_ [_ Hz]].
    unfold p_neg in *. simpl in *. apply p_canon_intro; [exact Hs | exact Hc |].
    apply neg_nonzero. exact Hz.
  Qed.

  Theorem p_sub_canon : forall a b, p_canon F a -> p_canon F b -> p_canon F (p_sub F a b).
  Proof.
    intros a b Ha Hb. unfold p_sub. apply p_add_canon_gen.
    - apply p_canon_sorted. exact Ha.
    - apply p_neg_sorted. apply p_canon_sorted. exact Hb.
  Qed.

  Theorem p_add_scaled_canon : forall a f b, p_canon F a -> p_canon F b -> p_canon F (p_add_scaled F a f b).
  Proof.
    intros a f b Ha Hb. unfold p_add_scaled. apply p_add_canon_gen.
    - apply p_canon_sorted. exact Ha.
    - apply p_canon_sorted in Hb. destruct Hb as [Hs Hc]. unfold p_sorted. simpl. split.
      + apply (adj_map_coeff (fun c => c [*] f)). exact Hs.
      + apply (all_terms_map_snd term_canon (fun c => c [*] f)). exact Hc.
  Qed.

  Theorem p_add_nv : forall a b, p_nv (p_add F a b) = Nat.max (p_nv a) (p_nv b).
  Proof. reflexivity. Qed.

  (* degree: 0 for no terms, otherwise the maximum of the term degrees *)
  Theorem p_degree_spec : forall q, all_terms term_canon (p_terms q) ->
    (p_terms q = [] -> p_degree q = 0) /\
    (forall ct, In ct (p_terms q) -> t_degree (snd ct) <= p_degree q) /\
    (p_terms q <> [] -> exists ct, In ct (p_terms q) /\ p_degree q = t_degree (snd ct)).
  Proof.
    intros q Hc. unfold p_degree. induction (p_terms q) as [|[c t] l IH].
    - split; [reflexivity|]. split; [intros ct []|]. intros Hn. congruence.
    - inversion Hc as [|? ? Ht Hl]; subst. simpl in Ht.
      destruct (IH Hl) as [IH1 [IH2 IH3]]. clear IH.
      split; [discriminate|]. split.
      + intros ct [E|Hin]; simpl.
        * subst ct. simpl. lia.
        * specialize (IH2 ct Hin). lia.
      + intros _. cbn [fold_right snd].
        pose proof (canon_deg_nonneg t Ht) as Hd. rewrite <- t_degree_deg in Hd.
        destruct l as [|a l].
        * exists (c, t). split; [left; reflexivity|]. simpl. lia.
        * destruct IH3 as [ct [Hin Hct]]; [discriminate|].
          destruct (Z.max_spec (t_degree t) (fold_right (fun (ct0 : T * term) acc => Z.max (t_degree (snd ct0)) acc) 0 (a :: l)))
            as [[Hlt Hm]|[Hlt Hm]].
          -- exists ct. split; [right; exact Hin|]. rewrite Hm. exact Hct.
          -- exists (c, t). split; [left; reflexivity|]. rewrite Hm. reflexivity.
  Qed.

  (* ---------- evaluation-level corollaries for the other operators ---------- *)
  Theorem p_neg_eval : forall a x, (p_nv a <= length x)%nat ->
    all_terms (in_range (length x)) (p_terms a) ->
    p_eval F (p_neg F a) x = Ok ([-] p_val a x).
  Proof.
    intros a x Hnv Hr. rewrite <- p_neg_pointwise. apply p_eval_val.
    - simpl. exact Hnv.
    - unfold p_neg. simpl. apply all_terms_map_snd. exact Hr.
  Qed.

  Theorem p_sub_eval : forall a b x,
    all_terms term_canon (p_terms a) -> all_terms term_canon (p_terms b) ->
    (Nat.max (p_nv a) (p_nv b) <= length x)%nat ->
    all_terms (in_range (length x)) (p_terms a) -> all_terms (in_range (length x)) (p_terms b) ->
    p_eval F (p_sub F a b) x = Ok (p_val a x [-] p_val b x).
  Proof.
    intros a b x Ha Hb Hnv Hra Hrb. rewrite <- p_sub_pointwise by assumption. apply p_eval_val.
    - simpl. exact Hnv.
    - unfold p_sub. apply p_add_all_terms; [exact Hra|].
      unfold p_neg. simpl. apply all_terms_map_snd. exact Hrb.
  Qed.

  Theorem p_add_scaled_eval : forall a f b x,
    all_terms term_canon (p_terms a) -> all_terms term_canon (p_terms b) ->
    (Nat.max (p_nv a) (p_nv b) <= length x)%nat ->
    all_terms (in_range (length x)) (p_terms a) -> all_terms (in_range (length x)) (p_terms b) ->
    p_eval F (p_add_scaled F a f b) x = Ok (p_val a x [+] f [*] p_val b x).
  Proof.
    intros a f b x Ha Hb Hnv Hra Hrb. rewrite <- p_add_scaled_pointwise by assumption. apply p_eval_val.
    - simpl. exact Hnv.
    - unfold p_add_scaled. apply p_add_all_terms; [exact Hra|].
      simpl. apply (all_terms_map_snd (in_range (length x)) (fun c => c [*] f)). exact Hrb.
  Qed.

End MvProofs.
