(* C17 proofs: relabel at the level of evaluation.  The relabelled extension evaluates, at
   any point x, as the original one at the point whose two k-windows are exchanged. *)
From V Require Import Base.Field C17.Mle C17.Spec C17.DenseProofs C17.SwapBits C17.RelabelProofs.
Require Import Lia List Arith Bool Ring ZArith Permutation.
Import ListNotations.
Local Open Scope nat_scope.

(* ---------- bits of a nat index, through Z.testbit ---------- *)
Definition bitZ (b m : nat) : bool := Z.testbit (Z.of_nat b) (Z.of_nat m).

Lemma of_nat_div2_odd : forall b, Z.of_nat b = (2 * Z.of_nat (Nat.div2 b) + Z.b2z (Nat.odd b))%Z.
Proof.
  intros b. rewrite (Nat.div2_odd b) at 1. rewrite Nat2Z.inj_add, Nat2Z.inj_mul.
  destruct (Nat.odd b); reflexivity.
Qed.
Lemma bitZ_0 : forall b, bitZ b 0 = Nat.odd b.
Proof.
  intros b. unfold bitZ. cbn [Z.of_nat]. rewrite Z.bit0_odd, (of_nat_div2_odd b).
  rewrite Z.add_comm, Z.odd_add_mul_2. destruct (Nat.odd b); reflexivity.
Qed.
Lemma bitZ_S : forall b m, bitZ b (S m) = bitZ (Nat.div2 b) m.
Proof.
  intros b m. unfold bitZ. rewrite Nat2Z.inj_succ, (of_nat_div2_odd b) at 1.
  apply Z.testbit_succ_r. lia.
Qed.

(* nat version of the bit permutation *)
Definition sigma_nat (a b k m : nat) : nat :=
  Z.to_nat (sigma (Z.of_nat a) (Z.of_nat b) (Z.of_nat k) (Z.of_nat m)).
Lemma sigma_nat_Z : forall a b k m, a + k <= b ->
  Z.of_nat (sigma_nat a b k m) = sigma (Z.of_nat a) (Z.of_nat b) (Z.of_nat k) (Z.of_nat m).
Proof. intros a b k m H. unfold sigma_nat. apply Z2Nat.id. apply sigma_nonneg; lia. Qed.
Lemma sigma_nat_invol : forall a b k m, a + k <= b -> sigma_nat a b k (sigma_nat a b k m) = m.
Proof.
  intros a b k m H. unfold sigma_nat at 1. rewrite sigma_nat_Z by exact H.
  rewrite sigma_invol by lia. apply Nat2Z.id.
Qed.
Lemma sigma_nat_range : forall a b k n m, a + k <= b -> b + k <= n -> m < n -> sigma_nat a b k m < n.
Proof.
  intros a b k n m H1 H2 Hm. unfold sigma_nat.
  assert (0 <= sigma (Z.of_nat a) (Z.of_nat b) (Z.of_nat k) (Z.of_nat m) < Z.of_nat n)%Z; [|lia].
  unfold sigma. zb.
Qed.
Lemma bitZ_swap : forall j a b k m, a + k <= b ->
  bitZ (swap_bits_nat j a b k) m = bitZ j (sigma_nat a b k m).
Proof.
  intros j a b k m H. unfold bitZ, swap_bits_nat.
  rewrite Z2Nat.id by (apply swap_bits_nonneg; lia).
  rewrite swap_bits_testbit by lia. rewrite sigma_nat_Z by exact H. reflexivity.
Qed.

Section RelabelEval.
  Context {T : Type} (F : Fops T).
  Hypothesis Rth : ring_theory (f0 F) (f1 F) (fadd F) (fmul F) (fsub F) (fneg F) (@eq T).
  Add Ring Rr : Rth.
  Local Notation zero := (f0 F).
  Local Notation one := (f1 F).
  Local Notation "a [+] b" := (fadd F a b) (at level 50, left associativity).
  Local Notation "a [-] b" := (fsub F a b) (at level 50, left associativity).
  Local Notation "a [*] b" := (fmul F a b) (at level 40, left associativity).

  (* ---------- big operators over index lists, invariant under permutation ---------- *)
  Section Big.
    Variable op : T -> T -> T.
    Variable e : T.
    Hypothesis op_comm : forall x y, op x y = op y x.
    Hypothesis op_assoc : forall x y z, op x (op y z) = op (op x y) z.
    Hypothesis op_e_r : forall x, op x e = x.

    Definition big (l : list nat) (f : nat -> T) : T := fold_right (fun i acc => op (f i) acc) e l.
    Fixpoint bigf (f : nat -> T) (n : nat) : T :=
      match n with O => e | S n' => op (bigf f n') (f n') end.

    Lemma big_perm : forall l l' f, Permutation l l' -> big l f = big l' f.
    Proof.
      intros l l' f P. induction P as [|x l l' P IH|x y l|l l' l'' P1 IH1 P2 IH2]; cbn [big fold_right].
      - reflexivity.
      - fold (big l f) (big l' f). rewrite IH. reflexivity.
      - fold (big l f). rewrite !op_assoc, (op_comm (f y) (f x)). reflexivity.
      - congruence.
    Qed.
    Lemma big_app : forall l1 l2 f, big (l1 ++ l2) f = op (big l1 f) (big l2 f).
    Proof.
      induction l1 as [|x l1 IH]; intros l2 f; cbn [app big fold_right].
      - fold (big l2 f). rewrite op_comm, op_e_r. reflexivity.
      - fold (big (l1 ++ l2) f) (big l1 f). rewrite IH, op_assoc. reflexivity.
    Qed.
    Lemma bigf_big : forall n f, bigf f n = big (seq 0 n) f.
    Proof.
      induction n as [|n IH]; intros f; [reflexivity|].
      rewrite seq_S, big_app. cbn [bigf plus big fold_right]. rewrite IH, op_e_r. reflexivity.
    Qed.
    Lemma big_map : forall l g f, big (map g l) f = big l (fun i => f (g i)).
    Proof. induction l as [|x l IH]; intros g f; cbn [map big fold_right]; [reflexivity|]. f_equal. apply IH. Qed.

    Lemma NoDup_map_inj_in : forall (g : nat -> nat) l,
      (forall x y, In x l -> In y l -> g x = g y -> x = y) -> NoDup l -> NoDup (map g l).
    Proof.
      induction l as [|x l IH]; intros Hinj Hnd; cbn [map]; [constructor|].
      inversion Hnd as [|? ? Hx Hl]; subst. constructor.
      - intros Hin. apply in_map_iff in Hin. destruct Hin as (y & Hy & Hyl).
        assert (y = x) by (apply Hinj; [right; exact Hyl | left; reflexivity | exact Hy]). subst. contradiction.
      - apply IH; [|exact Hl]. intros a b Ha Hb. apply Hinj; right; assumption.
    Qed.

    (* reindexing by an involution of [0, n) *)
    Lemma bigf_reindex : forall n (g : nat -> nat) f,
      (forall i, i < n -> g i < n) -> (forall i, i < n -> g (g i) = i) ->
      bigf (fun i => f (g i)) n = bigf f n.
    Proof.
      intros n g f Hr Hi. rewrite !bigf_big, <- big_map. apply big_perm.
      apply NoDup_Permutation.
      - apply NoDup_map_inj_in; [|apply seq_NoDup].
        intros x y Hx Hy E. apply in_seq in Hx. apply in_seq in Hy.
        rewrite <- (Hi x), <- (Hi y) by lia. rewrite E. reflexivity.
      - apply seq_NoDup.
      - intros x. rewrite in_map_iff. split.
        + intros (y & <- & Hy). apply in_seq in Hy. apply in_seq. pose proof (Hr y). lia.
        + intros Hx. apply in_seq in Hx. exists (g x). split; [apply Hi; lia|].
          apply in_seq. pose proof (Hr x). lia.
    Qed.
    Lemma bigf_ext : forall n f g, (forall i, i < n -> f i = g i) -> bigf f n = bigf g n.
    Proof.
      induction n as [|n IH]; intros f g H; cbn [bigf]; [reflexivity|].
      rewrite (IH f g), H by auto. reflexivity.
    Qed.
    Lemma bigf_shift : forall n f, bigf f (S n) = op (f 0) (bigf (fun m => f (S m)) n).
    Proof.
      induction n as [|n IH]; intros f.
      - cbn [bigf]. rewrite op_e_r, op_comm, op_e_r. reflexivity.
      - change (bigf f (S (S n))) with (op (bigf f (S n)) (f (S n))). rewrite IH.
        cbn [bigf]. rewrite op_assoc. reflexivity.
    Qed.
  End Big.

  Lemma add_comm' : forall x y, x [+] y = y [+] x. Proof. intros; ring. Qed.
  Lemma add_assoc' : forall x y z, x [+] (y [+] z) = (x [+] y) [+] z. Proof. intros; ring. Qed.
  Lemma add_0_r' : forall x, x [+] zero = x. Proof. intros; ring. Qed.
  Lemma mul_comm' : forall x y, x [*] y = y [*] x. Proof. intros; ring. Qed.
  Lemma mul_assoc' : forall x y z, x [*] (y [*] z) = (x [*] y) [*] z. Proof. intros; ring. Qed.
  Lemma mul_1_r' : forall x, x [*] one = x. Proof. intros; ring. Qed.

  Lemma sumf_bigf : forall n f, sumf F f n = bigf (fadd F) zero f n.
  Proof. induction n as [|n IH]; intros f; cbn [sumf bigf]; [reflexivity | rewrite IH; reflexivity]. Qed.

  Definition prodf := bigf (fmul F) one.
  Definition factor (bit : bool) (r : T) : T := if bit then r else one [-] r.

  (* eq(b, x) as a product over the bit positions of b *)
  Lemma eqpoly_prod : forall x b,
    eqpoly F b x = prodf (fun m => factor (bitZ b m) (nth m x zero)) (length x).
  Proof.
    induction x as [|r x IH]; intros b; [reflexivity|].
    cbn [eqpoly length]. unfold prodf. rewrite (bigf_shift _ _ mul_comm' mul_assoc' mul_1_r').
    cbn [nth]. rewrite bitZ_0. f_equal. rewrite IH. unfold prodf.
    apply bigf_ext. intros m _. rewrite bitZ_S. reflexivity.
  Qed.

  (* the point with the windows [a, a+k) and [b, b+k) exchanged *)
  Definition swap_windows (a b k : nat) (x : list T) : list T :=
    map (fun m => nth (sigma_nat a b k m) x zero) (seq 0 (length x)).
  Lemma swap_windows_length : forall a b k x, length (swap_windows a b k x) = length x.
  Proof. intros. unfold swap_windows. rewrite map_length, seq_length. reflexivity. Qed.
  Lemma swap_windows_nth : forall a b k x m, m < length x ->
    nth m (swap_windows a b k x) zero = nth (sigma_nat a b k m) x zero.
  Proof.
    intros a b k x m Hm. unfold swap_windows.
    rewrite (nth_indep _ zero (nth (sigma_nat a b k 0) x zero)) by (rewrite map_length, seq_length; exact Hm).
    rewrite (map_nth (fun m => nth (sigma_nat a b k m) x zero) (seq 0 (length x)) 0 m).
    rewrite seq_nth by exact Hm. reflexivity.
  Qed.

  Lemma eqpoly_swap : forall a b k x j, a + k <= b -> b + k <= length x ->
    eqpoly F (swap_bits_nat j a b k) x = eqpoly F j (swap_windows a b k x).
  Proof.
    intros a b k x j H1 H2. rewrite !eqpoly_prod, swap_windows_length. unfold prodf.
    set (h := fun m' => factor (bitZ j m') (nth (sigma_nat a b k m') x zero)).
    transitivity (bigf (fmul F) one (fun m => h (sigma_nat a b k m)) (length x)).
    - apply bigf_ext. intros m Hm. unfold h. rewrite bitZ_swap, sigma_nat_invol by exact H1. reflexivity.
    - rewrite (bigf_reindex _ _ mul_comm' mul_assoc' mul_1_r' (length x) (sigma_nat a b k) h).
      + apply bigf_ext. intros m Hm. unfold h. rewrite swap_windows_nth by exact Hm. reflexivity.
      + intros i Hi. apply sigma_nat_range; assumption.
      + intros i _. apply sigma_nat_invol. exact H1.
  Qed.

  (* relabel_spec, evaluation form *)
  Theorem d_relabel_eval : forall p a0 b0 k x,
    let a := Nat.min a0 b0 in let b := Nat.max a0 b0 in
    d_wf p -> a <> b -> k <> 0 -> a + k <= b -> b + k <= d_nv p -> length x = d_nv p ->
    exists r, d_relabel F p a0 b0 k = Ok r /\ d_eval F r x = d_eval F p (swap_windows a b k x).
  Proof.
    intros p a0 b0 k x a b Hwf Hab Hk H1 H2 Hx.
    destruct (d_relabel_spec F p a0 b0 k Hwf Hab Hk H1 H2) as (r & Hr & Hrw & Hrn & Hrt).
    fold a b in Hrt. exists r. split; [exact Hr|].
    rewrite (d_eval_spec F Rth r x Hrw) by congruence.
    rewrite (d_eval_spec F Rth p _ Hwf) by (rewrite swap_windows_length; exact Hx).
    f_equal. unfold hsum. rewrite swap_windows_length, Hx.
    set (sb := fun i => swap_bits_nat i a b k).
    assert (Hsr : forall i, i < pow2 (d_nv p) -> sb i < pow2 (d_nv p))
      by (intros i Hi; apply swap_bits_nat_range; assumption).
    assert (Hsi : forall i, sb (sb i) = i) by (intros i; apply swap_bits_nat_invol; exact H1).
    set (g := fun j => tab F p j [*] eqpoly F (sb j) x).
    transitivity (sumf F (fun i => g (sb i)) (pow2 (d_nv p))).
    - apply sumf_ext. intros i Hi. unfold g. rewrite Hsi, (Hrt i Hi). reflexivity.
    - rewrite !sumf_bigf.
      rewrite (bigf_reindex _ _ add_comm' add_assoc' add_0_r' (pow2 (d_nv p)) sb g) by auto.
      apply bigf_ext. intros j _. unfold g. f_equal. apply eqpoly_swap; [exact H1 | rewrite Hx; exact H2].
  Qed.
End RelabelEval.
