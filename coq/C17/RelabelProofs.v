(* C17 proofs: relabel_in_place.  The in-place loop `for i { j = swap_bits(i); if i < j
   { swap(i, j) } }` produces table'[i] = table[swap_bits i]. *)
From V Require Import Base.Field C17.Mle C17.Spec C17.SwapBits.
Require Import Lia List Arith Bool.
Import ListNotations.
Local Open Scope nat_scope.

Section Relabel.
  Context {T : Type} (F : Fops T).
  Local Notation zero := (f0 F).

  Lemma upd_length : forall (l : list T) i x, length (upd l i x) = length l.
  Proof. induction l as [|a l IH]; intros [|i] x; cbn [upd length]; auto. Qed.
  Lemma upd_nth : forall (l : list T) i x k d,
    nth k (upd l i x) d = if (k =? i) && (i <? length l) then x else nth k l d.
  Proof.
    induction l as [|a l IH]; intros i x k d.
    - cbn [upd length]. rewrite andb_comm. destruct i; reflexivity.
    - destruct i as [|i]; destruct k as [|k]; cbn [upd nth length]; try reflexivity.
      rewrite IH. reflexivity.
  Qed.
  Lemma swap_nth_length : forall l i j, length (swap_nth F l i j) = length l.
  Proof. intros l i j. unfold swap_nth. rewrite !upd_length. reflexivity. Qed.
  Lemma swap_nth_nth : forall l i j k, i < length l -> j < length l ->
    nth k (swap_nth F l i j) zero =
    if k =? j then nth i l zero else if k =? i then nth j l zero else nth k l zero.
  Proof.
    intros l i j k Hi Hj. unfold swap_nth. rewrite !upd_nth, upd_length.
    apply Nat.ltb_lt in Hi. apply Nat.ltb_lt in Hj. rewrite Hi, Hj, !andb_true_r. reflexivity.
  Qed.

  (* the loop, for an arbitrary involution sb of [0, len) *)
  Section Loop.
    Variable sb : nat -> nat.
    Variable t : list T.
    Hypothesis sb_range : forall i, i < length t -> sb i < length t.
    Hypothesis sb_invol : forall i, i < length t -> sb (sb i) = i.

    Definition step (ev : list T) (i : nat) : list T :=
      let j := sb i in if i <? j then swap_nth F ev i j else ev.

    Definition Inv (m : nat) (cur : list T) : Prop :=
      length cur = length t /\
      forall idx, idx < length t ->
        nth idx cur zero = if Nat.min idx (sb idx) <? m then nth (sb idx) t zero else nth idx t zero.

    Lemma step_inv : forall m cur, m < length t -> Inv m cur -> Inv (S m) (step cur m).
    Proof.
      intros m cur Hm [Hlen Hinv]. unfold step. cbv zeta.
      pose proof (sb_range m Hm) as Hj. pose proof (sb_invol m Hm) as Hjj.
      destruct (Nat.ltb_spec m (sb m)) as [Hlt|Hge].
      - split; [rewrite swap_nth_length; exact Hlen|]. intros idx Hidx.
        rewrite swap_nth_nth by lia.
        destruct (Nat.eqb_spec idx (sb m)) as [E1|E1].
        + subst idx. rewrite Hjj. rewrite (Hinv m Hm).
          destruct (Nat.ltb_spec (Nat.min m (sb m)) m); [lia|].
          destruct (Nat.ltb_spec (Nat.min (sb m) m) (S m)); [reflexivity|lia].
        + destruct (Nat.eqb_spec idx m) as [E2|E2].
          * subst idx. rewrite (Hinv (sb m) Hj), Hjj.
            destruct (Nat.ltb_spec (Nat.min (sb m) m) m); [lia|].
            destruct (Nat.ltb_spec (Nat.min m (sb m)) (S m)); [reflexivity|lia].
          * rewrite (Hinv idx Hidx).
            assert (sb idx <> m) by (intros E; apply E1; rewrite <- E; symmetry; apply sb_invol; exact Hidx).
            destruct (Nat.ltb_spec (Nat.min idx (sb idx)) m);
              destruct (Nat.ltb_spec (Nat.min idx (sb idx)) (S m)); try reflexivity; lia.
      - split; [exact Hlen|]. intros idx Hidx. rewrite (Hinv idx Hidx).
        destruct (Nat.ltb_spec (Nat.min idx (sb idx)) m);
          destruct (Nat.ltb_spec (Nat.min idx (sb idx)) (S m)); try reflexivity; try lia.
        (* min idx (sb idx) = m: then idx = m = sb m, or contradiction *)
        assert (Hcase : idx = m \/ sb idx = m) by lia. destruct Hcase as [E|E].
        + subst idx. assert (sb m = m) by lia. congruence.
        + assert (idx = sb m) by (rewrite <- E; symmetry; apply sb_invol; exact Hidx).
          subst idx. assert (sb m = m) by lia. congruence.
    Qed.

    Lemma loop_inv : forall m, m <= length t -> Inv m (fold_left step (seq 0 m) t).
    Proof.
      induction m as [|m IH]; intros Hm.
      - cbn [seq fold_left]. split; [reflexivity|]. intros idx _. reflexivity.
      - rewrite seq_S, fold_left_app. cbn [fold_left plus]. apply step_inv; [lia|]. apply IH. lia.
    Qed.

    Lemma loop_spec : let r := fold_left step (seq 0 (length t)) t in
      length r = length t /\ forall i, i < length t -> nth i r zero = nth (sb i) t zero.
    Proof.
      cbv zeta. destruct (loop_inv (length t) (le_n _)) as [Hl Hi]. split; [exact Hl|].
      intros i Hlt. rewrite (Hi i Hlt). pose proof (sb_range i Hlt).
      destruct (Nat.ltb_spec (Nat.min i (sb i)) (length t)); [reflexivity|lia].
    Qed.
  End Loop.

  (* relabel_spec *)
  Theorem d_relabel_spec : forall p a0 b0 k,
    let a := Nat.min a0 b0 in let b := Nat.max a0 b0 in
    d_wf p -> a <> b -> k <> 0 -> a + k <= b -> b + k <= d_nv p ->
    exists r, d_relabel F p a0 b0 k = Ok r /\ d_wf r /\ d_nv r = d_nv p /\
      forall i, i < pow2 (d_nv p) -> tab F r i = tab F p (swap_bits_nat i a b k).
  Proof.
    intros p a0 b0 k a b Hwf Hab Hk H1 H2. unfold d_relabel.
    assert (Ea : (if b0 <? a0 then b0 else a0) = a) by (unfold a; destruct (Nat.ltb_spec b0 a0); lia).
    assert (Eb : (if b0 <? a0 then a0 else b0) = b) by (unfold b; destruct (Nat.ltb_spec b0 a0); lia).
    rewrite Ea, Eb.
    replace (a =? b) with false by (symmetry; apply Nat.eqb_neq; exact Hab).
    replace (k =? 0) with false by (symmetry; apply Nat.eqb_neq; exact Hk).
    replace (b + k <=? d_nv p) with true by (symmetry; apply Nat.leb_le; exact H2).
    replace (a + k <=? b) with true by (symmetry; apply Nat.leb_le; exact H1).
    cbn [orb negb]. eexists. split; [reflexivity|]. unfold d_wf in *. cbn [d_nv d_ev].
    pose proof (loop_spec (fun i => swap_bits_nat i a b k) (d_ev p)) as L. cbv zeta in L.
    destruct L as [Ll Ln].
    - intros i Hi. rewrite Hwf in *. apply swap_bits_nat_range; assumption.
    - intros i _. apply swap_bits_nat_invol. exact H1.
    - split; [rewrite <- Hwf; exact Ll|]. split; [reflexivity|].
      intros i Hi. unfold tab. cbn [d_ev]. apply Ln. rewrite Hwf. exact Hi.
  Qed.

  Theorem d_relabel_noop : forall p a0 b0 k, a0 = b0 \/ k = 0 -> d_relabel F p a0 b0 k = Ok p.
  Proof.
    intros p a0 b0 k H. unfold d_relabel.
    destruct H as [->| ->].
    - rewrite Nat.ltb_irrefl, Nat.eqb_refl. reflexivity.
    - rewrite Nat.eqb_refl, orb_true_r. reflexivity.
  Qed.
  Theorem d_relabel_panic : forall p a0 b0 k,
    let a := Nat.min a0 b0 in let b := Nat.max a0 b0 in
    a <> b -> k <> 0 -> (d_nv p < b + k \/ b < a + k) -> d_relabel F p a0 b0 k = Panic.
  Proof.
    intros p a0 b0 k a b Hab Hk H. unfold d_relabel.
    assert (Ea : (if b0 <? a0 then b0 else a0) = a) by (unfold a; destruct (Nat.ltb_spec b0 a0); lia).
    assert (Eb : (if b0 <? a0 then a0 else b0) = b) by (unfold b; destruct (Nat.ltb_spec b0 a0); lia).
    rewrite Ea, Eb.
    replace (a =? b) with false by (symmetry; apply Nat.eqb_neq; exact Hab).
    replace (k =? 0) with false by (symmetry; apply Nat.eqb_neq; exact Hk).
    cbn [orb]. destruct (Nat.leb_spec (b + k) (d_nv p)); cbn [negb]; [|reflexivity].
    destruct (Nat.leb_spec (a + k) b); cbn [negb]; [lia|reflexivity].
  Qed.
End Relabel.
