(* Uniform case interpreter for the C17 models.  First argument of every case: [p], the
   prime modulus of the field (executed through Base.Field.ZpOps p).
   Status list: [0] ok, [2] panic, [7] out of fuel (never expected), [9] unsupported. *)
From V Require Import Base.Field C17.Mle C17.SparseMle C17.MvPoly.

Definition ok (r : list (list Z)) : list (list Z) := [0] :: r.
Definition panic : list (list Z) := [[2]].
Definition nofuel : list (list Z) := [[7]].
Definition unsupported : list (list Z) := [[9]].

Definition arg (n : nat) (a : list (list Z)) : list Z := nth n a [].
Definition arg0 (n : nat) (a : list (list Z)) : Z := hd 0 (arg n a).
Definition narg (n : nat) (a : list (list Z)) : nat := Z.to_nat (arg0 n a).
Definition nats (l : list Z) : list nat := map Z.to_nat l.
Definition zs (l : list nat) : list Z := map Z.of_nat l.

Definition out {A : Type} (f : A -> list (list Z)) (r : res A) : list (list Z) :=
  match r with Ok a => ok (f a) | Panic => panic | OutOfFuel => nofuel end.

Section Run.
  Variable p : Z.
  Let F := ZpOps p.
  Definition fe (z : Z) : Z := z mod p.
  Definition fes (l : list Z) : list Z := map fe l.

  (* ---------- dense ---------- *)
  Definition dense_in (a : list (list Z)) (i : nat) : res (dmle Z) :=
    d_from_vec (narg i a) (fes (arg (S i) a)).
  Definition dense_out (d : dmle Z) : list (list Z) := [[Z.of_nat (d_nv d)]; d_ev d].
  Definition val_out (v : Z) : list (list Z) := [[v]].

  (* split a flat list into chunks of the given sizes *)
  Fixpoint chunks (sizes : list nat) (l : list Z) : list (list Z) :=
    match sizes with
    | [] => []
    | s :: sizes' => firstn s l :: chunks sizes' (skipn s l)
    end.
  Fixpoint collect {A : Type} (l : list (res A)) : res (list A) :=
    match l with
    | [] => Ok []
    | r :: l' => rbind r (fun x => rbind (collect l') (fun xs => Ok (x :: xs)))
    end.

  (* ---------- wide sparse (indices in Z) ---------- *)
  (* from_evaluations: later duplicates win; kept sorted by index *)
  Fixpoint wide_insert (i v : Z) (l : list (Z * Z)) : list (Z * Z) :=
    match l with
    | [] => [(i, v)]
    | (j, w) :: r => if i =? j then (i, v) :: r else if i <? j then (i, v) :: l else (j, w) :: wide_insert i v r
    end.
  Fixpoint wide_build (idx vals : list Z) (acc : list (Z * Z)) : list (Z * Z) :=
    match idx, vals with
    | i :: idx', v :: vals' => wide_build idx' vals' (wide_insert i v acc)
    | _, _ => acc
    end.
  Definition wide_entries (idx vals : list Z) : list (Z * Z) := wide_build idx vals [].
  Definition wide_out (n : Z) (es : list (Z * Z)) : list (list Z) :=
    let nz := filter (fun e => negb (snd e =? 0)) es in
    ok [[n]; map fst nz; map snd nz].
  (* eq(x, bits of i): prod_j (x_j if bit j of i else 1 - x_j) *)
  Fixpoint wide_eq (x : list Z) (i : Z) (j : Z) : Z :=
    match x with
    | [] => f1 F
    | xj :: x' => fmul F (if Z.testbit i j then xj else fsub F (f1 F) xj) (wide_eq x' i (j + 1))
    end.

  (* ---------- sparse ---------- *)
  Definition sparse_in (a : list (list Z)) (i : nat) : res (smle Z) :=
    s_from (narg i a) (combine (nats (arg (S i) a)) (fes (arg (S (S i)) a))).
  (* canonical output: num_vars, the non-zero entries in key order, the full table *)
  Definition sparse_out (s : smle Z) : list (list Z) :=
    let nz := filter (fun e => negb (snd e =? 0)) (s_ev s) in
    [[Z.of_nat (s_nv s)]; zs (map fst nz); map snd nz; s_to_evaluations F s].

  (* ---------- multivariate ---------- *)
  Definition raw_terms (lens : list nat) (vars : list nat) (pows : list Z) : list term :=
    (fix go (lens : list nat) (vp : list (nat * Z)) : list term :=
       match lens with
       | [] => []
       | n :: lens' => firstn n vp :: go lens' (skipn n vp)
       end) lens (combine vars pows).
  Definition terms_in (a : list (list Z)) (i : nat) : mterms Z :=
    combine (fes (arg i a))
            (map term_new (raw_terms (nats (arg (S i) a)) (nats (arg (S (S i)) a)) (arg (S (S (S i))) a))).
  Definition mv_in (a : list (list Z)) (i : nat) : res (mvpoly Z) :=
    p_from F (narg i a) (terms_in a (S i)).
  Definition mv_out (q : mvpoly Z) : list (list Z) :=
    [[Z.of_nat (p_nv q)]; map fst (p_terms q);
     zs (map (fun ct => length (snd ct)) (p_terms q));
     zs (flat_map (fun ct => map fst (snd ct)) (p_terms q));
     flat_map (fun ct => map snd (snd ct)) (p_terms q);
     [p_degree q]].
  Definition cmp2z (c : comparison) : Z := match c with Lt => -1 | Eq => 0 | Gt => 1 end.

  Definition run (op : Z) (a : list (list Z)) : list (list Z) :=
    match op with
    (* dense *)
    | 1 => out dense_out (dense_in a 1)
    | 2 => out val_out (rbind (dense_in a 1) (fun d => d_eval F d (fes (arg 3 a))))
    | 3 => out dense_out (rbind (dense_in a 1) (fun d => d_fix F d (fes (arg 3 a))))
    | 4 => out dense_out (rbind (dense_in a 1) (fun d =>
             d_relabel F d (Z.to_nat (nth 0 (arg 3 a) 0)) (Z.to_nat (nth 1 (arg 3 a) 0))
                           (Z.to_nat (nth 2 (arg 3 a) 0))))
    | 5 => let nvs := nats (arg 1 a) in
           let tabs := chunks (map pow2 nvs) (fes (arg 2 a)) in
           out dense_out (rbind (collect (map (fun nt => d_from_vec (fst nt) (snd nt)) (combine nvs tabs)))
                                (fun ps => d_concat F ps))
    | 6 => out dense_out (rbind (dense_in a 1) (fun x => rbind (dense_in a 3) (fun y => d_add F x y)))
    | 7 => out dense_out (rbind (dense_in a 1) (fun x => rbind (dense_in a 3) (fun y => d_sub F x y)))
    | 8 => out dense_out (rbind (dense_in a 1) (fun x => Ok (d_neg F x)))
    | 9 => out dense_out (rbind (dense_in a 1) (fun x => Ok (d_scale F x (fe (arg0 3 a)))))
    | 10 => out val_out (rbind (dense_in a 1) (fun x =>
              d_eval F (d_scale F x (fe (arg0 3 a))) (fes (arg 4 a))))
    | 11 => out dense_out (rbind (dense_in a 1) (fun x => rbind (dense_in a 4) (fun y =>
              d_add_scaled F x (fe (arg0 3 a)) y)))
    | 12 => out val_out (rbind (dense_in a 1) (fun x => d_index x (narg 3 a)))
    (* sparse *)
    | 20 => out sparse_out (sparse_in a 1)
    | 21 => out val_out (rbind (sparse_in a 1) (fun s => s_eval F s (fes (arg 4 a))))
    | 22 => out sparse_out (rbind (sparse_in a 1) (fun s => s_fix F s (fes (arg 4 a))))
    | 23 => out sparse_out (rbind (sparse_in a 1) (fun s =>
              s_relabel s (Z.to_nat (nth 0 (arg 4 a) 0)) (Z.to_nat (nth 1 (arg 4 a) 0))
                          (Z.to_nat (nth 2 (arg 4 a) 0))))
    | 24 => out dense_out (rbind (sparse_in a 1) (fun s => s_to_dense F s))
    | 25 => out sparse_out (rbind (sparse_in a 1) (fun x => rbind (sparse_in a 4) (fun y => s_add F x y)))
    | 26 => out sparse_out (rbind (sparse_in a 1) (fun x => rbind (sparse_in a 4) (fun y => s_sub F x y)))
    | 27 => out sparse_out (rbind (sparse_in a 1) (fun x => Ok (s_neg F x)))
    | 28 => out sparse_out (rbind (sparse_in a 1) (fun x => rbind (sparse_in a 5) (fun y =>
              s_add_scaled F x (fe (arg0 4 a)) y)))
    | 29 => out val_out (rbind (sparse_in a 1) (fun s => Ok (s_index F s (narg 4 a))))
    (* WIDE sparse extensions (more than 32 variables): hypercube indices are kept in Z, only the stored entries are
       printed (the full table of such an arity cannot be materialised).  Specification-level model:
       30 relabel = the entries with the two k-bit windows of every index swapped (Mle.swap_bits on Z), later duplicates win,
       in key order; 31 evaluate = sum_i v_i * prod_j (x_j if bit j of i else 1 - x_j). *)
    | 30 => let n := arg0 1 a in
            let es := wide_entries (arg 2 a) (fes (arg 3 a)) in
            let a0 := nth 0 (arg 4 a) 0 in let b0 := nth 1 (arg 4 a) 0 in let k := nth 2 (arg 4 a) 0 in
            let lo := Z.min a0 b0 in let hi := Z.max a0 b0 in
            if negb ((lo + k <=? n) && (hi + k <=? n)) then [[2]]
            else if (lo =? hi) || (k =? 0) then wide_out n es
            else if negb (lo + k <=? hi) then [[2]]
            else wide_out n (wide_entries (map (fun e => swap_bits (fst e) lo hi k) es) (map snd es))
    | 31 => let n := arg0 1 a in
            let es := wide_entries (arg 2 a) (fes (arg 3 a)) in
            let x := fes (arg 4 a) in
            if negb (Z.of_nat (length x) =? n) then [[2]]
            else ok [[fold_left (fun acc e => fadd F acc (fmul F (snd e) (wide_eq x (fst e) 0))) es (f0 F)]]
    (* multivariate *)
    | 40 => let t := term_new (combine (nats (arg 1 a)) (arg 2 a)) in
            ok [zs (t_vars t); t_powers t; [t_degree t]; [Z.b2z (t_is_constant t)]]
    | 41 => let t := term_new (combine (nats (arg 1 a)) (arg 2 a)) in
            let u := term_new (combine (nats (arg 3 a)) (arg 4 a)) in
            ok [[cmp2z (t_cmp t u)]; [Z.b2z (t_eqb t u)]]
    | 42 => let t := term_new (combine (nats (arg 1 a)) (arg 2 a)) in
            if forallb (fun vp => Nat.ltb (fst vp) (length (arg 3 a))) t
            then ok [[t_eval F t (fes (arg 3 a))]] else panic
    | 43 => out mv_out (mv_in a 1)
    | 44 => out val_out (rbind (mv_in a 1) (fun q => p_eval F q (fes (arg 6 a))))
    | 45 => out mv_out (rbind (mv_in a 1) (fun x => rbind (mv_in a 6) (fun y => Ok (p_add F x y))))
    | 46 => out mv_out (rbind (mv_in a 1) (fun x => rbind (mv_in a 6) (fun y => Ok (p_sub F x y))))
    | 47 => out mv_out (rbind (mv_in a 1) (fun x => Ok (p_neg F x)))
    | 48 => out mv_out (rbind (mv_in a 1) (fun x => rbind (mv_in a 7) (fun y =>
              Ok (p_add_scaled F x (fe (arg0 6 a)) y))))
    | _ => unsupported
    end.
End Run.

Definition run_C17 (op : Z) (a : list (list Z)) : list (list Z) :=
  let p := arg0 0 a in
  if p <=? 1 then unsupported else run p op a.
