(* C17 model, part 2: SparseMultilinearExtension
   (poly/src/evaluations/multivariate/multilinear/sparse.rs).
   Executable definitions only (proofs: C17/SparseProofs.v).

   `BTreeMap<usize, F>` is a key-sorted association list without duplicate keys ([smap]).
   The `HashMap`s used inside fix_variables / add are modelled by the same sorted maps:
   the code only ever *accumulates* into them with `+=` and converts them back to a
   BTreeMap, so their iteration order cannot influence any result (field addition is
   commutative and associative); the model iterates in key order. *)
From V Require Import Base.Field C17.Mle.
Require Import Lia.

Section Sparse.
  Context {T : Type} (F : Fops T).
  Local Notation zero := (f0 F).
  Local Notation one := (f1 F).
  Local Notation add := (fadd F).
  Local Notation sub := (fsub F).
  Local Notation mul := (fmul F).
  Local Notation neg := (fneg F).

  Definition smap : Type := list (nat * T).

  (* BTreeMap::insert (replaces the value of an existing key) *)
  Fixpoint m_insert (k : nat) (v : T) (m : smap) : smap :=
    match m with
    | [] => [(k, v)]
    | (k', v') :: m' =>
        if Nat.ltb k k' then (k, v) :: m
        else if Nat.eqb k k' then (k, v) :: m'
        else (k', v') :: m_insert k v m'
    end.
  Fixpoint m_get (k : nat) (m : smap) : option T :=
    match m with
    | [] => None
    | (k', v') :: m' => if Nat.eqb k k' then Some v' else m_get k m'
    end.
  Definition m_lookup (k : nat) (m : smap) : T :=
    match m_get k m with Some v => v | None => zero end.
  (* *map.entry(k).or_insert(0) += x *)
  Definition m_add_at (k : nat) (x : T) (m : smap) : smap :=
    m_insert k (add (m_lookup k m) x) m.
  (* tuples.iter().collect::<BTreeMap>() : later duplicates win *)
  Definition tuples_to_treemap (l : list (nat * T)) : smap :=
    fold_left (fun m kv => m_insert (fst kv) (snd kv) m) l [].

  Record smle : Type := mkS { s_nv : nat; s_ev : smap }.

  (* from_evaluations: assert!(i < 1 << num_vars) for every tuple *)
  Definition s_from (nv : nat) (evs : list (nat * T)) : res smle :=
    if forallb (fun kv => Nat.ltb (fst kv) (pow2 nv)) evs
    then Ok (mkS nv (tuples_to_treemap evs)) else Panic.

  Definition s_zero : smle := mkS 0 [].
  Definition s_is_zero (p : smle) : bool :=
    Nat.eqb (s_nv p) 0 && match s_ev p with [] => true | _ => false end.

  (* to_evaluations: a zero table, then evaluations[i] = v for every entry *)
  Definition s_to_evaluations (p : smle) : list T :=
    fold_left (fun ev kv => upd ev (fst kv) (snd kv)) (s_ev p) (repeat zero (pow2 (s_nv p))).
  Definition s_to_dense (p : smle) : res (dmle T) :=
    d_from_vec (s_nv p) (s_to_evaluations p).

  (* precompute_eq(g): table of eq(g, b) for b in {0,1}^dim; one doubling per variable:
       dp[b + 2^i] = dp[b] * g[i];  dp[b] = dp[b] - dp[b + 2^i]
     (g = [] is never passed by the caller; the Rust function would index out of range) *)
  Definition eq_step (dp : list T) (gi : T) : list T :=
    map (fun prev => sub prev (mul prev gi)) dp ++ map (fun prev => mul prev gi) dp.
  Definition precompute_eq (g : list T) : option (list T) :=
    match g with
    | [] => None
    | g0 :: g' => Some (fold_left eq_step g' [sub one g0; g0])
    end.

  (* one batch of fix_variables: result[idx >> dim] += pre[idx & (2^dim - 1)] * v *)
  Definition s_fix_batch (pre : list T) (dim : nat) (last : smap) : smap :=
    fold_left (fun result e =>
                 let old_idx := fst e in
                 let gz := nth (Nat.modulo old_idx (pow2 dim)) pre zero in
                 m_add_at (Nat.div old_idx (pow2 dim)) (mul gz (snd e)) result)
              last [].

  (* the `while !point.is_empty()` loop; every round consumes >= 1 coordinate, fuel = len *)
  Fixpoint s_fix_loop (fuel window : nat) (point : list T) (last : smap) : res smap :=
    match point with
    | [] => Ok last
    | _ :: _ =>
      match fuel with
      | O => OutOfFuel
      | S fuel' =>
        let focus_length := if Nat.ltb window (length point) then window else length point in
        let focus := firstn focus_length point in
        let rest := skipn focus_length point in
        match precompute_eq focus with
        | None => Panic
        | Some pre => s_fix_loop fuel' window rest (s_fix_batch pre (length focus) last)
        end
      end
    end.

  Definition s_window (p : smle) : nat :=
    let w := clog2 (length (s_ev p)) in if Nat.eqb w 0 then 1%nat else w.

  Definition s_fix (p : smle) (pp : list T) : res smle :=
    if Nat.leb (length pp) (s_nv p) then
      rbind (s_fix_loop (length pp) (s_window p) pp (s_ev p))
            (fun m => Ok (mkS (s_nv p - length pp) m))
    else Panic.

  Definition s_index (p : smle) (i : nat) : T := m_lookup i (s_ev p).

  Definition s_eval (p : smle) (x : list T) : res T :=
    if Nat.eqb (length x) (s_nv p) then rbind (s_fix p x) (fun q => Ok (s_index q 0))
    else Panic.

  (* relabel(a, b, k) -- note the order of checks (differs from the dense version) *)
  Definition s_relabel (p : smle) (a0 b0 k : nat) : res smle :=
    let a := if Nat.ltb b0 a0 then b0 else a0 in
    let b := if Nat.ltb b0 a0 then a0 else b0 in
    if negb (Nat.leb (a + k) (s_nv p) && Nat.leb (b + k) (s_nv p)) then Panic
    else if Nat.eqb a b || Nat.eqb k 0 then Ok p
    else if negb (Nat.leb (a + k) b) then Panic
    else Ok (mkS (s_nv p)
               (tuples_to_treemap (map (fun e => (swap_bits_nat (fst e) a b k, snd e)) (s_ev p)))).

  (* &a + &b : merge with +=, drop zero sums *)
  Definition s_add (a b : smle) : res smle :=
    if s_is_zero a then Ok b
    else if s_is_zero b then Ok a
    else if Nat.eqb (s_nv b) (s_nv a) then
      let h := fold_left (fun h e => m_add_at (fst e) (snd e) h) (s_ev a ++ s_ev b) [] in
      Ok (mkS (s_nv a) (tuples_to_treemap (filter (fun e => negb (feqb F (snd e) zero)) h)))
    else Panic.

  Definition s_neg (a : smle) : smle :=
    mkS (s_nv a) (tuples_to_treemap (map (fun e => (fst e, neg (snd e))) (s_ev a))).
  Definition s_sub (a b : smle) : res smle := s_add a (s_neg b).
  (* a += (f, &b) *)
  Definition s_add_scaled (a : smle) (f : T) (b : smle) : res smle :=
    if negb (s_is_zero a) && negb (s_is_zero b) && negb (Nat.eqb (s_nv b) (s_nv a)) then Panic
    else s_add a (mkS (s_nv b) (tuples_to_treemap (map (fun e => (fst e, mul f (snd e))) (s_ev b)))).
End Sparse.

Arguments smle : clear implicits. Arguments smap : clear implicits.
Arguments mkS {T} _ _. Arguments s_nv {T} _. Arguments s_ev {T} _.
