(* C17 proofs, part 2: SparseMultilinearExtension (model: C17/SparseMle.v, spec: C17/Spec.v).
   Only the commutative-ring laws of the coefficient structure are assumed. *)
From V Require Import Base.Field C17.Mle C17.SparseMle C17.Spec.
Require Import Lia List Ring Arith PeanoNat Bool.
Import ListNotations.
Local Open Scope nat_scope.

Section SparseProofs.
  Context {T : Type} (F : Fops T).
  Hypothesis Rth : ring_theory (f0 F) (f1 F) (fadd F) (fmul F) (fsub F) (fneg F) (@eq T).
  Hypothesis eqb_spec : forall a b, feqb F a b = true <-> a = b.
  Add Ring Rr : Rth.
  Local Notation zero := (f0 F).
  Local Notation one := (f1 F).
  Local Notation add := (fadd F).
  Local Notation sub := (fsub F).
  Local Notation mul := (fmul F).
  Local Notation neg := (fneg F).

  (* ------------------------------------------------------------------ *)
  (* 0. small arithmetic / list facts                                    *)
  (* ------------------------------------------------------------------ *)

  Lemma pow2_pos n : 0 < pow2 n.
  Proof. unfold pow2. pose proof (Nat.pow_nonzero 2 n). lia. Qed.
  Lemma pow2_S n : pow2 (S n) = 2 * pow2 n.
  Proof. unfold pow2. apply Nat.pow_succ_r'. Qed.
  Lemma pow2_add a b : pow2 (a + b) = pow2 a * pow2 b.
  Proof. unfold pow2. apply Nat.pow_add_r. Qed.
  Lemma pow2_0 : pow2 0 = 1.
  Proof. reflexivity. Qed.

  Lemma upd_length {A} (l : list A) i x : length (upd l i x) = length l.
  Proof. revert i; induction l as [|a l IH]; intros [|i]; simpl; auto. Qed.
  Lemma nth_upd_eq {A} (l : list A) i x d : i < length l -> nth i (upd l i x) d = x.
  Proof.
    revert i; induction l as [|a l IH]; intros [|i] Hi; simpl in *; try lia; auto.
    apply IH; lia.
  Qed.
  Lemma nth_upd_neq {A} (l : list A) i j x d : i <> j -> nth i (upd l j x) d = nth i l d.
  Proof.
    revert i j; induction l as [|a l IH]; intros [|i] [|j] Hij; simpl; auto; try lia.
  Qed.

  (* ------------------------------------------------------------------ *)
  (* 1. the map library                                                  *)
  (* ------------------------------------------------------------------ *)

  Definition keys_gt (k : nat) (m : smap T) : Prop := Forall (fun e => k < fst e) m.

  Lemma keys_sorted_gt : forall (m : smap T) k v, keys_sorted ((k, v) :: m) -> keys_gt k m.
  Proof.
    induction m as [|[k' v'] m IH]; intros k v H.
    - constructor.
    - destruct H as [Hlt Hs]. constructor; [simpl; lia|].
      specialize (IH k' v' Hs). unfold keys_gt in *.
      eapply Forall_impl; [|exact IH]. simpl; intros e He; lia.
  Qed.

  Lemma keys_sorted_cons k v (m : smap T) :
    keys_sorted ((k, v) :: m) <-> keys_gt k m /\ keys_sorted m.
  Proof.
    split.
    - intros H. split; [eapply keys_sorted_gt; eauto|]. destruct H as [_ H]; exact H.
    - intros [Hg Hs]. destruct m as [|[k' v'] m]; simpl; auto.
      split; [|exact Hs]. inversion Hg as [|e l He Hl]; subst. exact He.
  Qed.

  Lemma keys_sorted_tail k v (m : smap T) : keys_sorted ((k, v) :: m) -> keys_sorted m.
  Proof. intros H; apply keys_sorted_cons in H; tauto. Qed.

  Lemma m_get_None k (m : smap T) : m_get k m = None <-> ~ In k (map fst m).
  Proof.
    induction m as [|[k' v'] m IH]; simpl.
    - tauto.
    - destruct (Nat.eqb_spec k k') as [E|E].
      + split; [discriminate|]. intros H; exfalso; apply H; left; congruence.
      + rewrite IH. split; [intros H [H1|H1]; [congruence|tauto]|tauto].
  Qed.

  Lemma m_get_In k v (m : smap T) : m_get k m = Some v -> In (k, v) m.
  Proof.
    induction m as [|[k' v'] m IH]; simpl; [discriminate|].
    destruct (Nat.eqb_spec k k') as [E|E]; intros H.
    - left; congruence.
    - right; auto.
  Qed.

  Lemma In_m_get k v (m : smap T) : NoDup (map fst m) -> In (k, v) m -> m_get k m = Some v.
  Proof.
    induction m as [|[k' v'] m IH]; simpl; intros Hnd Hin; [tauto|].
    inversion Hnd as [|x l Hx Hl]; subst.
    destruct Hin as [Hin|Hin].
    - inversion Hin; subst. rewrite Nat.eqb_refl; auto.
    - destruct (Nat.eqb_spec k k') as [E|E]; [|auto].
      exfalso; apply Hx. subst k'. change k with (fst (k, v)). apply in_map; auto.
  Qed.

  Lemma keys_gt_notin k (m : smap T) : keys_gt k m -> ~ In k (map fst m).
  Proof.
    intros Hg Hin. apply in_map_iff in Hin. destruct Hin as [e [He Hin]].
    unfold keys_gt in Hg. rewrite Forall_forall in Hg. specialize (Hg e Hin). lia.
  Qed.

  Lemma keys_sorted_NoDup (m : smap T) : keys_sorted m -> NoDup (map fst m).
  Proof.
    induction m as [|[k v] m IH]; intros H; simpl; [constructor|].
    apply keys_sorted_cons in H. destruct H as [Hg Hs].
    constructor; [apply keys_gt_notin; auto|auto].
  Qed.

  Lemma m_get_sorted_head k v (m : smap T) : keys_sorted ((k, v) :: m) -> m_get k m = None.
  Proof.
    intros H. apply keys_sorted_cons in H. apply m_get_None, keys_gt_notin; tauto.
  Qed.

  Lemma m_get_app k (x y : smap T) :
    m_get k (x ++ y) = match m_get k x with Some v => Some v | None => m_get k y end.
  Proof.
    induction x as [|[k' v'] x IH]; simpl; auto.
    destruct (Nat.eqb k k'); auto.
  Qed.

  Lemma m_get_insert k k' v (m : smap T) :
    m_get k (m_insert k' v m) = if Nat.eqb k k' then Some v else m_get k m.
  Proof.
    induction m as [|[k2 v2] m IH]; simpl; auto.
    destruct (Nat.ltb_spec k' k2) as [L|L]; simpl.
    - destruct (Nat.eqb_spec k k'); auto.
    - destruct (Nat.eqb_spec k' k2) as [E|E]; simpl.
      + destruct (Nat.eqb_spec k k') as [E1|E1]; auto.
        destruct (Nat.eqb_spec k k2); auto; congruence.
      + rewrite IH. destruct (Nat.eqb_spec k k2) as [E2|E2]; auto.
        destruct (Nat.eqb_spec k k'); auto; congruence.
  Qed.

  Theorem m_lookup_insert k k' v (m : smap T) :
    m_lookup F k (m_insert k' v m) = if Nat.eqb k k' then v else m_lookup F k m.
  Proof.
    unfold m_lookup. rewrite m_get_insert. destruct (Nat.eqb k k'); auto.
  Qed.

  Theorem m_lookup_add_at k k' x (m : smap T) :
    m_lookup F k (m_add_at F k' x m) =
    if Nat.eqb k k' then add (m_lookup F k m) x else m_lookup F k m.
  Proof.
    unfold m_add_at. rewrite m_lookup_insert.
    destruct (Nat.eqb_spec k k'); subst; auto.
  Qed.

  Lemma m_insert_gt j k v (m : smap T) : j < k -> keys_gt j m -> keys_gt j (m_insert k v m).
  Proof.
    unfold keys_gt. induction m as [|[k2 v2] m IH]; simpl; intros Hj Hg.
    - constructor; auto.
    - inversion Hg as [|e l He Hl]; subst.
      destruct (Nat.ltb k k2); [constructor; auto|].
      destruct (Nat.eqb k k2); constructor; auto.
  Qed.

  Theorem m_insert_sorted k v (m : smap T) : keys_sorted m -> keys_sorted (m_insert k v m).
  Proof.
    induction m as [|[k2 v2] m IH]; intros H.
    - simpl; auto.
    - simpl. destruct (Nat.ltb_spec k k2) as [L|L].
      + apply keys_sorted_cons. split; [|exact H].
        apply keys_sorted_cons in H. destruct H as [Hg Hs].
        constructor; [simpl; lia|]. unfold keys_gt in *.
        eapply Forall_impl; [|exact Hg]. simpl; intros; lia.
      + apply keys_sorted_cons in H. destruct H as [Hg Hs].
        destruct (Nat.eqb_spec k k2) as [E|E].
        * subst k2. apply keys_sorted_cons; auto.
        * apply keys_sorted_cons. split; [apply m_insert_gt; auto; lia|auto].
  Qed.

  Theorem m_add_at_sorted k x (m : smap T) : keys_sorted m -> keys_sorted (m_add_at F k x m).
  Proof. apply m_insert_sorted. Qed.

  Lemma m_insert_Forall (P : nat * T -> Prop) k v (m : smap T) :
    P (k, v) -> Forall P m -> Forall P (m_insert k v m).
  Proof.
    intros Hp. induction m as [|[k2 v2] m IH]; simpl; intros H.
    - constructor; auto.
    - inversion H as [|e l He Hl]; subst.
      destruct (Nat.ltb k k2); [constructor; auto|].
      destruct (Nat.eqb k k2); constructor; auto.
  Qed.

  (* key-range preservation *)
  Theorem m_insert_range N k v (m : smap T) :
    k < N -> Forall (fun e => fst e < N) m -> Forall (fun e => fst e < N) (m_insert k v m).
  Proof. intros; apply m_insert_Forall; auto. Qed.
  Theorem m_add_at_range N k x (m : smap T) :
    k < N -> Forall (fun e => fst e < N) m -> Forall (fun e => fst e < N) (m_add_at F k x m).
  Proof. intros; apply m_insert_Forall; auto. Qed.

  Lemma treemap_fold_sorted (l : list (nat * T)) : forall m0,
    keys_sorted m0 -> keys_sorted (fold_left (fun m kv => m_insert (fst kv) (snd kv) m) l m0).
  Proof. induction l as [|e l IH]; simpl; intros m0 H; auto. apply IH, m_insert_sorted, H. Qed.

  Theorem tuples_to_treemap_sorted (l : list (nat * T)) : keys_sorted (tuples_to_treemap l).
  Proof. apply treemap_fold_sorted; simpl; auto. Qed.

  Lemma treemap_fold_range N (l : list (nat * T)) : forall m0,
    Forall (fun e => fst e < N) l -> Forall (fun e => fst e < N) m0 ->
    Forall (fun e => fst e < N) (fold_left (fun m kv => m_insert (fst kv) (snd kv) m) l m0).
  Proof.
    induction l as [|e l IH]; simpl; intros m0 Hl H; auto.
    inversion Hl as [|e' l' He Hl']; subst. apply IH; auto. apply m_insert_range; auto.
  Qed.

  Theorem tuples_to_treemap_range N (l : list (nat * T)) :
    Forall (fun e => fst e < N) l -> Forall (fun e => fst e < N) (tuples_to_treemap l).
  Proof. intros H; apply treemap_fold_range; auto. Qed.

  Lemma treemap_fold_get k (l : list (nat * T)) : forall m0,
    m_get k (fold_left (fun m kv => m_insert (fst kv) (snd kv) m) l m0) =
    match m_get k (rev l) with Some v => Some v | None => m_get k m0 end.
  Proof.
    induction l as [|[k1 v1] l IH]; simpl; intros m0; auto.
    rewrite IH, m_get_app, m_get_insert. simpl.
    destruct (m_get k (rev l)); auto. destruct (Nat.eqb k k1); auto.
  Qed.

  (* later duplicates win: the value found is the one of the LAST pair with that key *)
  Theorem tuples_to_treemap_get k (l : list (nat * T)) :
    m_get k (tuples_to_treemap l) = m_get k (rev l).
  Proof.
    unfold tuples_to_treemap. rewrite treemap_fold_get. destruct (m_get k (rev l)); auto.
  Qed.
  Theorem tuples_to_treemap_lookup k (l : list (nat * T)) :
    m_lookup F k (tuples_to_treemap l) = m_lookup F k (rev l).
  Proof. unfold m_lookup. rewrite tuples_to_treemap_get; auto. Qed.
  (* the same statement, spelled out on a decomposition of the input list *)
  Theorem tuples_to_treemap_lookup_last k v (l1 l2 : list (nat * T)) :
    ~ In k (map fst l2) -> m_lookup F k (tuples_to_treemap (l1 ++ (k, v) :: l2)) = v.
  Proof.
    intros Hn. rewrite tuples_to_treemap_lookup. unfold m_lookup.
    rewrite rev_app_distr. simpl. rewrite <- app_assoc, m_get_app.
    assert (Hr : m_get k (rev l2) = None).
    { apply m_get_None. rewrite map_rev, <- in_rev. exact Hn. }
    rewrite Hr. simpl. rewrite Nat.eqb_refl. reflexivity.
  Qed.
  Theorem tuples_to_treemap_lookup_none k (l : list (nat * T)) :
    ~ In k (map fst l) -> m_lookup F k (tuples_to_treemap l) = zero.
  Proof.
    intros Hn. rewrite tuples_to_treemap_lookup. unfold m_lookup.
    assert (Hr : m_get k (rev l) = None).
    { apply m_get_None. rewrite map_rev, <- in_rev. exact Hn. }
    rewrite Hr. reflexivity.
  Qed.

  Lemma m_get_rev k (l : list (nat * T)) : NoDup (map fst l) -> m_get k (rev l) = m_get k l.
  Proof.
    intros Hnd.
    assert (Hnd' : NoDup (map fst (rev l))).
    { rewrite map_rev. apply NoDup_rev; auto. }
    destruct (m_get k l) as [v|] eqn:E.
    - apply In_m_get; auto. rewrite <- in_rev. apply m_get_In; auto.
    - apply m_get_None. rewrite map_rev, <- in_rev. apply m_get_None; auto.
  Qed.

  (* on an input without duplicate keys the conversion does not change any binding *)
  Theorem tuples_to_treemap_get_nodup k (l : list (nat * T)) :
    NoDup (map fst l) -> m_get k (tuples_to_treemap l) = m_get k l.
  Proof. intros H. rewrite tuples_to_treemap_get. apply m_get_rev; auto. Qed.

  Lemma m_get_map_val (g : T -> T) k (m : smap T) :
    m_get k (map (fun e => (fst e, g (snd e))) m) = option_map g (m_get k m).
  Proof.
    induction m as [|[k' v'] m IH]; simpl; auto. destruct (Nat.eqb k k'); auto.
  Qed.

  Lemma map_val_keys (g : T -> T) (m : smap T) :
    map fst (map (fun e => (fst e, g (snd e))) m) = map fst m.
  Proof. rewrite map_map. apply map_ext; auto. Qed.

  Lemma m_get_filter (P : T -> bool) k (m : smap T) :
    NoDup (map fst m) ->
    m_get k (filter (fun e => P (snd e)) m) =
    match m_get k m with Some v => if P v then Some v else None | None => None end.
  Proof.
    induction m as [|[k' v'] m IH]; simpl; intros Hnd; auto.
    inversion Hnd as [|x l Hx Hl]; subst. specialize (IH Hl).
    destruct (Nat.eqb_spec k k') as [E|E].
    - subst k'. destruct (P v') eqn:EP; simpl.
      + rewrite Nat.eqb_refl; auto.
      + rewrite IH. apply m_get_None in Hx. rewrite Hx. auto.
    - destruct (P v'); simpl; auto.
      destruct (Nat.eqb_spec k k'); auto; congruence.
  Qed.

  Lemma filter_keys_NoDup (P : nat * T -> bool) (m : smap T) :
    NoDup (map fst m) -> NoDup (map fst (filter P m)).
  Proof.
    induction m as [|e m IH]; simpl; intros Hnd; auto.
    inversion Hnd as [|x l Hx Hl]; subst.
    destruct (P e); simpl; auto. constructor; auto.
    intros Hin; apply Hx. apply in_map_iff in Hin. destruct Hin as [e' [He' Hin]].
    apply filter_In in Hin. rewrite <- He'. apply in_map; tauto.
  Qed.

  Lemma Forall_filter {A} (P : A -> Prop) (f : A -> bool) (l : list A) :
    Forall P l -> Forall P (filter f l).
  Proof.
    intros H. rewrite Forall_forall in *. intros x Hx. apply filter_In in Hx. apply H; tauto.
  Qed.

  (* ------------------------------------------------------------------ *)
  (* 2. from_evaluations / to_evaluations / to_dense                     *)
  (* ------------------------------------------------------------------ *)

  Lemma fold_upd_length (m : smap T) : forall l : list T,
    length (fold_left (fun ev kv => upd ev (fst kv) (snd kv)) m l) = length l.
  Proof. induction m as [|e m IH]; simpl; intros l; auto. rewrite IH, upd_length; auto. Qed.

  Lemma fold_upd_nth (m : smap T) : forall (l : list T) i,
    keys_sorted m -> i < length l ->
    nth i (fold_left (fun ev kv => upd ev (fst kv) (snd kv)) m l) zero =
    match m_get i m with Some v => v | None => nth i l zero end.
  Proof.
    induction m as [|[k v] m IH]; intros l i Hs Hi; [simpl; auto|].
    cbn [fold_left m_get fst snd].
    rewrite IH; [|eapply keys_sorted_tail; eauto|rewrite upd_length; auto].
    destruct (Nat.eqb_spec i k) as [E|E].
    - subst k. rewrite (m_get_sorted_head i v m Hs). apply nth_upd_eq; auto.
    - destruct (m_get i m); auto. apply nth_upd_neq; auto.
  Qed.

  Theorem s_to_evaluations_spec (p : smle T) :
    s_wf p ->
    length (s_to_evaluations F p) = pow2 (s_nv p) /\
    forall i, i < pow2 (s_nv p) -> nth i (s_to_evaluations F p) zero = m_lookup F i (s_ev p).
  Proof.
    intros [Hs Hr]. unfold s_to_evaluations. split.
    - rewrite fold_upd_length, repeat_length; auto.
    - intros i Hi. rewrite fold_upd_nth; auto; [|rewrite repeat_length; auto].
      unfold m_lookup. destruct (m_get i (s_ev p)); auto.
      apply nth_repeat.
  Qed.

  Theorem s_to_dense_spec (p : smle T) :
    s_wf p -> s_to_dense F p = Ok (mkD (s_nv p) (s_to_evaluations F p)).
  Proof.
    intros H. destruct (s_to_evaluations_spec p H) as [Hl _].
    unfold s_to_dense, d_from_vec. rewrite Hl, Nat.eqb_refl. reflexivity.
  Qed.

  Theorem s_from_wf nv (evs : list (nat * T)) p : s_from nv evs = Ok p -> s_wf p.
  Proof.
    unfold s_from. destruct (forallb _ evs) eqn:E; [|discriminate].
    intros H; inversion H; subst; clear H. split; simpl.
    - apply tuples_to_treemap_sorted.
    - apply tuples_to_treemap_range. rewrite forallb_forall in E. apply Forall_forall.
      intros e He. specialize (E e He). apply Nat.ltb_lt in E; auto.
  Qed.

  Theorem s_from_ok nv (evs : list (nat * T)) :
    Forall (fun e => fst e < pow2 nv) evs -> s_from nv evs = Ok (mkS nv (tuples_to_treemap evs)).
  Proof.
    intros H. unfold s_from.
    assert (E : forallb (fun kv => Nat.ltb (fst kv) (pow2 nv)) evs = true).
    { apply forallb_forall. rewrite Forall_forall in H. intros e He. apply Nat.ltb_lt; auto. }
    rewrite E; auto.
  Qed.

  Theorem s_from_panic_iff nv (evs : list (nat * T)) :
    s_from nv evs = Panic <-> exists e, In e evs /\ pow2 nv <= fst e.
  Proof.
    unfold s_from. destruct (forallb _ evs) eqn:E.
    - split; [discriminate|]. intros [e [He Hge]]. rewrite forallb_forall in E.
      specialize (E e He). apply Nat.ltb_lt in E. lia.
    - split; [intros _|auto].
      assert (Hex : existsb (fun kv => negb (Nat.ltb (fst kv) (pow2 nv))) evs = true).
      { clear -E. induction evs as [|e l IH]; simpl in *; [discriminate|].
        destruct (Nat.ltb (fst e) (pow2 nv)); simpl in *; auto. }
      apply existsb_exists in Hex. destruct Hex as [e [He Hn]]. exists e; split; auto.
      apply negb_true_iff, Nat.ltb_ge in Hn. auto.
  Qed.

  Theorem s_from_never_out_of_fuel nv (evs : list (nat * T)) : s_from nv evs <> OutOfFuel.
  Proof. unfold s_from. destruct (forallb _ evs); discriminate. Qed.

  (* ------------------------------------------------------------------ *)
  (* 3. finite sums, the equality polynomial, precompute_eq              *)
  (* ------------------------------------------------------------------ *)

  Lemma sumf_ext (f g : nat -> T) n : (forall i, i < n -> f i = g i) -> sumf F f n = sumf F g n.
  Proof.
    induction n as [|n IH]; simpl; intros H; auto. rewrite IH, H; auto.
  Qed.
  Lemma sumf_zero n : sumf F (fun _ => zero) n = zero.
  Proof. induction n as [|n IH]; simpl; auto. rewrite IH; ring. Qed.
  Lemma sumf_add (f g : nat -> T) n :
    sumf F (fun i => add (f i) (g i)) n = add (sumf F f n) (sumf F g n).
  Proof. induction n as [|n IH]; simpl; [ring|]. rewrite IH; ring. Qed.
  Lemma sumf_mul_r (f : nat -> T) c n :
    mul (sumf F f n) c = sumf F (fun i => mul (f i) c) n.
  Proof. induction n as [|n IH]; simpl; [ring|]. rewrite <- IH; ring. Qed.
  Lemma sumf_delta (G : nat -> T) c n :
    sumf F (fun i => if Nat.eqb i c then G i else zero) n = if Nat.ltb c n then G c else zero.
  Proof.
    induction n as [|n IH]; simpl; auto. rewrite IH.
    destruct (Nat.eqb_spec n c) as [E|E].
    - subst c. destruct (Nat.ltb_spec n n); [lia|].
      destruct (Nat.ltb_spec n (S n)); [ring|lia].
    - destruct (Nat.ltb_spec c n); destruct (Nat.ltb_spec c (S n)); try lia; ring.
  Qed.
  Lemma sumf_app (f : nat -> T) n a :
    sumf F f (n + a) = add (sumf F f n) (sumf F (fun i => f (i + n)) a).
  Proof.
    induction a as [|a IH]; simpl.
    - rewrite Nat.add_0_r; ring.
    - rewrite Nat.add_succ_r. simpl. rewrite IH. rewrite (Nat.add_comm a n). ring.
  Qed.
  (* double-sum: sum over [0, a*b) = sum over hi < b of sum over lo < a *)
  Lemma sumf_split_mul (f : nat -> T) a b :
    sumf F f (a * b) = sumf F (fun hi => sumf F (fun lo => f (lo + a * hi)) a) b.
  Proof.
    induction b as [|b IH]; simpl.
    - rewrite Nat.mul_0_r; reflexivity.
    - rewrite Nat.mul_succ_r, sumf_app, IH. reflexivity.
  Qed.

  Lemma odd_add_even lo k : Nat.odd (lo + 2 * k) = Nat.odd lo.
  Proof. apply Nat.odd_add_mul_2. Qed.
  Lemma div2_add_even lo k : Nat.div2 (lo + 2 * k) = Nat.div2 lo + k.
  Proof.
    rewrite !Nat.div2_div. rewrite (Nat.mul_comm 2 k). apply Nat.div_add; lia.
  Qed.
  Lemma div2_lt lo n : lo < 2 * n -> Nat.div2 lo < n.
  Proof. intros H. rewrite Nat.div2_div. apply Nat.div_lt_upper_bound; lia. Qed.

  (* eq(lo + 2^|x| * hi, x ++ y) = eq(lo, x) * eq(hi, y) *)
  Lemma eqpoly_app_lohi : forall (x y : list T) lo hi,
    lo < pow2 (length x) ->
    eqpoly F (lo + pow2 (length x) * hi) (x ++ y) = mul (eqpoly F lo x) (eqpoly F hi y).
  Proof.
    induction x as [|r x IH]; intros y lo hi Hlo.
    - cbn [length app eqpoly] in *. rewrite pow2_0 in *. assert (lo = 0) by lia. subst lo. replace (0 + 1 * hi) with hi by lia. ring.
    - cbn [length] in *. rewrite pow2_S in *.
      cbn [app eqpoly].
      replace (lo + 2 * pow2 (length x) * hi) with (lo + 2 * (pow2 (length x) * hi)) by lia.
      rewrite odd_add_even, div2_add_even, IH; [|apply div2_lt; auto]. ring.
  Qed.

  Theorem eqpoly_app (x y : list T) b :
    eqpoly F b (x ++ y) =
    mul (eqpoly F (b mod pow2 (length x)) x) (eqpoly F (b / pow2 (length x)) y).
  Proof.
    pose proof (pow2_pos (length x)) as Hp.
    rewrite <- eqpoly_app_lohi; [|apply Nat.mod_upper_bound; lia].
    f_equal. rewrite Nat.add_comm. apply Nat.div_mod; lia.
  Qed.

  Lemma nth_map_lt (g : T -> T) (l : list T) i : i < length l -> nth i (map g l) zero = g (nth i l zero).
  Proof.
    intros Hi. rewrite (nth_indep _ zero (g zero)); [|rewrite map_length; auto]. apply map_nth.
  Qed.

  Lemma eq_step_spec (g1 : list T) (dp : list T) r :
    length dp = pow2 (length g1) ->
    (forall b, b < pow2 (length g1) -> nth b dp zero = eqpoly F b g1) ->
    length (eq_step F dp r) = pow2 (length (g1 ++ [r])) /\
    (forall b, b < pow2 (length (g1 ++ [r])) -> nth b (eq_step F dp r) zero = eqpoly F b (g1 ++ [r])).
  Proof.
    intros Hl Ht. unfold eq_step. rewrite (app_length g1 [r]). cbn [length].
    rewrite Nat.add_1_r, pow2_S. split.
    - rewrite app_length, !map_length. lia.
    - intros b Hb. destruct (Nat.lt_ge_cases b (pow2 (length g1))) as [L|L].
      + rewrite app_nth1; [|rewrite map_length; lia].
        rewrite nth_map_lt; [|lia]. rewrite Ht; auto.
        assert (E : eqpoly F b (g1 ++ [r]) = mul (eqpoly F b g1) (eqpoly F 0 [r])).
        { rewrite <- eqpoly_app_lohi by auto. f_equal. lia. }
        rewrite E. simpl. ring.
      + rewrite app_nth2; [|rewrite map_length; lia]. rewrite map_length, Hl.
        rewrite nth_map_lt; [|lia]. rewrite Ht; [|lia].
        assert (E : eqpoly F b (g1 ++ [r]) =
                    mul (eqpoly F (b - pow2 (length g1)) g1) (eqpoly F 1 [r])).
        { rewrite <- eqpoly_app_lohi by lia. f_equal. lia. }
        rewrite E. simpl. ring.
  Qed.

  Lemma eq_fold_spec : forall (g' g1 dp : list T),
    length dp = pow2 (length g1) ->
    (forall b, b < pow2 (length g1) -> nth b dp zero = eqpoly F b g1) ->
    length (fold_left (eq_step F) g' dp) = pow2 (length (g1 ++ g')) /\
    (forall b, b < pow2 (length (g1 ++ g')) ->
               nth b (fold_left (eq_step F) g' dp) zero = eqpoly F b (g1 ++ g')).
  Proof.
    induction g' as [|r g' IH]; intros g1 dp Hl Ht.
    - simpl. rewrite app_nil_r. auto.
    - cbn [fold_left]. destruct (eq_step_spec g1 dp r Hl Ht) as [Hl' Ht'].
      replace (g1 ++ r :: g') with ((g1 ++ [r]) ++ g') by (rewrite <- app_assoc; reflexivity).
      apply IH; auto.
  Qed.

  (* the doubling table is the table of the equality polynomial *)
  Theorem eq_table_spec (g pre : list T) :
    precompute_eq F g = Some pre ->
    length pre = pow2 (length g) /\
    forall b, b < pow2 (length g) -> nth b pre zero = eqpoly F b g.
  Proof.
    destruct g as [|g0 g']; simpl; [discriminate|]. intros H; inversion H; subst; clear H.
    apply (eq_fold_spec g' [g0] [sub one g0; g0]).
    - reflexivity.
    - intros b Hb. change (pow2 (length [g0])) with 2 in Hb.
      destruct b as [|[|b]]; [| |lia]; simpl; ring.
  Qed.
  Theorem precompute_eq_some (g : list T) : g <> [] -> exists pre, precompute_eq F g = Some pre.
  Proof. destruct g; [congruence|]. intros _. eexists; reflexivity. Qed.
  Theorem precompute_eq_none (g : list T) : precompute_eq F g = None <-> g = [].
  Proof. destruct g; simpl; split; congruence. Qed.

  (* ------------------------------------------------------------------ *)
  (* 4a. accumulation folds ( *map.entry(k).or_insert(0) += x )          *)
  (* ------------------------------------------------------------------ *)

  (* sum of h over the entries of a list *)
  Fixpoint esum (h : nat * T -> T) (l : list (nat * T)) : T :=
    match l with [] => zero | e :: l' => add (h e) (esum h l') end.

  Lemma esum_app h (x y : list (nat * T)) : esum h (x ++ y) = add (esum h x) (esum h y).
  Proof. induction x as [|e x IH]; simpl; [ring|]. rewrite IH; ring. Qed.

  Lemma m_lookup_nil i : m_lookup F i [] = zero.
  Proof. reflexivity. Qed.

  Lemma fold_add_at_lookup (kf : nat * T -> nat) (vf : nat * T -> T) (l : list (nat * T)) :
    forall init c,
    m_lookup F c (fold_left (fun r e => m_add_at F (kf e) (vf e) r) l init) =
    add (m_lookup F c init) (esum (fun e => if Nat.eqb (kf e) c then vf e else zero) l).
  Proof.
    induction l as [|e l IH]; simpl; intros init c; [ring|].
    rewrite IH, m_lookup_add_at.
    destruct (Nat.eqb_spec c (kf e)); destruct (Nat.eqb_spec (kf e) c); try congruence; ring.
  Qed.

  Lemma fold_add_at_sorted (kf : nat * T -> nat) (vf : nat * T -> T) (l : list (nat * T)) :
    forall init, keys_sorted init ->
    keys_sorted (fold_left (fun r e => m_add_at F (kf e) (vf e) r) l init).
  Proof. induction l as [|e l IH]; simpl; intros init H; auto. apply IH, m_add_at_sorted, H. Qed.

  Lemma fold_add_at_range N (kf : nat * T -> nat) (vf : nat * T -> T) (l : list (nat * T)) :
    forall init, Forall (fun e => kf e < N) l -> Forall (fun e => fst e < N) init ->
    Forall (fun e => fst e < N) (fold_left (fun r e => m_add_at F (kf e) (vf e) r) l init).
  Proof.
    induction l as [|e l IH]; simpl; intros init Hl H; auto.
    inversion Hl as [|e' l' He Hl']; subst. apply IH; auto. apply m_add_at_range; auto.
  Qed.

  Lemma esum_lookup i (m : smap T) :
    NoDup (map fst m) ->
    esum (fun e => if Nat.eqb (fst e) i then snd e else zero) m = m_lookup F i m.
  Proof.
    induction m as [|[k v] m IH]; simpl; intros Hnd; [reflexivity|].
    inversion Hnd as [|x l Hx Hl]; subst. rewrite IH by auto.
    unfold m_lookup. simpl.
    destruct (Nat.eqb_spec k i) as [E|E]; destruct (Nat.eqb_spec i k) as [E'|E']; try congruence.
    - subst i. apply m_get_None in Hx. rewrite Hx. ring.
    - ring.
  Qed.

  (* ------------------------------------------------------------------ *)
  (* 4. one batch of fix_variables                                       *)
  (* ------------------------------------------------------------------ *)

  (* a sum over the entries of a duplicate-free map is a sum over all indices *)
  Lemma esum_sumf (h : nat -> T -> T) (m : smap T) N :
    (forall i, h i zero = zero) -> NoDup (map fst m) -> Forall (fun e => fst e < N) m ->
    esum (fun e => h (fst e) (snd e)) m = sumf F (fun i => h i (m_lookup F i m)) N.
  Proof.
    intros Hh. induction m as [|[k v] m IH]; intros Hnd Hr.
    - simpl. rewrite (sumf_ext _ (fun _ => zero)); [rewrite sumf_zero; reflexivity|].
      intros i _. rewrite m_lookup_nil. apply Hh.
    - inversion Hnd as [|x l Hx Hl]; subst. inversion Hr as [|e l He Hl']; subst.
      simpl in He. cbn [esum fst snd]. rewrite IH by auto.
      rewrite (sumf_ext (fun i => h i (m_lookup F i ((k, v) :: m)))
                        (fun i => add (if Nat.eqb i k then h i v else zero) (h i (m_lookup F i m)))).
      + rewrite sumf_add, sumf_delta. destruct (Nat.ltb_spec k N); [reflexivity|lia].
      + intros i _. unfold m_lookup. simpl. destruct (Nat.eqb_spec i k) as [E|E].
        * subst i. apply m_get_None in Hx. rewrite Hx, Hh. ring.
        * ring.
  Qed.

  Lemma keys_bounded (m : smap T) : exists N, Forall (fun e => fst e < N) m.
  Proof.
    induction m as [|[k v] m [N IH]].
    - exists 0; constructor.
    - exists (N + S k). constructor; [simpl; lia|].
      eapply Forall_impl; [|exact IH]. simpl; intros; lia.
  Qed.

  Definition batch_k (dim : nat) (e : nat * T) : nat := fst e / pow2 dim.
  Definition batch_v (pre : list T) (dim : nat) (e : nat * T) : T :=
    mul (nth (fst e mod pow2 dim) pre zero) (snd e).
  Lemma s_fix_batch_eq pre dim (last : smap T) :
    s_fix_batch F pre dim last =
    fold_left (fun r e => m_add_at F (batch_k dim e) (batch_v pre dim e) r) last [].
  Proof. reflexivity. Qed.

  Lemma div_lohi D lo hi : lo < D -> (lo + D * hi) / D = hi.
  Proof.
    intros H. rewrite (Nat.mul_comm D hi), Nat.div_add by lia. rewrite Nat.div_small; lia.
  Qed.
  Lemma mod_lohi D lo hi : lo < D -> (lo + D * hi) mod D = lo.
  Proof.
    intros H. rewrite (Nat.mul_comm D hi), Nat.mod_add by lia. apply Nat.mod_small; lia.
  Qed.

  (* result[c] = sum_{b < 2^dim} last[b + 2^dim * c] * pre[b]   (any table pre) *)
  Theorem s_fix_batch_lookup (pre : list T) dim (last : smap T) c :
    keys_sorted last ->
    m_lookup F c (s_fix_batch F pre dim last) =
    sumf F (fun b => mul (m_lookup F (b + pow2 dim * c) last) (nth b pre zero)) (pow2 dim).
  Proof.
    intros Hs. rewrite s_fix_batch_eq, fold_add_at_lookup, m_lookup_nil.
    pose proof (pow2_pos dim) as HD. set (D := pow2 dim) in *.
    destruct (keys_bounded last) as [N HN].
    set (M := N + c + 1).
    assert (HM : Forall (fun e => fst e < D * M) last).
    { eapply Forall_impl; [|exact HN]. simpl; intros e He. unfold M. nia. }
    set (h := fun (i : nat) (v : T) =>
                if Nat.eqb (i / D) c then mul (nth (i mod D) pre zero) v else zero).
    transitivity (add zero (esum (fun e => h (fst e) (snd e)) last)); [reflexivity|].
    rewrite (esum_sumf h last (D * M)); auto.
    2:{ intros i. unfold h. destruct (Nat.eqb (i / D) c); ring. }
    2:{ apply keys_sorted_NoDup; auto. }
    rewrite sumf_split_mul.
    rewrite (sumf_ext _ (fun hi => if Nat.eqb hi c
                 then sumf F (fun b => mul (m_lookup F (b + D * hi) last) (nth b pre zero)) D
                 else zero)).
    - rewrite sumf_delta. destruct (Nat.ltb_spec c M); [ring|unfold M in *; lia].
    - intros hi _. destruct (Nat.eqb_spec hi c) as [E|E].
      + apply sumf_ext. intros lo Hlo. unfold h.
        rewrite div_lohi, mod_lohi by auto. subst hi. rewrite Nat.eqb_refl. ring.
      + rewrite <- (sumf_zero D). apply sumf_ext. intros lo Hlo. unfold h.
        rewrite div_lohi by auto. destruct (Nat.eqb_spec hi c); [congruence|reflexivity].
  Qed.

  Theorem s_fix_batch_spec (pre : list T) dim (last : smap T) c :
    length pre = pow2 dim -> keys_sorted last ->
    m_lookup F c (s_fix_batch F pre dim last) =
    sumf F (fun b => mul (m_lookup F (b + pow2 dim * c) last) (nth b pre zero)) (pow2 dim).
  Proof. intros _. apply s_fix_batch_lookup. Qed.

  Theorem s_fix_batch_sorted (pre : list T) dim (last : smap T) :
    keys_sorted (s_fix_batch F pre dim last).
  Proof. rewrite s_fix_batch_eq. apply fold_add_at_sorted. simpl; auto. Qed.

  Theorem s_fix_batch_range (pre : list T) dim n (last : smap T) :
    dim <= n -> Forall (fun e => fst e < pow2 n) last ->
    Forall (fun e => fst e < pow2 (n - dim)) (s_fix_batch F pre dim last).
  Proof.
    intros Hd Hr. rewrite s_fix_batch_eq. apply fold_add_at_range; [|constructor].
    eapply Forall_impl; [|exact Hr]. simpl; intros e He. unfold batch_k.
    pose proof (pow2_pos dim). apply Nat.div_lt_upper_bound; [lia|].
    rewrite <- pow2_add. replace (dim + (n - dim)) with n by lia. auto.
  Qed.

  (* ------------------------------------------------------------------ *)
  (* 5. fix_variables                                                    *)
  (* ------------------------------------------------------------------ *)

  Lemma fix_compose (focus rest : list T) (L : nat -> T) (c : nat) :
    sumf F (fun b2 =>
       mul (sumf F (fun b1 => mul (L (b1 + pow2 (length focus) * (b2 + pow2 (length rest) * c)))
                                  (eqpoly F b1 focus)) (pow2 (length focus)))
           (eqpoly F b2 rest)) (pow2 (length rest))
    = sumf F (fun x => mul (L (x + pow2 (length (focus ++ rest)) * c)) (eqpoly F x (focus ++ rest)))
             (pow2 (length (focus ++ rest))).
  Proof.
    rewrite app_length, pow2_add, sumf_split_mul.
    apply sumf_ext; intros b2 Hb2. rewrite sumf_mul_r.
    apply sumf_ext; intros b1 Hb1. rewrite eqpoly_app_lohi by auto.
    replace (b1 + pow2 (length focus) * b2 + pow2 (length focus) * pow2 (length rest) * c)
      with (b1 + pow2 (length focus) * (b2 + pow2 (length rest) * c)) by ring.
    ring.
  Qed.

  Lemma fix_nil_sum (L : nat -> T) c :
    L c = sumf F (fun b => mul (L (b + pow2 (length (@nil T)) * c)) (eqpoly F b [])) (pow2 (length (@nil T))).
  Proof.
    cbn [length]. rewrite pow2_0. simpl. replace (c + 0) with c by lia. ring.
  Qed.

  Lemma s_fix_loop_spec window : 1 <= window -> forall fuel (point : list T) (last : smap T),
    length point <= fuel -> keys_sorted last ->
    exists m, s_fix_loop F fuel window point last = Ok m /\ keys_sorted m /\
      (forall n, length point <= n -> Forall (fun e => fst e < pow2 n) last ->
                 Forall (fun e => fst e < pow2 (n - length point)) m) /\
      forall c, m_lookup F c m =
        sumf F (fun b => mul (m_lookup F (b + pow2 (length point) * c) last) (eqpoly F b point))
             (pow2 (length point)).
  Proof.
    intros Hw. induction fuel as [|fuel IH]; intros point last Hf Hs.
    - destruct point; [|simpl in Hf; lia]. exists last. simpl s_fix_loop.
      split; [reflexivity|]. split; [auto|]. split.
      + intros n _ H. rewrite Nat.sub_0_r. auto.
      + intros c. apply (fix_nil_sum (fun i => m_lookup F i last)).
    - destruct point as [|r point'].
      { exists last. simpl s_fix_loop.
        split; [reflexivity|]. split; [auto|]. split.
        + intros n _ H. rewrite Nat.sub_0_r. auto.
        + intros c. apply (fix_nil_sum (fun i => m_lookup F i last)). }
      cbn [s_fix_loop]. set (P := r :: point') in *.
      assert (HP : 1 <= length P) by (unfold P; simpl; lia).
      set (fl := if Nat.ltb window (length P) then window else length P).
      assert (Hfl : 1 <= fl <= length P).
      { unfold fl. destruct (Nat.ltb_spec window (length P)); lia. }
      set (focus := firstn fl P). set (rest := skipn fl P).
      assert (Hlf : length focus = fl) by (unfold focus; apply firstn_length_le; lia).
      assert (Hlr : length rest = length P - fl) by (unfold rest; apply skipn_length).
      assert (HPeq : focus ++ rest = P) by (unfold focus, rest; apply firstn_skipn).
      destruct (precompute_eq_some focus) as [pre Epre].
      { intros E. rewrite E in Hlf. simpl in Hlf. lia. }
      rewrite Epre. destruct (eq_table_spec focus pre Epre) as [Hlen Htab].
      destruct (IH rest (s_fix_batch F pre (length focus) last)) as [m [Em [Hsm [Hrm Hlm]]]].
      { lia. } { apply s_fix_batch_sorted. }
      exists m. split; [exact Em|]. split; [exact Hsm|]. split.
      + intros n Hn Hlast.
        replace (n - length P) with ((n - length focus) - length rest) by lia.
        apply Hrm; [lia|]. apply s_fix_batch_range; [lia|auto].
      + intros c. rewrite Hlm. rewrite <- HPeq.
        rewrite <- (fix_compose focus rest (fun i => m_lookup F i last) c).
        apply sumf_ext; intros b2 Hb2. f_equal.
        rewrite s_fix_batch_lookup by auto.
        apply sumf_ext; intros b1 Hb1. rewrite Htab by auto. reflexivity.
  Qed.

  Lemma s_window_pos (p : smle T) : 1 <= s_window p.
  Proof. unfold s_window. destruct (Nat.eqb_spec (clog2 (length (s_ev p))) 0); lia. Qed.

  Theorem s_fix_spec (p : smle T) (pp : list T) (q : smle T) :
    s_wf p -> s_fix F p pp = Ok q ->
    s_wf q /\ s_nv q = s_nv p - length pp /\
    forall c, m_lookup F c (s_ev q) =
      sumf F (fun b => mul (m_lookup F (b + pow2 (length pp) * c) (s_ev p)) (eqpoly F b pp))
           (pow2 (length pp)).
  Proof.
    intros [Hs Hr]. unfold s_fix. destruct (Nat.leb_spec (length pp) (s_nv p)) as [L|L]; [|discriminate].
    destruct (s_fix_loop_spec (s_window p) (s_window_pos p) (length pp) pp (s_ev p) (le_n _) Hs)
      as [m [Em [Hsm [Hrm Hlm]]]].
    rewrite Em. simpl. intros H; inversion H; subst; clear H. simpl.
    split; [split; simpl; auto|]. split; [reflexivity|exact Hlm].
  Qed.

  Theorem s_fix_total (p : smle T) (pp : list T) :
    s_wf p -> length pp <= s_nv p -> exists q, s_fix F p pp = Ok q.
  Proof.
    intros [Hs Hr] L. unfold s_fix. destruct (Nat.leb_spec (length pp) (s_nv p)); [|lia].
    destruct (s_fix_loop_spec (s_window p) (s_window_pos p) (length pp) pp (s_ev p) (le_n _) Hs)
      as [m [Em _]].
    rewrite Em. simpl. eexists; reflexivity.
  Qed.

  Theorem s_fix_panic (p : smle T) (pp : list T) : s_nv p < length pp -> s_fix F p pp = Panic.
  Proof.
    intros L. unfold s_fix. destruct (Nat.leb_spec (length pp) (s_nv p)); [lia|reflexivity].
  Qed.

  Theorem s_fix_nil (p : smle T) : s_fix F p [] = Ok (mkS (s_nv p) (s_ev p)).
  Proof. unfold s_fix. simpl. rewrite Nat.sub_0_r. reflexivity. Qed.

  (* ------------------------------------------------------------------ *)
  (* 6. evaluate                                                         *)
  (* ------------------------------------------------------------------ *)

  Theorem s_eval_spec (p : smle T) (x : list T) :
    s_wf p -> length x = s_nv p ->
    s_eval F p x = Ok (hsum F (fun b => m_lookup F b (s_ev p)) x).
  Proof.
    intros Hw Hx. unfold s_eval. rewrite Hx, Nat.eqb_refl.
    destruct (s_fix_total p x Hw) as [q Eq]; [lia|]. rewrite Eq. simpl. f_equal.
    destruct (s_fix_spec p x q Hw Eq) as [_ [_ Hl]].
    unfold s_index, hsum. rewrite Hl. apply sumf_ext; intros b Hb.
    rewrite Nat.mul_0_r, Nat.add_0_r. reflexivity.
  Qed.

  Theorem s_eval_panic (p : smle T) (x : list T) : length x <> s_nv p -> s_eval F p x = Panic.
  Proof.
    intros Hx. unfold s_eval. destruct (Nat.eqb_spec (length x) (s_nv p)); [congruence|reflexivity].
  Qed.

  (* ------------------------------------------------------------------ *)
  (* 7. the operators, at table level                                    *)
  (* ------------------------------------------------------------------ *)

  Lemma s_is_zero_true (p : smle T) : s_is_zero p = true -> s_nv p = 0 /\ s_ev p = [].
  Proof.
    unfold s_is_zero. intros H. apply andb_prop in H. destruct H as [H1 H2].
    apply Nat.eqb_eq in H1. destruct (s_ev p); [auto|discriminate].
  Qed.

  Lemma lookup_filter_nz i (m : smap T) :
    NoDup (map fst m) ->
    m_lookup F i (filter (fun e => negb (feqb F (snd e) zero)) m) = m_lookup F i m.
  Proof.
    intros Hnd. unfold m_lookup.
    rewrite (m_get_filter (fun v => negb (feqb F v zero)) i m Hnd).
    destruct (m_get i m) as [v|]; auto.
    destruct (feqb F v zero) eqn:E; simpl; auto. apply eqb_spec in E. auto.
  Qed.

  Lemma map_val_treemap (g : T -> T) (m : smap T) N :
    keys_sorted m -> Forall (fun e => fst e < N) m ->
    keys_sorted (tuples_to_treemap (map (fun e => (fst e, g (snd e))) m)) /\
    Forall (fun e => fst e < N) (tuples_to_treemap (map (fun e => (fst e, g (snd e))) m)) /\
    forall i, m_get i (tuples_to_treemap (map (fun e => (fst e, g (snd e))) m)) =
              option_map g (m_get i m).
  Proof.
    intros Hs Hr. split; [apply tuples_to_treemap_sorted|]. split.
    - apply tuples_to_treemap_range. rewrite Forall_forall in *. intros e He.
      apply in_map_iff in He. destruct He as [e' [E He']]. subst e. simpl. auto.
    - intros i. rewrite tuples_to_treemap_get_nodup; [apply m_get_map_val|].
      rewrite map_val_keys. apply keys_sorted_NoDup; auto.
  Qed.

  Theorem s_add_spec (a b : smle T) :
    s_wf a -> s_wf b -> s_nv a = s_nv b ->
    exists r, s_add F a b = Ok r /\ s_wf r /\ s_nv r = s_nv a /\
      forall i, m_lookup F i (s_ev r) = add (m_lookup F i (s_ev a)) (m_lookup F i (s_ev b)).
  Proof.
    intros Ha Hb Hnv. unfold s_add.
    destruct (s_is_zero a) eqn:Za.
    { exists b. apply s_is_zero_true in Za. destruct Za as [_ Ea].
      repeat split; auto; try apply Hb. intros i. rewrite Ea, m_lookup_nil. ring. }
    destruct (s_is_zero b) eqn:Zb.
    { exists a. apply s_is_zero_true in Zb. destruct Zb as [_ Eb].
      repeat split; auto; try apply Ha. intros i. rewrite Eb, m_lookup_nil. ring. }
    rewrite <- Hnv, Nat.eqb_refl. eexists. split; [reflexivity|].
    destruct Ha as [Has Har], Hb as [Hbs Hbr].
    set (h := fold_left (fun h e => m_add_at F (fst e) (snd e) h) (s_ev a ++ s_ev b) []).
    assert (Hhs : keys_sorted h) by (apply (fold_add_at_sorted fst snd); simpl; auto).
    assert (Hhr : Forall (fun e => fst e < pow2 (s_nv a)) h).
    { apply (fold_add_at_range _ fst snd); [|constructor].
      apply Forall_app; split; auto. rewrite Hnv; auto. }
    split; [split; simpl|split; [reflexivity|]].
    - apply tuples_to_treemap_sorted.
    - apply tuples_to_treemap_range, Forall_filter, Hhr.
    - intros i. simpl.
      assert (Hnd : NoDup (map fst h)) by (apply keys_sorted_NoDup; auto).
      unfold m_lookup at 1. rewrite tuples_to_treemap_get_nodup by (apply filter_keys_NoDup; auto).
      change (m_lookup F i (filter (fun e => negb (feqb F (snd e) zero)) h) =
              add (m_lookup F i (s_ev a)) (m_lookup F i (s_ev b))).
      rewrite lookup_filter_nz by auto. unfold h.
      rewrite (fold_add_at_lookup fst snd), esum_app, m_lookup_nil.
      rewrite !esum_lookup by (apply keys_sorted_NoDup; auto). ring.
  Qed.

  Theorem s_add_panic (a b : smle T) :
    s_is_zero a = false -> s_is_zero b = false -> s_nv a <> s_nv b -> s_add F a b = Panic.
  Proof.
    intros Za Zb Hn. unfold s_add. rewrite Za, Zb.
    destruct (Nat.eqb_spec (s_nv b) (s_nv a)); [congruence|reflexivity].
  Qed.

  Theorem s_add_never_out_of_fuel (a b : smle T) : s_add F a b <> OutOfFuel.
  Proof.
    unfold s_add. destruct (s_is_zero a), (s_is_zero b), (Nat.eqb (s_nv b) (s_nv a)); discriminate.
  Qed.

  Theorem s_add_zero_l (b : smle T) : s_add F s_zero b = Ok b.
  Proof. reflexivity. Qed.

  Theorem s_add_zero_r (a : smle T) : s_add F a s_zero = Ok a.
  Proof.
    unfold s_add. destruct (s_is_zero a) eqn:Za; [|reflexivity].
    apply s_is_zero_true in Za. destruct a as [nv ev]; simpl in Za. destruct Za; subst. reflexivity.
  Qed.

  Theorem s_neg_spec (a : smle T) :
    s_wf a ->
    s_wf (s_neg F a) /\ s_nv (s_neg F a) = s_nv a /\
    forall i, m_lookup F i (s_ev (s_neg F a)) = neg (m_lookup F i (s_ev a)).
  Proof.
    intros [Hs Hr]. destruct (map_val_treemap neg (s_ev a) _ Hs Hr) as [H1 [H2 H3]].
    split; [split; simpl; auto|]. split; [reflexivity|].
    intros i. unfold m_lookup, s_neg. simpl. rewrite H3.
    destruct (m_get i (s_ev a)); simpl; [reflexivity|ring].
  Qed.

  Theorem s_sub_spec (a b : smle T) :
    s_wf a -> s_wf b -> s_nv a = s_nv b ->
    exists r, s_sub F a b = Ok r /\ s_wf r /\ s_nv r = s_nv a /\
      forall i, m_lookup F i (s_ev r) = sub (m_lookup F i (s_ev a)) (m_lookup F i (s_ev b)).
  Proof.
    intros Ha Hb Hnv. destruct (s_neg_spec b Hb) as [Hw [Hn Hl]].
    destruct (s_add_spec a (s_neg F b) Ha Hw) as [r [E [Hrw [Hrn Hrl]]]]; [rewrite Hn; auto|].
    exists r. unfold s_sub. repeat split; auto; try apply Hrw.
    intros i. rewrite Hrl, Hl. ring.
  Qed.

  Theorem s_add_scaled_spec (a : smle T) (f : T) (b : smle T) :
    s_wf a -> s_wf b -> s_nv a = s_nv b ->
    exists r, s_add_scaled F a f b = Ok r /\ s_wf r /\ s_nv r = s_nv a /\
      forall i, m_lookup F i (s_ev r) = add (m_lookup F i (s_ev a)) (mul f (m_lookup F i (s_ev b))).
  Proof.
    intros Ha [Hbs Hbr] Hnv. unfold s_add_scaled.
    rewrite <- Hnv, Nat.eqb_refl. simpl negb. rewrite andb_false_r.
    destruct (map_val_treemap (mul f) (s_ev b) _ Hbs Hbr) as [H1 [H2 H3]].
    set (b' := mkS (s_nv a) _).
    assert (Hw : s_wf b') by (split; simpl; auto; rewrite Hnv; auto).
    destruct (s_add_spec a b' Ha Hw eq_refl) as [r [E [Hrw [Hrn Hrl]]]].
    exists r. repeat split; auto; try apply Hrw.
    intros i. rewrite Hrl. f_equal. unfold b', m_lookup. simpl. rewrite H3.
    destruct (m_get i (s_ev b)); simpl; [reflexivity|ring].
  Qed.

  Theorem s_add_scaled_panic (a : smle T) (f : T) (b : smle T) :
    s_is_zero a = false -> s_is_zero b = false -> s_nv a <> s_nv b ->
    s_add_scaled F a f b = Panic.
  Proof.
    intros Za Zb Hn. unfold s_add_scaled. rewrite Za, Zb.
    destruct (Nat.eqb_spec (s_nv b) (s_nv a)); [congruence|reflexivity].
  Qed.

  (* ------------------------------------------------------------------ *)
  (* 8. relabel, generic in the key map                                  *)
  (* ------------------------------------------------------------------ *)

  Lemma m_get_map_keys (f : nat -> nat) N (m : smap T) i :
    (forall j, j < N -> f (f j) = j) ->
    Forall (fun e => fst e < N) m -> i < N ->
    m_get i (map (fun e => (f (fst e), snd e)) m) = m_get (f i) m.
  Proof.
    intros Hinv Hr Hi. induction m as [|[k v] m IH]; simpl; auto.
    inversion Hr as [|e l He Hl]; subst. simpl in He. rewrite IH by auto.
    destruct (Nat.eqb_spec i (f k)) as [E|E]; destruct (Nat.eqb_spec (f i) k) as [E'|E']; auto.
    - exfalso. apply E'. rewrite E. apply Hinv; auto.
    - exfalso. apply E. rewrite <- E'. symmetry. apply Hinv; auto.
  Qed.

  Lemma map_keys_NoDup (f : nat -> nat) N (m : smap T) :
    (forall j, j < N -> f (f j) = j) ->
    Forall (fun e => fst e < N) m -> NoDup (map fst m) ->
    NoDup (map fst (map (fun e => (f (fst e), snd e)) m)).
  Proof.
    intros Hinv. induction m as [|[k v] m IH]; simpl; intros Hr Hnd; [constructor|].
    inversion Hr as [|e l He Hl]; subst. inversion Hnd as [|x l Hx Hl']; subst. simpl in He.
    constructor; auto. intros Hin. apply Hx.
    rewrite map_map in Hin. apply in_map_iff in Hin. destruct Hin as [e [Ee Hin]]. simpl in Ee.
    rewrite Forall_forall in Hl. specialize (Hl e Hin).
    assert (fst e = k) by (rewrite <- (Hinv (fst e)), <- (Hinv k) by auto; congruence).
    subst k. apply in_map; auto.
  Qed.

  (* re-keying a sorted map through an involution of [0, N) *)
  Theorem treemap_map_keys_range (f : nat -> nat) N (m : smap T) i :
    (forall j, j < N -> f (f j) = j) ->
    keys_sorted m -> Forall (fun e => fst e < N) m -> i < N ->
    m_lookup F i (tuples_to_treemap (map (fun e => (f (fst e), snd e)) m)) = m_lookup F (f i) m.
  Proof.
    intros Hinv Hs Hr Hi. unfold m_lookup.
    rewrite tuples_to_treemap_get_nodup
      by (eapply map_keys_NoDup; eauto; apply keys_sorted_NoDup; auto).
    rewrite (m_get_map_keys f N); auto.
  Qed.

  (* the same for a global involution: no range condition at all *)
  Theorem treemap_map_keys (f : nat -> nat) (m : smap T) i :
    (forall j, f (f j) = j) -> keys_sorted m ->
    m_lookup F i (tuples_to_treemap (map (fun e => (f (fst e), snd e)) m)) = m_lookup F (f i) m.
  Proof.
    intros Hinv Hs. destruct (keys_bounded m) as [N HN].
    apply (treemap_map_keys_range f (N + S i)); auto; [|lia].
    eapply Forall_impl; [|exact HN]. simpl; intros; lia.
  Qed.

  Lemma swap_bits_same x a n : swap_bits x a a n = x.
  Proof.
    unfold swap_bits. rewrite Z.lxor_nilpotent, Z.shiftl_0_l. simpl. apply Z.lxor_0_r.
  Qed.
  Lemma swap_bits_k0 x a b : swap_bits x a b 0 = x.
  Proof.
    unfold swap_bits. change (Z.ones 0) with 0%Z. rewrite !Z.land_0_r.
    simpl. rewrite !Z.shiftl_0_l. simpl. apply Z.lxor_0_r.
  Qed.
  Lemma swap_bits_nat_same i a k : swap_bits_nat i a a k = i.
  Proof. unfold swap_bits_nat. rewrite swap_bits_same. apply Nat2Z.id. Qed.
  Lemma swap_bits_nat_k0 i a b : swap_bits_nat i a b 0 = i.
  Proof. unfold swap_bits_nat. simpl Z.of_nat. rewrite swap_bits_k0. apply Nat2Z.id. Qed.

  (* The two premises (the swap is an involution of [0, 2^nv) for these arguments) are
     facts about swap_bits alone; they are proved in C17/DenseProofs.v. *)
  Theorem s_relabel_spec (p : smle T) (a b k : nat) (q : smle T) :
    s_wf p ->
    (forall i, i < pow2 (s_nv p) ->
       swap_bits_nat (swap_bits_nat i (Nat.min a b) (Nat.max a b) k) (Nat.min a b) (Nat.max a b) k = i) ->
    (forall i, i < pow2 (s_nv p) ->
       swap_bits_nat i (Nat.min a b) (Nat.max a b) k < pow2 (s_nv p)) ->
    s_relabel p a b k = Ok q ->
    s_wf q /\ s_nv q = s_nv p /\
    forall i, i < pow2 (s_nv p) ->
      m_lookup F i (s_ev q) = m_lookup F (swap_bits_nat i (Nat.min a b) (Nat.max a b) k) (s_ev p).
  Proof.
    intros [Hs Hr] Hinv Hrange. unfold s_relabel.
    assert (Ea : (if Nat.ltb b a then b else a) = Nat.min a b)
      by (destruct (Nat.ltb_spec b a); lia).
    assert (Eb : (if Nat.ltb b a then a else b) = Nat.max a b)
      by (destruct (Nat.ltb_spec b a); lia).
    rewrite Ea, Eb. set (a' := Nat.min a b) in *. set (b' := Nat.max a b) in *.
    destruct (negb _); [discriminate|].
    destruct (Nat.eqb a' b' || Nat.eqb k 0) eqn:E0.
    { intros H; inversion H; subst; clear H. split; [split; auto|]. split; [reflexivity|].
      intros i Hi. apply orb_true_iff in E0. destruct E0 as [E0|E0]; apply Nat.eqb_eq in E0.
      - rewrite <- E0, swap_bits_nat_same. reflexivity.
      - rewrite E0, swap_bits_nat_k0. reflexivity. }
    destruct (negb _); [discriminate|].
    intros H; inversion H; subst; clear H. simpl.
    split; [split; simpl|split; [reflexivity|]].
    - apply tuples_to_treemap_sorted.
    - apply tuples_to_treemap_range. rewrite Forall_forall in *. intros e He.
      apply in_map_iff in He. destruct He as [e' [E He']]. subst e. simpl. auto.
    - intros i Hi.
      apply (treemap_map_keys_range (fun j => swap_bits_nat j a' b' k) (pow2 (s_nv p))); auto.
  Qed.

  Theorem s_relabel_panic_range (p : smle T) (a b k : nat) :
    s_nv p < Nat.max a b + k -> s_relabel p a b k = Panic.
  Proof.
    intros H. unfold s_relabel.
    assert (Eb : (if Nat.ltb b a then a else b) = Nat.max a b)
      by (destruct (Nat.ltb_spec b a); lia).
    rewrite Eb. destruct (Nat.leb_spec (Nat.max a b + k) (s_nv p)); [lia|].
    rewrite andb_false_r. reflexivity.
  Qed.

  Theorem s_relabel_panic_overlap (p : smle T) (a b k : nat) :
    Nat.max a b + k <= s_nv p -> a <> b -> k <> 0 -> Nat.max a b < Nat.min a b + k ->
    s_relabel p a b k = Panic.
  Proof.
    intros H1 H2 H3 H4. unfold s_relabel.
    assert (Ea : (if Nat.ltb b a then b else a) = Nat.min a b)
      by (destruct (Nat.ltb_spec b a); lia).
    assert (Eb : (if Nat.ltb b a then a else b) = Nat.max a b)
      by (destruct (Nat.ltb_spec b a); lia).
    rewrite Ea, Eb.
    destruct (Nat.leb_spec (Nat.min a b + k) (s_nv p)); [|lia].
    destruct (Nat.leb_spec (Nat.max a b + k) (s_nv p)); [|lia]. simpl.
    destruct (Nat.eqb_spec (Nat.min a b) (Nat.max a b)); [lia|].
    destruct (Nat.eqb_spec k 0); [lia|]. simpl.
    destruct (Nat.leb_spec (Nat.min a b + k) (Nat.max a b)); [lia|reflexivity].
  Qed.

  (* ------------------------------------------------------------------ *)
  (* 9. corollaries linking the statements                               *)
  (* ------------------------------------------------------------------ *)

  Lemma hsum_ext (t t' : nat -> T) (x : list T) :
    (forall b, b < pow2 (length x) -> t b = t' b) -> hsum F t x = hsum F t' x.
  Proof. intros H. unfold hsum. apply sumf_ext. intros b Hb. rewrite H; auto. Qed.

  Theorem s_eval_spec_stab (p : smle T) (x : list T) :
    s_wf p -> length x = s_nv p -> s_eval F p x = Ok (hsum F (stab F p) x).
  Proof. apply s_eval_spec. Qed.

  (* evaluate(p, x) is the hypercube sum over the dense table produced by to_evaluations *)
  Theorem s_eval_dense_table (p : smle T) (x : list T) :
    s_wf p -> length x = s_nv p ->
    s_eval F p x = Ok (hsum F (tab F (mkD (s_nv p) (s_to_evaluations F p))) x).
  Proof.
    intros Hw Hx. rewrite s_eval_spec by auto. f_equal. apply hsum_ext. intros b Hb.
    unfold tab. simpl. destruct (s_to_evaluations_spec p Hw) as [_ Hn].
    rewrite Hn; [reflexivity|]. rewrite <- Hx. exact Hb.
  Qed.

End SparseProofs.
