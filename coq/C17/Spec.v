(* C17 specification-level definitions (no proofs): finite sums, the equality polynomial,
   the sum over the Boolean hypercube, well-formedness predicates.  These are the
   implementation-independent notions the theorems compare the models against. *)
From V Require Import Base.Field C17.Mle C17.SparseMle C17.MvPoly.

Section Spec.
  Context {T : Type} (F : Fops T).
  Local Notation zero := (f0 F).
  Local Notation one := (f1 F).
  Local Notation add := (fadd F).
  Local Notation sub := (fsub F).
  Local Notation mul := (fmul F).

  (* sum_{i < n} f i *)
  Fixpoint sumf (f : nat -> T) (n : nat) : T :=
    match n with O => zero | S n' => add (sumf f n') (f n') end.

  (* eq(b, x) = prod_i (if bit i of b then x_i else 1 - x_i), b read little-endian *)
  Fixpoint eqpoly (b : nat) (x : list T) : T :=
    match x with
    | [] => one
    | r :: x' => mul (if Nat.odd b then r else sub one r) (eqpoly (Nat.div2 b) x')
    end.

  (* sum over the hypercube {0,1}^|x| of t(b) * eq(b, x) *)
  Definition hsum (t : nat -> T) (x : list T) : T :=
    sumf (fun b => mul (t b) (eqpoly b x)) (pow2 (length x)).

  (* the table of a dense MLE as a function of the index *)
  Definition tab (p : dmle T) (i : nat) : T := nth i (d_ev p) zero.
  Definition d_wf (p : dmle T) : Prop := length (d_ev p) = pow2 (d_nv p).

  (* sparse: keys strictly increasing and in range *)
  Fixpoint keys_sorted (m : smap T) : Prop :=
    match m with
    | [] => True
    | (k, _) :: m' => match m' with [] => True | (k', _) :: _ => (k < k')%nat end /\ keys_sorted m'
    end.
  Definition s_wf (p : smle T) : Prop :=
    keys_sorted (s_ev p) /\ Forall (fun e => (fst e < pow2 (s_nv p))%nat) (s_ev p).
  Definition stab (p : smle T) (i : nat) : T := m_lookup F i (s_ev p).

  (* x^n by repeated multiplication (specification-level power) *)
  Fixpoint pown (x : T) (n : nat) : T :=
    match n with O => one | S n' => mul x (pown x n') end.
  (* value of a raw (unnormalised) monomial and of a raw term list *)
  Definition raw_term_val (raw : term) (x : list T) : T :=
    fold_right (fun vp acc => mul (pown (nth (fst vp) x zero) (Z.to_nat (snd vp))) acc) one raw.
  Definition terms_val (ts : list (T * term)) (x : list T) : T :=
    fold_right (fun ct acc => add (mul (fst ct) (raw_term_val (snd ct) x)) acc) zero ts.

  (* canonical term: variables strictly increasing, powers positive *)
  Fixpoint term_canon (t : term) : Prop :=
    match t with
    | [] => True
    | (v, p) :: t' => 0 < p /\ match t' with [] => True | (v', _) :: _ => (v < v')%nat end /\ term_canon t'
    end.
  (* canonical polynomial: terms canonical, strictly increasing in the term order, no zero coefficient *)
  Fixpoint terms_sorted (l : mterms T) : Prop :=
    match l with
    | [] => True
    | (_, t) :: l' => match l' with [] => True | (_, t') :: _ => t_cmp t t' = Lt end /\ terms_sorted l'
    end.
  Definition p_canon (q : mvpoly T) : Prop :=
    terms_sorted (p_terms q) /\ Forall (fun ct => term_canon (snd ct) /\ fst ct <> zero) (p_terms q).
End Spec.
