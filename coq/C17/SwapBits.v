(* C17 proofs: bit-level specification of mod.rs `swap_bits` (windows exchanged, all other
   bits kept), involution, range preservation.  Pure integer reasoning via Z.testbit. *)
From V Require Import Base.Field C17.Mle.
Require Import Lia ZArith Bool.
Local Open Scope Z_scope.

(* where bit i of the result comes from *)
Definition sigma (a b n i : Z) : Z :=
  if (a <=? i) && (i <? a + n) then i - a + b
  else if (b <=? i) && (i <? b + n) then i - b + a
  else i.

Lemma window_bits : forall x a n j, 0 <= a -> 0 <= n ->
  Z.testbit (Z.land (Z.shiftr x a) (Z.ones n)) j =
  if (0 <=? j) && (j <? n) then Z.testbit x (j + a) else false.
Proof.
  intros x a n j Ha Hn. destruct (Z.leb_spec 0 j) as [Hj|Hj]; cbn [andb].
  - rewrite Z.land_spec, Z.shiftr_spec, Z.testbit_ones_nonneg by lia.
    destruct (Z.ltb_spec j n); [apply andb_true_r | apply andb_false_r].
  - apply Z.testbit_neg_r. lia.
Qed.

Theorem swap_bits_testbit : forall x a b n i, 0 <= a -> 0 <= n -> a + n <= b -> 0 <= i ->
  Z.testbit (swap_bits x a b n) i = Z.testbit x (sigma a b n i).
Proof.
  intros x a b n i Ha Hn Hab Hi. unfold swap_bits, sigma.
  rewrite Z.lxor_spec, Z.lor_spec, !Z.shiftl_spec, !Z.lxor_spec, !window_bits by lia.
  destruct (Z.leb_spec a i); destruct (Z.ltb_spec i (a + n)); destruct (Z.leb_spec b i);
    destruct (Z.ltb_spec i (b + n)); destruct (Z.leb_spec 0 (i - a)); destruct (Z.ltb_spec (i - a) n);
    destruct (Z.leb_spec 0 (i - b)); destruct (Z.ltb_spec (i - b) n); cbn [andb]; try lia;
    replace (i - a + a) with i by lia; replace (i - b + b) with i by lia;
    repeat match goal with |- context [Z.testbit x ?k] => destruct (Z.testbit x k) end; reflexivity.
Qed.

Ltac zb := repeat (match goal with
                   | |- context [Z.leb ?a ?b] => destruct (Z.leb_spec a b)
                   | |- context [Z.ltb ?a ?b] => destruct (Z.ltb_spec a b)
                   end; cbn [andb]); try lia.

Lemma sigma_nonneg : forall a b n i, 0 <= a -> 0 <= n -> a + n <= b -> 0 <= i -> 0 <= sigma a b n i.
Proof. intros a b n i Ha Hn Hab Hi. unfold sigma. zb. Qed.
Lemma sigma_invol : forall a b n i, 0 <= a -> 0 <= n -> a + n <= b -> sigma a b n (sigma a b n i) = i.
Proof. intros a b n i Ha Hn Hab. unfold sigma at 2. zb; unfold sigma; zb. Qed.

(* swap_bits is an involution *)
Theorem swap_bits_invol : forall x a b n, 0 <= a -> 0 <= n -> a + n <= b ->
  swap_bits (swap_bits x a b n) a b n = x.
Proof.
  intros x a b n Ha Hn Hab. apply Z.bits_inj'. intros i Hi.
  rewrite !swap_bits_testbit by (try apply sigma_nonneg; lia).
  rewrite sigma_invol by lia. reflexivity.
Qed.

Lemma swap_bits_nonneg : forall x a b n, 0 <= x -> 0 <= n -> 0 <= swap_bits x a b n.
Proof.
  intros x a b n Hx Hn. unfold swap_bits.
  assert (H1 : 0 <= Z.ones n) by (rewrite Z.ones_equiv; assert (0 < 2 ^ n) by (apply Z.pow_pos_nonneg; lia); lia).
  apply Z.lxor_nonneg. split; intros _; [|exact Hx].
  apply Z.lor_nonneg. split; apply Z.shiftl_nonneg; apply Z.lxor_nonneg;
    split; intros _; apply Z.land_nonneg; right; exact H1.
Qed.

Lemma testbit_above : forall x N l, 0 <= x < 2 ^ N -> N <= l -> Z.testbit x l = false.
Proof.
  intros x N l [H0 H1] Hl. destruct (Z.eq_dec x 0) as [->|Hx]; [apply Z.bits_0|].
  assert (0 <= N) by (destruct (Z.le_gt_cases 0 N); auto; rewrite Z.pow_neg_r in H1; lia).
  apply Z.bits_above_log2; [lia|]. assert (Z.log2 x < N) by (apply Z.log2_lt_pow2; lia). lia.
Qed.
Lemma lt_pow2_of_bits : forall y N, 0 <= y -> 0 <= N ->
  (forall l, N <= l -> Z.testbit y l = false) -> y < 2 ^ N.
Proof.
  intros y N Hy HN H. destruct (Z.lt_ge_cases y (2 ^ N)) as [|Hge]; [assumption|].
  assert (Hpos : 0 < y) by (assert (0 < 2 ^ N) by (apply Z.pow_pos_nonneg; lia); lia).
  assert (Hl : N <= Z.log2 y) by (apply Z.log2_le_pow2; lia).
  pose proof (Z.bit_log2 y Hpos) as Hb. rewrite (H _ Hl) in Hb. discriminate.
Qed.

(* indices stay inside the table when the upper window ends at or below the top variable *)
Theorem swap_bits_range : forall x a b n N, 0 <= a -> 0 <= n -> a + n <= b -> b + n <= N ->
  0 <= x < 2 ^ N -> 0 <= swap_bits x a b n < 2 ^ N.
Proof.
  intros x a b n N Ha Hn Hab HN Hx. split; [apply swap_bits_nonneg; lia|].
  apply lt_pow2_of_bits; [apply swap_bits_nonneg; lia | lia |].
  intros l Hl. rewrite swap_bits_testbit by lia.
  assert (Hs : sigma a b n l = l).
  { unfold sigma. zb. }
  rewrite Hs. apply (testbit_above x N); assumption.
Qed.

(* the versions on nat indices used by the models *)
Lemma pow2_Z : forall n, Z.of_nat (pow2 n) = 2 ^ Z.of_nat n.
Proof. intros n. unfold pow2. rewrite Nat2Z.inj_pow. reflexivity. Qed.

Theorem swap_bits_nat_invol : forall i a b k, (a + k <= b)%nat ->
  swap_bits_nat (swap_bits_nat i a b k) a b k = i.
Proof.
  intros i a b k H. unfold swap_bits_nat.
  rewrite Z2Nat.id by (apply swap_bits_nonneg; lia).
  rewrite swap_bits_invol by lia. apply Nat2Z.id.
Qed.
Theorem swap_bits_nat_range : forall i a b k n, (a + k <= b)%nat -> (b + k <= n)%nat ->
  (i < pow2 n)%nat -> (swap_bits_nat i a b k < pow2 n)%nat.
Proof.
  intros i a b k n H1 H2 Hi. unfold swap_bits_nat.
  pose proof (swap_bits_range (Z.of_nat i) (Z.of_nat a) (Z.of_nat b) (Z.of_nat k) (Z.of_nat n)) as R.
  rewrite <- pow2_Z in R. lia.
Qed.
