(* C18 model: codec combinators mirroring serialize/src/impls.rs, serialize/src/serde.rs
   (mode-pinning wrappers) and the serialize-derive expansion.

   A Rust type is described by a descriptor [ty]; a Rust value by a generic tree [value].
   The three trait methods are three functions defined by recursion on the descriptor:
     enc  c t x      = bytes written by  x.serialize_with_mode(_, c)
     size c t x      = x.serialized_size(c)
     dec  c vl t bs  = T::deserialize_with_mode(&bs[..], c, vl)   (value + unread rest)
     check t x       = Valid::check(&x)   (batch_check = all check)
   Bytes are integers 0..255; [c] = Compress::Yes, [vl] = Validate::Yes.
   No proofs in this file. *)
From V Require Import Base.Word.

(* ---------- outcomes ---------- *)
Inductive outcome (A : Type) : Type :=
| Ok (a : A)
| Err (kind : Z)      (* SerializationError *)
| Panic (why : Z).    (* would-be panic / non-termination of the modelled loop *)
Arguments Ok {A}. Arguments Err {A}. Arguments Panic {A}.

Definition EIO : Z := 0.            (* SerializationError::IoError (UnexpectedEof) *)
Definition EINVALID : Z := 1.       (* SerializationError::InvalidData *)
Definition OutOfFuel : Z := 0.      (* the only [Panic] the model can produce *)

Definition bind {A B : Type} (o : outcome A) (f : A -> outcome B) : outcome B :=
  match o with Ok a => f a | Err k => Err k | Panic w => Panic w end.

(* ---------- little-endian integers ---------- *)
Definition P8 (w : nat) : Z := 256 ^ Z.of_nat w.

(* to_le_bytes of a w-byte integer (two's complement falls out of floor div/mod) *)
Fixpoint le_bytes (w : nat) (z : Z) : list Z :=
  match w with O => [] | S w' => z mod 256 :: le_bytes w' (z / 256) end.

Fixpoint le_val (l : list Z) : Z :=
  match l with [] => 0 | b :: r => b + 256 * le_val r end.

(* read_exact of n bytes *)
Fixpoint take_n (n : nat) (bs : list Z) : option (list Z * list Z) :=
  match n with
  | O => Some ([], bs)
  | S n' => match bs with
            | [] => None
            | b :: r => match take_n n' r with
                        | Some (h, t) => Some (b :: h, t)
                        | None => None
                        end
            end
  end.

Definition read_uint (w : nat) (bs : list Z) : outcome (Z * list Z) :=
  match take_n w bs with
  | Some (h, t) => Ok (le_val h, t)
  | None => Err EIO
  end.

Definition to_signed (w : nat) (u : Z) : Z := if u <? P8 w / 2 then u else u - P8 w.

(* BigUint::to_bytes_le : minimal little-endian bytes, [0] for zero *)
Definition nbytes (z : Z) : Z := if z <=? 0 then 1 else Z.log2 z / 8 + 1.
Definition to_bytes_le (z : Z) : list Z := le_bytes (Z.to_nat (nbytes z)) z.

(* ---------- UTF-8 (RFC 3629 well-formed byte sequences, table 3-7 of Unicode) ---------- *)
Definition inr (lo hi b : Z) : bool := (lo <=? b) && (b <=? hi).
Definition cont (b : Z) : bool := inr 128 191 b.

Fixpoint utf8_valid (l : list Z) : bool :=
  match l with
  | [] => true
  | b0 :: r =>
    if inr 0 127 b0 then utf8_valid r
    else if inr 194 223 b0 then
      match r with b1 :: r' => cont b1 && utf8_valid r' | _ => false end
    else if b0 =? 224 then
      match r with b1 :: b2 :: r' => inr 160 191 b1 && cont b2 && utf8_valid r' | _ => false end
    else if inr 225 236 b0 || inr 238 239 b0 then
      match r with b1 :: b2 :: r' => cont b1 && cont b2 && utf8_valid r' | _ => false end
    else if b0 =? 237 then
      match r with b1 :: b2 :: r' => inr 128 159 b1 && cont b2 && utf8_valid r' | _ => false end
    else if b0 =? 240 then
      match r with b1 :: b2 :: b3 :: r' => inr 144 191 b1 && cont b2 && cont b3 && utf8_valid r' | _ => false end
    else if inr 241 243 b0 then
      match r with b1 :: b2 :: b3 :: r' => cont b1 && cont b2 && cont b3 && utf8_valid r' | _ => false end
    else if b0 =? 244 then
      match r with b1 :: b2 :: b3 :: r' => inr 128 143 b1 && cont b2 && cont b3 && utf8_valid r' | _ => false end
    else false
  end.

(* the specification side: Unicode scalar values and their (unique, shortest) encoding *)
Definition scalar (cp : Z) : Prop := (0 <= cp < 55296) \/ (57344 <= cp < 1114112).
Definition utf8_encode (cp : Z) : list Z :=
  if cp <? 128 then [cp]
  else if cp <? 2048 then [192 + cp / 64; 128 + cp mod 64]
  else if cp <? 65536 then [224 + cp / 4096; 128 + (cp / 64) mod 64; 128 + cp mod 64]
  else [240 + cp / 262144; 128 + (cp / 4096) mod 64; 128 + (cp / 64) mod 64; 128 + cp mod 64].

(* ---------- type descriptors and generic values ---------- *)
Inductive ty : Type :=
| TUInt (w : nat)                 (* u8 u16 u32 u64, usize (w = 8) *)
| TSInt (w : nat)                 (* i8 i16 i32 i64, isize (w = 8) *)
| TBool
| TUnit                           (* () and PhantomData<T> *)
| TEven                           (* harness leaf with a non-trivial Valid::check: a u8 that must be even *)
| TModal                          (* harness leaf whose encoding depends on Compress: u16 in 2 / 4 bytes *)
| TOption (t : ty)
| TPair (a b : ty)                (* tuples are right-nested pairs ending in TUnit: (A,B,C) = A*(B*(C*1)) *)
| TArray (n : nat) (t : ty)       (* [T; N], BigInt<N> = [u64; N] *)
| TSeq (t : ty)                   (* Vec, VecDeque, LinkedList, [T], &[T] *)
| TString
| TMap (k v : ty)                 (* BTreeMap *)
| TSet (k : ty)                   (* BTreeSet *)
| TBigUint
| TWrap (c vl : bool) (t : ty)    (* Compressed/Uncompressed x Checked/Unchecked *)
| TStruct (t : ty)                (* #[derive(CanonicalSerialize, CanonicalDeserialize)] struct; t = its fields as a tuple *)
| TLeaf (w : nat) (k : Z).        (* harness leaf with a hand-written Valid impl: a w-byte unsigned integer whose
                                     validity predicate is [leaf_ok k] (k = 0: even, e.g. Even32(u32); k = 1: < 200, Lt200(u8)) *)
(* Rc, Arc, Cow, &T, &mut T are transparent: same descriptor as T *)

Inductive value : Type :=
| VInt (z : Z)                    (* integers, bool as 0/1, BigUint *)
| VUnit
| VPair (a b : value)
| VNone
| VSome (v : value)
| VList (l : list value).         (* arrays, sequences, sets, strings (bytes), maps (list of VPair key value) *)

(* the validity predicates of the hand-written leaves *)
Definition leaf_ok (k z : Z) : bool :=
  if k =? 0 then Z.even z else if k =? 1 then z <? 200 else true.

Definition zsum (l : list Z) : Z := fold_right Z.add 0 l.
Definition zlen {A} (l : list A) : Z := Z.of_nat (length l).

(* bytes of a Vec<u8>/[u8]/String body held as a value list *)
Definition byte_of (v : value) : Z := match v with VInt b => b | _ => 0 end.

(* ---------- serialize_with_mode ---------- *)
Fixpoint enc (c : bool) (t : ty) (x : value) {struct t} : list Z :=
  match t with
  | TUInt w => match x with VInt z => le_bytes w z | _ => [] end
  | TSInt w => match x with VInt z => le_bytes w z | _ => [] end
  | TBool => match x with VInt z => [z] | _ => [] end
  | TUnit => []
  | TEven => match x with VInt z => [z] | _ => [] end
  | TModal => match x with VInt z => if c then le_bytes 2 z else le_bytes 4 z | _ => [] end
  | TOption t' => match x with
                  | VNone => [0]
                  | VSome y => 1 :: enc c t' y
                  | _ => []
                  end
  | TPair a b => match x with VPair y z => enc c a y ++ enc c b z | _ => [] end
  | TArray _ t' => match x with VList l => flat_map (enc c t') l | _ => [] end
  | TSeq t' => match x with
               | VList l => le_bytes 8 (zlen l) ++ flat_map (enc c t') l
               | _ => []
               end
  | TString => match x with
               | VList l => le_bytes 8 (zlen l) ++ map byte_of l
               | _ => []
               end
  | TMap k v => match x with
                | VList l => le_bytes 8 (zlen l) ++
                             flat_map (fun e => match e with
                                                | VPair a b => enc c k a ++ enc c v b
                                                | _ => []
                                                end) l
                | _ => []
                end
  | TSet k => match x with
              | VList l => le_bytes 8 (zlen l) ++ flat_map (enc c k) l
              | _ => []
              end
  | TBigUint => match x with
                | VInt z => let b := to_bytes_le z in le_bytes 8 (zlen b) ++ b
                | _ => []
                end
  | TWrap c' _ t' => enc c' t' x
  | TStruct t' => enc c t' x
  | TLeaf w _ => match x with VInt z => le_bytes w z | _ => [] end
  end.

(* ---------- serialized_size ---------- *)
Fixpoint size (c : bool) (t : ty) (x : value) {struct t} : Z :=
  match t with
  | TUInt w => Z.of_nat w
  | TSInt w => Z.of_nat w
  | TBool => 1
  | TUnit => 0
  | TEven => 1
  | TModal => if c then 2 else 4
  | TOption t' => match x with VSome y => 1 + size c t' y | _ => 1 end
  | TPair a b => match x with VPair y z => size c a y + size c b z | _ => 0 end
  | TArray _ t' => match x with VList l => zsum (map (size c t') l) | _ => 0 end
  | TSeq t' => match x with VList l => 8 + zsum (map (size c t') l) | _ => 0 end
  | TString => match x with VList l => 8 + zsum (map (fun _ => 1) l) | _ => 0 end
  | TMap k v => match x with
                | VList l => 8 + zsum (map (fun e => match e with
                                                     | VPair a b => size c k a + size c v b
                                                     | _ => 0
                                                     end) l)
                | _ => 0
                end
  | TSet k => match x with VList l => 8 + zsum (map (size c k) l) | _ => 0 end
  | TBigUint => match x with VInt z => 8 + zsum (map (fun _ => 1) (to_bytes_le z)) | _ => 0 end
  | TWrap c' _ t' => size c' t' x
  | TStruct t' => size c t' x
  | TLeaf w _ => Z.of_nat w
  end.

(* ---------- Valid::check ---------- *)
Fixpoint check (t : ty) (x : value) {struct t} : bool :=
  match t with
  | TEven => match x with VInt z => Z.even z | _ => true end
  | TOption t' => match x with VSome y => check t' y | _ => true end
  | TPair a b => match x with VPair y z => check a y && check b z | _ => true end
  | TArray _ t' => match x with VList l => forallb (check t') l | _ => true end
  | TSeq t' => match x with VList l => forallb (check t') l | _ => true end
  | TSet t' => match x with VList l => forallb (check t') l | _ => true end
  | TMap k v => match x with
                | VList l => forallb (fun e => match e with VPair a _ => check k a | _ => true end) l
                             && forallb (fun e => match e with VPair _ b => check v b | _ => true end) l
                | _ => true
                end
  | TWrap _ _ t' => check t' x
  | TStruct t' => check t' x
  | TLeaf _ k => match x with VInt z => leaf_ok k z | _ => true end
  | _ => true
  end.

(* the validity predicate of a type: structural (a container / struct is valid iff all its components are),
   non-trivial only at the leaves TEven / TLeaf.  It IS [check]: Valid::check of every impl in impls.rs,
   serde.rs and the derive expansion is the conjunction over the components. *)
Definition valid : ty -> value -> bool := check.

(* ---------- Ord of key types (BTreeMap / BTreeSet) ---------- *)
Section ListCmp.
  Context {A : Type} (cmp : A -> A -> comparison).
  Fixpoint list_cmp (a b : list A) : comparison :=
    match a, b with
    | [], [] => Eq
    | [], _ :: _ => Lt
    | _ :: _, [] => Gt
    | x :: a', y :: b' => match cmp x y with Eq => list_cmp a' b' | o => o end
    end.
End ListCmp.

Definition int_cmp (x y : value) : comparison :=
  match x, y with VInt a, VInt b => Z.compare a b | _, _ => Eq end.

Fixpoint kcmp (t : ty) (x y : value) {struct t} : comparison :=
  match t with
  | TUInt _ | TSInt _ | TBool | TEven | TModal | TBigUint | TLeaf _ _ => int_cmp x y
  | TUnit => Eq
  | TOption t' => match x, y with
                  | VNone, VNone => Eq
                  | VNone, VSome _ => Lt
                  | VSome _, VNone => Gt
                  | VSome a, VSome b => kcmp t' a b
                  | _, _ => Eq
                  end
  | TPair a b => match x, y with
                 | VPair x1 x2, VPair y1 y2 =>
                   match kcmp a x1 y1 with Eq => kcmp b x2 y2 | o => o end
                 | _, _ => Eq
                 end
  | TArray _ t' | TSeq t' | TSet t' =>
    match x, y with VList a, VList b => list_cmp (kcmp t') a b | _, _ => Eq end
  | TString => match x, y with VList a, VList b => list_cmp int_cmp a b | _, _ => Eq end
  | TMap k v =>
    match x, y with
    | VList a, VList b =>
      list_cmp (fun e f => match e, f with
                           | VPair a1 b1, VPair a2 b2 =>
                             match kcmp k a1 a2 with Eq => kcmp v b1 b2 | o => o end
                           | _, _ => Eq
                           end) a b
    | _, _ => Eq
    end
  | TWrap _ _ t' => kcmp t' x y
  | TStruct t' => kcmp t' x y
  end.

(* BTreeMap / BTreeSet built by collect(): sorted by key, a later equal key replaces an earlier one *)
Fixpoint map_insert (cmp : value -> value -> comparison) (k v : value) (m : list (value * value))
  : list (value * value) :=
  match m with
  | [] => [(k, v)]
  | (k', v') :: m' => match cmp k k' with
                      | Lt => (k, v) :: m
                      | Eq => (k, v) :: m'
                      | Gt => (k', v') :: map_insert cmp k v m'
                      end
  end.

Fixpoint set_insert (cmp : value -> value -> comparison) (k : value) (m : list value) : list value :=
  match m with
  | [] => [k]
  | k' :: m' => match cmp k k' with
                | Lt => k :: m
                | Eq => k :: m'
                | Gt => k' :: set_insert cmp k m'
                end
  end.

(* ---------- the element loops ---------- *)
Section Loops.
  Context {A : Type} (D : list Z -> outcome (A * list Z)).

  (* for _ in 0..N  with N a constant (arrays) *)
  Fixpoint dec_n (n : nat) (bs : list Z) : outcome (list A * list Z) :=
    match n with
    | O => Ok ([], bs)
    | S n' => match D bs with
              | Ok (x, r) => match dec_n n' r with
                             | Ok (xs, r') => Ok (x :: xs, r')
                             | Err k => Err k
                             | Panic w => Panic w
                             end
              | Err k => Err k
              | Panic w => Panic w
              end
    end.

  (* for _ in 0..len  with len read from the input: one unit of fuel per iteration *)
  Fixpoint dec_many (fuel : nat) (k : Z) (bs : list Z) : outcome (list A * list Z) :=
    if k <=? 0 then Ok ([], bs) else
    match fuel with
    | O => Panic OutOfFuel
    | S f => match D bs with
             | Ok (x, r) => match dec_many f (k - 1) r with
                            | Ok (xs, r') => Ok (x :: xs, r')
                            | Err e => Err e
                            | Panic w => Panic w
                            end
             | Err e => Err e
             | Panic w => Panic w
             end
    end.

  (* number of zero-byte elements the model is willing to iterate over (see NOTES: the Rust loop
     runs `len` times whatever the input length; with zero-sized encodings that is a hang) *)
  Definition ZST_BUDGET : nat := 4096.

  (* u64 length prefix, then the loop *)
  Definition dec_len_seq (bs : list Z) : outcome (list A * list Z) :=
    bind (read_uint 8 bs) (fun lr => dec_many (length (snd lr) + ZST_BUDGET) (fst lr) (snd lr)).
End Loops.

Definition dec_u8 (bs : list Z) : outcome (Z * list Z) := read_uint 1 bs.

Definition dec_bool (bs : list Z) : outcome (bool * list Z) :=
  bind (read_uint 1 bs) (fun ur =>
    if fst ur =? 0 then Ok (false, snd ur)
    else if fst ur =? 1 then Ok (true, snd ur)
    else Err EINVALID).

(* `if validate == Validate::Yes { T::batch_check(values.iter())? }` *)
Definition batch_checked (vl : bool) (t : ty) (lr : list value * list Z) : outcome (value * list Z) :=
  if vl && negb (forallb (check t) (fst lr)) then Err EINVALID else Ok (VList (fst lr), snd lr).

(* ---------- deserialize_with_mode ---------- *)
Fixpoint dec (c vl : bool) (t : ty) (bs : list Z) {struct t} : outcome (value * list Z) :=
  match t with
  | TUInt w => bind (read_uint w bs) (fun ur => Ok (VInt (fst ur), snd ur))
  | TSInt w => bind (read_uint w bs) (fun ur => Ok (VInt (to_signed w (fst ur)), snd ur))
  | TBool => bind (dec_bool bs) (fun br => Ok (VInt (Z.b2z (fst br)), snd br))
  | TUnit => Ok (VUnit, bs)
  | TEven => bind (read_uint 1 bs) (fun ur =>
               if vl && Z.odd (fst ur) then Err EINVALID else Ok (VInt (fst ur), snd ur))
  | TModal => if c then bind (read_uint 2 bs) (fun ur => Ok (VInt (fst ur), snd ur))
              else bind (read_uint 4 bs) (fun ur =>
                     if 65536 <=? fst ur then Err EINVALID else Ok (VInt (fst ur), snd ur))
  | TOption t' => bind (dec_bool bs) (fun br =>
                    if fst br then bind (dec c vl t' (snd br)) (fun yr => Ok (VSome (fst yr), snd yr))
                    else Ok (VNone, snd br))
  | TPair a b => bind (dec c vl a bs) (fun yr =>
                   bind (dec c vl b (snd yr)) (fun zr => Ok (VPair (fst yr) (fst zr), snd zr)))
  | TArray n t' => bind (dec_n (dec c false t') n bs) (batch_checked vl t')
  | TSeq t' => bind (dec_len_seq (dec c false t') bs) (batch_checked vl t')
  | TString => bind (dec_len_seq dec_u8 bs) (fun lr =>
                 if utf8_valid (fst lr) then Ok (VList (map VInt (fst lr)), snd lr) else Err EINVALID)
  | TMap k v =>
    bind (dec_len_seq (fun bs0 => bind (dec c vl k bs0) (fun ar =>
                                   bind (dec c vl v (snd ar)) (fun br => Ok ((fst ar, fst br), snd br)))) bs)
         (fun lr => Ok (VList (map (fun kv => VPair (fst kv) (snd kv))
                                   (fold_left (fun m kv => map_insert (kcmp k) (fst kv) (snd kv) m) (fst lr) [])),
                        snd lr))
  | TSet k =>
    bind (dec_len_seq (dec c vl k) bs)
         (fun lr => Ok (VList (fold_left (fun m x => set_insert (kcmp k) x m) (fst lr) []), snd lr))
  | TBigUint => bind (dec_len_seq dec_u8 bs) (fun lr => Ok (VInt (le_val (fst lr)), snd lr))
  | TWrap c' vl' t' => dec c' vl' t' bs
  | TStruct t' => dec c vl t' bs
  | TLeaf w k => bind (read_uint w bs) (fun ur =>
                   if vl && negb (leaf_ok k (fst ur)) then Err EINVALID else Ok (VInt (fst ur), snd ur))
  end.

(* ---------- side conditions used by the theorems ---------- *)
(* every encoding of the type is empty (the type is zero-sized on the wire) *)
Fixpoint zst (t : ty) : bool :=
  match t with
  | TUInt w => Nat.eqb w 0
  | TSInt w => Nat.eqb w 0
  | TUnit => true
  | TPair a b => zst a && zst b
  | TArray n t' => Nat.eqb n 0 || zst t'
  | TWrap _ _ t' => zst t'
  | TStruct t' => zst t'
  | TLeaf w _ => Nat.eqb w 0
  | _ => false
  end.

(* no length-prefixed container has zero-sized elements *)
Fixpoint ty_ok (t : ty) : bool :=
  match t with
  | TOption t' => ty_ok t'
  | TPair a b => ty_ok a && ty_ok b
  | TArray _ t' => ty_ok t'
  | TSeq t' => ty_ok t' && negb (zst t')
  | TMap k v => ty_ok k && ty_ok v && negb (zst k && zst v)
  | TSet k => ty_ok k && negb (zst k)
  | TWrap _ _ t' => ty_ok t'
  | TStruct t' => ty_ok t'
  | _ => true
  end.

Definition byte (b : Z) : Prop := 0 <= b < 256.

Definition entry_key (e : value) : value := match e with VPair a _ => a | _ => VUnit end.

(* keys strictly increasing, in the form the insertion loop uses it: later key > every earlier key *)
Inductive incr (cmp : value -> value -> comparison) : list value -> Prop :=
| incr_nil : incr cmp []
| incr_cons k l : Forall (fun k' => cmp k' k = Gt) l -> incr cmp l -> incr cmp (k :: l).

(* x is a value of the Rust type described by t *)
Fixpoint wt (t : ty) (x : value) {struct t} : Prop :=
  match t with
  | TUInt w => match x with VInt z => 0 <= z < P8 w | _ => False end
  | TSInt w => match x with VInt z => - (P8 w / 2) <= z < P8 w / 2 | _ => False end
  | TBool => match x with VInt z => z = 0 \/ z = 1 | _ => False end
  | TUnit => x = VUnit
  | TEven => match x with VInt z => 0 <= z < 256 | _ => False end
  | TModal => match x with VInt z => 0 <= z < 65536 | _ => False end
  | TOption t' => match x with VNone => True | VSome y => wt t' y | _ => False end
  | TPair a b => match x with VPair y z => wt a y /\ wt b z | _ => False end
  | TArray n t' => match x with VList l => Forall (wt t') l /\ length l = n | _ => False end
  | TSeq t' => match x with VList l => Forall (wt t') l /\ zlen l < W64 | _ => False end
  | TString => match x with
               | VList l => exists bs, l = map VInt bs /\ Forall byte bs /\ utf8_valid bs = true /\ zlen l < W64
               | _ => False
               end
  | TMap k v => match x with
                | VList l => Forall (fun e => match e with VPair a b => wt k a /\ wt v b | _ => False end) l
                             /\ incr (kcmp k) (map entry_key l) /\ zlen l < W64
                | _ => False
                end
  | TSet k => match x with
              | VList l => Forall (wt k) l /\ incr (kcmp k) l /\ zlen l < W64
              | _ => False
              end
  | TBigUint => match x with VInt z => 0 <= z /\ nbytes z < W64 | _ => False end
  | TWrap _ _ t' => wt t' x
  | TStruct t' => wt t' x
  | TLeaf w _ => match x with VInt z => 0 <= z < P8 w | _ => False end
  end.

(* the derive macros recurse through tuple *syntax* (impl_serialize_field / impl_valid_field /
   impl_deserialize_field) and emit one call per non-tuple leaf, in declaration order *)
Fixpoint leaves (t : ty) (x : value) {struct t} : list (ty * value) :=
  match t with
  | TUnit => []
  | TPair a b => match x with VPair y z => leaves a y ++ leaves b z | _ => [] end
  | _ => [(t, x)]
  end.

(* ---------- validation (Validate::Yes vs Validate::No) ---------- *)
(* every value of the type is valid and the decoder ignores `validate`: no TEven / TLeaf inside *)
Fixpoint vtriv (t : ty) : bool :=
  match t with
  | TEven | TLeaf _ _ => false
  | TOption t' | TArray _ t' | TSeq t' | TSet t' | TWrap _ _ t' | TStruct t' => vtriv t'
  | TPair a b | TMap a b => vtriv a && vtriv b
  | _ => true
  end.

(* no *Unchecked wrapper (which pins Validate::No whatever the caller asks) around a type with invalid values *)
Fixpoint checked (t : ty) : bool :=
  match t with
  | TOption t' | TArray _ t' | TSeq t' | TSet t' | TStruct t' => checked t'
  | TPair a b | TMap a b => checked a && checked b
  | TWrap _ vl' t' => if vl' then checked t' else vtriv t'
  | _ => true
  end.

(* [checked], and ordered maps / sets hold only trivially valid entries (collect() drops an entry whose key is
   repeated later in the input, so "the decoded map is valid" and "every decoded entry was valid" differ there) *)
Fixpoint exact_ty (t : ty) : bool :=
  match t with
  | TOption t' | TArray _ t' | TSeq t' | TStruct t' => exact_ty t'
  | TPair a b => exact_ty a && exact_ty b
  | TMap a b => vtriv a && vtriv b
  | TSet a => vtriv a
  | TWrap _ vl' t' => if vl' then exact_ty t' else vtriv t'
  | _ => true
  end.
