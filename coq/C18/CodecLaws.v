(* C18 proofs, part 2: strictness (bool bytes, option tags, UTF-8), mode pinning, derive flattening,
   extension lemma, truncation, zero-sized elements, ordered maps / sets. *)
From V Require Import Base.Word C18.Codec C18.CodecProofs.

(* ---------- strictness of bool bytes and option tags ---------- *)
Lemma dec_bool_strict b r : b <> 0 -> b <> 1 -> dec_bool (b :: r) = Err EINVALID.
Proof.
  intros H0 H1. unfold dec_bool, read_uint. cbn [take_n le_val bind fst snd].
  replace (b + 256 * 0) with b by lia.
  destruct (Z.eqb_spec b 0); [contradiction|]. destruct (Z.eqb_spec b 1); [contradiction|]. reflexivity.
Qed.

Lemma bool_strict c vl b r : b <> 0 -> b <> 1 -> dec c vl TBool (b :: r) = Err EINVALID.
Proof. intros. cbn [dec]. rewrite dec_bool_strict by assumption. reflexivity. Qed.

Lemma option_tag_strict c vl t b r : b <> 0 -> b <> 1 -> dec c vl (TOption t) (b :: r) = Err EINVALID.
Proof. intros. cbn [dec]. rewrite dec_bool_strict by assumption. reflexivity. Qed.

Lemma bool_values c vl bs x r : dec c vl TBool bs = Ok (x, r) ->
  exists b, bs = b :: r /\ (b = 0 \/ b = 1) /\ x = VInt b.
Proof.
  cbn [dec]. unfold dec_bool. intros H.
  destruct (read_uint 1 bs) as [[u r0]|k|w] eqn:E; cbn [bind fst snd] in H; try discriminate.
  apply read_uint_ok in E as (h & -> & Hl & ->).
  destruct h as [|b [|b' h]]; try discriminate. cbn [le_val] in H. replace (b + 256 * 0) with b in H by lia.
  destruct (Z.eqb_spec b 0); [inversion H; subst; exists 0; cbn; auto|].
  destruct (Z.eqb_spec b 1); [inversion H; subst; exists 1; cbn; auto|discriminate].
Qed.

(* ---------- mode-pinning wrappers ---------- *)
Lemma wrapper_pins_mode c vl c' vl' t x bs :
  enc c (TWrap c' vl' t) x = enc c' t x /\ size c (TWrap c' vl' t) x = size c' t x /\
  dec c vl (TWrap c' vl' t) bs = dec c' vl' t bs /\ check (TWrap c' vl' t) x = check t x.
Proof. repeat split. Qed.

Lemma zsum_app a b : zsum (a ++ b) = zsum a + zsum b.
Proof. induction a as [|x a IH]; cbn [app]; [reflexivity|]. change (zsum (x :: a ++ b)) with (x + zsum (a ++ b)). change (zsum (x :: a)) with (x + zsum a). lia. Qed.

(* ---------- derive: field-by-field in declaration order, nested tuples flattened ---------- *)
Lemma derive_fields : forall t c x, wt t x ->
  enc c (TStruct t) x = flat_map (fun f => enc c (fst f) (snd f)) (leaves t x) /\
  size c (TStruct t) x = zsum (map (fun f => size c (fst f) (snd f)) (leaves t x)) /\
  check (TStruct t) x = forallb (fun f => check (fst f) (snd f)) (leaves t x).
Proof.
  intros t c x. cbn [enc size check].
  assert (Hleaf : forall t0 x0, leaves t0 x0 = [(t0, x0)] ->
    enc c t0 x0 = flat_map (fun f => enc c (fst f) (snd f)) (leaves t0 x0) /\
    size c t0 x0 = zsum (map (fun f => size c (fst f) (snd f)) (leaves t0 x0)) /\
    check t0 x0 = forallb (fun f => check (fst f) (snd f)) (leaves t0 x0)).
  { intros t0 x0 ->. cbn [flat_map map zsum fold_right forallb fst snd].
    rewrite app_nil_r, Z.add_0_r, andb_true_r. repeat split. }
  induction t in x |- *; intros Hwt; cbn [wt] in Hwt; try (apply Hleaf; reflexivity).
  - (* TUnit *) cbn [leaves enc size check flat_map map zsum fold_right forallb]. repeat split.
  - (* TPair *) destruct x; try contradiction. destruct Hwt as [Ha Hb].
    destruct (IHt1 _ Ha) as (E1 & S1 & C1). destruct (IHt2 _ Hb) as (E2 & S2 & C2).
    cbn [leaves enc size check]. rewrite flat_map_app, map_app, forallb_app, zsum_app.
    rewrite <- E1, <- E2, <- S1, <- S2, <- C1, <- C2. repeat split.
Qed.

(* ---------- extension: a successful decode does not depend on what follows ---------- *)
Definition extends {A} (D : list Z -> outcome (A * list Z)) : Prop :=
  forall bs x r s, D bs = Ok (x, r) -> D (bs ++ s) = Ok (x, r ++ s).

Lemma take_n_ext n : forall bs h t s, take_n n bs = Some (h, t) -> take_n n (bs ++ s) = Some (h, t ++ s).
Proof.
  induction n as [|n IH]; intros bs h t s H; cbn [take_n] in *.
  - inversion H; subst. reflexivity.
  - destruct bs as [|b bs]; [discriminate|]. cbn [app].
    destruct (take_n n bs) as [[h' t']|] eqn:E; [|discriminate]. inversion H; subst.
    rewrite (IH _ _ _ s E). reflexivity.
Qed.

Lemma read_uint_ext w : extends (read_uint w).
Proof.
  intros bs x r s H. unfold read_uint in *. destruct (take_n w bs) as [[h t]|] eqn:E; [|discriminate].
  inversion H; subst. rewrite (take_n_ext _ _ _ _ s E). reflexivity.
Qed.

Lemma dec_bool_ext : extends dec_bool.
Proof.
  intros bs x r s H. unfold dec_bool in *.
  destruct (read_uint 1 bs) as [[u r0]|k|w] eqn:E; cbn [bind fst snd] in H; try discriminate.
  rewrite (read_uint_ext 1 _ _ _ s E). cbn [bind fst snd].
  destruct (u =? 0); [inversion H; subst; reflexivity|]. destruct (u =? 1); [inversion H; subst; reflexivity|discriminate].
Qed.

Lemma extends_bind {A B} (D : list Z -> outcome (A * list Z)) (f : A * list Z -> outcome (B * list Z)) :
  extends D ->
  (forall x r y r' s, f (x, r) = Ok (y, r') -> f (x, r ++ s) = Ok (y, r' ++ s)) ->
  extends (fun bs => bind (D bs) f).
Proof.
  intros HD Hf bs y r' s H. destruct (D bs) as [[x r]|k|w] eqn:E; cbn [bind] in H; try discriminate.
  rewrite (HD _ _ _ s E). cbn [bind]. apply Hf. exact H.
Qed.

Section LoopExt.
  Context {A : Type} (D : list Z -> outcome (A * list Z)) (HD : extends D).

  Lemma dec_n_ext n : extends (dec_n D n).
  Proof.
    induction n as [|n IH]; intros bs xs r s H; cbn [dec_n] in *.
    - inversion H; subst. reflexivity.
    - destruct (D bs) as [[x r0]|k|w] eqn:E; try discriminate. rewrite (HD _ _ _ s E).
      destruct (dec_n D n r0) as [[xs' r']|k|w] eqn:E'; try discriminate. inversion H; subst.
      rewrite (IH _ _ _ s E'). reflexivity.
  Qed.

  Lemma dec_many_ext f : forall f' k bs xs r s, (f <= f')%nat ->
    dec_many D f k bs = Ok (xs, r) -> dec_many D f' k (bs ++ s) = Ok (xs, r ++ s).
  Proof.
    induction f as [|f IH]; intros f' k bs xs r s Hf H.
    - cbn [dec_many] in H. destruct (k <=? 0) eqn:Ek; [|discriminate]. inversion H; subst.
      destruct f'; cbn [dec_many]; rewrite Ek; reflexivity.
    - destruct f' as [|f']; [lia|]. cbn [dec_many] in *. destruct (k <=? 0); [inversion H; subst; reflexivity|].
      destruct (D bs) as [[x r0]|e|w] eqn:E; try discriminate. rewrite (HD _ _ _ s E).
      destruct (dec_many D f (k - 1) r0) as [[xs' r']|e|w] eqn:E'; try discriminate. inversion H; subst.
      rewrite (IH f' _ _ _ _ s ltac:(lia) E'). reflexivity.
  Qed.

  Lemma dec_len_seq_ext : extends (dec_len_seq D).
  Proof.
    intros bs xs r s H. unfold dec_len_seq in *.
    destruct (read_uint 8 bs) as [[len r0]|k|w] eqn:E; cbn [bind fst snd] in H; try discriminate.
    rewrite (read_uint_ext 8 _ _ _ s E). cbn [bind fst snd].
    eapply dec_many_ext; [|exact H]. rewrite app_length. lia.
  Qed.
End LoopExt.

Lemma extends_ext {A} (D D' : list Z -> outcome (A * list Z)) :
  (forall bs, D bs = D' bs) -> extends D -> extends D'.
Proof. intros He H bs x r s. rewrite <- !He. apply H. Qed.

Lemma extends_pair {A B C} (Da : list Z -> outcome (A * list Z)) (Db : list Z -> outcome (B * list Z)) (g : A -> B -> C) :
  extends Da -> extends Db ->
  extends (fun bs => bind (Da bs) (fun ar => bind (Db (snd ar)) (fun br => Ok (g (fst ar) (fst br), snd br)))).
Proof.
  intros Ha Hb bs z r s H. destruct (Da bs) as [[x r0]|k|w] eqn:E; cbn [bind fst snd] in H; try discriminate.
  rewrite (Ha _ _ _ s E). cbn [bind fst snd].
  destruct (Db r0) as [[y r1]|k|w] eqn:E'; cbn [bind fst snd] in H; try discriminate.
  rewrite (Hb _ _ _ s E'). cbn [bind fst snd]. inversion H; subst. reflexivity.
Qed.

Ltac ok_inv H := inversion H; subst; reflexivity.

Theorem dec_extends : forall t c vl, extends (dec c vl t).
Proof.
  induction t; intros c0 vl0.
  - eapply extends_ext; [|apply (extends_bind (read_uint w) (fun ur => Ok (VInt (fst ur), snd ur)))];
      [reflexivity | apply read_uint_ext | intros x r y r' s H; cbn [fst snd] in *; ok_inv H].
  - eapply extends_ext; [|apply (extends_bind (read_uint w) (fun ur => Ok (VInt (to_signed w (fst ur)), snd ur)))];
      [reflexivity | apply read_uint_ext | intros x r y r' s H; cbn [fst snd] in *; ok_inv H].
  - eapply extends_ext; [|apply (extends_bind dec_bool (fun br => Ok (VInt (Z.b2z (fst br)), snd br)))];
      [reflexivity | apply dec_bool_ext | intros x r y r' s H; cbn [fst snd] in *; ok_inv H].
  - intros bs x r s H. cbn [dec] in *. ok_inv H.
  - eapply extends_ext; [|apply (extends_bind (read_uint 1)
        (fun ur => if vl0 && Z.odd (fst ur) then Err EINVALID else Ok (VInt (fst ur), snd ur)))];
      [reflexivity | apply read_uint_ext |].
    intros x r y r' s H; cbn [fst snd] in *. destruct (vl0 && Z.odd x); [discriminate|ok_inv H].
  - destruct c0.
    + eapply extends_ext; [|apply (extends_bind (read_uint 2) (fun ur => Ok (VInt (fst ur), snd ur)))];
        [reflexivity | apply read_uint_ext | intros x r y r' s H; cbn [fst snd] in *; ok_inv H].
    + eapply extends_ext; [|apply (extends_bind (read_uint 4)
          (fun ur => if 65536 <=? fst ur then Err EINVALID else Ok (VInt (fst ur), snd ur)))];
        [reflexivity | apply read_uint_ext |].
      intros x r y r' s H; cbn [fst snd] in *. destruct (65536 <=? x); [discriminate|ok_inv H].
  - (* TOption *) intros bs x r s H. cbn [dec] in *.
    destruct (dec_bool bs) as [[b r0]|k|w] eqn:E; cbn [bind fst snd] in H; try discriminate.
    rewrite (dec_bool_ext _ _ _ s E). cbn [bind fst snd]. destruct b; [|ok_inv H].
    destruct (dec c0 vl0 t r0) as [[y r1]|k|w] eqn:E'; cbn [bind fst snd] in H; try discriminate.
    rewrite (IHt c0 vl0 _ _ _ s E'). cbn [bind fst snd]. ok_inv H.
  - (* TPair *) eapply extends_ext; [|apply (extends_pair (dec c0 vl0 t1) (dec c0 vl0 t2) VPair); [apply IHt1|apply IHt2]].
    reflexivity.
  - (* TArray *) eapply extends_ext; [|apply (extends_bind (dec_n (dec c0 false t) n) (batch_checked vl0 t))];
      [reflexivity | apply dec_n_ext; apply IHt |].
    intros x r y r' s H. unfold batch_checked in *. cbn [fst snd] in *.
    destruct (vl0 && negb (forallb (check t) x)); [discriminate|ok_inv H].
  - (* TSeq *) eapply extends_ext; [|apply (extends_bind (dec_len_seq (dec c0 false t)) (batch_checked vl0 t))];
      [reflexivity | apply dec_len_seq_ext; apply IHt |].
    intros x r y r' s H. unfold batch_checked in *. cbn [fst snd] in *.
    destruct (vl0 && negb (forallb (check t) x)); [discriminate|ok_inv H].
  - (* TString *) eapply extends_ext; [|apply (extends_bind (dec_len_seq dec_u8)
        (fun lr => if utf8_valid (fst lr) then Ok (VList (map VInt (fst lr)), snd lr) else Err EINVALID))];
      [reflexivity | apply dec_len_seq_ext; apply read_uint_ext |].
    intros x r y r' s H. cbn [fst snd] in *. destruct (utf8_valid x); [ok_inv H|discriminate].
  - (* TMap *) eapply extends_ext; [|apply (extends_bind
        (dec_len_seq (fun bs0 => bind (dec c0 vl0 t1 bs0) (fun ar =>
                                   bind (dec c0 vl0 t2 (snd ar)) (fun br => Ok ((fst ar, fst br), snd br)))))
        (fun lr => Ok (VList (map (fun kv => VPair (fst kv) (snd kv))
                                   (fold_left (fun m kv => map_insert (kcmp t1) (fst kv) (snd kv) m) (fst lr) [])),
                        snd lr)))];
      [reflexivity | apply dec_len_seq_ext; apply (extends_pair _ _ pair); [apply IHt1|apply IHt2] |].
    intros x r y r' s H. cbn [fst snd] in *. ok_inv H.
  - (* TSet *) eapply extends_ext; [|apply (extends_bind (dec_len_seq (dec c0 vl0 t))
        (fun lr => Ok (VList (fold_left (fun m x => set_insert (kcmp t) x m) (fst lr) []), snd lr)))];
      [reflexivity | apply dec_len_seq_ext; apply IHt |].
    intros x r y r' s H. cbn [fst snd] in *. ok_inv H.
  - (* TBigUint *) eapply extends_ext; [|apply (extends_bind (dec_len_seq dec_u8)
        (fun lr => Ok (VInt (le_val (fst lr)), snd lr)))];
      [reflexivity | apply dec_len_seq_ext; apply read_uint_ext |].
    intros x r y r' s H. cbn [fst snd] in *. ok_inv H.
  - intros bs. cbn [dec]. apply IHt.
  - intros bs. cbn [dec]. apply IHt.
  - eapply extends_ext; [|apply (extends_bind (read_uint w)
        (fun ur => if vl0 && negb (leaf_ok k (fst ur)) then Err EINVALID else Ok (VInt (fst ur), snd ur)))];
      [reflexivity | apply read_uint_ext |].
    intros x r y r' s H; cbn [fst snd] in *. destruct (vl0 && negb (leaf_ok k x)); [discriminate|ok_inv H].
Qed.

(* ---------- truncation of a valid encoding is an error ---------- *)
Theorem truncation_is_err : forall t, ty_ok t = true -> forall c vl x p q,
  wt t x -> check t x = true -> enc c t x = p ++ q -> q <> [] ->
  exists k, dec c vl t p = Err k.
Proof.
  intros t Hok c vl x p q Hwt Hck He Hq.
  pose proof (dec_total t Hok c vl p) as Ht.
  destruct (dec c vl t p) as [[y r]|k|w] eqn:E; [|eauto|contradiction].
  exfalso. pose proof (dec_extends t c vl _ _ _ q E) as Hx.
  pose proof (roundtrip t Hok c vl x [] Hwt Hck) as Hr.
  rewrite app_nil_r, He, Hx in Hr. inversion Hr as [[Hy Hn]].
  apply app_eq_nil in Hn as [_ Hn]. contradiction.
Qed.

(* ---------- zero-sized elements: fine as long as the prefix is within the model's budget ---------- *)
Lemma zst_seq_small c vl n rest : (n <= ZST_BUDGET)%nat ->
  dec c vl (TSeq TUnit) (enc c (TSeq TUnit) (VList (repeat VUnit n)) ++ rest) = Ok (VList (repeat VUnit n), rest).
Proof.
  intros Hn. cbn [enc dec]. rewrite <- app_assoc.
  rewrite (dec_len_seq_rt (dec c false TUnit) (enc c TUnit)).
  - cbn [bind]. unfold batch_checked. cbn [fst snd].
    replace (forallb (check TUnit) (repeat VUnit n)) with true; [rewrite andb_false_r; reflexivity|].
    symmetry. apply forallb_forall. reflexivity.
  - intros x Hx r. apply repeat_spec in Hx. subst. reflexivity.
  - unfold zlen. rewrite repeat_length. unfold ZST_BUDGET in Hn. unfold W64. lia.
  - right. rewrite repeat_length. exact Hn.
Qed.

(* and beyond the input-independent budget the modelled loop does not finish *)
Lemma zst_seq_hang c vl : dec c vl (TSeq TUnit) (le_bytes 8 5000) = Panic OutOfFuel.
Proof. vm_compute. reflexivity. Qed.


(* ---------- String: only well-formed UTF-8 is ever returned; ill-formed bodies are InvalidData ---------- *)
Lemma string_strict c vl bs x r : dec c vl TString bs = Ok (x, r) ->
  exists l, x = VList (map VInt l) /\ utf8_valid l = true.
Proof.
  cbn [dec]. destruct (dec_len_seq dec_u8 bs) as [[l r0]|k|w]; cbn [bind fst snd]; try discriminate.
  destruct (utf8_valid l) eqn:E; [|discriminate]. intros H; inversion H; subst. eauto.
Qed.

Lemma string_invalid c vl body rest : utf8_valid body = false -> zlen body < W64 ->
  dec c vl TString (le_bytes 8 (zlen body) ++ body ++ rest) = Err EINVALID.
Proof.
  intros Hu Hl. cbn [dec].
  replace body with (flat_map (fun b : Z => [b]) body) at 2 by apply flat_map_single.
  rewrite (dec_len_seq_rt dec_u8 (fun b => [b])).
  - cbn [bind fst snd]. rewrite Hu. reflexivity.
  - intros; apply dec_u8_rt.
  - exact Hl.
  - left. apply flat_map_length_ge. intros; cbn; lia.
Qed.

(* ---------- ordered maps and sets (instances of the round trip, spelled out) ---------- *)
Lemma btreemap_roundtrip k v : ty_ok (TMap k v) = true -> forall c vl l rest,
  Forall (fun e => match e with VPair a b => wt k a /\ wt v b | _ => False end) l ->
  incr (kcmp k) (map entry_key l) -> zlen l < W64 -> check (TMap k v) (VList l) = true ->
  dec c vl (TMap k v) (enc c (TMap k v) (VList l) ++ rest) = Ok (VList l, rest).
Proof. intros Hok c vl l rest Hf Hi Hl Hc. apply roundtrip; auto. cbn [wt]. auto. Qed.

Lemma btreeset_roundtrip k : ty_ok (TSet k) = true -> forall c vl l rest,
  Forall (wt k) l -> incr (kcmp k) l -> zlen l < W64 -> check (TSet k) (VList l) = true ->
  dec c vl (TSet k) (enc c (TSet k) (VList l) ++ rest) = Ok (VList l, rest).
Proof. intros Hok c vl l rest Hf Hi Hl Hc. apply roundtrip; auto. cbn [wt]. auto. Qed.
