(* C18 proofs: the codec combinators are lawful, compositionally (induction on the descriptor).
   roundtrip, size_exact, dec_total and the lemmas they need. *)
From V Require Import Base.Word C18.Codec.
Require Import Coq.Sorting.Sorted.

Lemma P8_pos w : 0 < P8 w.
Proof. unfold P8. apply Z.pow_pos_nonneg; lia. Qed.
Lemma P8_S w : P8 (S w) = 256 * P8 w.
Proof. unfold P8. rewrite Nat2Z.inj_succ, Z.pow_succ_r by lia. reflexivity. Qed.

Lemma le_bytes_length w z : length (le_bytes w z) = w.
Proof. revert z; induction w as [|w IH]; intros z; cbn [le_bytes length]; auto. Qed.

Lemma le_val_le_bytes w z : le_val (le_bytes w z) = z mod P8 w.
Proof.
  revert z; induction w as [|w IH]; intros z; cbn [le_bytes le_val].
  - unfold P8. cbn. rewrite Z.mod_1_r. reflexivity.
  - rewrite IH, P8_S. pose proof (P8_pos w) as Hp.
    rewrite (Z.rem_mul_r z 256 (P8 w)) by lia. reflexivity.
Qed.

Lemma take_n_app h r : take_n (length h) (h ++ r) = Some (h, r).
Proof. induction h as [|b h IH]; cbn [take_n length app]; auto. rewrite IH. reflexivity. Qed.

Lemma take_n_some n : forall bs h t, take_n n bs = Some (h, t) -> bs = h ++ t /\ length h = n.
Proof.
  induction n as [|n IH]; intros bs h t H; cbn [take_n] in H.
  - inversion H; subst. auto.
  - destruct bs as [|b bs]; [discriminate|].
    destruct (take_n n bs) as [[h' t']|] eqn:E; [|discriminate].
    inversion H; subst. apply IH in E as [-> <-]. auto.
Qed.

Lemma read_uint_enc w z r : read_uint w (le_bytes w z ++ r) = Ok (z mod P8 w, r).
Proof.
  unfold read_uint. rewrite <- (le_bytes_length w z) at 1. rewrite take_n_app, le_val_le_bytes. reflexivity.
Qed.

Lemma read_uint_ok w bs u r : read_uint w bs = Ok (u, r) -> exists h, bs = h ++ r /\ length h = w /\ u = le_val h.
Proof.
  unfold read_uint. destruct (take_n w bs) as [[h t]|] eqn:E; [|discriminate].
  intros H; inversion H; subst. apply take_n_some in E as [-> <-]. eauto.
Qed.

Lemma read_uint_nopanic w bs why : read_uint w bs <> Panic why.
Proof. unfold read_uint. destruct (take_n w bs) as [[h t]|]; discriminate. Qed.

Lemma to_signed_mod w z : - (P8 w / 2) <= z < P8 w / 2 -> to_signed w (z mod P8 w) = z.
Proof.
  intros H. unfold to_signed. pose proof (P8_pos w) as Hp.
  assert (Hh : 2 * (P8 w / 2) <= P8 w) by (apply Z.mul_div_le; lia).
  destruct (Z_lt_le_dec z 0) as [Hn|Hn].
  - assert (Hm : z mod P8 w = z + P8 w).
    { symmetry. apply Z.mod_unique_pos with (q := -1); lia. }
    rewrite Hm. destruct (Z.ltb_spec (z + P8 w) (P8 w / 2)); lia.
  - rewrite Z.mod_small by lia. destruct (Z.ltb_spec z (P8 w / 2)); lia.
Qed.

Lemma zlen_app {A} (a b : list A) : zlen (a ++ b) = zlen a + zlen b.
Proof. unfold zlen. rewrite app_length. lia. Qed.
Lemma zlen_nonneg {A} (a : list A) : 0 <= zlen a.
Proof. unfold zlen. lia. Qed.

Lemma zlen_cons {A} (x : A) l : zlen (x :: l) = Z.succ (zlen l).
Proof. unfold zlen. cbn [length]. lia. Qed.

Lemma flat_map_length_ge {A} (E : A -> list Z) l :
  (forall x, In x l -> (1 <= length (E x))%nat) -> (length l <= length (flat_map E l))%nat.
Proof.
  induction l as [|x l IH]; intros H; cbn [flat_map length]; [lia|].
  rewrite app_length. pose proof (H x (or_introl eq_refl)).
  assert (length l <= length (flat_map E l))%nat by (apply IH; intros; apply H; right; auto). lia.
Qed.

Lemma zlen_flat_map {A} (E : A -> list Z) (f : A -> Z) l :
  (forall x, In x l -> zlen (E x) = f x) -> zlen (flat_map E l) = zsum (map f l).
Proof.
  induction l as [|x l IH]; intros H; cbn [flat_map map zsum fold_right]; [reflexivity|].
  rewrite zlen_app, H by (left; auto). f_equal. apply IH. intros; apply H; right; auto.
Qed.

(* ---------- loops: round trip ---------- *)
Section LoopRT.
  Context {A : Type} (D : list Z -> outcome (A * list Z)) (E : A -> list Z).

  Lemma dec_n_rt l rest :
    (forall x, In x l -> forall r, D (E x ++ r) = Ok (x, r)) ->
    dec_n D (length l) (flat_map E l ++ rest) = Ok (l, rest).
  Proof.
    induction l as [|x l IH]; intros H; cbn [length flat_map dec_n app]; [reflexivity|].
    rewrite <- app_assoc, H by (left; auto). rewrite IH by (intros; apply H; right; auto). reflexivity.
  Qed.

  Lemma dec_many_rt l rest fuel :
    (forall x, In x l -> forall r, D (E x ++ r) = Ok (x, r)) ->
    (length l <= fuel)%nat ->
    dec_many D fuel (zlen l) (flat_map E l ++ rest) = Ok (l, rest).
  Proof.
    revert fuel; induction l as [|x l IH]; intros fuel H Hf.
    - destruct fuel; reflexivity.
    - destruct fuel as [|f]; [cbn in Hf; lia|].
      cbn [dec_many]. rewrite zlen_cons.
      destruct (Z.leb_spec (Z.succ (zlen l)) 0) as [Hc|Hc]; [pose proof (zlen_nonneg l); lia|].
      cbn [flat_map]. rewrite <- app_assoc, H by (left; auto).
      replace (Z.succ (zlen l) - 1) with (zlen l) by lia.
      rewrite IH; [reflexivity| intros; apply H; right; auto | cbn in Hf; lia].
  Qed.

  Lemma dec_len_seq_rt l rest :
    (forall x, In x l -> forall r, D (E x ++ r) = Ok (x, r)) ->
    zlen l < W64 ->
    ((length l <= length (flat_map E l))%nat \/ (length l <= ZST_BUDGET)%nat) ->
    dec_len_seq D (le_bytes 8 (zlen l) ++ flat_map E l ++ rest) = Ok (l, rest).
  Proof.
    intros H Hl Hf. unfold dec_len_seq. rewrite read_uint_enc. cbn [bind fst snd].
    rewrite Z.mod_small by (pose proof (zlen_nonneg l); change (P8 8) with W64; lia).
    apply dec_many_rt; auto. rewrite app_length. lia.
  Qed.
End LoopRT.


Lemma dec_bool_0 r : dec_bool (0 :: r) = Ok (false, r).
Proof. reflexivity. Qed.
Lemma dec_bool_1 r : dec_bool (1 :: r) = Ok (true, r).
Proof. reflexivity. Qed.
Lemma dec_u8_rt b r : dec_u8 ([b] ++ r) = Ok (b, r).
Proof. unfold dec_u8, read_uint. cbn [app take_n le_val]. do 2 f_equal. lia. Qed.
Lemma flat_map_single (l : list Z) : flat_map (fun b => [b]) l = l.
Proof. induction l as [|b l IH]; cbn [flat_map app]; congruence. Qed.
Lemma map_byte_of_VInt bs : map byte_of (map VInt bs) = bs.
Proof. induction bs as [|b l IH]; cbn [map byte_of]; congruence. Qed.

Lemma nbytes_pos z : 1 <= nbytes z.
Proof.
  unfold nbytes. destruct (Z.leb_spec z 0); [lia|].
  pose proof (Z.log2_nonneg z). pose proof (Z.div_pos (Z.log2 z) 8). lia.
Qed.

Lemma nbytes_bound z : 0 <= z -> z < P8 (Z.to_nat (nbytes z)).
Proof.
  intros Hz. pose proof (nbytes_pos z) as Hn. unfold P8. rewrite Z2Nat.id by lia.
  unfold nbytes in *. destruct (Z.leb_spec z 0) as [H0|H0].
  - assert (z = 0) by lia. subst. reflexivity.
  - pose proof (Z.log2_spec z H0) as [_ Hl]. pose proof (Z.log2_nonneg z) as Hg.
    change 256 with (2 ^ 8). rewrite <- Z.pow_mul_r by lia.
    eapply Z.lt_le_trans; [exact Hl|]. apply Z.pow_le_mono_r; [lia|].
    pose proof (Z.mul_succ_div_gt (Z.log2 z) 8). lia.
Qed.

Lemma to_bytes_le_val z : 0 <= z -> le_val (to_bytes_le z) = z.
Proof.
  intros Hz. unfold to_bytes_le. rewrite le_val_le_bytes. apply Z.mod_small.
  pose proof (nbytes_bound z Hz). lia.
Qed.
Lemma to_bytes_le_len z : zlen (to_bytes_le z) = nbytes z.
Proof. unfold zlen, to_bytes_le. rewrite le_bytes_length, Z2Nat.id; [reflexivity|]. pose proof (nbytes_pos z). lia. Qed.

(* every non-zero-sized type writes at least one byte *)
Lemma enc_nonempty : forall t c x, zst t = false -> wt t x -> (1 <= length (enc c t x))%nat.
Proof.
  induction t; intros c0 x Hz Hwt; cbn [zst] in Hz; cbn [wt] in Hwt; cbn [enc].
  - destruct x; try contradiction. rewrite le_bytes_length. apply Nat.eqb_neq in Hz. lia.
  - destruct x; try contradiction. rewrite le_bytes_length. apply Nat.eqb_neq in Hz. lia.
  - destruct x; try contradiction. cbn [length]. lia.
  - discriminate.
  - destruct x; try contradiction. cbn [length]. lia.
  - destruct x; try contradiction. destruct c0; rewrite le_bytes_length; lia.
  - destruct x; try contradiction; cbn [length]; lia.
  - destruct x; try contradiction. destruct Hwt as [Ha Hb]. rewrite app_length.
    apply andb_false_iff in Hz as [Hz|Hz]; [specialize (IHt1 c0 x1 Hz Ha) | specialize (IHt2 c0 x2 Hz Hb)]; lia.
  - destruct x; try contradiction. destruct Hwt as [Hf Hl]. apply orb_false_iff in Hz as [Hn Hz].
    apply Nat.eqb_neq in Hn. destruct l as [|y l]; [cbn in Hl; lia|].
    cbn [flat_map]. rewrite app_length. inversion Hf; subst. specialize (IHt c0 y Hz H1). lia.
  - destruct x; try contradiction. rewrite app_length, le_bytes_length. lia.
  - destruct x; try contradiction. rewrite app_length, le_bytes_length. lia.
  - destruct x; try contradiction. rewrite app_length, le_bytes_length. lia.
  - destruct x; try contradiction. rewrite app_length, le_bytes_length. lia.
  - destruct x; try contradiction. cbv zeta. rewrite app_length, le_bytes_length. lia.
  - apply IHt; auto.
  - apply IHt; auto.
  - destruct x; try contradiction. rewrite le_bytes_length. apply Nat.eqb_neq in Hz. lia.
Qed.

(* ---------- sorted insertion ---------- *)
Lemma map_insert_last cmp k v m :
  Forall (fun kv' => cmp k (fst kv') = Gt) m -> map_insert cmp k v m = m ++ [(k, v)].
Proof.
  induction m as [|[k' v'] m IH]; intros H; cbn [map_insert app]; [reflexivity|].
  inversion H; subst. cbn [fst] in *. rewrite H2. f_equal. auto.
Qed.

Lemma fold_map_insert cmp l : forall acc,
  incr cmp (map fst l) ->
  Forall (fun kv' => Forall (fun kv => cmp (fst kv) (fst kv') = Gt) l) acc ->
  fold_left (fun m kv => map_insert cmp (fst kv) (snd kv) m) l acc = acc ++ l.
Proof.
  induction l as [|[k v] l IH]; intros acc Hi Ha; cbn [fold_left].
  - rewrite app_nil_r. reflexivity.
  - cbn [map fst snd] in *. inversion Hi; subst.
    rewrite map_insert_last.
    + rewrite IH; [rewrite <- app_assoc; reflexivity | assumption |].
      apply Forall_app; split.
      * eapply Forall_impl; [|exact Ha]. intros kv' H. inversion H; auto.
      * constructor; [|constructor]. cbn [fst]. rewrite Forall_map in H1. exact H1.
    + eapply Forall_impl; [|exact Ha]. intros kv' H. inversion H; subst. exact H4.
Qed.

Lemma set_insert_last cmp k m :
  Forall (fun k' => cmp k k' = Gt) m -> set_insert cmp k m = m ++ [k].
Proof.
  induction m as [|k' m IH]; intros H; cbn [set_insert app]; [reflexivity|].
  inversion H; subst. rewrite H2. f_equal. auto.
Qed.

Lemma fold_set_insert cmp l : forall acc,
  incr cmp l ->
  Forall (fun k' => Forall (fun k => cmp k k' = Gt) l) acc ->
  fold_left (fun m x => set_insert cmp x m) l acc = acc ++ l.
Proof.
  induction l as [|k l IH]; intros acc Hi Ha; cbn [fold_left].
  - rewrite app_nil_r. reflexivity.
  - inversion Hi; subst. rewrite set_insert_last.
    + rewrite IH; [rewrite <- app_assoc; reflexivity | assumption |].
      apply Forall_app; split.
      * eapply Forall_impl; [|exact Ha]. intros k' H. inversion H; auto.
      * constructor; [|constructor]. exact H1.
    + eapply Forall_impl; [|exact Ha]. intros k' H. inversion H; subst. exact H4.
Qed.

Definition entry_kv (e : value) : value * value := match e with VPair a b => (a, b) | _ => (VUnit, VUnit) end.

Lemma entries_map l :
  Forall (fun e => match e with VPair _ _ => True | _ => False end) l ->
  map (fun kv => VPair (fst kv) (snd kv)) (map entry_kv l) = l.
Proof.
  induction 1 as [|e l He Hl IH]; cbn [map]; [reflexivity|].
  destruct e; try contradiction. cbn [entry_kv fst snd]. congruence.
Qed.

(* ---------- the compositional round-trip theorem ---------- *)
Theorem roundtrip : forall t, ty_ok t = true -> forall c vl x rest,
  wt t x -> check t x = true -> dec c vl t (enc c t x ++ rest) = Ok (x, rest).
Proof.
  induction t; intros Hok c0 vl0 x rest Hwt Hck; cbn [ty_ok] in Hok; cbn [wt] in Hwt;
    cbn [check] in Hck; cbn [enc dec].
  - (* TUInt *) destruct x; try contradiction. rewrite read_uint_enc. cbn [bind fst snd].
    rewrite Z.mod_small by lia. reflexivity.
  - (* TSInt *) destruct x; try contradiction. rewrite read_uint_enc. cbn [bind fst snd].
    rewrite to_signed_mod by lia. reflexivity.
  - (* TBool *) destruct x; try contradiction. destruct Hwt as [-> | ->]; reflexivity.
  - (* TUnit *) subst x. reflexivity.
  - (* TEven *) destruct x; try contradiction. cbn [app]. unfold read_uint. cbn [take_n le_val bind fst snd].
    replace (z + 256 * 0) with z by lia. rewrite <- Z.negb_even, Hck. cbn [negb]. rewrite andb_false_r. reflexivity.
  - (* TModal *) destruct x; try contradiction. destruct c0; rewrite read_uint_enc; cbn [bind fst snd].
    + change (P8 2) with 65536. rewrite Z.mod_small by lia. reflexivity.
    + change (P8 4) with 4294967296. rewrite Z.mod_small by lia.
      destruct (Z.leb_spec 65536 z); [lia|reflexivity].
  - (* TOption *) destruct x; try contradiction.
    + cbn [app]. rewrite dec_bool_0. reflexivity.
    + cbn [app]. rewrite dec_bool_1. cbn [bind fst snd]. rewrite IHt by assumption. reflexivity.
  - (* TPair *) destruct x; try contradiction. destruct Hwt as [Ha Hb].
    apply andb_true_iff in Hok as [Hok1 Hok2]. apply andb_true_iff in Hck as [Hc1 Hc2].
    rewrite <- app_assoc, IHt1 by assumption. cbn [bind fst snd]. rewrite IHt2 by assumption. reflexivity.
  - (* TArray *) destruct x; try contradiction. destruct Hwt as [Hf Hl]. subst n.
    rewrite Forall_forall in Hf. pose proof Hck as Hck'. rewrite forallb_forall in Hck'.
    rewrite (dec_n_rt (dec c0 false t) (enc c0 t)) by (intros; apply IHt; auto).
    cbn [bind]. unfold batch_checked. cbn [fst snd]. rewrite Hck. rewrite andb_false_r. reflexivity.
  - (* TSeq *) destruct x; try contradiction. destruct Hwt as [Hf Hl].
    apply andb_true_iff in Hok as [Hok Hz]. apply negb_true_iff in Hz.
    rewrite Forall_forall in Hf. pose proof Hck as Hck'. rewrite forallb_forall in Hck'.
    rewrite <- app_assoc.
    rewrite (dec_len_seq_rt (dec c0 false t) (enc c0 t)).
    + cbn [bind]. unfold batch_checked. cbn [fst snd]. rewrite Hck. rewrite andb_false_r. reflexivity.
    + intros; apply IHt; auto.
    + exact Hl.
    + left. apply flat_map_length_ge. intros y Hy. apply enc_nonempty; auto.
  - (* TString *) destruct x; try contradiction. destruct Hwt as (bs & -> & Hb & Hu & Hl).
    assert (Hz : zlen (map VInt bs) = zlen bs) by (unfold zlen; rewrite map_length; reflexivity).
    rewrite Hz in *.
    replace (map byte_of (map VInt bs)) with (flat_map (fun b : Z => [b]) bs)
      by (rewrite flat_map_single, map_byte_of_VInt; reflexivity).
    rewrite <- app_assoc.
    rewrite (dec_len_seq_rt dec_u8 (fun b => [b])).
    + cbn [bind fst snd]. rewrite Hu. reflexivity.
    + intros; apply dec_u8_rt.
    + exact Hl.
    + left. apply flat_map_length_ge. intros; cbn; lia.
  - (* TMap *) destruct x; try contradiction. destruct Hwt as (Hf & Hi & Hl).
    apply andb_true_iff in Hok as [Hok Hz]. apply andb_true_iff in Hok as [Hok1 Hok2].
    apply negb_true_iff in Hz. apply andb_true_iff in Hck as [Hc1 Hc2].
    rewrite forallb_forall in Hc1, Hc2. rewrite Forall_forall in Hf.
    set (E := fun kv : value * value => enc c0 t1 (fst kv) ++ enc c0 t2 (snd kv)).
    assert (HE : flat_map (fun e => match e with VPair a b => enc c0 t1 a ++ enc c0 t2 b | _ => [] end) l
                 = flat_map E (map entry_kv l)).
    { clear -Hf. induction l as [|e l IH]; cbn [flat_map map]; [reflexivity|].
      rewrite IH by (intros; apply Hf; right; auto).
      pose proof (Hf e (or_introl eq_refl)) as He. destruct e; try contradiction. reflexivity. }
    rewrite HE. rewrite <- app_assoc.
    assert (Hz' : zlen l = zlen (map entry_kv l)) by (unfold zlen; rewrite map_length; reflexivity).
    rewrite Hz'.
    rewrite (dec_len_seq_rt _ E).
    + cbn [bind fst snd]. rewrite fold_map_insert.
      * cbn [app]. rewrite entries_map; [reflexivity|].
        apply Forall_forall. intros e He. specialize (Hf e He). destruct e; auto.
      * rewrite map_map. erewrite map_ext_in; [exact Hi|].
        intros e He. specialize (Hf e He). destruct e; try contradiction. reflexivity.
      * constructor.
    + intros kv Hkv r. apply in_map_iff in Hkv as (e & <- & He).
      pose proof (Hf e He) as Hw. specialize (Hc1 e He). specialize (Hc2 e He).
      destruct e; try contradiction. destruct Hw as [Hw1 Hw2]. cbn [entry_kv]. unfold E. cbn [fst snd].
      rewrite <- app_assoc, IHt1 by assumption. cbn [bind fst snd]. rewrite IHt2 by assumption. reflexivity.
    + rewrite <- Hz'. exact Hl.
    + left. apply flat_map_length_ge. intros kv Hkv. apply in_map_iff in Hkv as (e & <- & He).
      pose proof (Hf e He) as Hw. destruct e; try contradiction. destruct Hw as [Hw1 Hw2].
      cbn [entry_kv]. unfold E. cbn [fst snd]. rewrite app_length.
      apply andb_false_iff in Hz as [Hz|Hz];
        [pose proof (enc_nonempty t1 c0 e1 Hz Hw1) | pose proof (enc_nonempty t2 c0 e2 Hz Hw2)]; lia.
  - (* TSet *) destruct x; try contradiction. destruct Hwt as (Hf & Hi & Hl).
    apply andb_true_iff in Hok as [Hok Hz]. apply negb_true_iff in Hz.
    rewrite Forall_forall in Hf. rewrite forallb_forall in Hck.
    rewrite <- app_assoc.
    rewrite (dec_len_seq_rt (dec c0 vl0 t) (enc c0 t)).
    + cbn [bind fst snd]. rewrite fold_set_insert; [reflexivity | exact Hi | constructor].
    + intros; apply IHt; auto.
    + exact Hl.
    + left. apply flat_map_length_ge. intros y Hy. apply enc_nonempty; auto.
  - (* TBigUint *) destruct x; try contradiction. destruct Hwt as [H0 Hn]. cbv zeta.
    replace (le_bytes 8 (zlen (to_bytes_le z)) ++ to_bytes_le z)
      with (le_bytes 8 (zlen (to_bytes_le z)) ++ flat_map (fun b : Z => [b]) (to_bytes_le z))
      by (rewrite flat_map_single; reflexivity).
    rewrite <- app_assoc.
    rewrite (dec_len_seq_rt dec_u8 (fun b => [b])).
    + cbn [bind fst snd]. rewrite to_bytes_le_val by assumption. reflexivity.
    + intros; apply dec_u8_rt.
    + rewrite to_bytes_le_len. exact Hn.
    + left. apply flat_map_length_ge. intros; cbn; lia.
  - (* TWrap *) apply IHt; assumption.
  - (* TStruct *) apply IHt; assumption.
  - (* TLeaf *) destruct x; try contradiction. rewrite read_uint_enc. cbn [bind fst snd].
    rewrite Z.mod_small by lia. rewrite Hck. cbn [negb]. rewrite andb_false_r. reflexivity.
Qed.


Lemma zlen_le_bytes w z : zlen (le_bytes w z) = Z.of_nat w.
Proof. unfold zlen. rewrite le_bytes_length. reflexivity. Qed.
Lemma zlen_map {A B} (f : A -> B) l : zlen (map f l) = zlen l.
Proof. unfold zlen. rewrite map_length. reflexivity. Qed.
Lemma zsum_ones {A} (l : list A) : zsum (map (fun _ => 1) l) = zlen l.
Proof. induction l as [|x l IH]; cbn [map zsum fold_right]; [reflexivity|]. fold (zsum (map (fun _ : A => 1) l)). rewrite IH, zlen_cons. lia. Qed.

(* serialized_size is exactly the number of bytes written, in each mode *)
Theorem size_exact : forall t c x, wt t x -> zlen (enc c t x) = size c t x.
Proof.
  induction t; intros c0 x Hwt; cbn [wt] in Hwt; cbn [enc size].
  - destruct x; try contradiction. apply zlen_le_bytes.
  - destruct x; try contradiction. apply zlen_le_bytes.
  - destruct x; try contradiction. reflexivity.
  - reflexivity.
  - destruct x; try contradiction. reflexivity.
  - destruct x; try contradiction. destruct c0; apply zlen_le_bytes.
  - destruct x; try contradiction; [reflexivity|]. rewrite zlen_cons, IHt by assumption. lia.
  - destruct x; try contradiction. destruct Hwt. rewrite zlen_app, IHt1, IHt2 by assumption. reflexivity.
  - destruct x; try contradiction. destruct Hwt as [Hf _]. rewrite Forall_forall in Hf.
    apply zlen_flat_map. intros; apply IHt; auto.
  - destruct x; try contradiction. destruct Hwt as [Hf _]. rewrite Forall_forall in Hf.
    rewrite zlen_app, zlen_le_bytes. f_equal. apply zlen_flat_map. intros; apply IHt; auto.
  - destruct x; try contradiction. rewrite zlen_app, zlen_le_bytes, zlen_map, zsum_ones. reflexivity.
  - destruct x; try contradiction. destruct Hwt as [Hf _]. rewrite Forall_forall in Hf.
    rewrite zlen_app, zlen_le_bytes. f_equal. apply zlen_flat_map. intros e He.
    specialize (Hf e He). destruct e; try contradiction. destruct Hf.
    rewrite zlen_app, IHt1, IHt2 by assumption. reflexivity.
  - destruct x; try contradiction. destruct Hwt as [Hf _]. rewrite Forall_forall in Hf.
    rewrite zlen_app, zlen_le_bytes. f_equal. apply zlen_flat_map. intros; apply IHt; auto.
  - destruct x; try contradiction. cbv zeta. rewrite zlen_app, zlen_le_bytes, zsum_ones. reflexivity.
  - apply IHt; assumption.
  - apply IHt; assumption.
  - destruct x; try contradiction. apply zlen_le_bytes.
Qed.

(* ---------- totality ---------- *)
(* what a decoder may do with an arbitrary input: never panic; on success the unread rest is a
   suffix of the input (it consumed exactly the reported prefix, nothing beyond the input);
   [strict]: a successful read consumed at least one byte *)
Definition total {A} (strict : bool) (D : list Z -> outcome (A * list Z)) : Prop :=
  forall bs, match D bs with
             | Ok (_, r) => exists u, bs = u ++ r /\ (strict = true -> u <> [])
             | Err _ => True
             | Panic _ => False
             end.

Lemma total_weaken {A} (D : list Z -> outcome (A * list Z)) s : total s D -> total false D.
Proof.
  intros H bs. specialize (H bs). destruct (D bs) as [[x r]|k|w]; auto.
  destruct H as (u & -> & _). exists u. split; [reflexivity|discriminate].
Qed.

Lemma read_uint_total w : total (negb (Nat.eqb w 0)) (read_uint w).
Proof.
  intros bs. destruct (read_uint w bs) as [[u r]|k|why] eqn:E; auto.
  - apply read_uint_ok in E as (h & -> & Hl & _). exists h. split; [reflexivity|].
    intros Hs. apply negb_true_iff, Nat.eqb_neq in Hs. destruct h; [cbn in Hl; lia|discriminate].
  - eapply read_uint_nopanic; eauto.
Qed.

Lemma dec_bool_total : total true dec_bool.
Proof.
  intros bs. unfold dec_bool. pose proof (read_uint_total 1 bs) as H.
  destruct (read_uint 1 bs) as [[u r]|k|why]; cbn [bind fst snd] in *; auto.
  destruct (u =? 0); [exact H|]. destruct (u =? 1); [exact H|exact I].
Qed.

Section LoopTotal.
  Context {A : Type} (D : list Z -> outcome (A * list Z)).

  Lemma dec_n_total s n : total s D -> total false (dec_n D n).
  Proof.
    intros HD. induction n as [|n IH]; intros bs; cbn [dec_n].
    - exists []. split; [reflexivity|discriminate].
    - specialize (HD bs). destruct (D bs) as [[x r]|k|w]; auto.
      destruct HD as (u & -> & _). specialize (IH r).
      destruct (dec_n D n r) as [[xs r']|k|w]; auto.
      destruct IH as (u' & -> & _). exists (u ++ u'). split; [apply app_assoc|discriminate].
  Qed.

  Lemma dec_n_strict n : total true D -> forall bs,
    match dec_n D n bs with Ok (_, r) => (length r + n <= length bs)%nat | _ => True end.
  Proof.
    intros HD. induction n as [|n IH]; intros bs; cbn [dec_n]; [lia|].
    specialize (HD bs). destruct (D bs) as [[x r]|k|w]; auto.
    destruct HD as (u & -> & Hu). specialize (IH r).
    destruct (dec_n D n r) as [[xs r']|k|w]; auto.
    rewrite app_length. destruct u; [exfalso; apply Hu; auto|]. cbn [length]. lia.
  Qed.

  (* with strictly progressing elements the fuel |input| + budget is never exhausted *)
  Lemma dec_many_total fuel : total true D -> forall k bs, (length bs < fuel)%nat ->
    match dec_many D fuel k bs with
    | Ok (_, r) => exists u, bs = u ++ r
    | Err _ => True
    | Panic _ => False
    end.
  Proof.
    intros HD. induction fuel as [|f IH]; intros k bs Hf; [lia|].
    cbn [dec_many]. destruct (k <=? 0); [exists []; reflexivity|].
    specialize (HD bs). destruct (D bs) as [[x r]|e|w]; auto.
    destruct HD as (u & -> & Hu).
    assert (Hr : (length r < f)%nat).
    { rewrite app_length in Hf. destruct u; [exfalso; apply Hu; auto|]. cbn [length] in Hf. lia. }
    specialize (IH (k - 1) r Hr).
    destruct (dec_many D f (k - 1) r) as [[xs r']|e|w]; auto.
    destruct IH as (u' & ->). exists (u ++ u'). apply app_assoc.
  Qed.

  Lemma dec_len_seq_total : total true D -> total true (dec_len_seq D).
  Proof.
    intros HD bs. unfold dec_len_seq. pose proof (read_uint_total 8 bs) as H.
    destruct (read_uint 8 bs) as [[len r]|k|w]; cbn [bind fst snd] in *; auto.
    destruct H as (u & -> & Hu).
    pose proof (dec_many_total (length r + ZST_BUDGET) HD len r) as H.
    assert (Hf : (length r < length r + ZST_BUDGET)%nat) by (unfold ZST_BUDGET; lia).
    specialize (H Hf).
    destruct (dec_many D (length r + ZST_BUDGET) len r) as [[xs r']|k|w]; auto.
    destruct H as (u' & ->). exists (u ++ u'). split; [apply app_assoc|].
    intros _ Hn. apply app_eq_nil in Hn as [Hn _]. apply Hu; auto.
  Qed.
End LoopTotal.

Lemma total_bind_ok {A B} s (D : list Z -> outcome (A * list Z)) (f : A * list Z -> outcome (B * list Z)) :
  total s D ->
  (forall xr, match f xr with Ok (_, r) => r = snd xr | Err _ => True | Panic _ => False end) ->
  total s (fun bs => bind (D bs) f).
Proof.
  intros HD Hf bs. specialize (HD bs). destruct (D bs) as [[x r]|k|w]; cbn [bind]; auto.
  specialize (Hf (x, r)). destruct (f (x, r)) as [[y r']|k|w]; auto. cbn [snd] in Hf. subst r'. exact HD.
Qed.

Lemma total_pair {A B C} sa sb (Da : list Z -> outcome (A * list Z)) (Db : list Z -> outcome (B * list Z))
      (g : A -> B -> C) :
  total sa Da -> total sb Db ->
  total (sa || sb) (fun bs => bind (Da bs) (fun ar => bind (Db (snd ar)) (fun br => Ok (g (fst ar) (fst br), snd br)))).
Proof.
  intros Ha Hb bs. specialize (Ha bs). destruct (Da bs) as [[x r]|k|w]; cbn [bind fst snd]; auto.
  specialize (Hb r). destruct (Db r) as [[y r']|k|w]; cbn [bind fst snd]; auto.
  destruct Ha as (u & -> & Hu). destruct Hb as (u' & -> & Hu').
  exists (u ++ u'). split; [apply app_assoc|].
  intros Hs Hn. apply app_eq_nil in Hn as [H1 H2].
  apply orb_true_iff in Hs as [Hs|Hs]; [apply Hu | apply Hu']; auto.
Qed.

Lemma total_ext {A} s (D D' : list Z -> outcome (A * list Z)) :
  (forall bs, D bs = D' bs) -> total s D -> total s D'.
Proof. intros He H bs. rewrite <- He. apply H. Qed.

Theorem dec_total : forall t, ty_ok t = true -> forall c vl, total (negb (zst t)) (dec c vl t).
Proof.
  induction t; intros Hok c0 vl0; cbn [ty_ok] in Hok; cbn [zst].
  - (* TUInt *) eapply total_ext; [|apply (total_bind_ok _ (read_uint w) (fun ur => Ok (VInt (fst ur), snd ur)))].
    + reflexivity. + apply read_uint_total. + intros xr; reflexivity.
  - (* TSInt *) eapply total_ext; [|apply (total_bind_ok _ (read_uint w) (fun ur => Ok (VInt (to_signed w (fst ur)), snd ur)))].
    + reflexivity. + apply read_uint_total. + intros xr; reflexivity.
  - (* TBool *) eapply total_ext; [|apply (total_bind_ok _ dec_bool (fun br => Ok (VInt (Z.b2z (fst br)), snd br)))].
    + reflexivity. + apply dec_bool_total. + intros xr; reflexivity.
  - (* TUnit *) intros bs. cbn [dec]. exists []. split; [reflexivity|discriminate].
  - (* TEven *) eapply total_ext; [|apply (total_bind_ok _ (read_uint 1)
        (fun ur => if vl0 && Z.odd (fst ur) then Err EINVALID else Ok (VInt (fst ur), snd ur)))].
    + reflexivity. + apply (read_uint_total 1). + intros xr. destruct (vl0 && Z.odd (fst xr)); [exact I|reflexivity].
  - (* TModal *) destruct c0.
    + eapply total_ext; [|apply (total_bind_ok _ (read_uint 2) (fun ur => Ok (VInt (fst ur), snd ur)))].
      * reflexivity. * apply (read_uint_total 2). * intros xr; reflexivity.
    + eapply total_ext; [|apply (total_bind_ok _ (read_uint 4)
        (fun ur => if 65536 <=? fst ur then Err EINVALID else Ok (VInt (fst ur), snd ur)))].
      * reflexivity. * apply (read_uint_total 4). * intros xr. destruct (65536 <=? fst xr); [exact I|reflexivity].
  - (* TOption *) intros bs. cbn [dec]. pose proof (dec_bool_total bs) as H.
    destruct (dec_bool bs) as [[b r]|k|w]; cbn [bind fst snd]; auto.
    destruct b; [|exact H]. destruct H as (u & -> & Hu).
    pose proof (IHt Hok c0 vl0 r) as H. destruct (dec c0 vl0 t r) as [[y r']|k|w]; cbn [bind fst snd]; auto.
    destruct H as (u' & -> & _). exists (u ++ u'). split; [apply app_assoc|].
    intros _ Hn. apply app_eq_nil in Hn as [Hn _]. apply Hu; auto.
  - (* TPair *) apply andb_true_iff in Hok as [Hok1 Hok2]. rewrite negb_andb.
    eapply total_ext; [|apply (total_pair _ _ (dec c0 vl0 t1) (dec c0 vl0 t2) VPair); [apply IHt1|apply IHt2]; assumption].
    reflexivity.
  - (* TArray *) intros bs. cbn [dec].
    pose proof (dec_n_total (dec c0 false t) _ n (IHt Hok c0 false) bs) as H.
    pose proof (dec_n_strict (dec c0 false t) n) as Hs.
    destruct (dec_n (dec c0 false t) n bs) as [[l r]|k|w] eqn:E; cbn [bind]; auto.
    unfold batch_checked. cbn [fst snd]. destruct (vl0 && negb (forallb (check t) l)); [exact I|].
    destruct H as (u & -> & _). exists u. split; [reflexivity|].
    intros Hz Hn. subst u. rewrite negb_orb in Hz. apply andb_true_iff in Hz as [Hn0 Hz].
    rewrite Hz in *. specialize (Hs (IHt Hok c0 false) ([] ++ r)). rewrite E in Hs.
    apply negb_true_iff, Nat.eqb_neq in Hn0. cbn [app] in Hs. lia.
  - (* TSeq *) apply andb_true_iff in Hok as [Hok Hz]. rewrite Hz in *.
    pose proof (IHt Hok c0 false) as HD. try rewrite Hz in HD.
    eapply total_ext; [|apply (total_bind_ok _ (dec_len_seq (dec c0 false t)) (batch_checked vl0 t))].
    + reflexivity. + apply dec_len_seq_total; exact HD.
    + intros xr. unfold batch_checked. destruct (vl0 && negb (forallb (check t) (fst xr))); [exact I|reflexivity].
  - (* TString *) eapply total_ext; [|apply (total_bind_ok _ (dec_len_seq dec_u8)
        (fun lr => if utf8_valid (fst lr) then Ok (VList (map VInt (fst lr)), snd lr) else Err EINVALID))].
    + reflexivity. + apply dec_len_seq_total. apply (read_uint_total 1).
    + intros xr. destruct (utf8_valid (fst xr)); [reflexivity|exact I].
  - (* TMap *) apply andb_true_iff in Hok as [Hok Hz]. apply andb_true_iff in Hok as [Hok1 Hok2].
    rewrite negb_andb in Hz.
    eapply total_ext; [|apply (total_bind_ok _
        (dec_len_seq (fun bs0 => bind (dec c0 vl0 t1 bs0) (fun ar =>
                                   bind (dec c0 vl0 t2 (snd ar)) (fun br => Ok ((fst ar, fst br), snd br)))))
        (fun lr => Ok (VList (map (fun kv => VPair (fst kv) (snd kv))
                                   (fold_left (fun m kv => map_insert (kcmp t1) (fst kv) (snd kv) m) (fst lr) [])),
                        snd lr)))].
    + reflexivity.
    + apply dec_len_seq_total. rewrite <- Hz. apply (total_pair _ _ _ _ pair); [apply IHt1|apply IHt2]; assumption.
    + intros xr; reflexivity.
  - (* TSet *) apply andb_true_iff in Hok as [Hok Hz]. pose proof (IHt Hok c0 vl0) as HD. try rewrite Hz in HD.
    eapply total_ext; [|apply (total_bind_ok _ (dec_len_seq (dec c0 vl0 t))
        (fun lr => Ok (VList (fold_left (fun m x => set_insert (kcmp t) x m) (fst lr) []), snd lr)))].
    + reflexivity. + apply dec_len_seq_total; exact HD. + intros xr; reflexivity.
  - (* TBigUint *) eapply total_ext; [|apply (total_bind_ok _ (dec_len_seq dec_u8)
        (fun lr => Ok (VInt (le_val (fst lr)), snd lr)))].
    + reflexivity. + apply dec_len_seq_total. apply (read_uint_total 1). + intros xr; reflexivity.
  - (* TWrap *) cbn [dec]. intros bs. apply (IHt Hok c vl bs).
  - (* TStruct *) cbn [dec]. intros bs. apply (IHt Hok c0 vl0 bs).
  - (* TLeaf *) eapply total_ext; [|apply (total_bind_ok _ (read_uint w)
        (fun ur => if vl0 && negb (leaf_ok k (fst ur)) then Err EINVALID else Ok (VInt (fst ur), snd ur)))].
    + reflexivity. + apply read_uint_total.
    + intros xr. destruct (vl0 && negb (leaf_ok k (fst xr))); [exact I|reflexivity].
Qed.

