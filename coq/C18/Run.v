(* Uniform case interpreter for the C18 model.
   Case layout (all ops):
     a0 = [type id]      selects the concrete Rust type in the harness; ignored here
     a1 = descriptor     prefix code of the [ty] (see parse_ty)
     a2 = payload        ser/rt/ser_ref/ser_slice: flat rendering of the value; de: the input bytes
     a3 = [c; vl]        de only: Compress::Yes = 1, Validate::Yes = 1
   check:       a2 = flat value x;            result [Valid::check(&x); T::batch_check(once(&x))]
   batch_check: a2 = n then n flat values xs; result [T::batch_check(xs.iter()); T::batch_check(inexact-size iterator);
                                                      Valid::check of each element], a check result being
                                                      [1] for Ok(()) and [0; kind] for Err
   Flat rendering of a value of type t (parse_val / render):
     ints, bool, Even, Modal, BigUint, Leaf: one integer;  unit: nothing;  pair: a then b;
     option: 0 | 1 then payload;  array: the N elements;  seq/set: n then the elements;
     string: n then the bytes;  map: n then key value key value ...;  wrappers/structs: the inner value.
   Status: [0] ok, [1;kind] SerializationError (0 IoError, 1 InvalidData), [2] panic/out of fuel,
           [9] unsupported (bad descriptor or value). *)
From V Require Import Base.Word C18.Codec.

Definition ok (r : list (list Z)) : list (list Z) := [0] :: r.
Definition err (k : Z) : list (list Z) := [[1; k]].
Definition panic : list (list Z) := [[2]].
Definition unsupported : list (list Z) := [[9]].
Definition arg (n : nat) (a : list (list Z)) : list Z := nth n a [].

Definition obind {A B : Type} (o : option A) (f : A -> option B) : option B :=
  match o with Some a => f a | None => None end.

Fixpoint parse_ty (fuel : nat) (l : list Z) : option (ty * list Z) :=
  match fuel with
  | O => None
  | S f =>
    match l with
    | [] => None
    | tag :: r =>
      match tag with
      | 0 => match r with w :: r' => Some (TUInt (Z.to_nat w), r') | _ => None end
      | 1 => match r with w :: r' => Some (TSInt (Z.to_nat w), r') | _ => None end
      | 2 => Some (TBool, r)
      | 3 => Some (TUnit, r)
      | 4 => Some (TEven, r)
      | 5 => Some (TModal, r)
      | 6 => obind (parse_ty f r) (fun tr => Some (TOption (fst tr), snd tr))
      | 7 => obind (parse_ty f r) (fun ar => obind (parse_ty f (snd ar)) (fun br =>
               Some (TPair (fst ar) (fst br), snd br)))
      | 8 => match r with
             | n :: r' => obind (parse_ty f r') (fun tr => Some (TArray (Z.to_nat n) (fst tr), snd tr))
             | _ => None
             end
      | 9 => obind (parse_ty f r) (fun tr => Some (TSeq (fst tr), snd tr))
      | 10 => Some (TString, r)
      | 11 => obind (parse_ty f r) (fun ar => obind (parse_ty f (snd ar)) (fun br =>
                Some (TMap (fst ar) (fst br), snd br)))
      | 12 => obind (parse_ty f r) (fun tr => Some (TSet (fst tr), snd tr))
      | 13 => Some (TBigUint, r)
      | 14 => match r with
              | c :: v :: r' => obind (parse_ty f r') (fun tr =>
                                  Some (TWrap (negb (c =? 0)) (negb (v =? 0)) (fst tr), snd tr))
              | _ => None
              end
      | 15 => obind (parse_ty f r) (fun tr => Some (TStruct (fst tr), snd tr))
      | 16 => match r with w :: k :: r' => Some (TLeaf (Z.to_nat w) k, r') | _ => None end
      | _ => None
      end
    end
  end.

Section ParseN.
  Context {A : Type} (P : list Z -> option (A * list Z)).
  Fixpoint parse_n (n : nat) (zs : list Z) : option (list A * list Z) :=
    match n with
    | O => Some ([], zs)
    | S n' => obind (P zs) (fun xr => obind (parse_n n' (snd xr)) (fun lr =>
                Some (fst xr :: fst lr, snd lr)))
    end.
End ParseN.

Definition parse_int (zs : list Z) : option (Z * list Z) :=
  match zs with z :: r => Some (z, r) | [] => None end.

Definition parse_counted {A : Type} (P : list Z -> option (A * list Z)) (zs : list Z)
  : option (list A * list Z) :=
  match zs with
  | n :: r => if (n <? 0) || (100000 <? n) then None else parse_n P (Z.to_nat n) r
  | [] => None
  end.

Fixpoint parse_val (t : ty) (zs : list Z) {struct t} : option (value * list Z) :=
  match t with
  | TUInt _ | TSInt _ | TBool | TEven | TModal | TBigUint | TLeaf _ _ =>
    obind (parse_int zs) (fun zr => Some (VInt (fst zr), snd zr))
  | TUnit => Some (VUnit, zs)
  | TOption t' => match zs with
                  | tag :: r => if tag =? 0 then Some (VNone, r)
                                else obind (parse_val t' r) (fun yr => Some (VSome (fst yr), snd yr))
                  | [] => None
                  end
  | TPair a b => obind (parse_val a zs) (fun yr => obind (parse_val b (snd yr)) (fun zr =>
                   Some (VPair (fst yr) (fst zr), snd zr)))
  | TArray n t' => obind (parse_n (parse_val t') n zs) (fun lr => Some (VList (fst lr), snd lr))
  | TSeq t' => obind (parse_counted (parse_val t') zs) (fun lr => Some (VList (fst lr), snd lr))
  | TSet t' => obind (parse_counted (parse_val t') zs) (fun lr => Some (VList (fst lr), snd lr))
  | TString => obind (parse_counted parse_int zs) (fun lr => Some (VList (map VInt (fst lr)), snd lr))
  | TMap k v =>
    obind (parse_counted (fun zs0 => obind (parse_val k zs0) (fun ar =>
                           obind (parse_val v (snd ar)) (fun br =>
                             Some (VPair (fst ar) (fst br), snd br)))) zs)
          (fun lr => Some (VList (fst lr), snd lr))
  | TWrap _ _ t' => parse_val t' zs
  | TStruct t' => parse_val t' zs
  end.

Fixpoint render (t : ty) (x : value) {struct t} : list Z :=
  match t with
  | TUInt _ | TSInt _ | TBool | TEven | TModal | TBigUint | TLeaf _ _ => match x with VInt z => [z] | _ => [] end
  | TUnit => []
  | TOption t' => match x with VSome y => 1 :: render t' y | _ => [0] end
  | TPair a b => match x with VPair y z => render a y ++ render b z | _ => [] end
  | TArray _ t' => match x with VList l => flat_map (render t') l | _ => [] end
  | TSeq t' => match x with VList l => zlen l :: flat_map (render t') l | _ => [] end
  | TSet t' => match x with VList l => zlen l :: flat_map (render t') l | _ => [] end
  | TString => match x with VList l => zlen l :: map byte_of l | _ => [] end
  | TMap k v => match x with
                | VList l => zlen l :: flat_map (fun e => match e with
                                                          | VPair a b => render k a ++ render v b
                                                          | _ => []
                                                          end) l
                | _ => []
                end
  | TWrap _ _ t' => render t' x
  | TStruct t' => render t' x
  end.

Fixpoint list_eqb (a b : list Z) : bool :=
  match a, b with
  | [], [] => true
  | x :: a', y :: b' => (x =? y) && list_eqb a' b'
  | _, _ => false
  end.

Definition flag (z : Z) : bool := negb (z =? 0).

(* serialize, then deserialize in the same compress mode: 1 iff Ok, equal value, nothing left *)
Definition rt_flag (t : ty) (x : value) (c vl : bool) : Z :=
  match dec c vl t (enc c t x) with
  | Ok (y, []) => Z.b2z (list_eqb (render t y) (render t x))
  | Ok (_, _ :: _) => 2
  | Err _ => 0
  | Panic _ => 3
  end.

(* Result<(), SerializationError> of Valid::check / batch_check: the only error is InvalidData *)
Definition vres (b : bool) : list Z := if b then [1] else [0; EINVALID].

Definition run_C18 (op : Z) (a : list (list Z)) : list (list Z) :=
  let desc := arg 1 a in
  match parse_ty (S (length desc)) desc with
  | Some (t, []) =>
    match op with
    | 2 => (* de *)
      let bs := arg 2 a in
      let c := flag (nth 0 (arg 3 a) 0) in
      let vl := flag (nth 1 (arg 3 a) 0) in
      match dec c vl t bs with
      | Ok (x, r) => ok [render t x; [zlen bs - zlen r]]
      | Err k => err k
      | Panic _ => panic
      end
    | 7 => (* batch_check over a batch of values of type t *)
      match parse_val (TSeq t) (arg 2 a) with
      | Some (VList l, []) =>
        let r := vres (forallb (valid t) l) in
        ok [r; r; map (fun x => Z.b2z (valid t x)) l]
      | _ => unsupported
      end
    | 1 | 3 | 4 | 5 | 6 =>
      match parse_val t (arg 2 a) with
      | Some (x, []) =>
        match op with
        | 1 => ok [enc true t x; [size true t x]; enc false t x; [size false t x]]
        | 3 => ok [[rt_flag t x true true; rt_flag t x true false;
                    rt_flag t x false true; rt_flag t x false false]]
        | 4 => (* &T, &mut T, Rc<T>: transparent *)
          ok [enc true t x; enc false t x; enc true t x; enc false t x; enc true t x; enc false t x;
              [size true t x; size false t x; size true t x; size false t x; size true t x; size false t x]]
        | 5 => (* [T] and &[T] of a Vec<T> *)
          ok [enc true t x; enc false t x; enc true t x; enc false t x;
              [size true t x; size false t x; size true t x; size false t x]]
        | 6 => (* Valid::check, and batch_check of the one-element batch *)
          ok [vres (valid t x); vres (valid t x)]
        | _ => unsupported
        end
      | _ => unsupported
      end
    | _ => unsupported
    end
  | _ => unsupported
  end.
