(* C18 proofs: the executable validator utf8_valid accepts exactly the concatenations of
   (shortest-form) encodings of Unicode scalar values -- RFC 3629. *)
From V Require Import Base.Word C18.Codec.

Ltac zl := Z.div_mod_to_equations; lia.

Ltac bp := repeat match goal with
  | H : _ && _ = true |- _ => apply andb_true_iff in H; destruct H
  | H : (_ <=? _) = true |- _ => apply Z.leb_le in H
  | H : (_ =? _) = true |- _ => apply Z.eqb_eq in H
  | H : inr _ _ _ = true |- _ => unfold inr in H
  | H : cont _ = true |- _ => unfold cont, inr in H
  end.

(* decide the comparisons in the goal one at a time, discarding impossible branches *)
Ltac cmp_step :=
  match goal with
  | |- context [Z.leb ?a ?b] => destruct (Z.leb_spec a b); try (exfalso; zl)
  | |- context [Z.eqb ?a ?b] => destruct (Z.eqb_spec a b); try (exfalso; zl)
  | |- context [Z.ltb ?a ?b] => destruct (Z.ltb_spec a b); try (exfalso; zl)
  end; cbn [andb orb].

(* completeness: the encoding of every Unicode scalar value is accepted *)
Lemma utf8_valid_encode cp l : scalar cp -> utf8_valid (utf8_encode cp ++ l) = utf8_valid l.
Proof.
  intros Hs. unfold scalar in Hs. unfold utf8_encode.
  destruct (Z.ltb_spec cp 128); [|destruct (Z.ltb_spec cp 2048); [|destruct (Z.ltb_spec cp 65536)]];
    cbn [app utf8_valid]; unfold cont, inr; repeat cmp_step; reflexivity.
Qed.

Lemma utf8_valid_encode_all cps : Forall scalar cps -> utf8_valid (flat_map utf8_encode cps) = true.
Proof.
  induction 1 as [|cp cps Hc _ IH]; cbn [flat_map]; [reflexivity|]. rewrite utf8_valid_encode; assumption.
Qed.

(* soundness: whatever is accepted is the encoding of a sequence of scalar values (hence no
   overlong forms, no surrogates, nothing above U+10FFFF, no stray or missing continuation bytes) *)
Lemma utf8_valid_sound_n : forall n l, (length l <= n)%nat -> Forall byte l -> utf8_valid l = true ->
  exists cps, Forall scalar cps /\ l = flat_map utf8_encode cps.
Proof.
  induction n as [|n IH]; intros l Hn Hb Hv.
  - destruct l; [|cbn in Hn; lia]. exists []. split; [constructor|reflexivity].
  - destruct l as [|b0 r]; [exists []; split; [constructor|reflexivity]|].
    cbn [utf8_valid] in Hv. inversion Hb as [|? ? Hb0 Hbr]; subst. unfold byte in Hb0. cbn [length] in Hn.
    destruct (inr 0 127 b0) eqn:E1.
    { (* 1 byte *)
      destruct (IH r ltac:(lia) Hbr Hv) as (cps & Hc & ->). bp.
      exists (b0 :: cps). split; [constructor; [unfold scalar; lia|assumption]|].
      cbn [flat_map]. unfold utf8_encode. destruct (Z.ltb_spec b0 128); [reflexivity|lia]. }
    destruct (inr 194 223 b0) eqn:E2.
    { destruct r as [|b1 r]; [discriminate|]. bp.
      inversion Hbr as [|? ? Hb1 Hbr']; subst.
      destruct (IH r ltac:(cbn [length] in Hn; lia) Hbr' H0) as (cps & Hc & ->).
      remember ((b0 - 192) * 64 + (b1 - 128)) as cp eqn:Hcp.
      exists (cp :: cps). split; [constructor; [unfold scalar; lia|assumption]|].
      cbn [flat_map]. unfold utf8_encode.
      destruct (Z.ltb_spec cp 128); [lia|]. destruct (Z.ltb_spec cp 2048); [|lia].
      cbn [app]. repeat f_equal; zl. }
    assert (H3 : forall b1 b2 r', r = b1 :: b2 :: r' ->
                 224 <= b0 <= 239 -> 128 <= b1 <= 191 -> 128 <= b2 <= 191 ->
                 (b0 = 224 -> 160 <= b1) -> (b0 = 237 -> b1 <= 159) -> utf8_valid r' = true ->
                 exists cps, Forall scalar cps /\ b0 :: r = flat_map utf8_encode cps).
    { intros b1 b2 r' -> Hr0 Hr1 Hr2 Hlo Hhi Hv'.
      inversion Hbr as [|? ? Hb1 Hbr']; subst. inversion Hbr' as [|? ? Hb2 Hbr'']; subst.
      destruct (IH r' ltac:(cbn [length] in Hn; lia) Hbr'' Hv') as (cps & Hc & ->).
      remember ((b0 - 224) * 4096 + (b1 - 128) * 64 + (b2 - 128)) as cp eqn:Hcp.
      exists (cp :: cps). split; [constructor; [unfold scalar; lia|assumption]|].
      cbn [flat_map]. unfold utf8_encode.
      destruct (Z.ltb_spec cp 128); [lia|]. destruct (Z.ltb_spec cp 2048); [lia|].
      destruct (Z.ltb_spec cp 65536); [|lia].
      cbn [app]. repeat f_equal; zl. }
    destruct (b0 =? 224) eqn:E3.
    { destruct r as [|b1 [|b2 r']]; try discriminate. bp. eapply H3; eauto; lia. }
    destruct (inr 225 236 b0 || inr 238 239 b0) eqn:E4.
    { destruct r as [|b1 [|b2 r']]; try discriminate. bp.
      apply Z.eqb_neq in E3.
      apply orb_true_iff in E4 as [E4|E4]; bp; eapply H3; eauto; lia. }
    destruct (b0 =? 237) eqn:E5.
    { destruct r as [|b1 [|b2 r']]; try discriminate. bp. eapply H3; eauto; lia. }
    assert (H4 : forall b1 b2 b3 r', r = b1 :: b2 :: b3 :: r' ->
                 240 <= b0 <= 244 -> 128 <= b1 <= 191 -> 128 <= b2 <= 191 -> 128 <= b3 <= 191 ->
                 (b0 = 240 -> 144 <= b1) -> (b0 = 244 -> b1 <= 143) -> utf8_valid r' = true ->
                 exists cps, Forall scalar cps /\ b0 :: r = flat_map utf8_encode cps).
    { intros b1 b2 b3 r' -> Hr0 Hr1 Hr2 Hr3 Hlo Hhi Hv'.
      inversion Hbr as [|? ? Hb1 Hbr']; subst. inversion Hbr' as [|? ? Hb2 Hbr'']; subst.
      inversion Hbr'' as [|? ? Hb3 Hbr3]; subst.
      destruct (IH r' ltac:(cbn [length] in Hn; lia) Hbr3 Hv') as (cps & Hc & ->).
      remember ((b0 - 240) * 262144 + (b1 - 128) * 4096 + (b2 - 128) * 64 + (b3 - 128)) as cp eqn:Hcp.
      exists (cp :: cps). split; [constructor; [unfold scalar; lia|assumption]|].
      cbn [flat_map]. unfold utf8_encode.
      destruct (Z.ltb_spec cp 128); [lia|]. destruct (Z.ltb_spec cp 2048); [lia|].
      destruct (Z.ltb_spec cp 65536); [lia|].
      cbn [app]. repeat f_equal; zl. }
    destruct (b0 =? 240) eqn:E6.
    { destruct r as [|b1 [|b2 [|b3 r']]]; try discriminate. bp. eapply H4; eauto; lia. }
    destruct (inr 241 243 b0) eqn:E7.
    { destruct r as [|b1 [|b2 [|b3 r']]]; try discriminate. bp. eapply H4; eauto; lia. }
    destruct (b0 =? 244) eqn:E8; [|discriminate].
    { destruct r as [|b1 [|b2 [|b3 r']]]; try discriminate. bp. eapply H4; eauto; lia. }
Qed.

Theorem utf8_valid_sound l : Forall byte l -> utf8_valid l = true ->
  exists cps, Forall scalar cps /\ l = flat_map utf8_encode cps.
Proof. apply (utf8_valid_sound_n (length l)). lia. Qed.

Theorem utf8_valid_iff l : Forall byte l ->
  (utf8_valid l = true <-> exists cps, Forall scalar cps /\ l = flat_map utf8_encode cps).
Proof.
  intros Hb. split; [apply utf8_valid_sound; assumption|].
  intros (cps & Hc & ->). apply utf8_valid_encode_all; assumption.
Qed.
