(* C18 proofs, part 3: what Validate::Yes adds to Validate::No.
   [valid] (= [check], Valid::check) is structural; the decoder run with Validate::Yes returns only valid
   values, is a restriction of the decoder run with Validate::No, rejects only with InvalidData, and - outside
   ordered maps / sets of non-trivially-valid entries and *Unchecked wrappers - rejects exactly the invalid values. *)
From V Require Import Base.Word C18.Codec C18.CodecProofs.

(* ---------- trivially valid types ---------- *)
Lemma vtriv_check : forall t, vtriv t = true -> forall x, check t x = true.
Proof.
  induction t; intros Hv x; cbn [vtriv] in Hv; try discriminate; try reflexivity.
  - (* TOption *) cbn [check]. destruct x; auto.
  - (* TPair *) apply andb_true_iff in Hv as [H1 H2]. cbn [check]. destruct x; auto. rewrite IHt1, IHt2; auto.
  - (* TArray *) cbn [check]. destruct x; auto. apply forallb_forall. intros; apply IHt; auto.
  - (* TSeq *) cbn [check]. destruct x; auto. apply forallb_forall. intros; apply IHt; auto.
  - (* TMap *) apply andb_true_iff in Hv as [H1 H2]. cbn [check]. destruct x; auto.
    apply andb_true_iff; split; apply forallb_forall; intros e _; destruct e; auto.
  - (* TSet *) cbn [check]. destruct x; auto. apply forallb_forall. intros; apply IHt; auto.
  - (* TWrap *) cbn [check]. apply IHt; auto.
  - (* TStruct *) cbn [check]. apply IHt; auto.
Qed.

Lemma vtriv_checked : forall t, vtriv t = true -> checked t = true.
Proof.
  induction t; cbn [vtriv checked]; intros H; auto.
  - apply andb_true_iff in H as [H1 H2]. rewrite IHt1, IHt2; auto.
  - apply andb_true_iff in H as [H1 H2]. rewrite IHt1, IHt2; auto.
  - destruct vl; auto.
Qed.

Lemma exact_checked : forall t, exact_ty t = true -> checked t = true.
Proof.
  induction t; cbn [exact_ty checked]; intros H; auto.
  - apply andb_true_iff in H as [H1 H2]. rewrite IHt1, IHt2; auto.
  - apply andb_true_iff in H as [H1 H2]. rewrite !vtriv_checked; auto.
  - apply vtriv_checked; auto.
  - destruct vl; auto.
Qed.

(* ---------- the loops are extensional in the element decoder ---------- *)
Section LoopFun.
  Context {A : Type} (D D' : list Z -> outcome (A * list Z)) (HD : forall bs, D bs = D' bs).

  Lemma dec_n_fun n : forall bs, dec_n D n bs = dec_n D' n bs.
  Proof.
    induction n as [|n IH]; intros bs; cbn [dec_n]; [reflexivity|].
    rewrite HD. destruct (D' bs) as [[x r]|e|w]; auto. rewrite IH. reflexivity.
  Qed.

  Lemma dec_many_fun f : forall k bs, dec_many D f k bs = dec_many D' f k bs.
  Proof.
    induction f as [|f IH]; intros k bs; cbn [dec_many]; [reflexivity|].
    rewrite HD. destruct (k <=? 0); [reflexivity|].
    destruct (D' bs) as [[x r]|e|w]; auto. rewrite IH. reflexivity.
  Qed.

  Lemma dec_len_seq_fun bs : dec_len_seq D bs = dec_len_seq D' bs.
  Proof.
    unfold dec_len_seq. destruct (read_uint 8 bs) as [[l r]|e|w]; cbn [bind]; auto. apply dec_many_fun.
  Qed.
End LoopFun.

Lemma batch_checked_triv t vl lr : vtriv t = true -> batch_checked vl t lr = Ok (VList (fst lr), snd lr).
Proof.
  intros Hv. unfold batch_checked.
  replace (forallb (check t) (fst lr)) with true; [rewrite andb_false_r; reflexivity|].
  symmetry. apply forallb_forall. intros; apply vtriv_check; auto.
Qed.

(* the decoder of a trivially valid type ignores `validate` *)
Lemma vtriv_dec : forall t, vtriv t = true -> forall c bs, dec c true t bs = dec c false t bs.
Proof.
  induction t; intros Hv c0 bs; cbn [vtriv] in Hv; try discriminate; cbn [dec]; try reflexivity.
  - (* TOption *) destruct (dec_bool bs) as [[b r]|e|w]; cbn [bind fst snd]; auto.
    destruct b; auto. rewrite IHt by assumption. reflexivity.
  - (* TPair *) apply andb_true_iff in Hv as [H1 H2]. rewrite IHt1 by assumption.
    destruct (dec c0 false t1 bs) as [[y r]|e|w]; cbn [bind fst snd]; auto. rewrite IHt2 by assumption. reflexivity.
  - (* TArray *) destruct (dec_n (dec c0 false t) n bs) as [[l r]|e|w]; cbn [bind]; auto.
    rewrite !batch_checked_triv by assumption. reflexivity.
  - (* TSeq *) destruct (dec_len_seq (dec c0 false t) bs) as [[l r]|e|w]; cbn [bind]; auto.
    rewrite !batch_checked_triv by assumption. reflexivity.
  - (* TMap *) apply andb_true_iff in Hv as [H1 H2].
    rewrite (dec_len_seq_fun _ (fun bs0 => bind (dec c0 false t1 bs0) (fun ar =>
               bind (dec c0 false t2 (snd ar)) (fun br => Ok ((fst ar, fst br), snd br))))); [reflexivity|].
    intros bs0. rewrite IHt1 by assumption.
    destruct (dec c0 false t1 bs0) as [[y r]|e|w]; cbn [bind fst snd]; auto. rewrite IHt2 by assumption. reflexivity.
  - (* TSet *) rewrite (dec_len_seq_fun _ (dec c0 false t)); [reflexivity|]. intros; apply IHt; auto.
  - (* TStruct *) apply IHt; auto.
Qed.

(* ---------- every element a loop returns was returned by the element decoder ---------- *)
Section LoopAll.
  Context {A : Type} (D : list Z -> outcome (A * list Z)) (P : A -> Prop)
          (HD : forall bs x r, D bs = Ok (x, r) -> P x).

  Lemma dec_many_all f : forall k bs xs r, dec_many D f k bs = Ok (xs, r) -> Forall P xs.
  Proof.
    induction f as [|f IH]; intros k bs xs r H; cbn [dec_many] in H.
    - destruct (k <=? 0); [|discriminate]. inversion H; subst. constructor.
    - destruct (k <=? 0); [inversion H; subst; constructor|].
      destruct (D bs) as [[x r0]|e|w] eqn:E; try discriminate.
      destruct (dec_many D f (k - 1) r0) as [[xs' r']|e|w] eqn:E'; try discriminate.
      inversion H; subst. constructor; eauto.
  Qed.

  Lemma dec_len_seq_all bs xs r : dec_len_seq D bs = Ok (xs, r) -> Forall P xs.
  Proof.
    unfold dec_len_seq. destruct (read_uint 8 bs) as [[l r0]|e|w]; cbn [bind fst snd]; try discriminate.
    apply dec_many_all.
  Qed.
End LoopAll.

(* sorted insertion keeps only elements it was given *)
Lemma map_insert_all (P : value * value -> Prop) cmp k v m :
  P (k, v) -> Forall P m -> Forall P (map_insert cmp k v m).
Proof.
  intros Hp. induction 1 as [|[k' v'] m Hx Hm IH]; cbn [map_insert].
  - constructor; [assumption|constructor].
  - destruct (cmp k k').
    + constructor; assumption.
    + constructor; [assumption|]. constructor; assumption.
    + constructor; assumption.
Qed.

Lemma fold_map_insert_all (P : value * value -> Prop) cmp l : forall acc, Forall P l -> Forall P acc ->
  Forall P (fold_left (fun m kv => map_insert cmp (fst kv) (snd kv) m) l acc).
Proof.
  induction l as [|[k v] l IH]; intros acc Hl Ha; cbn [fold_left]; auto.
  inversion Hl; subst. apply IH; auto. apply map_insert_all; auto.
Qed.

Lemma set_insert_all (P : value -> Prop) cmp k m : P k -> Forall P m -> Forall P (set_insert cmp k m).
Proof.
  intros Hp. induction 1 as [|k' m Hx Hm IH]; cbn [set_insert].
  - constructor; [assumption|constructor].
  - destruct (cmp k k').
    + constructor; assumption.
    + constructor; [assumption|]. constructor; assumption.
    + constructor; assumption.
Qed.

Lemma fold_set_insert_all (P : value -> Prop) cmp l : forall acc, Forall P l -> Forall P acc ->
  Forall P (fold_left (fun m x => set_insert cmp x m) l acc).
Proof.
  induction l as [|k l IH]; intros acc Hl Ha; cbn [fold_left]; auto.
  inversion Hl; subst. apply IH; auto. apply set_insert_all; auto.
Qed.

Lemma check_map_entries k v m :
  Forall (fun kv => check k (fst kv) = true /\ check v (snd kv) = true) m ->
  check (TMap k v) (VList (map (fun kv => VPair (fst kv) (snd kv)) m)) = true.
Proof.
  intros H. rewrite Forall_forall in H. cbn [check].
  apply andb_true_iff; split; apply forallb_forall; intros e He;
    apply in_map_iff in He as (kv & <- & Hin); destruct (H kv Hin); assumption.
Qed.

(* ---------- 1. Validate::Yes returns only valid values ---------- *)
Theorem dec_yes_valid : forall t, checked t = true -> forall c bs v r,
  dec c true t bs = Ok (v, r) -> check t v = true.
Proof.
  induction t; intros Hc c0 bs v r H; cbn [checked] in Hc; cbn [dec] in H; try reflexivity.
  - (* TEven *) destruct (read_uint 1 bs) as [[u r0]|e|w]; cbn [bind fst snd andb] in H; try discriminate.
    destruct (Z.odd u) eqn:E; [discriminate|]. inversion H; subst. cbn [check]. rewrite <- Z.negb_odd, E. reflexivity.
  - (* TOption *) destruct (dec_bool bs) as [[b r0]|e|w]; cbn [bind fst snd] in H; try discriminate.
    destruct b.
    + destruct (dec c0 true t r0) as [[y r1]|e|w] eqn:E; cbn [bind fst snd] in H; try discriminate.
      inversion H; subst. cbn [check]. eapply IHt; eauto.
    + inversion H; subst. reflexivity.
  - (* TPair *) apply andb_true_iff in Hc as [H1 H2].
    destruct (dec c0 true t1 bs) as [[y r1]|e|w] eqn:E1; cbn [bind fst snd] in H; try discriminate.
    destruct (dec c0 true t2 r1) as [[z r2]|e|w] eqn:E2; cbn [bind fst snd] in H; try discriminate.
    inversion H; subst. cbn [check]. rewrite (IHt1 H1 _ _ _ _ E1), (IHt2 H2 _ _ _ _ E2). reflexivity.
  - (* TArray *) destruct (dec_n (dec c0 false t) n bs) as [[l r0]|e|w]; cbn [bind] in H; try discriminate.
    unfold batch_checked in H. cbn [fst snd andb] in H.
    destruct (forallb (check t) l) eqn:E; cbn [negb] in H; [|discriminate]. inversion H; subst. exact E.
  - (* TSeq *) destruct (dec_len_seq (dec c0 false t) bs) as [[l r0]|e|w]; cbn [bind] in H; try discriminate.
    unfold batch_checked in H. cbn [fst snd andb] in H.
    destruct (forallb (check t) l) eqn:E; cbn [negb] in H; [|discriminate]. inversion H; subst. exact E.
  - (* TMap *) apply andb_true_iff in Hc as [H1 H2].
    match type of H with bind (dec_len_seq ?D bs) _ = _ =>
      destruct (dec_len_seq D bs) as [[l r0]|e|w] eqn:E end; cbn [bind fst snd] in H; try discriminate.
    inversion H; subst. apply check_map_entries. apply fold_map_insert_all; [|constructor].
    eapply dec_len_seq_all; [|exact E]. intros bs0 x r1 Hx. cbn beta in Hx.
    destruct (dec c0 true t1 bs0) as [[a ra]|e|w] eqn:Ea; cbn [bind fst snd] in Hx; try discriminate.
    destruct (dec c0 true t2 ra) as [[b rb]|e|w] eqn:Eb; cbn [bind fst snd] in Hx; try discriminate.
    inversion Hx; subst. cbn [fst snd]. split; eauto.
  - (* TSet *) destruct (dec_len_seq (dec c0 true t) bs) as [[l r0]|e|w] eqn:E; cbn [bind fst snd] in H; try discriminate.
    inversion H; subst. cbn [check]. apply forallb_forall. apply Forall_forall.
    apply fold_set_insert_all; [|constructor].
    eapply dec_len_seq_all; [|exact E]. intros bs0 x r1 Hx. eapply IHt; eauto.
  - (* TWrap *) cbn [check]. destruct vl.
    + eapply IHt; eauto.
    + apply vtriv_check; auto.
  - (* TStruct *) cbn [check]. eapply IHt; eauto.
  - (* TLeaf *) destruct (read_uint w bs) as [[u r0]|e|w0]; cbn [bind fst snd andb] in H; try discriminate.
    destruct (leaf_ok k u) eqn:E; cbn [negb] in H; [|discriminate]. inversion H; subst. cbn [check]. exact E.
Qed.

(* ---------- 2. Validate::Yes is a restriction of Validate::No ---------- *)
Definition sub {A} (D1 D2 : list Z -> outcome (A * list Z)) : Prop :=
  forall bs x r, D1 bs = Ok (x, r) -> D2 bs = Ok (x, r).

Section LoopSub.
  Context {A : Type} (D1 D2 : list Z -> outcome (A * list Z)) (HS : sub D1 D2).

  Lemma dec_many_sub f : forall k, sub (dec_many D1 f k) (dec_many D2 f k).
  Proof.
    induction f as [|f IH]; intros k bs xs r H; cbn [dec_many] in *.
    - destruct (k <=? 0); [exact H|discriminate].
    - destruct (k <=? 0); [exact H|].
      destruct (D1 bs) as [[x r0]|e|w] eqn:E; try discriminate. rewrite (HS _ _ _ E).
      destruct (dec_many D1 f (k - 1) r0) as [[xs' r']|e|w] eqn:E'; try discriminate.
      rewrite (IH _ _ _ _ E'). exact H.
  Qed.

  Lemma dec_len_seq_sub : sub (dec_len_seq D1) (dec_len_seq D2).
  Proof.
    intros bs xs r. unfold dec_len_seq.
    destruct (read_uint 8 bs) as [[l r0]|e|w]; cbn [bind fst snd]; try discriminate. apply dec_many_sub.
  Qed.
End LoopSub.

Theorem dec_yes_no : forall t c bs v r, dec c true t bs = Ok (v, r) -> dec c false t bs = Ok (v, r).
Proof.
  induction t; intros c0 bs v r H; cbn [dec] in *; try exact H.
  - (* TEven *) destruct (read_uint 1 bs) as [[u r0]|e|w]; cbn [bind fst snd andb] in *; try discriminate.
    destruct (Z.odd u); [discriminate|exact H].
  - (* TOption *) destruct (dec_bool bs) as [[b r0]|e|w]; cbn [bind fst snd] in *; try discriminate.
    destruct b; [|exact H].
    destruct (dec c0 true t r0) as [[y r1]|e|w] eqn:E; cbn [bind fst snd] in H; try discriminate.
    rewrite (IHt _ _ _ _ E). exact H.
  - (* TPair *) destruct (dec c0 true t1 bs) as [[y r1]|e|w] eqn:E1; cbn [bind fst snd] in H; try discriminate.
    rewrite (IHt1 _ _ _ _ E1). cbn [bind fst snd].
    destruct (dec c0 true t2 r1) as [[z r2]|e|w] eqn:E2; cbn [bind fst snd] in H; try discriminate.
    rewrite (IHt2 _ _ _ _ E2). exact H.
  - (* TArray *) destruct (dec_n (dec c0 false t) n bs) as [[l r0]|e|w]; cbn [bind] in *; try discriminate.
    unfold batch_checked in *. cbn [fst snd andb] in *.
    destruct (forallb (check t) l); cbn [negb] in H; [exact H|discriminate].
  - (* TSeq *) destruct (dec_len_seq (dec c0 false t) bs) as [[l r0]|e|w]; cbn [bind] in *; try discriminate.
    unfold batch_checked in *. cbn [fst snd andb] in *.
    destruct (forallb (check t) l); cbn [negb] in H; [exact H|discriminate].
  - (* TMap *)
    match type of H with bind (dec_len_seq ?D bs) _ = _ =>
      destruct (dec_len_seq D bs) as [[l r0]|e|w] eqn:E end; cbn [bind] in H; try discriminate.
    assert (E2 : dec_len_seq (fun bs0 => bind (dec c0 false t1 bs0) (fun ar =>
                   bind (dec c0 false t2 (snd ar)) (fun br => Ok ((fst ar, fst br), snd br)))) bs = Ok (l, r0)).
    { eapply dec_len_seq_sub; [|exact E]. intros bs0 x r1 Hx. cbn beta in *.
      destruct (dec c0 true t1 bs0) as [[a ra]|e|w] eqn:Ea; cbn [bind fst snd] in Hx; try discriminate.
      rewrite (IHt1 _ _ _ _ Ea). cbn [bind fst snd].
      destruct (dec c0 true t2 ra) as [[b rb]|e|w] eqn:Eb; cbn [bind fst snd] in Hx; try discriminate.
      rewrite (IHt2 _ _ _ _ Eb). exact Hx. }
    rewrite E2. exact H.
  - (* TSet *) destruct (dec_len_seq (dec c0 true t) bs) as [[l r0]|e|w] eqn:E; cbn [bind] in H; try discriminate.
    rewrite (dec_len_seq_sub (dec c0 true t) (dec c0 false t) (IHt c0) _ _ _ E). exact H.
  - (* TStruct *) apply IHt; exact H.
  - (* TLeaf *) destruct (read_uint w bs) as [[u r0]|e|w0]; cbn [bind fst snd andb] in *; try discriminate.
    destruct (leaf_ok k u); cbn [negb] in H; [exact H|discriminate].
Qed.

(* ---------- 3. ... whose only additional outcome is InvalidData ---------- *)
Definition rej {A} (D1 D2 : list Z -> outcome (A * list Z)) : Prop :=
  forall bs x r, D1 bs = Ok (x, r) -> D2 bs = Ok (x, r) \/ D2 bs = Err EINVALID.

Section LoopRej.
  Context {A : Type} (D1 D2 : list Z -> outcome (A * list Z)) (HR : rej D1 D2).

  Lemma dec_many_rej f : forall k, rej (dec_many D1 f k) (dec_many D2 f k).
  Proof.
    induction f as [|f IH]; intros k bs xs r H; cbn [dec_many] in *.
    - destruct (k <=? 0); [left; exact H|discriminate].
    - destruct (k <=? 0); [left; exact H|].
      destruct (D1 bs) as [[x r0]|e|w] eqn:E; try discriminate.
      destruct (HR _ _ _ E) as [-> | ->]; [|right; reflexivity].
      destruct (dec_many D1 f (k - 1) r0) as [[xs' r']|e|w] eqn:E'; try discriminate.
      destruct (IH _ _ _ _ E') as [-> | ->]; [left; exact H|right; reflexivity].
  Qed.

  Lemma dec_len_seq_rej : rej (dec_len_seq D1) (dec_len_seq D2).
  Proof.
    intros bs xs r. unfold dec_len_seq.
    destruct (read_uint 8 bs) as [[l r0]|e|w]; cbn [bind fst snd]; try discriminate. apply dec_many_rej.
  Qed.
End LoopRej.

Theorem dec_no_yes_weak : forall t c bs v r, dec c false t bs = Ok (v, r) ->
  dec c true t bs = Ok (v, r) \/ dec c true t bs = Err EINVALID.
Proof.
  induction t; intros c0 bs v r H; cbn [dec] in *; try (left; exact H).
  - (* TEven *) destruct (read_uint 1 bs) as [[u r0]|e|w]; cbn [bind fst snd andb] in *; try discriminate.
    destruct (Z.odd u); [right; reflexivity|left; exact H].
  - (* TOption *) destruct (dec_bool bs) as [[b r0]|e|w]; cbn [bind fst snd] in *; try discriminate.
    destruct b; [|left; exact H].
    destruct (dec c0 false t r0) as [[y r1]|e|w] eqn:E; cbn [bind fst snd] in H; try discriminate.
    destruct (IHt _ _ _ _ E) as [-> | ->]; cbn [bind fst snd]; [left; exact H|right; reflexivity].
  - (* TPair *) destruct (dec c0 false t1 bs) as [[y r1]|e|w] eqn:E1; cbn [bind fst snd] in H; try discriminate.
    destruct (IHt1 _ _ _ _ E1) as [-> | ->]; cbn [bind fst snd]; [|right; reflexivity].
    destruct (dec c0 false t2 r1) as [[z r2]|e|w] eqn:E2; cbn [bind fst snd] in H; try discriminate.
    destruct (IHt2 _ _ _ _ E2) as [-> | ->]; cbn [bind fst snd]; [left; exact H|right; reflexivity].
  - (* TArray *) destruct (dec_n (dec c0 false t) n bs) as [[l r0]|e|w]; cbn [bind] in *; try discriminate.
    unfold batch_checked in *. cbn [fst snd andb] in *.
    destruct (forallb (check t) l); cbn [negb]; [left; exact H|right; reflexivity].
  - (* TSeq *) destruct (dec_len_seq (dec c0 false t) bs) as [[l r0]|e|w]; cbn [bind] in *; try discriminate.
    unfold batch_checked in *. cbn [fst snd andb] in *.
    destruct (forallb (check t) l); cbn [negb]; [left; exact H|right; reflexivity].
  - (* TMap *)
    match type of H with bind (dec_len_seq ?D bs) _ = _ =>
      destruct (dec_len_seq D bs) as [[l r0]|e|w] eqn:E end; cbn [bind] in H; try discriminate.
    assert (E2 : rej (fun bs0 => bind (dec c0 false t1 bs0) (fun ar =>
                   bind (dec c0 false t2 (snd ar)) (fun br => Ok ((fst ar, fst br), snd br))))
                 (fun bs0 => bind (dec c0 true t1 bs0) (fun ar =>
                   bind (dec c0 true t2 (snd ar)) (fun br => Ok ((fst ar, fst br), snd br))))).
    { intros bs0 x r1 Hx. cbn beta in *.
      destruct (dec c0 false t1 bs0) as [[a ra]|e|w] eqn:Ea; cbn [bind fst snd] in Hx; try discriminate.
      destruct (IHt1 _ _ _ _ Ea) as [-> | ->]; cbn [bind fst snd]; [|right; reflexivity].
      destruct (dec c0 false t2 ra) as [[b rb]|e|w] eqn:Eb; cbn [bind fst snd] in Hx; try discriminate.
      destruct (IHt2 _ _ _ _ Eb) as [-> | ->]; cbn [bind fst snd]; [left; exact Hx|right; reflexivity]. }
    destruct (dec_len_seq_rej _ _ E2 _ _ _ E) as [-> | ->]; cbn [bind]; [left; exact H|right; reflexivity].
  - (* TSet *) destruct (dec_len_seq (dec c0 false t) bs) as [[l r0]|e|w] eqn:E; cbn [bind] in H; try discriminate.
    destruct (dec_len_seq_rej (dec c0 false t) (dec c0 true t) (IHt c0) _ _ _ E) as [-> | ->]; cbn [bind];
      [left; exact H|right; reflexivity].
  - (* TStruct *) apply IHt; exact H.
  - (* TLeaf *) destruct (read_uint w bs) as [[u r0]|e|w0]; cbn [bind fst snd andb] in *; try discriminate.
    destruct (leaf_ok k u); cbn [negb]; [left; exact H|right; reflexivity].
Qed.

(* ---------- 4. exactly the invalid values are rejected ---------- *)
Theorem dec_no_yes_exact : forall t, exact_ty t = true -> forall c bs v r,
  dec c false t bs = Ok (v, r) ->
  dec c true t bs = if check t v then Ok (v, r) else Err EINVALID.
Proof.
  induction t; intros He c0 bs v r H; cbn [exact_ty] in He; try exact H.
  - (* TEven *) cbn [dec] in *.
    destruct (read_uint 1 bs) as [[u r0]|e|w]; cbn [bind fst snd andb] in *; try discriminate.
    inversion H; subst. cbn [check]. rewrite <- Z.negb_odd. destruct (Z.odd u); reflexivity.
  - (* TOption *) cbn [dec] in *.
    destruct (dec_bool bs) as [[b r0]|e|w]; cbn [bind fst snd] in *; try discriminate.
    destruct b.
    + destruct (dec c0 false t r0) as [[y r1]|e|w] eqn:E; cbn [bind fst snd] in H; try discriminate.
      inversion H; subst. rewrite (IHt He _ _ _ _ E). cbn [check]. destruct (check t y); reflexivity.
    + inversion H; subst. reflexivity.
  - (* TPair *) cbn [dec] in *. apply andb_true_iff in He as [H1 H2].
    destruct (dec c0 false t1 bs) as [[y r1]|e|w] eqn:E1; cbn [bind fst snd] in H; try discriminate.
    destruct (dec c0 false t2 r1) as [[z r2]|e|w] eqn:E2; cbn [bind fst snd] in H; try discriminate.
    inversion H; subst. rewrite (IHt1 H1 _ _ _ _ E1). cbn [check].
    destruct (check t1 y); cbn [bind fst snd andb]; [|reflexivity].
    rewrite (IHt2 H2 _ _ _ _ E2). destruct (check t2 z); reflexivity.
  - (* TArray *) cbn [dec] in *.
    destruct (dec_n (dec c0 false t) n bs) as [[l r0]|e|w]; cbn [bind] in *; try discriminate.
    unfold batch_checked in *. cbn [fst snd andb] in *. inversion H; subst. cbn [check].
    destruct (forallb (check t) l); reflexivity.
  - (* TSeq *) cbn [dec] in *.
    destruct (dec_len_seq (dec c0 false t) bs) as [[l r0]|e|w]; cbn [bind] in *; try discriminate.
    unfold batch_checked in *. cbn [fst snd andb] in *. inversion H; subst. cbn [check].
    destruct (forallb (check t) l); reflexivity.
  - (* TMap *) rewrite vtriv_dec, H, vtriv_check by exact He. reflexivity.
  - (* TSet *) rewrite vtriv_dec, H, vtriv_check by exact He. reflexivity.
  - (* TWrap *) cbn [dec] in *. rewrite H. cbn [check]. destruct vl.
    + rewrite (dec_yes_valid t (exact_checked t He) _ _ _ _ H). reflexivity.
    + rewrite vtriv_check by exact He. reflexivity.
  - (* TStruct *) cbn [dec check] in *. apply IHt; assumption.
  - (* TLeaf *) cbn [dec] in *.
    destruct (read_uint w bs) as [[u r0]|e|w0]; cbn [bind fst snd andb] in *; try discriminate.
    inversion H; subst. cbn [check]. destruct (leaf_ok k u); reflexivity.
Qed.

(* ---------- instances the harness exercises, spelled out ---------- *)
(* a sequence two containers deep: one invalid leaf anywhere makes Validate::Yes reject, Validate::No accept *)
Lemma nested_seq_invalid_leaf : forall t c bs l r, exact_ty t = true ->
  dec c false (TSeq (TSeq t)) bs = Ok (VList l, r) ->
  existsb (fun inner => match inner with VList xs => existsb (fun x => negb (check t x)) xs | _ => false end) l = true ->
  dec c true (TSeq (TSeq t)) bs = Err EINVALID.
Proof.
  intros t c bs l r He H Hex.
  rewrite (dec_no_yes_exact (TSeq (TSeq t)) He c bs _ _ H).
  replace (check (TSeq (TSeq t)) (VList l)) with false; [reflexivity|].
  symmetry. cbn [check]. apply not_true_is_false. intros Hall. rewrite forallb_forall in Hall.
  apply existsb_exists in Hex as (inner & Hin & Hex). specialize (Hall inner Hin).
  destruct inner; try discriminate. cbn [check] in Hall. rewrite forallb_forall in Hall.
  apply existsb_exists in Hex as (x & Hx & Hn). rewrite (Hall x Hx) in Hn. discriminate.
Qed.
