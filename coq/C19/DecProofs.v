(* C19 -- a short-Weierstrass point obtained by deserialization (coq/C09 codec model) is stored canonically:
   whenever the decoded value has its infinity flag set it is structurally Affine::identity() = (0, 0, true),
   whatever the coordinate bytes of the buffer were.  Hence the derived `==` / Hash against identity() agree
   with is_zero() on every decoded value. *)
From V Require Import Base.Field C09.Bytes C09.FpCodec C09.PointCodec.

Section DecCanonical.
  Context {K : Type} (F : Fops K) (C : Codec K).
  Variables (sqrt : K -> option K) (cmp : K -> K -> comparison) (ca cb : K) (sub : swaff (K := K) -> bool).

  Theorem sw_dec_infinity_is_identity : forall bs compress validate P rest,
    sw_dec F C sqrt cmp ca cb sub bs compress validate = Ok (P, rest) ->
    sinf P = true -> P = sw_identity F.
  Proof.
    intros bs compress validate P rest H Hinf. unfold sw_dec in H.
    match type of H with bind ?X _ = _ => destruct X as [[[[x y] flags] rest'] | e |] end; cbn [bind] in H;
      [|discriminate|discriminate].
    destruct flags.
    - destruct validate.
      + destruct (sw_check F ca cb sub (mkSW x y false)); cbn [bind] in H; try discriminate.
        inversion H; subst. discriminate Hinf.
      + inversion H; subst. discriminate Hinf.
    - inversion H. reflexivity.
    - destruct validate.
      + destruct (sw_check F ca cb sub (mkSW x y false)); cbn [bind] in H; try discriminate.
        inversion H; subst. discriminate Hinf.
      + inversion H; subst. discriminate Hinf.
  Qed.
End DecCanonical.

(* y^2 = x^3 + 7 over F_13: the uncompressed bytes of the point (7, 8) with the infinity bit set on top
   (7, 8 + 64) decode, in both Validate modes, to the identity with blank coordinates *)
From V Require Import C09.Exec.
Lemma ex_dec_infinity_nonblank :
  let F := ZpOps 13 in let C := fp_codec 1 13 in let sq := fsqrt F 2 in
  let sub := fun P : swaff => sw_order_divides F 0 7 (sx P) (sy P) in
  sw_dec F C sq Z.compare 0 7 sub [7; 72] false true = Ok (sw_identity F, []) /\
  sw_dec F C sq Z.compare 0 7 sub [7; 72] false false = Ok (mkSW 0 0 true, []) /\
  sw_dec F C sq Z.compare 0 7 sub [71] true false = Ok (sw_identity F, []).
Proof. vm_compute. repeat split. Qed.
