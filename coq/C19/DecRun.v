(* C19 -- interpreter of the `pt_decoded_rel` cases (op 15): curve points obtained by DESERIALIZING byte
   buffers (canonical and rarely produced encodings), compared with the identity and with each other.
   The expected decode is the coq/C09 codec model (C09/PointCodec.v sw_dec / te_dec, proved in Props/C09.v);
   the relations are the C19 models of the derived `==` / Hash / is_zero on the stored structures.
     a[0] = [cfg; kind; N; var; model]   model 0 = short Weierstrass, 1 = twisted Edwards; kind 1 = Fp, 2 = Fp2
     a[1] = [p] | [p; nr]    a[2] = COEFF_A   a[3] = COEFF_B | COEFF_D   a[4] = [r] (prime subgroup order)
     a[5] = [compress1; validate1; compress2; validate2]   a[6] = bytes1   a[7] = bytes2
   -> for each buffer:  Err:  [0] [] [] []
                        Ok v: [1; v==id; id==v; v.is_zero(); hash v = hash id; v.into_group().into_affine()==v;
                               v.into_group().is_zero(); v.into_group()==zero(); bytes consumed]
                              x ++ y (++ [infinity])   compressed re-serialization   uncompressed re-serialization
      then, if both are Ok: [v1==v2; v2==v1; hash v1 = hash v2; v1.into_group()==v2.into_group();
                             hash of the projective points equal], otherwise []. *)
From V Require Import Base.Field C03.CurveExec C19.OrdModel.
From V Require C09.Bytes C09.FpCodec C09.PointCodec C09.Exec C09.Run.

Definition darg (n : nat) (a : list (list Z)) : list Z := nth n a [].
Definition dargz (n i : nat) (a : list (list Z)) : Z := nth i (darg n a) 0.
Definition dbytes {A} (r : Bytes.res A) (f : A -> list Z) : list Z :=
  match r with Bytes.Ok v => f v | _ => [] end.

Section DecRun.
  Context {T : Type} (F : Fops T) (W : C09.Run.Tower) (inj : T -> C09.Run.tw_T W) (prj : C09.Run.tw_T W -> T).
  Variable cmpf : T -> T -> comparison.
  Let b2z := Z.b2z.
  Let zlen (l : list Z) : Z := Z.of_nat (length l).
  Let Cd := C09.Run.codecT W inj prj.

  (* sw::Affine as decoded by the codec model -> the stored triple of C19 *)
  Definition sw_raw_of_dec (v : PointCodec.swaff (K := T)) : sw_raw (T := T) :=
    (PointCodec.sx v, PointCodec.sy v, PointCodec.sinf v).

  Definition sw_one (bs : list Z) (r : Bytes.res (PointCodec.swaff (K := T) * list Z)) : list (list Z) :=
    match r with
    | Bytes.Ok (v, rest) =>
        let raw := sw_raw_of_dec v in
        let id := sw_raw_of_aff F None in
        let G := sw_of_affine F (sw_aff_of_raw raw) in
        [[1; b2z (sw_raw_eqb F raw id); b2z (sw_raw_eqb F id raw); b2z (sw_aff_is_zero raw);
          b2z (sw_raw_eqb F raw id); b2z (sw_raw_eqb F (sw_into_affine F G) raw);
          b2z (sw_is_zero F G); b2z (sw_eqb F G (sw_zero F)); zlen bs - zlen rest];
         fcoords F (PointCodec.sx v) ++ fcoords F (PointCodec.sy v) ++ [b2z (PointCodec.sinf v)];
         dbytes (PointCodec.sw_enc F Cd cmpf v true) (fun b => b);
         dbytes (PointCodec.sw_enc F Cd cmpf v false) (fun b => b)]
    | _ => [[0]; []; []; []]
    end.
  Definition sw_two (r1 r2 : Bytes.res (PointCodec.swaff (K := T) * list Z)) : list Z :=
    match r1, r2 with
    | Bytes.Ok (v1, _), Bytes.Ok (v2, _) =>
        let a1 := sw_raw_of_dec v1 in let a2 := sw_raw_of_dec v2 in
        let G1 := sw_of_affine F (sw_aff_of_raw a1) in let G2 := sw_of_affine F (sw_aff_of_raw a2) in
        [b2z (sw_raw_eqb F a1 a2); b2z (sw_raw_eqb F a2 a1); b2z (sw_raw_eqb F a1 a2);
         b2z (sw_eqb F G1 G2); b2z (sw_raw_eqb F (sw_hash_key F G1) (sw_hash_key F G2))]
    | _, _ => []
    end.

  Definition te_one (bs : list Z) (r : Bytes.res (PointCodec.teaff (K := T) * list Z)) : list (list Z) :=
    match r with
    | Bytes.Ok (v, rest) =>
        let A : te_aff (T := T) := (PointCodec.tx v, PointCodec.ty v) in
        let id := te_aff_zero F in
        let G := te_of_affine F A in
        [[1; b2z (te_aff_eqb F A id); b2z (te_aff_eqb F id A); b2z (te_aff_is_zero F A);
          b2z (te_aff_eqb F A id); b2z (te_aff_eqb F (te_hash_key F G) A);
          b2z (te_is_zero F G); b2z (te_eqb F G (te_zero F)); zlen bs - zlen rest];
         fcoords F (PointCodec.tx v) ++ fcoords F (PointCodec.ty v);
         dbytes (PointCodec.te_enc F Cd cmpf v true) (fun b => b);
         dbytes (PointCodec.te_enc F Cd cmpf v false) (fun b => b)]
    | _ => [[0]; []; []; []]
    end.
  Definition te_two (r1 r2 : Bytes.res (PointCodec.teaff (K := T) * list Z)) : list Z :=
    match r1, r2 with
    | Bytes.Ok (v1, _), Bytes.Ok (v2, _) =>
        let a1 : te_aff (T := T) := (PointCodec.tx v1, PointCodec.ty v1) in
        let a2 : te_aff (T := T) := (PointCodec.tx v2, PointCodec.ty v2) in
        let G1 := te_of_affine F a1 in let G2 := te_of_affine F a2 in
        [b2z (te_aff_eqb F a1 a2); b2z (te_aff_eqb F a2 a1); b2z (te_aff_eqb F a1 a2);
         b2z (te_eqb F G1 G2); b2z (te_aff_eqb F (te_hash_key F G1) (te_hash_key F G2))]
    | _, _ => []
    end.

  Definition run_dec (a : list (list Z)) : list (list Z) :=
    let ca := C09.Run.el F (darg 2 a) in
    let cb := C09.Run.el F (darg 3 a) in
    let r := dargz 4 0 a in
    let fl (i : nat) := negb (dargz 5 i a =? 0) in
    let b1 := darg 6 a in let b2 := darg 7 a in
    match Exec.find_nonresidue F 400 1 with
    | None => [[2]]
    | Some nr =>
      let sqrt := Exec.fsqrt F nr in
      match dargz 0 4 a with
      | 0 =>
          let sub := fun P : PointCodec.swaff => Exec.sw_order_divides F ca r (PointCodec.sx P) (PointCodec.sy P) in
          let d bs c v := PointCodec.sw_dec F Cd sqrt cmpf ca cb sub bs c v in
          let r1 := d b1 (fl 0%nat) (fl 1%nat) in let r2 := d b2 (fl 2%nat) (fl 3%nat) in
          [[0]] ++ sw_one b1 r1 ++ sw_one b2 r2 ++ [sw_two r1 r2]
      | 1 =>
          let sub := fun P : PointCodec.teaff => Exec.te_order_divides F ca cb r (PointCodec.tx P) (PointCodec.ty P) in
          let d bs c v := PointCodec.te_dec F Cd sqrt cmpf ca cb sub bs c v in
          let r1 := d b1 (fl 0%nat) (fl 1%nat) in let r2 := d b2 (fl 2%nat) (fl 3%nat) in
          [[0]] ++ te_one b1 r1 ++ te_one b2 r2 ++ [te_two r1 r2]
      | _ => [[9]]
      end
    end.
End DecRun.

Definition run_dec_C19 (a : list (list Z)) : list (list Z) :=
  let N := Z.to_nat (dargz 0 2 a) in
  let p := dargz 1 0 a in
  match dargz 0 1 a with
  | 1 => run_dec (ZpOps p) (C09.Run.tower_fp N p) (fun x => x) (fun x => x) Z.compare a
  | 2 => run_dec (QuadOps (ZpOps p) (dargz 1 1 a)) (C09.Run.tower_quad (C09.Run.tower_fp N p))
                 (fun x => x) (fun x => x) (Exec.quad_cmp Z.compare) a
  | _ => [[9]]
  end.
