(* C19 -- concrete witnesses showing that the hypotheses of the theorems are satisfiable. *)
From V Require Import Base.Word Base.Field C01.MontModel C01.MontProofs C03.CurveExec C03.FieldHyp C03.TEProofs
  C19.OrdModel C19.Exprs C19.OrdProofs C19.PointProofs.
Require Import Lia QArith Qcanon.
Open Scope Z_scope.

(* F_13 with one limb: 5 is stored as 5 * 2^64 mod 13 = 2 *)
Lemma ex_mod13 : wf [13] /\ val [13] mod 2 = 1 /\ 1 < val [13].
Proof. repeat split; try reflexivity. repeat constructor; unfold W64; lia. Qed.

Lemma ex_fp_valid : fp_valid [13] (fp_of_int [13] 5) /\ fp_valid [13] (fp_of_int [13] 11) /\
  fp_of_int [13] 5 = [2] /\ std [13] (fp_of_int [13] 5) = 5.
Proof.
  destruct ex_mod13 as (Hm & Ho & Hp).
  destruct (fp_of_int_spec [13] Hm Ho Hp 5) as [V5 S5].
  destruct (fp_of_int_spec [13] Hm Ho Hp 11) as [V11 _].
  split; [exact V5|]. split; [exact V11|]. split; [vm_compute; reflexivity|].
  rewrite S5. reflexivity.
Qed.

Lemma ex_limbs : limbs_N 2 [5; 7] /\ limbs_N 2 [6; 7].
Proof. repeat split; repeat constructor; unfold W64; lia. Qed.

(* points over the rationals: y^2 = x^3 + 1, (2, 3); rescaling by 2 *)
Lemma ex_rescale_nz : q 2 <> f0 QcOps.
Proof. intro H. apply (f_equal (fun x => Qnum (this x))) in H. vm_compute in H. discriminate H. Qed.

Lemma ex_three_nz : q 3 <> f0 QcOps.
Proof. intro H. apply (f_equal (fun x => Qnum (this x))) in H. vm_compute in H. discriminate H. Qed.
Lemma ex_five_nz : q 5 <> f0 QcOps.
Proof. intro H. apply (f_equal (fun x => Qnum (this x))) in H. vm_compute in H. discriminate H. Qed.
Lemma ex_te_valid_ord2 : te_valid QcOps (q 0, q (-3), q 0, q 3).
Proof. cbn. split; [exact ex_three_nz | reflexivity]. Qed.
Lemma ex_sw_order_two_affine : sw_to_affine QcOps (q (-4), q 0, q 2) = Some (q (-1), q 0).
Proof. cbv [sw_to_affine]. cbn. f_equal. f_equal; apply Qc_is_canon; vm_compute; reflexivity. Qed.

Lemma ex_te_valid : te_valid QcOps (q 0, q 3, q 0, q 3).
Proof.
  cbn. split; [|reflexivity].
  intro H. apply (f_equal (fun x => Qnum (this x))) in H. vm_compute in H. discriminate H.
Qed.

Lemma ex_canonical : dense_canonical 0 [1; 0; 2] /\ dense_canonical 0 (trim (Z.eqb 0) [1; 0; 2; 0; 0]).
Proof. split; right; vm_compute; discriminate. Qed.

Lemma ex_sparse : sparse_canonical 0 0 [(0, 1); (3, 5)] /\
  sparse_of_dense (Z.eqb 0) 0 [1; 0; 0; 5] = [(0, 1); (3, 5)].
Proof. split; [cbn; repeat split; lia | reflexivity]. Qed.
