(* C19 -- the "different operation sequences" that produce the compared values (model file,
   no proofs).  Field / polynomial expressions are evaluated at specification level
   (Base.Field dictionaries: C01/C02/C08 prove the Rust algorithms equal to these); point
   expressions are evaluated with the C03 models of the Rust formulas (scalar
   multiplication by plain double-and-add: all multiplication paths of the Rust code denote
   the same point, possibly through different representatives -- which is what is tested). *)
From V Require Import Base.Word Base.Field C15.BigIntModel C03.CurveExec C19.OrdModel.

Section FExpr.
  Context {T : Type} (F : Fops T).
  Local Notation "x + y" := (fadd F x y). Local Notation "x - y" := (fsub F x y).
  Local Notation "x * y" := (fmul F x y). Local Notation "- x" := (fneg F x).

  Definition fexpr (e : Z) (a b c : T) : T :=
    match e with
    | 0 => a | 1 => b | 2 => a + b | 3 => b + a
    | 4 => (a * b) * c | 5 => a * (b * c)
    | 6 => a * (b + c) | 7 => a * b + a * c
    | 8 => a - b | 9 => - (b - a)
    | 10 => a + f1 F | 11 => a - f1 F
    | 12 => a * a | 13 => a * a                       (* a * a ; a.square() *)
    | 14 => a + a | 15 => a + a                       (* a.double() ; a + a *)
    | 16 => - a | 17 => f0 F - a
    | 18 => if feqb F b (f0 F) then a else (a * finv F b) * b
    | 19 => f0 F | 20 => f1 F
    | 21 => a * f1 F | 22 => a + f0 F
    | 23 => c | 24 => a * b | 25 => b * a
    | 26 => (a + b) + c | 27 => a + (b + c)
    | 28 => finv F (finv F a)                         (* 0 stays 0 (harness keeps it) *)
    | 29 => - (- a)
    | 30 => (a - b) + b
    | 31 => a * f0 F
    | _ => f0 F
    end.
End FExpr.

(* ---------- BigInt<N> ---------- *)
Definition bexpr (e : Z) (a b : list Z) : list Z :=
  let n := length a in
  match e with
  | 0 => a | 1 => b
  | 2 => fst (add_with_carry a b) | 3 => fst (add_with_carry b a)
  | 4 => fst (mul2 a) | 5 => fst (add_with_carry a a)
  | 6 => fst (add_with_carry (fst (sub_with_borrow a b)) b)
  | 7 => repeat 0 n                                   (* BigInt::zero() *)
  | 8 => to_limbs n 1                                 (* BigInt::one() *)
  | 9 => fst (sub_with_borrow a a)
  | 10 => fst (add_with_carry a (to_limbs n 1))
  | 11 => shl (shr a 1) 1                             (* (a >> 1) << 1 *)
  | 12 => fst (sub_with_borrow a (to_limbs n (hd 0 a mod 2)))   (* a - (a & 1) *)
  | _ => repeat 0 n
  end.

(* ---------- short Weierstrass ---------- *)
Section SWExpr.
  Context {T : Type} (F : Fops T) (a : T).
  Local Notation jac := (sw_jac (T := T)).

  Fixpoint sw_mul_pos (k : positive) (P : jac) : jac :=
    match k with
    | xH => P
    | xO k' => sw_double F a (sw_mul_pos k' P)
    | xI k' => sw_add F a (sw_double F a (sw_mul_pos k' P)) P
    end.
  Definition sw_mul (k : Z) (P : jac) : jac :=
    match k with Z0 => sw_zero F | Zpos k' => sw_mul_pos k' P | Zneg k' => sw_neg F (sw_mul_pos k' P) end.

  Definition sw_rescale (lam : T) (P : jac) : jac :=
    let '(x, y, z) := P in
    let l2 := fmul F lam lam in (fmul F x l2, fmul F y (fmul F l2 lam), fmul F z lam).

  (* G : generator (affine); A = s1 G, B = s2 G (affine); k, l scalars; (rx, ry) raw coordinates *)
  Definition swexpr (e : Z) (A B : sw_aff (T := T)) (k l : Z) (rx ry : T) : jac :=
    let PA := sw_of_affine F A in
    let PB := sw_of_affine F B in
    match e with
    | 0 => PA | 1 => PB
    | 2 => sw_add F a PA PB | 3 => sw_add F a PB PA
    | 4 => sw_madd F a PA B | 5 => sw_aff_add_aff F a A B
    | 6 => sw_mul k PA | 7 => sw_mul k PA | 8 => sw_mul k PA     (* mul_bigint / repeated addition / wNAF *)
    | 9 => sw_add F a (sw_mul k PA) (sw_mul l PA)
    | 10 => sw_mul (k + l) PA
    | 11 => sw_double F a PA | 12 => sw_add F a PA PA
    | 13 => sw_neg F PA | 14 => sw_sub F a (sw_zero F) PA
    | 15 => (rx, ry, f0 F)                                         (* identity, arbitrary X, Y *)
    | 16 => sw_zero F
    | 17 => sw_sub F a PA PA
    | 18 => sw_sub F a (sw_mul (k + 1) PA) (sw_mul k PA)          (* = A *)
    | 19 => sw_of_affine F None                                    (* Affine::identity().into_group() *)
    | 20 => sw_add F a PA (sw_neg F PA)
    | 21 => sw_madd F a (sw_mul k PA) A                            (* kA + A (mixed) *)
    | 22 => sw_mul (k + 1) PA
    | _ => sw_zero F
    end.
End SWExpr.

(* ---------- twisted Edwards ---------- *)
Section TEExpr.
  Context {T : Type} (F : Fops T) (a d : T).
  Local Notation ext := (te_ext (T := T)).

  Fixpoint te_mul_pos (k : positive) (P : ext) : ext :=
    match k with
    | xH => P
    | xO k' => te_double F a (te_mul_pos k' P)
    | xI k' => te_add F a d (te_double F a (te_mul_pos k' P)) P
    end.
  Definition te_mul (k : Z) (P : ext) : ext :=
    match k with Z0 => te_zero F | Zpos k' => te_mul_pos k' P | Zneg k' => te_neg F (te_mul_pos k' P) end.

  Definition te_rescale (lam : T) (P : ext) : ext :=
    let '(x, y, t, z) := P in (fmul F x lam, fmul F y lam, fmul F t lam, fmul F z lam).

  Definition teexpr (e : Z) (A B : te_aff (T := T)) (k l : Z) (rz : T) : ext :=
    let PA := te_of_affine F A in
    let PB := te_of_affine F B in
    match e with
    | 0 => PA | 1 => PB
    | 2 => te_add F a d PA PB | 3 => te_add F a d PB PA
    | 4 => te_madd F a d PA B | 5 => te_madd F a d (te_of_affine F A) B
    | 6 => te_mul k PA | 7 => te_mul k PA | 8 => te_mul k PA
    | 9 => te_add F a d (te_mul k PA) (te_mul l PA)
    | 10 => te_mul (k + l) PA
    | 11 => te_double F a PA | 12 => te_add F a d PA PA
    | 13 => te_neg F PA | 14 => te_sub F a d (te_zero F) PA
    | 15 => (f0 F, rz, f0 F, rz)                                   (* identity (0, z, 0, z) *)
    | 16 => te_zero F
    | 17 => te_sub F a d PA PA
    | 18 => te_sub F a d (te_mul (k + 1) PA) (te_mul k PA)
    | 19 => te_of_affine F (f0 F, f1 F)
    | 20 => te_add F a d PA (te_neg F PA)
    | 21 => te_madd F a d (te_mul k PA) A
    | 22 => te_mul (k + 1) PA
    | _ => te_zero F
    end.
End TEExpr.

(* polynomial expressions: PolyExprs.v (built from the coq/C08 operator models) *)
