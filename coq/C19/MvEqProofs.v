(* C19 -- multivariate sparse polynomials: the derived `==` on canonically stored term lists is identity of
   the coefficient maps; every operator result (coq/C17 models) is stored canonically; `p += (0, &q)` is p. *)
From V Require Import Base.Field C17.Mle C17.MvPoly C17.Spec C17.MvProofs C19.MvModel.
Require Import Coq.setoid_ring.Ring_theory Bool Lia List.
Import ListNotations.
Open Scope Z_scope.

Section MvCanonical.
  Context {T : Type} (z : T) (eqb : T -> T -> bool) (is0 : T -> bool).
  Hypothesis eqb_spec : forall x y, eqb x y = true <-> x = y.
  Hypothesis is0_spec : forall x, is0 x = true <-> x = z.

  (* canonical stored list: terms canonical, strictly increasing in the term order, no zero coefficient *)
  Fixpoint mv_canonical (p : list (T * term)) : Prop :=
    match p with
    | [] => True
    | (c, t) :: p' => c <> z /\ term_canon t /\ Forall (fun du => t_cmp t (snd du) = Lt) p' /\ mv_canonical p'
    end.

  Lemma mv_eqb_eq : forall p q, mv_eqb eqb p q = true <-> p = q.
  Proof.
    induction p as [|[c t] p IH]; intros [|[d u] q]; cbn [mv_eqb].
    - tauto.
    - split; intro H; discriminate.
    - split; intro H; discriminate.
    - rewrite !andb_true_iff, eqb_spec, t_eqb_spec, IH. split.
      + intros [[E1 E2] E3]. congruence.
      + intros E. inversion E. tauto.
  Qed.

  Lemma mcoeff_above : forall p t, Forall (fun du : T * term => t_cmp t (snd du) = Lt) p -> mcoeff z p t = z.
  Proof.
    induction p as [|[d u] p IH]; intros t H; [reflexivity|].
    inversion H as [|? ? Hd Hp]; subst. cbn [mcoeff]. cbn [snd] in Hd.
    destruct (t_eqb u t) eqn:E.
    - apply t_eqb_spec in E. subst u. rewrite t_cmp_refl in Hd. discriminate.
    - apply IH. exact Hp.
  Qed.

  Lemma above_trans : forall (p : list (T * term)) t u, t_cmp t u = Lt ->
    Forall (fun du : T * term => t_cmp u (snd du) = Lt) p -> Forall (fun du : T * term => t_cmp t (snd du) = Lt) p.
  Proof.
    intros p t u Htu H. rewrite Forall_forall in *. intros x Hx. eapply t_cmp_trans; [exact Htu | apply H; exact Hx].
  Qed.

  Lemma mcoeff_head : forall c t p, mcoeff z ((c, t) :: p) t = c.
  Proof. intros c t p. cbn [mcoeff]. replace (t_eqb t t) with true; [reflexivity|]. symmetry. apply t_eqb_spec. reflexivity. Qed.

  Lemma same_coeffs_eq : forall p q, mv_canonical p -> mv_canonical q ->
    (forall t, term_canon t -> mcoeff z p t = mcoeff z q t) -> p = q.
  Proof.
    induction p as [|[c t] p IH]; intros [|[d u] q] Hp Hq Hc.
    - reflexivity.
    - exfalso. destruct Hq as (Hd & Hu & _ & _). specialize (Hc u Hu). rewrite mcoeff_head in Hc.
      cbn [mcoeff] in Hc. congruence.
    - exfalso. destruct Hp as (Hd & Hu & _ & _). specialize (Hc t Hu). rewrite mcoeff_head in Hc.
      cbn [mcoeff] in Hc. congruence.
    - destruct Hp as (Hcz & Ht & Hpa & Hp). destruct Hq as (Hdz & Hu & Hqa & Hq).
      destruct (t_cmp t u) eqn:Ecmp.
      + apply (t_cmp_eq_iff t u Ht Hu) in Ecmp. subst u.
        pose proof (Hc t Ht) as Hh. rewrite !mcoeff_head in Hh. subst d. f_equal.
        apply IH; [exact Hp | exact Hq |]. intros s Hs.
        specialize (Hc s Hs). cbn [mcoeff] in Hc. destruct (t_eqb t s) eqn:E.
        * apply t_eqb_spec in E. subst s. rewrite (mcoeff_above p t Hpa), (mcoeff_above q t Hqa). reflexivity.
        * exact Hc.
      + exfalso. specialize (Hc t Ht). rewrite mcoeff_head in Hc. cbn [mcoeff] in Hc.
        destruct (t_eqb u t) eqn:E.
        * apply t_eqb_spec in E. subst u. rewrite t_cmp_refl in Ecmp. discriminate.
        * rewrite (mcoeff_above q t (above_trans q t u Ecmp Hqa)) in Hc. congruence.
      + exfalso. apply t_cmp_gt_lt in Ecmp. specialize (Hc u Hu). rewrite mcoeff_head in Hc. cbn [mcoeff] in Hc.
        destruct (t_eqb t u) eqn:E.
        * apply t_eqb_spec in E. subst u. rewrite t_cmp_refl in Ecmp. discriminate.
        * rewrite (mcoeff_above p u (above_trans p u t Ecmp Hpa)) in Hc. congruence.
  Qed.

  Theorem mv_eq_iff_same_poly : forall p q, mv_canonical p -> mv_canonical q ->
    (mv_eqb eqb p q = true <-> forall t, term_canon t -> mcoeff z p t = mcoeff z q t).
  Proof.
    intros p q Hp Hq. rewrite mv_eqb_eq. split.
    - intros -> t _. reflexivity.
    - apply same_coeffs_eq; assumption.
  Qed.

  Theorem mv_hash_respects_eq : forall (H : Type) (h : list (T * term) -> H) p q,
    mv_eqb eqb p q = true -> h (mv_hash_key p) = h (mv_hash_key q).
  Proof. intros H h p q E. apply mv_eqb_eq in E. subst q. reflexivity. Qed.

  Theorem mv_is_zero_canonical : forall p, mv_canonical p -> (mv_is_zero is0 p = true <-> p = []).
  Proof.
    intros [|[c t] p] Hp; cbn [mv_is_zero forallb fst]; [tauto|].
    destruct Hp as (Hc & _). split; [|discriminate].
    rewrite andb_true_iff, is0_spec. intros [E _]. contradiction.
  Qed.
End MvCanonical.

Section MvResults.
  Context {K : Type} (F : Fops K).
  Hypothesis Rth : ring_theory (f0 F) (f1 F) (fadd F) (fmul F) (fsub F) (fneg F) (@eq K).
  Hypothesis eqb_ok : forall a b, feqb F a b = true <-> a = b.
  Add Ring KR19mv : Rth.
  Context {T : Type} (z : T) (r : K -> T).
  Hypothesis r_nonzero : forall c, c <> f0 F -> r c <> z.

  Lemma stored_canonical_terms : forall l : mterms K,
    adj (@t_lt2 K) l -> all_terms term_canon l -> Forall (fun ct : K * term => fst ct <> f0 F) l ->
    mv_canonical z (map (fun ct => (r (fst ct), snd ct)) l).
  Proof.
    induction l as [|[c t] l IH]; intros Hs Hc Hz; [exact I|].
    cbn [map mv_canonical fst snd].
    inversion Hc as [|? ? Hct Hcl]; subst. inversion Hz as [|? ? Hzt Hzl]; subst. cbn [fst snd] in *.
    split; [apply r_nonzero; exact Hzt|]. split; [exact Hct|]. split.
    - pose proof (adj_lt_all l (c, t) Hs) as Ha. rewrite Forall_forall in *. intros x Hx.
      apply in_map_iff in Hx. destruct Hx as (y & <- & Hy). cbn [snd]. exact (Ha y Hy).
    - apply IH; [eapply adj_tail; exact Hs | exact Hcl | exact Hzl].
  Qed.

  (* a canonical value (C17: every operator result on canonical operands) is stored canonically *)
  Theorem mv_stored_canonical : forall q, p_canon F q -> mv_canonical z (stored_mv r q).
  Proof.
    intros q Hq. destruct (p_canon_elim F q Hq) as (Hs & Hc & Hz).
    unfold stored_mv. apply stored_canonical_terms; assumption.
  Qed.

  (* merging with a list of zero coefficients and removing zeros gives back the left operand *)
  Lemma merge_zero_coeffs : forall l1 l2 : mterms K,
    Forall (fun ct : K * term => fst ct <> f0 F) l1 -> Forall (fun ct : K * term => fst ct = f0 F) l2 ->
    remove_zeros F (p_merge F l1 l2) = l1.
  Proof.
    assert (Hrz0 : forall l2 : mterms K, Forall (fun ct : K * term => fst ct = f0 F) l2 -> remove_zeros F l2 = []).
    { induction l2 as [|[d u] l2 IH]; intro H; [reflexivity|]. inversion H as [|? ? Hd Hl]; subst.
      cbn [fst] in Hd. subst d. unfold remove_zeros. cbn [filter fst].
      replace (feqb F (f0 F) (f0 F)) with true by (symmetry; apply eqb_ok; reflexivity). cbn [negb]. apply IH. exact Hl. }
    assert (Hrz1 : forall l1 : mterms K, Forall (fun ct : K * term => fst ct <> f0 F) l1 -> remove_zeros F l1 = l1).
    { induction l1 as [|[c t] l1 IH]; intro H; [reflexivity|]. inversion H as [|? ? Hc Hl]; subst.
      cbn [fst] in Hc. unfold remove_zeros. cbn [filter fst].
      destruct (feqb F c (f0 F)) eqn:E; [apply eqb_ok in E; contradiction|]. cbn [negb]. f_equal. apply IH. exact Hl. }
    induction l1 as [|[c1 t1] l1 IH1]; intros l2 H1 H2.
    - rewrite p_merge_nil_l. apply Hrz0. exact H2.
    - induction l2 as [|[c2 t2] l2 IH2].
      + rewrite p_merge_nil_r. apply Hrz1. exact H1.
      + inversion H1 as [|? ? Hc1 Hl1]; subst. inversion H2 as [|? ? Hc2 Hl2]; subst. cbn [fst] in Hc1, Hc2. subst c2.
        rewrite p_merge_cons. destruct (t_cmp t1 t2).
        * unfold remove_zeros. cbn [filter fst].
          replace (fadd F c1 (f0 F)) with c1 by ring.
          destruct (feqb F c1 (f0 F)) eqn:E; [apply eqb_ok in E; contradiction|]. cbn [negb]. f_equal.
          apply IH1; assumption.
        * unfold remove_zeros. cbn [filter fst].
          destruct (feqb F c1 (f0 F)) eqn:E; [apply eqb_ok in E; contradiction|]. cbn [negb]. f_equal.
          apply IH1; [exact Hl1 | exact H2].
        * unfold remove_zeros. cbn [filter fst].
          replace (feqb F (f0 F) (f0 F)) with true by (symmetry; apply eqb_ok; reflexivity). cbn [negb].
          apply IH2. exact Hl2.
  Qed.

  (* `p += (0, &q)`: the stored terms are exactly those of p (so the result == p, hashes like p, has p's
     degree); the Rust code relies on the final "remove zero terms" pass of `Add` for this *)
  Theorem mv_scaled_add_zero_scalar : forall p q, p_canon F p ->
    p_terms (p_add_scaled F p (f0 F) q) = p_terms p.
  Proof.
    intros p q Hp. destruct (p_canon_elim F p Hp) as (_ & _ & Hz).
    unfold p_add_scaled, p_add. cbn [p_terms]. apply merge_zero_coeffs; [exact Hz|].
    rewrite Forall_forall. intros x Hx. apply in_map_iff in Hx. destruct Hx as (y & <- & _). cbn [fst]. ring.
  Qed.

  (* in particular on the zero polynomial: no term is stored *)
  Theorem mv_zero_scaled_add_zero_scalar : forall nv q, p_terms (p_add_scaled F (mkP nv []) (f0 F) q) = [].
  Proof.
    intros nv q. apply (mv_scaled_add_zero_scalar (mkP nv []) q). split; [exact I | constructor].
  Qed.
End MvResults.

(* witnesses: 3 x0 + 5 x0 x1 over Q (identity encoding) is canonical; Q is a ring with decidable equality *)
From V Require Import C03.FieldHyp C19.Examples.
Require Import Coq.setoid_ring.Field_theory Qcanon.
Definition ex_mv_p : mvpoly Qc := mkP 2 [(q 3, [(0%nat, 1%Z)]); (q 5, [(0%nat, 1%Z); (1%nat, 1%Z)])].
Lemma ex_mv_hyps :
  ring_theory (f0 QcOps) (f1 QcOps) (fadd QcOps) (fmul QcOps) (fsub QcOps) (fneg QcOps) (@eq Qc) /\
  (forall a b, feqb QcOps a b = true <-> a = b) /\
  (forall c : Qc, c <> f0 QcOps -> (fun x => x) c <> f0 QcOps) /\
  p_canon QcOps ex_mv_p /\
  mv_canonical (f0 QcOps) (stored_mv (fun x => x) ex_mv_p) /\
  mcoeff (f0 QcOps) (stored_mv (fun x => x) ex_mv_p) [(0%nat, 1%Z); (1%nat, 1%Z)] = q 5.
Proof.
  assert (Hc : p_canon QcOps ex_mv_p).
  { split.
    - cbn [ex_mv_p p_terms terms_sorted]. repeat split.
    - cbn [ex_mv_p p_terms]. repeat constructor; cbn [fst snd term_canon]; try lia; [exact ex_three_nz | exact ex_five_nz]. }
  split; [exact (F_R (gf_th _ QcOps_good))|]. split; [exact (gf_eqb _ QcOps_good)|].
  split; [intros c H; exact H|]. split; [exact Hc|]. split.
  - apply (mv_stored_canonical QcOps (f0 QcOps) (fun x => x)); [intros c H; exact H | exact Hc].
  - reflexivity.
Qed.
