(* C19 -- multivariate SparsePolynomial<F, SparseTerm> values obtained by different operation sequences
   (model file, no proofs).  Every operator is the coq/C17 model (C17/MvPoly.v) of the Rust operator in
   poly/src/polynomial/multivariate/sparse.rs; coq/Props/C17.v proves that on canonical operands each of them
   returns a CANONICAL value (terms strictly increasing in the term order, canonical terms, non-zero
   coefficients) denoting the mathematical result.

   Stored representation: the `terms` vector with the coefficients through an encoding [r] (for Fp: the
   Montgomery limb vector).  Derived PartialEq compares ONLY `terms` (num_vars is `educe(PartialEq(ignore))`);
   the hash key modelled here is the same structure. *)
From V Require Import Base.Field C17.Mle C17.MvPoly.

Section MvExprs.
  Context {K : Type} (F : Fops K).

  (* SparsePolynomial::zero() = Default: num_vars 0, no term *)
  Definition mv_zero : mvpoly K := mkP O [].

  (* operands P Q R (from_coefficients_vec of raw term lists), scalar f *)
  Definition mvexpr (P Q R : mvpoly K) (f : K) (e : Z) : mvpoly K :=
    match e with
    | 0 => P | 1 => Q | 2 => R
    | 3 => p_add F P Q                                   (* p + q (by value) *)
    | 4 => p_add F Q P                                   (* &q + &p *)
    | 5 => p_add F P Q                                   (* p += &q *)
    | 6 => p_sub F P Q                                   (* &p - &q *)
    | 7 => p_sub F P Q                                   (* p -= &q *)
    | 8 => p_add F P (p_neg F Q)                         (* &p + &(-q) *)
    | 9 => p_neg F (p_sub F Q P)                         (* -(&q - &p) *)
    | 10 => p_add_scaled F P f Q                         (* p += (f, &q) *)
    | 11 => mv_zero                                      (* zero() *)
    | 12 => p_sub F P P                                  (* &p - &p *)
    | 13 => p_add F P (p_neg F P)                        (* &p + &(-p) *)
    | 14 => p_sub F (p_add F P Q) Q                      (* (p + q) - q *)
    | 15 => p_neg F P
    | 16 => p_neg F (p_neg F P)
    | 17 => p_add_scaled F (p_add_scaled F P f Q) (fneg F f) Q   (* (p += (f, q)) += (-f, q) *)
    | 18 => p_add_scaled F P (f0 F) Q                    (* p += (0, &q) *)
    | 19 => p_add_scaled F mv_zero f Q                   (* zero() += (f, &q) *)
    | 20 => p_add F mv_zero P                            (* zero() + p *)
    | 21 => p_add F P mv_zero                            (* p + zero() *)
    | 22 => p_add F (p_sub F P Q) Q                      (* (p - q) + q *)
    | 23 => p_sub F P P                                  (* p -= &p *)
    | 24 => p_add_scaled F mv_zero (f0 F) Q              (* zero() += (0, &q) *)
    | 25 => p_add F (p_add F P Q) Q                      (* (p + q) + q *)
    | 26 => mkP (p_nv P) []                              (* from_coefficients_vec(num_vars of p, vec![]) *)
    | 27 => p_add_scaled F (mkP (p_nv P) []) (f0 F) Q    (* that += (0, &q) *)
    | 28 => p_add_scaled F P (f1 F) Q                    (* p += (1, &q) *)
    | 29 => p_add_scaled F P (fneg F (f1 F)) Q           (* p += (-1, &q) *)
    | 30 => p_add_scaled F (p_add_scaled F P (f0 F) Q) (f0 F) Q   (* twice += (0, &q) *)
    | 31 => p_sub F (p_add_scaled F P (f0 F) Q) P        (* (p += (0, q)) - p *)
    | _ => mv_zero
    end.
End MvExprs.

(* ---- stored form: derived PartialEq / Hash / is_zero on Vec<(F, SparseTerm)> ---- *)
Section MvStored.
  Context {T : Type} (eqb : T -> T -> bool) (is0 : T -> bool).
  Fixpoint mv_eqb (p q : list (T * term)) : bool :=
    match p, q with
    | [], [] => true
    | (c, t) :: p', (d, u) :: q' => eqb c d && t_eqb t u && mv_eqb p' q'
    | _, _ => false
    end.
  (* is_empty() || all coefficients zero *)
  Definition mv_is_zero (p : list (T * term)) : bool := forallb (fun ct => is0 (fst ct)) p.
  Definition mv_hash_key (p : list (T * term)) : list (T * term) := p.
End MvStored.

Definition stored_mv {K T : Type} (r : K -> T) (q : mvpoly K) : list (T * term) :=
  map (fun ct => (r (fst ct), snd ct)) (p_terms q).

(* the coefficient of a monomial in a stored term list (first match; canonical lists have at most one) *)
Fixpoint mcoeff {T : Type} (z : T) (p : list (T * term)) (t : term) : T :=
  match p with
  | [] => z
  | (c, u) :: p' => if t_eqb u t then c else mcoeff z p' t
  end.
