(* C19 -- interpreter of the `mvpoly_rel` cases (op 14): multivariate SparsePolynomial<F, SparseTerm> values.
     a[0] = [cfg; kind; N], a[1] = field parameters, a[2] = [eL; eR], a[3] = [f] (coordinates of the scalar),
     a[4] = evaluation point (one prime-field value per variable; prime fields only),
     operands P, Q, R at a[5..9], a[10..14], a[15..19], each as
       [num_vars] [coefficients] [number of (var, power) pairs of each raw term] [vars, flat] [powers, flat]
     (raw terms through SparseTerm::new, the list through SparsePolynomial::from_coefficients_vec)
     -> [L==R; R==L] [hash L = hash R] [L.is_zero; R.is_zero; L==zero(); R==zero()] [L.degree(); R.degree()]
        [stored terms of L; of R] [L(x) == R(x)] L(x) ++ R(x)
     status [2]: a constructor / evaluate panicked.
   Expression codes: C19/MvModel.v. *)
From V Require Import Base.Field C17.Mle C17.MvPoly C19.OrdModel C19.MvModel.

Section MvRun.
  Context {T E : Type} (F : Fops T) (C : Cops E).
  Let marg (n : nat) (a : list (list Z)) : list Z := nth n a [].
  Let margz (n i : nat) (a : list (list Z)) : Z := nth i (marg n a) 0.
  Let nats (l : list Z) : list nat := map Z.to_nat l.
  Let mrepr (x : T) : E := c_of C (fcoords F x).

  Fixpoint mv_raw_terms (lens : list nat) (vp : list (nat * Z)) : list term :=
    match lens with
    | [] => []
    | n :: lens' => firstn n vp :: mv_raw_terms lens' (skipn n vp)
    end.
  Definition mv_in (a : list (list Z)) (i : nat) : res (mvpoly T) :=
    p_from F (Z.to_nat (margz i 0 a))
      (combine (map (fun c => fof F [c]) (marg (S i) a))
               (map term_new (mv_raw_terms (nats (marg (S (S i)) a))
                                           (combine (nats (marg (S (S (S i))) a)) (marg (S (S (S (S i)))) a))))).

  Definition run_mv (a : list (list Z)) : list (list Z) :=
    match mv_in a 5, mv_in a 10, mv_in a 15 with
    | Ok P, Ok Q, Ok R =>
        let f := fof F (marg 3 a) in
        let x := map (fun v => fof F [v]) (marg 4 a) in
        let L := mvexpr F P Q R f (margz 2 0 a) in
        let R' := mvexpr F P Q R f (margz 2 1 a) in
        let l := stored_mv mrepr L in let r := stored_mv mrepr R' in
        let eq := mv_eqb (c_eqb C) in
        let zlen (p : list (E * term)) := Z.of_nat (length p) in
        match p_eval F L x, p_eval F R' x with
        | Ok vL, Ok vR =>
            [[0]; [Z.b2z (eq l r); Z.b2z (eq r l)]; [Z.b2z (eq (mv_hash_key l) (mv_hash_key r))];
             [Z.b2z (mv_is_zero (c_is0 C) l); Z.b2z (mv_is_zero (c_is0 C) r); Z.b2z (eq l []); Z.b2z (eq r [])];
             [p_degree L; p_degree R']; [zlen l; zlen r];
             [Z.b2z (c_eqb C (mrepr vL) (mrepr vR))]; fcoords F vL ++ fcoords F vR]
        | OutOfFuel, _ | _, OutOfFuel => [[7]]
        | _, _ => [[2]]
        end
    | OutOfFuel, _, _ | _, OutOfFuel, _ | _, _, OutOfFuel => [[7]]
    | _, _, _ => [[2]]
    end.
End MvRun.
