(* C19 -- equality, ordering, hashing, is_zero / is_one: executable models (no proofs).

   Anchors (arkworks-rs/algebra):
     ff/src/fields/models/fp/mod.rs            educe(PartialEq, Eq, Hash) on Fp(BigInt<N>) = structural on the
                                               (always reduced) Montgomery limbs; Ord = into_bigint().cmp();
                                               is_zero = (== P::ZERO), is_one = (== P::ONE) with ONE = R
     ff/src/biginteger/mod.rs                  derive(PartialEq, Eq, Hash) on [u64; N]; Ord: most significant
                                               limb first; is_zero: all limbs zero
     ff/src/fields/models/quadratic_extension.rs   educe(PartialEq, Hash) (c0, c1); Ord: c1 then c0;
                                               is_zero = c0.is_zero && c1.is_zero; is_one = c0.is_one && c1.is_zero
     ff/src/fields/models/cubic_extension.rs   Ord: c2.cmp.then(c1.cmp).then(c0.cmp)
     ec/src/models/short_weierstrass/{group,affine}.rs   Affine: educe(PartialEq, Hash) on (x, y, infinity);
                                               Projective: cross-multiplied PartialEq (coq/C03 sw_eqb),
                                               Hash = into_affine().hash(), Projective == Affine via into_group
     ec/src/models/twisted_edwards/{group,affine}.rs     same (coq/C03 te_eqb), Affine = (x, y)
     ec/src/pairing.rs                         PairingOutput: educe(PartialEq, Ord, Hash) of the target-field
                                               element; is_zero = is_one of the field
     poly/src/polynomial/univariate/{dense,sparse}.rs    derive(PartialEq, Hash) on the coefficient vector;
                                               is_zero = empty or all coefficients zero

   A hasher is never modelled: a hash is "an arbitrary function of the hashed structure"; the
   structure that a type feeds to the hasher is the [*_hash_key] below. *)
From V Require Import Base.Word Base.Field C15.BigIntModel C01.MontModel C03.CurveExec.

(* ---------- comparison dictionaries ---------- *)

Record Cops (T : Type) := mkCops {
  c_eqb : T -> T -> bool;            (* PartialEq::eq *)
  c_cmp : T -> T -> comparison;      (* Ord::cmp *)
  c_is0 : T -> bool;                 (* Zero::is_zero *)
  c_is1 : T -> bool;                 (* One::is_one *)
  c_of : list Z -> T;                (* element from canonical base-prime-field coordinates *)
  c_deg : nat
}.
Arguments c_eqb {T}. Arguments c_cmp {T}. Arguments c_is0 {T}. Arguments c_is1 {T}.
Arguments c_of {T}. Arguments c_deg {T}.

(* `a.cmp(b).then_with(|| c)` / the explicit match of QuadExtField::cmp *)
Definition lex (c1 c2 : comparison) : comparison := match c1 with Eq => c2 | c => c end.

(* ---------- [u64; N]: derived PartialEq (element-wise), BigInt ---------- *)

Fixpoint arr_eqb (a b : list Z) : bool :=
  match a, b with
  | [], [] => true
  | x :: a', y :: b' => (x =? y) && arr_eqb a' b'
  | _, _ => false
  end.

Definition bigint_eqb (a b : list Z) : bool := arr_eqb a b.
Definition bigint_cmp (a b : list Z) : comparison := cmp a b.          (* C15: most significant limb first *)
Definition bigint_is_zero (a : list Z) : bool := is_zero a.            (* C15 *)
(* Hash for BigInt<N> = hash of the limb array *)
Definition bigint_hash_key (a : list Z) : list Z := a.

(* ---------- Fp: an element is its Montgomery limb vector [a] (wf, val a < p) ---------- *)

Fixpoint to_limbs (n : nat) (v : Z) : list Z :=
  match n with O => [] | S k => v mod W64 :: to_limbs k (v / W64) end.

Definition fp_zero (m : list Z) : list Z := repeat 0 (length m).       (* P::ZERO *)
Definition fp_one (m : list Z) : list Z := R_of m.                      (* P::ONE = R = 2^(64N) mod p *)
Definition fp_eqb (a b : list Z) : bool := arr_eqb a b.
Definition fp_cmp (m a b : list Z) : comparison := cmp (into_bigint m a) (into_bigint m b).
Definition fp_is_zero (m a : list Z) : bool := fp_eqb a (fp_zero m).
Definition fp_is_one (m a : list Z) : bool := fp_eqb a (fp_one m).
Definition fp_hash_key (a : list Z) : list Z := a.
(* the stored representative of the residue v: the unique reduced Montgomery form *)
Definition fp_of_int (m : list Z) (v : Z) : list Z :=
  to_limbs (length m) (((v mod val m) * Wn (length m)) mod val m).

Definition FpC (m : list Z) : Cops (list Z) :=
  {| c_eqb := fp_eqb; c_cmp := fp_cmp m; c_is0 := fp_is_zero m; c_is1 := fp_is_one m;
     c_of := fun l => fp_of_int m (hd 0 l); c_deg := 1%nat |}.

(* ---------- quadratic / cubic extensions over any base ---------- *)

Section Ext.
  Context {T : Type} (B : Cops T).

  Definition quad_eqb (a b : T * T) : bool := c_eqb B (fst a) (fst b) && c_eqb B (snd a) (snd b).
  Definition quad_cmp (a b : T * T) : comparison :=
    lex (c_cmp B (snd a) (snd b)) (c_cmp B (fst a) (fst b)).
  Definition quad_is0 (a : T * T) : bool := c_is0 B (fst a) && c_is0 B (snd a).
  Definition quad_is1 (a : T * T) : bool := c_is1 B (fst a) && c_is0 B (snd a).
  Definition QuadC : Cops (T * T) :=
    {| c_eqb := quad_eqb; c_cmp := quad_cmp; c_is0 := quad_is0; c_is1 := quad_is1;
       c_of := fun l => (c_of B l, c_of B (skipn (c_deg B) l)); c_deg := (2 * c_deg B)%nat |}.

  (* coefficients stored as ((c0, c1), c2), like Base.Field.CubicOps *)
  Definition cubic_eqb (a b : T * T * T) : bool :=
    c_eqb B (c0 a) (c0 b) && c_eqb B (c1 a) (c1 b) && c_eqb B (c2 a) (c2 b).
  Definition cubic_cmp (a b : T * T * T) : comparison :=
    lex (lex (c_cmp B (c2 a) (c2 b)) (c_cmp B (c1 a) (c1 b))) (c_cmp B (c0 a) (c0 b)).
  Definition cubic_is0 (a : T * T * T) : bool := c_is0 B (c0 a) && c_is0 B (c1 a) && c_is0 B (c2 a).
  Definition cubic_is1 (a : T * T * T) : bool := c_is1 B (c0 a) && c_is0 B (c1 a) && c_is0 B (c2 a).
  Definition CubicC : Cops (T * T * T) :=
    {| c_eqb := cubic_eqb; c_cmp := cubic_cmp; c_is0 := cubic_is0; c_is1 := cubic_is1;
       c_of := fun l => (c_of B l, c_of B (skipn (c_deg B) l), c_of B (skipn (2 * c_deg B) l));
       c_deg := (3 * c_deg B)%nat |}.

  (* PairingOutput<P>(TargetField): derived ==, cmp, Hash; the group identity is the field's one *)
  Definition gt_eqb := c_eqb B.
  Definition gt_cmp := c_cmp B.
  Definition gt_is_zero := c_is1 B.

  (* sorting with the modelled order (stable insertion sort) *)
  Fixpoint ins (x : T) (l : list T) : list T :=
    match l with
    | [] => [x]
    | y :: r => match c_cmp B x y with Lt => x :: l | _ => y :: ins x r end
    end.
  Definition sort_by (l : list T) : list T := fold_right ins [] l.
End Ext.

(* ---------- curve points ---------- *)

Section Points.
  Context {T : Type} (F : Fops T).

  (* sw::Affine { x, y, infinity }: the stored triple; Affine::identity() = (0, 0, true) *)
  Definition sw_raw : Type := (T * T * bool)%type.
  Definition sw_raw_of_aff (A : sw_aff (T := T)) : sw_raw :=
    match A with None => (f0 F, f0 F, true) | Some (x, y) => (x, y, false) end.
  Definition sw_raw_canonical (r : sw_raw) : Prop :=
    let '(x, y, i) := r in i = true -> x = f0 F /\ y = f0 F.
  Definition sw_aff_of_raw (r : sw_raw) : sw_aff (T := T) :=
    let '(x, y, i) := r in if i then None else Some (x, y).
  (* derived PartialEq of Affine: all three fields *)
  Definition sw_raw_eqb (r s : sw_raw) : bool :=
    let '(x1, y1, i1) := r in let '(x2, y2, i2) := s in
    feqb F x1 x2 && feqb F y1 y2 && Bool.eqb i1 i2.
  (* From<Projective> for Affine as stored structure *)
  Definition sw_into_affine (P : sw_jac (T := T)) : sw_raw := sw_raw_of_aff (sw_to_affine F P).
  (* Hash for Projective: self.into_affine().hash(state) *)
  Definition sw_hash_key (P : sw_jac (T := T)) : sw_raw := sw_into_affine P.
  (* PartialEq<Affine> for Projective / PartialEq<Projective> for Affine: via into_group *)
  Definition sw_proj_eq_aff (P : sw_jac (T := T)) (A : sw_aff (T := T)) : bool :=
    sw_eqb F P (sw_of_affine F A).
  Definition sw_aff_eq_proj (A : sw_aff (T := T)) (P : sw_jac (T := T)) : bool :=
    sw_eqb F (sw_of_affine F A) P.
  Definition sw_aff_is_zero (r : sw_raw) : bool := let '(_, _, i) := r in i.

  (* te::Affine { x, y } *)
  Definition te_aff_eqb (A B : te_aff (T := T)) : bool :=
    feqb F (fst A) (fst B) && feqb F (snd A) (snd B).
  Definition te_hash_key (P : te_ext (T := T)) : te_aff (T := T) := te_to_affine F P.
  Definition te_proj_eq_aff (P : te_ext (T := T)) (A : te_aff (T := T)) : bool :=
    te_eqb F P (te_of_affine F A).
  Definition te_aff_eq_proj (A : te_aff (T := T)) (P : te_ext (T := T)) : bool :=
    te_eqb F (te_of_affine F A) P.
End Points.

(* ---------- polynomials: derived equality on the coefficient vectors ---------- *)

Section Poly.
  Context {T : Type} (eqb : T -> T -> bool) (is0 : T -> bool).

  Fixpoint list_eqb {A} (e : A -> A -> bool) (p q : list A) : bool :=
    match p, q with
    | [], [] => true
    | x :: p', y :: q' => e x y && list_eqb e p' q'
    | _, _ => false
    end.
  Definition dense_eqb (p q : list T) : bool := list_eqb eqb p q.
  Definition dense_is_zero (p : list T) : bool := forallb is0 p.   (* is_empty() || all zero *)
  Definition sparse_eqb (p q : list (Z * T)) : bool :=
    list_eqb (fun a b => (fst a =? fst b) && eqb (snd a) (snd b)) p q.
  Definition sparse_is_zero (p : list (Z * T)) : bool := forallb (fun t => is0 (snd t)) p.

  (* canonical forms *)
  (* DensePolynomial::from_coefficients_vec: truncate_leading_zeros *)
  Fixpoint trim (p : list T) : list T :=
    match p with
    | [] => []
    | x :: r => match trim r with
                | [] => if is0 x then [] else [x]
                | r' => x :: r'
                end
    end.
  (* From<DensePolynomial> for SparsePolynomial: the non-zero coefficients with their index *)
  Fixpoint sparse_of_dense (i : Z) (p : list T) : list (Z * T) :=
    match p with
    | [] => []
    | x :: r => if is0 x then sparse_of_dense (i + 1) r else (i, x) :: sparse_of_dense (i + 1) r
    end.
End Poly.
