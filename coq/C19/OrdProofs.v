(* C19 -- proofs about the comparison dictionaries: total orders, lexicographic products,
   Fp (Montgomery limbs), BigInt, quadratic / cubic towers. *)
From V Require Import Base.Word Base.Field C15.BigIntModel C15.BigIntProofs C15.MiscProofs C15.ConstProofs
  C01.MontModel C01.MontProofs C19.OrdModel.
Require Import Lia.

(* ---------- total orders given by a comparison function on a domain ---------- *)

Record total_order_on {T : Type} (D : T -> Prop) (cmpf : T -> T -> comparison) : Prop := {
  to_eq : forall a b, D a -> D b -> (cmpf a b = Eq <-> a = b);
  to_antisym : forall a b, D a -> D b -> cmpf b a = CompOpp (cmpf a b);
  to_trans : forall a b c, D a -> D b -> D c -> cmpf a b = Lt -> cmpf b c = Lt -> cmpf a c = Lt
}.

Lemma to_total {T} (D : T -> Prop) cmpf : total_order_on D cmpf ->
  forall a b, D a -> D b -> cmpf a b = Lt \/ a = b \/ cmpf b a = Lt.
Proof.
  intros H a b Ha Hb. destruct (cmpf a b) eqn:E.
  - right. left. apply (to_eq D cmpf H); auto.
  - left. reflexivity.
  - right. right. rewrite (to_antisym D cmpf H a b Ha Hb), E. reflexivity.
Qed.

Lemma to_irrefl {T} (D : T -> Prop) cmpf : total_order_on D cmpf -> forall a, D a -> cmpf a a <> Lt.
Proof. intros H a Ha E. assert (cmpf a a = Eq) by (apply (to_eq D cmpf H); auto). congruence. Qed.

Lemma lex_eq c1 c2 : lex c1 c2 = Eq <-> c1 = Eq /\ c2 = Eq.
Proof. destruct c1, c2; cbn; split; try tauto; try discriminate; intros [? ?]; discriminate. Qed.
Lemma lex_opp c1 c2 : lex (CompOpp c1) (CompOpp c2) = CompOpp (lex c1 c2).
Proof. destruct c1, c2; reflexivity. Qed.
Lemma lex_lt c1 c2 : lex c1 c2 = Lt <-> c1 = Lt \/ (c1 = Eq /\ c2 = Lt).
Proof. destruct c1, c2; cbn; split; try tauto; try discriminate; intros [?|[? ?]]; discriminate. Qed.
Lemma lex_assoc c1 c2 c3 : lex (lex c1 c2) c3 = lex c1 (lex c2 c3).
Proof. destruct c1; reflexivity. Qed.

(* the lexicographic product of two total orders (major key g1, minor key g2) *)
Section Lex2.
  Context {P T1 T2 : Type} (g1 : P -> T1) (g2 : P -> T2).
  Context (D : P -> Prop) (D1 : T1 -> Prop) (D2 : T2 -> Prop).
  Context (c1 : T1 -> T1 -> comparison) (c2 : T2 -> T2 -> comparison).
  Hypothesis HD : forall a, D a -> D1 (g1 a) /\ D2 (g2 a).
  Hypothesis Hinj : forall a b, D a -> D b -> g1 a = g1 b -> g2 a = g2 b -> a = b.
  Hypothesis O1 : total_order_on D1 c1.
  Hypothesis O2 : total_order_on D2 c2.

  Definition lex2 (a b : P) : comparison := lex (c1 (g1 a) (g1 b)) (c2 (g2 a) (g2 b)).

  Theorem lex2_total_order : total_order_on D lex2.
  Proof.
    constructor.
    - intros a b Ha Hb. destruct (HD a Ha) as [A1 A2]. destruct (HD b Hb) as [B1 B2].
      unfold lex2. rewrite lex_eq, (to_eq D1 c1 O1) by auto. rewrite (to_eq D2 c2 O2) by auto. split.
      + intros [E1 E2]. apply Hinj; auto.
      + intros ->. auto.
    - intros a b Ha Hb. destruct (HD a Ha) as [A1 A2]. destruct (HD b Hb) as [B1 B2].
      unfold lex2. rewrite (to_antisym D1 c1 O1 (g1 a) (g1 b)) by auto.
      rewrite (to_antisym D2 c2 O2 (g2 a) (g2 b)) by auto. apply lex_opp.
    - intros a b c Ha Hb Hc. destruct (HD a Ha) as [A1 A2]. destruct (HD b Hb) as [B1 B2].
      destruct (HD c Hc) as [C1 C2]. unfold lex2. rewrite !lex_lt.
      intros [L1|[E1 L1]] [L2|[E2 L2]].
      + left. apply (to_trans D1 c1 O1 _ (g1 b)); auto.
      + left. apply (to_eq D1 c1 O1) in E2; auto. rewrite <- E2. exact L1.
      + left. apply (to_eq D1 c1 O1) in E1; auto. rewrite E1. exact L2.
      + right. apply (to_eq D1 c1 O1) in E1; auto. apply (to_eq D1 c1 O1) in E2; auto. split.
        * apply (to_eq D1 c1 O1); auto. congruence.
        * apply (to_trans D2 c2 O2 _ (g2 b)); auto.
  Qed.
End Lex2.

(* ---------- arrays of limbs ---------- *)

Lemma arr_eqb_spec : forall a b, arr_eqb a b = true <-> a = b.
Proof.
  induction a as [|x a IH]; intros [|y b]; cbn; split; intro H; try reflexivity; try discriminate.
  - apply andb_true_iff in H as [E1 E2]. apply Z.eqb_eq in E1. apply IH in E2. congruence.
  - injection H as -> ->. rewrite Z.eqb_refl. apply IH. reflexivity.
Qed.

Definition limbs_N (N : nat) (a : list Z) : Prop := wf a /\ length a = N.

Theorem bigint_cmp_total_order : forall N, total_order_on (limbs_N N) bigint_cmp.
Proof.
  intros N. unfold bigint_cmp. constructor.
  - intros a b [Ha La] [Hb Lb]. apply cmp_eq_iff; auto. congruence.
  - intros a b [Ha La] [Hb Lb]. apply cmp_antisym; auto. congruence.
  - intros a b c [Ha La] [Hb Lb] [Hc Lc]. apply cmp_lt_trans; auto; congruence.
Qed.

Theorem bigint_cmp_is_integer_order : forall a b, wf a -> wf b -> length a = length b ->
  bigint_cmp a b = Z.compare (val a) (val b).
Proof. exact cmp_spec. Qed.

Theorem bigint_eq_iff_same_integer : forall a b, wf a -> wf b -> length a = length b ->
  (bigint_eqb a b = true <-> val a = val b).
Proof.
  intros a b Ha Hb Hl. unfold bigint_eqb. rewrite arr_eqb_spec. split; [congruence | apply val_inj; auto].
Qed.

Theorem bigint_is_zero_spec : forall a, wf a -> (bigint_is_zero a = true <-> val a = 0).
Proof. intros a Ha. unfold bigint_is_zero. rewrite (is_zero_spec a Ha). apply Z.eqb_eq. Qed.

(* ---------- to_limbs ---------- *)

Lemma to_limbs_spec : forall n v, 0 <= v < Wn n ->
  wf (to_limbs n v) /\ length (to_limbs n v) = n /\ val (to_limbs n v) = v.
Proof.
  induction n as [|n IH]; intros v Hv.
  - rewrite Wn_0 in Hv. cbn. repeat split; [constructor | lia].
  - rewrite Wn_S in Hv. cbn [to_limbs length val].
    assert (Hq : 0 <= v / W64 < Wn n).
    { split; [apply Z.div_pos; [lia | reflexivity] | apply Z.div_lt_upper_bound; [reflexivity | lia]]. }
    destruct (IH _ Hq) as (Hw & Hl & Hval). repeat split.
    + constructor; [apply mod_u64 | exact Hw].
    + congruence.
    + rewrite Hval. pose proof (Z.div_mod v W64 ltac:(unfold W64; lia)). lia.
Qed.

(* ---------- Fp ---------- *)

Section Fp.
  Variable m : list Z.
  Hypothesis Hm : wf m.
  Hypothesis Hodd : val m mod 2 = 1.
  Hypothesis Hp1 : 1 < val m.
  Let p := val m.
  Let W := Wn (length m).

  (* the invariant of every stored element (C01: all operations preserve it) *)
  Definition fp_valid (a : list Z) : Prop := wf a /\ length a = length m /\ val a < val m.

  Lemma fp_std_range a : fp_valid a -> 0 <= std m a < p.
  Proof. intros (Ha & Hl & Hlt). apply (std_val m Hm Hodd a Ha Hl Hlt). Qed.

  Lemma fp_std_inj a b : fp_valid a -> fp_valid b -> std m a = std m b -> a = b.
  Proof.
    intros (Ha & Hla & Halt) (Hb & Hlb & Hblt) E.
    destruct (std_val m Hm Hodd a Ha Hla Halt) as [_ Ea].
    destruct (std_val m Hm Hodd b Hb Hlb Hblt) as [_ Eb].
    apply val_inj; auto; congruence.
  Qed.

  (* == on the stored limbs is equality of residues *)
  Theorem fp_eq_iff_same_residue : forall a b, fp_valid a -> fp_valid b ->
    (fp_eqb a b = true <-> std m a = std m b).
  Proof.
    intros a b Ha Hb. unfold fp_eqb. rewrite arr_eqb_spec. split; [congruence | apply fp_std_inj; auto].
  Qed.

  Lemma into_bigint_shape a : fp_valid a -> wf (into_bigint m a) /\ length (into_bigint m a) = length m.
  Proof.
    intros (Ha & Hl & Hlt). destruct (into_bigint_spec m a Hm Ha Hl Hodd Hlt) as (Hw & Hlen & _). auto.
  Qed.

  (* Ord for Fp is the order of the canonical integers *)
  Theorem fp_cmp_is_integer_order : forall a b, fp_valid a -> fp_valid b ->
    fp_cmp m a b = Z.compare (std m a) (std m b).
  Proof.
    intros a b Ha Hb. unfold fp_cmp, std.
    destruct (into_bigint_shape a Ha) as [Wa La]. destruct (into_bigint_shape b Hb) as [Wb Lb].
    apply cmp_spec; auto. congruence.
  Qed.

  Theorem fp_cmp_total_order : total_order_on fp_valid (fp_cmp m).
  Proof.
    constructor.
    - intros a b Ha Hb. rewrite fp_cmp_is_integer_order by auto. rewrite Z.compare_eq_iff.
      split; [apply fp_std_inj; auto | congruence].
    - intros a b Ha Hb. rewrite !fp_cmp_is_integer_order by auto. apply Z.compare_antisym.
    - intros a b c Ha Hb Hc. rewrite !fp_cmp_is_integer_order by auto.
      rewrite !Z.compare_lt_iff. lia.
  Qed.

  Theorem fp_cmp_consistent_with_eq : forall a b, fp_valid a -> fp_valid b ->
    (fp_cmp m a b = Eq <-> fp_eqb a b = true).
  Proof.
    intros a b Ha Hb. rewrite fp_eq_iff_same_residue, fp_cmp_is_integer_order by auto.
    apply Z.compare_eq_iff.
  Qed.

  Lemma fp_zero_valid : fp_valid (fp_zero m) /\ val (fp_zero m) = 0.
  Proof.
    unfold fp_zero, fp_valid. rewrite val_repeat0, repeat_length.
    repeat split; [apply wf_repeat0 | lia].
  Qed.

  Theorem fp_is_zero_spec : forall a, fp_valid a -> (fp_is_zero m a = true <-> std m a = 0).
  Proof.
    intros a Ha. unfold fp_is_zero. destruct fp_zero_valid as [Hz Hv0].
    rewrite fp_eq_iff_same_residue by auto.
    assert (E0 : std m (fp_zero m) = 0).
    { destruct Hz as (Hw & Hl & Hlt).
      rewrite (std_unique m Hm Hodd (fp_zero m) 0 Hw Hl Hlt).
      - apply Z.mod_0_l. lia.
      - rewrite Hv0, Z.mul_0_l, Z.mod_0_l; lia. }
    rewrite E0. tauto.
  Qed.

  Lemma fp_one_valid : fp_valid (fp_one m) /\ val (fp_one m) = W mod p.
  Proof.
    unfold fp_one, R_of. destruct (montgomery_r_spec m Hm ltac:(lia)) as (r & Hr & Hw & Hl & Hv).
    rewrite Hr. unfold fp_valid. repeat split; auto.
    rewrite Hv. apply Z.mod_pos_bound. lia.
  Qed.

  Theorem fp_is_one_spec : forall a, fp_valid a -> (fp_is_one m a = true <-> std m a = 1).
  Proof.
    intros a Ha. unfold fp_is_one. destruct fp_one_valid as [Ho Hv1].
    rewrite fp_eq_iff_same_residue by auto.
    assert (E1 : std m (fp_one m) = 1).
    { destruct Ho as (Hw & Hl & Hlt).
      rewrite (std_unique m Hm Hodd (fp_one m) 1 Hw Hl Hlt).
      - apply Z.mod_1_l. lia.
      - rewrite Hv1, Z.mul_1_l. reflexivity. }
    rewrite E1. tauto.
  Qed.

  (* the representative built from a canonical integer *)
  Theorem fp_of_int_spec : forall v, fp_valid (fp_of_int m v) /\ std m (fp_of_int m v) = v mod p.
  Proof.
    intros v. unfold fp_of_int. fold p W.
    assert (Hr : 0 <= ((v mod p) * W) mod p < p) by (apply Z.mod_pos_bound; lia).
    pose proof (val_bound m Hm) as Hb. fold p W in Hb.
    destruct (to_limbs_spec (length m) (((v mod p) * W) mod p) ltac:(fold W; lia)) as (Hw & Hl & Hv).
    assert (Hval : fp_valid (to_limbs (length m) (((v mod p) * W) mod p))).
    { unfold fp_valid. rewrite Hv. repeat split; auto. fold p. lia. }
    split; [exact Hval|].
    destruct Hval as (Hw' & Hl' & Hlt').
    rewrite (std_unique m Hm Hodd _ (v mod p) Hw' Hl' Hlt').
    - fold p. apply Z.mod_mod. lia.
    - rewrite Hv. reflexivity.
  Qed.
End Fp.

(* ---------- good comparison dictionaries: relations coincide with mathematical identity ----------
   [den] gives the canonical base-prime-field coordinates an element denotes. *)

Record good_cops {T : Type} (D : T -> Prop) (den : T -> list Z) (C : Cops T) : Prop := {
  gc_deg : (1 <= c_deg C)%nat;
  gc_len : forall a, D a -> length (den a) = c_deg C;
  gc_inj : forall a b, D a -> D b -> den a = den b -> a = b;       (* one stored structure per value *)
  gc_eqb : forall a b, D a -> D b -> (c_eqb C a b = true <-> den a = den b);
  gc_ord : total_order_on D (c_cmp C);
  gc_is0 : forall a, D a -> (c_is0 C a = true <-> den a = repeat 0 (c_deg C));
  gc_is1 : forall a, D a -> (c_is1 C a = true <-> den a = 1 :: repeat 0 (c_deg C - 1))
}.

Theorem fp_good : forall m, wf m -> val m mod 2 = 1 -> 1 < val m ->
  good_cops (fp_valid m) (fun a => [std m a]) (FpC m).
Proof.
  intros m Hm Hodd Hp1. constructor; cbn [FpC c_deg c_eqb c_cmp c_is0 c_is1].
  - lia.
  - reflexivity.
  - intros a b Ha Hb E. injection E as E. apply (fp_std_inj m Hm Hodd); auto.
  - intros a b Ha Hb. rewrite (fp_eq_iff_same_residue m Hm Hodd) by auto. split; congruence.
  - apply fp_cmp_total_order; auto.
  - intros a Ha. rewrite (fp_is_zero_spec m Hm Hodd Hp1) by auto. cbn. split; congruence.
  - intros a Ha. rewrite (fp_is_one_spec m Hm Hodd Hp1) by auto. cbn. split; congruence.
Qed.

Lemma app_inj_len {A} : forall (a c b d : list A), length a = length c -> a ++ b = c ++ d -> a = c /\ b = d.
Proof.
  induction a as [|x a IH]; intros [|y c] b d Hl E; try discriminate; cbn in *; auto.
  injection E as -> E. injection Hl as Hl. destruct (IH c b d Hl E). split; congruence.
Qed.

Lemma repeat_app {A} (x : A) n k : repeat x (n + k) = repeat x n ++ repeat x k.
Proof. induction n; cbn; congruence. Qed.

Section Towers.
  Context {T : Type} (D : T -> Prop) (den : T -> list Z) (B : Cops T).
  Hypothesis G : good_cops D den B.
  Let d := c_deg B.

  Definition quad_D (a : T * T) : Prop := D (fst a) /\ D (snd a).
  Definition quad_den (a : T * T) : list Z := den (fst a) ++ den (snd a).

  Lemma quad_den_inj a b : quad_D a -> quad_D b -> quad_den a = quad_den b -> fst a = fst b /\ snd a = snd b.
  Proof.
    intros [A0 A1] [B0 B1] E. unfold quad_den in E.
    apply app_inj_len in E as [E0 E1].
    - split; apply (gc_inj D den B G); auto.
    - rewrite !(gc_len D den B G); auto.
  Qed.

  Theorem quad_cmp_total_order : total_order_on quad_D (quad_cmp B).
  Proof.
    apply (lex2_total_order snd fst quad_D D D (c_cmp B) (c_cmp B)).
    - intros a [A0 A1]. auto.
    - intros [a0 a1] [b0 b1] _ _. cbn. congruence.
    - apply (gc_ord D den B G).
    - apply (gc_ord D den B G).
  Qed.

  Theorem quad_good : good_cops quad_D quad_den (QuadC B).
  Proof.
    pose proof (gc_deg D den B G) as Hd.
    constructor; cbn [QuadC c_deg c_eqb c_cmp c_is0 c_is1].
    - lia.
    - intros a [A0 A1]. unfold quad_den. rewrite app_length, !(gc_len D den B G) by auto. lia.
    - intros [a0 a1] [b0 b1] Ha Hb E. destruct (quad_den_inj _ _ Ha Hb E) as [E0 E1]. cbn in *. congruence.
    - intros a b Ha Hb. unfold quad_eqb. rewrite andb_true_iff.
      destruct Ha as [A0 A1], Hb as [B0 B1]. rewrite !(gc_eqb D den B G) by auto. split.
      + intros [E0 E1]. unfold quad_den. congruence.
      + intro E. apply app_inj_len in E; [exact E|]. rewrite !(gc_len D den B G); auto.
    - exact quad_cmp_total_order.
    - intros a [A0 A1]. unfold quad_is0. rewrite andb_true_iff, !(gc_is0 D den B G) by auto.
      replace (2 * c_deg B)%nat with (c_deg B + c_deg B)%nat by lia. rewrite repeat_app. unfold quad_den. split.
      + intros [-> ->]. reflexivity.
      + intro E. apply app_inj_len in E; [exact E|]. rewrite repeat_length. apply (gc_len D den B G); auto.
    - intros a [A0 A1]. unfold quad_is1. rewrite andb_true_iff, (gc_is1 D den B G), (gc_is0 D den B G) by auto.
      replace (2 * c_deg B - 1)%nat with ((c_deg B - 1) + c_deg B)%nat by lia. rewrite repeat_app.
      change (1 :: repeat 0 (c_deg B - 1) ++ repeat 0 (c_deg B)) with ((1 :: repeat 0 (c_deg B - 1)) ++ repeat 0 (c_deg B)).
      unfold quad_den. split.
      + intros [-> ->]. reflexivity.
      + intro E. apply app_inj_len in E; [exact E|]. cbn [length]. rewrite repeat_length, (gc_len D den B G) by auto. lia.
  Qed.

  Definition cubic_D (a : T * T * T) : Prop := D (c0 a) /\ D (c1 a) /\ D (c2 a).
  Definition cubic_den (a : T * T * T) : list Z := den (c0 a) ++ den (c1 a) ++ den (c2 a).

  Lemma cubic_cmp_as_lex2 a b :
    cubic_cmp B a b = lex (c_cmp B (snd a) (snd b)) (quad_cmp B (fst a) (fst b)).
  Proof. unfold cubic_cmp, quad_cmp, c0, c1, c2. apply lex_assoc. Qed.

  Theorem cubic_cmp_total_order : total_order_on cubic_D (cubic_cmp B).
  Proof.
    pose proof (lex2_total_order (P := T * T * T) snd fst cubic_D D quad_D (c_cmp B) (quad_cmp B)) as H.
    assert (H' : total_order_on cubic_D (lex2 (P := T * T * T) snd fst (c_cmp B) (quad_cmp B))).
    { apply H.
      - intros [[a0 a1] a2] (A0 & A1 & A2). cbn in *. repeat split; auto.
      - intros [[a0 a1] a2] [[b0 b1] b2] _ _. cbn. congruence.
      - apply (gc_ord D den B G).
      - exact quad_cmp_total_order. }
    destruct H' as [He Ha Ht]. constructor.
    - intros a b. rewrite cubic_cmp_as_lex2. apply He.
    - intros a b. rewrite !cubic_cmp_as_lex2. apply Ha.
    - intros a b c. rewrite !cubic_cmp_as_lex2. apply Ht.
  Qed.

  Theorem cubic_good : good_cops cubic_D cubic_den (CubicC B).
  Proof.
    pose proof (gc_deg D den B G) as Hd.
    assert (Hsplit : forall x0 x1 x2 y0 y1 y2 : list Z, length x0 = length y0 -> length x1 = length y1 ->
              x0 ++ x1 ++ x2 = y0 ++ y1 ++ y2 -> x0 = y0 /\ x1 = y1 /\ x2 = y2).
    { intros x0 x1 x2 y0 y1 y2 L0 L1 E. apply app_inj_len in E as [E0 E]; auto.
      apply app_inj_len in E as [E1 E2]; auto. }
    constructor; cbn [CubicC c_deg c_eqb c_cmp c_is0 c_is1].
    - lia.
    - intros a (A0 & A1 & A2). unfold cubic_den. rewrite !app_length, !(gc_len D den B G) by auto. lia.
    - intros [[a0 a1] a2] [[b0 b1] b2] (A0 & A1 & A2) (B0 & B1 & B2) E. unfold cubic_den, c0, c1, c2 in *. cbn in *.
      apply Hsplit in E as (E0 & E1 & E2); try (rewrite !(gc_len D den B G); auto).
      f_equal; [f_equal|]; apply (gc_inj D den B G); auto.
    - intros a b (A0 & A1 & A2) (B0 & B1 & B2). unfold cubic_eqb. rewrite !andb_true_iff.
      rewrite !(gc_eqb D den B G) by auto. unfold cubic_den. split.
      + intros [[E0 E1] E2]. congruence.
      + intro E. apply Hsplit in E as (E0 & E1 & E2); try (rewrite !(gc_len D den B G); auto). auto.
    - exact cubic_cmp_total_order.
    - intros a (A0 & A1 & A2). unfold cubic_is0. rewrite !andb_true_iff, !(gc_is0 D den B G) by auto.
      replace (3 * c_deg B)%nat with (c_deg B + (c_deg B + c_deg B))%nat by lia. rewrite !repeat_app.
      unfold cubic_den. split.
      + intros [[-> ->] ->]. reflexivity.
      + intro E. apply Hsplit in E as (E0 & E1 & E2); auto; rewrite repeat_length; apply (gc_len D den B G); auto.
    - intros a (A0 & A1 & A2). unfold cubic_is1.
      rewrite !andb_true_iff, (gc_is1 D den B G), !(gc_is0 D den B G) by auto.
      replace (3 * c_deg B - 1)%nat with ((c_deg B - 1) + (c_deg B + c_deg B))%nat by lia. rewrite !repeat_app.
      change (1 :: repeat 0 (c_deg B - 1) ++ repeat 0 (c_deg B) ++ repeat 0 (c_deg B))
        with ((1 :: repeat 0 (c_deg B - 1)) ++ repeat 0 (c_deg B) ++ repeat 0 (c_deg B)).
      unfold cubic_den. split.
      + intros [[-> ->] ->]. reflexivity.
      + intro E. apply Hsplit in E as (E0 & E1 & E2); auto.
        * cbn [length]. rewrite repeat_length, (gc_len D den B G) by auto. lia.
        * rewrite repeat_length. apply (gc_len D den B G); auto.
  Qed.

  (* hashing: the hasher is an arbitrary function of the stored structure *)
  Theorem hash_respects_eq : forall (H : Type) (h : T -> H) a b, D a -> D b ->
    c_eqb B a b = true -> h a = h b.
  Proof.
    intros H h a b Ha Hb E. apply (gc_eqb D den B G) in E; auto.
    rewrite (gc_inj D den B G a b Ha Hb E). reflexivity.
  Qed.

  Theorem cmp_eq_iff_eqb : forall a b, D a -> D b -> (c_cmp B a b = Eq <-> c_eqb B a b = true).
  Proof.
    intros a b Ha Hb. rewrite (to_eq D _ (gc_ord D den B G)) by auto. rewrite (gc_eqb D den B G) by auto.
    split; [congruence | apply (gc_inj D den B G); auto].
  Qed.

  (* PairingOutput wraps a target-field element: same relations; the group identity is the field's one *)
  Theorem gt_is_zero_spec : forall a, D a -> (gt_is_zero B a = true <-> den a = 1 :: repeat 0 (c_deg B - 1)).
  Proof. exact (gc_is1 D den B G). Qed.

  (* sorting with the modelled order *)
  Theorem quad_cmp_lexicographic : forall a b,
    quad_cmp B a b = Lt <->
    c_cmp B (snd a) (snd b) = Lt \/ (c_cmp B (snd a) (snd b) = Eq /\ c_cmp B (fst a) (fst b) = Lt).
  Proof. intros. apply lex_lt. Qed.

  Theorem cubic_cmp_lexicographic : forall a b,
    cubic_cmp B a b = Lt <->
    c_cmp B (c2 a) (c2 b) = Lt \/
    (c_cmp B (c2 a) (c2 b) = Eq /\
     (c_cmp B (c1 a) (c1 b) = Lt \/ (c_cmp B (c1 a) (c1 b) = Eq /\ c_cmp B (c0 a) (c0 b) = Lt))).
  Proof. intros. unfold cubic_cmp. rewrite lex_assoc, !lex_lt. reflexivity. Qed.
End Towers.

(* ---------- corollaries used by Props/C19.v ---------- *)

Theorem fp_hash_respects_eq : forall (H : Type) (h : list Z -> H) a b,
  fp_eqb a b = true -> h (fp_hash_key a) = h (fp_hash_key b).
Proof. intros H h a b E. apply arr_eqb_spec in E. subst. reflexivity. Qed.

Theorem bigint_hash_respects_eq : forall (H : Type) (h : list Z -> H) a b,
  bigint_eqb a b = true -> h (bigint_hash_key a) = h (bigint_hash_key b).
Proof. intros H h a b E. apply arr_eqb_spec in E. subst. reflexivity. Qed.

(* the Fp12 = Fp6[w], Fp6 = Fp2[v], Fp2 = Fp[u] tower of the pairing-friendly curves *)
Theorem fq12_tower_good : forall m, wf m -> val m mod 2 = 1 -> 1 < val m ->
  good_cops (quad_D (cubic_D (quad_D (fp_valid m))))
            (quad_den (cubic_den (quad_den (fun a => [std m a]))))
            (QuadC (CubicC (QuadC (FpC m)))).
Proof. intros m Hm Ho Hp. apply quad_good, cubic_good, quad_good, fp_good; auto. Qed.

Theorem fq3_tower_good : forall m, wf m -> val m mod 2 = 1 -> 1 < val m ->
  good_cops (cubic_D (fp_valid m)) (cubic_den (fun a => [std m a])) (CubicC (FpC m)).
Proof. intros m Hm Ho Hp. apply cubic_good, fp_good; auto. Qed.
