(* C19 -- proofs about curve points (equality / hashing of projective representatives,
   affine vs projective) and polynomial equality on canonical forms. *)
From V Require Import Base.Field C03.CurveExec C03.SWProofs C03.TEProofs C03.FieldHyp C19.OrdModel C19.Exprs.
Require Import Coq.setoid_ring.Field Coq.setoid_ring.Ring Bool Lia.

Section Points.
  Context {T : Type} (F : Fops T).
  Hypothesis G : good_field F.
  Let Fth := gf_th F G.
  Let feqb_spec := gf_eqb F G.
  Add Field Kf19 : Fth.

  Local Notation "0" := (f0 F).
  Local Notation "1" := (f1 F).
  Local Infix "+" := (fadd F).
  Local Infix "-" := (fsub F).
  Local Infix "*" := (fmul F).
  Local Infix "/" := (fdiv F).
  Local Infix "==" := (feqb F) (at level 70).

  Let eqb_false := SWProofs.eqb_false F feqb_spec.
  Let eqb_refl := SWProofs.eqb_refl F feqb_spec.
  Let mul_eq0 := SWProofs.mul_eq0 F Fth feqb_spec.
  Let mul_nz := SWProofs.mul_nz F Fth feqb_spec.
  Let one_nz := SWProofs.one_nz F Fth.

  (* ----- short Weierstrass ----- *)

  Lemma sw_raw_of_aff_inj : forall A B, sw_raw_of_aff F A = sw_raw_of_aff F B -> A = B.
  Proof.
    intros [[x1 y1]|] [[x2 y2]|]; cbn; intro E; try congruence; try discriminate.
  Qed.

  Lemma sw_raw_eqb_spec : forall r s, sw_raw_eqb F r s = true <-> r = s.
  Proof.
    intros [[x1 y1] i1] [[x2 y2] i2]. unfold sw_raw_eqb.
    rewrite !andb_true_iff, !feqb_spec, eqb_true_iff. split; [intros [[-> ->] ->]; reflexivity | intro E; injection E; auto].
  Qed.

  (* Projective == Projective <-> same point *)
  Theorem sw_proj_eq_iff_same_affine : forall P Q,
    sw_eqb F P Q = true <-> sw_to_affine F P = sw_to_affine F Q.
  Proof. exact (sw_eqb_spec F Fth feqb_spec). Qed.

  (* Hash for Projective hashes into_affine(): equal points feed the hasher the same structure *)
  Theorem sw_proj_eq_iff_same_hash_key : forall P Q,
    sw_eqb F P Q = true <-> sw_hash_key F P = sw_hash_key F Q.
  Proof.
    intros P Q. rewrite sw_proj_eq_iff_same_affine. unfold sw_hash_key, sw_into_affine. split.
    - congruence.
    - apply sw_raw_of_aff_inj.
  Qed.

  Theorem sw_proj_hash_respects_eq : forall (H : Type) (h : sw_raw (T := T) -> H) P Q,
    sw_eqb F P Q = true -> h (sw_hash_key F P) = h (sw_hash_key F Q).
  Proof. intros H h P Q E. apply sw_proj_eq_iff_same_hash_key in E. congruence. Qed.

  (* Affine == Affine on normalised points coincides with Projective == Projective *)
  Theorem sw_into_affine_eq : forall P Q,
    sw_raw_eqb F (sw_into_affine F P) (sw_into_affine F Q) = sw_eqb F P Q.
  Proof.
    intros P Q. apply eq_true_iff_eq. rewrite sw_raw_eqb_spec. symmetry. apply sw_proj_eq_iff_same_hash_key.
  Qed.

  Theorem sw_raw_canonical_eq : forall r s, sw_raw_canonical F r -> sw_raw_canonical F s ->
    (sw_raw_eqb F r s = true <-> sw_aff_of_raw r = sw_aff_of_raw s).
  Proof.
    intros [[x1 y1] i1] [[x2 y2] i2] Hr Hs. rewrite sw_raw_eqb_spec. cbn in *.
    destruct i1, i2; split; intro E; try congruence; try discriminate.
    destruct (Hr eq_refl) as [-> ->]. destruct (Hs eq_refl) as [-> ->]. reflexivity.
  Qed.

  Lemma sw_into_affine_canonical : forall P, sw_raw_canonical F (sw_into_affine F P).
  Proof.
    intros P. unfold sw_into_affine. destruct (sw_to_affine F P) as [[x y]|]; cbn; [discriminate | auto].
  Qed.

  (* Projective == Affine and Affine == Projective (both via into_group) *)
  Theorem sw_proj_eq_aff_spec : forall P A, sw_proj_eq_aff F P A = true <-> sw_to_affine F P = A.
  Proof.
    intros P A. unfold sw_proj_eq_aff. rewrite sw_proj_eq_iff_same_affine.
    rewrite (sw_roundtrip_affine F Fth feqb_spec). tauto.
  Qed.
  Theorem sw_aff_eq_proj_spec : forall A P, sw_aff_eq_proj F A P = true <-> A = sw_to_affine F P.
  Proof.
    intros A P. unfold sw_aff_eq_proj. rewrite sw_proj_eq_iff_same_affine.
    rewrite (sw_roundtrip_affine F Fth feqb_spec). tauto.
  Qed.

  Theorem sw_is_zero_spec : forall P, sw_is_zero F P = true <-> sw_to_affine F P = None.
  Proof.
    intros [[x y] z]. rewrite (sw_to_affine_gen F Fth feqb_spec). cbn [sw_is_zero].
    destruct (z == 0); split; congruence.
  Qed.

  (* identity with arbitrary X, Y *)
  Theorem sw_identity_any_coords : forall x y x' y', sw_eqb F (x, y, 0) (x', y', 0) = true.
  Proof.
    intros. apply sw_proj_eq_iff_same_affine. rewrite !(sw_to_affine_gen F Fth feqb_spec), eqb_refl. reflexivity.
  Qed.

  (* rescaling (X l^2, Y l^3, Z l) does not change the point *)
  Theorem sw_rescale_same_point : forall lam P, lam <> 0 ->
    sw_to_affine F (sw_rescale F lam P) = sw_to_affine F P.
  Proof.
    intros lam [[x y] z] Hl. unfold sw_rescale. rewrite !(sw_to_affine_gen F Fth feqb_spec).
    destruct (z == 0) eqn:Ez.
    - apply feqb_spec in Ez. subst z. replace (0 * lam) with 0 by ring. rewrite eqb_refl. reflexivity.
    - apply eqb_false in Ez. assert (Hzl : z * lam <> 0) by (apply mul_nz; auto).
      apply eqb_false in Hzl. rewrite Hzl. apply eqb_false in Hzl.
      f_equal. f_equal; field; auto.
  Qed.

  Theorem sw_rescale_eq : forall lam P, lam <> 0 -> sw_eqb F (sw_rescale F lam P) P = true.
  Proof. intros. apply sw_proj_eq_iff_same_affine. apply sw_rescale_same_point. assumption. Qed.

  (* ----- twisted Edwards ----- *)

  Lemma te_aff_eqb_spec : forall A B, te_aff_eqb F A B = true <-> A = B.
  Proof.
    intros [x1 y1] [x2 y2]. unfold te_aff_eqb. cbn [fst snd]. rewrite andb_true_iff, !feqb_spec.
    split; [intros [-> ->]; reflexivity | intro E; injection E; auto].
  Qed.

  Theorem te_proj_eq_iff_same_affine : forall P Q, te_valid F P -> te_valid F Q ->
    (te_eqb F P Q = true <-> te_to_affine F P = te_to_affine F Q).
  Proof. exact (te_eqb_spec F Fth feqb_spec). Qed.

  Theorem te_proj_hash_respects_eq : forall (H : Type) (h : te_aff (T := T) -> H) P Q,
    te_valid F P -> te_valid F Q -> te_eqb F P Q = true -> h (te_hash_key F P) = h (te_hash_key F Q).
  Proof.
    intros H h P Q HP HQ E. apply te_proj_eq_iff_same_affine in E; auto. unfold te_hash_key. congruence.
  Qed.

  Theorem te_into_affine_eq : forall P Q, te_valid F P -> te_valid F Q ->
    te_aff_eqb F (te_hash_key F P) (te_hash_key F Q) = te_eqb F P Q.
  Proof.
    intros P Q HP HQ. apply eq_true_iff_eq. rewrite te_aff_eqb_spec. symmetry.
    apply te_proj_eq_iff_same_affine; auto.
  Qed.

  Theorem te_proj_eq_aff_spec : forall P A, te_valid F P ->
    (te_proj_eq_aff F P A = true <-> te_to_affine F P = A).
  Proof.
    intros P A HP. unfold te_proj_eq_aff. destruct (te_roundtrip_affine F Fth feqb_spec A) as [HV HR].
    rewrite te_proj_eq_iff_same_affine by auto. rewrite HR. tauto.
  Qed.
  Theorem te_aff_eq_proj_spec : forall A P, te_valid F P ->
    (te_aff_eq_proj F A P = true <-> A = te_to_affine F P).
  Proof.
    intros A P HP. unfold te_aff_eq_proj. destruct (te_roundtrip_affine F Fth feqb_spec A) as [HV HR].
    rewrite te_proj_eq_iff_same_affine by auto. rewrite HR. tauto.
  Qed.

  Theorem te_rescale_same_point : forall lam P, lam <> 0 -> te_valid F P ->
    te_valid F (te_rescale F lam P) /\ te_to_affine F (te_rescale F lam P) = te_to_affine F P.
  Proof.
    intros lam [[[x y] t] z] Hl [Hz Ht]. unfold te_rescale.
    assert (Hzl : z * lam <> 0) by (apply mul_nz; auto). split.
    - cbn [te_valid]. split; [exact Hzl|].
      transitivity ((t * z) * (lam * lam)); [ring | rewrite Ht; ring].
    - rewrite !(te_to_affine_spec F Fth feqb_spec) by assumption. f_equal; field; auto.
  Qed.

  (* identity representatives (0, z, 0, z), z <> 0 *)
  Theorem te_identity_any_z : forall z z', z <> 0 -> z' <> 0 -> te_eqb F (0, z, 0, z) (0, z', 0, z') = true.
  Proof.
    intros z z' Hz Hz'. unfold te_eqb.
    assert (E : forall w, w <> 0 -> te_is_zero F (0, w, 0, w) = true).
    { intros w Hw. apply (te_is_zero_true F feqb_spec). auto. }
    rewrite (E z Hz). apply E. exact Hz'.
  Qed.
End Points.

(* ---------- polynomials: canonical coefficient vectors ---------- *)
Section Poly.
  Context {T : Type} (z : T) (eqb : T -> T -> bool) (is0 : T -> bool).
  Hypothesis eqb_spec : forall x y, eqb x y = true <-> x = y.
  Hypothesis is0_spec : forall x, is0 x = true <-> x = z.

  Lemma list_eqb_spec {A} (e : A -> A -> bool) (He : forall x y, e x y = true <-> x = y) :
    forall p q, list_eqb e p q = true <-> p = q.
  Proof.
    induction p as [|x p IH]; intros [|y q]; cbn; split; intro H; try reflexivity; try discriminate.
    - apply andb_true_iff in H as [E1 E2]. apply He in E1. apply IH in E2. congruence.
    - injection H as -> ->. apply andb_true_iff. split; [apply He | apply IH]; reflexivity.
  Qed.

  Theorem dense_eqb_spec : forall p q, dense_eqb eqb p q = true <-> p = q.
  Proof. apply list_eqb_spec. exact eqb_spec. Qed.

  (* canonical: empty, or last coefficient non-zero (what every constructor / operator returns) *)
  Definition dense_canonical (p : list T) : Prop := p = [] \/ last p z <> z.

  Lemma last_nth (p : list T) : last p z = nth (length p - 1) p z.
  Proof.
    induction p as [|x p IH]; [reflexivity|]. destruct p as [|y r]; [reflexivity|].
    change (last (x :: y :: r) z) with (last (y :: r) z). rewrite IH. cbn [length].
    rewrite !Nat.sub_succ, !Nat.sub_0_r. reflexivity.
  Qed.

  Lemma canonical_length_le p q : dense_canonical p -> (forall i, nth i p z = nth i q z) ->
    (length p <= length q)%nat.
  Proof.
    intros [->|Hp] Hc; [cbn; lia|].
    destruct (Nat.le_gt_cases (length p) (length q)) as [|Hlt]; [assumption|].
    exfalso. apply Hp. rewrite last_nth, Hc. apply nth_overflow. lia.
  Qed.

  (* two canonical vectors are structurally equal iff they denote the same polynomial
     (same coefficient of every power) *)
  Theorem poly_eq_iff_same_poly : forall p q, dense_canonical p -> dense_canonical q ->
    (dense_eqb eqb p q = true <-> forall i, nth i p z = nth i q z).
  Proof.
    intros p q Hp Hq. rewrite dense_eqb_spec. split; [intros ->; reflexivity|].
    intro Hc. apply (nth_ext p q z z).
    - apply Nat.le_antisymm; apply canonical_length_le; auto.
    - intros i _. apply Hc.
  Qed.

  Theorem dense_hash_respects_eq : forall (H : Type) (h : list T -> H) p q,
    dense_eqb eqb p q = true -> h p = h q.
  Proof. intros H h p q E. apply dense_eqb_spec in E. congruence. Qed.

  Theorem dense_is_zero_spec : forall p, dense_is_zero is0 p = true <-> forall i, nth i p z = z.
  Proof.
    intros p. unfold dense_is_zero. rewrite forallb_forall. split.
    - intros H i. destruct (Nat.lt_ge_cases i (length p)) as [Hi|Hi].
      + apply is0_spec. apply H. apply nth_In. exact Hi.
      + apply nth_overflow. exact Hi.
    - intros H x Hx. apply is0_spec. destruct (In_nth p x z Hx) as (i & _ & <-). apply H.
  Qed.

  Theorem dense_is_zero_canonical : forall p, dense_canonical p -> (dense_is_zero is0 p = true <-> p = []).
  Proof.
    intros p Hp. rewrite dense_is_zero_spec. split.
    - intro H. destruct Hp as [->|Hp]; [reflexivity|]. exfalso. apply Hp. rewrite last_nth. apply H.
    - intros -> i. destruct i; reflexivity.
  Qed.

  (* truncate_leading_zeros yields a canonical vector denoting the same polynomial *)
  Lemma trim_spec : forall p, dense_canonical (trim is0 p) /\ forall i, nth i (trim is0 p) z = nth i p z.
  Proof.
    induction p as [|x r [IHc IHn]]; [split; [left; reflexivity | reflexivity]|].
    cbn [trim]. destruct (trim is0 r) as [|y r'] eqn:E.
    - destruct (is0 x) eqn:Ex.
      + split; [left; reflexivity|]. apply is0_spec in Ex. subst x.
        intros [|i]; [reflexivity|]. cbn [nth]. rewrite <- IHn. destruct i; reflexivity.
      + split.
        * right. cbn. intro H. apply is0_spec in H. congruence.
        * intros [|i]; [reflexivity|]. cbn [nth]. rewrite <- IHn. destruct i; reflexivity.
    - split.
      + right. destruct IHc as [H|H]; [discriminate|]. exact H.
      + intros [|i]; [reflexivity|]. cbn [nth]. apply IHn.
  Qed.
End Poly.

(* ---------- sparse polynomials ---------- *)
Section Sparse.
  Context {T : Type} (z : T) (eqb : T -> T -> bool).
  Hypothesis eqb_spec : forall x y, eqb x y = true <-> x = y.

  Theorem sparse_eqb_spec : forall p q, sparse_eqb eqb p q = true <-> p = q.
  Proof.
    apply list_eqb_spec. intros [i x] [j y]. cbn [fst snd].
    rewrite andb_true_iff, Z.eqb_eq, eqb_spec. split; [intros [-> ->]; reflexivity | intro E; injection E; auto].
  Qed.

  (* the coefficient of x^i *)
  Fixpoint scoeff (p : list (Z * T)) (i : Z) : T :=
    match p with
    | [] => z
    | (j, c) :: r => if i =? j then c else scoeff r i
    end.
  (* canonical: exponents strictly increasing (all >= lo), coefficients non-zero *)
  Fixpoint sparse_canonical (lo : Z) (p : list (Z * T)) : Prop :=
    match p with
    | [] => True
    | (j, c) :: r => lo <= j /\ c <> z /\ sparse_canonical (j + 1) r
    end.

  Lemma scoeff_below : forall p lo i, sparse_canonical lo p -> i < lo -> scoeff p i = z.
  Proof.
    induction p as [|[j c] r IH]; intros lo i Hc Hi; [reflexivity|].
    destruct Hc as (Hj & _ & Hr). cbn [scoeff].
    destruct (Z.eqb_spec i j); [lia|]. apply (IH (j + 1)); auto. lia.
  Qed.

  Theorem sparse_eq_iff_same_poly : forall p q lo, sparse_canonical lo p -> sparse_canonical lo q ->
    (sparse_eqb eqb p q = true <-> forall i, scoeff p i = scoeff q i).
  Proof.
    intros p q lo Hp Hq. rewrite sparse_eqb_spec. split; [intros ->; reflexivity|].
    revert q lo Hp Hq. induction p as [|[j c] r IH]; intros [|[j' c'] r'] lo Hp Hq Hc.
    - reflexivity.
    - exfalso. destruct Hq as (_ & Hnz & _). specialize (Hc j'). cbn [scoeff] in Hc.
      rewrite Z.eqb_refl in Hc. congruence.
    - exfalso. destruct Hp as (_ & Hnz & _). specialize (Hc j). cbn [scoeff] in Hc.
      rewrite Z.eqb_refl in Hc. congruence.
    - destruct Hp as (Hj & Hnz & Hr). destruct Hq as (Hj' & Hnz' & Hr').
      assert (Ejj : j = j').
      { destruct (Z.lt_trichotomy j j') as [L|[E|L]]; [|exact E|]; exfalso.
        - specialize (Hc j). cbn [scoeff] in Hc. rewrite Z.eqb_refl in Hc.
          destruct (Z.eqb_spec j j'); [lia|]. rewrite (scoeff_below r' (j' + 1) j Hr') in Hc by lia. congruence.
        - specialize (Hc j'). cbn [scoeff] in Hc. rewrite Z.eqb_refl in Hc.
          destruct (Z.eqb_spec j' j); [lia|]. rewrite (scoeff_below r (j + 1) j' Hr) in Hc by lia. congruence. }
      subst j'. pose proof (Hc j) as Hcj. cbn [scoeff] in Hcj. rewrite Z.eqb_refl in Hcj. subst c'.
      f_equal. apply (IH r' (j + 1)); auto.
      intros i. destruct (Z.eqb_spec i j) as [->|Hne].
      + rewrite (scoeff_below r (j + 1) j Hr), (scoeff_below r' (j + 1) j Hr') by lia. reflexivity.
      + specialize (Hc i). cbn [scoeff] in Hc. destruct (Z.eqb_spec i j); [contradiction|]. exact Hc.
  Qed.

  (* From<DensePolynomial> for SparsePolynomial yields a canonical sparse polynomial with the same coefficients *)
  Variable is0 : T -> bool.
  Hypothesis is0_spec : forall x, is0 x = true <-> x = z.
  Theorem sparse_of_dense_spec : forall p k, 0 <= k ->
    sparse_canonical k (sparse_of_dense is0 k p) /\
    forall i, scoeff (sparse_of_dense is0 k p) i = if i <? k then z else nth (Z.to_nat (i - k)) p z.
  Proof.
    induction p as [|x r IH]; intros k Hk.
    - split; [exact I|]. intros i. cbn. destruct (i <? k); [reflexivity|]. destruct (Z.to_nat (i - k)); reflexivity.
    - destruct (IH (k + 1) ltac:(lia)) as [IHc IHn]. cbn [sparse_of_dense].
      assert (Hshift : forall i, k < i -> nth (Z.to_nat (i - k)) (x :: r) z = nth (Z.to_nat (i - (k + 1))) r z).
      { intros i Hi. replace (Z.to_nat (i - k)) with (S (Z.to_nat (i - (k + 1)))) by lia. reflexivity. }
      destruct (is0 x) eqn:Ex.
      + apply is0_spec in Ex. subst x. split.
        * clear IHn. revert IHc. generalize (sparse_of_dense is0 (k + 1) r). intros [|[j c] l]; cbn; [auto|].
          intros (A & B & C). repeat split; auto. lia.
        * intros i. rewrite IHn. destruct (Z.ltb_spec i (k + 1)), (Z.ltb_spec i k); try lia; try reflexivity.
          -- assert (i = k) by lia. subst i. rewrite Z.sub_diag. reflexivity.
          -- symmetry. apply Hshift. lia.
      + split.
        * cbn [sparse_canonical]. repeat split; [lia | | exact IHc]. intro E. apply is0_spec in E. congruence.
        * intros i. cbn [scoeff]. destruct (Z.eqb_spec i k) as [->|Hne].
          -- rewrite Z.ltb_irrefl, Z.sub_diag. reflexivity.
          -- rewrite IHn. destruct (Z.ltb_spec i (k + 1)), (Z.ltb_spec i k); try lia; try reflexivity.
             symmetry. apply Hshift. lia.
  Qed.
End Sparse.
