(* C19 -- polynomial values obtained by different operation sequences (model file, no proofs).

   Every operator is the coq/C08 model of the Rust operator (poly/src/polynomial/univariate/
   {dense,sparse,mod}.rs, poly/src/evaluations/univariate/mod.rs); coq/Props/C08.v proves that on
   canonical operands each of them returns [ROk v] with v CANONICAL (dense: no leading zero; sparse:
   strictly increasing degrees, non-zero coefficients) and v denoting the mathematical result.  So the
   value computed here for an expression is the unique canonical representation of the polynomial the
   expression denotes, and the relations printed by [Run.run_poly] (derived [==] on the stored vectors,
   [is_zero], [degree], number of stored entries) are those of the mathematical objects
   (C19_poly_eq_iff_same_poly, C19_sparse_eq_iff_same_poly).

   Operands: P Q R dense (from_coefficients_vec of the raw vectors), f a scalar, SA SB sparse
   (SparsePolynomial::from_coefficients_vec of raw term lists -- any order, pairwise distinct degrees,
   zero coefficients only at the END of the raw list, where the constructor pops them), a radix-2
   (coset) domain (n, h, g).

   dense-valued codes 0..99, sparse-valued codes 100..199. *)
From V Require Import Base.Field C08.Model.

Section PolyExprs.
  Context {K : Type} (F : Fops K).

  Local Notation D2S := (d_to_sparse F).
  Local Notation S2D := (s_to_dense F).

  (* divide_with_q_and_r; the harness does not call it with a zero divisor (it would panic) *)
  Definition pdiv (a b : dos K) : res (list K * list K) :=
    if dos_is_zero F b then ROk ([], []) else divide F a b.

  Definition dexpr (P Q R : list K) (f : K) (SA SB : list (nat * K)) (n : nat) (h g : K) (e : Z)
    : res (list K) :=
    match e with
    | 0 => ROk P | 1 => ROk Q
    | 2 => d_add F P Q | 3 => d_add F Q P
    | 4 => d_mul F P Q | 5 => d_mul F Q P
    | 6 => d_sub F P Q | 7 => x <- d_sub F Q P ;; ROk (d_neg F x)
    | 8 => d_add F P []
    | 9 => x <- d_add F P Q ;; d_sub F x Q
    | 10 => d_sub F P P | 11 => ROk []
    | 12 => d_mul F P [f1 F]
    | 13 => d_add F P P | 14 => ROk (d_scale F P (fadd F (f1 F) (f1 F)))
    | 15 => ROk R
    | 16 => d_add F P (d_neg F Q)                                  (* &p + &(-q) *)
    | 17 => d_sub_assign F P Q                                     (* p -= &q *)
    | 18 => d_add_assign F P Q                                     (* p += &q *)
    | 19 => d_add_assign_scaled F P f Q                            (* p += (f, &q) *)
    | 20 => d_add F P (d_scale F Q f)                              (* &p + &(&q * f) *)
    | 21 => d_naive_mul F P Q
    | 22 => x <- d_add F P R ;; d_sub F x P                        (* (p + r) - p *)
    | 23 => x <- d_add F P R ;; d_sub_assign F x P                 (* (p + r) -= &p *)
    | 24 => d_sub_assign F P P                                     (* p -= &p *)
    | 25 => x <- d_mul F P Q ;; qr <- pdiv (DP x) (DP Q) ;; ROk (fst qr)     (* (p*q) / q *)
    | 26 => x <- d_mul F P Q ;; qr <- pdiv (DP x) (DP Q) ;; ROk (snd qr)     (* (p*q) mod q *)
    | 27 => qr <- pdiv (DP P) (DP Q) ;; ROk (fst qr)
    | 28 => qr <- pdiv (DP P) (DP Q) ;; ROk (snd qr)
    | 29 => if d_is_zero F Q then ROk P                            (* q * (p / q) + (p mod q) *)
            else qr <- divide F (DP P) (DP Q) ;; x <- d_naive_mul F Q (fst qr) ;; d_add F x (snd qr)
    | 30 => interpolate F (d_eval_over_domain F P n h g) n h g     (* evaluate_over_domain, interpolate *)
    | 31 => s <- D2S P ;; S2D s                                    (* dense -> sparse -> dense *)
    | 32 => S2D SA
    | 33 => s <- s_add F SA SB ;; S2D s
    | 34 => x <- S2D SA ;; y <- S2D SB ;; d_add F x y
    | 35 => ROk P                                                  (* DenseOrSparse::from(p) -> Dense *)
    | 36 => S2D SA                                                 (* DenseOrSparse::from(sa) -> Dense *)
    | 37 => d_add_sparse F P SA | 38 => d_sub_sparse F P SA
    | 39 => d_add_assign_sparse F P SA | 40 => d_sub_assign_sparse F P SA
    | 41 => ROk (d_neg F P)
    | 42 => d_sub F [] P                                           (* zero() - p *)
    | 43 => x <- S2D SA ;; y <- d_naive_mul F P x ;;               (* (p * sa) / sa, sparse divisor *)
            qr <- pdiv (DP y) (SP SA) ;; ROk (fst qr)
    | 44 => x <- d_sub F P Q ;; d_add F x Q                        (* (p - q) + q *)
    | 45 => x <- d_add F P Q ;; d_sub_assign F x Q                 (* (p + q) -= &q *)
    | 46 => x <- d_add_assign_scaled F P f Q ;;                    (* (p += (f, q)) += (-f, q) *)
            d_add_assign_scaled F x (fneg F f) Q
    | _ => RPanic
    end.

  Definition sexpr (P Q R : list K) (f : K) (SA SB : list (nat * K)) (e : Z) : res (list (nat * K)) :=
    match e with
    | 100 => ROk SA | 101 => ROk SB
    | 102 => D2S P | 103 => D2S Q | 104 => D2S R
    | 105 => s_add F SA SB | 106 => s_add F SB SA
    | 107 => s_add F SA SB                                         (* sa += &sb *)
    | 108 => s_sub_assign F SA SB                                  (* sa -= &sb *)
    | 109 => s_add F SA (s_neg F SB)                               (* sa + (-sb) *)
    | 110 => x <- s_sub_assign F SB SA ;; ROk (s_neg F x)          (* -(sb -= &sa) *)
    | 111 => s_add_assign_scaled F SA f SB                         (* sa += (f, &sb) *)
    | 112 => s_add F SA (s_scale F SB f)                           (* &sa + &(&sb * f) *)
    | 113 => ROk (s_neg F SA)
    | 114 => s_mul F SA SB | 115 => s_mul F SB SA
    | 116 => x <- d_sub F P Q ;; D2S x                             (* sparse(p - q) *)
    | 117 => a <- D2S P ;; b <- D2S Q ;; s_sub_assign F a b        (* sparse(p) -= &sparse(q) *)
    | 118 => x <- d_add F P Q ;; D2S x
    | 119 => a <- D2S P ;; b <- D2S Q ;; s_add F a b
    | 120 => x <- d_naive_mul F P Q ;; D2S x
    | 121 => a <- D2S P ;; b <- D2S Q ;; s_mul F a b
    | 122 => s_sub_assign F SA SA                                  (* sa -= &sa *)
    | 123 => ROk []                                                (* SparsePolynomial::zero() *)
    | 124 => s_add F SA (s_neg F SA)
    | 125 => x <- s_add F SA SB ;; s_sub_assign F x SA             (* (sa + sb) -= &sa *)
    | 126 => x <- S2D SA ;; D2S x                                  (* sparse -> dense -> sparse *)
    | 127 => ROk SA                                                (* DenseOrSparse::from(sa).try_into() *)
    | 128 => ROk (s_scale F SA f)                                  (* &sa * f *)
    | 129 => c <- s_from_vec F [(O, f)] ;; s_mul F SA c            (* sa.mul(&[(0, f)]) *)
    | 130 => a <- D2S P ;; b <- D2S Q ;; s_add_assign_scaled F a f b
    | 131 => x <- d_add_assign_scaled F P f Q ;; D2S x
    | 132 => x <- d_sub_assign F P Q ;; D2S x
    | 133 => x <- s_sub_assign F SA SB ;; s_add F x SB             (* (sa -= &sb) + sb *)
    | 134 => x <- s_add_assign_scaled F SA f SB ;;                 (* (sa += (f, sb)) += (-f, sb) *)
             s_add_assign_scaled F x (fneg F f) SB
    | 135 => a <- D2S P ;; s_sub_assign F a a                      (* sparse(p) -= &sparse(p) *)
    | 136 => a <- D2S P ;; b <- D2S R ;; x <- s_add F a b ;; s_sub_assign F x a   (* (p + r) -= &p, sparse *)
    | _ => RPanic
    end.

  (* Evaluations over the domain (Evaluations derives PartialEq / Hash on (evals, domain)) *)
  Definition dev (n : nat) (h g : K) (p : list K) : list K := d_eval_over_domain F p n h g.
  Definition sev (n : nat) (h g : K) (s : list (nat * K)) : res (list K) := s_eval_over_domain F s n h g.
End PolyExprs.

(* the stored representation of a value: coefficients through an encoding [r] (for Fp: the Montgomery
   limb vector of the residue), sparse degrees as integers *)
Definition stored_sparse {K T : Type} (r : K -> T) (s : list (nat * K)) : list (Z * T) :=
  map (fun t => (Z.of_nat (fst t), r (snd t))) s.
Definition stored_dense {K T : Type} (r : K -> T) (p : list K) : list T := map r p.
