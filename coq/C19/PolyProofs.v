(* C19 -- polynomial values produced by the operators (coq/C08 models) are stored canonically, so
   the derived `==` / `Hash` on them coincide with mathematical identity
   (PointProofs.poly_eq_iff_same_poly, sparse_eq_iff_same_poly apply to every operator result);
   `p -= &p` on a sparse polynomial is the empty term list. *)
From V Require Import Base.Field C08.Model C08.Common C08.SparseAdd C19.OrdModel C19.PolyExprs C19.PointProofs C03.FieldHyp C19.Examples.
Require Import Coq.setoid_ring.Field Coq.setoid_ring.Ring Bool Lia Qcanon.
Open Scope Z_scope.

Section PolyResults.
  Context {K : Type} (F : Fops K).
  Hypothesis Fth : field_theory (f0 F) (f1 F) (fadd F) (fmul F) (fsub F) (fneg F)
                     (fun a b => fmul F a (finv F b)) (finv F) eq.
  Hypothesis eqb_ok : forall a b, feqb F a b = true <-> a = b.
  Add Field KF19p : Fth.

  (* the stored representation: any coefficient encoding [r] that sends 0 to z and nothing else
     (for Fp: the Montgomery limb vector of the residue) *)
  Context {T : Type} (z : T) (r : K -> T).
  Hypothesis r_zero : r (f0 F) = z.
  Hypothesis r_nonzero : forall c, c <> f0 F -> r c <> z.

  Local Notation stored_sparse := (stored_sparse r).
  Local Notation stored_dense := (stored_dense r).

  Lemma stored_sparse_canonical : forall s lo, sorted_from F lo s ->
    sparse_canonical z (Z.of_nat lo) (stored_sparse s).
  Proof.
    induction s as [|[j c] s IH]; intros lo Hs; [exact I|].
    cbn [sorted_from fst snd] in Hs. destruct Hs as (Hlo & Hc & Hr).
    cbn [stored_sparse map sparse_canonical fst snd].
    split; [lia|]. split; [apply r_nonzero; exact Hc|].
    replace (Z.of_nat j + 1) with (Z.of_nat (S j)) by lia. apply IH. exact Hr.
  Qed.

  Lemma last_map_r : forall p, last (map r p) z = r (last p (f0 F)).
  Proof.
    induction p as [|x p IH]; [symmetry; exact r_zero|].
    destruct p as [|y p']; [reflexivity|].
    change (last (map r (x :: y :: p')) z) with (last (map r (y :: p')) z).
    change (last (x :: y :: p') (f0 F)) with (last (y :: p') (f0 F)). exact IH.
  Qed.

  Lemma stored_dense_canonical : forall p, Common.canon F p -> dense_canonical z (stored_dense p).
  Proof.
    intros p [-> | Hl]; [left; reflexivity|].
    right. unfold stored_dense. rewrite last_map_r. apply r_nonzero. exact Hl.
  Qed.

  (* every operator result characterised in coq/Props/C08.v ("ROk v, v canonical, v evaluates to f") is
     stored canonically *)
  Theorem sparse_result_canonical : forall res f, oks F res f ->
    exists v, res = ROk v /\ sparse_canonical z 0 (stored_sparse v).
  Proof.
    intros res f (v & Hv & Hc & _). exists v. split; [exact Hv|].
    exact (stored_sparse_canonical v O Hc).
  Qed.
  Theorem dense_result_canonical : forall res f, okd F res f ->
    exists v, res = ROk v /\ dense_canonical z (stored_dense v).
  Proof.
    intros res f (v & Hv & Hc & _). exists v. split; [exact Hv|].
    exact (stored_dense_canonical v Hc).
  Qed.

  Theorem sparse_sub_assign_canonical : forall a b, scanon F a -> scanon F b ->
    exists v, s_sub_assign F a b = ROk v /\ sparse_canonical z 0 (stored_sparse v).
  Proof.
    intros a b Ha Hb. eapply sparse_result_canonical. apply (s_sub_assign_spec F Fth eqb_ok); assumption.
  Qed.

  (* p -= &p: every merge step meets equal degrees with a zero sum, nothing is pushed *)
  Lemma merge_self_neg : forall a acc, s_merge F a (s_neg F a) acc = ROk acc.
  Proof.
    induction a as [|[i x] a IH]; intro acc; [reflexivity|].
    cbn [s_neg map fst snd s_merge]. rewrite Nat.compare_refl.
    assert (E : is0 F (fadd F x (fneg F x)) = true).
    { unfold is0. apply eqb_ok. ring. }
    rewrite E. apply IH.
  Qed.

  Theorem sparse_sub_self_zero : forall a, scanon F a -> s_sub_assign F a a = ROk [].
  Proof.
    intros [|[i x] a] Ha; [reflexivity|].
    cbn [scanon sorted_from fst snd] in Ha. destruct Ha as (_ & Hx & _).
    unfold s_sub_assign, s_add.
    assert (E1 : is0 F x = false).
    { destruct (is0 F x) eqn:E; [|reflexivity]. apply eqb_ok in E. contradiction. }
    assert (E2 : is0 F (fneg F x) = false).
    { destruct (is0 F (fneg F x)) eqn:E; [|reflexivity]. apply eqb_ok in E. exfalso. apply Hx.
      transitivity (fneg F (fneg F x)); [ring | rewrite E; ring]. }
    cbn [s_is_zero forallb snd s_neg map fst]. rewrite E1, E2. cbn [andb].
    apply (merge_self_neg ((i, x) :: a) []).
  Qed.
End PolyResults.

(* witnesses: a canonical sparse polynomial 2x + 5x^3 over Q, the identity encoding *)
Lemma ex_scanon : scanon QcOps [(1%nat, q 2); (3%nat, q 5)] /\ Common.canon QcOps [q 2; q 0; q 5] /\
  (forall c : Qc, c <> f0 QcOps -> (fun x => x) c <> f0 QcOps).
Proof.
  split; [|split].
  - cbn. repeat split; try lia; [exact ex_rescale_nz | exact ex_five_nz].
  - right. exact ex_five_nz.
  - intros c H. exact H.
Qed.
