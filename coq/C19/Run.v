(* Uniform case interpreter for C19.  First result list is the status ([0] ok, [9] unsupported).

   Field configuration: a[0] = [cfg_id; kind], a[1] = tower parameters
     kind 1  Fp                      [p]
     kind 2  Fp2 = Fp[u]/(u^2-nr)    [p; nr]
     kind 3  Fp3 = Fp[u]/(u^3-nr)    [p; nr]
     kind 6  Fp6 = Fp2[v]/(v^3-nr6)  [p; nr2; nr6 (2 coords)]
     kind 12 Fp12 = Fp6[w]/(w^2-nr12) [p; nr2; nr6 (2); nr12 (6)]
   The limb count N of the Rust type is a[0][2] (the modulus is given to the Montgomery model
   as N limbs).
   ops:
     1 fld_rel    a[2..4] = x y z (coordinates), a[5] = [eL; eR]
                  -> [eq] [cmp] [eq] [is0 L; is1 L; is0 R; is1 R]
     2 fld_sort   a[2..] elements -> sorted elements (coordinates)
     3 fld_params -> a[1]
     4 big_rel    a[0] = [N], a[1] = x, a[2] = y, a[3] = [eL; eR] -> [eq] [cmp] [eq] [is0 L; is0 R]
     5 big_sort   a[0] = [N], a[1..] -> sorted
     6 sw_rel     a[2] = coeff a, a[3] = coeff b, a[4] = generator x ++ y, a[5] = [s1; s2; k; l; w],
                  a[6] = raw X ++ Y, a[7] = lambda_L, a[8] = lambda_R, a[9] = [eL; eR; normL; normR],
                  a[10] = [flagA; flagB], a[11] = TA x ++ y, a[12] = TB x ++ y   (raw affine base points,
                  anywhere on the curve; flag 0 = identity):  A = TA + s1 G, B = TB + s2 G
                  (a[0][3] = index of the curve among those over the same field, harness only)
                  -> [L==R; R==L] [hash L = hash R] [L.is_zero; R.is_zero; L==0; R==0; 0==L; 0==R]
                     [La==Ra; hash La = hash Ra; Ra==La] [L==Ra; La==R; Ra==L; R==La]
                     [La.is_zero; Ra.is_zero; La==Affine 0; Ra==Affine 0]
                     normalize_batch [L; R] = [N0; N1]: [N0==La; N1==Ra; N0==N1; N0.is_zero; N1.is_zero]
     7 sw_params  -> a[1] a[2] a[3] a[4]
     8 te_rel     as sw_rel with a[3] = coeff d, a[6] = raw z
     9 te_params
     10 gt_rel    PairingOutput over the kind-12 tower: a[2..4] = x y z, a[5] = [eL; eR]
                  -> [eq] [cmp] [eq] [is_zero L; is_zero R]
     11 gt_pair   a[2] = g = e(G1, G2) (12 coordinates), a[3] = [s1; s2; t1; t2; mode; r]
                  -> as gt_rel;  13 gt_params -> a[1] a[2]
     12 poly_rel  a[0] = [cfg; 1; N], a[1] = [p], a[2] = P coeffs, a[3] = Q coeffs, a[4] = [eL; eR], a[5] = R coeffs,
                  a[6] = [f], a[7] = SA raw terms [d0; c0; d1; c1; ...], a[8] = SB raw terms, a[9] = [n; h; g] (radix-2
                  domain size, coset offset, group generator).  eL, eR both < 100 (dense-valued, PolyExprs.dexpr)
                  or both >= 100 (sparse-valued, PolyExprs.sexpr)
                  -> [L==R; R==L] [hash L = hash R] [L.is_zero; R.is_zero; L==zero(); R==zero()]
                     [L.degree(); R.degree()] [stored entries of L; of R]
                     [X(L)==X(R); hash] (X = conversion to the other representation)
                     [ev(L)==ev(R); hash; ev(L)==ev(X(L)); ev(R)==ev(X(R))]  (Evaluations over the domain)
                  status [2] = some operator / degree() panicked
     14 mvpoly_rel     multivariate SparsePolynomial<F, SparseTerm>: layout and output in C19/MvRun.v, expression
                       codes in C19/MvModel.v (operators: the coq/C17 models)
     15 pt_decoded_rel curve points obtained by deserialization: layout and output in C19/DecRun.v (expected decode:
                       the coq/C09 codec models)
*)
From V Require Import C08.Model Base.Word Base.Field C15.BigIntModel C03.CurveExec C19.OrdModel C19.Exprs C19.PolyExprs.
From V Require C19.MvRun C19.DecRun.

Definition ok (r : list (list Z)) : list (list Z) := [0] :: r.
Definition unsupported : list (list Z) := [[9]].
Definition b2z := Z.b2z.
Definition cmp2z (c : comparison) : Z := match c with Lt => -1 | Eq => 0 | Gt => 1 end.
Definition arg (n : nat) (a : list (list Z)) : list Z := nth n a [].
Definition argz (n i : nat) (a : list (list Z)) : Z := nth i (arg n a) 0.

(* stable insertion sort on (key, payload) pairs with the modelled order on keys *)
Fixpoint ins {K P} (cmpf : K -> K -> comparison) (x : K * P) (l : list (K * P)) : list (K * P) :=
  match l with
  | [] => [x]
  | y :: r => match cmpf (fst x) (fst y) with Lt => x :: l | _ => y :: ins cmpf x r end
  end.
Definition sort_pairs {K P} (cmpf : K -> K -> comparison) (l : list (K * P)) : list (K * P) :=
  fold_right (ins cmpf) [] l.

Section RunField.
  Context {T E : Type} (F : Fops T) (C : Cops E).
  Definition repr (x : T) : E := c_of C (fcoords F x).

  Definition rel_out (x y : E) : list (list Z) :=
    [[b2z (c_eqb C x y)]; [cmp2z (c_cmp C x y)]; [b2z (c_eqb C x y)];
     [b2z (c_is0 C x); b2z (c_is1 C x); b2z (c_is0 C y); b2z (c_is1 C y)]].

  Definition run_field (op : Z) (a : list (list Z)) : list (list Z) :=
    match op with
    | 1 => let x := fof F (arg 2 a) in let y := fof F (arg 3 a) in let z := fof F (arg 4 a) in
           let L := repr (fexpr F (argz 5 0 a) x y z) in
           let R := repr (fexpr F (argz 5 1 a) x y z) in
           ok (rel_out L R)
    | 2 => let els := map (fun l => let x := fof F l in (repr x, fcoords F x)) (skipn 2 a) in
           ok (map snd (sort_pairs (c_cmp C) els))
    | 3 => ok [arg 1 a]
    | 10 => let x := fof F (arg 2 a) in let y := fof F (arg 3 a) in let z := fof F (arg 4 a) in
            let ev e := match e with
                        | 40 => fmul F x y | 41 => fmul F y x | 43 => f1 F
                        | _ => fexpr F e x y z end in
            let L := repr (ev (argz 5 0 a)) in
            let R := repr (ev (argz 5 1 a)) in
            ok [[b2z (gt_eqb C L R)]; [cmp2z (gt_cmp C L R)]; [b2z (gt_eqb C L R)];
                [b2z (gt_is_zero C L); b2z (gt_is_zero C R)]]
    | 11 =>
        (* pairing outputs given by exponents of g = e(G1, G2):  L = e(s1 G1, s2 G2) = g^(s1 s2);
           R = e(t1 G1, t2 G2) | g * t1 * t2 | e(t1 G1, G2) + e(G1, t2 G2) | multi_pairing | -e(t1 G1, t2 G2) *)
        let g := fof F (arg 2 a) in
        let s1 := argz 3 0 a in let s2 := argz 3 1 a in
        let t1 := argz 3 2 a in let t2 := argz 3 3 a in
        let mode := argz 3 4 a in let r := argz 3 5 a in
        let eL := (s1 * s2) mod r in
        let eR := match mode with
                  | 0 | 1 => (t1 * t2) mod r
                  | 2 | 3 => (t1 + t2) mod r
                  | _ => (- (t1 * t2)) mod r
                  end in
        let L := repr (fpow F g eL) in
        let R := repr (fpow F g eR) in
        ok [[b2z (gt_eqb C L R)]; [cmp2z (gt_cmp C L R)]; [b2z (gt_eqb C L R)];
            [b2z (gt_is_zero C L); b2z (gt_is_zero C R)]]
    | 13 => ok [arg 1 a; arg 2 a]
    | _ => unsupported
    end.

  (* ---- curves over F ---- *)
  Definition run_sw (op : Z) (a : list (list Z)) : list (list Z) :=
    match op with
    | 6 =>
        let ca := el F (arg 2 a) 0 in
        let G := Some (el F (arg 4 a) 0, el F (arg 4 a) 1) in
        let s1 := argz 5 0 a in let s2 := argz 5 1 a in
        let k := argz 5 2 a in let l := argz 5 3 a in
        (* base points given by raw affine coordinates (anywhere on the curve); flag 0 = identity *)
        let TA := if argz 10 0 a =? 0 then None else Some (el F (arg 11 a) 0, el F (arg 11 a) 1) in
        let TB := if argz 10 1 a =? 0 then None else Some (el F (arg 12 a) 0, el F (arg 12 a) 1) in
        let A := sw_to_affine F (sw_add F ca (sw_of_affine F TA) (sw_mul F ca s1 (sw_of_affine F G))) in
        let B := sw_to_affine F (sw_add F ca (sw_of_affine F TB) (sw_mul F ca s2 (sw_of_affine F G))) in
        let rx := el F (arg 6 a) 0 in let ry := el F (arg 6 a) 1 in
        let mk e lam nrm :=
          let P := sw_rescale F lam (swexpr F ca e A B k l rx ry) in
          if nrm =? 0 then P else sw_of_affine F (sw_to_affine F P) in
        let L := mk (argz 9 0 a) (el F (arg 7 a) 0) (argz 9 2 a) in
        let R := mk (argz 9 1 a) (el F (arg 8 a) 0) (argz 9 3 a) in
        let La := sw_into_affine F L in let Ra := sw_into_affine F R in
        let LA := sw_to_affine F L in let RA := sw_to_affine F R in
        let Z := sw_zero F in
        let Za := sw_raw_of_aff F None in
        let nb := map (sw_raw_of_aff F) (sw_normalize_batch F [L; R]) in
        let N0 := nth 0 nb Za in let N1 := nth 1 nb Za in
        ok [[b2z (sw_eqb F L R); b2z (sw_eqb F R L)]; [b2z (sw_eqb F L R)];
            [b2z (sw_is_zero F L); b2z (sw_is_zero F R); b2z (sw_eqb F L Z); b2z (sw_eqb F R Z);
             b2z (sw_eqb F Z L); b2z (sw_eqb F Z R)];
            [b2z (sw_raw_eqb F La Ra); b2z (sw_raw_eqb F La Ra); b2z (sw_raw_eqb F Ra La)];
            [b2z (sw_proj_eq_aff F L RA); b2z (sw_aff_eq_proj F LA R);
             b2z (sw_aff_eq_proj F RA L); b2z (sw_proj_eq_aff F R LA)];
            [b2z (sw_aff_is_zero La); b2z (sw_aff_is_zero Ra); b2z (sw_raw_eqb F La Za); b2z (sw_raw_eqb F Ra Za)];
            [b2z (sw_raw_eqb F N0 La); b2z (sw_raw_eqb F N1 Ra); b2z (sw_raw_eqb F N0 N1);
             b2z (sw_aff_is_zero N0); b2z (sw_aff_is_zero N1)]]
    | 7 => ok [arg 1 a; arg 2 a; arg 3 a; arg 4 a]
    | _ => unsupported
    end.

  Definition run_te (op : Z) (a : list (list Z)) : list (list Z) :=
    match op with
    | 8 =>
        let ca := el F (arg 2 a) 0 in
        let cd := el F (arg 3 a) 0 in
        let G := (el F (arg 4 a) 0, el F (arg 4 a) 1) in
        let s1 := argz 5 0 a in let s2 := argz 5 1 a in
        let k := argz 5 2 a in let l := argz 5 3 a in
        (* base points given by raw affine coordinates (anywhere on the curve); flag 0 = (0, 1) *)
        let TA := if argz 10 0 a =? 0 then te_aff_zero F else (el F (arg 11 a) 0, el F (arg 11 a) 1) in
        let TB := if argz 10 1 a =? 0 then te_aff_zero F else (el F (arg 12 a) 0, el F (arg 12 a) 1) in
        let A := te_to_affine F (te_add F ca cd (te_of_affine F TA) (te_mul F ca cd s1 (te_of_affine F G))) in
        let B := te_to_affine F (te_add F ca cd (te_of_affine F TB) (te_mul F ca cd s2 (te_of_affine F G))) in
        let rz := el F (arg 6 a) 0 in
        let mk e lam nrm :=
          let P := te_rescale F lam (teexpr F ca cd e A B k l rz) in
          if nrm =? 0 then P else te_of_affine F (te_to_affine F P) in
        let L := mk (argz 9 0 a) (el F (arg 7 a) 0) (argz 9 2 a) in
        let R := mk (argz 9 1 a) (el F (arg 8 a) 0) (argz 9 3 a) in
        let LA := te_hash_key F L in let RA := te_hash_key F R in
        let Z := te_zero F in
        let Za := te_aff_zero F in
        let nb := te_normalize_batch F [L; R] in
        let N0 := nth 0 nb Za in let N1 := nth 1 nb Za in
        ok [[b2z (te_eqb F L R); b2z (te_eqb F R L)]; [b2z (te_eqb F L R)];
            [b2z (te_is_zero F L); b2z (te_is_zero F R); b2z (te_eqb F L Z); b2z (te_eqb F R Z);
             b2z (te_eqb F Z L); b2z (te_eqb F Z R)];
            [b2z (te_aff_eqb F LA RA); b2z (te_aff_eqb F LA RA); b2z (te_aff_eqb F RA LA)];
            [b2z (te_proj_eq_aff F L RA); b2z (te_aff_eq_proj F LA R);
             b2z (te_aff_eq_proj F RA L); b2z (te_proj_eq_aff F R LA)];
            [b2z (te_aff_is_zero F LA); b2z (te_aff_is_zero F RA); b2z (te_aff_eqb F LA Za); b2z (te_aff_eqb F RA Za)];
            [b2z (te_aff_eqb F N0 LA); b2z (te_aff_eqb F N1 RA); b2z (te_aff_eqb F N0 N1);
             b2z (te_aff_is_zero F N0); b2z (te_aff_is_zero F N1)]]
    | 9 => ok [arg 1 a; arg 2 a; arg 3 a; arg 4 a]
    | _ => unsupported
    end.

  (* ---- polynomials over F (a prime field) ---- *)
  Fixpoint spairs (l : list Z) : list (nat * T) :=
    match l with d :: c :: t => (Z.to_nat d, fof F [c]) :: spairs t | _ => [] end.
  Definition rd (l : list T) : list E := stored_dense repr l.
  Definition rs (s : list (nat * T)) : list (Z * E) := stored_sparse repr s.
  (* SparsePolynomial::from_coefficients_vec on raw terms with pairwise distinct degrees.  Zero-coefficient terms
     denote nothing: they are dropped first, wherever they are in the raw list (F28, fixed in /repo: the Rust
     constructor used to pop them only at the end of the list) *)
  Definition sp_in (l : list Z) : res (list (nat * T)) :=
    s_from_vec F (filter (fun t => negb (is0 F (snd t))) (spairs l)).
  Definition pres (r : res (list (list Z))) : list (list Z) :=
    match r with ROk v => ok v | RPanic => [[2]] | RFuel => [[7]] end.
  Definition zlen {A} (l : list A) : Z := Z.of_nat (length l).

  Definition run_poly (op : Z) (a : list (list Z)) : list (list Z) :=
    match op with
    | 12 =>
        let fv l := map (fun v => fof F [v]) l in
        let deq := dense_eqb (c_eqb C) in
        let seq := sparse_eqb (c_eqb C) in
        let eL := argz 4 0 a in let eR := argz 4 1 a in
        let f := fof F [argz 6 0 a] in
        let n := Z.to_nat (argz 9 0 a) in
        let h := fof F [argz 9 1 a] in let g := fof F [argz 9 2 a] in
        (* DensePolynomial::from_coefficients_vec = truncate_leading_zeros *)
        let P := trim (fis0 F) (fv (arg 2 a)) in
        let Q := trim (fis0 F) (fv (arg 3 a)) in
        let R := trim (fis0 F) (fv (arg 5 a)) in
        if (eL <? 100) && (eR <? 100) then
          pres (SA <- sp_in (arg 7 a) ;; SB <- sp_in (arg 8 a) ;;
                L <- dexpr F P Q R f SA SB n h g eL ;; R' <- dexpr F P Q R f SA SB n h g eR ;;
                dL <- d_degree F L ;; dR <- d_degree F R' ;;
                sL <- d_to_sparse F L ;; sR <- d_to_sparse F R' ;;
                eSL <- sev F n h g sL ;; eSR <- sev F n h g sR ;;
                let l := rd L in let r := rd R' in
                let cl := sparse_of_dense (c_is0 C) 0 l in let cr := sparse_of_dense (c_is0 C) 0 r in
                let el := rd (dev F n h g L) in let er := rd (dev F n h g R') in
                ROk [[b2z (deq l r); b2z (deq r l)]; [b2z (deq l r)];
                     [b2z (dense_is_zero (c_is0 C) l); b2z (dense_is_zero (c_is0 C) r);
                      b2z (deq l []); b2z (deq r [])];
                     [Z.of_nat dL; Z.of_nat dR]; [zlen l; zlen r];
                     [b2z (seq cl cr); b2z (seq cl cr)];
                     [b2z (deq el er); b2z (deq el er); b2z (deq el (rd eSL)); b2z (deq er (rd eSR))]])
        else if (100 <=? eL) && (100 <=? eR) then
          pres (SA <- sp_in (arg 7 a) ;; SB <- sp_in (arg 8 a) ;;
                L <- sexpr F P Q R f SA SB eL ;; R' <- sexpr F P Q R f SA SB eR ;;
                dL <- s_degree F L ;; dR <- s_degree F R' ;;
                cL <- s_to_dense F L ;; cR <- s_to_dense F R' ;;
                eSL <- sev F n h g L ;; eSR <- sev F n h g R' ;;
                let l := rs L in let r := rs R' in
                let cl := rd cL in let cr := rd cR in
                let el := rd eSL in let er := rd eSR in
                ROk [[b2z (seq l r); b2z (seq r l)]; [b2z (seq l r)];
                     [b2z (sparse_is_zero (c_is0 C) l); b2z (sparse_is_zero (c_is0 C) r);
                      b2z (seq l []); b2z (seq r [])];
                     [Z.of_nat dL; Z.of_nat dR]; [zlen l; zlen r];
                     [b2z (deq cl cr); b2z (deq cl cr)];
                     [b2z (deq el er); b2z (deq el er);
                      b2z (deq el (rd (dev F n h g cL))); b2z (deq er (rd (dev F n h g cR)))]])
        else unsupported
    | _ => unsupported
    end.

  Definition run_any (op : Z) (a : list (list Z)) : list (list Z) :=
    match op with
    | 1 | 2 | 3 | 10 | 11 | 13 => run_field op a
    | 6 | 7 => run_sw op a
    | 8 | 9 => run_te op a
    | 12 => run_poly op a
    | 14 => MvRun.run_mv F C a
    | _ => unsupported
    end.
End RunField.

Definition run_big (op : Z) (a : list (list Z)) : list (list Z) :=
  match op with
  | 4 => let x := arg 1 a in let y := arg 2 a in
         let L := bexpr (argz 3 0 a) x y in
         let R := bexpr (argz 3 1 a) x y in
         ok [[b2z (bigint_eqb L R)]; [cmp2z (bigint_cmp L R)]; [b2z (bigint_eqb L R)];
             [b2z (bigint_is_zero L); b2z (bigint_is_zero R)]]
  | 5 => ok (map snd (sort_pairs bigint_cmp (map (fun l => (l, l)) (skipn 1 a))))
  | _ => unsupported
  end.

Definition run_C19 (op : Z) (a : list (list Z)) : list (list Z) :=
  match op with
  | 4 | 5 => run_big op a
  | 15 => DecRun.run_dec_C19 a
  | _ =>
    let kind := argz 0 1 a in
    let N := Z.to_nat (argz 0 2 a) in
    let P := arg 1 a in
    let p := nth 0 P 0 in
    let m := to_limbs N p in
    let F1 := ZpOps p in let C1 := FpC m in
    match kind with
    | 1 => run_any F1 C1 op a
    | 2 => run_any (QuadOps F1 (nth 1 P 0)) (QuadC C1) op a
    | 3 => run_any (CubicOps F1 (nth 1 P 0)) (CubicC C1) op a
    | 6 => let F2 := QuadOps F1 (nth 1 P 0) in
           run_any (CubicOps F2 (nth 2 P 0, nth 3 P 0)) (CubicC (QuadC C1)) op a
    | 12 => let F2 := QuadOps F1 (nth 1 P 0) in
            let F6 := CubicOps F2 (nth 2 P 0, nth 3 P 0) in
            let nr12 := fof F6 (skipn 4 P) in
            run_any (QuadOps F6 nr12) (QuadC (CubicC (QuadC C1))) op a
    | _ => unsupported
    end
  end.
