(* C19 -- points anywhere on the curve (small order, outside the prime-order subgroup, zero
   coordinates): is_zero / == zero() / Affine::is_zero agree with "the affine point is the
   neutral element" for EVERY valid representative, the point of order two of a twisted
   Edwards curve (0 : -z : 0 : z) and the short-Weierstrass points with y = 0 are not the
   identity, == is symmetric, rescaling preserves == and is_zero, normalize_batch = into_affine.
   None of the statements mentions a subgroup or even the curve equation. *)
From V Require Import Base.Field C03.CurveExec C03.SWProofs C03.TEProofs C03.FieldHyp C19.OrdModel C19.Exprs C19.PointProofs.
Require Import Coq.setoid_ring.Field Coq.setoid_ring.Ring Bool Lia List.
Import ListNotations.

Section AnyPoint.
  Context {T : Type} (F : Fops T).
  Hypothesis G : good_field F.
  Let Fth := gf_th F G.
  Let feqb_spec := gf_eqb F G.
  Let two_nz := gf_two F G.
  Add Field Kf19t : Fth.

  Local Notation "0" := (f0 F).
  Local Notation "1" := (f1 F).
  Local Infix "+" := (fadd F).
  Local Infix "-" := (fsub F).
  Local Infix "*" := (fmul F).
  Local Infix "/" := (fdiv F).
  Local Infix "==" := (feqb F) (at level 70).
  Local Notation "- x" := (fneg F x).

  Let eqb_false := SWProofs.eqb_false F feqb_spec.
  Let eqb_refl := SWProofs.eqb_refl F feqb_spec.
  Let mul_eq0 := SWProofs.mul_eq0 F Fth feqb_spec.
  Let mul_nz := SWProofs.mul_nz F Fth feqb_spec.
  Let one_nz := SWProofs.one_nz F Fth.
  Let neg_eq_self := SWProofs.neg_eq_self F Fth feqb_spec two_nz.

  (* ----- twisted Edwards ----- *)
  Theorem te_is_zero_iff : forall P, te_valid F P ->
    (te_is_zero F P = true <-> te_to_affine F P = (0, 1)).
  Proof. exact (te_is_zero_spec F Fth feqb_spec). Qed.

  Lemma te_is_zero_zero : te_is_zero F (te_zero F) = true.
  Proof. apply (te_is_zero_true F feqb_spec). repeat split; auto. Qed.

  Theorem te_eq_zero_is_zero : forall P,
    te_eqb F P (te_zero F) = te_is_zero F P /\ te_eqb F (te_zero F) P = te_is_zero F P.
  Proof.
    intros [[[x y] t] z]. split.
    - unfold te_eqb. fold (te_zero F). rewrite te_is_zero_zero.
      destruct (te_is_zero F (x, y, t, z)); reflexivity.
    - change (te_eqb F (te_zero F) (x, y, t, z)) with
        (if te_is_zero F (te_zero F) then te_is_zero F (x, y, t, z)
         else if te_is_zero F (x, y, t, z) then false else ((0 * z == x * 1) && (1 * z == y * 1))).
      rewrite te_is_zero_zero. reflexivity.
  Qed.

  Theorem te_aff_is_zero_spec : forall A, te_aff_is_zero F A = true <-> A = (0, 1).
  Proof.
    intros [x y]. unfold te_aff_is_zero. rewrite andb_true_iff, !feqb_spec.
    split; [intros [-> ->]; reflexivity | intro E; injection E; auto].
  Qed.

  Theorem te_into_affine_is_zero : forall P, te_valid F P ->
    te_aff_is_zero F (te_to_affine F P) = te_is_zero F P.
  Proof.
    intros P HP. apply eq_true_iff_eq. rewrite te_aff_is_zero_spec. symmetry. apply te_is_zero_iff. exact HP.
  Qed.

  Theorem te_eqb_sym : forall P Q, te_valid F P -> te_valid F Q -> te_eqb F P Q = te_eqb F Q P.
  Proof.
    intros P Q HP HQ. apply eq_true_iff_eq.
    rewrite !(te_eqb_spec F Fth feqb_spec) by assumption. split; congruence.
  Qed.

  Theorem te_rescale_eq : forall lam P, lam <> 0 -> te_valid F P ->
    te_eqb F (te_rescale F lam P) P = true /\ te_is_zero F (te_rescale F lam P) = te_is_zero F P.
  Proof.
    intros lam P Hl HP. destruct (te_rescale_same_point F G lam P Hl HP) as [HV HE]. split.
    - apply (te_eqb_spec F Fth feqb_spec); assumption.
    - apply eq_true_iff_eq. rewrite !te_is_zero_iff by assumption. rewrite HE. tauto.
  Qed.

  (* the point of order two (0, -1), in any representative (0 : -z : 0 : z) *)
  Theorem te_order_two_not_zero : forall z z', z <> 0 -> z' <> 0 ->
    te_valid F (0, - z, 0, z) /\
    te_to_affine F (0, - z, 0, z) = (0, fneg F 1) /\
    te_is_zero F (0, - z, 0, z) = false /\
    te_eqb F (0, - z, 0, z) (0, z', 0, z') = false /\
    te_eqb F (0, z', 0, z') (0, - z, 0, z) = false /\
    te_aff_is_zero F (0, fneg F 1) = false.
  Proof.
    intros z z' Hz Hz'.
    assert (V : te_valid F (0, - z, 0, z)) by (split; [exact Hz | ring]).
    assert (V' : te_valid F (0, z', 0, z')) by (split; [exact Hz' | ring]).
    assert (A : te_to_affine F (0, - z, 0, z) = (0, fneg F 1)).
    { rewrite (te_to_affine_spec F Fth feqb_spec) by exact Hz. f_equal; field; exact Hz. }
    assert (N1 : (0, fneg F 1) <> (0, 1) :> T * T).
    { intro E. injection E as E. apply one_nz. apply neg_eq_self. symmetry. exact E. }
    assert (Z : te_is_zero F (0, - z, 0, z) = false).
    { apply not_true_is_false. intro E. apply te_is_zero_iff in E; [|exact V]. rewrite A in E. exact (N1 E). }
    assert (A' : te_to_affine F (0, z', 0, z') = (0, 1)).
    { rewrite (te_to_affine_spec F Fth feqb_spec) by exact Hz'. f_equal; field; exact Hz'. }
    repeat split; try assumption; try (destruct V; assumption).
    - apply not_true_is_false. intro E. apply (te_eqb_spec F Fth feqb_spec) in E; try assumption.
      rewrite A, A' in E. exact (N1 E).
    - apply not_true_is_false. intro E. apply (te_eqb_spec F Fth feqb_spec) in E; try assumption.
      rewrite A, A' in E. exact (N1 (eq_sym E)).
    - apply not_true_is_false. intro E. apply te_aff_is_zero_spec in E. exact (N1 E).
  Qed.

  Theorem te_normalize_batch_valid : forall v, Forall (te_valid F) v ->
    te_normalize_batch F v = map (te_to_affine F) v.
  Proof.
    intros v Hv. apply (te_normalize_batch_spec F Fth feqb_spec).
    rewrite Forall_forall in *. intros [[[x y] t] z] Hin. destruct (Hv _ Hin) as [Hz _]. exact Hz.
  Qed.

  (* ----- short Weierstrass ----- *)
  Theorem sw_eq_zero_is_zero : forall P,
    sw_eqb F P (sw_zero F) = sw_is_zero F P /\ sw_eqb F (sw_zero F) P = sw_is_zero F P.
  Proof.
    intros [[x y] z]. unfold sw_eqb, sw_zero, sw_is_zero. rewrite !eqb_refl.
    split; destruct (z == 0); reflexivity.
  Qed.

  Theorem sw_into_affine_is_zero : forall P, sw_aff_is_zero (sw_into_affine F P) = sw_is_zero F P.
  Proof.
    intros P. apply eq_true_iff_eq. rewrite (sw_is_zero_spec F G). unfold sw_into_affine.
    destruct (sw_to_affine F P) as [[x y]|]; cbn; split; congruence.
  Qed.

  Theorem sw_eqb_sym : forall P Q, sw_eqb F P Q = sw_eqb F Q P.
  Proof.
    intros P Q. apply eq_true_iff_eq. rewrite !(sw_eqb_spec F Fth feqb_spec). split; congruence.
  Qed.

  (* points of order two (y = 0): P = -P although P is not the identity *)
  Theorem sw_order_two : forall x z, z <> 0 ->
    sw_is_zero F (x, 0, z) = false /\
    sw_eqb F (x, 0, z) (sw_neg F (x, 0, z)) = true /\
    sw_eqb F (x, 0, z) (sw_zero F) = false.
  Proof.
    intros x z Hz. assert (Z : sw_is_zero F (x, 0, z) = false) by (cbn; apply eqb_false; exact Hz).
    repeat split.
    - exact Z.
    - unfold sw_neg. replace (- 0) with 0 by ring. apply (sw_eqb_spec F Fth feqb_spec). reflexivity.
    - rewrite (proj1 (sw_eq_zero_is_zero _)). exact Z.
  Qed.

  Theorem sw_rescale_is_zero : forall lam P, lam <> 0 ->
    sw_is_zero F (sw_rescale F lam P) = sw_is_zero F P.
  Proof.
    intros lam P Hl. apply eq_true_iff_eq. rewrite !(sw_is_zero_spec F G).
    rewrite (sw_rescale_same_point F G) by exact Hl. tauto.
  Qed.

  Theorem sw_normalize_batch_all : forall v, sw_normalize_batch F v = map (sw_to_affine F) v.
  Proof. exact (sw_normalize_batch_spec F Fth feqb_spec). Qed.
End AnyPoint.
