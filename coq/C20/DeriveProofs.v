(* Proofs about the computations of the derive macro `mont_config_helper`
   (ff-macros/src/montgomery/mod.rs) as modelled at the end of C20/Literals.v:
   limb count, trace, modpow, and the to_string / parse round trip. *)
From V Require Import Base.Word C15.GenArith C15.BigIntModel C15.DecimalProofs C15.ConstProofs
  C20.Literals.

(* ---------- 1. limb count ---------- *)

Lemma Wn_two_pow n : Wn n = 2 ^ (64 * Z.of_nat n).
Proof. unfold Wn. rewrite <- W64_eq. rewrite <- Z.pow_mul_r by lia. reflexivity. Qed.

Lemma limb_count_loop_spec : forall p f j, (1 <= j)%nat ->
  (j = 1%nat \/ Wn (j - 1) < p) -> p <= 2 ^ Z.of_nat f * Wn j ->
  exists k, limb_count_loop (S f) p (Wn j) (Z.of_nat j) = Some (Z.of_nat k) /\
    (j <= k)%nat /\ p <= Wn k /\ (k = 1%nat \/ Wn (k - 1) < p).
Proof.
  intros p. induction f as [|f IH]; intros j Hj Hprev Hfuel.
  - change (2 ^ Z.of_nat 0) with 1 in Hfuel. cbn [limb_count_loop].
    destruct (Z.ltb_spec (Wn j) p) as [Hlt|Hge]; [lia|].
    exists j. repeat split; auto; lia.
  - remember (S f) as f' eqn:Ef. cbn [limb_count_loop].
    destruct (Z.ltb_spec (Wn j) p) as [Hlt|Hge].
    + replace (Wn j * W64) with (Wn (S j)) by (rewrite Wn_S; ring).
      replace (Z.of_nat j + 1) with (Z.of_nat (S j)) by lia.
      subst f'.
      destruct (IH (S j)) as (k & Hrun & Hk & Hle & Hmin).
      * lia.
      * right. replace (S j - 1)%nat with j by lia. exact Hlt.
      * rewrite Wn_S. rewrite Nat2Z.inj_succ, Z.pow_succ_r in Hfuel by lia.
        pose proof (Wn_pos j) as Hwp.
        assert (Hp2 : 0 < 2 ^ Z.of_nat f) by (apply Z.pow_pos_nonneg; lia).
        unfold W64. nia.
      * exists k. repeat split; auto. lia.
    + exists j. repeat split; auto; lia.
Qed.

Theorem derive_limb_count_spec : forall p, 0 < p ->
  exists k, derive_limb_count p = Some (Z.of_nat k) /\ (1 <= k)%nat /\ p <= Wn k /\
    (k = 1%nat \/ Wn (k - 1) < p).
Proof.
  intros p Hp. unfold derive_limb_count.
  destruct (limb_count_loop_spec p (Z.to_nat (Z.log2 (p + 1))) 1 ltac:(lia) ltac:(left; reflexivity))
    as (k & Hrun & Hk & Hle & Hmin).
  - pose proof (Z.log2_nonneg (p + 1)) as Hl.
    rewrite Z2Nat.id by lia.
    pose proof (Z.log2_spec (p + 1) ltac:(lia)) as Hs.
    rewrite Z.pow_succ_r in Hs by lia.
    change (Wn 1) with W64. unfold W64. lia.
  - exists k. change (Wn 1) with W64 in Hrun. change (Z.of_nat 1) with 1 in Hrun.
    repeat split; auto.
Qed.

Example derive_limb_count_ex : derive_limb_count (W64 + 1) = Some 2.
Proof. vm_compute. reflexivity. Qed.

(* a power of 2^64 gets exactly its exponent (the loop test is strict), not bits/64 rounded up *)
Example derive_limb_count_pow : derive_limb_count (W64 * W64) = Some 2.
Proof. vm_compute. reflexivity. Qed.

Theorem derive_limb_count_ceil : forall p, 1 < p -> (forall j, p <> Wn j) ->
  derive_limb_count p = Some ((Z.log2 p + 1 + 63) / 64).
Proof.
  intros p Hp Hnp.
  destruct (derive_limb_count_spec p ltac:(lia)) as (k & Hrun & Hk & Hle & Hmin).
  rewrite Hrun. f_equal.
  assert (Hlt : p < Wn k) by (pose proof (Hnp k); lia).
  assert (Hlo : Wn (k - 1) < p).
  { destruct Hmin as [->|Hm]; [|exact Hm]. change (Wn (1 - 1)) with 1. lia. }
  rewrite Wn_two_pow in Hlt, Hlo.
  apply (proj1 (Z.log2_lt_pow2 p (64 * Z.of_nat k) ltac:(lia))) in Hlt.
  assert (Hlo' : 2 ^ (64 * Z.of_nat (k - 1)) <= p) by lia.
  apply (proj1 (Z.log2_le_pow2 p (64 * Z.of_nat (k - 1)) ltac:(lia))) in Hlo'.
  replace (Z.of_nat (k - 1)) with (Z.of_nat k - 1) in Hlo' by lia.
  apply (Z.div_unique _ 64 _ (Z.log2 p + 64 - 64 * Z.of_nat k)); lia.
Qed.

Lemma odd_not_Wn : forall p, 1 < p -> p mod 2 = 1 -> forall j, p <> Wn j.
Proof.
  intros p Hp Hodd [|j] E.
  - rewrite Wn_0 in E. lia.
  - rewrite Wn_S in E. subst p. unfold W64 in Hodd.
    replace (18446744073709551616 * Wn j) with ((9223372036854775808 * Wn j) * 2) in Hodd by ring.
    rewrite Z.mod_mul in Hodd by lia. lia.
Qed.

Corollary derive_limb_count_odd : forall p, 1 < p -> p mod 2 = 1 ->
  derive_limb_count p = Some ((Z.log2 p + 1 + 63) / 64).
Proof.
  intros p Hp Hodd. apply derive_limb_count_ceil; [exact Hp|]. apply odd_not_Wn; assumption.
Qed.

Example derive_limb_count_odd_ex :
  derive_limb_count (W64 * W64 * W64 - 1) = Some ((Z.log2 (W64 * W64 * W64 - 1) + 1 + 63) / 64).
Proof. apply derive_limb_count_odd; reflexivity. Qed.

(* ---------- 2. trace ---------- *)

Lemma trace_loop_spec : forall f t, 0 < t < 2 ^ Z.of_nat f ->
  exists s t', trace_loop f t = Some t' /\ 0 <= s /\ t' mod 2 = 1 /\ 0 < t' /\ t = 2 ^ s * t'.
Proof.
  induction f as [|f IH]; intros t Ht.
  - change (2 ^ Z.of_nat 0) with 1 in Ht. lia.
  - cbn [trace_loop]. rewrite Z.bit0_odd.
    pose proof (Zmod_odd t) as Hmo.
    destruct (Z.odd t) eqn:Eo.
    + exists 0, t. change (2 ^ 0) with 1. repeat split; try lia.
    + rewrite Z.shiftr_div_pow2 by lia. change (2 ^ 1) with 2.
      pose proof (Z.div_mod t 2 ltac:(lia)) as Hdm.
      rewrite Nat2Z.inj_succ, Z.pow_succ_r in Ht by lia.
      destruct (IH (t / 2) ltac:(lia)) as (s & t' & Hrun & Hs & Hodd & Hpos & Heq).
      exists (s + 1), t'. repeat split; auto; try lia.
      rewrite Z.pow_add_r by lia. change (2 ^ 1) with 2. lia.
Qed.

Theorem derive_trace_spec : forall p, 1 < p ->
  exists s t, derive_trace p = Some t /\ 0 <= s /\ t mod 2 = 1 /\ 0 < t /\ p - 1 = 2 ^ s * t.
Proof.
  intros p Hp. unfold derive_trace. apply trace_loop_spec.
  pose proof (Z.log2_nonneg (p + 1)) as Hl.
  rewrite Nat2Z.inj_succ, Z2Nat.id by lia.
  pose proof (Z.log2_spec (p + 1) ltac:(lia)) as Hs. lia.
Qed.

Example derive_trace_ex : derive_trace 97 = Some 3.
Proof. vm_compute. reflexivity. Qed.

Lemma odd_part_lt_absurd : forall s1 t1 s2 t2, 0 <= s1 < s2 -> t1 mod 2 = 1 ->
  2 ^ s1 * t1 = 2 ^ s2 * t2 -> False.
Proof.
  intros s1 t1 s2 t2 Hs Ht1 E.
  replace s2 with (s1 + (1 + (s2 - s1 - 1))) in E by ring.
  rewrite Z.pow_add_r, Z.pow_add_r in E by lia. change (2 ^ 1) with 2 in E.
  rewrite <- Z.mul_assoc in E.
  apply Z.mul_reg_l in E; [|apply Z.pow_nonzero; lia].
  subst t1.
  replace (2 * 2 ^ (s2 - s1 - 1) * t2) with ((2 ^ (s2 - s1 - 1) * t2) * 2) in Ht1 by ring.
  rewrite Z.mod_mul in Ht1 by lia. lia.
Qed.

Lemma odd_part_unique : forall s1 t1 s2 t2, 0 <= s1 -> 0 <= s2 -> t1 mod 2 = 1 -> t2 mod 2 = 1 ->
  2 ^ s1 * t1 = 2 ^ s2 * t2 -> s1 = s2 /\ t1 = t2.
Proof.
  intros s1 t1 s2 t2 Hs1 Hs2 Ht1 Ht2 E.
  destruct (Z.lt_trichotomy s1 s2) as [Hlt|[Heq|Hgt]].
  - exfalso. apply (odd_part_lt_absurd s1 t1 s2 t2); auto; lia.
  - subst s2. split; [reflexivity|].
    apply Z.mul_reg_l in E; [exact E | apply Z.pow_nonzero; lia].
  - exfalso. apply (odd_part_lt_absurd s2 t2 s1 t1); auto; lia.
Qed.

Example odd_part_unique_ex : forall s t, 0 <= s -> t mod 2 = 1 -> 2 ^ 5 * 3 = 2 ^ s * t -> 5 = s /\ 3 = t.
Proof. intros s t Hs Ht E. apply odd_part_unique; auto; lia. Qed.

(* the trace computed by the derive macro is the const-fn two_adic_coefficient *)
Theorem derive_trace_eq_two_adic : forall m, wf m -> val m mod 2 = 1 -> 1 < val m ->
  exists s t, two_adic m = Some (s, t) /\ wf t /\ length t = length m /\ 0 <= s /\
    derive_trace (val m) = Some (val t) /\ val m - 1 = 2 ^ s * val t /\ val t mod 2 = 1.
Proof.
  intros m Hm Hodd Hgt.
  destruct (two_adic_spec m Hm Hodd Hgt) as (s & t & Hrun & Hwt & Hlen & Hs & Hval & Hto).
  destruct (derive_trace_spec (val m) Hgt) as (s' & t' & Hrun' & Hs' & Hto' & Hpos' & Hval').
  assert (E : 2 ^ s * val t = 2 ^ s' * t') by lia.
  destruct (odd_part_unique s (val t) s' t' Hs Hs' Hto Hto' E) as [_ Et].
  exists s, t. rewrite Hrun', <- Et. repeat split; auto.
Qed.

Example derive_trace_eq_two_adic_ex :
  two_adic [97; 0] = Some (5, [3; 0]) /\ derive_trace (val [97; 0]) = Some (val [3; 0]).
Proof. vm_compute. split; reflexivity. Qed.

(* ---------- 3. modpow ---------- *)

Lemma modpow_pos_spec : forall e b n, 0 < n -> modpow_pos b e n = (b ^ Zpos e) mod n.
Proof.
  induction e as [e IH|e IH|]; intros b n Hn; cbn [modpow_pos].
  - rewrite (IH b n Hn). rewrite Pos2Z.inj_xI.
    rewrite Z.pow_add_r, Z.pow_1_r by lia.
    rewrite (Z.mul_comm 2 (Z.pos e)), Z.pow_mul_r, Z.pow_2_r by lia.
    rewrite <- Zmult_mod. rewrite Zmult_mod_idemp_l. reflexivity.
  - rewrite (IH b n Hn). rewrite Pos2Z.inj_xO.
    rewrite (Z.mul_comm 2 (Z.pos e)), Z.pow_mul_r, Z.pow_2_r by lia.
    rewrite <- Zmult_mod. reflexivity.
  - rewrite Z.pow_1_r. reflexivity.
Qed.

Theorem modpow_spec : forall b e n, 0 <= e -> 0 < n -> modpow b e n = (b ^ e) mod n.
Proof.
  intros b e n He Hn. destruct e as [|q|q].
  - reflexivity.
  - cbn [modpow]. apply modpow_pos_spec. exact Hn.
  - lia.
Qed.

Example modpow_ex : modpow 5 24 97 = 5 ^ 24 mod 97.
Proof. apply modpow_spec; lia. Qed.

(* ---------- 4. to_string / parse ---------- *)

Lemma digit_of_char_lt10 : forall c,
  (digit_of_char c <? 10) = (48 <=? c) && (c <=? 57) /\
  (is_digit c -> digit_of_char c = c - 48).
Proof.
  intros c. unfold digit_of_char, is_digit.
  destruct (Z.leb_spec 48 c) as [H1|H1]; destruct (Z.leb_spec c 57) as [H2|H2]; cbn [andb].
  - split; [|reflexivity]. destruct (Z.ltb_spec (c - 48) 10); [reflexivity | lia].
  - split; [|lia].
    destruct (Z.leb_spec 97 c) as [H3|H3]; destruct (Z.leb_spec c 122) as [H4|H4]; cbn [andb];
    try (destruct (Z.ltb_spec (c - 97 + 10) 10); [lia | reflexivity]);
    (destruct (Z.leb_spec 65 c) as [H5|H5]; destruct (Z.leb_spec c 90) as [H6|H6]; cbn [andb];
     try (destruct (Z.ltb_spec (c - 65 + 10) 10); [lia | reflexivity]); reflexivity).
  - split; [|lia].
    destruct (Z.leb_spec 97 c) as [H3|H3]; [lia|]. cbn [andb].
    destruct (Z.leb_spec 65 c) as [H5|H5]; [lia|]. cbn [andb]. reflexivity.
  - lia.
Qed.

(* radix 10 of the num-bigint parser = the decimal parser of C15 *)
Lemma parse_radix_10 : forall s acc, parse_radix_digits 10 s acc = parse_digits s acc.
Proof.
  induction s as [|c r IH]; intros acc; cbn [parse_radix_digits parse_digits]; [reflexivity|].
  destruct (c =? 95); [apply IH|]. cbv zeta.
  destruct (digit_of_char_lt10 c) as [Hlt Hval]. rewrite Hlt.
  destruct (Z.leb_spec 48 c) as [H1|H1]; destruct (Z.leb_spec c 57) as [H2|H2]; cbn [andb];
    try reflexivity.
  rewrite Hval by (unfold is_digit; lia). apply IH.
Qed.

Lemma biguint_radix_10 : forall s, biguint_from_str_radix 10 s = parse_decimal s.
Proof.
  intros s. unfold biguint_from_str_radix, parse_decimal.
  destruct (match s with
            | 43 :: (43 :: _) => s
            | 43 :: t => t
            | _ => s
            end) as [|c t]; [reflexivity|].
  destruct (c =? 95); [reflexivity | apply parse_radix_10].
Qed.

Lemma not_minus_head : forall c t (A : Type) (x : list Z -> A) (y : A), c <> 45 ->
  match c :: t with 45 :: t' => x t' | _ => y end = y.
Proof.
  intros c t A x y Hc.
  destruct c as [|q|q]; try reflexivity.
  do 6 (try (destruct q as [q|q|]; try reflexivity)). congruence.
Qed.

Lemma has_prefix_digits : forall s lo up, Forall is_digit s -> ~ is_digit lo -> ~ is_digit up ->
  has_prefix s lo up = false.
Proof.
  intros s lo up Hs Hlo Hup. unfold has_prefix.
  destruct s as [|a [|b r]]; [reflexivity | |].
  - destruct a as [|q|q]; try reflexivity.
    do 6 (try (destruct q as [q|q|]; try reflexivity)).
  - inversion Hs as [|? ? Ha Hr]; subst. inversion Hr as [|? ? Hb _]; subst.
    assert (E : (b =? lo) || (b =? up) = false).
    { unfold is_digit in *. destruct (Z.eqb_spec b lo); [lia|]. destruct (Z.eqb_spec b up); [lia|].
      reflexivity. }
    destruct a as [|q|q]; try reflexivity.
    do 6 (try (destruct q as [q|q|]; try reflexivity)). exact E.
Qed.

Lemma bigint_radix_digits : forall radix c t, is_digit c ->
  bigint_from_str_radix radix (c :: t) = biguint_from_str_radix radix (c :: t).
Proof.
  intros radix c t Hc. unfold bigint_from_str_radix, is_digit in *.
  destruct c as [|q|q]; try reflexivity.
  do 6 (try (destruct q as [q|q|]; try reflexivity)). lia.
Qed.

(* an all-digit non-empty string denotes, as a literal, its decimal value *)
Lemma parse_literal_digits : forall s, Forall is_digit s -> s <> [] ->
  parse_literal s = parse_digits s 0 /\ biguint_from_str_radix 10 s = parse_digits s 0.
Proof.
  intros s Hs Hne. destruct s as [|c t]; [congruence|].
  inversion Hs as [|? ? Hc Ht]; subst.
  assert (Hb : biguint_from_str_radix 10 (c :: t) = parse_digits (c :: t) 0).
  { rewrite biguint_radix_10. apply parse_decimal_digits. exact Hc. }
  split; [|exact Hb].
  unfold parse_literal.
  assert (Hneg : match c :: t with 45 :: _ => true | _ => false end = false).
  { apply (not_minus_head c t bool (fun _ => true) false). unfold is_digit in Hc. lia. }
  rewrite Hneg.
  rewrite !has_prefix_digits by (auto; unfold is_digit; lia).
  rewrite bigint_radix_digits by exact Hc. rewrite Hb.
  destruct (parse_digits (c :: t) 0); reflexivity.
Qed.

Lemma to_string_spec : forall v, 0 <= v ->
  parse_digits (to_string v) 0 = Some v /\ Forall is_digit (to_string v) /\ to_string v <> [].
Proof.
  intros v Hv. unfold to_string.
  apply (print_digits_spec (S (Z.to_nat (Z.log2 (v + 1)))) v).
  - split; [lia | apply display_fuel; lia].
  - lia.
Qed.

Theorem parse_literal_to_string : forall v, 0 <= v -> parse_literal (to_string v) = Some v.
Proof.
  intros v Hv. destruct (to_string_spec v Hv) as (Hp & Hd & Hne).
  destruct (parse_literal_digits (to_string v) Hd Hne) as [Hl _]. rewrite Hl. exact Hp.
Qed.

Theorem biguint_parse_to_string : forall v, 0 <= v -> biguint_from_str_radix 10 (to_string v) = Some v.
Proof.
  intros v Hv. destruct (to_string_spec v Hv) as (Hp & Hd & Hne).
  destruct (parse_literal_digits (to_string v) Hd Hne) as [_ Hb]. rewrite Hb. exact Hp.
Qed.

Example parse_literal_to_string_ex : parse_literal (to_string 1207) = Some 1207.
Proof. apply parse_literal_to_string. lia. Qed.
Example to_string_ex : to_string 1207 = [49; 50; 48; 55].
Proof. vm_compute. reflexivity. Qed.
