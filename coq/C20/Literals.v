(* Executable model of the compile-time literal path:
     ff-macros/src/utils.rs            str_to_limbs_u64 (sign, radix prefix, num-bigint parse,
                                       to_radix_le(16), 16 hexits per limb)
     ff-macros/src/lib.rs              to_sign_and_limbs!
     ff/src/biginteger/mod.rs          BigInt! (asserts: positive, fits), const_is_zero,
                                       const_sub_with_borrow
     ff/src/fields/models/fp/montgomery_backend.rs
                                       MontFp!, Fp::from_sign_and_limbs, Fp::new, the const `mul`
                                       (mul_without_cond_subtract + const_subtract_modulus /
                                       const_subtract_modulus_with_carry, const_is_valid), const_neg
     ff-macros/src/montgomery/mod.rs   mont_config_helper: limb count, trace, two-adic root,
                                       large-subgroup root, modulus limbs
   A literal is the list of its character codes.  num-bigint (BigInt/BigUint::from_str_radix,
   to_radix_le, modpow, to_string) is modelled by arbitrary-precision Z.
   `mul_without_cond_subtract` (the const fn shared by `Fp::new` and the trait's plain-CIOS
   branch) is the C01 model of that function; everything around it on the const path
   (zero test, validity test, subtraction, negation) is a separate implementation in the Rust
   code and is modelled separately here.  No proofs in this file. *)
From V Require Import Base.Word C15.GenArith C15.BigIntModel C01.InvModel C01.MontModel.

(* ---------- num-bigint: from_str_radix ---------- *)

(* b'0'..=b'9' | b'a'..=b'z' | b'A'..=b'Z' ; anything else u8::MAX *)
Definition digit_of_char (c : Z) : Z :=
  if (48 <=? c) && (c <=? 57) then c - 48
  else if (97 <=? c) && (c <=? 122) then c - 97 + 10
  else if (65 <=? c) && (c <=? 90) then c - 65 + 10
  else 255.

(* '_' (95) is skipped; a digit >= radix is an error *)
Fixpoint parse_radix_digits (radix : Z) (s : list Z) (acc : Z) : option Z :=
  match s with
  | [] => Some acc
  | c :: r => if c =? 95 then parse_radix_digits radix r acc
              else let d := digit_of_char c in
                   if d <? radix then parse_radix_digits radix r (radix * acc + d) else None
  end.

(* BigUint::from_str_radix: one optional '+' (not followed by '+'), non-empty, no leading '_' *)
Definition biguint_from_str_radix (radix : Z) (s : list Z) : option Z :=
  let s1 := match s with
            | 43 :: (43 :: _) => s
            | 43 :: t => t
            | _ => s
            end in
  match s1 with
  | [] => None
  | c :: _ => if c =? 95 then None else parse_radix_digits radix s1 0
  end.

(* BigInt::from_str_radix: optional '-' (kept in the string when followed by '+', which then
   fails in the BigUint parser) *)
Definition bigint_from_str_radix (radix : Z) (s : list Z) : option Z :=
  match s with
  | 45 :: t =>
      let s' := match t with 43 :: _ => s | _ => t end in
      match biguint_from_str_radix radix s' with Some v => Some (- v) | None => None end
  | _ => biguint_from_str_radix radix s
  end.

(* ---------- str_to_limbs_u64 ---------- *)

(* num.starts_with("0x") || num.starts_with("0X") etc. *)
Definition has_prefix (s : list Z) (lo up : Z) : bool :=
  match s with
  | 48 :: c :: _ => (c =? lo) || (c =? up)
  | _ => false
  end.

(* the signed integer denoted by the literal, None = "could not parse to bigint" (the proc
   macro panics: compile error) *)
Definition parse_literal (s : list Z) : option Z :=
  let is_negative := match s with 45 :: _ => true | _ => false end in
  let num := if is_negative then tl s else s in
  let number :=
    if has_prefix num 120 88 then bigint_from_str_radix 16 (skipn 2 num)
    else if has_prefix num 111 79 then bigint_from_str_radix 8 (skipn 2 num)
    else if has_prefix num 98 66 then bigint_from_str_radix 2 (skipn 2 num)
    else bigint_from_str_radix 10 num in
  match number with
  | Some v => Some (if is_negative then - v else v)
  | None => None
  end.

(* BigUint::to_radix_le(16): least significant hexit first, [0] for zero *)
Fixpoint hex_digits_le (fuel : nat) (v : Z) : list Z :=
  match fuel with
  | O => []
  | S f => if v <? 16 then [v] else v mod 16 :: hex_digits_le f (v / 16)
  end.
Definition to_radix16_le (v : Z) : list Z := hex_digits_le (S (Z.to_nat (Z.log2 (v + 1)))) v.

(* this += hexit << (4 i)   over one chunk of at most 16 hexits *)
Fixpoint pack_hex (chunk : list Z) (i : Z) (this : Z) : Z :=
  match chunk with
  | [] => this
  | h :: r => pack_hex r (i + 1) ((this + (Z.shiftl h (4 * i)) mod W64) mod W64)
  end.

Definition limbs_of_hexits (digits : list Z) : list Z :=
  map (fun c => pack_hex c 0 0) (chunks (S (length digits)) 16 digits).

(* (sign_is_positive, limbs): sign != Sign::Minus, so zero (also written "-0") is positive *)
Definition str_to_limbs_u64 (s : list Z) : option (bool * list Z) :=
  match parse_literal s with
  | None => None
  | Some z => Some (negb (z <? 0), limbs_of_hexits (to_radix16_le (Z.abs z)))
  end.

(* ---------- results of a macro use ---------- *)

(* LitPanic: an `assert!` of the expansion fails (compile error in a const context, run-time
   panic otherwise); LitReject: the procedural macro itself panics (always a compile error) *)
Inductive lit_result (A : Type) : Type :=
| LitOk (a : A)
| LitPanic
| LitReject.
Arguments LitOk {A} a.
Arguments LitPanic {A}.
Arguments LitReject {A}.

(* repr.0[i] = limbs[i] for i < limbs.len(), the rest stays 0 *)
Definition pad_to (N : nat) (limbs : list Z) : list Z := limbs ++ zeros (N - length limbs).

(* ---------- BigInt! ---------- *)

Definition bigint_macro (N : nat) (s : list Z) : lit_result (list Z) :=
  match str_to_limbs_u64 s with
  | None => LitReject
  | Some (is_positive, limbs) =>
      if negb is_positive then LitPanic                       (* assert!(is_positive) *)
      else if (N <? length limbs)%nat then LitPanic           (* assert!(integer.0.len() >= limbs.len()) *)
      else LitOk (pad_to N limbs)
  end.

(* ---------- the const path of Fp ---------- *)

(* is_zero &= self.0[i] == 0 *)
Definition const_is_zero (a : list Z) : bool := fold_left (fun acc x => acc && (x =? 0)) a true.

(* const_sub_with_borrow: the sbb! macro chain *)
Fixpoint const_sub_chain (a b : list Z) (borrow : Z) : list Z * Z :=
  match a, b with
  | x :: a', y :: b' =>
      let '(r, bw) := sbb_m x y borrow in
      let '(rs, bf) := const_sub_chain a' b' bw in (r :: rs, bf)
  | _, _ => ([], borrow)
  end.
Definition const_sub_with_borrow (a b : list Z) : list Z * bool :=
  let '(r, bw) := const_sub_chain a b 0 in (r, negb (bw =? 0)).

(* const_is_valid: scan from the most significant limb; true iff self < MODULUS.
   Arguments are the limb lists most-significant-first. *)
Fixpoint const_is_valid_be (a m : list Z) : bool :=
  match a, m with
  | x :: a', y :: m' => if x <? y then true else if y <? x then false else const_is_valid_be a' m'
  | _, _ => false
  end.
Definition const_is_valid (m a : list Z) : bool := const_is_valid_be (rev a) (rev m).

Definition const_subtract_modulus (m a : list Z) : list Z :=
  if negb (const_is_valid m a) then fst (const_sub_with_borrow a m) else a.

Definition const_subtract_modulus_with_carry (m a : list Z) (carry : bool) : list Z :=
  if carry || negb (const_is_valid m a) then fst (const_sub_with_borrow a m) else a.

(* const fn mul: mul_without_cond_subtract, then the subtraction chosen by MODULUS_HAS_SPARE_BIT *)
Definition const_mul (m a b : list Z) : list Z :=
  let '(carry, res) := mul_without_cond_subtract m a b in
  if has_spare_bit m then const_subtract_modulus m res
  else const_subtract_modulus_with_carry m res carry.

(* Fp::new: zero stays zero, everything else is multiplied by R2 -- the operand may be >= p *)
Definition fp_new (m element : list Z) : list Z :=
  if const_is_zero element then element else const_mul m element (R2_of m).

Definition const_neg (m a : list Z) : list Z :=
  if negb (const_is_zero a) then fst (const_sub_with_borrow m a) else a.

Definition from_sign_and_limbs (m : list Z) (is_positive : bool) (limbs : list Z) : lit_result (list Z) :=
  let N := length m in
  if (N <? length limbs)%nat then LitPanic                    (* assert!(limbs.len() <= N) *)
  else
    let res := fp_new m (pad_to N limbs) in
    LitOk (if is_positive then res else const_neg m res).

(* MontFp!("...") for the field with modulus limbs m *)
Definition montfp (m : list Z) (s : list Z) : lit_result (list Z) :=
  match str_to_limbs_u64 s with
  | None => LitReject
  | Some (is_positive, limbs) => from_sign_and_limbs m is_positive limbs
  end.

(* ---------- the derive macro (mont_config_helper) ---------- *)

(* limbs = 1; cur = 1 << 64; while cur < modulus { limbs += 1; cur <<= 64 } *)
Fixpoint limb_count_loop (fuel : nat) (modulus cur limbs : Z) : option Z :=
  match fuel with
  | O => None
  | S f => if cur <? modulus then limb_count_loop f modulus (cur * W64) (limbs + 1) else Some limbs
  end.
Definition derive_limb_count (modulus : Z) : option Z :=
  limb_count_loop (S (Z.to_nat (Z.log2 (modulus + 1)))) modulus W64 1.

(* trace = modulus - 1; while !trace.bit(0) { trace >>= 1 }   (does not terminate for modulus = 1) *)
Fixpoint trace_loop (fuel : nat) (t : Z) : option Z :=
  match fuel with
  | O => None
  | S f => if Z.testbit t 0 then Some t else trace_loop f (Z.shiftr t 1)
  end.
Definition derive_trace (modulus : Z) : option Z :=
  trace_loop (S (Z.to_nat (Z.log2 (modulus + 1)))) (modulus - 1).

(* BigUint::modpow, as left-to-right square and multiply on the binary exponent *)
Fixpoint modpow_pos (b : Z) (e : positive) (n : Z) : Z :=
  match e with
  | xH => b mod n
  | xO e' => let t := modpow_pos b e' n in (t * t) mod n
  | xI e' => let t := modpow_pos b e' n in ((t * t) mod n * b) mod n
  end.
Definition modpow (b e n : Z) : Z :=
  match e with
  | Zpos q => modpow_pos b q n
  | _ => 1 mod n
  end.

(* BigUint::to_string *)
Definition to_string (v : Z) : list Z := print_digits (S (Z.to_nat (Z.log2 (v + 1)))) v [].

Record derived : Type := {
  d_limbs : Z;                               (* the const generic N the macro writes *)
  d_modulus : list Z;                        (* MODULUS: BigInt([...]) *)
  d_generator : lit_result (list Z);         (* GENERATOR = MontFp!(generator) *)
  d_root : lit_result (list Z);              (* TWO_ADIC_ROOT_OF_UNITY = MontFp!(generator^trace mod p) *)
  d_large : option (lit_result (list Z))     (* LARGE_SUBGROUP_ROOT_OF_UNITY *)
}.

(* None: the macro panics / loops / emits code that does not type-check
   (`BigInt<limbs>([..])` with a different number of limbs) *)
(* Some(&trace / BigUint::from(base).pow(power)); BigUint division by zero panics *)
Definition remaining_subgroup (trace : Z) (small : option (Z * Z)) : option (option Z) :=
  match small with
  | None => Some None
  | Some (base, power) => if base ^ power =? 0 then None else Some (Some (trace / base ^ power))
  end.

Definition derive_macro (modulus generator : Z) (small : option (Z * Z)) : option derived :=
  match derive_limb_count modulus, derive_trace modulus with
  | Some limbs, Some trace =>
      match remaining_subgroup trace small with
      | None => None
      | Some remaining =>
          let root := modpow generator trace modulus in
          let large := match remaining with
                       | Some e => Some (modpow generator e modulus)
                       | None => None
                       end in
          match str_to_limbs_u64 (to_string modulus) with
          | Some (_, ml) =>
              if Z.of_nat (length ml) =? limbs then
                Some {| d_limbs := limbs;
                        d_modulus := ml;
                        d_generator := montfp ml (to_string generator);
                        d_root := montfp ml (to_string root);
                        d_large := match large with
                                   | Some v => Some (montfp ml (to_string v))
                                   | None => None
                                   end |}
              else None
          | None => None
          end
      end
  | _, _ => None
  end.

(* the attribute strings are parsed with `str::parse::<BigUint>()` = from_str_radix(.., 10) *)
Definition derive_from_attrs (modulus generator : list Z) (small : option (Z * Z)) : option derived :=
  match biguint_from_str_radix 10 modulus, biguint_from_str_radix 10 generator with
  | Some p, Some g => derive_macro p g small
  | _, _ => None
  end.
