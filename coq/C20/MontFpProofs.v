(* C20: the const construction path of Fp (Fp::new, const mul, const_neg,
   from_sign_and_limbs) computes the canonical Montgomery form of the signed integer
   given by its limbs -- for every limb count, every odd modulus, every operand below
   2^(64N) (not only below p). *)
From V Require Import Base.Word C15.GenArith C15.BigIntModel C15.LeafSpecs C15.BigIntProofs
  C01.InvModel C01.MontModel C01.MontProofs C20.Literals.

(* ---------- the const helpers agree with the run-time ones ---------- *)

Lemma const_is_zero_acc : forall a acc,
  fold_left (fun acc x => acc && (x =? 0)) a acc = acc && forallb (fun x => x =? 0) a.
Proof.
  induction a as [|x a IH]; intros acc; cbn [fold_left forallb].
  - rewrite andb_true_r. reflexivity.
  - rewrite IH. rewrite andb_assoc. reflexivity.
Qed.

Lemma const_is_zero_eq a : const_is_zero a = is_zero a.
Proof. unfold const_is_zero, is_zero. rewrite const_is_zero_acc. reflexivity. Qed.

(* sbb! (macro) and sbb_for_sub_with_borrow have convertible models *)
Lemma const_sub_chain_eq : forall a b c, const_sub_chain a b c = sub_chain a b c.
Proof. induction a as [|x a IH]; intros [|y b] c; reflexivity. Qed.

Lemma const_sub_with_borrow_eq a b : const_sub_with_borrow a b = sub_with_borrow a b.
Proof. unfold const_sub_with_borrow, sub_with_borrow. rewrite const_sub_chain_eq. reflexivity. Qed.

(* const_is_valid: the most-significant-first scan decides val a < val m *)
Lemma const_is_valid_be_spec : forall a m, length a = length m -> wf a -> wf m ->
  const_is_valid_be (rev a) (rev m) = (val a <? val m).
Proof.
  induction a as [|x a IH] using rev_ind; intros m Hl Ha Hm.
  - destruct m; [|discriminate]. reflexivity.
  - destruct m as [|y0 m0] using rev_ind; [rewrite app_length in Hl; cbn in Hl; lia|].
    clear IHm0. rename m0 into m. rename y0 into y.
    rewrite !app_length in Hl. cbn [length] in Hl. assert (Hl' : length a = length m) by lia.
    apply wf_app in Ha as [Ha Hx]. apply wf_app in Hm as [Hm Hy].
    apply wf_cons in Hx as [Hx _]. apply wf_cons in Hy as [Hy _].
    rewrite !rev_app_distr. cbn [rev app const_is_valid_be].
    rewrite !val_snoc. rewrite <- Hl'.
    pose proof (val_bound a Ha) as Hab. pose proof (val_bound m Hm) as Hmb. rewrite <- Hl' in Hmb.
    pose proof (Wn_pos (length a)) as HW. unfold u64 in Hx, Hy.
    destruct (Z.ltb_spec x y) as [Hxy|Hxy].
    + symmetry. apply Z.ltb_lt. nia.
    + destruct (Z.ltb_spec y x) as [Hyx|Hyx].
      * symmetry. apply Z.ltb_ge. nia.
      * assert (x = y) by lia. subst y. rewrite (IH m Hl' Ha Hm).
        destruct (Z.ltb_spec (val a) (val m)); symmetry; [apply Z.ltb_lt | apply Z.ltb_ge]; nia.
Qed.

Lemma const_is_valid_spec m a : wf m -> wf a -> length a = length m ->
  const_is_valid m a = (val a <? val m).
Proof. intros Hm Ha Hl. unfold const_is_valid. apply const_is_valid_be_spec; auto. Qed.

Lemma const_is_valid_geq m a : wf m -> wf a -> length a = length m ->
  negb (const_is_valid m a) = is_geq_modulus m a.
Proof.
  intros Hm Ha Hl. rewrite const_is_valid_spec, is_geq_modulus_spec by auto.
  destruct (Z.ltb_spec (val a) (val m)), (Z.leb_spec (val m) (val a)); cbn [negb]; auto; lia.
Qed.

(* the const conditional subtraction is C01's final_sub *)
Lemma const_final_sub_eq m s (c : bool) : wf m -> wf s -> length s = length m ->
  (if has_spare_bit m then const_subtract_modulus m s
   else const_subtract_modulus_with_carry m s c) = final_sub m s c.
Proof.
  intros Hm Hs Hl. unfold final_sub, const_subtract_modulus, const_subtract_modulus_with_carry,
    subtract_modulus, subtract_modulus_with_carry.
  rewrite const_is_valid_geq by auto. rewrite !const_sub_with_borrow_eq. reflexivity.
Qed.

Lemma const_neg_eq m a : wf m -> wf a -> const_neg m a = neg_in_place m a.
Proof.
  intros Hm Ha. unfold const_neg, neg_in_place. rewrite const_is_zero_eq, const_sub_with_borrow_eq.
  destruct (is_zero a); reflexivity.
Qed.

(* ---------- the const multiplication with an operand that may be >= p ---------- *)

(* C01's mul_cios_spec asks val a < p; the literal path multiplies an arbitrary N-limb
   value by R2 < p.  The Montgomery bound t < 2p only needs ONE factor below p. *)
Theorem const_mul_spec : forall m a b, wf m -> wf a -> wf b ->
  length a = length m -> length b = length m ->
  val m mod 2 = 1 -> val b < val m ->
  let r := const_mul m a b in
  wf r /\ length r = length m /\ val r < val m /\
  (val r * Wn (length m)) mod val m = (val a * val b) mod val m.
Proof.
  intros m a b Hm Ha Hb Hla Hlb Hodd Hblt. cbn zeta.
  pose proof (odd_nonempty m Hodd) as Hne. destruct m as [|m0 m']; [congruence|].
  pose proof (inv_of_kills m0 m' Hm Hodd) as Hkill.
  set (m := m0 :: m') in *. set (N := length m) in *.
  unfold const_mul, mul_without_cond_subtract. fold N.
  destruct b as [|y ys']; [unfold N, m in Hlb; discriminate|].
  assert (Hz : zeros (N + N) = zeros N ++ zeros (length a)) by (rewrite Hla; apply zeros_add).
  rewrite Hz.
  destruct (mul_rows_spec a y ys' (zeros N) Ha Hb (wf_zeros N) ltac:(rewrite length_zeros; lia))
    as (Hpw & Hpl & Hpv).
  cbn zeta in *. set (prod := mul_rows a (y :: ys') (zeros N ++ zeros (length a))) in *.
  rewrite val_zeros, length_zeros, Z.add_0_l in *.
  pose proof (red_rows_spec m0 (inv_of m) m' Hkill Hm N prod 0 Hpw ltac:(fold m; fold N; lia) ltac:(auto)) as H.
  fold m in H. destruct (red_rows N m (inv_of m) prod 0) as [hi c2].
  fold N in H. destruct H as (Hhi & Hlhi & Hc2 & K & HK & HE).
  assert (Hb2 : Z.b2z (negb (c2 =? 0)) = c2) by (destruct Hc2 as [-> | ->]; reflexivity).
  pose proof (val_bound a Ha) as Hab. rewrite Hla in Hab. fold N in Hab.
  pose proof (val_bound (y :: ys') Hb) as Hbb.
  pose proof (val_bound m Hm) as Hmb. fold N in Hmb. pose proof (Wn_pos N) as HW.
  pose proof (val_bound hi Hhi) as Hhb.
  assert (HT : val hi + Wn N * c2 < 2 * val m).
  { rewrite Hpv, Z.mul_0_r, Z.add_0_r in HE.
    assert (val a * val (y :: ys') < Wn N * val m) by nia.
    assert (K * val m < Wn N * val m) by nia.
    nia. }
  rewrite (const_final_sub_eq m hi (negb (c2 =? 0)) Hm Hhi Hlhi).
  destruct (final_sub_spec m hi (negb (c2 =? 0)) Hm Hne Hhi Hlhi ltac:(fold N; rewrite Hb2; lia))
    as (Hrw & Hrl & Hrlt & Hrv).
  cbn zeta in *. fold N in Hrv. rewrite Hb2 in Hrv.
  repeat split; auto.
  rewrite Hrv, Zmult_mod_idemp_l.
  replace ((val hi + Wn N * c2) * Wn N) with (Wn N * (val hi + Wn N * c2)) by ring.
  rewrite HE, Hpv, Z.mul_0_r, Z.add_0_r. apply Z.mod_add. lia.
Qed.

(* ---------- Fp::new ---------- *)

Theorem fp_new_spec : forall m e, wf m -> wf e -> length e = length m -> val m mod 2 = 1 ->
  let r := fp_new m e in
  wf r /\ length r = length m /\ val r < val m /\
  val r = (val e * Wn (length m)) mod val m.
Proof.
  intros m e Hm He Hl Hodd. cbn zeta. pose proof (odd_pos m Hm Hodd) as Hp.
  unfold fp_new. rewrite const_is_zero_eq, is_zero_spec by auto.
  destruct (Z.eqb_spec (val e) 0) as [Hz|Hnz].
  - repeat split; auto; try lia. rewrite Hz. reflexivity.
  - destruct (R2_of_spec m Hm Hp) as (Hr2w & Hr2l & Hr2v).
    assert (Hr2lt : val (R2_of m) < val m) by (rewrite Hr2v; apply Z.mod_pos_bound; lia).
    destruct (const_mul_spec m e (R2_of m) Hm He Hr2w Hl Hr2l Hodd Hr2lt) as (Hw & Hlen & Hlt & Hc).
    cbn zeta in Hc. repeat split; auto.
    pose proof (val_bound _ Hw) as Hrb.
    apply (mont_cancel m); auto; try lia.
    + apply Z.mod_pos_bound; lia.
    + rewrite Hc, Hr2v. rewrite Zmult_mod_idemp_l, Zmult_mod_idemp_r. f_equal. ring.
Qed.

(* ---------- padding ---------- *)

Lemma pad_to_spec N l : wf l -> (length l <= N)%nat ->
  wf (pad_to N l) /\ length (pad_to N l) = N /\ val (pad_to N l) = val l.
Proof.
  intros Hl Hle. unfold pad_to. repeat split.
  - apply wf_app. split; [exact Hl | apply wf_zeros].
  - rewrite app_length, length_zeros. lia.
  - apply val_app_zeros.
Qed.

(* ---------- from_sign_and_limbs ---------- *)

Definition signed (is_positive : bool) (v : Z) : Z := if is_positive then v else - v.

Theorem from_sign_and_limbs_spec : forall m (pos : bool) limbs, wf m -> wf limbs ->
  val m mod 2 = 1 -> (length limbs <= length m)%nat ->
  exists r, from_sign_and_limbs m pos limbs = LitOk r /\
    wf r /\ length r = length m /\ val r < val m /\
    val r = (signed pos (val limbs) * Wn (length m)) mod val m.
Proof.
  intros m pos limbs Hm Hl Hodd Hle. pose proof (odd_pos m Hm Hodd) as Hp.
  unfold from_sign_and_limbs.
  destruct (Nat.ltb_spec (length m) (length limbs)) as [Hgt|_]; [lia|].
  destruct (pad_to_spec (length m) limbs Hl Hle) as (Hpw & Hpl & Hpv).
  destruct (fp_new_spec m (pad_to (length m) limbs) Hm Hpw Hpl Hodd) as (Hw & Hlen & Hlt & Hv).
  cbn zeta in Hv. rewrite Hpv in Hv.
  destruct pos; cbn [signed].
  - eexists. split; [reflexivity|]. repeat split; auto.
  - eexists. split; [reflexivity|]. rewrite const_neg_eq by auto.
    destruct (neg_in_place_spec m _ Hm Hw Hlen Hlt) as (Hnw & Hnl & Hnlt & Hnv).
    cbn zeta in Hnv. repeat split; auto. rewrite Hnv, Hv.
    rewrite <- (Z.sub_0_l (_ mod _)), Zminus_mod_idemp_r. f_equal. ring.
Qed.

Theorem from_sign_and_limbs_too_long : forall m pos limbs, (length m < length limbs)%nat ->
  from_sign_and_limbs m pos limbs = LitPanic.
Proof.
  intros m pos limbs H. unfold from_sign_and_limbs.
  destruct (Nat.ltb_spec (length m) (length limbs)); [reflexivity | lia].
Qed.

(* in standard form (C01's decoder into_bigint): the element IS the signed integer mod p *)
Theorem from_sign_and_limbs_std : forall m (pos : bool) limbs, wf m -> wf limbs ->
  val m mod 2 = 1 -> (length limbs <= length m)%nat ->
  exists r, from_sign_and_limbs m pos limbs = LitOk r /\
    wf r /\ length r = length m /\ val r < val m /\
    std m r = signed pos (val limbs) mod val m.
Proof.
  intros m pos limbs Hm Hl Hodd Hle.
  destruct (from_sign_and_limbs_spec m pos limbs Hm Hl Hodd Hle) as (r & Hr & Hw & Hlen & Hlt & Hv).
  exists r. repeat split; auto. apply std_unique; auto.
Qed.

(* ---------- BigInt! ---------- *)

Theorem bigint_pad_spec : forall N limbs, wf limbs -> (length limbs <= N)%nat ->
  wf (pad_to N limbs) /\ length (pad_to N limbs) = N /\ val (pad_to N limbs) = val limbs.
Proof. intros. apply pad_to_spec; auto. Qed.
