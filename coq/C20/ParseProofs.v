(* Proofs about the literal parser of the compile-time path (model: C20/Literals.v):
   parse_literal on well-formed literals, to_radix_le(16), the 16-hexits-per-limb packing,
   and str_to_limbs_u64 as a whole.  All statements are for every input (induction over the
   digit list / fuel). *)
From V Require Import Base.Word C15.GenArith C15.BigIntModel C15.LeafSpecs C15.ShiftProofs
  C15.BitsProofs C20.Literals.

(* ====================================================================== *)
(* spec side                                                              *)
(* ====================================================================== *)

Definition is_digit_char (radix c : Z) : Prop := 0 <= digit_of_char c < radix.

Definition digits_value (radix : Z) (ds : list Z) (acc : Z) : Z :=
  fold_left (fun a c => radix * a + digit_of_char c) ds acc.

Definition prefix_of (radix : Z) (upper : bool) : list Z :=
  if radix =? 16 then [48; if upper then 88 else 120]
  else if radix =? 8 then [48; if upper then 79 else 111]
  else if radix =? 2 then [48; if upper then 66 else 98] else [].

Definition literal (neg : bool) (radix : Z) (upper : bool) (ds : list Z) : list Z :=
  (if neg then [45] else []) ++ prefix_of radix upper ++ ds.

(* ---------- digit characters ---------- *)

Lemma digit_of_char_nonneg c : 0 <= digit_of_char c.
Proof.
  unfold digit_of_char.
  destruct (Z.leb_spec 48 c), (Z.leb_spec c 57), (Z.leb_spec 97 c), (Z.leb_spec c 122),
    (Z.leb_spec 65 c), (Z.leb_spec c 90); cbn [andb]; lia.
Qed.

Lemma digit_char_range radix c : is_digit_char radix c -> radix <= 16 ->
  48 <= c <= 57 \/ 97 <= c <= 102 \/ 65 <= c <= 70.
Proof.
  unfold is_digit_char, digit_of_char. intros Hc Hr.
  destruct (Z.leb_spec 48 c), (Z.leb_spec c 57), (Z.leb_spec 97 c), (Z.leb_spec c 122),
    (Z.leb_spec 65 c), (Z.leb_spec c 90); cbn [andb] in Hc; lia.
Qed.

Lemma digit_char_range10 radix c : is_digit_char radix c -> radix <= 10 -> 48 <= c <= 57.
Proof.
  unfold is_digit_char, digit_of_char. intros Hc Hr.
  destruct (Z.leb_spec 48 c), (Z.leb_spec c 57), (Z.leb_spec 97 c), (Z.leb_spec c 122),
    (Z.leb_spec 65 c), (Z.leb_spec c 90); cbn [andb] in Hc; lia.
Qed.

Lemma digits_value_cons radix c ds acc :
  digits_value radix (c :: ds) acc = digits_value radix ds (radix * acc + digit_of_char c).
Proof. reflexivity. Qed.

Lemma digits_value_nonneg : forall radix ds acc, 0 <= radix -> 0 <= acc ->
  0 <= digits_value radix ds acc.
Proof.
  intros radix ds. induction ds as [|c ds IH]; intros acc Hr Hacc.
  - exact Hacc.
  - rewrite digits_value_cons. apply IH; [exact Hr|].
    pose proof (digit_of_char_nonneg c). nia.
Qed.

Lemma digits_value_leading_zero radix ds :
  digits_value radix (48 :: ds) 0 = digits_value radix ds 0.
Proof. rewrite digits_value_cons. f_equal. rewrite Z.mul_0_r. reflexivity. Qed.

(* ---------- parse_radix_digits ---------- *)

Lemma parse_radix_digits_ok radix : radix <= 16 -> forall ds acc, Forall (is_digit_char radix) ds ->
  parse_radix_digits radix ds acc = Some (digits_value radix ds acc).
Proof.
  intros Hr. induction ds as [|c ds IH]; intros acc Hd; [reflexivity|].
  inversion Hd as [|? ? Hc Hds]; subst.
  pose proof (digit_char_range _ _ Hc Hr) as Hrange.
  rewrite digits_value_cons. cbn [parse_radix_digits].
  destruct (Z.eqb_spec c 95) as [E|_]; [lia|].
  unfold is_digit_char in Hc.
  destruct (Z.ltb_spec (digit_of_char c) radix) as [_|E]; [|lia].
  apply IH. exact Hds.
Qed.

Lemma parse_radix_digits_underscore radix : forall l1 l2 acc,
  parse_radix_digits radix (l1 ++ 95 :: l2) acc = parse_radix_digits radix (l1 ++ l2) acc.
Proof.
  induction l1 as [|c l1 IH]; intros l2 acc; cbn [app parse_radix_digits].
  - reflexivity.
  - destruct (c =? 95); [apply IH|].
    destruct (digit_of_char c <? radix); [apply IH | reflexivity].
Qed.

(* ---------- the literal patterns of the model, as equations ---------- *)

Ltac split_pos :=
  repeat match goal with
         | p : positive |- _ => destruct p as [p|p|]; try reflexivity
         end.

Lemma match45 {A} (c : Z) (a b : A) : c <> 45 -> match c with 45 => a | _ => b end = b.
Proof. intros H. destruct c as [|p|p]; try reflexivity. split_pos. congruence. Qed.
Lemma match43 {A} (c : Z) (a b : A) : c <> 43 -> match c with 43 => a | _ => b end = b.
Proof. intros H. destruct c as [|p|p]; try reflexivity. split_pos. congruence. Qed.
Lemma match48 {A} (c : Z) (a b : A) : c <> 48 -> match c with 48 => a | _ => b end = b.
Proof. intros H. destruct c as [|p|p]; try reflexivity. split_pos. congruence. Qed.

Lemma biguint_cons radix c t : c <> 43 -> c <> 95 ->
  biguint_from_str_radix radix (c :: t) = parse_radix_digits radix (c :: t) 0.
Proof.
  intros H43 H95. unfold biguint_from_str_radix.
  rewrite (match43 c _ (c :: t) H43).
  destruct (Z.eqb_spec c 95); [contradiction | reflexivity].
Qed.

Lemma biguint_plus radix c t : c <> 43 -> c <> 95 ->
  biguint_from_str_radix radix (43 :: c :: t) = parse_radix_digits radix (c :: t) 0.
Proof.
  intros H43 H95. unfold biguint_from_str_radix.
  cbv iota beta. rewrite (match43 c _ (c :: t) H43).
  destruct (Z.eqb_spec c 95); [contradiction | reflexivity].
Qed.

Lemma bigint_cons radix c t : c <> 45 ->
  bigint_from_str_radix radix (c :: t) = biguint_from_str_radix radix (c :: t).
Proof. intros H. unfold bigint_from_str_radix. apply match45. exact H. Qed.

Definition parse_number (num : list Z) : option Z :=
  if has_prefix num 120 88 then bigint_from_str_radix 16 (skipn 2 num)
  else if has_prefix num 111 79 then bigint_from_str_radix 8 (skipn 2 num)
  else if has_prefix num 98 66 then bigint_from_str_radix 2 (skipn 2 num)
  else bigint_from_str_radix 10 num.

Lemma parse_literal_neg num :
  parse_literal (45 :: num) = match parse_number num with Some v => Some (- v) | None => None end.
Proof. reflexivity. Qed.

Lemma parse_literal_nonneg c t : c <> 45 ->
  parse_literal (c :: t) = match parse_number (c :: t) with Some v => Some v | None => None end.
Proof.
  intros H. unfold parse_literal. cbv zeta.
  rewrite (match45 c true false H). reflexivity.
Qed.

Lemma has_prefix_not48 c t lo up : c <> 48 -> has_prefix (c :: t) lo up = false.
Proof. intros H. unfold has_prefix. apply match48. exact H. Qed.

Lemma has_prefix_digits10 ds lo up : Forall (is_digit_char 10) ds ->
  ~ 48 <= lo <= 57 -> ~ 48 <= up <= 57 -> has_prefix ds lo up = false.
Proof.
  intros Hd Hlo Hup. destruct ds as [|c t]; [reflexivity|].
  destruct (Z.eq_dec c 48) as [-> |Hc]; [|apply has_prefix_not48; exact Hc].
  destruct t as [|c2 t']; [reflexivity|].
  inversion Hd as [|? ? _ Hd']; subst. inversion Hd' as [|? ? Hc2 _]; subst.
  pose proof (digit_char_range10 _ _ Hc2 ltac:(lia)) as Hr.
  change (has_prefix (48 :: c2 :: t') lo up) with ((c2 =? lo) || (c2 =? up)).
  destruct (Z.eqb_spec c2 lo), (Z.eqb_spec c2 up); cbn [orb]; try reflexivity; lia.
Qed.

Definition no_prefix (body : list Z) : Prop :=
  has_prefix body 120 88 = false /\ has_prefix body 111 79 = false /\ has_prefix body 98 66 = false.

Lemma parse_number_prefixed radix upper body :
  (radix = 2 \/ radix = 8 \/ radix = 10 \/ radix = 16) ->
  (radix = 10 -> no_prefix body) ->
  parse_number (prefix_of radix upper ++ body) = bigint_from_str_radix radix body.
Proof.
  intros Hr Hnp. destruct Hr as [-> |[-> |[-> | ->]]]; try (destruct upper; reflexivity).
  destruct (Hnp eq_refl) as (H1 & H2 & H3).
  change (prefix_of 10 upper ++ body) with body.
  unfold parse_number. rewrite H1, H2, H3. reflexivity.
Qed.

(* everything about the sign and the radix prefix, for an arbitrary body *)
Lemma parse_literal_gen neg radix upper body v :
  (radix = 2 \/ radix = 8 \/ radix = 10 \/ radix = 16) ->
  (radix = 10 -> no_prefix body /\ exists c t, body = c :: t /\ c <> 45) ->
  bigint_from_str_radix radix body = Some v ->
  parse_literal (literal neg radix upper body) = Some (if neg then - v else v).
Proof.
  intros Hr H10 Hv. unfold literal.
  assert (Hnum : parse_number (prefix_of radix upper ++ body) = Some v).
  { rewrite parse_number_prefixed; [exact Hv | exact Hr | intros E; apply H10; exact E]. }
  destruct neg; cbn [app].
  - rewrite parse_literal_neg, Hnum. reflexivity.
  - assert (Hhd : exists c t, prefix_of radix upper ++ body = c :: t /\ c <> 45).
    { destruct Hr as [-> |[-> |[-> | ->]]].
      - exists 48. eexists. split; [reflexivity | lia].
      - exists 48. eexists. split; [reflexivity | lia].
      - destruct (H10 eq_refl) as (_ & c & t & -> & Hc). exists c, t. split; [reflexivity | exact Hc].
      - exists 48. eexists. split; [reflexivity | lia]. }
    destruct Hhd as (c & t & E & Hc). rewrite E in *.
    rewrite parse_literal_nonneg by exact Hc. rewrite Hnum. reflexivity.
Qed.

Lemma bigint_digits radix ds : radix <= 16 -> ds <> [] -> Forall (is_digit_char radix) ds ->
  bigint_from_str_radix radix ds = Some (digits_value radix ds 0).
Proof.
  intros Hr Hne Hd. destruct ds as [|c t]; [congruence|].
  inversion Hd as [|? ? Hc _]; subst. pose proof (digit_char_range _ _ Hc Hr) as Hrange.
  rewrite bigint_cons by lia. rewrite biguint_cons by lia.
  apply parse_radix_digits_ok; assumption.
Qed.

Lemma bigint_plus_digits radix ds : radix <= 16 -> ds <> [] -> Forall (is_digit_char radix) ds ->
  bigint_from_str_radix radix (43 :: ds) = Some (digits_value radix ds 0).
Proof.
  intros Hr Hne Hd. destruct ds as [|c t]; [congruence|].
  inversion Hd as [|? ? Hc _]; subst. pose proof (digit_char_range _ _ Hc Hr) as Hrange.
  rewrite bigint_cons by lia. rewrite biguint_plus by lia.
  apply parse_radix_digits_ok; assumption.
Qed.

Lemma radix_le16 radix : (radix = 2 \/ radix = 8 \/ radix = 10 \/ radix = 16) -> 0 < radix <= 16.
Proof. lia. Qed.

(* a well-formed literal denotes the value of its digit string, with the sign applied *)
Theorem parse_literal_value : forall radix upper neg ds,
  (radix = 2 \/ radix = 8 \/ radix = 10 \/ radix = 16) -> ds <> [] ->
  Forall (is_digit_char radix) ds ->
  parse_literal (literal neg radix upper ds)
  = Some (if neg then - digits_value radix ds 0 else digits_value radix ds 0).
Proof.
  intros radix upper neg ds Hr Hne Hd. pose proof (radix_le16 _ Hr) as Hr16.
  apply parse_literal_gen; [exact Hr | | apply bigint_digits; [lia | exact Hne | exact Hd]].
  intros ->. split.
  - repeat split; apply has_prefix_digits10; try exact Hd; lia.
  - destruct ds as [|c t]; [congruence|]. exists c, t. split; [reflexivity|].
    inversion Hd as [|? ? Hc _]; subst. pose proof (digit_char_range10 _ _ Hc ltac:(lia)). lia.
Qed.

(* "-0x1f" *)
Example parse_literal_value_ex : parse_literal (literal true 16 false [49; 102]) = Some (- 31).
Proof.
  rewrite parse_literal_value.
  - reflexivity.
  - lia.
  - congruence.
  - repeat constructor; cbv; congruence.
Qed.

(* num-bigint accepts one '+' right after the sign / radix prefix *)
Theorem parse_literal_plus : forall radix upper neg ds,
  (radix = 2 \/ radix = 8 \/ radix = 10 \/ radix = 16) -> ds <> [] ->
  Forall (is_digit_char radix) ds ->
  parse_literal (literal neg radix upper (43 :: ds))
  = Some (if neg then - digits_value radix ds 0 else digits_value radix ds 0).
Proof.
  intros radix upper neg ds Hr Hne Hd. pose proof (radix_le16 _ Hr) as Hr16.
  apply parse_literal_gen; [exact Hr | | apply bigint_plus_digits; [lia | exact Hne | exact Hd]].
  intros ->. split.
  - repeat split; reflexivity.
  - exists 43, ds. split; [reflexivity | lia].
Qed.

(* "-0X+7_f" : sign, prefix, plus; and an underscore between digits *)
Example parse_literal_plus_ex : parse_literal (literal true 16 true (43 :: [55; 70])) = Some (- 127).
Proof.
  rewrite parse_literal_plus.
  - reflexivity.
  - lia.
  - congruence.
  - repeat constructor; cbv; congruence.
Qed.
Example parse_literal_underscore_ex : parse_literal [45; 48; 88; 43; 55; 95; 70] = Some (- 127).
Proof. reflexivity. Qed.

(* ====================================================================== *)
(* limb side                                                              *)
(* ====================================================================== *)

Lemma last_cons_ne {A} (x : A) l d : l <> [] -> last (x :: l) d = last l d.
Proof. destruct l; [congruence | reflexivity]. Qed.

Lemma last_app_ne {A} (l1 l2 : list A) d : l2 <> [] -> last (l1 ++ l2) d = last l2 d.
Proof.
  intros Hne. induction l1 as [|x l1 IH]; cbn [app]; [reflexivity|].
  rewrite last_cons_ne; [exact IH|]. destruct l1, l2; cbn [app]; congruence.
Qed.

(* ---------- to_radix_le(16) ---------- *)

Lemma hex_digits_le_spec : forall fuel v, (0 < fuel)%nat -> 0 <= v < 16 ^ Z.of_nat fuel ->
  Forall (fun h => 0 <= h < 2 ^ 4) (hex_digits_le fuel v) /\
  dval 4 (hex_digits_le fuel v) = v /\
  hex_digits_le fuel v <> [] /\
  (v = 0 -> hex_digits_le fuel v = [0]) /\
  (0 < v -> last (hex_digits_le fuel v) 0 <> 0).
Proof.
  induction fuel as [|f IH]; intros v Hf Hv; [lia|]. cbn [hex_digits_le].
  change (2 ^ 4) with 16.
  destruct (Z.ltb_spec v 16) as [Hlt|Hge].
  - split; [|split; [|split; [|split]]].
    + constructor; [lia | constructor].
    + cbn [dval]. lia.
    + congruence.
    + intros ->. reflexivity.
    + cbn [last]. lia.
  - assert (Hq : 1 <= v / 16) by (apply Z.div_le_lower_bound; lia).
    rewrite Nat2Z.inj_succ, Z.pow_succ_r in Hv by lia.
    assert (Hq2 : v / 16 < 16 ^ Z.of_nat f) by (apply Z.div_lt_upper_bound; lia).
    assert (Hf' : (0 < f)%nat).
    { destruct f as [|f']; [|lia]. change (16 ^ Z.of_nat 0) with 1 in Hq2. lia. }
    destruct (IH (v / 16) Hf' ltac:(lia)) as (Hh & Hval & Hne & _ & Hlast).
    change (2 ^ 4) with 16 in Hh.
    split; [|split; [|split; [|split]]].
    + constructor; [|exact Hh]. apply Z.mod_pos_bound. lia.
    + cbn [dval]. rewrite Hval. change (2 ^ 4) with 16.
      pose proof (Z.div_mod v 16 ltac:(lia)). lia.
    + congruence.
    + intros ->. lia.
    + intros _. rewrite last_cons_ne by exact Hne. apply Hlast. lia.
Qed.

Lemma hex_fuel v : 0 <= v -> v < 16 ^ Z.of_nat (S (Z.to_nat (Z.log2 (v + 1)))).
Proof.
  intros Hv. pose proof (Z.log2_nonneg (v + 1)) as Hl.
  rewrite Nat2Z.inj_succ, Z2Nat.id by lia.
  pose proof (Z.log2_spec (v + 1) ltac:(lia)) as Hs.
  assert (2 ^ Z.succ (Z.log2 (v + 1)) <= 16 ^ Z.succ (Z.log2 (v + 1)))
    by (apply Z.pow_le_mono_l; lia).
  lia.
Qed.

Theorem to_radix16_le_spec : forall v, 0 <= v ->
  let d := to_radix16_le v in
  Forall (fun h => 0 <= h < 2 ^ 4) d /\ dval 4 d = v /\ d <> [] /\
  (v = 0 -> d = [0]) /\ (0 < v -> last d 0 <> 0).
Proof.
  intros v Hv. cbv zeta. unfold to_radix16_le.
  apply hex_digits_le_spec; [lia|]. split; [exact Hv | apply hex_fuel; exact Hv].
Qed.

(* 2^64 + 10 = 0x1_0000_0000_0000_000a : 17 hexits *)
Example to_radix16_le_ex :
  to_radix16_le 18446744073709551626 = [10; 0; 0; 0; 0; 0; 0; 0; 0; 0; 0; 0; 0; 0; 0; 0; 1].
Proof. vm_compute. reflexivity. Qed.

(* ---------- one limb: 16 hexits ---------- *)

Lemma pack_hex_spec : forall c i this, Forall (fun h => 0 <= h < 2 ^ 4) c -> 0 <= i ->
  i + Z.of_nat (length c) <= 16 -> 0 <= this < 2 ^ (4 * i) ->
  pack_hex c i this = this + 2 ^ (4 * i) * dval 4 c /\
  0 <= pack_hex c i this < 2 ^ (4 * (i + Z.of_nat (length c))).
Proof.
  induction c as [|h c IH]; intros i this Hc Hi Hlen Hthis; cbn [pack_hex dval length] in *.
  - rewrite Z.add_0_r. split; [lia | exact Hthis].
  - inversion Hc as [|? ? Hh Hc']; subst. cbv beta in Hh. change (2 ^ 4) with 16 in Hh.
    pose proof (pow2_gt0 (4 * i) ltac:(lia)) as Hp.
    assert (Hstep : 2 ^ (4 * (i + 1)) = 16 * 2 ^ (4 * i)).
    { replace (4 * (i + 1)) with (4 + 4 * i) by lia. rewrite Z.pow_add_r by lia. reflexivity. }
    assert (Hle : 2 ^ (4 * (i + 1)) <= W64).
    { rewrite <- W64_eq. apply Z.pow_le_mono_r; lia. }
    assert (Hsh : Z.shiftl h (4 * i) mod W64 = h * 2 ^ (4 * i)).
    { rewrite Z.shiftl_mul_pow2 by lia. apply Z.mod_small. nia. }
    rewrite Hsh.
    assert (Hnew : 0 <= this + h * 2 ^ (4 * i) < 2 ^ (4 * (i + 1))) by nia.
    rewrite (Z.mod_small (this + h * 2 ^ (4 * i)) W64) by lia.
    destruct (IH (i + 1) (this + h * 2 ^ (4 * i)) Hc' ltac:(lia) ltac:(lia) Hnew) as [Heq Hbd].
    rewrite Heq in *. split.
    + rewrite Hstep. change (2 ^ 4) with 16. ring.
    + replace (i + Z.of_nat (S (length c))) with (i + 1 + Z.of_nat (length c)) by lia. exact Hbd.
Qed.

Lemma pack_hex_chunk c : Forall (fun h => 0 <= h < 2 ^ 4) c -> (length c <= 16)%nat ->
  pack_hex c 0 0 = dval 4 c /\ u64 (pack_hex c 0 0).
Proof.
  intros Hc Hl.
  destruct (pack_hex_spec c 0 0 Hc ltac:(lia) ltac:(lia) ltac:(change (2 ^ (4 * 0)) with 1; lia))
    as [Heq Hbd].
  split.
  - rewrite Heq. change (2 ^ (4 * 0)) with 1. lia.
  - unfold u64. rewrite <- W64_eq.
    assert (2 ^ (4 * (0 + Z.of_nat (length c))) <= 2 ^ 64) by (apply Z.pow_le_mono_r; lia).
    lia.
Qed.

Lemma dval_split16 l : dval 4 l = dval 4 (firstn 16 l) + W64 * dval 4 (skipn 16 l).
Proof.
  rewrite <- (firstn_skipn 16 l) at 1. rewrite dval_app by lia.
  destruct (Nat.le_gt_cases 16 (length l)) as [Hge|Hlt].
  - rewrite firstn_length, Nat.min_l by lia. reflexivity.
  - rewrite skipn_all2 by lia. cbn [dval]. lia.
Qed.

Lemma dval_last_nz : forall d, Forall (fun h => 0 <= h < 2 ^ 4) d -> last d 0 <> 0 -> 0 < dval 4 d.
Proof.
  induction d as [|a r IH]; intros Hd Hl; [cbn [last] in Hl; congruence|].
  inversion Hd as [|? ? Ha Hr]; subst. cbv beta in Ha. change (2 ^ 4) with 16 in *.
  destruct r as [|b r'].
  - cbn [last dval] in *. lia.
  - rewrite last_cons_ne in Hl by congruence. specialize (IH Hr Hl).
    cbn [dval] in *. change (2 ^ 4) with 16 in *. lia.
Qed.

Lemma chunks_nil fuel k : chunks fuel k [] = [].
Proof. destruct fuel; reflexivity. Qed.

Lemma limbs_chunks_spec : forall fuel d, Forall (fun h => 0 <= h < 2 ^ 4) d -> (length d < fuel)%nat ->
  let l := map (fun c => pack_hex c 0 0) (chunks fuel 16 d) in
  wf l /\ val l = dval 4 d /\ (d <> [] -> l <> [] /\ (last d 0 <> 0 -> last l 0 <> 0)).
Proof.
  induction fuel as [|f IH]; intros d Hd Hf; [lia|]. cbv zeta.
  destruct d as [|h0 d0] eqn:Ed.
  - cbn [chunks map val dval]. split; [constructor|]. split; [reflexivity|]. intros H; congruence.
  - assert (Hc : chunks (S f) 16 (h0 :: d0)
                 = firstn 16 (h0 :: d0) :: chunks f 16 (skipn 16 (h0 :: d0))) by reflexivity.
    rewrite Hc. clear Hc. rewrite <- Ed in *. cbn [map].
    assert (Hlen : (0 < length d)%nat) by (rewrite Ed; cbn [length]; lia).
    specialize (IH (skipn 16 d) (Forall_skipn _ _ _ Hd) ltac:(rewrite skipn_length; lia)).
    cbv zeta in IH. destruct IH as (Hw & Hv & Hlast).
    destruct (pack_hex_chunk (firstn 16 d) (Forall_firstn _ _ _ Hd)
                ltac:(rewrite firstn_length; lia)) as [Hx Hxb].
    split; [|split].
    + apply wf_cons. split; assumption.
    + cbn [val]. rewrite Hv, Hx. symmetry. apply dval_split16.
    + intros _. split; [congruence|]. intros Hl.
      destruct (skipn 16 d) as [|s0 sk] eqn:Es.
      * rewrite chunks_nil. cbn [map last].
        assert (Hall : firstn 16 d = d).
        { apply firstn_all2. pose proof (skipn_length 16 d) as E. rewrite Es in E.
          cbn [length] in E. lia. }
        rewrite Hx, Hall. pose proof (dval_last_nz d Hd Hl). lia.
      * destruct (Hlast ltac:(congruence)) as [Hne Hll].
        rewrite last_cons_ne by exact Hne. apply Hll.
        rewrite <- (firstn_skipn 16 d), Es in Hl.
        rewrite last_app_ne in Hl by congruence. exact Hl.
Qed.

Theorem limbs_of_hexits_spec : forall d, Forall (fun h => 0 <= h < 2 ^ 4) d -> d <> [] ->
  let l := limbs_of_hexits d in
  wf l /\ val l = dval 4 d /\ l <> [] /\ (last d 0 <> 0 -> last l 0 <> 0) /\ (d = [0] -> l = [0]).
Proof.
  intros d Hd Hne. cbv zeta. unfold limbs_of_hexits.
  destruct (limbs_chunks_spec (S (length d)) d Hd ltac:(lia)) as (Hw & Hv & Hl).
  cbv zeta in Hl. destruct (Hl Hne) as [Hlne Hlast].
  split; [exact Hw|]. split; [exact Hv|]. split; [exact Hlne|]. split; [exact Hlast|].
  intros ->. reflexivity.
Qed.

(* 17 hexits -> two limbs *)
Example limbs_of_hexits_ex :
  limbs_of_hexits [10; 0; 0; 0; 0; 0; 0; 0; 0; 0; 0; 0; 0; 0; 0; 0; 1] = [10; 1].
Proof. vm_compute. reflexivity. Qed.

(* ====================================================================== *)
(* str_to_limbs_u64                                                       *)
(* ====================================================================== *)

Theorem str_to_limbs_spec : forall s z, parse_literal s = Some z ->
  exists limbs, str_to_limbs_u64 s = Some (negb (z <? 0), limbs) /\
    wf limbs /\ val limbs = Z.abs z /\ limbs <> [] /\
    (z = 0 -> limbs = [0]) /\ (z <> 0 -> last limbs 0 <> 0).
Proof.
  intros s z Hp. unfold str_to_limbs_u64. rewrite Hp.
  exists (limbs_of_hexits (to_radix16_le (Z.abs z))). split; [reflexivity|].
  destruct (to_radix16_le_spec (Z.abs z) ltac:(lia)) as (Hh & Hv & Hne & H0 & Hlast).
  destruct (limbs_of_hexits_spec _ Hh Hne) as (Hw & Hlv & Hlne & Hll & Hl0).
  split; [exact Hw|]. split; [rewrite Hlv; exact Hv|]. split; [exact Hlne|]. split.
  - intros Hz. apply Hl0, H0. lia.
  - intros Hz. apply Hll, Hlast. lia.
Qed.

Theorem str_to_limbs_none : forall s, parse_literal s = None -> str_to_limbs_u64 s = None.
Proof. intros s Hp. unfold str_to_limbs_u64. rewrite Hp. reflexivity. Qed.

(* "-18446744073709551617" = -(2^64 + 1) ;  "0x" has no digits *)
Example str_to_limbs_ex :
  str_to_limbs_u64 [45; 49; 56; 52; 52; 54; 55; 52; 52; 48; 55; 51; 55; 48; 57; 53; 53; 49; 54; 49; 55]
  = Some (false, [1; 1]).
Proof. vm_compute. reflexivity. Qed.
Example str_to_limbs_none_ex : str_to_limbs_u64 [48; 120] = None.
Proof. apply str_to_limbs_none. reflexivity. Qed.

(* ---------- minimality of the limb list, in the form the callers use ---------- *)

Lemma Wn_mono n m : (n <= m)%nat -> Wn n <= Wn m.
Proof.
  intros H. replace m with (n + (m - n))%nat by lia. rewrite Wn_add.
  pose proof (Wn_pos n). pose proof (Wn_pos (m - n)). nia.
Qed.

Lemma val_ge_top : forall l, wf l -> l <> [] -> last l 0 <> 0 -> Wn (length l - 1) <= val l.
Proof.
  induction l as [|x l IH]; intros Hw Hne Hl; [congruence|].
  apply wf_cons in Hw as [Hx Hw]. unfold u64 in Hx.
  destruct l as [|y l'].
  - cbn [last length val Nat.sub] in *. rewrite Wn_0. lia.
  - rewrite last_cons_ne in Hl by congruence.
    specialize (IH Hw ltac:(congruence) Hl).
    replace (length (x :: y :: l') - 1)%nat with (S (length (y :: l') - 1)) by (cbn [length]; lia).
    rewrite Wn_S. cbn [val] in *. pose proof W64_pos. nia.
Qed.

Theorem limbs_fit_iff : forall limbs N, wf limbs -> limbs <> [] ->
  (limbs = [0] \/ last limbs 0 <> 0) -> (0 < N)%nat ->
  ((length limbs <= N)%nat <-> val limbs < Wn N).
Proof.
  intros limbs N Hw Hne Hmin HN. split.
  - intros Hl. pose proof (val_bound limbs Hw) as Hb. pose proof (Wn_mono _ _ Hl). lia.
  - intros Hv. destruct Hmin as [->|Hlast]; [cbn [length]; lia|].
    destruct (Nat.le_gt_cases (length limbs) N) as [Hle|Hgt]; [exact Hle|].
    pose proof (val_ge_top limbs Hw Hne Hlast) as Hge.
    pose proof (Wn_mono N (length limbs - 1) ltac:(lia)). lia.
Qed.

Example limbs_fit_iff_ex : (length [1; 1]%Z <= 2)%nat <-> val [1; 1] < Wn 2.
Proof.
  apply limbs_fit_iff.
  - repeat constructor; unfold W64; lia.
  - congruence.
  - right. cbn [last]. lia.
  - lia.
Qed.

(* ---------- headline: literal -> (sign, minimal limbs of the digit value) ---------- *)

Theorem parse_value : forall radix upper neg ds,
  (radix = 2 \/ radix = 8 \/ radix = 10 \/ radix = 16) -> ds <> [] ->
  Forall (is_digit_char radix) ds ->
  let V := digits_value radix ds 0 in
  exists limbs,
    str_to_limbs_u64 (literal neg radix upper ds) = Some (negb (neg && (0 <? V)), limbs) /\
    wf limbs /\ val limbs = V /\ (V = 0 -> limbs = [0]) /\ (V <> 0 -> last limbs 0 <> 0).
Proof.
  intros radix upper neg ds Hr Hne Hd V.
  pose proof (digits_value_nonneg radix ds 0 ltac:(lia) ltac:(lia)) as HV. fold V in HV.
  pose proof (parse_literal_value radix upper neg ds Hr Hne Hd) as Hp. fold V in Hp.
  destruct (str_to_limbs_spec _ _ Hp) as (limbs & Hs & Hw & Hv & _ & H0 & Hl).
  exists limbs. split; [|split; [exact Hw|split; [|split]]].
  - rewrite Hs. f_equal. f_equal. f_equal. destruct neg; cbn [andb].
    + destruct (Z.ltb_spec (- V) 0), (Z.ltb_spec 0 V); try reflexivity; lia.
    + destruct (Z.ltb_spec V 0); [lia | reflexivity].
  - rewrite Hv. destruct neg; lia.
  - intros HV0. apply H0. destruct neg; lia.
  - intros HV0. apply Hl. destruct neg; lia.
Qed.

(* "0b101" *)
Example parse_value_ex : exists limbs,
  str_to_limbs_u64 (literal false 2 false [49; 48; 49]) = Some (true, limbs) /\ val limbs = 5.
Proof.
  destruct (parse_value 2 false false [49; 48; 49]) as (limbs & Hs & _ & Hv & _).
  - lia.
  - congruence.
  - repeat constructor; cbv; congruence.
  - exists limbs. split; [exact Hs | exact Hv].
Qed.
