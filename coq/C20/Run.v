(* Uniform case interpreter for the C20 model.
   Field ops: a0 = [cfg_id; ...], a1 = modulus limbs.  An element is returned as its raw
   Montgomery limbs; its canonical integer is val (into_bigint m x) (C01's decoder).
   First result list: [0] ok, [1;k] error, [2] panic, [9] unsupported. *)
From V Require Import Base.Word C15.GenArith C15.BigIntModel C01.InvModel C01.MontModel C20.Literals.

Definition ok (r : list (list Z)) : list (list Z) := [0] :: r.
Definition err (k : Z) : list (list Z) := [[1; k]].
Definition panic : list (list Z) := [[2]].
Definition unsupported : list (list Z) := [[9]].

Definition arg (n : nat) (a : list (list Z)) : list Z := nth n a [].
Definition arg0 (n : nat) (a : list (list Z)) : Z := hd 0 (arg n a).

Definition canon (m x : list Z) : list Z := [val (into_bigint m x)].
Definition raw_of (r : lit_result (list Z)) : list Z := match r with LitOk x => x | _ => [] end.

Definition lit_elem (m : list Z) (r : lit_result (list Z)) : list (list Z) :=
  match r with
  | LitOk x => ok [canon m x; x]
  | LitPanic => panic
  | LitReject => err 1
  end.

Definition small_of (l : list Z) : option (Z * Z) :=
  match l with
  | [b; k] => Some (b, k)
  | _ => None
  end.

Definition run_C20 (op : Z) (a : list (list Z)) : list (list Z) :=
  let m := arg 1 a in
  match op with
  (* const: MontFp! constant; a3 = [negative?; |z|], a4 = decimal chars of z: the same integer
     through From<BigUint> (negated when the literal is negative) and through FromStr *)
  | 1 => match montfp m (arg 2 a) with
         | LitOk x =>
             (* the run-time conversions are C01's models; by C20_const_eq_from_str /
                C20_const_eq_from_biguint they return x itself, which is what is printed for
                the larger fields (their R2 long division is expensive); for N <= 2 the C01
                models are executed as well *)
             let full := (length m <=? 2)%nat in
             let neg := negb (nth 0 (arg 3 a) 0 =? 0) in
             let via_big := if full then
                              match from_biguint true m (nth 1 (arg 3 a) 0) with
                              | Some r => if neg then neg_in_place m r else r
                              | None => []
                              end
                            else x in
             let via_str := if full then
                              match from_str true m (arg 4 a) with StrOk r => r | StrErr => [] end
                            else x in
             ok [canon m x; x; via_big; via_str]
         | LitPanic => panic
         | LitReject => err 1
         end
  (* rt_lit: the same macro in a non-const context *)
  | 2 => lit_elem m (montfp m (arg 2 a))
  | 3 => lit_elem m (from_sign_and_limbs m (negb (arg0 2 a =? 0)) (arg 3 a))
  | 4 => let x := fp_new m (arg 2 a) in ok [canon m x; x]
  | 5 => match from_str true m (arg 2 a) with StrOk r => ok [canon m r; r] | StrErr => err 0 end
  | 6 => match from_biguint true m (arg0 2 a) with Some r => ok [canon m r; r] | None => panic end
  (* derive: a1 = modulus chars, a2 = generator chars, a3 = [] | [base; power] *)
  | 7 => match derive_from_attrs (arg 1 a) (arg 2 a) (small_of (arg 3 a)) with
         | None => err 1
         | Some d =>
             let ml := d_modulus d in
             match two_adic ml, d_generator d, d_root d with
             | Some (s, t), LitOk g, LitOk root =>
                 ok [[d_limbs d; const_num_bits ml]; ml; [s]; t;
                     g; canon ml g; root; canon ml root;
                     match d_large d with Some r => raw_of r | None => [] end;
                     pow true ml g t]
             | _, _, _ => panic
             end
         end
  (* BigInt!: a0 = [N; idx], a1 = literal chars *)
  | 8 | 9 => match bigint_macro (Z.to_nat (arg0 0 a)) (arg 1 a) with
             | LitOk x => ok [x]
             | LitPanic => panic
             | LitReject => err 1
             end
  | _ => unsupported
  end.
