(* C20: the headline theorems -- a literal denotes the number that is written.
   Composition of ParseProofs (string -> sign and minimal limbs), MontFpProofs (limbs ->
   canonical Montgomery form through the const path), DeriveProofs (the derive macro's
   integer computations) and C01 (the run-time conversions). *)
From V Require Import Base.Word C15.GenArith C15.BigIntModel C15.LeafSpecs C15.BigIntProofs
  C15.DecimalProofs C15.ConstProofs
  C01.InvModel C01.MontModel C01.MontProofs C01.ConvProofs
  C20.Literals C20.ParseProofs C20.MontFpProofs C20.DeriveProofs.

Lemma signed_abs z : signed (negb (z <? 0)) (Z.abs z) = z.
Proof. unfold signed. destruct (Z.ltb_spec z 0); cbn [negb]; lia. Qed.

Lemma nonempty_pos (m : list Z) : m <> [] -> (0 < length m)%nat.
Proof. destruct m; [congruence | cbn [length]; lia]. Qed.

(* ---------- MontFp! ---------- *)

(* for every limb count N = length m, every odd modulus, every literal the macro can parse
   whose magnitude fits N limbs (it may exceed p): the constant is the canonical Montgomery
   form of z mod p *)
Theorem montfp_spec : forall m s z, wf m -> val m mod 2 = 1 ->
  parse_literal s = Some z -> Z.abs z < Wn (length m) ->
  exists r, montfp m s = LitOk r /\
    wf r /\ length r = length m /\ val r < val m /\
    val r = (z * Wn (length m)) mod val m /\
    std m r = z mod val m.
Proof.
  intros m s z Hm Hodd Hp Hfit.
  destruct (str_to_limbs_spec s z Hp) as (limbs & Hs & Hlw & Hlv & Hne & Hz0 & Hznz).
  pose proof (odd_nonempty m Hodd) as Hmne.
  assert (Hmin : limbs = [0] \/ last limbs 0 <> 0).
  { destruct (Z.eq_dec z 0) as [E|E]; [left; auto | right; auto]. }
  assert (Hlen : (length limbs <= length m)%nat).
  { apply (limbs_fit_iff limbs (length m) Hlw Hne Hmin (nonempty_pos m Hmne)). lia. }
  unfold montfp. rewrite Hs.
  destruct (from_sign_and_limbs_spec m (negb (z <? 0)) limbs Hm Hlw Hodd Hlen)
    as (r & Hr & Hw & Hl & Hlt & Hv).
  rewrite Hlv, signed_abs in Hv.
  exists r. repeat split; auto. apply std_unique; auto.
Qed.

Theorem montfp_too_long : forall m s z, m <> [] ->
  parse_literal s = Some z -> Wn (length m) <= Z.abs z ->
  montfp m s = LitPanic.
Proof.
  intros m s z Hmne Hp Hbig.
  destruct (str_to_limbs_spec s z Hp) as (limbs & Hs & Hlw & Hlv & Hne & Hz0 & Hznz).
  assert (Hmin : limbs = [0] \/ last limbs 0 <> 0).
  { destruct (Z.eq_dec z 0) as [E|E]; [left; auto | right; auto]. }
  unfold montfp. rewrite Hs. apply from_sign_and_limbs_too_long.
  destruct (Nat.ltb_spec (length m) (length limbs)) as [H|H]; [exact H|].
  apply (limbs_fit_iff limbs (length m) Hlw Hne Hmin (nonempty_pos m Hmne)) in H. lia.
Qed.

Theorem montfp_reject : forall m s, parse_literal s = None -> montfp m s = LitReject.
Proof. intros m s H. unfold montfp. rewrite (str_to_limbs_none s H). reflexivity. Qed.

(* the same, stated on digit strings: sign, radix prefix, digits (leading zeros included) *)
Theorem montfp_literal : forall m radix upper (neg : bool) ds, wf m -> val m mod 2 = 1 ->
  (radix = 2 \/ radix = 8 \/ radix = 10 \/ radix = 16) -> ds <> [] -> Forall (is_digit_char radix) ds ->
  let V := digits_value radix ds 0 in
  let z := if neg then - V else V in
  V < Wn (length m) ->
  exists r, montfp m (literal neg radix upper ds) = LitOk r /\
    wf r /\ length r = length m /\ val r < val m /\
    val r = (z * Wn (length m)) mod val m /\ std m r = z mod val m.
Proof.
  intros m radix upper neg ds Hm Hodd Hr Hne Hds V z Hfit.
  pose proof (parse_literal_value radix upper neg ds Hr Hne Hds) as Hp. fold V in Hp. fold z in Hp.
  assert (HV : 0 <= V) by (apply digits_value_nonneg; auto; lia).
  apply (montfp_spec m _ z Hm Hodd Hp). subst z. destruct neg; lia.
Qed.

(* ---------- BigInt! ---------- *)

Theorem bigint_macro_spec : forall N s z, (0 < N)%nat -> parse_literal s = Some z ->
  (0 <= z < Wn N ->
     exists l, bigint_macro N s = LitOk l /\ wf l /\ length l = N /\ val l = z) /\
  (z < 0 -> bigint_macro N s = LitPanic) /\
  (Wn N <= z -> bigint_macro N s = LitPanic).
Proof.
  intros N s z HN Hp.
  destruct (str_to_limbs_spec s z Hp) as (limbs & Hs & Hlw & Hlv & Hne & Hz0 & Hznz).
  assert (Hmin : limbs = [0] \/ last limbs 0 <> 0).
  { destruct (Z.eq_dec z 0) as [E|E]; [left; auto | right; auto]. }
  pose proof (limbs_fit_iff limbs N Hlw Hne Hmin HN) as Hfit.
  unfold bigint_macro. rewrite Hs.
  repeat split.
  - intros Hz. destruct (Z.ltb_spec z 0) as [?|_]; [lia|]. cbn [negb].
    assert (Hle : (length limbs <= N)%nat) by (apply Hfit; lia).
    destruct (Nat.ltb_spec N (length limbs)) as [?|_]; [lia|].
    destruct (pad_to_spec N limbs Hlw Hle) as (Hw & Hl & Hv).
    eexists. split; [reflexivity|]. repeat split; auto. lia.
  - intros Hz. destruct (Z.ltb_spec z 0) as [_|?]; [|lia]. reflexivity.
  - intros Hz. pose proof (Wn_pos N) as HW.
    destruct (Z.ltb_spec z 0) as [?|_]; [lia|]. cbn [negb].
    destruct (Nat.ltb_spec N (length limbs)) as [_|Hle]; [reflexivity|].
    apply Hfit in Hle. lia.
Qed.

(* ---------- compile-time constant = run-time conversion of the same integer ---------- *)

Lemma canonical_eq m a b : wf m -> val m mod 2 = 1 -> wf a -> wf b ->
  length a = length m -> length b = length m -> val a < val m -> val b < val m ->
  std m a = std m b -> a = b.
Proof.
  intros Hm Hodd Ha Hb Hla Hlb Halt Hblt Hs.
  destruct (std_val m Hm Hodd a Ha Hla Halt) as [_ Ea].
  destruct (std_val m Hm Hodd b Hb Hlb Hblt) as [_ Eb].
  apply val_inj; auto; [lia|]. rewrite Ea, Eb, Hs. reflexivity.
Qed.

(* FromStr (C01 model of the run-time parser) on any decimal text denoting the same integer *)
Theorem const_eq_from_str : forall (d : bool) m lit dec z, wf m -> val m mod 2 = 1 ->
  parse_literal lit = Some z -> parse_signed dec = Some z -> Z.abs z < Wn (length m) ->
  exists r, montfp m lit = LitOk r /\ from_str d m dec = StrOk r.
Proof.
  intros d m lit dec z Hm Hodd Hp Hd Hfit.
  destruct (montfp_spec m lit z Hm Hodd Hp Hfit) as (r & Hr & Hw & Hl & Hlt & _ & Hs).
  pose proof (from_str_spec d m dec Hm Hodd) as H. rewrite Hd in H.
  destruct H as (r' & Hr' & Hw' & Hl' & Hlt' & Hs').
  exists r. split; [exact Hr|]. rewrite Hr'. f_equal.
  apply (canonical_eq m); auto. rewrite Hs, Hs'. reflexivity.
Qed.

(* From<BigUint> of the magnitude, negated when the literal is negative *)
Theorem const_eq_from_biguint : forall (d : bool) m lit z, wf m -> val m mod 2 = 1 -> last m 0 <> 0 ->
  parse_literal lit = Some z -> Z.abs z < Wn (length m) ->
  exists r r0, montfp m lit = LitOk r /\ from_biguint d m (Z.abs z) = Some r0 /\
    (if z <? 0 then neg_in_place m r0 else r0) = r.
Proof.
  intros d m lit z Hm Hodd Htop Hp Hfit. pose proof (odd_pos m Hm Hodd) as Hpos.
  destruct (montfp_spec m lit z Hm Hodd Hp Hfit) as (r & Hr & Hw & Hl & Hlt & _ & Hs).
  destruct (from_biguint_spec d m (Z.abs z) Hm Hodd Htop ltac:(lia)) as (r0 & Hr0 & Hw0 & Hl0 & Hlt0 & Hs0).
  exists r, r0. repeat split; auto.
  destruct (Z.ltb_spec z 0) as [Hneg|Hnn].
  - destruct (neg_in_place_spec m r0 Hm Hw0 Hl0 Hlt0) as (Hnw & Hnl & Hnlt & _).
    apply (canonical_eq m); auto.
    rewrite (std_neg m Hm Hodd r0 Hw0 Hl0 Hlt0), Hs0, Hs.
    rewrite <- (Z.sub_0_l (_ mod _)), Zminus_mod_idemp_r. f_equal. lia.
  - apply (canonical_eq m); auto. rewrite Hs0, Hs. f_equal. lia.
Qed.

(* the decimal parser of the run-time FromStr is the radix-10 instance of the literal parser *)
Theorem bigint_from_str_radix_10 : forall s, bigint_from_str_radix 10 s = parse_signed s.
Proof.
  intros s. pose proof biguint_radix_10 as Hu.
  unfold bigint_from_str_radix, parse_signed.
  destruct s as [|c t]; [apply Hu|].
  destruct (Z.eq_dec c 45) as [->|Hc].
  - destruct t as [|c2 t2].
    + rewrite Hu. reflexivity.
    + destruct (Z.eq_dec c2 43) as [->|Hc2].
      * rewrite Hu. reflexivity.
      * assert (E1 : match c2 :: t2 with 43 :: _ => 45 :: c2 :: t2 | _ => c2 :: t2 end = c2 :: t2).
        { destruct c2 as [|q|q]; try reflexivity.
          do 6 (destruct q as [q|q|]; try reflexivity). congruence. }
        rewrite E1, Hu.
        destruct c2 as [|q|q]; try reflexivity.
        do 6 (destruct q as [q|q|]; try reflexivity). congruence.
  - rewrite <- Hu.
    destruct c as [|q|q]; try reflexivity.
    do 6 (destruct q as [q|q|]; try reflexivity). congruence.
Qed.

(* ---------- the derive macro ---------- *)

Lemma Wn_even k : (1 <= k)%nat -> Wn k mod 2 = 0.
Proof.
  intros Hk. destruct k as [|k]; [lia|]. rewrite Wn_S. unfold W64.
  replace (18446744073709551616 * Wn k) with (Wn k * 9223372036854775808 * 2) by ring.
  apply Z.mod_mul. lia.
Qed.

(* the literal the macro writes for a number it computed (decimal, via to_string) *)
Lemma montfp_to_string : forall m v, wf m -> val m mod 2 = 1 -> 0 <= v < Wn (length m) ->
  exists r, montfp m (to_string v) = LitOk r /\ wf r /\ length r = length m /\ val r < val m /\
    std m r = v mod val m.
Proof.
  intros m v Hm Hodd Hv.
  destruct (montfp_spec m (to_string v) v Hm Hodd (parse_literal_to_string v ltac:(lia)) ltac:(lia))
    as (r & Hr & Hw & Hl & Hlt & _ & Hs).
  exists r. repeat split; auto.
Qed.

(* #[derive(MontConfig)] for an odd modulus p > 1 and generator g: the limb count is
   ceil(bits/64); MODULUS holds exactly p in that many limbs; TWO_ADIC_ROOT_OF_UNITY is the
   canonical Montgomery form of g^t mod p where p - 1 = 2^s t is the decomposition the const
   fns two_adic_valuation / two_adic_coefficient (C15 two_adic) find at run time; GENERATOR is g
   mod p; LARGE_SUBGROUP_ROOT_OF_UNITY is g^(t / b^k) mod p *)
Theorem derive_macro_spec : forall p g small, 1 < p -> p mod 2 = 1 -> 0 <= g ->
  match small with Some (b, k) => 0 < b ^ k | None => True end ->
  exists d ml s t,
    derive_macro p g small = Some d /\
    d_limbs d = (Z.log2 p + 1 + 63) / 64 /\ d_limbs d = Z.of_nat (length ml) /\
    d_modulus d = ml /\ wf ml /\ val ml = p /\ last ml 0 <> 0 /\
    two_adic ml = Some (s, t) /\ 0 <= s /\ p - 1 = 2 ^ s * val t /\ val t mod 2 = 1 /\
    (exists r, d_root d = LitOk r /\ wf r /\ length r = length ml /\ val r < p /\
               std ml r = (g ^ val t) mod p) /\
    (g < Wn (length ml) ->
       exists r, d_generator d = LitOk r /\ wf r /\ length r = length ml /\ val r < p /\
                 std ml r = g mod p) /\
    match small with
    | Some (b, k) => exists r, d_large d = Some (LitOk r) /\ wf r /\ length r = length ml /\ val r < p /\
                               std ml r = (g ^ (val t / b ^ k)) mod p
    | None => d_large d = None
    end.
Proof.
  intros p g small Hp Hodd Hg Hsmall.
  destruct (derive_limb_count_spec p ltac:(lia)) as (k & Hk & Hk1 & Hle & Hmin).
  pose proof (derive_limb_count_odd p Hp Hodd) as Hceil.
  destruct (str_to_limbs_spec (to_string p) p (parse_literal_to_string p ltac:(lia)))
    as (ml & Hs & Hmw & Hmv & Hmne & _ & Hmtop).
  rewrite Z.abs_eq in Hmv by lia.
  specialize (Hmtop ltac:(lia)).
  assert (Hlen : length ml = k).
  { assert (Hlt : p < Wn k).
    { destruct (Z.eq_dec p (Wn k)) as [E|]; [|lia]. rewrite E, Wn_even in Hodd by lia. discriminate. }
    assert (H1 : (length ml <= k)%nat) by (apply (limbs_fit_iff ml k Hmw Hmne (or_intror Hmtop)); lia).
    destruct (Nat.eq_dec k 1) as [Hk1'|Hk2].
    - subst k. destruct ml; [congruence | cbn [length] in *; lia].
    - destruct Hmin as [?|Hbig]; [lia|].
      destruct (Nat.le_gt_cases (length ml) (k - 1)) as [H2|H2]; [|lia].
      apply (limbs_fit_iff ml (k - 1) Hmw Hmne (or_intror Hmtop)) in H2; lia. }
  assert (Hmodd : val ml mod 2 = 1) by (rewrite Hmv; exact Hodd).
  destruct (derive_trace_eq_two_adic ml Hmw Hmodd ltac:(lia))
    as (s & t & Ht2 & Htw & Htl & Hs0 & Htr & Hdec & Htodd).
  rewrite Hmv in Htr, Hdec.
  pose proof (val_bound ml Hmw) as Hmb. rewrite Hmv in Hmb.
  pose proof (val_bound t Htw) as Htb.
  (* the root *)
  pose proof (modpow_spec g (val t) p ltac:(lia) ltac:(lia)) as Hroot.
  pose proof (Z.mod_pos_bound (g ^ val t) p ltac:(lia)) as Hrb.
  destruct (montfp_to_string ml (modpow g (val t) p) Hmw Hmodd ltac:(rewrite Hroot; lia))
    as (r & Hr & Hrw & Hrl & Hrlt & Hrs).
  rewrite Hmv in Hrlt, Hrs. rewrite Hroot, Z.mod_mod in Hrs by lia.
  unfold derive_macro. rewrite Hk, Htr.
  assert (Hrem : exists rem, remaining_subgroup (val t) small = Some rem /\
                   rem = match small with Some (b, k0) => Some (val t / b ^ k0) | None => None end).
  { unfold remaining_subgroup. destruct small as [[b k0]|]; [|eexists; split; reflexivity].
    destruct (Z.eqb_spec (b ^ k0) 0) as [E|_]; [lia|]. eexists; split; reflexivity. }
  destruct Hrem as (rem & Hrem & Hremv). rewrite Hrem, Hs.
  rewrite Hlen, Z.eqb_refl.
  eexists. exists ml, s, t. split; [reflexivity|]. cbn [d_limbs d_modulus d_root d_generator d_large].
  rewrite Hlen. assert (Hkc : Z.of_nat k = (Z.log2 p + 1 + 63) / 64) by congruence.
  repeat split; auto.
  - exists r. repeat split; auto. lia.
  - intros Hgfit.
    destruct (montfp_to_string ml g Hmw Hmodd ltac:(rewrite Hlen; lia)) as (gr & Hgr & Hgw & Hgl & Hglt & Hgs).
    rewrite Hmv in Hglt, Hgs. exists gr. repeat split; auto. lia.
  - subst rem. destruct small as [[b k0]|]; [|reflexivity].
    assert (He : 0 <= val t / b ^ k0) by (apply Z.div_pos; lia).
    pose proof (modpow_spec g (val t / b ^ k0) p He ltac:(lia)) as Hl.
    pose proof (Z.mod_pos_bound (g ^ (val t / b ^ k0)) p ltac:(lia)) as Hlb.
    destruct (montfp_to_string ml (modpow g (val t / b ^ k0) p) Hmw Hmodd ltac:(rewrite Hl; lia))
      as (lr & Hlr & Hlw & Hll & Hllt & Hls).
    rewrite Hmv in Hllt, Hls. rewrite Hl, Z.mod_mod in Hls by lia.
    exists lr. rewrite Hlr. repeat split; auto. lia.
Qed.
