From Coq Require Import Extraction ExtrOcamlBasic ExtrOcamlZBigInt.
From V Require Import C01.Run.
Extraction Language OCaml.
Extraction "../build/ocaml/C01.ml" run_C01.
