From Coq Require Import Extraction ExtrOcamlBasic ExtrOcamlZBigInt.
From V Require Import C02.Run.
Extraction Language OCaml.
Extraction "../build/ocaml/C02.ml" run_C02.
