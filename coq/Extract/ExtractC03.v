From Coq Require Import Extraction ExtrOcamlBasic ExtrOcamlZBigInt.
From V Require Import C03.Run.
Extraction Language OCaml.
Extraction "../build/ocaml/C03.ml" run_C03.
