From Coq Require Import Extraction ExtrOcamlBasic ExtrOcamlZBigInt.
From V Require Import C04.Run.
Extraction Language OCaml.
Extraction "../build/ocaml/C04.ml" run_C04.
