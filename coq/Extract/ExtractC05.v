From Coq Require Import Extraction ExtrOcamlBasic ExtrOcamlZBigInt.
From V Require Import C05.Run.
Extraction Language OCaml.
Extraction "../build/ocaml/C05.ml" run_C05.
