From Coq Require Import Extraction ExtrOcamlBasic ExtrOcamlZBigInt.
From V Require Import C06.Run.
Extraction Language OCaml.
Extraction "../build/ocaml/C06.ml" run_C06.
