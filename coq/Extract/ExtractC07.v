From Coq Require Import Extraction ExtrOcamlBasic ExtrOcamlZBigInt.
From V Require Import C07.Run.
Extraction Language OCaml.
Extraction "../build/ocaml/C07.ml" run_C07.
