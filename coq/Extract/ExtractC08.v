From Coq Require Import Extraction ExtrOcamlBasic ExtrOcamlZBigInt.
From V Require Import C08.Run.
Extraction Language OCaml.
Extraction "../build/ocaml/C08.ml" run_C08.
