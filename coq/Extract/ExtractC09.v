From Coq Require Import Extraction ExtrOcamlBasic ExtrOcamlZBigInt.
From V Require Import C09.Run.
Extraction Language OCaml.
Extraction "../build/ocaml/C09.ml" run_C09.
