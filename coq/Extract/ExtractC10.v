From Coq Require Import Extraction ExtrOcamlBasic ExtrOcamlZBigInt.
From V Require Import C10.Run.
Extraction Language OCaml.
Extraction "../build/ocaml/C10.ml" run_C10.
