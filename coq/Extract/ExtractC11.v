From Coq Require Import Extraction ExtrOcamlBasic ExtrOcamlZBigInt.
From V Require Import C11.Run.
Extraction Language OCaml.
Extraction "../build/ocaml/C11.ml" run_C11.
