From Coq Require Import Extraction ExtrOcamlBasic ExtrOcamlZBigInt.
From V Require Import C12.Run.
Extraction Language OCaml.
Extraction "../build/ocaml/C12.ml" run_C12.
