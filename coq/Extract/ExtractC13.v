From Coq Require Import Extraction ExtrOcamlBasic ExtrOcamlZBigInt.
From V Require Import C13.Run.
Extraction Language OCaml.
Extraction "../build/ocaml/C13.ml" run_C13.
