From Coq Require Import Extraction ExtrOcamlBasic ExtrOcamlZBigInt.
From V Require Import C14.Run.
Extraction Language OCaml.
Extraction "../build/ocaml/C14.ml" run_C14.
