From Coq Require Import Extraction ExtrOcamlBasic ExtrOcamlZBigInt.
From V Require Import C15.Run.
Extraction Language OCaml.
Extraction "../build/ocaml/C15.ml" run_C15.
