From Coq Require Import Extraction ExtrOcamlBasic ExtrOcamlZBigInt.
From V Require Import C16.Run.
Extraction Language OCaml.
Extraction "../build/ocaml/C16.ml" run_C16.
