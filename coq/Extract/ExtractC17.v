From Coq Require Import Extraction ExtrOcamlBasic ExtrOcamlZBigInt.
From V Require Import C17.Run.
Extraction Language OCaml.
Extraction "../build/ocaml/C17.ml" run_C17.
