From Coq Require Import Extraction ExtrOcamlBasic ExtrOcamlZBigInt.
From V Require Import C18.Run.
Extraction Language OCaml.
Extraction "../build/ocaml/C18.ml" run_C18.
