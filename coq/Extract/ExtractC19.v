From Coq Require Import Extraction ExtrOcamlBasic ExtrOcamlZBigInt.
From V Require Import C19.Run.
Extraction Language OCaml.
Extraction "../build/ocaml/C19.ml" run_C19.
