From Coq Require Import Extraction ExtrOcamlBasic ExtrOcamlZBigInt.
From V Require Import C20.Run.
Extraction Language OCaml.
Extraction "../build/ocaml/C20.ml" run_C20.
