(* Gen -- the definitions that lib/xlate_field.py generates from the CURRENT Rust source
   (Gen/GenField.v) are equal, for all arguments, to the hand-written model functions the
   C02 / C03 theorems are about; hence those theorems hold of what the code says now.
   Where the generated text is the model's expression up to let-bindings the proof is
   conversion ([reflexivity] after destructuring the tuples); where the shapes differ by a
   ring identity (`0 + x` of sum_of_products; the extension-degree test of dbl-2009-l at the
   impossible degree 0) the lemma is stated under the [ring_theory] hypothesis the C02/C03
   proof files use and closed by [ring]. *)
From V Require Import Base.Field Gen.GenField.
From V Require Import C03.SWModel C03.TEModel C03.SWProofs C03.TEProofs C03.FieldHyp.
From V Require Import C02.Quad C02.Cubic C02.Towers C02.QuadProofs C02.CubicProofs C02.TowerProofs C02.CycProofs.
Require Import Coq.setoid_ring.Ring Coq.setoid_ring.Field Lia.

Ltac tuples :=
  repeat match goal with x : (_ * _)%type |- _ => destruct x end.

(* ====================== A. short Weierstrass (Jacobian) ====================== *)

Section SWConv.
  Context {T : Type} (F : Fops T).
  Lemma gen_sw_is_zero_eq P : gen_sw_is_zero F P = sw_is_zero F P.
  Proof. tuples. reflexivity. Qed.
  Lemma gen_sw_zero_eq : gen_sw_zero F = sw_zero F.
  Proof. reflexivity. Qed.

  (* pure conversion as soon as the extension degree is not 0 (it never is) *)
  Lemma gen_sw_double_eq_refl a P : fdeg F <> 0%nat ->
    gen_sw_double_in_place F a (sw_mul_by_a F a) P = sw_double F a P.
  Proof.
    intros Hd. tuples. unfold gen_sw_double_in_place, sw_double.
    destruct (fdeg F) as [|[|[|n]]]; [contradiction | reflexivity ..].
  Qed.
End SWConv.

Section SWSpecs.
  Context {T : Type} (F : Fops T) (a : T).
  Hypothesis Rth : ring_theory (f0 F) (f1 F) (fadd F) (fmul F) (fsub F) (fneg F) eq.
  Add Ring GenSWRing : Rth.
  (* P::mul_by_a: any implementation that agrees with the trait's default body *)
  Variable mba : T -> T.
  Hypothesis mba_spec : forall e, mba e = sw_mul_by_a F a e.

  Lemma gen_mul_0_r e : fmul F e (f0 F) = f0 F.
  Proof. ring. Qed.

  Lemma gen_sw_double_eq P : gen_sw_double_in_place F a mba P = sw_double F a P.
  Proof.
    destruct P as [[x y] z]. unfold gen_sw_double_in_place, sw_double. cbv beta iota zeta.
    rewrite !mba_spec.
    change (gen_sw_is_zero F (x, y, z)) with (feqb F z (f0 F)).
    destruct (feqb F z (f0 F)); [reflexivity|].
    destruct (feqb F a (f0 F)); [|reflexivity].
    destruct (fdeg F) as [|[|[|n]]]; try reflexivity.
    cbn [existsb Nat.eqb Nat.leb orb].
    unfold fsqr, fdbl, SWModel.sq, SWModel.dbl. apply f_equal2; [apply f_equal2|]; ring.
  Qed.

  Lemma gen_sw_add_eq P Q : gen_sw_add_assign F a mba P Q = sw_add F a P Q.
  Proof.
    tuples. unfold gen_sw_add_assign, sw_add. cbv beta iota zeta.
    rewrite gen_sw_double_eq. reflexivity.
  Qed.

  Lemma gen_sw_madd_eq P Q : gen_sw_add_assign_affine F a mba P Q = sw_madd F a P Q.
  Proof.
    destruct Q as [[x2 y2]|]; tuples; unfold gen_sw_add_assign_affine, sw_madd; cbv beta iota zeta;
      [rewrite gen_sw_double_eq|]; reflexivity.
  Qed.
End SWSpecs.

(* headline corollaries: the generated formulas compute the affine chord-and-tangent law
   and stay on the curve *)
Section SWCorollaries.
  Context {T : Type} (F : Fops T) (a b : T).
  Hypothesis G : good_field F.
  Variable mba : T -> T.
  Hypothesis mba_mul : forall e, mba e = fmul F e a.

  Let Rth := F_R (gf_th F G).
  Lemma mba_default : forall e, mba e = sw_mul_by_a F a e.
  Proof.
    intros e. rewrite mba_mul. unfold sw_mul_by_a.
    destruct (feqb F a (f0 F)) eqn:E; [|reflexivity].
    apply (gf_eqb F G) in E. rewrite E. apply (gen_mul_0_r F Rth).
  Qed.

  Theorem gen_sw_double_correct : forall P,
    sw_to_affine F (gen_sw_double_in_place F a mba P) = aff_add_sw F a (sw_to_affine F P) (sw_to_affine F P).
  Proof.
    intros P. rewrite (gen_sw_double_eq F a Rth mba mba_default).
    apply (sw_double_correct F a (gf_th F G) (gf_eqb F G) (gf_two F G)).
  Qed.
  Theorem gen_sw_add_correct : forall P Q, jac_on F a b P -> jac_on F a b Q ->
    sw_to_affine F (gen_sw_add_assign F a mba P Q) = aff_add_sw F a (sw_to_affine F P) (sw_to_affine F Q).
  Proof.
    intros P Q. rewrite (gen_sw_add_eq F a Rth mba mba_default).
    apply (sw_add_correct F a b (gf_th F G) (gf_eqb F G) (gf_two F G)).
  Qed.
  Theorem gen_sw_madd_correct : forall P Q, jac_on F a b P -> aff_on F a b Q ->
    sw_to_affine F (gen_sw_add_assign_affine F a mba P Q) = aff_add_sw F a (sw_to_affine F P) Q.
  Proof.
    intros P Q. rewrite (gen_sw_madd_eq F a Rth mba mba_default).
    apply (sw_madd_correct F a b (gf_th F G) (gf_eqb F G) (gf_two F G)).
  Qed.
  Theorem gen_sw_double_on_curve : forall P, jac_on F a b P -> jac_on F a b (gen_sw_double_in_place F a mba P).
  Proof.
    intros P. rewrite (gen_sw_double_eq F a Rth mba mba_default).
    apply (sw_double_on_curve F a b (gf_th F G) (gf_eqb F G) (gf_two F G)).
  Qed.
  Theorem gen_sw_add_on_curve : forall P Q, jac_on F a b P -> jac_on F a b Q ->
    jac_on F a b (gen_sw_add_assign F a mba P Q).
  Proof.
    intros P Q. rewrite (gen_sw_add_eq F a Rth mba mba_default).
    apply (sw_add_on_curve F a b (gf_th F G) (gf_eqb F G) (gf_two F G)).
  Qed.
  Theorem gen_sw_madd_on_curve : forall P Q, jac_on F a b P -> aff_on F a b Q ->
    jac_on F a b (gen_sw_add_assign_affine F a mba P Q).
  Proof.
    intros P Q. rewrite (gen_sw_madd_eq F a Rth mba mba_default).
    apply (sw_madd_on_curve F a b (gf_th F G) (gf_eqb F G) (gf_two F G)).
  Qed.
End SWCorollaries.

(* ====================== A. twisted Edwards (extended) ====================== *)

Section TESpecs.
  Context {T : Type} (F : Fops T) (a d : T).
  Variable mba : T -> T.
  Hypothesis mba_spec : forall e, mba e = fmul F e a.

  Lemma gen_te_double_eq P : gen_te_double_in_place F mba P = te_double F a P.
  Proof. tuples. unfold gen_te_double_in_place, te_double, te_mul_by_a. rewrite !mba_spec. reflexivity. Qed.
  Lemma gen_te_add_eq P Q : gen_te_add_assign F d mba P Q = te_add F a d P Q.
  Proof. tuples. unfold gen_te_add_assign, te_add, te_mul_by_a. rewrite !mba_spec. reflexivity. Qed.
  Lemma gen_te_madd_eq P Q : gen_te_add_assign_affine F d mba P Q = te_madd F a d P Q.
  Proof. tuples. unfold gen_te_add_assign_affine, te_madd, te_mul_by_a. rewrite !mba_spec. reflexivity. Qed.

  Hypothesis G : good_field F.
  Theorem gen_te_add_correct : forall P Q, te_valid F P -> te_valid F Q ->
    te_dens_ok F d (te_to_affine F P) (te_to_affine F Q) ->
    te_valid F (gen_te_add_assign F d mba P Q) /\
    te_to_affine F (gen_te_add_assign F d mba P Q) = aff_add_te F a d (te_to_affine F P) (te_to_affine F Q).
  Proof. intros P Q. rewrite gen_te_add_eq. apply (te_add_correct F a d (gf_th F G) (gf_eqb F G)). Qed.
  Theorem gen_te_madd_correct : forall P Q, te_valid F P -> te_dens_ok F d (te_to_affine F P) Q ->
    te_valid F (gen_te_add_assign_affine F d mba P Q) /\
    te_to_affine F (gen_te_add_assign_affine F d mba P Q) = aff_add_te F a d (te_to_affine F P) Q.
  Proof. intros P Q. rewrite gen_te_madd_eq. apply (te_madd_correct F a d (gf_th F G) (gf_eqb F G)). Qed.
  Theorem gen_te_double_correct : forall P, te_valid F P -> te_aff_on F a d (te_to_affine F P) ->
    te_dens_ok F d (te_to_affine F P) (te_to_affine F P) ->
    te_valid F (gen_te_double_in_place F mba P) /\
    te_to_affine F (gen_te_double_in_place F mba P) = aff_add_te F a d (te_to_affine F P) (te_to_affine F P).
  Proof. intros P. rewrite gen_te_double_eq. apply (te_double_correct F a d (gf_th F G) (gf_eqb F G)). Qed.
End TESpecs.

(* ====================== B. quadratic extension ====================== *)

Lemma nat_deg2 n : Nat.eqb (2 * n) 2 = Nat.eqb n 1.
Proof. destruct (Nat.eqb_spec (2 * n) 2), (Nat.eqb_spec n 1); try reflexivity; lia. Qed.

Section QuadSpecs.
  Context {T : Type} (B : Fops T) (N : nrops T).

  Lemma gen_quad_is_zero_eq a : gen_quad_is_zero B a = quad_is_zero B a.
  Proof. tuples. reflexivity. Qed.
  Lemma gen_quad_square_eq a :
    gen_quad_square_in_place B (nr_const N) (nr_p1_add N) (nr_sub N) a = quad_square B N a.
  Proof. tuples. reflexivity. Qed.
  Lemma gen_quad_inverse_eq a : gen_quad_inverse B (nr_sub N) a = quad_inverse B N a.
  Proof. tuples. reflexivity. Qed.
  (* the Karatsuba path alone is the model's text *)
  Lemma gen_quad_mul_karatsuba_eq a b : Nat.eqb (fdeg B) 1 = false ->
    gen_quad_mul_assign B (nr_mul N) (nr_mul_add N) a b = quad_mul_karatsuba B N a b.
  Proof. intros H. tuples. unfold gen_quad_mul_assign. rewrite nat_deg2, H. reflexivity. Qed.

  Hypothesis Rth : ring_theory (f0 B) (f1 B) (fadd B) (fmul B) (fsub B) (fneg B) eq.
  Add Ring GenQuadRing : Rth.
  (* sum_of_products starts from zero: 0 + a*c + b*d versus the model's a*c + b*d *)
  Lemma gen_quad_mul_eq a b : gen_quad_mul_assign B (nr_mul N) (nr_mul_add N) a b = quad_mul B N a b.
  Proof.
    tuples. unfold gen_quad_mul_assign, quad_mul, quad_is_deg2. rewrite nat_deg2.
    destruct (Nat.eqb (fdeg B) 1); [|reflexivity].
    unfold quad_mul_sop, sop2; cbn [fst snd]. f_equal; ring.
  Qed.

  (* corollaries: schoolbook arithmetic mod X^2 - nr *)
  Hypothesis Nok : nrops_ok B N.
  Theorem gen_quad_mul_spec a b :
    gen_quad_mul_assign B (nr_mul N) (nr_mul_add N) a b = qmul B (nr_const N) a b.
  Proof. rewrite gen_quad_mul_eq. apply (quad_mul_spec B Rth N Nok). Qed.
  Theorem gen_quad_square_spec a : (forall x y, feqb B x y = true -> x = y) ->
    gen_quad_square_in_place B (nr_const N) (nr_p1_add N) (nr_sub N) a = qmul B (nr_const N) a a.
  Proof. intros E. rewrite gen_quad_square_eq. apply (quad_square_spec B Rth N Nok E). Qed.
  Theorem gen_quad_inverse_spec a r :
    gen_quad_inverse B (nr_sub N) a = Some r ->
    fmul B (qnorm B (nr_const N) a) (finv B (qnorm B (nr_const N) a)) = f1 B ->
    qmul B (nr_const N) a r = (f1 B, f0 B).
  Proof. rewrite gen_quad_inverse_eq. apply (quad_inverse_spec B Rth N Nok). Qed.
  Theorem gen_quad_inverse_none a :
    gen_quad_inverse B (nr_sub N) a = None ->
    quad_is_zero B a = true \/ fis0 B (qnorm B (nr_const N) a) = true.
  Proof. rewrite gen_quad_inverse_eq. apply (quad_inverse_none B N Nok). Qed.
End QuadSpecs.

(* ====================== B. cubic extension ====================== *)

Definition cubic_inv_as_gen {T : Type} (r : cubic_inv_result (T:=T)) : gen_result (option (T * T * T)) :=
  match r with CubicInvNone => GRet None | CubicInvPanic => GPanic | CubicInvSome x => GRet (Some x) end.

Section CubicSpecs.
  Context {T : Type} (B : Fops T) (mul_nr : T -> T).
  Lemma gen_cubic_is_zero_eq s : gen_cubic_is_zero B s = cubic_is_zero B s.
  Proof. tuples. reflexivity. Qed.
  Lemma gen_cubic_mul_eq s o : gen_cubic_mul_assign B mul_nr s o = cubic_mul B mul_nr s o.
  Proof. tuples. reflexivity. Qed.
  Lemma gen_cubic_square_eq s : gen_cubic_square_in_place B mul_nr s = cubic_square B mul_nr s.
  Proof. tuples. reflexivity. Qed.
  Lemma gen_cubic_inverse_eq s : gen_cubic_inverse B mul_nr s = cubic_inv_as_gen (cubic_inverse B mul_nr s).
  Proof.
    destruct s as [[t t1] t0]. unfold gen_cubic_inverse, cubic_inverse. cbv beta iota zeta.
    change (gen_cubic_is_zero B (t, t1, t0)) with (cubic_is_zero B (t, t1, t0)).
    destruct (cubic_is_zero B (t, t1, t0)); [reflexivity|].
    unfold cubic_inv_as_gen.
    match goal with
    | |- (if fis0 B ?n then _ else _) = match (if fis0 B ?m then _ else _) with _ => _ end =>
        change m with n; destruct (fis0 B n); reflexivity
    end.
  Qed.

  Hypothesis Rth : ring_theory (f0 B) (f1 B) (fadd B) (fmul B) (fsub B) (fneg B) eq.
  Variable nr : T.
  Hypothesis mul_nr_spec : forall y, mul_nr y = fmul B nr y.
  Theorem gen_cubic_mul_spec s o : gen_cubic_mul_assign B mul_nr s o = cmul B nr s o.
  Proof. rewrite gen_cubic_mul_eq. apply (cubic_mul_spec B Rth nr mul_nr mul_nr_spec). Qed.
  Theorem gen_cubic_square_spec s : gen_cubic_square_in_place B mul_nr s = cmul B nr s s.
  Proof. rewrite gen_cubic_square_eq. apply (cubic_square_spec B Rth nr mul_nr mul_nr_spec). Qed.
  Theorem gen_cubic_inverse_spec s r :
    gen_cubic_inverse B mul_nr s = GRet (Some r) ->
    fmul B (cnorm B nr s) (finv B (cnorm B nr s)) = f1 B -> cmul B nr s r = (f1 B, f0 B, f0 B).
  Proof.
    rewrite gen_cubic_inverse_eq. intros H. apply (cubic_inverse_spec B Rth nr mul_nr mul_nr_spec).
    destruct (cubic_inverse B mul_nr s); cbn in H; try discriminate H. inversion H. reflexivity.
  Qed.
  (* no None and no unwrap panic on non-zero elements of non-zero norm *)
  Theorem gen_cubic_inverse_total s :
    cubic_is_zero B s = false -> fis0 B (cnorm B nr s) = false ->
    exists r, gen_cubic_inverse B mul_nr s = GRet (Some r).
  Proof.
    intros H0 Hn. destruct (cubic_inverse_total B Rth nr mul_nr mul_nr_spec s H0 Hn) as [r Hr].
    exists r. rewrite gen_cubic_inverse_eq, Hr. reflexivity.
  Qed.
End CubicSpecs.

(* ====================== C. sparse multiplications, cyclotomic squaring ====================== *)

Section TowerSpecs.
  Context {T : Type} (B : Fops T).

  Lemma gen_fp6b_mul_by_034_eq nr3 s x0 x3 x4 :
    gen_fp6_2over3_mul_by_034 B nr3 s x0 x3 x4 = fp6b_mul_by_034 B nr3 s x0 x3 x4.
  Proof. tuples. reflexivity. Qed.
  Lemma gen_fp6b_mul_by_014_eq nr3 s x0 x1 x4 :
    gen_fp6_2over3_mul_by_014 B nr3 s x0 x1 x4 = fp6b_mul_by_014 B nr3 s x0 x1 x4.
  Proof. tuples. reflexivity. Qed.
  Lemma gen_fp6a_mul_by_1_eq mul_nr s e1 :
    gen_fp6_3over2_mul_by_1 B mul_nr s e1 = fp6a_mul_by_1 B mul_nr s e1.
  Proof. tuples. reflexivity. Qed.
  Lemma gen_fp6a_mul_by_01_eq mul_nr s e0 e1 :
    gen_fp6_3over2_mul_by_01 B mul_nr s e0 e1 = fp6a_mul_by_01 B mul_nr s e0 e1.
  Proof. tuples. reflexivity. Qed.
  Lemma gen_fp12_mul_by_034_eq mul_nr D6 mul_nr6 s e0 e3 e4 :
    gen_fp12_mul_by_034 B D6 mul_nr mul_nr6 s e0 e3 e4 = fp12_mul_by_034 B mul_nr D6 mul_nr6 s e0 e3 e4.
  Proof.
    tuples. unfold gen_fp12_mul_by_034, fp12_mul_by_034. cbv beta iota zeta.
    rewrite !gen_fp6a_mul_by_01_eq. reflexivity.
  Qed.
  Lemma gen_fp12_mul_by_014_eq mul_nr D6 mul_nr6 s e0 e1 e4 :
    gen_fp12_mul_by_014 B D6 mul_nr mul_nr6 s e0 e1 e4 = fp12_mul_by_014 B mul_nr D6 mul_nr6 s e0 e1 e4.
  Proof.
    tuples. unfold gen_fp12_mul_by_014, fp12_mul_by_014. cbv beta iota zeta.
    rewrite !gen_fp6a_mul_by_01_eq, !gen_fp6a_mul_by_1_eq. reflexivity.
  Qed.
  (* Granger-Scott path (characteristic^2 = 1 mod 6), and the fall-back to square_in_place *)
  Lemma gen_fp12_cyc_square_eq fp2_nr sq s :
    gen_fp12_cyclotomic_square_in_place B fp2_nr true sq s = gs_square B fp2_nr s.
  Proof. tuples. reflexivity. Qed.
  Lemma gen_fp12_cyc_square_fallback fp2_nr sq s :
    gen_fp12_cyclotomic_square_in_place B fp2_nr false sq s = sq s.
  Proof. tuples. reflexivity. Qed.

  Hypothesis Rth : ring_theory (f0 B) (f1 B) (fadd B) (fmul B) (fsub B) (fneg B) eq.
  Theorem gen_fp6b_mul_by_034_spec nr3 s x0 x3 x4 :
    gen_fp6_2over3_mul_by_034 B nr3 s x0 x3 x4 =
    qmul (CubicOps B nr3) (f0 B, f1 B, f0 B) s (x0, f0 B, f0 B, (x3, x4, f0 B)).
  Proof. rewrite gen_fp6b_mul_by_034_eq. apply (fp6b_mul_by_034_spec B Rth). Qed.
  Theorem gen_fp6b_mul_by_014_spec nr3 s x0 x1 x4 :
    gen_fp6_2over3_mul_by_014 B nr3 s x0 x1 x4 =
    qmul (CubicOps B nr3) (f0 B, f1 B, f0 B) s (x0, x1, f0 B, (f0 B, x4, f0 B)).
  Proof. rewrite gen_fp6b_mul_by_014_eq. apply (fp6b_mul_by_014_spec B Rth). Qed.

  Variable xi : T.
  Variable mul_nr : T -> T.
  Hypothesis mul_nr_spec : forall y, mul_nr y = fmul B xi y.
  Theorem gen_fp6a_mul_by_1_spec s e1 :
    gen_fp6_3over2_mul_by_1 B mul_nr s e1 = cmul B xi s (f0 B, e1, f0 B).
  Proof. rewrite gen_fp6a_mul_by_1_eq. apply (fp6a_mul_by_1_spec B Rth xi mul_nr mul_nr_spec). Qed.
  Theorem gen_fp6a_mul_by_01_spec s e0 e1 :
    gen_fp6_3over2_mul_by_01 B mul_nr s e0 e1 = cmul B xi s (e0, e1, f0 B).
  Proof. rewrite gen_fp6a_mul_by_01_eq. apply (fp6a_mul_by_01_spec B Rth xi mul_nr mul_nr_spec). Qed.

  Variable D6 : Fops (T * T * T).
  Hypothesis D6_add : fadd D6 = cadd B.
  Hypothesis D6_sub : fsub D6 = csub B.
  Variable mul_nr6 : T * T * T -> T * T * T.
  Hypothesis mul_nr6_spec : forall y, mul_nr6 y = cmul B xi (f0 B, f1 B, f0 B) y.
  Theorem gen_fp12_mul_by_034_spec s e0 e3 e4 :
    gen_fp12_mul_by_034 B D6 mul_nr mul_nr6 s e0 e3 e4 =
    qmul (CubicOps B xi) (f0 B, f1 B, f0 B) s (e0, f0 B, f0 B, (e3, e4, f0 B)).
  Proof.
    rewrite gen_fp12_mul_by_034_eq.
    apply (fp12_mul_by_034_spec B Rth xi mul_nr mul_nr_spec D6 D6_add D6_sub mul_nr6 mul_nr6_spec).
  Qed.
  Theorem gen_fp12_mul_by_014_spec s e0 e1 e4 :
    gen_fp12_mul_by_014 B D6 mul_nr mul_nr6 s e0 e1 e4 =
    qmul (CubicOps B xi) (f0 B, f1 B, f0 B) s (e0, e1, f0 B, (f0 B, e4, f0 B)).
  Proof.
    rewrite gen_fp12_mul_by_014_eq.
    apply (fp12_mul_by_014_spec B Rth xi mul_nr mul_nr_spec D6 D6_add D6_sub mul_nr6 mul_nr6_spec).
  Qed.
  (* PARTIAL like C02_gs_square_partial: the coordinate relations of the cyclotomic subgroup
     are a premise *)
  Theorem gen_fp12_cyc_square_partial sq x : gs_cyclotomic B xi x ->
    gen_fp12_cyclotomic_square_in_place B mul_nr true sq x = qmul (CubicOps B xi) (f0 B, f1 B, f0 B) x x.
  Proof.
    intros H. rewrite gen_fp12_cyc_square_eq. apply (gs_square_partial B Rth xi mul_nr mul_nr_spec x H).
  Qed.
End TowerSpecs.

(* ====================== D. default bodies of the configuration hooks ====================== *)

Section HookSpecs.
  Context {T : Type} (F : Fops T).
  Lemma gen_sw_mul_by_a_eq a e : gen_sw_mul_by_a F a e = sw_mul_by_a F a e.
  Proof. reflexivity. Qed.
  Lemma gen_sw_add_b_eq b e : gen_sw_add_b F b e = sw_add_b F b e.
  Proof. reflexivity. Qed.
  Lemma gen_te_mul_by_a_eq a e : gen_te_mul_by_a F a e = te_mul_by_a F a e.
  Proof. reflexivity. Qed.
  (* QuadExtConfig defaults = the record [default_nrops] of C02/Quad.v *)
  Lemma gen_quad_default_mul_and_add_eq nr mul_nr y x :
    gen_quad_default_mul_and_add F mul_nr y x = nr_mul_add (default_nrops F nr mul_nr) y x.
  Proof. reflexivity. Qed.
  Lemma gen_quad_default_plus_one_and_add_eq nr mul_nr y x :
    gen_quad_default_plus_one_and_add F (nr_mul_add (default_nrops F nr mul_nr)) y x
    = nr_p1_add (default_nrops F nr mul_nr) y x.
  Proof. reflexivity. Qed.
  Lemma gen_quad_default_sub_and_mul_eq nr mul_nr y x :
    gen_quad_default_sub_and_mul F mul_nr y x = nr_sub (default_nrops F nr mul_nr) y x.
  Proof. reflexivity. Qed.
  (* Fp4Config / Fp6Config (2 over 3) / Fp12Config: multiplication by the tower generator *)
  Lemma gen_fp4_mul_fp2_by_nonresidue_eq mul_nr_below fe :
    gen_fp4_mul_fp2_by_nonresidue F mul_nr_below fe = mul_nr_swap mul_nr_below fe.
  Proof. tuples. reflexivity. Qed.
  Lemma gen_fp6_2over3_mul_fp3_by_nonresidue_eq mul_nr_below fe :
    gen_fp6_2over3_mul_fp3_by_nonresidue F mul_nr_below fe = mul_nr_rot mul_nr_below fe.
  Proof. tuples. reflexivity. Qed.
  Lemma gen_fp12_mul_fp6_by_nonresidue_eq mul_nr_below fe :
    gen_fp12_mul_fp6_by_nonresidue F mul_nr_below fe = mul_nr_rot mul_nr_below fe.
  Proof. tuples. reflexivity. Qed.

  (* so the generated group law with the generated default mul_by_a is the model *)
  Hypothesis Rth : ring_theory (f0 F) (f1 F) (fadd F) (fmul F) (fsub F) (fneg F) eq.
  Lemma gen_sw_double_default_eq a P :
    gen_sw_double_in_place F a (gen_sw_mul_by_a F a) P = sw_double F a P.
  Proof. apply (gen_sw_double_eq F a Rth). intros e. reflexivity. Qed.
End HookSpecs.
