(* Gen -- the definitions that lib/xlate_field.py generates from the CURRENT Rust source
   (Gen/GenField.v) are equal, for all arguments, to the hand-written model functions the
   C02 / C03 theorems are about; hence those theorems hold of what the code says now.

   Robustness: every `gen_X_eq` lemma is stated under the [ring_theory] premise the C02/C03
   theorems need anyway and proved by [gen_solve]: try conversion; otherwise unfold both
   sides, make the arguments of opaque calls (hooks, finv, feqb, sub-functions) syntactically
   equal where they are ring-equal, split the `if`s -- identically on both sides -- and close
   every component with [ring].  So a refactoring of /repo that changes an expression only up
   to a ring identity (a*b -> b*a, x.double() -> x + x, reassociation, another addition
   chain) keeps the lemma; a change of a formula's value or of the branch structure does not. *)
From V Require Import Base.Field Gen.GenField.
From V Require Import C03.SWModel C03.TEModel C03.SWProofs C03.TEProofs C03.FieldHyp.
From V Require Import C02.Quad C02.Cubic C02.Towers C02.QuadProofs C02.CubicProofs C02.TowerProofs C02.CycProofs.
Require Import Coq.setoid_ring.Ring Coq.setoid_ring.Field Lia.

(* ---------------------------------------------------------------- tactics *)
Ltac tuples :=
  repeat match goal with
         | x : (_ * _)%type |- _ => destruct x
         | x : option _ |- _ => destruct x
         end.

Ltac gen_leaf :=
  lazymatch goal with
  | |- (_, _) = (_, _) => apply f_equal2; gen_leaf
  | |- Some _ = Some _ => apply f_equal; gen_leaf
  | |- GRet _ = GRet _ => apply f_equal; gen_leaf
  | |- _ => first [reflexivity | timeout 20 ring]
  end.

(* heads that [ring] understands (or plain constructors): their arguments need no alignment *)
Ltac head_of t := lazymatch t with ?g _ => head_of g | _ => t end.
Ltac opaque_head f :=
  let h := head_of f in
  lazymatch h with
  | @fadd => fail | @fsub => fail | @fmul => fail | @fneg => fail | @f0 => fail | @f1 => fail
  | @pair => fail | @Some => fail | @GRet => fail | @fst => fail | @snd => fail
  | andb => fail | orb => fail | negb => fail
  | _ => idtac
  end.

(* [gen_arg]: as gen_leaf, with a short bound: used on the arguments of opaque calls *)
Ltac gen_arg :=
  lazymatch goal with
  | |- (_, _) = (_, _) => apply f_equal2; gen_arg
  | |- Some _ = Some _ => apply f_equal; gen_arg
  | |- _ => first [reflexivity | timeout 5 ring]
  end.

Ltac unify1 :=
  match goal with
  | |- ?L = ?R =>
      match L with context [?f ?x1 ?x2 ?x3] =>
        opaque_head f;
        match R with context [f ?y1 ?y2 ?y3] =>
          tryif (constr_eq x1 y1; constr_eq x2 y2; constr_eq x3 y3) then fail else
          (replace (f y1 y2 y3) with (f x1 x2 x3) by (apply f_equal3; gen_arg))
        end end
  | |- ?L = ?R =>
      match L with context [?f ?x1 ?x2] =>
        opaque_head f;
        match R with context [f ?y1 ?y2] =>
          tryif (constr_eq x1 y1; constr_eq x2 y2) then fail else
          (replace (f y1 y2) with (f x1 x2) by (apply f_equal2; gen_arg))
        end end
  | |- ?L = ?R =>
      match L with context [?f ?x] =>
        opaque_head f;
        match R with context [f ?y] =>
          tryif constr_eq x y then fail else
          (replace (f y) with (f x) by (apply f_equal; gen_arg))
        end end
  end.
Ltac unify_calls := repeat unify1.
(* the same for a given binary operation (the abstract Fp6 dictionary of the Fp12 models) *)
Ltac unify_bin f :=
  repeat match goal with
  | |- ?L = ?R =>
      match L with context [f ?x1 ?x2] =>
        match R with context [f ?y1 ?y2] =>
          tryif (constr_eq x1 y1; constr_eq x2 y2) then fail else
          (replace (f y1 y2) with (f x1 x2) by (apply f_equal2; gen_arg))
        end end
  end.

(* non-lockstep case analysis: pick any `if` on either side, go down to the atomic test under
   negb / && / || (so `if a != b {X} else {Y}` and `if a == b {Y} else {X}` split on the same
   test), destruct it -- it is replaced everywhere, on both sides -- and simplify the boolean
   connectives; repeated until no `if` is left (<= 2^#tests leaves) *)
Ltac atom_cond c :=
  lazymatch c with
  | negb ?a => atom_cond a
  | andb ?a _ => atom_cond a
  | orb ?a _ => atom_cond a
  | (if ?a then _ else _) => atom_cond a
  | _ => c
  end.
Ltac split_ifs :=
  repeat match goal with
         | |- context [if ?c then _ else _] =>
             let a := atom_cond c in destruct a eqn:?; cbn [negb andb orb]
         end.

Ltac gen_norm :=
  cbv beta iota zeta;
  unfold fsqr, fdbl, fis0, SWModel.sq, SWModel.dbl, Towers.dbl, sop2;
  cbn [fst snd c0 c1 c2].
(* everything is bounded: on a changed formula the goal is false and must fail fast *)
Ltac gen_solve := timeout 60 (gen_norm; unify_calls; split_ifs; cbv beta iota; gen_leaf).

Lemma nat_deg2 n : Nat.eqb (2 * n) 2 = Nat.eqb n 1.
Proof. destruct (Nat.eqb_spec (2 * n) 2), (Nat.eqb_spec n 1); try reflexivity; timeout 20 lia. Qed.

(* the Rust struct Affine { x, y, infinity } of a model point (None = infinity, x = y = 0) *)
Definition sw_aff_repr {T : Type} (F : Fops T) (A : option (T * T)) : T * T * bool :=
  match A with None => (f0 F, f0 F, true) | Some (x, y) => (x, y, false) end.
Definition cubic_inv_as_gen {T : Type} (r : cubic_inv_result (T:=T)) : gen_result (option (T * T * T)) :=
  match r with CubicInvNone => GRet None | CubicInvPanic => GPanic | CubicInvSome x => GRet (Some x) end.
Definition te_opt_as_gen {T : Type} (r : option (T * T)) : gen_result (T * T) :=
  match r with Some A => GRet A | None => GPanic end.

(* ====================== A/E. short Weierstrass (Jacobian) ====================== *)

Section SWSpecs.
  Context {T : Type} (F : Fops T) (a b : T).
  Hypothesis Rth : ring_theory (f0 F) (f1 F) (fadd F) (fmul F) (fsub F) (fneg F) eq.
  Add Ring GenSWRing : Rth.
  (* P::mul_by_a / P::add_b: any implementation that agrees with the trait's default body *)
  Variable mba : T -> T.
  Hypothesis mba_spec : forall e, mba e = sw_mul_by_a F a e.
  Variable addb : T -> T.
  Hypothesis addb_spec : forall e, addb e = sw_add_b F b e.

  Lemma gen_mul_0_r e : fmul F e (f0 F) = f0 F.
  Proof. timeout 20 ring. Qed.
  Lemma gen_sw_is_zero_eq P : gen_sw_is_zero F P = sw_is_zero F P.
  Proof using Rth. tuples; try reflexivity; unfold gen_sw_is_zero, sw_is_zero; gen_solve. Qed.
  Lemma gen_sw_zero_eq : gen_sw_zero F = sw_zero F.
  Proof using Rth. try reflexivity; unfold gen_sw_zero, sw_zero; gen_solve. Qed.

  (* the code tests `[1, 2].contains(extension_degree)`, the model `degree <= 2`: the two
     ways of computing D agree as ring expressions, so the degree-0 case needs [ring] *)
  Lemma gen_sw_double_eq P : gen_sw_double_in_place F a mba P = sw_double F a P.
  Proof using Rth mba_spec.
    destruct P as [[x y] z]. unfold gen_sw_double_in_place, sw_double, gen_sw_is_zero.
    cbv beta iota zeta. rewrite ?mba_spec.
    destruct (fdeg F) as [|[|[|n]]]; cbn [existsb Nat.eqb Nat.leb orb]; gen_solve.
  Qed.

  Lemma gen_sw_add_eq P Q : gen_sw_add_assign F a mba P Q = sw_add F a P Q.
  Proof using Rth mba_spec.
    tuples. unfold gen_sw_add_assign, sw_add, gen_sw_is_zero, gen_sw_zero, sw_zero. cbv beta iota zeta.
    rewrite ?gen_sw_double_eq. gen_solve.
  Qed.

  Lemma gen_sw_madd_eq P Q : gen_sw_add_assign_affine F a mba P Q = sw_madd F a P Q.
  Proof using Rth mba_spec.
    tuples; unfold gen_sw_add_assign_affine, sw_madd, gen_sw_is_zero, gen_sw_zero, sw_zero; cbv beta iota zeta;
      rewrite ?gen_sw_double_eq; gen_solve.
  Qed.

  Lemma gen_sw_eq_eq P Q : gen_sw_eq F P Q = sw_eqb F P Q.
  Proof using Rth. tuples; try reflexivity; unfold gen_sw_eq, sw_eqb, gen_sw_is_zero; gen_solve. Qed.
  Lemma gen_sw_neg_eq P : gen_sw_neg F P = sw_neg F P.
  Proof using Rth. tuples; try reflexivity; unfold gen_sw_neg, sw_neg; gen_solve. Qed.
  Lemma gen_sw_from_affine_eq A : gen_sw_from_affine F A = sw_of_affine F A.
  Proof using Rth. tuples; try reflexivity; unfold gen_sw_from_affine, sw_of_affine, gen_sw_zero, sw_zero; gen_solve. Qed.
  (* From<Projective> for Affine: never panics (the unwrap is guarded by the identity test) *)
  Lemma gen_sw_into_affine_eq P : gen_sw_into_affine F P = GRet (sw_aff_repr F (sw_to_affine F P)).
  Proof using Rth.
    tuples. unfold gen_sw_into_affine, sw_to_affine, gen_sw_is_zero, gen_sw_aff_identity, gen_sw_aff_new_unchecked.
    timeout 60 (gen_norm; unify_calls; split_ifs; cbn [sw_aff_repr]; gen_leaf).
  Qed.
  Lemma gen_sw_aff_is_on_curve_eq A :
    gen_sw_aff_is_on_curve F a mba addb (sw_aff_repr F A) = sw_aff_on_curve F a b A.
  Proof using Rth mba_spec addb_spec.
    tuples; unfold gen_sw_aff_is_on_curve, sw_aff_on_curve, sw_aff_repr; cbv beta iota zeta;
      rewrite ?mba_spec, ?addb_spec; gen_solve.
  Qed.
  Lemma gen_sw_aff_neg_eq A : gen_sw_aff_neg F (sw_aff_repr F A) = sw_aff_repr F (sw_aff_neg F A).
  Proof using Rth. tuples; unfold gen_sw_aff_neg, sw_aff_neg, sw_aff_repr; gen_solve. Qed.
  Lemma gen_sw_aff_identity_eq : gen_sw_aff_identity F = sw_aff_repr F None.
  Proof. reflexivity. Qed.
  Lemma gen_sw_aff_new_unchecked_eq x y : gen_sw_aff_new_unchecked F x y = sw_aff_repr F (Some (x, y)).
  Proof. reflexivity. Qed.
End SWSpecs.

(* headline corollaries: the generated formulas compute the affine chord-and-tangent law
   and stay on the curve *)
Section SWCorollaries.
  Context {T : Type} (F : Fops T) (a b : T).
  Hypothesis G : good_field F.
  Variable mba : T -> T.
  Hypothesis mba_mul : forall e, mba e = fmul F e a.

  Let Rth := F_R (gf_th F G).
  Lemma mba_default : forall e, mba e = sw_mul_by_a F a e.
  Proof.
    intros e. rewrite mba_mul. unfold sw_mul_by_a.
    destruct (feqb F a (f0 F)) eqn:E; [|reflexivity].
    apply (gf_eqb F G) in E. rewrite E. apply (gen_mul_0_r F Rth).
  Qed.

  Theorem gen_sw_double_correct : forall P,
    sw_to_affine F (gen_sw_double_in_place F a mba P) = aff_add_sw F a (sw_to_affine F P) (sw_to_affine F P).
  Proof.
    intros P. rewrite (gen_sw_double_eq F a Rth mba mba_default).
    apply (sw_double_correct F a (gf_th F G) (gf_eqb F G) (gf_two F G)).
  Qed.
  Theorem gen_sw_add_correct : forall P Q, jac_on F a b P -> jac_on F a b Q ->
    sw_to_affine F (gen_sw_add_assign F a mba P Q) = aff_add_sw F a (sw_to_affine F P) (sw_to_affine F Q).
  Proof.
    intros P Q. rewrite (gen_sw_add_eq F a Rth mba mba_default).
    apply (sw_add_correct F a b (gf_th F G) (gf_eqb F G) (gf_two F G)).
  Qed.
  Theorem gen_sw_madd_correct : forall P Q, jac_on F a b P -> aff_on F a b Q ->
    sw_to_affine F (gen_sw_add_assign_affine F a mba P Q) = aff_add_sw F a (sw_to_affine F P) Q.
  Proof.
    intros P Q. rewrite (gen_sw_madd_eq F a Rth mba mba_default).
    apply (sw_madd_correct F a b (gf_th F G) (gf_eqb F G) (gf_two F G)).
  Qed.
  Theorem gen_sw_double_on_curve : forall P, jac_on F a b P -> jac_on F a b (gen_sw_double_in_place F a mba P).
  Proof.
    intros P. rewrite (gen_sw_double_eq F a Rth mba mba_default).
    apply (sw_double_on_curve F a b (gf_th F G) (gf_eqb F G) (gf_two F G)).
  Qed.
  Theorem gen_sw_add_on_curve : forall P Q, jac_on F a b P -> jac_on F a b Q ->
    jac_on F a b (gen_sw_add_assign F a mba P Q).
  Proof.
    intros P Q. rewrite (gen_sw_add_eq F a Rth mba mba_default).
    apply (sw_add_on_curve F a b (gf_th F G) (gf_eqb F G) (gf_two F G)).
  Qed.
  Theorem gen_sw_madd_on_curve : forall P Q, jac_on F a b P -> aff_on F a b Q ->
    jac_on F a b (gen_sw_add_assign_affine F a mba P Q).
  Proof.
    intros P Q. rewrite (gen_sw_madd_eq F a Rth mba mba_default).
    apply (sw_madd_on_curve F a b (gf_th F G) (gf_eqb F G) (gf_two F G)).
  Qed.
  (* equality, negation, conversion, curve equation *)
  Theorem gen_sw_eq_spec : forall P Q, gen_sw_eq F P Q = true <-> sw_to_affine F P = sw_to_affine F Q.
  Proof. intros P Q. rewrite (gen_sw_eq_eq F Rth). apply (sw_eqb_spec F (gf_th F G) (gf_eqb F G)). Qed.
  Theorem gen_sw_neg_correct : forall P, sw_to_affine F (gen_sw_neg F P) = aff_neg_sw F (sw_to_affine F P).
  Proof. intros P. rewrite (gen_sw_neg_eq F Rth). apply (sw_neg_correct F (gf_th F G) (gf_eqb F G)). Qed.
  Theorem gen_sw_into_affine_spec : forall x y z, gen_sw_into_affine F (x, y, z) =
    GRet (sw_aff_repr F (if feqb F z (f0 F) then None
                         else Some (fdiv F x (fmul F z z), fdiv F y (fmul F (fmul F z z) z)))).
  Proof.
    intros. rewrite (gen_sw_into_affine_eq F Rth), (sw_to_affine_gen F (gf_th F G) (gf_eqb F G)). reflexivity.
  Qed.
  Theorem gen_sw_roundtrip_affine : forall A, gen_sw_into_affine F (gen_sw_from_affine F A) = GRet (sw_aff_repr F A).
  Proof.
    intros A. rewrite (gen_sw_into_affine_eq F Rth), (gen_sw_from_affine_eq F Rth),
      (sw_roundtrip_affine F (gf_th F G) (gf_eqb F G)). reflexivity.
  Qed.
  Variable addb : T -> T.
  Hypothesis addb_add : forall e, addb e = fadd F e b.
  Lemma gen_add_0_r (R : ring_theory (f0 F) (f1 F) (fadd F) (fmul F) (fsub F) (fneg F) eq) e : e = fadd F e (f0 F).
  Proof. symmetry. rewrite (Radd_comm R). apply (Radd_0_l R). Qed.
  Lemma addb_default : forall e, addb e = sw_add_b F b e.
  Proof.
    intros e. rewrite addb_add. unfold sw_add_b.
    destruct (feqb F b (f0 F)) eqn:E; [|reflexivity].
    apply (gf_eqb F G) in E. rewrite E. symmetry. apply (gen_add_0_r Rth).
  Qed.
  Theorem gen_sw_aff_is_on_curve_spec : forall A,
    gen_sw_aff_is_on_curve F a mba addb (sw_aff_repr F A) = true <-> aff_on F a b A.
  Proof.
    intros A. rewrite (gen_sw_aff_is_on_curve_eq F a b Rth mba mba_default addb addb_default).
    apply (sw_aff_on_curve_spec F a b (gf_th F G) (gf_eqb F G)).
  Qed.
End SWCorollaries.

(* ====================== A/E. twisted Edwards (extended) ====================== *)

Section TESpecs.
  Context {T : Type} (F : Fops T) (a d : T).
  Hypothesis Rth : ring_theory (f0 F) (f1 F) (fadd F) (fmul F) (fsub F) (fneg F) eq.
  Add Ring GenTERing : Rth.
  Variable mba : T -> T.
  Hypothesis mba_spec : forall e, mba e = fmul F e a.

  Lemma gen_te_double_eq P : gen_te_double_in_place F mba P = te_double F a P.
  Proof using Rth mba_spec. tuples. unfold gen_te_double_in_place, te_double, te_mul_by_a. cbv beta iota zeta. rewrite ?mba_spec. gen_solve. Qed.
  Lemma gen_te_add_eq P Q : gen_te_add_assign F d mba P Q = te_add F a d P Q.
  Proof using Rth mba_spec. tuples. unfold gen_te_add_assign, te_add, te_mul_by_a. cbv beta iota zeta. rewrite ?mba_spec. gen_solve. Qed.
  Lemma gen_te_madd_eq P Q : gen_te_add_assign_affine F d mba P Q = te_madd F a d P Q.
  Proof using Rth mba_spec. tuples. unfold gen_te_add_assign_affine, te_madd, te_mul_by_a. cbv beta iota zeta. rewrite ?mba_spec. gen_solve. Qed.

  Lemma gen_te_zero_eq : gen_te_zero F = te_zero F.
  Proof using Rth. try reflexivity; unfold gen_te_zero, te_zero; gen_solve. Qed.
  Lemma gen_te_is_zero_eq P : gen_te_is_zero F P = te_is_zero F P.
  Proof using Rth. tuples; try reflexivity; unfold gen_te_is_zero, te_is_zero; gen_solve. Qed.
  Lemma gen_te_eq_eq P Q : gen_te_eq F P Q = te_eqb F P Q.
  Proof using Rth. tuples; try reflexivity; unfold gen_te_eq, te_eqb, gen_te_is_zero, te_is_zero; gen_solve. Qed.
  Lemma gen_te_neg_eq P : gen_te_neg F P = te_neg F P.
  Proof using Rth. tuples; try reflexivity; unfold gen_te_neg, te_neg; gen_solve. Qed.
  Lemma gen_te_from_affine_eq A : gen_te_from_affine F A = te_of_affine F A.
  Proof using Rth. tuples; try reflexivity; unfold gen_te_from_affine, te_of_affine; gen_solve. Qed.
  Lemma gen_te_aff_zero_eq : gen_te_aff_zero F = te_aff_zero F.
  Proof using Rth. try reflexivity; unfold gen_te_aff_zero, te_aff_zero; gen_solve. Qed.
  Lemma gen_te_aff_is_zero_eq A : gen_te_aff_is_zero F A = te_aff_is_zero F A.
  Proof using Rth. tuples; try reflexivity; unfold gen_te_aff_is_zero, te_aff_is_zero; gen_solve. Qed.
  Lemma gen_te_aff_is_on_curve_eq A : gen_te_aff_is_on_curve F d mba A = te_aff_on_curve F a d A.
  Proof using Rth mba_spec.
    tuples. unfold gen_te_aff_is_on_curve, te_aff_on_curve, te_mul_by_a. cbv beta iota zeta. rewrite ?mba_spec. gen_solve.
  Qed.
  Lemma gen_te_aff_neg_eq A : gen_te_aff_neg F A = te_aff_neg F A.
  Proof using Rth. tuples; try reflexivity; unfold gen_te_aff_neg, te_aff_neg; gen_solve. Qed.

  Hypothesis G : good_field F.
  (* From<Projective> for Affine: GPanic exactly where the model says the Rust code panics.
     The code tests Z == 1 before the unwrap, the model Z == 0 first; they agree because 1 <> 0. *)
  Lemma gen_te_into_affine_eq P : gen_te_into_affine F P = te_opt_as_gen (te_to_affine_opt F P).
  Proof using Rth G.
    destruct P as [[[x y] t] z].
    unfold gen_te_into_affine, te_to_affine_opt, te_to_affine, gen_te_aff_zero, te_aff_zero, te_opt_as_gen.
    rewrite gen_te_is_zero_eq. timeout 60 (gen_norm; unify_calls).
    destruct (te_is_zero F (x, y, t, z)); [gen_leaf|].
    destruct (feqb F z (f1 F)) eqn:E1; destruct (feqb F z (f0 F)) eqn:E0; cbv beta iota; try gen_leaf.
    exfalso. apply (gf_eqb F G) in E1. apply (gf_eqb F G) in E0.
    apply (F_1_neq_0 (gf_th F G)). rewrite <- E1. exact E0.
  Qed.

  Theorem gen_te_add_correct : forall P Q, te_valid F P -> te_valid F Q ->
    te_dens_ok F d (te_to_affine F P) (te_to_affine F Q) ->
    te_valid F (gen_te_add_assign F d mba P Q) /\
    te_to_affine F (gen_te_add_assign F d mba P Q) = aff_add_te F a d (te_to_affine F P) (te_to_affine F Q).
  Proof. intros P Q. rewrite gen_te_add_eq. apply (te_add_correct F a d (gf_th F G) (gf_eqb F G)). Qed.
  Theorem gen_te_madd_correct : forall P Q, te_valid F P -> te_dens_ok F d (te_to_affine F P) Q ->
    te_valid F (gen_te_add_assign_affine F d mba P Q) /\
    te_to_affine F (gen_te_add_assign_affine F d mba P Q) = aff_add_te F a d (te_to_affine F P) Q.
  Proof. intros P Q. rewrite gen_te_madd_eq. apply (te_madd_correct F a d (gf_th F G) (gf_eqb F G)). Qed.
  Theorem gen_te_double_correct : forall P, te_valid F P -> te_aff_on F a d (te_to_affine F P) ->
    te_dens_ok F d (te_to_affine F P) (te_to_affine F P) ->
    te_valid F (gen_te_double_in_place F mba P) /\
    te_to_affine F (gen_te_double_in_place F mba P) = aff_add_te F a d (te_to_affine F P) (te_to_affine F P).
  Proof. intros P. rewrite gen_te_double_eq. apply (te_double_correct F a d (gf_th F G) (gf_eqb F G)). Qed.
  Theorem gen_te_eq_spec : forall P Q, te_valid F P -> te_valid F Q ->
    (gen_te_eq F P Q = true <-> te_to_affine F P = te_to_affine F Q).
  Proof. intros P Q. rewrite gen_te_eq_eq. apply (te_eqb_spec F (gf_th F G) (gf_eqb F G)). Qed.
  Theorem gen_te_neg_correct : forall P, te_valid F P ->
    te_valid F (gen_te_neg F P) /\ te_to_affine F (gen_te_neg F P) = aff_neg_te F (te_to_affine F P).
  Proof. intros P. rewrite gen_te_neg_eq. apply (te_neg_correct F (gf_th F G) (gf_eqb F G)). Qed.
  Theorem gen_te_is_zero_spec : forall P, te_valid F P ->
    (gen_te_is_zero F P = true <-> te_to_affine F P = te_aff_zero F).
  Proof. intros P. rewrite gen_te_is_zero_eq. apply (te_is_zero_spec F (gf_th F G) (gf_eqb F G)). Qed.
  Theorem gen_te_aff_is_on_curve_spec : forall A, gen_te_aff_is_on_curve F d mba A = true <-> te_aff_on F a d A.
  Proof. intros A. rewrite gen_te_aff_is_on_curve_eq. apply (te_aff_on_curve_spec F a d (gf_th F G) (gf_eqb F G)). Qed.
  Theorem gen_te_into_affine_spec : forall x y t z, z <> f0 F ->
    gen_te_into_affine F (x, y, t, z) = GRet (te_to_affine F (x, y, t, z)).
  Proof.
    intros x y t z Hz. rewrite gen_te_into_affine_eq. unfold te_to_affine_opt.
    destruct (te_is_zero F (x, y, t, z)) eqn:E.
    - unfold te_to_affine. rewrite E. reflexivity.
    - destruct (feqb F z (f0 F)) eqn:E0; [apply (gf_eqb F G) in E0; contradiction | reflexivity].
  Qed.
End TESpecs.

(* ====================== B/F. quadratic extension ====================== *)

Section QuadSpecs.
  Context {T : Type} (B : Fops T) (N : nrops T).
  Hypothesis Rth : ring_theory (f0 B) (f1 B) (fadd B) (fmul B) (fsub B) (fneg B) eq.
  Add Ring GenQuadRing : Rth.

  Lemma gen_quad_is_zero_eq a : gen_quad_is_zero B a = quad_is_zero B a.
  Proof using Rth. tuples; try reflexivity; unfold gen_quad_is_zero, quad_is_zero; gen_solve. Qed.
  Lemma gen_quad_square_eq a :
    gen_quad_square_in_place B (nr_const N) (nr_p1_add N) (nr_sub N) a = quad_square B N a.
  Proof using Rth.
    tuples; try reflexivity;
      unfold gen_quad_square_in_place, quad_square, quad_nr_is_minus_one, quad_square_complex, quad_square_general;
      gen_solve.
  Qed.
  Lemma gen_quad_inverse_eq a : gen_quad_inverse B (nr_sub N) a = quad_inverse B N a.
  Proof using Rth.
    tuples; try reflexivity; unfold gen_quad_inverse, quad_inverse, gen_quad_is_zero, quad_is_zero; gen_solve.
  Qed.
  (* sum_of_products starts from zero: 0 + a*c + b*d versus the model's a*c + b*d *)
  Lemma gen_quad_mul_eq a b : gen_quad_mul_assign B (nr_mul N) (nr_mul_add N) a b = quad_mul B N a b.
  Proof using Rth.
    tuples. unfold gen_quad_mul_assign, quad_mul, quad_is_deg2, quad_mul_sop, quad_mul_karatsuba.
    rewrite ?nat_deg2. gen_solve.
  Qed.
  Lemma gen_quad_conjugate_eq a : gen_quad_conjugate_in_place B a = quad_conjugate B a.
  Proof using Rth. tuples; try reflexivity; unfold gen_quad_conjugate_in_place, quad_conjugate; gen_solve. Qed.
  Lemma gen_quad_norm_eq a : gen_quad_norm B (nr_sub N) a = quad_norm B N a.
  Proof using Rth. tuples; try reflexivity; unfold gen_quad_norm, quad_norm; gen_solve. Qed.
  Lemma gen_quad_mul_by_basefield_eq a e : gen_quad_mul_assign_by_basefield B a e = quad_mul_by_basefield B a e.
  Proof using Rth. tuples; try reflexivity; unfold gen_quad_mul_assign_by_basefield, quad_mul_by_basefield; gen_solve. Qed.
  Lemma gen_quad_double_eq a : gen_quad_double_in_place B a = qadd B a a.
  Proof using Rth. tuples; try reflexivity; unfold gen_quad_double_in_place, qadd; gen_solve. Qed.
  Lemma gen_quad_neg_eq a : gen_quad_neg_in_place B a = qneg B a.
  Proof using Rth. tuples; try reflexivity; unfold gen_quad_neg_in_place, qneg; gen_solve. Qed.
  Lemma gen_quad_add_eq a b : gen_quad_add_assign B a b = qadd B a b.
  Proof using Rth. tuples; try reflexivity; unfold gen_quad_add_assign, qadd; gen_solve. Qed.
  Lemma gen_quad_sub_eq a b : gen_quad_sub_assign B a b = qsub B a b.
  Proof using Rth. tuples; try reflexivity; unfold gen_quad_sub_assign, qsub; gen_solve. Qed.
  Lemma gen_quad_frobenius_eq frobB coef a :
    gen_quad_frobenius_map_in_place B frobB coef a = quad_frobenius frobB coef a.
  Proof using Rth. tuples; try reflexivity; unfold gen_quad_frobenius_map_in_place, quad_frobenius; gen_solve. Qed.

  (* corollaries: schoolbook arithmetic mod X^2 - nr *)
  Hypothesis Nok : nrops_ok B N.
  Theorem gen_quad_mul_spec a b :
    gen_quad_mul_assign B (nr_mul N) (nr_mul_add N) a b = qmul B (nr_const N) a b.
  Proof. rewrite gen_quad_mul_eq. apply (quad_mul_spec B Rth N Nok). Qed.
  Theorem gen_quad_square_spec a : (forall x y, feqb B x y = true -> x = y) ->
    gen_quad_square_in_place B (nr_const N) (nr_p1_add N) (nr_sub N) a = qmul B (nr_const N) a a.
  Proof. intros E. rewrite gen_quad_square_eq. apply (quad_square_spec B Rth N Nok E). Qed.
  Theorem gen_quad_inverse_spec a r :
    gen_quad_inverse B (nr_sub N) a = Some r ->
    fmul B (qnorm B (nr_const N) a) (finv B (qnorm B (nr_const N) a)) = f1 B ->
    qmul B (nr_const N) a r = (f1 B, f0 B).
  Proof. rewrite gen_quad_inverse_eq. apply (quad_inverse_spec B Rth N Nok). Qed.
  Theorem gen_quad_inverse_none a :
    gen_quad_inverse B (nr_sub N) a = None ->
    quad_is_zero B a = true \/ fis0 B (qnorm B (nr_const N) a) = true.
  Proof. rewrite gen_quad_inverse_eq. apply (quad_inverse_none B N Nok). Qed.
  Theorem gen_quad_norm_spec a : gen_quad_norm B (nr_sub N) a = qnorm B (nr_const N) a.
  Proof. rewrite gen_quad_norm_eq. apply (quad_norm_spec B Rth N Nok). Qed.
  Theorem gen_quad_mul_by_basefield_spec a e :
    gen_quad_mul_assign_by_basefield B a e = qmul B (nr_const N) a (e, f0 B).
  Proof. rewrite gen_quad_mul_by_basefield_eq. apply (quad_mul_by_basefield_spec B Rth N). Qed.
End QuadSpecs.

(* ====================== B/F. cubic extension ====================== *)

Section CubicSpecs.
  Context {T : Type} (B : Fops T) (mul_nr : T -> T).
  Hypothesis Rth : ring_theory (f0 B) (f1 B) (fadd B) (fmul B) (fsub B) (fneg B) eq.
  Add Ring GenCubicRing : Rth.

  Lemma gen_cubic_is_zero_eq s : gen_cubic_is_zero B s = cubic_is_zero B s.
  Proof using Rth. tuples; try reflexivity; unfold gen_cubic_is_zero, cubic_is_zero; gen_solve. Qed.
  Lemma gen_cubic_mul_eq s o : gen_cubic_mul_assign B mul_nr s o = cubic_mul B mul_nr s o.
  Proof using Rth. tuples; try reflexivity; unfold gen_cubic_mul_assign, cubic_mul; gen_solve. Qed.
  Lemma gen_cubic_square_eq s : gen_cubic_square_in_place B mul_nr s = cubic_square B mul_nr s.
  Proof using Rth. tuples; try reflexivity; unfold gen_cubic_square_in_place, cubic_square; gen_solve. Qed.
  Lemma gen_cubic_inverse_eq s : gen_cubic_inverse B mul_nr s = cubic_inv_as_gen (cubic_inverse B mul_nr s).
  Proof using Rth.
    tuples. unfold gen_cubic_inverse, cubic_inverse, cubic_inv_as_gen, gen_cubic_is_zero, cubic_is_zero.
    gen_solve.
  Qed.
  Lemma gen_cubic_mul_by_basefield_eq s e : gen_cubic_mul_assign_by_base_field B s e = cubic_mul_by_basefield B s e.
  Proof using Rth. tuples; try reflexivity; unfold gen_cubic_mul_assign_by_base_field, cubic_mul_by_basefield; gen_solve. Qed.
  Lemma gen_cubic_double_eq s : gen_cubic_double_in_place B s = cadd B s s.
  Proof using Rth. tuples; try reflexivity; unfold gen_cubic_double_in_place, cadd; gen_solve. Qed.
  Lemma gen_cubic_neg_eq s : gen_cubic_neg_in_place B s = cneg B s.
  Proof using Rth. tuples; try reflexivity; unfold gen_cubic_neg_in_place, cneg; gen_solve. Qed.
  Lemma gen_cubic_add_eq s o : gen_cubic_add_assign B s o = cadd B s o.
  Proof using Rth. tuples; try reflexivity; unfold gen_cubic_add_assign, cadd; gen_solve. Qed.
  Lemma gen_cubic_sub_eq s o : gen_cubic_sub_assign B s o = csub B s o.
  Proof using Rth. tuples; try reflexivity; unfold gen_cubic_sub_assign, csub; gen_solve. Qed.
  Lemma gen_cubic_frobenius_eq frobB coef1 coef2 s :
    gen_cubic_frobenius_map_in_place B frobB coef1 coef2 s = cubic_frobenius frobB coef1 coef2 s.
  Proof using Rth. tuples; try reflexivity; unfold gen_cubic_frobenius_map_in_place, cubic_frobenius; gen_solve. Qed.

  Variable nr : T.
  Hypothesis mul_nr_spec : forall y, mul_nr y = fmul B nr y.
  Theorem gen_cubic_mul_spec s o : gen_cubic_mul_assign B mul_nr s o = cmul B nr s o.
  Proof. rewrite gen_cubic_mul_eq. apply (cubic_mul_spec B Rth nr mul_nr mul_nr_spec). Qed.
  Theorem gen_cubic_square_spec s : gen_cubic_square_in_place B mul_nr s = cmul B nr s s.
  Proof. rewrite gen_cubic_square_eq. apply (cubic_square_spec B Rth nr mul_nr mul_nr_spec). Qed.
  Theorem gen_cubic_inverse_spec s r :
    gen_cubic_inverse B mul_nr s = GRet (Some r) ->
    fmul B (cnorm B nr s) (finv B (cnorm B nr s)) = f1 B -> cmul B nr s r = (f1 B, f0 B, f0 B).
  Proof.
    rewrite gen_cubic_inverse_eq. intros H. apply (cubic_inverse_spec B Rth nr mul_nr mul_nr_spec).
    destruct (cubic_inverse B mul_nr s); cbn in H; try discriminate H. inversion H. reflexivity.
  Qed.
  (* no None and no unwrap panic on non-zero elements of non-zero norm *)
  Theorem gen_cubic_inverse_total s :
    cubic_is_zero B s = false -> fis0 B (cnorm B nr s) = false ->
    exists r, gen_cubic_inverse B mul_nr s = GRet (Some r).
  Proof.
    intros H0 Hn. destruct (cubic_inverse_total B Rth nr mul_nr mul_nr_spec s H0 Hn) as [r Hr].
    exists r. rewrite gen_cubic_inverse_eq, Hr. reflexivity.
  Qed.
  Theorem gen_cubic_mul_by_basefield_spec s e :
    gen_cubic_mul_assign_by_base_field B s e = cmul B nr s (e, f0 B, f0 B).
  Proof. rewrite gen_cubic_mul_by_basefield_eq. apply (cubic_mul_by_basefield_spec B Rth nr). Qed.
End CubicSpecs.

(* ====================== C. sparse multiplications, cyclotomic squaring ====================== *)

Section TowerSpecs.
  Context {T : Type} (B : Fops T).
  Hypothesis Rth : ring_theory (f0 B) (f1 B) (fadd B) (fmul B) (fsub B) (fneg B) eq.
  Add Ring GenTowerRing : Rth.

  Lemma gen_fp6b_mul_by_034_eq nr3 s x0 x3 x4 :
    gen_fp6_2over3_mul_by_034 B nr3 s x0 x3 x4 = fp6b_mul_by_034 B nr3 s x0 x3 x4.
  Proof using Rth. tuples; try reflexivity; unfold gen_fp6_2over3_mul_by_034, fp6b_mul_by_034; gen_solve. Qed.
  Lemma gen_fp6b_mul_by_014_eq nr3 s x0 x1 x4 :
    gen_fp6_2over3_mul_by_014 B nr3 s x0 x1 x4 = fp6b_mul_by_014 B nr3 s x0 x1 x4.
  Proof using Rth. tuples; try reflexivity; unfold gen_fp6_2over3_mul_by_014, fp6b_mul_by_014; gen_solve. Qed.
  Lemma gen_fp6a_mul_by_1_eq mul_nr s e1 :
    gen_fp6_3over2_mul_by_1 B mul_nr s e1 = fp6a_mul_by_1 B mul_nr s e1.
  Proof using Rth. tuples; try reflexivity; unfold gen_fp6_3over2_mul_by_1, fp6a_mul_by_1; gen_solve. Qed.
  Lemma gen_fp6a_mul_by_01_eq mul_nr s e0 e1 :
    gen_fp6_3over2_mul_by_01 B mul_nr s e0 e1 = fp6a_mul_by_01 B mul_nr s e0 e1.
  Proof using Rth. tuples; try reflexivity; unfold gen_fp6_3over2_mul_by_01, fp6a_mul_by_01; gen_solve. Qed.
  (* Fp12 level: the Fp6 operations are those of an abstract dictionary D6, as in the model *)
  Ltac fp12_solve D6 :=
    gen_norm; rewrite ?gen_fp6a_mul_by_01_eq, ?gen_fp6a_mul_by_1_eq;
    timeout 60 (repeat (progress (unify_calls; unify_bin (fadd D6); unify_bin (fsub D6))));
    first [reflexivity | gen_leaf].
  Lemma gen_fp12_mul_by_034_eq mul_nr D6 mul_nr6 s e0 e3 e4 :
    gen_fp12_mul_by_034 B D6 mul_nr mul_nr6 s e0 e3 e4 = fp12_mul_by_034 B mul_nr D6 mul_nr6 s e0 e3 e4.
  Proof using Rth. tuples. unfold gen_fp12_mul_by_034, fp12_mul_by_034. fp12_solve D6. Qed.
  Lemma gen_fp12_mul_by_014_eq mul_nr D6 mul_nr6 s e0 e1 e4 :
    gen_fp12_mul_by_014 B D6 mul_nr mul_nr6 s e0 e1 e4 = fp12_mul_by_014 B mul_nr D6 mul_nr6 s e0 e1 e4.
  Proof using Rth. tuples. unfold gen_fp12_mul_by_014, fp12_mul_by_014. fp12_solve D6. Qed.
  (* Granger-Scott path (characteristic^2 = 1 mod 6), and the fall-back to square_in_place *)
  Lemma gen_fp12_cyc_square_eq fp2_nr sq s :
    gen_fp12_cyclotomic_square_in_place B fp2_nr true sq s = gs_square B fp2_nr s.
  Proof using Rth.
    tuples; try reflexivity; unfold gen_fp12_cyclotomic_square_in_place, gs_square, gs_fp4_sq; gen_solve.
  Qed.
  Lemma gen_fp12_cyc_square_fallback fp2_nr sq s :
    gen_fp12_cyclotomic_square_in_place B fp2_nr false sq s = sq s.
  Proof using Rth. tuples; try reflexivity; unfold gen_fp12_cyclotomic_square_in_place; gen_solve. Qed.

  Theorem gen_fp6b_mul_by_034_spec nr3 s x0 x3 x4 :
    gen_fp6_2over3_mul_by_034 B nr3 s x0 x3 x4 =
    qmul (CubicOps B nr3) (f0 B, f1 B, f0 B) s (x0, f0 B, f0 B, (x3, x4, f0 B)).
  Proof. rewrite gen_fp6b_mul_by_034_eq. apply (fp6b_mul_by_034_spec B Rth). Qed.
  Theorem gen_fp6b_mul_by_014_spec nr3 s x0 x1 x4 :
    gen_fp6_2over3_mul_by_014 B nr3 s x0 x1 x4 =
    qmul (CubicOps B nr3) (f0 B, f1 B, f0 B) s (x0, x1, f0 B, (f0 B, x4, f0 B)).
  Proof. rewrite gen_fp6b_mul_by_014_eq. apply (fp6b_mul_by_014_spec B Rth). Qed.

  Variable xi : T.
  Variable mul_nr : T -> T.
  Hypothesis mul_nr_spec : forall y, mul_nr y = fmul B xi y.
  Theorem gen_fp6a_mul_by_1_spec s e1 :
    gen_fp6_3over2_mul_by_1 B mul_nr s e1 = cmul B xi s (f0 B, e1, f0 B).
  Proof. rewrite gen_fp6a_mul_by_1_eq. apply (fp6a_mul_by_1_spec B Rth xi mul_nr mul_nr_spec). Qed.
  Theorem gen_fp6a_mul_by_01_spec s e0 e1 :
    gen_fp6_3over2_mul_by_01 B mul_nr s e0 e1 = cmul B xi s (e0, e1, f0 B).
  Proof. rewrite gen_fp6a_mul_by_01_eq. apply (fp6a_mul_by_01_spec B Rth xi mul_nr mul_nr_spec). Qed.

  Variable D6 : Fops (T * T * T).
  Hypothesis D6_add : fadd D6 = cadd B.
  Hypothesis D6_sub : fsub D6 = csub B.
  Variable mul_nr6 : T * T * T -> T * T * T.
  Hypothesis mul_nr6_spec : forall y, mul_nr6 y = cmul B xi (f0 B, f1 B, f0 B) y.
  Theorem gen_fp12_mul_by_034_spec s e0 e3 e4 :
    gen_fp12_mul_by_034 B D6 mul_nr mul_nr6 s e0 e3 e4 =
    qmul (CubicOps B xi) (f0 B, f1 B, f0 B) s (e0, f0 B, f0 B, (e3, e4, f0 B)).
  Proof.
    rewrite gen_fp12_mul_by_034_eq.
    apply (fp12_mul_by_034_spec B Rth xi mul_nr mul_nr_spec D6 D6_add D6_sub mul_nr6 mul_nr6_spec).
  Qed.
  Theorem gen_fp12_mul_by_014_spec s e0 e1 e4 :
    gen_fp12_mul_by_014 B D6 mul_nr mul_nr6 s e0 e1 e4 =
    qmul (CubicOps B xi) (f0 B, f1 B, f0 B) s (e0, e1, f0 B, (f0 B, e4, f0 B)).
  Proof.
    rewrite gen_fp12_mul_by_014_eq.
    apply (fp12_mul_by_014_spec B Rth xi mul_nr mul_nr_spec D6 D6_add D6_sub mul_nr6 mul_nr6_spec).
  Qed.
  (* PARTIAL like C02_gs_square_partial: the coordinate relations of the cyclotomic subgroup
     are a premise *)
  Theorem gen_fp12_cyc_square_partial sq x : gs_cyclotomic B xi x ->
    gen_fp12_cyclotomic_square_in_place B mul_nr true sq x = qmul (CubicOps B xi) (f0 B, f1 B, f0 B) x x.
  Proof.
    intros H. rewrite gen_fp12_cyc_square_eq. apply (gs_square_partial B Rth xi mul_nr mul_nr_spec x H).
  Qed.
End TowerSpecs.

(* ====================== D. default bodies of the configuration hooks ====================== *)

Section HookSpecs.
  Context {T : Type} (F : Fops T).
  Hypothesis Rth : ring_theory (f0 F) (f1 F) (fadd F) (fmul F) (fsub F) (fneg F) eq.
  Add Ring GenHookRing : Rth.

  Lemma gen_sw_mul_by_a_eq a e : gen_sw_mul_by_a F a e = sw_mul_by_a F a e.
  Proof using Rth. try reflexivity; unfold gen_sw_mul_by_a, sw_mul_by_a; gen_solve. Qed.
  Lemma gen_sw_add_b_eq b e : gen_sw_add_b F b e = sw_add_b F b e.
  Proof using Rth. try reflexivity; unfold gen_sw_add_b, sw_add_b; gen_solve. Qed.
  Lemma gen_te_mul_by_a_eq a e : gen_te_mul_by_a F a e = te_mul_by_a F a e.
  Proof using Rth. try reflexivity; unfold gen_te_mul_by_a, te_mul_by_a; gen_solve. Qed.
  (* QuadExtConfig defaults = the record [default_nrops] of C02/Quad.v *)
  Lemma gen_quad_default_mul_and_add_eq nr mul_nr y x :
    gen_quad_default_mul_and_add F mul_nr y x = nr_mul_add (default_nrops F nr mul_nr) y x.
  Proof using Rth. try reflexivity; unfold gen_quad_default_mul_and_add, default_nrops; cbn [nr_mul_add]; gen_solve. Qed.
  Lemma gen_quad_default_plus_one_and_add_eq nr mul_nr y x :
    gen_quad_default_plus_one_and_add F (nr_mul_add (default_nrops F nr mul_nr)) y x
    = nr_p1_add (default_nrops F nr mul_nr) y x.
  Proof using Rth.
    try reflexivity; unfold gen_quad_default_plus_one_and_add, default_nrops; cbn [nr_mul_add nr_p1_add]; gen_solve.
  Qed.
  Lemma gen_quad_default_sub_and_mul_eq nr mul_nr y x :
    gen_quad_default_sub_and_mul F mul_nr y x = nr_sub (default_nrops F nr mul_nr) y x.
  Proof using Rth. try reflexivity; unfold gen_quad_default_sub_and_mul, default_nrops; cbn [nr_sub]; gen_solve. Qed.
  (* Fp4Config / Fp6Config (2 over 3) / Fp12Config: multiplication by the tower generator *)
  Lemma gen_fp4_mul_fp2_by_nonresidue_eq mul_nr_below fe :
    gen_fp4_mul_fp2_by_nonresidue F mul_nr_below fe = mul_nr_swap mul_nr_below fe.
  Proof using Rth. tuples; try reflexivity; unfold gen_fp4_mul_fp2_by_nonresidue, mul_nr_swap; gen_solve. Qed.
  Lemma gen_fp6_2over3_mul_fp3_by_nonresidue_eq mul_nr_below fe :
    gen_fp6_2over3_mul_fp3_by_nonresidue F mul_nr_below fe = mul_nr_rot mul_nr_below fe.
  Proof using Rth. tuples; try reflexivity; unfold gen_fp6_2over3_mul_fp3_by_nonresidue, mul_nr_rot; gen_solve. Qed.
  Lemma gen_fp12_mul_fp6_by_nonresidue_eq mul_nr_below fe :
    gen_fp12_mul_fp6_by_nonresidue F mul_nr_below fe = mul_nr_rot mul_nr_below fe.
  Proof using Rth. tuples; try reflexivity; unfold gen_fp12_mul_fp6_by_nonresidue, mul_nr_rot; gen_solve. Qed.

  (* so the generated group law with the generated default mul_by_a is the model *)
  Lemma gen_sw_double_default_eq a P :
    gen_sw_double_in_place F a (gen_sw_mul_by_a F a) P = sw_double F a P.
  Proof. apply (gen_sw_double_eq F a Rth). intros e. apply gen_sw_mul_by_a_eq. Qed.
End HookSpecs.
