(* GenDerive -- lemmas about the definitions that lib/xlate_limb.py (translate_derive) re-generates from the
   macro expansion of #[derive(MontConfig)] on every check run (coq/GenLimb/GenDerive.v; one definition per
   (field of lib/expand_crate, generated function); the modulus limbs are LITERALS of the generated code).

   Part 1 (all N): the derive-flavour bridge `mul_assign_w (nocarry_macro m) (has_spare_bit m) m = mul_assign true m`
   (the generated no-carry row ends in the wrapping u64 sum `carry1 + carry2`; MontProofs shows it never wraps).
   Part 2 (per field): facts about the literal modulus (value = the #[modulus = ".."] attribute, odd, spare bit and
   no-carry eligibility under the MODEL's rules), then `gen_<field>_<f>_eq`: for ALL limb values the generated
   definition equals the C01 derive-flavour model at that modulus (same method as GenLimbSpecs.v: cbv of the model's
   list recursion, then destruct the head scrutinee in program order; leaf functions stay folded).
   Part 3: `gen_<field>_<f>_spec`: composition with the all-N theorems of C01 -- statements about the code the macro
   generates for this modulus, with the modulus as a decimal literal. *)
From V Require Import Base.Word C15.GenArith C15.LeafSpecs C15.BigIntModel C15.BigIntProofs C15.ShiftProofs
  C15.MulProofs C01.InvModel C01.MontModel C01.MontProofs C01.SquareProofs C01.SopProofs
  GenLimb.GenLimb GenLimb.GenLimbSpecs GenLimb.GenDerive.

(* ================= all-N bridges (derive flavour) ================= *)

Theorem mul_assign_w_derived_eq m a b : wf m -> wf a -> wf b ->
  length a = length m -> length b = length m -> val m mod 2 = 1 -> val a < val m ->
  mul_assign_w (nocarry_macro m) (has_spare_bit m) m a b = mul_assign true m a b.
Proof.
  intros Hm Ha Hb Hla Hlb Hodd Halt. unfold mul_assign_w, mul_assign.
  pose proof (odd_nonempty m Hodd) as Hne.
  destruct (nocarry_macro m) eqn:E.
  - unfold mul_nocarry, nc_rows_w, nc_rows. f_equal.
    pose proof (nocarry_macro_spare m Hm Hne E) as Hsp.
    destruct m as [|m0 m']; [congruence|].
    apply nc_fold_w_eq; auto.
    + apply inv_of_kills; auto.
    + apply spare_bit_bound; auto.
    + apply wf_zeros.
    + apply length_zeros.
    + rewrite val_zeros. pose proof (val_bound a Ha). lia.
  - unfold mul_cios, final_sub. destruct (mul_without_cond_subtract m a b). reflexivity.
Qed.

Lemma wf_lit1 x : 0 <= x < W64 -> u64 x. Proof. exact (fun H => H). Qed.
(* the walk does not depend on the VALUES of the modulus limbs once the flags are decided: abstract the literals *)
(* limbs 0 and 1 stay literal: they also occur as initial carries / shift amounts, and they are small terms *)
Ltac gen_list l :=
  lazymatch l with
  | ?x :: ?r => lazymatch x with 0 => idtac | 1 => idtac | _ => generalize x; intro end; gen_list r
  | _ => idtac
  end.
Ltac gen_lits M := let l := eval cbv [M] in M in gen_list l.
Ltac lit_wf := repeat (apply Forall_cons; [apply wf_lit1; cbv [W64]; lia|]); apply Forall_nil.


(* ================= R62: N = 1, 62 bits, no-carry true, spare bit true ================= *)
Lemma gen_r62_modulus_val  :
  val gen_r62_modulus = gen_r62_modulus_attr /\ length gen_r62_modulus = 1%nat /\ wf gen_r62_modulus /\ gen_r62_modulus_attr mod 2 = 1 /\
  gen_r62_modulus_attr = 2849647038907036733.
Proof. split; [vm_compute; reflexivity|]. split; [reflexivity|]. split; [cbv [gen_r62_modulus]; lit_wf |]. split; [vm_compute; reflexivity | reflexivity]. Qed.
Lemma gen_r62_modulus_wf : wf gen_r62_modulus. Proof. exact (proj1 (proj2 (proj2 gen_r62_modulus_val))). Qed.
Lemma gen_r62_modulus_odd : val gen_r62_modulus mod 2 = 1. Proof. rewrite (proj1 gen_r62_modulus_val). exact (proj1 (proj2 (proj2 (proj2 gen_r62_modulus_val)))). Qed.
Lemma gen_r62_modulus_ne : gen_r62_modulus <> []. Proof. discriminate. Qed.
Lemma gen_r62_flags  :
  has_spare_bit gen_r62_modulus = true /\ nocarry_macro gen_r62_modulus = true.
Proof. split; vm_compute; reflexivity. Qed.
Lemma gen_r62_spare : has_spare_bit gen_r62_modulus = true. Proof. exact (proj1 gen_r62_flags). Qed.
Lemma gen_r62_nc : nocarry_macro gen_r62_modulus = true. Proof. exact (proj2 gen_r62_flags). Qed.
Lemma gen_r62_add_with_carry_eq a0 b0 :
  gen_r62_add_with_carry a0 b0 = add_with_carry [a0] [b0].
Proof. cbv [gen_r62_add_with_carry add_with_carry add_chain]. crush. Qed.
Lemma gen_r62_sub_with_borrow_eq a0 b0 :
  gen_r62_sub_with_borrow a0 b0 = sub_with_borrow [a0] [b0].
Proof. cbv [gen_r62_sub_with_borrow sub_with_borrow sub_chain]. crush. Qed.
Lemma gen_r62_subtract_modulus_eq a0 :
  gen_r62_subtract_modulus a0 = subtract_modulus gen_r62_modulus [a0].
Proof. cbv [gen_r62_subtract_modulus gen_r62_modulus subtract_modulus subtract_modulus_with_carry is_geq_modulus sub_with_borrow sub_chain add_with_carry add_chain fst snd negb orb andb]. gen_lits gen_r62_modulus. crush. Qed.
Lemma gen_r62_subtract_modulus_with_carry_eq a0 carry :
  gen_r62_subtract_modulus_with_carry a0 carry = subtract_modulus_with_carry gen_r62_modulus [a0] carry.
Proof. cbv [gen_r62_subtract_modulus_with_carry gen_r62_modulus subtract_modulus subtract_modulus_with_carry is_geq_modulus sub_with_borrow sub_chain add_with_carry add_chain fst snd negb orb andb]. gen_lits gen_r62_modulus. crush. Qed.
Lemma gen_r62_add_assign_eq a0 b0 :
  gen_r62_add_assign a0 b0 = add_assign gen_r62_modulus [a0] [b0].
Proof. cbv [add_assign final_sub]. rewrite gen_r62_spare. cbv [gen_r62_add_assign gen_r62_modulus subtract_modulus subtract_modulus_with_carry is_geq_modulus sub_with_borrow sub_chain add_with_carry add_chain fst snd negb orb andb]. gen_lits gen_r62_modulus. crush. Qed.
Lemma gen_r62_sub_assign_eq a0 b0 :
  gen_r62_sub_assign a0 b0 = sub_assign gen_r62_modulus [a0] [b0].
Proof. cbv [gen_r62_sub_assign gen_r62_modulus sub_assign sub_with_borrow sub_chain add_with_carry add_chain fst snd negb orb andb]. gen_lits gen_r62_modulus. crush. Qed.
Lemma gen_r62_double_in_place_eq a0 :
  gen_r62_double_in_place a0 = double_in_place gen_r62_modulus [a0].
Proof. cbv [double_in_place final_sub]. rewrite gen_r62_spare. cbv [gen_r62_double_in_place gen_r62_modulus mul2 mul2_chain subtract_modulus subtract_modulus_with_carry is_geq_modulus sub_with_borrow sub_chain add_with_carry add_chain fst snd negb orb andb]. gen_lits gen_r62_modulus. crush. Qed.
Lemma gen_r62_neg_in_place_eq a0 :
  gen_r62_neg_in_place a0 = neg_in_place gen_r62_modulus [a0].
Proof. cbv [gen_r62_neg_in_place gen_r62_modulus neg_in_place is_zero forallb sub_with_borrow sub_chain add_with_carry add_chain fst snd negb orb andb]. gen_lits gen_r62_modulus. crush. Qed.
Lemma gen_r62_mul_assign_eq a0 b0 :
  gen_r62_mul_assign (inv_of gen_r62_modulus) a0 b0 = mul_assign_w (nocarry_macro gen_r62_modulus) (has_spare_bit gen_r62_modulus) gen_r62_modulus [a0] [b0].
Proof. rewrite gen_r62_spare, gen_r62_nc. cbv [gen_r62_mul_assign gen_r62_modulus mul_assign_w nc_rows_w nc_row_w nc_inner fold_left mul_without_cond_subtract red_rows mul_rows mac_row set_first skipn firstn length zeros repeat app Nat.add subtract_modulus subtract_modulus_with_carry is_geq_modulus sub_with_borrow sub_chain add_with_carry add_chain fst snd negb orb andb]. gen_lits gen_r62_modulus. crush. Qed.
Lemma gen_r62_square_in_place_eq a0 :
  gen_r62_square_in_place (inv_of gen_r62_modulus) a0 = mul_assign_w (nocarry_macro gen_r62_modulus) (has_spare_bit gen_r62_modulus) gen_r62_modulus [a0] [a0].
Proof. rewrite gen_r62_spare, gen_r62_nc. cbv [gen_r62_square_in_place gen_r62_modulus mul_assign_w nc_rows_w nc_row_w nc_inner fold_left mul_without_cond_subtract red_rows mul_rows mac_row set_first skipn firstn length zeros repeat app Nat.add subtract_modulus subtract_modulus_with_carry is_geq_modulus sub_with_borrow sub_chain add_with_carry add_chain fst snd negb orb andb]. gen_lits gen_r62_modulus. crush. Qed.
Lemma gen_r62_add_assign_spec a0 b0 :
  wf [a0] -> val [a0] < gen_r62_modulus_attr -> wf [b0] -> val [b0] < gen_r62_modulus_attr ->
  let r := gen_r62_add_assign a0 b0 in
  wf r /\ length r = 1%nat /\ val r < gen_r62_modulus_attr /\ val r = (val [a0] + val [b0]) mod gen_r62_modulus_attr.
Proof. intros Ha Hx Hb Hy. pose proof (proj1 gen_r62_modulus_val) as Hv. pose proof gen_r62_modulus_wf as Hm. pose proof gen_r62_modulus_odd as Ho. pose proof gen_r62_modulus_ne as Hne. rewrite gen_r62_add_assign_eq. rewrite <- Hv in *. exact (add_assign_spec gen_r62_modulus [a0] [b0] Hm Hne Ha Hb eq_refl eq_refl Hx Hy). Qed.
Lemma gen_r62_sub_assign_spec a0 b0 :
  wf [a0] -> val [a0] < gen_r62_modulus_attr -> wf [b0] -> val [b0] < gen_r62_modulus_attr ->
  let r := gen_r62_sub_assign a0 b0 in
  wf r /\ length r = 1%nat /\ val r < gen_r62_modulus_attr /\ val r = (val [a0] - val [b0]) mod gen_r62_modulus_attr.
Proof. intros Ha Hx Hb Hy. pose proof (proj1 gen_r62_modulus_val) as Hv. pose proof gen_r62_modulus_wf as Hm. pose proof gen_r62_modulus_odd as Ho. pose proof gen_r62_modulus_ne as Hne. rewrite gen_r62_sub_assign_eq. rewrite <- Hv in *. exact (sub_assign_spec gen_r62_modulus [a0] [b0] Hm Ha Hb eq_refl eq_refl Hx Hy). Qed.
Lemma gen_r62_double_in_place_spec a0 :
  wf [a0] -> val [a0] < gen_r62_modulus_attr ->
  let r := gen_r62_double_in_place a0 in
  wf r /\ length r = 1%nat /\ val r < gen_r62_modulus_attr /\ val r = (2 * val [a0]) mod gen_r62_modulus_attr.
Proof. intros Ha Hx. pose proof (proj1 gen_r62_modulus_val) as Hv. pose proof gen_r62_modulus_wf as Hm. pose proof gen_r62_modulus_odd as Ho. pose proof gen_r62_modulus_ne as Hne. rewrite gen_r62_double_in_place_eq. rewrite <- Hv in *. exact (double_in_place_spec gen_r62_modulus [a0] Hm Hne Ha eq_refl Hx). Qed.
Lemma gen_r62_neg_in_place_spec a0 :
  wf [a0] -> val [a0] < gen_r62_modulus_attr ->
  let r := gen_r62_neg_in_place a0 in
  wf r /\ length r = 1%nat /\ val r < gen_r62_modulus_attr /\ val r = (- val [a0]) mod gen_r62_modulus_attr.
Proof. intros Ha Hx. pose proof (proj1 gen_r62_modulus_val) as Hv. pose proof gen_r62_modulus_wf as Hm. pose proof gen_r62_modulus_odd as Ho. pose proof gen_r62_modulus_ne as Hne. rewrite gen_r62_neg_in_place_eq. rewrite <- Hv in *. exact (neg_in_place_spec gen_r62_modulus [a0] Hm Ha eq_refl Hx). Qed.
Lemma gen_r62_mul_assign_spec a0 b0 :
  wf [a0] -> val [a0] < gen_r62_modulus_attr -> wf [b0] -> val [b0] < gen_r62_modulus_attr ->
  let r := gen_r62_mul_assign (inv_of gen_r62_modulus) a0 b0 in
  wf r /\ length r = 1%nat /\ val r < gen_r62_modulus_attr /\ (val r * Wn 1) mod gen_r62_modulus_attr = (val [a0] * val [b0]) mod gen_r62_modulus_attr.
Proof. intros Ha Hx Hb Hy. pose proof (proj1 gen_r62_modulus_val) as Hv. pose proof gen_r62_modulus_wf as Hm. pose proof gen_r62_modulus_odd as Ho. pose proof gen_r62_modulus_ne as Hne. rewrite <- Hv in *. rewrite gen_r62_mul_assign_eq, mul_assign_w_derived_eq by auto. exact (mul_assign_spec true gen_r62_modulus [a0] [b0] Hm Ha Hb eq_refl eq_refl Ho Hx Hy). Qed.
Lemma gen_r62_square_in_place_spec a0 :
  wf [a0] -> val [a0] < gen_r62_modulus_attr ->
  let r := gen_r62_square_in_place (inv_of gen_r62_modulus) a0 in
  wf r /\ length r = 1%nat /\ val r < gen_r62_modulus_attr /\ (val r * Wn 1) mod gen_r62_modulus_attr = (val [a0] * val [a0]) mod gen_r62_modulus_attr.
Proof. intros Ha Hx. pose proof (proj1 gen_r62_modulus_val) as Hv. pose proof gen_r62_modulus_wf as Hm. pose proof gen_r62_modulus_odd as Ho. pose proof gen_r62_modulus_ne as Hne. rewrite <- Hv in *. rewrite gen_r62_square_in_place_eq, mul_assign_w_derived_eq by auto. exact (mul_assign_spec true gen_r62_modulus [a0] [a0] Hm Ha Ha eq_refl eq_refl Ho Hx Hx). Qed.
Lemma gen_r62_mul_assign_model a0 b0 :
  wf [a0] -> wf [b0] -> val [a0] < gen_r62_modulus_attr ->
  gen_r62_mul_assign (inv_of gen_r62_modulus) a0 b0 = mul_assign true gen_r62_modulus [a0] [b0].
Proof. intros Ha Hb Hx. pose proof (proj1 gen_r62_modulus_val) as Hv. pose proof gen_r62_modulus_wf as Hm. pose proof gen_r62_modulus_odd as Ho. pose proof gen_r62_modulus_ne as Hne. rewrite <- Hv in *. rewrite gen_r62_mul_assign_eq. apply mul_assign_w_derived_eq; auto. Qed.
Lemma gen_r62_square_in_place_model a0 :
  wf [a0] -> val [a0] < gen_r62_modulus_attr ->
  gen_r62_square_in_place (inv_of gen_r62_modulus) a0 = square_in_place true gen_r62_modulus [a0].
Proof. intros Ha Hx. pose proof (proj1 gen_r62_modulus_val) as Hv. pose proof gen_r62_modulus_wf as Hm. pose proof gen_r62_modulus_odd as Ho. pose proof gen_r62_modulus_ne as Hne. rewrite <- Hv in *. rewrite gen_r62_square_in_place_eq. cbv [square_in_place length Nat.eqb gen_r62_modulus]. apply mul_assign_w_derived_eq; auto. Qed.

(* ================= P64: N = 1, 64 bits, no-carry false, spare bit false ================= *)
Lemma gen_p64_modulus_val  :
  val gen_p64_modulus = gen_p64_modulus_attr /\ length gen_p64_modulus = 1%nat /\ wf gen_p64_modulus /\ gen_p64_modulus_attr mod 2 = 1 /\
  gen_p64_modulus_attr = 18446744073709551557.
Proof. split; [vm_compute; reflexivity|]. split; [reflexivity|]. split; [cbv [gen_p64_modulus]; lit_wf |]. split; [vm_compute; reflexivity | reflexivity]. Qed.
Lemma gen_p64_modulus_wf : wf gen_p64_modulus. Proof. exact (proj1 (proj2 (proj2 gen_p64_modulus_val))). Qed.
Lemma gen_p64_modulus_odd : val gen_p64_modulus mod 2 = 1. Proof. rewrite (proj1 gen_p64_modulus_val). exact (proj1 (proj2 (proj2 (proj2 gen_p64_modulus_val)))). Qed.
Lemma gen_p64_modulus_ne : gen_p64_modulus <> []. Proof. discriminate. Qed.
Lemma gen_p64_flags  :
  has_spare_bit gen_p64_modulus = false /\ nocarry_macro gen_p64_modulus = false.
Proof. split; vm_compute; reflexivity. Qed.
Lemma gen_p64_spare : has_spare_bit gen_p64_modulus = false. Proof. exact (proj1 gen_p64_flags). Qed.
Lemma gen_p64_nc : nocarry_macro gen_p64_modulus = false. Proof. exact (proj2 gen_p64_flags). Qed.
Lemma gen_p64_add_with_carry_eq a0 b0 :
  gen_p64_add_with_carry a0 b0 = add_with_carry [a0] [b0].
Proof. cbv [gen_p64_add_with_carry add_with_carry add_chain]. crush. Qed.
Lemma gen_p64_sub_with_borrow_eq a0 b0 :
  gen_p64_sub_with_borrow a0 b0 = sub_with_borrow [a0] [b0].
Proof. cbv [gen_p64_sub_with_borrow sub_with_borrow sub_chain]. crush. Qed.
Lemma gen_p64_subtract_modulus_eq a0 :
  gen_p64_subtract_modulus a0 = subtract_modulus gen_p64_modulus [a0].
Proof. cbv [gen_p64_subtract_modulus gen_p64_modulus subtract_modulus subtract_modulus_with_carry is_geq_modulus sub_with_borrow sub_chain add_with_carry add_chain fst snd negb orb andb]. gen_lits gen_p64_modulus. crush. Qed.
Lemma gen_p64_subtract_modulus_with_carry_eq a0 carry :
  gen_p64_subtract_modulus_with_carry a0 carry = subtract_modulus_with_carry gen_p64_modulus [a0] carry.
Proof. cbv [gen_p64_subtract_modulus_with_carry gen_p64_modulus subtract_modulus subtract_modulus_with_carry is_geq_modulus sub_with_borrow sub_chain add_with_carry add_chain fst snd negb orb andb]. gen_lits gen_p64_modulus. crush. Qed.
Lemma gen_p64_add_assign_eq a0 b0 :
  gen_p64_add_assign a0 b0 = add_assign gen_p64_modulus [a0] [b0].
Proof. cbv [add_assign final_sub]. rewrite gen_p64_spare. cbv [gen_p64_add_assign gen_p64_modulus subtract_modulus subtract_modulus_with_carry is_geq_modulus sub_with_borrow sub_chain add_with_carry add_chain fst snd negb orb andb]. gen_lits gen_p64_modulus. crush. Qed.
Lemma gen_p64_sub_assign_eq a0 b0 :
  gen_p64_sub_assign a0 b0 = sub_assign gen_p64_modulus [a0] [b0].
Proof. cbv [gen_p64_sub_assign gen_p64_modulus sub_assign sub_with_borrow sub_chain add_with_carry add_chain fst snd negb orb andb]. gen_lits gen_p64_modulus. crush. Qed.
Lemma gen_p64_double_in_place_eq a0 :
  gen_p64_double_in_place a0 = double_in_place gen_p64_modulus [a0].
Proof. cbv [double_in_place final_sub]. rewrite gen_p64_spare. cbv [gen_p64_double_in_place gen_p64_modulus mul2 mul2_chain subtract_modulus subtract_modulus_with_carry is_geq_modulus sub_with_borrow sub_chain add_with_carry add_chain fst snd negb orb andb]. gen_lits gen_p64_modulus. crush. Qed.
Lemma gen_p64_neg_in_place_eq a0 :
  gen_p64_neg_in_place a0 = neg_in_place gen_p64_modulus [a0].
Proof. cbv [gen_p64_neg_in_place gen_p64_modulus neg_in_place is_zero forallb sub_with_borrow sub_chain add_with_carry add_chain fst snd negb orb andb]. gen_lits gen_p64_modulus. crush. Qed.
Lemma gen_p64_mul_assign_eq a0 b0 :
  gen_p64_mul_assign (inv_of gen_p64_modulus) a0 b0 = mul_assign_w (nocarry_macro gen_p64_modulus) (has_spare_bit gen_p64_modulus) gen_p64_modulus [a0] [b0].
Proof. rewrite gen_p64_spare, gen_p64_nc. cbv [gen_p64_mul_assign gen_p64_modulus mul_assign_w nc_rows_w nc_row_w nc_inner fold_left mul_without_cond_subtract red_rows mul_rows mac_row set_first skipn firstn length zeros repeat app Nat.add subtract_modulus subtract_modulus_with_carry is_geq_modulus sub_with_borrow sub_chain add_with_carry add_chain fst snd negb orb andb]. gen_lits gen_p64_modulus. crush. Qed.
Lemma gen_p64_square_in_place_eq a0 :
  gen_p64_square_in_place (inv_of gen_p64_modulus) a0 = mul_assign_w (nocarry_macro gen_p64_modulus) (has_spare_bit gen_p64_modulus) gen_p64_modulus [a0] [a0].
Proof. rewrite gen_p64_spare, gen_p64_nc. cbv [gen_p64_square_in_place gen_p64_modulus mul_assign_w nc_rows_w nc_row_w nc_inner fold_left mul_without_cond_subtract red_rows mul_rows mac_row set_first skipn firstn length zeros repeat app Nat.add subtract_modulus subtract_modulus_with_carry is_geq_modulus sub_with_borrow sub_chain add_with_carry add_chain fst snd negb orb andb]. gen_lits gen_p64_modulus. crush. Qed.
Lemma gen_p64_add_assign_spec a0 b0 :
  wf [a0] -> val [a0] < gen_p64_modulus_attr -> wf [b0] -> val [b0] < gen_p64_modulus_attr ->
  let r := gen_p64_add_assign a0 b0 in
  wf r /\ length r = 1%nat /\ val r < gen_p64_modulus_attr /\ val r = (val [a0] + val [b0]) mod gen_p64_modulus_attr.
Proof. intros Ha Hx Hb Hy. pose proof (proj1 gen_p64_modulus_val) as Hv. pose proof gen_p64_modulus_wf as Hm. pose proof gen_p64_modulus_odd as Ho. pose proof gen_p64_modulus_ne as Hne. rewrite gen_p64_add_assign_eq. rewrite <- Hv in *. exact (add_assign_spec gen_p64_modulus [a0] [b0] Hm Hne Ha Hb eq_refl eq_refl Hx Hy). Qed.
Lemma gen_p64_sub_assign_spec a0 b0 :
  wf [a0] -> val [a0] < gen_p64_modulus_attr -> wf [b0] -> val [b0] < gen_p64_modulus_attr ->
  let r := gen_p64_sub_assign a0 b0 in
  wf r /\ length r = 1%nat /\ val r < gen_p64_modulus_attr /\ val r = (val [a0] - val [b0]) mod gen_p64_modulus_attr.
Proof. intros Ha Hx Hb Hy. pose proof (proj1 gen_p64_modulus_val) as Hv. pose proof gen_p64_modulus_wf as Hm. pose proof gen_p64_modulus_odd as Ho. pose proof gen_p64_modulus_ne as Hne. rewrite gen_p64_sub_assign_eq. rewrite <- Hv in *. exact (sub_assign_spec gen_p64_modulus [a0] [b0] Hm Ha Hb eq_refl eq_refl Hx Hy). Qed.
Lemma gen_p64_double_in_place_spec a0 :
  wf [a0] -> val [a0] < gen_p64_modulus_attr ->
  let r := gen_p64_double_in_place a0 in
  wf r /\ length r = 1%nat /\ val r < gen_p64_modulus_attr /\ val r = (2 * val [a0]) mod gen_p64_modulus_attr.
Proof. intros Ha Hx. pose proof (proj1 gen_p64_modulus_val) as Hv. pose proof gen_p64_modulus_wf as Hm. pose proof gen_p64_modulus_odd as Ho. pose proof gen_p64_modulus_ne as Hne. rewrite gen_p64_double_in_place_eq. rewrite <- Hv in *. exact (double_in_place_spec gen_p64_modulus [a0] Hm Hne Ha eq_refl Hx). Qed.
Lemma gen_p64_neg_in_place_spec a0 :
  wf [a0] -> val [a0] < gen_p64_modulus_attr ->
  let r := gen_p64_neg_in_place a0 in
  wf r /\ length r = 1%nat /\ val r < gen_p64_modulus_attr /\ val r = (- val [a0]) mod gen_p64_modulus_attr.
Proof. intros Ha Hx. pose proof (proj1 gen_p64_modulus_val) as Hv. pose proof gen_p64_modulus_wf as Hm. pose proof gen_p64_modulus_odd as Ho. pose proof gen_p64_modulus_ne as Hne. rewrite gen_p64_neg_in_place_eq. rewrite <- Hv in *. exact (neg_in_place_spec gen_p64_modulus [a0] Hm Ha eq_refl Hx). Qed.
Lemma gen_p64_mul_assign_spec a0 b0 :
  wf [a0] -> val [a0] < gen_p64_modulus_attr -> wf [b0] -> val [b0] < gen_p64_modulus_attr ->
  let r := gen_p64_mul_assign (inv_of gen_p64_modulus) a0 b0 in
  wf r /\ length r = 1%nat /\ val r < gen_p64_modulus_attr /\ (val r * Wn 1) mod gen_p64_modulus_attr = (val [a0] * val [b0]) mod gen_p64_modulus_attr.
Proof. intros Ha Hx Hb Hy. pose proof (proj1 gen_p64_modulus_val) as Hv. pose proof gen_p64_modulus_wf as Hm. pose proof gen_p64_modulus_odd as Ho. pose proof gen_p64_modulus_ne as Hne. rewrite <- Hv in *. rewrite gen_p64_mul_assign_eq, mul_assign_w_derived_eq by auto. exact (mul_assign_spec true gen_p64_modulus [a0] [b0] Hm Ha Hb eq_refl eq_refl Ho Hx Hy). Qed.
Lemma gen_p64_square_in_place_spec a0 :
  wf [a0] -> val [a0] < gen_p64_modulus_attr ->
  let r := gen_p64_square_in_place (inv_of gen_p64_modulus) a0 in
  wf r /\ length r = 1%nat /\ val r < gen_p64_modulus_attr /\ (val r * Wn 1) mod gen_p64_modulus_attr = (val [a0] * val [a0]) mod gen_p64_modulus_attr.
Proof. intros Ha Hx. pose proof (proj1 gen_p64_modulus_val) as Hv. pose proof gen_p64_modulus_wf as Hm. pose proof gen_p64_modulus_odd as Ho. pose proof gen_p64_modulus_ne as Hne. rewrite <- Hv in *. rewrite gen_p64_square_in_place_eq, mul_assign_w_derived_eq by auto. exact (mul_assign_spec true gen_p64_modulus [a0] [a0] Hm Ha Ha eq_refl eq_refl Ho Hx Hx). Qed.
Lemma gen_p64_mul_assign_model a0 b0 :
  wf [a0] -> wf [b0] -> val [a0] < gen_p64_modulus_attr ->
  gen_p64_mul_assign (inv_of gen_p64_modulus) a0 b0 = mul_assign true gen_p64_modulus [a0] [b0].
Proof. intros Ha Hb Hx. pose proof (proj1 gen_p64_modulus_val) as Hv. pose proof gen_p64_modulus_wf as Hm. pose proof gen_p64_modulus_odd as Ho. pose proof gen_p64_modulus_ne as Hne. rewrite <- Hv in *. rewrite gen_p64_mul_assign_eq. apply mul_assign_w_derived_eq; auto. Qed.
Lemma gen_p64_square_in_place_model a0 :
  wf [a0] -> val [a0] < gen_p64_modulus_attr ->
  gen_p64_square_in_place (inv_of gen_p64_modulus) a0 = square_in_place true gen_p64_modulus [a0].
Proof. intros Ha Hx. pose proof (proj1 gen_p64_modulus_val) as Hv. pose proof gen_p64_modulus_wf as Hm. pose proof gen_p64_modulus_odd as Ho. pose proof gen_p64_modulus_ne as Hne. rewrite <- Hv in *. rewrite gen_p64_square_in_place_eq. cbv [square_in_place length Nat.eqb gen_p64_modulus]. apply mul_assign_w_derived_eq; auto. Qed.

(* ================= R125: N = 2, 125 bits, no-carry true, spare bit true ================= *)
Lemma gen_r125_modulus_val  :
  val gen_r125_modulus = gen_r125_modulus_attr /\ length gen_r125_modulus = 2%nat /\ wf gen_r125_modulus /\ gen_r125_modulus_attr mod 2 = 1 /\
  gen_r125_modulus_attr = 27997046152645192579209348579381818623.
Proof. split; [vm_compute; reflexivity|]. split; [reflexivity|]. split; [cbv [gen_r125_modulus]; lit_wf |]. split; [vm_compute; reflexivity | reflexivity]. Qed.
Lemma gen_r125_modulus_wf : wf gen_r125_modulus. Proof. exact (proj1 (proj2 (proj2 gen_r125_modulus_val))). Qed.
Lemma gen_r125_modulus_odd : val gen_r125_modulus mod 2 = 1. Proof. rewrite (proj1 gen_r125_modulus_val). exact (proj1 (proj2 (proj2 (proj2 gen_r125_modulus_val)))). Qed.
Lemma gen_r125_modulus_ne : gen_r125_modulus <> []. Proof. discriminate. Qed.
Lemma gen_r125_flags  :
  has_spare_bit gen_r125_modulus = true /\ nocarry_macro gen_r125_modulus = true.
Proof. split; vm_compute; reflexivity. Qed.
Lemma gen_r125_spare : has_spare_bit gen_r125_modulus = true. Proof. exact (proj1 gen_r125_flags). Qed.
Lemma gen_r125_nc : nocarry_macro gen_r125_modulus = true. Proof. exact (proj2 gen_r125_flags). Qed.
Lemma gen_r125_add_with_carry_eq a0 a1 b0 b1 :
  gen_r125_add_with_carry a0 a1 b0 b1 = add_with_carry [a0; a1] [b0; b1].
Proof. cbv [gen_r125_add_with_carry add_with_carry add_chain]. crush. Qed.
Lemma gen_r125_sub_with_borrow_eq a0 a1 b0 b1 :
  gen_r125_sub_with_borrow a0 a1 b0 b1 = sub_with_borrow [a0; a1] [b0; b1].
Proof. cbv [gen_r125_sub_with_borrow sub_with_borrow sub_chain]. crush. Qed.
Lemma gen_r125_subtract_modulus_eq a0 a1 :
  gen_r125_subtract_modulus a0 a1 = subtract_modulus gen_r125_modulus [a0; a1].
Proof. cbv [gen_r125_subtract_modulus gen_r125_modulus subtract_modulus subtract_modulus_with_carry is_geq_modulus sub_with_borrow sub_chain add_with_carry add_chain fst snd negb orb andb]. gen_lits gen_r125_modulus. crush. Qed.
Lemma gen_r125_subtract_modulus_with_carry_eq a0 a1 carry :
  gen_r125_subtract_modulus_with_carry a0 a1 carry = subtract_modulus_with_carry gen_r125_modulus [a0; a1] carry.
Proof. cbv [gen_r125_subtract_modulus_with_carry gen_r125_modulus subtract_modulus subtract_modulus_with_carry is_geq_modulus sub_with_borrow sub_chain add_with_carry add_chain fst snd negb orb andb]. gen_lits gen_r125_modulus. crush. Qed.
Lemma gen_r125_add_assign_eq a0 a1 b0 b1 :
  gen_r125_add_assign a0 a1 b0 b1 = add_assign gen_r125_modulus [a0; a1] [b0; b1].
Proof. cbv [add_assign final_sub]. rewrite gen_r125_spare. cbv [gen_r125_add_assign gen_r125_modulus subtract_modulus subtract_modulus_with_carry is_geq_modulus sub_with_borrow sub_chain add_with_carry add_chain fst snd negb orb andb]. gen_lits gen_r125_modulus. crush. Qed.
Lemma gen_r125_sub_assign_eq a0 a1 b0 b1 :
  gen_r125_sub_assign a0 a1 b0 b1 = sub_assign gen_r125_modulus [a0; a1] [b0; b1].
Proof. cbv [gen_r125_sub_assign gen_r125_modulus sub_assign sub_with_borrow sub_chain add_with_carry add_chain fst snd negb orb andb]. gen_lits gen_r125_modulus. crush. Qed.
Lemma gen_r125_double_in_place_eq a0 a1 :
  gen_r125_double_in_place a0 a1 = double_in_place gen_r125_modulus [a0; a1].
Proof. cbv [double_in_place final_sub]. rewrite gen_r125_spare. cbv [gen_r125_double_in_place gen_r125_modulus mul2 mul2_chain subtract_modulus subtract_modulus_with_carry is_geq_modulus sub_with_borrow sub_chain add_with_carry add_chain fst snd negb orb andb]. gen_lits gen_r125_modulus. crush. Qed.
Lemma gen_r125_neg_in_place_eq a0 a1 :
  gen_r125_neg_in_place a0 a1 = neg_in_place gen_r125_modulus [a0; a1].
Proof. cbv [gen_r125_neg_in_place gen_r125_modulus neg_in_place is_zero forallb sub_with_borrow sub_chain add_with_carry add_chain fst snd negb orb andb]. gen_lits gen_r125_modulus. crush. Qed.
Lemma gen_r125_mul_assign_eq a0 a1 b0 b1 :
  gen_r125_mul_assign (inv_of gen_r125_modulus) a0 a1 b0 b1 = mul_assign_w (nocarry_macro gen_r125_modulus) (has_spare_bit gen_r125_modulus) gen_r125_modulus [a0; a1] [b0; b1].
Proof. rewrite gen_r125_spare, gen_r125_nc. cbv [gen_r125_mul_assign gen_r125_modulus mul_assign_w nc_rows_w nc_row_w nc_inner fold_left mul_without_cond_subtract red_rows mul_rows mac_row set_first skipn firstn length zeros repeat app Nat.add subtract_modulus subtract_modulus_with_carry is_geq_modulus sub_with_borrow sub_chain add_with_carry add_chain fst snd negb orb andb]. gen_lits gen_r125_modulus. crush. Qed.
Lemma gen_r125_square_in_place_eq a0 a1 :
  gen_r125_square_in_place (inv_of gen_r125_modulus) a0 a1 = square_full gen_r125_modulus [a0; a1].
Proof. cbv [square_full final_sub]. rewrite gen_r125_spare. cbv [gen_r125_square_in_place gen_r125_modulus sq_offdiag shl1_chain sq_diag sq_red_rows subtract_modulus subtract_modulus_with_carry is_geq_modulus mul_rows mac_row set_first skipn firstn length zeros repeat app Nat.add sub_with_borrow sub_chain add_with_carry add_chain fst snd negb orb andb]. gen_lits gen_r125_modulus. crush_sq. Qed.
Lemma gen_r125_add_assign_spec a0 a1 b0 b1 :
  wf [a0; a1] -> val [a0; a1] < gen_r125_modulus_attr -> wf [b0; b1] -> val [b0; b1] < gen_r125_modulus_attr ->
  let r := gen_r125_add_assign a0 a1 b0 b1 in
  wf r /\ length r = 2%nat /\ val r < gen_r125_modulus_attr /\ val r = (val [a0; a1] + val [b0; b1]) mod gen_r125_modulus_attr.
Proof. intros Ha Hx Hb Hy. pose proof (proj1 gen_r125_modulus_val) as Hv. pose proof gen_r125_modulus_wf as Hm. pose proof gen_r125_modulus_odd as Ho. pose proof gen_r125_modulus_ne as Hne. rewrite gen_r125_add_assign_eq. rewrite <- Hv in *. exact (add_assign_spec gen_r125_modulus [a0; a1] [b0; b1] Hm Hne Ha Hb eq_refl eq_refl Hx Hy). Qed.
Lemma gen_r125_sub_assign_spec a0 a1 b0 b1 :
  wf [a0; a1] -> val [a0; a1] < gen_r125_modulus_attr -> wf [b0; b1] -> val [b0; b1] < gen_r125_modulus_attr ->
  let r := gen_r125_sub_assign a0 a1 b0 b1 in
  wf r /\ length r = 2%nat /\ val r < gen_r125_modulus_attr /\ val r = (val [a0; a1] - val [b0; b1]) mod gen_r125_modulus_attr.
Proof. intros Ha Hx Hb Hy. pose proof (proj1 gen_r125_modulus_val) as Hv. pose proof gen_r125_modulus_wf as Hm. pose proof gen_r125_modulus_odd as Ho. pose proof gen_r125_modulus_ne as Hne. rewrite gen_r125_sub_assign_eq. rewrite <- Hv in *. exact (sub_assign_spec gen_r125_modulus [a0; a1] [b0; b1] Hm Ha Hb eq_refl eq_refl Hx Hy). Qed.
Lemma gen_r125_double_in_place_spec a0 a1 :
  wf [a0; a1] -> val [a0; a1] < gen_r125_modulus_attr ->
  let r := gen_r125_double_in_place a0 a1 in
  wf r /\ length r = 2%nat /\ val r < gen_r125_modulus_attr /\ val r = (2 * val [a0; a1]) mod gen_r125_modulus_attr.
Proof. intros Ha Hx. pose proof (proj1 gen_r125_modulus_val) as Hv. pose proof gen_r125_modulus_wf as Hm. pose proof gen_r125_modulus_odd as Ho. pose proof gen_r125_modulus_ne as Hne. rewrite gen_r125_double_in_place_eq. rewrite <- Hv in *. exact (double_in_place_spec gen_r125_modulus [a0; a1] Hm Hne Ha eq_refl Hx). Qed.
Lemma gen_r125_neg_in_place_spec a0 a1 :
  wf [a0; a1] -> val [a0; a1] < gen_r125_modulus_attr ->
  let r := gen_r125_neg_in_place a0 a1 in
  wf r /\ length r = 2%nat /\ val r < gen_r125_modulus_attr /\ val r = (- val [a0; a1]) mod gen_r125_modulus_attr.
Proof. intros Ha Hx. pose proof (proj1 gen_r125_modulus_val) as Hv. pose proof gen_r125_modulus_wf as Hm. pose proof gen_r125_modulus_odd as Ho. pose proof gen_r125_modulus_ne as Hne. rewrite gen_r125_neg_in_place_eq. rewrite <- Hv in *. exact (neg_in_place_spec gen_r125_modulus [a0; a1] Hm Ha eq_refl Hx). Qed.
Lemma gen_r125_mul_assign_spec a0 a1 b0 b1 :
  wf [a0; a1] -> val [a0; a1] < gen_r125_modulus_attr -> wf [b0; b1] -> val [b0; b1] < gen_r125_modulus_attr ->
  let r := gen_r125_mul_assign (inv_of gen_r125_modulus) a0 a1 b0 b1 in
  wf r /\ length r = 2%nat /\ val r < gen_r125_modulus_attr /\ (val r * Wn 2) mod gen_r125_modulus_attr = (val [a0; a1] * val [b0; b1]) mod gen_r125_modulus_attr.
Proof. intros Ha Hx Hb Hy. pose proof (proj1 gen_r125_modulus_val) as Hv. pose proof gen_r125_modulus_wf as Hm. pose proof gen_r125_modulus_odd as Ho. pose proof gen_r125_modulus_ne as Hne. rewrite <- Hv in *. rewrite gen_r125_mul_assign_eq, mul_assign_w_derived_eq by auto. exact (mul_assign_spec true gen_r125_modulus [a0; a1] [b0; b1] Hm Ha Hb eq_refl eq_refl Ho Hx Hy). Qed.
Lemma gen_r125_square_in_place_spec a0 a1 :
  wf [a0; a1] -> val [a0; a1] < gen_r125_modulus_attr ->
  let r := gen_r125_square_in_place (inv_of gen_r125_modulus) a0 a1 in
  wf r /\ length r = 2%nat /\ val r < gen_r125_modulus_attr /\ (val r * Wn 2) mod gen_r125_modulus_attr = (val [a0; a1] * val [a0; a1]) mod gen_r125_modulus_attr.
Proof. intros Ha Hx. pose proof (proj1 gen_r125_modulus_val) as Hv. pose proof gen_r125_modulus_wf as Hm. pose proof gen_r125_modulus_odd as Ho. pose proof gen_r125_modulus_ne as Hne. rewrite <- Hv in *. rewrite gen_r125_square_in_place_eq. exact (square_full_spec gen_r125_modulus [a0; a1] Hm Ha eq_refl Ho Hx). Qed.
Lemma gen_r125_mul_assign_model a0 a1 b0 b1 :
  wf [a0; a1] -> wf [b0; b1] -> val [a0; a1] < gen_r125_modulus_attr ->
  gen_r125_mul_assign (inv_of gen_r125_modulus) a0 a1 b0 b1 = mul_assign true gen_r125_modulus [a0; a1] [b0; b1].
Proof. intros Ha Hb Hx. pose proof (proj1 gen_r125_modulus_val) as Hv. pose proof gen_r125_modulus_wf as Hm. pose proof gen_r125_modulus_odd as Ho. pose proof gen_r125_modulus_ne as Hne. rewrite <- Hv in *. rewrite gen_r125_mul_assign_eq. apply mul_assign_w_derived_eq; auto. Qed.
Lemma gen_r125_square_in_place_model a0 a1 :
  wf [a0; a1] -> val [a0; a1] < gen_r125_modulus_attr ->
  gen_r125_square_in_place (inv_of gen_r125_modulus) a0 a1 = square_in_place true gen_r125_modulus [a0; a1].
Proof. intros Ha Hx. pose proof (proj1 gen_r125_modulus_val) as Hv. pose proof gen_r125_modulus_wf as Hm. pose proof gen_r125_modulus_odd as Ho. pose proof gen_r125_modulus_ne as Hne. rewrite <- Hv in *. rewrite gen_r125_square_in_place_eq. cbv [square_in_place length Nat.eqb gen_r125_modulus]. reflexivity. Qed.

(* ================= M127: N = 2, 127 bits, no-carry false, spare bit true ================= *)
Lemma gen_m127_modulus_val  :
  val gen_m127_modulus = gen_m127_modulus_attr /\ length gen_m127_modulus = 2%nat /\ wf gen_m127_modulus /\ gen_m127_modulus_attr mod 2 = 1 /\
  gen_m127_modulus_attr = 170141183460469231731687303715884105727.
Proof. split; [vm_compute; reflexivity|]. split; [reflexivity|]. split; [cbv [gen_m127_modulus]; lit_wf |]. split; [vm_compute; reflexivity | reflexivity]. Qed.
Lemma gen_m127_modulus_wf : wf gen_m127_modulus. Proof. exact (proj1 (proj2 (proj2 gen_m127_modulus_val))). Qed.
Lemma gen_m127_modulus_odd : val gen_m127_modulus mod 2 = 1. Proof. rewrite (proj1 gen_m127_modulus_val). exact (proj1 (proj2 (proj2 (proj2 gen_m127_modulus_val)))). Qed.
Lemma gen_m127_modulus_ne : gen_m127_modulus <> []. Proof. discriminate. Qed.
Lemma gen_m127_flags  :
  has_spare_bit gen_m127_modulus = true /\ nocarry_macro gen_m127_modulus = false.
Proof. split; vm_compute; reflexivity. Qed.
Lemma gen_m127_spare : has_spare_bit gen_m127_modulus = true. Proof. exact (proj1 gen_m127_flags). Qed.
Lemma gen_m127_nc : nocarry_macro gen_m127_modulus = false. Proof. exact (proj2 gen_m127_flags). Qed.
Lemma gen_m127_add_with_carry_eq a0 a1 b0 b1 :
  gen_m127_add_with_carry a0 a1 b0 b1 = add_with_carry [a0; a1] [b0; b1].
Proof. cbv [gen_m127_add_with_carry add_with_carry add_chain]. crush. Qed.
Lemma gen_m127_sub_with_borrow_eq a0 a1 b0 b1 :
  gen_m127_sub_with_borrow a0 a1 b0 b1 = sub_with_borrow [a0; a1] [b0; b1].
Proof. cbv [gen_m127_sub_with_borrow sub_with_borrow sub_chain]. crush. Qed.
Lemma gen_m127_subtract_modulus_eq a0 a1 :
  gen_m127_subtract_modulus a0 a1 = subtract_modulus gen_m127_modulus [a0; a1].
Proof. cbv [gen_m127_subtract_modulus gen_m127_modulus subtract_modulus subtract_modulus_with_carry is_geq_modulus sub_with_borrow sub_chain add_with_carry add_chain fst snd negb orb andb]. gen_lits gen_m127_modulus. crush. Qed.
Lemma gen_m127_subtract_modulus_with_carry_eq a0 a1 carry :
  gen_m127_subtract_modulus_with_carry a0 a1 carry = subtract_modulus_with_carry gen_m127_modulus [a0; a1] carry.
Proof. cbv [gen_m127_subtract_modulus_with_carry gen_m127_modulus subtract_modulus subtract_modulus_with_carry is_geq_modulus sub_with_borrow sub_chain add_with_carry add_chain fst snd negb orb andb]. gen_lits gen_m127_modulus. crush. Qed.
Lemma gen_m127_add_assign_eq a0 a1 b0 b1 :
  gen_m127_add_assign a0 a1 b0 b1 = add_assign gen_m127_modulus [a0; a1] [b0; b1].
Proof. cbv [add_assign final_sub]. rewrite gen_m127_spare. cbv [gen_m127_add_assign gen_m127_modulus subtract_modulus subtract_modulus_with_carry is_geq_modulus sub_with_borrow sub_chain add_with_carry add_chain fst snd negb orb andb]. gen_lits gen_m127_modulus. crush. Qed.
Lemma gen_m127_sub_assign_eq a0 a1 b0 b1 :
  gen_m127_sub_assign a0 a1 b0 b1 = sub_assign gen_m127_modulus [a0; a1] [b0; b1].
Proof. cbv [gen_m127_sub_assign gen_m127_modulus sub_assign sub_with_borrow sub_chain add_with_carry add_chain fst snd negb orb andb]. gen_lits gen_m127_modulus. crush. Qed.
Lemma gen_m127_double_in_place_eq a0 a1 :
  gen_m127_double_in_place a0 a1 = double_in_place gen_m127_modulus [a0; a1].
Proof. cbv [double_in_place final_sub]. rewrite gen_m127_spare. cbv [gen_m127_double_in_place gen_m127_modulus mul2 mul2_chain subtract_modulus subtract_modulus_with_carry is_geq_modulus sub_with_borrow sub_chain add_with_carry add_chain fst snd negb orb andb]. gen_lits gen_m127_modulus. crush. Qed.
Lemma gen_m127_neg_in_place_eq a0 a1 :
  gen_m127_neg_in_place a0 a1 = neg_in_place gen_m127_modulus [a0; a1].
Proof. cbv [gen_m127_neg_in_place gen_m127_modulus neg_in_place is_zero forallb sub_with_borrow sub_chain add_with_carry add_chain fst snd negb orb andb]. gen_lits gen_m127_modulus. crush. Qed.
Lemma gen_m127_mul_assign_eq a0 a1 b0 b1 :
  gen_m127_mul_assign (inv_of gen_m127_modulus) a0 a1 b0 b1 = mul_assign_w (nocarry_macro gen_m127_modulus) (has_spare_bit gen_m127_modulus) gen_m127_modulus [a0; a1] [b0; b1].
Proof. rewrite gen_m127_spare, gen_m127_nc. cbv [gen_m127_mul_assign gen_m127_modulus mul_assign_w nc_rows_w nc_row_w nc_inner fold_left mul_without_cond_subtract red_rows mul_rows mac_row set_first skipn firstn length zeros repeat app Nat.add subtract_modulus subtract_modulus_with_carry is_geq_modulus sub_with_borrow sub_chain add_with_carry add_chain fst snd negb orb andb]. gen_lits gen_m127_modulus. crush. Qed.
Lemma gen_m127_square_in_place_eq a0 a1 :
  gen_m127_square_in_place (inv_of gen_m127_modulus) a0 a1 = square_full gen_m127_modulus [a0; a1].
Proof. cbv [square_full final_sub]. rewrite gen_m127_spare. cbv [gen_m127_square_in_place gen_m127_modulus sq_offdiag shl1_chain sq_diag sq_red_rows subtract_modulus subtract_modulus_with_carry is_geq_modulus mul_rows mac_row set_first skipn firstn length zeros repeat app Nat.add sub_with_borrow sub_chain add_with_carry add_chain fst snd negb orb andb]. gen_lits gen_m127_modulus. crush_sq. Qed.
Lemma gen_m127_add_assign_spec a0 a1 b0 b1 :
  wf [a0; a1] -> val [a0; a1] < gen_m127_modulus_attr -> wf [b0; b1] -> val [b0; b1] < gen_m127_modulus_attr ->
  let r := gen_m127_add_assign a0 a1 b0 b1 in
  wf r /\ length r = 2%nat /\ val r < gen_m127_modulus_attr /\ val r = (val [a0; a1] + val [b0; b1]) mod gen_m127_modulus_attr.
Proof. intros Ha Hx Hb Hy. pose proof (proj1 gen_m127_modulus_val) as Hv. pose proof gen_m127_modulus_wf as Hm. pose proof gen_m127_modulus_odd as Ho. pose proof gen_m127_modulus_ne as Hne. rewrite gen_m127_add_assign_eq. rewrite <- Hv in *. exact (add_assign_spec gen_m127_modulus [a0; a1] [b0; b1] Hm Hne Ha Hb eq_refl eq_refl Hx Hy). Qed.
Lemma gen_m127_sub_assign_spec a0 a1 b0 b1 :
  wf [a0; a1] -> val [a0; a1] < gen_m127_modulus_attr -> wf [b0; b1] -> val [b0; b1] < gen_m127_modulus_attr ->
  let r := gen_m127_sub_assign a0 a1 b0 b1 in
  wf r /\ length r = 2%nat /\ val r < gen_m127_modulus_attr /\ val r = (val [a0; a1] - val [b0; b1]) mod gen_m127_modulus_attr.
Proof. intros Ha Hx Hb Hy. pose proof (proj1 gen_m127_modulus_val) as Hv. pose proof gen_m127_modulus_wf as Hm. pose proof gen_m127_modulus_odd as Ho. pose proof gen_m127_modulus_ne as Hne. rewrite gen_m127_sub_assign_eq. rewrite <- Hv in *. exact (sub_assign_spec gen_m127_modulus [a0; a1] [b0; b1] Hm Ha Hb eq_refl eq_refl Hx Hy). Qed.
Lemma gen_m127_double_in_place_spec a0 a1 :
  wf [a0; a1] -> val [a0; a1] < gen_m127_modulus_attr ->
  let r := gen_m127_double_in_place a0 a1 in
  wf r /\ length r = 2%nat /\ val r < gen_m127_modulus_attr /\ val r = (2 * val [a0; a1]) mod gen_m127_modulus_attr.
Proof. intros Ha Hx. pose proof (proj1 gen_m127_modulus_val) as Hv. pose proof gen_m127_modulus_wf as Hm. pose proof gen_m127_modulus_odd as Ho. pose proof gen_m127_modulus_ne as Hne. rewrite gen_m127_double_in_place_eq. rewrite <- Hv in *. exact (double_in_place_spec gen_m127_modulus [a0; a1] Hm Hne Ha eq_refl Hx). Qed.
Lemma gen_m127_neg_in_place_spec a0 a1 :
  wf [a0; a1] -> val [a0; a1] < gen_m127_modulus_attr ->
  let r := gen_m127_neg_in_place a0 a1 in
  wf r /\ length r = 2%nat /\ val r < gen_m127_modulus_attr /\ val r = (- val [a0; a1]) mod gen_m127_modulus_attr.
Proof. intros Ha Hx. pose proof (proj1 gen_m127_modulus_val) as Hv. pose proof gen_m127_modulus_wf as Hm. pose proof gen_m127_modulus_odd as Ho. pose proof gen_m127_modulus_ne as Hne. rewrite gen_m127_neg_in_place_eq. rewrite <- Hv in *. exact (neg_in_place_spec gen_m127_modulus [a0; a1] Hm Ha eq_refl Hx). Qed.
Lemma gen_m127_mul_assign_spec a0 a1 b0 b1 :
  wf [a0; a1] -> val [a0; a1] < gen_m127_modulus_attr -> wf [b0; b1] -> val [b0; b1] < gen_m127_modulus_attr ->
  let r := gen_m127_mul_assign (inv_of gen_m127_modulus) a0 a1 b0 b1 in
  wf r /\ length r = 2%nat /\ val r < gen_m127_modulus_attr /\ (val r * Wn 2) mod gen_m127_modulus_attr = (val [a0; a1] * val [b0; b1]) mod gen_m127_modulus_attr.
Proof. intros Ha Hx Hb Hy. pose proof (proj1 gen_m127_modulus_val) as Hv. pose proof gen_m127_modulus_wf as Hm. pose proof gen_m127_modulus_odd as Ho. pose proof gen_m127_modulus_ne as Hne. rewrite <- Hv in *. rewrite gen_m127_mul_assign_eq, mul_assign_w_derived_eq by auto. exact (mul_assign_spec true gen_m127_modulus [a0; a1] [b0; b1] Hm Ha Hb eq_refl eq_refl Ho Hx Hy). Qed.
Lemma gen_m127_square_in_place_spec a0 a1 :
  wf [a0; a1] -> val [a0; a1] < gen_m127_modulus_attr ->
  let r := gen_m127_square_in_place (inv_of gen_m127_modulus) a0 a1 in
  wf r /\ length r = 2%nat /\ val r < gen_m127_modulus_attr /\ (val r * Wn 2) mod gen_m127_modulus_attr = (val [a0; a1] * val [a0; a1]) mod gen_m127_modulus_attr.
Proof. intros Ha Hx. pose proof (proj1 gen_m127_modulus_val) as Hv. pose proof gen_m127_modulus_wf as Hm. pose proof gen_m127_modulus_odd as Ho. pose proof gen_m127_modulus_ne as Hne. rewrite <- Hv in *. rewrite gen_m127_square_in_place_eq. exact (square_full_spec gen_m127_modulus [a0; a1] Hm Ha eq_refl Ho Hx). Qed.
Lemma gen_m127_mul_assign_model a0 a1 b0 b1 :
  wf [a0; a1] -> wf [b0; b1] -> val [a0; a1] < gen_m127_modulus_attr ->
  gen_m127_mul_assign (inv_of gen_m127_modulus) a0 a1 b0 b1 = mul_assign true gen_m127_modulus [a0; a1] [b0; b1].
Proof. intros Ha Hb Hx. pose proof (proj1 gen_m127_modulus_val) as Hv. pose proof gen_m127_modulus_wf as Hm. pose proof gen_m127_modulus_odd as Ho. pose proof gen_m127_modulus_ne as Hne. rewrite <- Hv in *. rewrite gen_m127_mul_assign_eq. apply mul_assign_w_derived_eq; auto. Qed.
Lemma gen_m127_square_in_place_model a0 a1 :
  wf [a0; a1] -> val [a0; a1] < gen_m127_modulus_attr ->
  gen_m127_square_in_place (inv_of gen_m127_modulus) a0 a1 = square_in_place true gen_m127_modulus [a0; a1].
Proof. intros Ha Hx. pose proof (proj1 gen_m127_modulus_val) as Hv. pose proof gen_m127_modulus_wf as Hm. pose proof gen_m127_modulus_odd as Ho. pose proof gen_m127_modulus_ne as Hne. rewrite <- Hv in *. rewrite gen_m127_square_in_place_eq. cbv [square_in_place length Nat.eqb gen_m127_modulus]. reflexivity. Qed.

(* ================= P128: N = 2, 128 bits, no-carry false, spare bit false ================= *)
Lemma gen_p128_modulus_val  :
  val gen_p128_modulus = gen_p128_modulus_attr /\ length gen_p128_modulus = 2%nat /\ wf gen_p128_modulus /\ gen_p128_modulus_attr mod 2 = 1 /\
  gen_p128_modulus_attr = 340282366920938463463374607431768211297.
Proof. split; [vm_compute; reflexivity|]. split; [reflexivity|]. split; [cbv [gen_p128_modulus]; lit_wf |]. split; [vm_compute; reflexivity | reflexivity]. Qed.
Lemma gen_p128_modulus_wf : wf gen_p128_modulus. Proof. exact (proj1 (proj2 (proj2 gen_p128_modulus_val))). Qed.
Lemma gen_p128_modulus_odd : val gen_p128_modulus mod 2 = 1. Proof. rewrite (proj1 gen_p128_modulus_val). exact (proj1 (proj2 (proj2 (proj2 gen_p128_modulus_val)))). Qed.
Lemma gen_p128_modulus_ne : gen_p128_modulus <> []. Proof. discriminate. Qed.
Lemma gen_p128_flags  :
  has_spare_bit gen_p128_modulus = false /\ nocarry_macro gen_p128_modulus = false.
Proof. split; vm_compute; reflexivity. Qed.
Lemma gen_p128_spare : has_spare_bit gen_p128_modulus = false. Proof. exact (proj1 gen_p128_flags). Qed.
Lemma gen_p128_nc : nocarry_macro gen_p128_modulus = false. Proof. exact (proj2 gen_p128_flags). Qed.
Lemma gen_p128_add_with_carry_eq a0 a1 b0 b1 :
  gen_p128_add_with_carry a0 a1 b0 b1 = add_with_carry [a0; a1] [b0; b1].
Proof. cbv [gen_p128_add_with_carry add_with_carry add_chain]. crush. Qed.
Lemma gen_p128_sub_with_borrow_eq a0 a1 b0 b1 :
  gen_p128_sub_with_borrow a0 a1 b0 b1 = sub_with_borrow [a0; a1] [b0; b1].
Proof. cbv [gen_p128_sub_with_borrow sub_with_borrow sub_chain]. crush. Qed.
Lemma gen_p128_subtract_modulus_eq a0 a1 :
  gen_p128_subtract_modulus a0 a1 = subtract_modulus gen_p128_modulus [a0; a1].
Proof. cbv [gen_p128_subtract_modulus gen_p128_modulus subtract_modulus subtract_modulus_with_carry is_geq_modulus sub_with_borrow sub_chain add_with_carry add_chain fst snd negb orb andb]. gen_lits gen_p128_modulus. crush. Qed.
Lemma gen_p128_subtract_modulus_with_carry_eq a0 a1 carry :
  gen_p128_subtract_modulus_with_carry a0 a1 carry = subtract_modulus_with_carry gen_p128_modulus [a0; a1] carry.
Proof. cbv [gen_p128_subtract_modulus_with_carry gen_p128_modulus subtract_modulus subtract_modulus_with_carry is_geq_modulus sub_with_borrow sub_chain add_with_carry add_chain fst snd negb orb andb]. gen_lits gen_p128_modulus. crush. Qed.
Lemma gen_p128_add_assign_eq a0 a1 b0 b1 :
  gen_p128_add_assign a0 a1 b0 b1 = add_assign gen_p128_modulus [a0; a1] [b0; b1].
Proof. cbv [add_assign final_sub]. rewrite gen_p128_spare. cbv [gen_p128_add_assign gen_p128_modulus subtract_modulus subtract_modulus_with_carry is_geq_modulus sub_with_borrow sub_chain add_with_carry add_chain fst snd negb orb andb]. gen_lits gen_p128_modulus. crush. Qed.
Lemma gen_p128_sub_assign_eq a0 a1 b0 b1 :
  gen_p128_sub_assign a0 a1 b0 b1 = sub_assign gen_p128_modulus [a0; a1] [b0; b1].
Proof. cbv [gen_p128_sub_assign gen_p128_modulus sub_assign sub_with_borrow sub_chain add_with_carry add_chain fst snd negb orb andb]. gen_lits gen_p128_modulus. crush. Qed.
Lemma gen_p128_double_in_place_eq a0 a1 :
  gen_p128_double_in_place a0 a1 = double_in_place gen_p128_modulus [a0; a1].
Proof. cbv [double_in_place final_sub]. rewrite gen_p128_spare. cbv [gen_p128_double_in_place gen_p128_modulus mul2 mul2_chain subtract_modulus subtract_modulus_with_carry is_geq_modulus sub_with_borrow sub_chain add_with_carry add_chain fst snd negb orb andb]. gen_lits gen_p128_modulus. crush. Qed.
Lemma gen_p128_neg_in_place_eq a0 a1 :
  gen_p128_neg_in_place a0 a1 = neg_in_place gen_p128_modulus [a0; a1].
Proof. cbv [gen_p128_neg_in_place gen_p128_modulus neg_in_place is_zero forallb sub_with_borrow sub_chain add_with_carry add_chain fst snd negb orb andb]. gen_lits gen_p128_modulus. crush. Qed.
Lemma gen_p128_mul_assign_eq a0 a1 b0 b1 :
  gen_p128_mul_assign (inv_of gen_p128_modulus) a0 a1 b0 b1 = mul_assign_w (nocarry_macro gen_p128_modulus) (has_spare_bit gen_p128_modulus) gen_p128_modulus [a0; a1] [b0; b1].
Proof. rewrite gen_p128_spare, gen_p128_nc. cbv [gen_p128_mul_assign gen_p128_modulus mul_assign_w nc_rows_w nc_row_w nc_inner fold_left mul_without_cond_subtract red_rows mul_rows mac_row set_first skipn firstn length zeros repeat app Nat.add subtract_modulus subtract_modulus_with_carry is_geq_modulus sub_with_borrow sub_chain add_with_carry add_chain fst snd negb orb andb]. gen_lits gen_p128_modulus. crush. Qed.
Lemma gen_p128_square_in_place_eq a0 a1 :
  gen_p128_square_in_place (inv_of gen_p128_modulus) a0 a1 = square_full gen_p128_modulus [a0; a1].
Proof. cbv [square_full final_sub]. rewrite gen_p128_spare. cbv [gen_p128_square_in_place gen_p128_modulus sq_offdiag shl1_chain sq_diag sq_red_rows subtract_modulus subtract_modulus_with_carry is_geq_modulus mul_rows mac_row set_first skipn firstn length zeros repeat app Nat.add sub_with_borrow sub_chain add_with_carry add_chain fst snd negb orb andb]. gen_lits gen_p128_modulus. crush_sq. Qed.
Lemma gen_p128_add_assign_spec a0 a1 b0 b1 :
  wf [a0; a1] -> val [a0; a1] < gen_p128_modulus_attr -> wf [b0; b1] -> val [b0; b1] < gen_p128_modulus_attr ->
  let r := gen_p128_add_assign a0 a1 b0 b1 in
  wf r /\ length r = 2%nat /\ val r < gen_p128_modulus_attr /\ val r = (val [a0; a1] + val [b0; b1]) mod gen_p128_modulus_attr.
Proof. intros Ha Hx Hb Hy. pose proof (proj1 gen_p128_modulus_val) as Hv. pose proof gen_p128_modulus_wf as Hm. pose proof gen_p128_modulus_odd as Ho. pose proof gen_p128_modulus_ne as Hne. rewrite gen_p128_add_assign_eq. rewrite <- Hv in *. exact (add_assign_spec gen_p128_modulus [a0; a1] [b0; b1] Hm Hne Ha Hb eq_refl eq_refl Hx Hy). Qed.
Lemma gen_p128_sub_assign_spec a0 a1 b0 b1 :
  wf [a0; a1] -> val [a0; a1] < gen_p128_modulus_attr -> wf [b0; b1] -> val [b0; b1] < gen_p128_modulus_attr ->
  let r := gen_p128_sub_assign a0 a1 b0 b1 in
  wf r /\ length r = 2%nat /\ val r < gen_p128_modulus_attr /\ val r = (val [a0; a1] - val [b0; b1]) mod gen_p128_modulus_attr.
Proof. intros Ha Hx Hb Hy. pose proof (proj1 gen_p128_modulus_val) as Hv. pose proof gen_p128_modulus_wf as Hm. pose proof gen_p128_modulus_odd as Ho. pose proof gen_p128_modulus_ne as Hne. rewrite gen_p128_sub_assign_eq. rewrite <- Hv in *. exact (sub_assign_spec gen_p128_modulus [a0; a1] [b0; b1] Hm Ha Hb eq_refl eq_refl Hx Hy). Qed.
Lemma gen_p128_double_in_place_spec a0 a1 :
  wf [a0; a1] -> val [a0; a1] < gen_p128_modulus_attr ->
  let r := gen_p128_double_in_place a0 a1 in
  wf r /\ length r = 2%nat /\ val r < gen_p128_modulus_attr /\ val r = (2 * val [a0; a1]) mod gen_p128_modulus_attr.
Proof. intros Ha Hx. pose proof (proj1 gen_p128_modulus_val) as Hv. pose proof gen_p128_modulus_wf as Hm. pose proof gen_p128_modulus_odd as Ho. pose proof gen_p128_modulus_ne as Hne. rewrite gen_p128_double_in_place_eq. rewrite <- Hv in *. exact (double_in_place_spec gen_p128_modulus [a0; a1] Hm Hne Ha eq_refl Hx). Qed.
Lemma gen_p128_neg_in_place_spec a0 a1 :
  wf [a0; a1] -> val [a0; a1] < gen_p128_modulus_attr ->
  let r := gen_p128_neg_in_place a0 a1 in
  wf r /\ length r = 2%nat /\ val r < gen_p128_modulus_attr /\ val r = (- val [a0; a1]) mod gen_p128_modulus_attr.
Proof. intros Ha Hx. pose proof (proj1 gen_p128_modulus_val) as Hv. pose proof gen_p128_modulus_wf as Hm. pose proof gen_p128_modulus_odd as Ho. pose proof gen_p128_modulus_ne as Hne. rewrite gen_p128_neg_in_place_eq. rewrite <- Hv in *. exact (neg_in_place_spec gen_p128_modulus [a0; a1] Hm Ha eq_refl Hx). Qed.
Lemma gen_p128_mul_assign_spec a0 a1 b0 b1 :
  wf [a0; a1] -> val [a0; a1] < gen_p128_modulus_attr -> wf [b0; b1] -> val [b0; b1] < gen_p128_modulus_attr ->
  let r := gen_p128_mul_assign (inv_of gen_p128_modulus) a0 a1 b0 b1 in
  wf r /\ length r = 2%nat /\ val r < gen_p128_modulus_attr /\ (val r * Wn 2) mod gen_p128_modulus_attr = (val [a0; a1] * val [b0; b1]) mod gen_p128_modulus_attr.
Proof. intros Ha Hx Hb Hy. pose proof (proj1 gen_p128_modulus_val) as Hv. pose proof gen_p128_modulus_wf as Hm. pose proof gen_p128_modulus_odd as Ho. pose proof gen_p128_modulus_ne as Hne. rewrite <- Hv in *. rewrite gen_p128_mul_assign_eq, mul_assign_w_derived_eq by auto. exact (mul_assign_spec true gen_p128_modulus [a0; a1] [b0; b1] Hm Ha Hb eq_refl eq_refl Ho Hx Hy). Qed.
Lemma gen_p128_square_in_place_spec a0 a1 :
  wf [a0; a1] -> val [a0; a1] < gen_p128_modulus_attr ->
  let r := gen_p128_square_in_place (inv_of gen_p128_modulus) a0 a1 in
  wf r /\ length r = 2%nat /\ val r < gen_p128_modulus_attr /\ (val r * Wn 2) mod gen_p128_modulus_attr = (val [a0; a1] * val [a0; a1]) mod gen_p128_modulus_attr.
Proof. intros Ha Hx. pose proof (proj1 gen_p128_modulus_val) as Hv. pose proof gen_p128_modulus_wf as Hm. pose proof gen_p128_modulus_odd as Ho. pose proof gen_p128_modulus_ne as Hne. rewrite <- Hv in *. rewrite gen_p128_square_in_place_eq. exact (square_full_spec gen_p128_modulus [a0; a1] Hm Ha eq_refl Ho Hx). Qed.
Lemma gen_p128_mul_assign_model a0 a1 b0 b1 :
  wf [a0; a1] -> wf [b0; b1] -> val [a0; a1] < gen_p128_modulus_attr ->
  gen_p128_mul_assign (inv_of gen_p128_modulus) a0 a1 b0 b1 = mul_assign true gen_p128_modulus [a0; a1] [b0; b1].
Proof. intros Ha Hb Hx. pose proof (proj1 gen_p128_modulus_val) as Hv. pose proof gen_p128_modulus_wf as Hm. pose proof gen_p128_modulus_odd as Ho. pose proof gen_p128_modulus_ne as Hne. rewrite <- Hv in *. rewrite gen_p128_mul_assign_eq. apply mul_assign_w_derived_eq; auto. Qed.
Lemma gen_p128_square_in_place_model a0 a1 :
  wf [a0; a1] -> val [a0; a1] < gen_p128_modulus_attr ->
  gen_p128_square_in_place (inv_of gen_p128_modulus) a0 a1 = square_in_place true gen_p128_modulus [a0; a1].
Proof. intros Ha Hx. pose proof (proj1 gen_p128_modulus_val) as Hv. pose proof gen_p128_modulus_wf as Hm. pose proof gen_p128_modulus_odd as Ho. pose proof gen_p128_modulus_ne as Hne. rewrite <- Hv in *. rewrite gen_p128_square_in_place_eq. cbv [square_in_place length Nat.eqb gen_p128_modulus]. reflexivity. Qed.

(* ================= Bn254Fr: N = 4, 254 bits, no-carry true, spare bit true ================= *)
Lemma gen_bn254fr_modulus_val  :
  val gen_bn254fr_modulus = gen_bn254fr_modulus_attr /\ length gen_bn254fr_modulus = 4%nat /\ wf gen_bn254fr_modulus /\ gen_bn254fr_modulus_attr mod 2 = 1 /\
  gen_bn254fr_modulus_attr = 21888242871839275222246405745257275088548364400416034343698204186575808495617.
Proof. split; [vm_compute; reflexivity|]. split; [reflexivity|]. split; [cbv [gen_bn254fr_modulus]; lit_wf |]. split; [vm_compute; reflexivity | reflexivity]. Qed.
Lemma gen_bn254fr_modulus_wf : wf gen_bn254fr_modulus. Proof. exact (proj1 (proj2 (proj2 gen_bn254fr_modulus_val))). Qed.
Lemma gen_bn254fr_modulus_odd : val gen_bn254fr_modulus mod 2 = 1. Proof. rewrite (proj1 gen_bn254fr_modulus_val). exact (proj1 (proj2 (proj2 (proj2 gen_bn254fr_modulus_val)))). Qed.
Lemma gen_bn254fr_modulus_ne : gen_bn254fr_modulus <> []. Proof. discriminate. Qed.
Lemma gen_bn254fr_flags  :
  has_spare_bit gen_bn254fr_modulus = true /\ nocarry_macro gen_bn254fr_modulus = true.
Proof. split; vm_compute; reflexivity. Qed.
Lemma gen_bn254fr_spare : has_spare_bit gen_bn254fr_modulus = true. Proof. exact (proj1 gen_bn254fr_flags). Qed.
Lemma gen_bn254fr_nc : nocarry_macro gen_bn254fr_modulus = true. Proof. exact (proj2 gen_bn254fr_flags). Qed.
Lemma gen_bn254fr_add_with_carry_eq a0 a1 a2 a3 b0 b1 b2 b3 :
  gen_bn254fr_add_with_carry a0 a1 a2 a3 b0 b1 b2 b3 = add_with_carry [a0; a1; a2; a3] [b0; b1; b2; b3].
Proof. cbv [gen_bn254fr_add_with_carry add_with_carry add_chain]. crush. Qed.
Lemma gen_bn254fr_sub_with_borrow_eq a0 a1 a2 a3 b0 b1 b2 b3 :
  gen_bn254fr_sub_with_borrow a0 a1 a2 a3 b0 b1 b2 b3 = sub_with_borrow [a0; a1; a2; a3] [b0; b1; b2; b3].
Proof. cbv [gen_bn254fr_sub_with_borrow sub_with_borrow sub_chain]. crush. Qed.
Lemma gen_bn254fr_subtract_modulus_eq a0 a1 a2 a3 :
  gen_bn254fr_subtract_modulus a0 a1 a2 a3 = subtract_modulus gen_bn254fr_modulus [a0; a1; a2; a3].
Proof. cbv [gen_bn254fr_subtract_modulus gen_bn254fr_modulus subtract_modulus subtract_modulus_with_carry is_geq_modulus sub_with_borrow sub_chain add_with_carry add_chain fst snd negb orb andb]. gen_lits gen_bn254fr_modulus. crush. Qed.
Lemma gen_bn254fr_subtract_modulus_with_carry_eq a0 a1 a2 a3 carry :
  gen_bn254fr_subtract_modulus_with_carry a0 a1 a2 a3 carry = subtract_modulus_with_carry gen_bn254fr_modulus [a0; a1; a2; a3] carry.
Proof. cbv [gen_bn254fr_subtract_modulus_with_carry gen_bn254fr_modulus subtract_modulus subtract_modulus_with_carry is_geq_modulus sub_with_borrow sub_chain add_with_carry add_chain fst snd negb orb andb]. gen_lits gen_bn254fr_modulus. crush. Qed.
Lemma gen_bn254fr_add_assign_eq a0 a1 a2 a3 b0 b1 b2 b3 :
  gen_bn254fr_add_assign a0 a1 a2 a3 b0 b1 b2 b3 = add_assign gen_bn254fr_modulus [a0; a1; a2; a3] [b0; b1; b2; b3].
Proof. cbv [add_assign final_sub]. rewrite gen_bn254fr_spare. cbv [gen_bn254fr_add_assign gen_bn254fr_modulus subtract_modulus subtract_modulus_with_carry is_geq_modulus sub_with_borrow sub_chain add_with_carry add_chain fst snd negb orb andb]. gen_lits gen_bn254fr_modulus. crush. Qed.
Lemma gen_bn254fr_sub_assign_eq a0 a1 a2 a3 b0 b1 b2 b3 :
  gen_bn254fr_sub_assign a0 a1 a2 a3 b0 b1 b2 b3 = sub_assign gen_bn254fr_modulus [a0; a1; a2; a3] [b0; b1; b2; b3].
Proof. cbv [gen_bn254fr_sub_assign gen_bn254fr_modulus sub_assign sub_with_borrow sub_chain add_with_carry add_chain fst snd negb orb andb]. gen_lits gen_bn254fr_modulus. crush. Qed.
Lemma gen_bn254fr_double_in_place_eq a0 a1 a2 a3 :
  gen_bn254fr_double_in_place a0 a1 a2 a3 = double_in_place gen_bn254fr_modulus [a0; a1; a2; a3].
Proof. cbv [double_in_place final_sub]. rewrite gen_bn254fr_spare. cbv [gen_bn254fr_double_in_place gen_bn254fr_modulus mul2 mul2_chain subtract_modulus subtract_modulus_with_carry is_geq_modulus sub_with_borrow sub_chain add_with_carry add_chain fst snd negb orb andb]. gen_lits gen_bn254fr_modulus. crush. Qed.
Lemma gen_bn254fr_neg_in_place_eq a0 a1 a2 a3 :
  gen_bn254fr_neg_in_place a0 a1 a2 a3 = neg_in_place gen_bn254fr_modulus [a0; a1; a2; a3].
Proof. cbv [gen_bn254fr_neg_in_place gen_bn254fr_modulus neg_in_place is_zero forallb sub_with_borrow sub_chain add_with_carry add_chain fst snd negb orb andb]. gen_lits gen_bn254fr_modulus. crush. Qed.
Lemma gen_bn254fr_mul_assign_eq a0 a1 a2 a3 b0 b1 b2 b3 :
  gen_bn254fr_mul_assign (inv_of gen_bn254fr_modulus) a0 a1 a2 a3 b0 b1 b2 b3 = mul_assign_w (nocarry_macro gen_bn254fr_modulus) (has_spare_bit gen_bn254fr_modulus) gen_bn254fr_modulus [a0; a1; a2; a3] [b0; b1; b2; b3].
Proof. rewrite gen_bn254fr_spare, gen_bn254fr_nc. cbv [gen_bn254fr_mul_assign gen_bn254fr_modulus mul_assign_w nc_rows_w nc_row_w nc_inner fold_left mul_without_cond_subtract red_rows mul_rows mac_row set_first skipn firstn length zeros repeat app Nat.add subtract_modulus subtract_modulus_with_carry is_geq_modulus sub_with_borrow sub_chain add_with_carry add_chain fst snd negb orb andb]. gen_lits gen_bn254fr_modulus. crush. Qed.
Lemma gen_bn254fr_square_in_place_eq a0 a1 a2 a3 :
  gen_bn254fr_square_in_place (inv_of gen_bn254fr_modulus) a0 a1 a2 a3 = square_full gen_bn254fr_modulus [a0; a1; a2; a3].
Proof. cbv [square_full final_sub]. rewrite gen_bn254fr_spare. cbv [gen_bn254fr_square_in_place gen_bn254fr_modulus sq_offdiag shl1_chain sq_diag sq_red_rows subtract_modulus subtract_modulus_with_carry is_geq_modulus mul_rows mac_row set_first skipn firstn length zeros repeat app Nat.add sub_with_borrow sub_chain add_with_carry add_chain fst snd negb orb andb]. gen_lits gen_bn254fr_modulus. crush_sq. Qed.
Lemma gen_bn254fr_add_assign_spec a0 a1 a2 a3 b0 b1 b2 b3 :
  wf [a0; a1; a2; a3] -> val [a0; a1; a2; a3] < gen_bn254fr_modulus_attr -> wf [b0; b1; b2; b3] -> val [b0; b1; b2; b3] < gen_bn254fr_modulus_attr ->
  let r := gen_bn254fr_add_assign a0 a1 a2 a3 b0 b1 b2 b3 in
  wf r /\ length r = 4%nat /\ val r < gen_bn254fr_modulus_attr /\ val r = (val [a0; a1; a2; a3] + val [b0; b1; b2; b3]) mod gen_bn254fr_modulus_attr.
Proof. intros Ha Hx Hb Hy. pose proof (proj1 gen_bn254fr_modulus_val) as Hv. pose proof gen_bn254fr_modulus_wf as Hm. pose proof gen_bn254fr_modulus_odd as Ho. pose proof gen_bn254fr_modulus_ne as Hne. rewrite gen_bn254fr_add_assign_eq. rewrite <- Hv in *. exact (add_assign_spec gen_bn254fr_modulus [a0; a1; a2; a3] [b0; b1; b2; b3] Hm Hne Ha Hb eq_refl eq_refl Hx Hy). Qed.
Lemma gen_bn254fr_sub_assign_spec a0 a1 a2 a3 b0 b1 b2 b3 :
  wf [a0; a1; a2; a3] -> val [a0; a1; a2; a3] < gen_bn254fr_modulus_attr -> wf [b0; b1; b2; b3] -> val [b0; b1; b2; b3] < gen_bn254fr_modulus_attr ->
  let r := gen_bn254fr_sub_assign a0 a1 a2 a3 b0 b1 b2 b3 in
  wf r /\ length r = 4%nat /\ val r < gen_bn254fr_modulus_attr /\ val r = (val [a0; a1; a2; a3] - val [b0; b1; b2; b3]) mod gen_bn254fr_modulus_attr.
Proof. intros Ha Hx Hb Hy. pose proof (proj1 gen_bn254fr_modulus_val) as Hv. pose proof gen_bn254fr_modulus_wf as Hm. pose proof gen_bn254fr_modulus_odd as Ho. pose proof gen_bn254fr_modulus_ne as Hne. rewrite gen_bn254fr_sub_assign_eq. rewrite <- Hv in *. exact (sub_assign_spec gen_bn254fr_modulus [a0; a1; a2; a3] [b0; b1; b2; b3] Hm Ha Hb eq_refl eq_refl Hx Hy). Qed.
Lemma gen_bn254fr_double_in_place_spec a0 a1 a2 a3 :
  wf [a0; a1; a2; a3] -> val [a0; a1; a2; a3] < gen_bn254fr_modulus_attr ->
  let r := gen_bn254fr_double_in_place a0 a1 a2 a3 in
  wf r /\ length r = 4%nat /\ val r < gen_bn254fr_modulus_attr /\ val r = (2 * val [a0; a1; a2; a3]) mod gen_bn254fr_modulus_attr.
Proof. intros Ha Hx. pose proof (proj1 gen_bn254fr_modulus_val) as Hv. pose proof gen_bn254fr_modulus_wf as Hm. pose proof gen_bn254fr_modulus_odd as Ho. pose proof gen_bn254fr_modulus_ne as Hne. rewrite gen_bn254fr_double_in_place_eq. rewrite <- Hv in *. exact (double_in_place_spec gen_bn254fr_modulus [a0; a1; a2; a3] Hm Hne Ha eq_refl Hx). Qed.
Lemma gen_bn254fr_neg_in_place_spec a0 a1 a2 a3 :
  wf [a0; a1; a2; a3] -> val [a0; a1; a2; a3] < gen_bn254fr_modulus_attr ->
  let r := gen_bn254fr_neg_in_place a0 a1 a2 a3 in
  wf r /\ length r = 4%nat /\ val r < gen_bn254fr_modulus_attr /\ val r = (- val [a0; a1; a2; a3]) mod gen_bn254fr_modulus_attr.
Proof. intros Ha Hx. pose proof (proj1 gen_bn254fr_modulus_val) as Hv. pose proof gen_bn254fr_modulus_wf as Hm. pose proof gen_bn254fr_modulus_odd as Ho. pose proof gen_bn254fr_modulus_ne as Hne. rewrite gen_bn254fr_neg_in_place_eq. rewrite <- Hv in *. exact (neg_in_place_spec gen_bn254fr_modulus [a0; a1; a2; a3] Hm Ha eq_refl Hx). Qed.
Lemma gen_bn254fr_mul_assign_spec a0 a1 a2 a3 b0 b1 b2 b3 :
  wf [a0; a1; a2; a3] -> val [a0; a1; a2; a3] < gen_bn254fr_modulus_attr -> wf [b0; b1; b2; b3] -> val [b0; b1; b2; b3] < gen_bn254fr_modulus_attr ->
  let r := gen_bn254fr_mul_assign (inv_of gen_bn254fr_modulus) a0 a1 a2 a3 b0 b1 b2 b3 in
  wf r /\ length r = 4%nat /\ val r < gen_bn254fr_modulus_attr /\ (val r * Wn 4) mod gen_bn254fr_modulus_attr = (val [a0; a1; a2; a3] * val [b0; b1; b2; b3]) mod gen_bn254fr_modulus_attr.
Proof. intros Ha Hx Hb Hy. pose proof (proj1 gen_bn254fr_modulus_val) as Hv. pose proof gen_bn254fr_modulus_wf as Hm. pose proof gen_bn254fr_modulus_odd as Ho. pose proof gen_bn254fr_modulus_ne as Hne. rewrite <- Hv in *. rewrite gen_bn254fr_mul_assign_eq, mul_assign_w_derived_eq by auto. exact (mul_assign_spec true gen_bn254fr_modulus [a0; a1; a2; a3] [b0; b1; b2; b3] Hm Ha Hb eq_refl eq_refl Ho Hx Hy). Qed.
Lemma gen_bn254fr_square_in_place_spec a0 a1 a2 a3 :
  wf [a0; a1; a2; a3] -> val [a0; a1; a2; a3] < gen_bn254fr_modulus_attr ->
  let r := gen_bn254fr_square_in_place (inv_of gen_bn254fr_modulus) a0 a1 a2 a3 in
  wf r /\ length r = 4%nat /\ val r < gen_bn254fr_modulus_attr /\ (val r * Wn 4) mod gen_bn254fr_modulus_attr = (val [a0; a1; a2; a3] * val [a0; a1; a2; a3]) mod gen_bn254fr_modulus_attr.
Proof. intros Ha Hx. pose proof (proj1 gen_bn254fr_modulus_val) as Hv. pose proof gen_bn254fr_modulus_wf as Hm. pose proof gen_bn254fr_modulus_odd as Ho. pose proof gen_bn254fr_modulus_ne as Hne. rewrite <- Hv in *. rewrite gen_bn254fr_square_in_place_eq. exact (square_full_spec gen_bn254fr_modulus [a0; a1; a2; a3] Hm Ha eq_refl Ho Hx). Qed.
Lemma gen_bn254fr_mul_assign_model a0 a1 a2 a3 b0 b1 b2 b3 :
  wf [a0; a1; a2; a3] -> wf [b0; b1; b2; b3] -> val [a0; a1; a2; a3] < gen_bn254fr_modulus_attr ->
  gen_bn254fr_mul_assign (inv_of gen_bn254fr_modulus) a0 a1 a2 a3 b0 b1 b2 b3 = mul_assign true gen_bn254fr_modulus [a0; a1; a2; a3] [b0; b1; b2; b3].
Proof. intros Ha Hb Hx. pose proof (proj1 gen_bn254fr_modulus_val) as Hv. pose proof gen_bn254fr_modulus_wf as Hm. pose proof gen_bn254fr_modulus_odd as Ho. pose proof gen_bn254fr_modulus_ne as Hne. rewrite <- Hv in *. rewrite gen_bn254fr_mul_assign_eq. apply mul_assign_w_derived_eq; auto. Qed.
Lemma gen_bn254fr_square_in_place_model a0 a1 a2 a3 :
  wf [a0; a1; a2; a3] -> val [a0; a1; a2; a3] < gen_bn254fr_modulus_attr ->
  gen_bn254fr_square_in_place (inv_of gen_bn254fr_modulus) a0 a1 a2 a3 = square_in_place true gen_bn254fr_modulus [a0; a1; a2; a3].
Proof. intros Ha Hx. pose proof (proj1 gen_bn254fr_modulus_val) as Hv. pose proof gen_bn254fr_modulus_wf as Hm. pose proof gen_bn254fr_modulus_odd as Ho. pose proof gen_bn254fr_modulus_ne as Hne. rewrite <- Hv in *. rewrite gen_bn254fr_square_in_place_eq. cbv [square_in_place length Nat.eqb gen_bn254fr_modulus]. reflexivity. Qed.

(* ================= P25519: N = 4, 255 bits, no-carry false, spare bit true ================= *)
Lemma gen_p25519_modulus_val  :
  val gen_p25519_modulus = gen_p25519_modulus_attr /\ length gen_p25519_modulus = 4%nat /\ wf gen_p25519_modulus /\ gen_p25519_modulus_attr mod 2 = 1 /\
  gen_p25519_modulus_attr = 57896044618658097711785492504343953926634992332820282019728792003956564819949.
Proof. split; [vm_compute; reflexivity|]. split; [reflexivity|]. split; [cbv [gen_p25519_modulus]; lit_wf |]. split; [vm_compute; reflexivity | reflexivity]. Qed.
Lemma gen_p25519_modulus_wf : wf gen_p25519_modulus. Proof. exact (proj1 (proj2 (proj2 gen_p25519_modulus_val))). Qed.
Lemma gen_p25519_modulus_odd : val gen_p25519_modulus mod 2 = 1. Proof. rewrite (proj1 gen_p25519_modulus_val). exact (proj1 (proj2 (proj2 (proj2 gen_p25519_modulus_val)))). Qed.
Lemma gen_p25519_modulus_ne : gen_p25519_modulus <> []. Proof. discriminate. Qed.
Lemma gen_p25519_flags  :
  has_spare_bit gen_p25519_modulus = true /\ nocarry_macro gen_p25519_modulus = false.
Proof. split; vm_compute; reflexivity. Qed.
Lemma gen_p25519_spare : has_spare_bit gen_p25519_modulus = true. Proof. exact (proj1 gen_p25519_flags). Qed.
Lemma gen_p25519_nc : nocarry_macro gen_p25519_modulus = false. Proof. exact (proj2 gen_p25519_flags). Qed.
Lemma gen_p25519_add_with_carry_eq a0 a1 a2 a3 b0 b1 b2 b3 :
  gen_p25519_add_with_carry a0 a1 a2 a3 b0 b1 b2 b3 = add_with_carry [a0; a1; a2; a3] [b0; b1; b2; b3].
Proof. cbv [gen_p25519_add_with_carry add_with_carry add_chain]. crush. Qed.
Lemma gen_p25519_sub_with_borrow_eq a0 a1 a2 a3 b0 b1 b2 b3 :
  gen_p25519_sub_with_borrow a0 a1 a2 a3 b0 b1 b2 b3 = sub_with_borrow [a0; a1; a2; a3] [b0; b1; b2; b3].
Proof. cbv [gen_p25519_sub_with_borrow sub_with_borrow sub_chain]. crush. Qed.
Lemma gen_p25519_subtract_modulus_eq a0 a1 a2 a3 :
  gen_p25519_subtract_modulus a0 a1 a2 a3 = subtract_modulus gen_p25519_modulus [a0; a1; a2; a3].
Proof. cbv [gen_p25519_subtract_modulus gen_p25519_modulus subtract_modulus subtract_modulus_with_carry is_geq_modulus sub_with_borrow sub_chain add_with_carry add_chain fst snd negb orb andb]. gen_lits gen_p25519_modulus. crush. Qed.
Lemma gen_p25519_subtract_modulus_with_carry_eq a0 a1 a2 a3 carry :
  gen_p25519_subtract_modulus_with_carry a0 a1 a2 a3 carry = subtract_modulus_with_carry gen_p25519_modulus [a0; a1; a2; a3] carry.
Proof. cbv [gen_p25519_subtract_modulus_with_carry gen_p25519_modulus subtract_modulus subtract_modulus_with_carry is_geq_modulus sub_with_borrow sub_chain add_with_carry add_chain fst snd negb orb andb]. gen_lits gen_p25519_modulus. crush. Qed.
Lemma gen_p25519_add_assign_eq a0 a1 a2 a3 b0 b1 b2 b3 :
  gen_p25519_add_assign a0 a1 a2 a3 b0 b1 b2 b3 = add_assign gen_p25519_modulus [a0; a1; a2; a3] [b0; b1; b2; b3].
Proof. cbv [add_assign final_sub]. rewrite gen_p25519_spare. cbv [gen_p25519_add_assign gen_p25519_modulus subtract_modulus subtract_modulus_with_carry is_geq_modulus sub_with_borrow sub_chain add_with_carry add_chain fst snd negb orb andb]. gen_lits gen_p25519_modulus. crush. Qed.
Lemma gen_p25519_sub_assign_eq a0 a1 a2 a3 b0 b1 b2 b3 :
  gen_p25519_sub_assign a0 a1 a2 a3 b0 b1 b2 b3 = sub_assign gen_p25519_modulus [a0; a1; a2; a3] [b0; b1; b2; b3].
Proof. cbv [gen_p25519_sub_assign gen_p25519_modulus sub_assign sub_with_borrow sub_chain add_with_carry add_chain fst snd negb orb andb]. gen_lits gen_p25519_modulus. crush. Qed.
Lemma gen_p25519_double_in_place_eq a0 a1 a2 a3 :
  gen_p25519_double_in_place a0 a1 a2 a3 = double_in_place gen_p25519_modulus [a0; a1; a2; a3].
Proof. cbv [double_in_place final_sub]. rewrite gen_p25519_spare. cbv [gen_p25519_double_in_place gen_p25519_modulus mul2 mul2_chain subtract_modulus subtract_modulus_with_carry is_geq_modulus sub_with_borrow sub_chain add_with_carry add_chain fst snd negb orb andb]. gen_lits gen_p25519_modulus. crush. Qed.
Lemma gen_p25519_neg_in_place_eq a0 a1 a2 a3 :
  gen_p25519_neg_in_place a0 a1 a2 a3 = neg_in_place gen_p25519_modulus [a0; a1; a2; a3].
Proof. cbv [gen_p25519_neg_in_place gen_p25519_modulus neg_in_place is_zero forallb sub_with_borrow sub_chain add_with_carry add_chain fst snd negb orb andb]. gen_lits gen_p25519_modulus. crush. Qed.
Lemma gen_p25519_mul_assign_eq a0 a1 a2 a3 b0 b1 b2 b3 :
  gen_p25519_mul_assign (inv_of gen_p25519_modulus) a0 a1 a2 a3 b0 b1 b2 b3 = mul_assign_w (nocarry_macro gen_p25519_modulus) (has_spare_bit gen_p25519_modulus) gen_p25519_modulus [a0; a1; a2; a3] [b0; b1; b2; b3].
Proof. rewrite gen_p25519_spare, gen_p25519_nc. cbv [gen_p25519_mul_assign gen_p25519_modulus mul_assign_w nc_rows_w nc_row_w nc_inner fold_left mul_without_cond_subtract red_rows mul_rows mac_row set_first skipn firstn length zeros repeat app Nat.add subtract_modulus subtract_modulus_with_carry is_geq_modulus sub_with_borrow sub_chain add_with_carry add_chain fst snd negb orb andb]. gen_lits gen_p25519_modulus. crush. Qed.
Lemma gen_p25519_square_in_place_eq a0 a1 a2 a3 :
  gen_p25519_square_in_place (inv_of gen_p25519_modulus) a0 a1 a2 a3 = square_full gen_p25519_modulus [a0; a1; a2; a3].
Proof. cbv [square_full final_sub]. rewrite gen_p25519_spare. cbv [gen_p25519_square_in_place gen_p25519_modulus sq_offdiag shl1_chain sq_diag sq_red_rows subtract_modulus subtract_modulus_with_carry is_geq_modulus mul_rows mac_row set_first skipn firstn length zeros repeat app Nat.add sub_with_borrow sub_chain add_with_carry add_chain fst snd negb orb andb]. gen_lits gen_p25519_modulus. crush_sq. Qed.
Lemma gen_p25519_add_assign_spec a0 a1 a2 a3 b0 b1 b2 b3 :
  wf [a0; a1; a2; a3] -> val [a0; a1; a2; a3] < gen_p25519_modulus_attr -> wf [b0; b1; b2; b3] -> val [b0; b1; b2; b3] < gen_p25519_modulus_attr ->
  let r := gen_p25519_add_assign a0 a1 a2 a3 b0 b1 b2 b3 in
  wf r /\ length r = 4%nat /\ val r < gen_p25519_modulus_attr /\ val r = (val [a0; a1; a2; a3] + val [b0; b1; b2; b3]) mod gen_p25519_modulus_attr.
Proof. intros Ha Hx Hb Hy. pose proof (proj1 gen_p25519_modulus_val) as Hv. pose proof gen_p25519_modulus_wf as Hm. pose proof gen_p25519_modulus_odd as Ho. pose proof gen_p25519_modulus_ne as Hne. rewrite gen_p25519_add_assign_eq. rewrite <- Hv in *. exact (add_assign_spec gen_p25519_modulus [a0; a1; a2; a3] [b0; b1; b2; b3] Hm Hne Ha Hb eq_refl eq_refl Hx Hy). Qed.
Lemma gen_p25519_sub_assign_spec a0 a1 a2 a3 b0 b1 b2 b3 :
  wf [a0; a1; a2; a3] -> val [a0; a1; a2; a3] < gen_p25519_modulus_attr -> wf [b0; b1; b2; b3] -> val [b0; b1; b2; b3] < gen_p25519_modulus_attr ->
  let r := gen_p25519_sub_assign a0 a1 a2 a3 b0 b1 b2 b3 in
  wf r /\ length r = 4%nat /\ val r < gen_p25519_modulus_attr /\ val r = (val [a0; a1; a2; a3] - val [b0; b1; b2; b3]) mod gen_p25519_modulus_attr.
Proof. intros Ha Hx Hb Hy. pose proof (proj1 gen_p25519_modulus_val) as Hv. pose proof gen_p25519_modulus_wf as Hm. pose proof gen_p25519_modulus_odd as Ho. pose proof gen_p25519_modulus_ne as Hne. rewrite gen_p25519_sub_assign_eq. rewrite <- Hv in *. exact (sub_assign_spec gen_p25519_modulus [a0; a1; a2; a3] [b0; b1; b2; b3] Hm Ha Hb eq_refl eq_refl Hx Hy). Qed.
Lemma gen_p25519_double_in_place_spec a0 a1 a2 a3 :
  wf [a0; a1; a2; a3] -> val [a0; a1; a2; a3] < gen_p25519_modulus_attr ->
  let r := gen_p25519_double_in_place a0 a1 a2 a3 in
  wf r /\ length r = 4%nat /\ val r < gen_p25519_modulus_attr /\ val r = (2 * val [a0; a1; a2; a3]) mod gen_p25519_modulus_attr.
Proof. intros Ha Hx. pose proof (proj1 gen_p25519_modulus_val) as Hv. pose proof gen_p25519_modulus_wf as Hm. pose proof gen_p25519_modulus_odd as Ho. pose proof gen_p25519_modulus_ne as Hne. rewrite gen_p25519_double_in_place_eq. rewrite <- Hv in *. exact (double_in_place_spec gen_p25519_modulus [a0; a1; a2; a3] Hm Hne Ha eq_refl Hx). Qed.
Lemma gen_p25519_neg_in_place_spec a0 a1 a2 a3 :
  wf [a0; a1; a2; a3] -> val [a0; a1; a2; a3] < gen_p25519_modulus_attr ->
  let r := gen_p25519_neg_in_place a0 a1 a2 a3 in
  wf r /\ length r = 4%nat /\ val r < gen_p25519_modulus_attr /\ val r = (- val [a0; a1; a2; a3]) mod gen_p25519_modulus_attr.
Proof. intros Ha Hx. pose proof (proj1 gen_p25519_modulus_val) as Hv. pose proof gen_p25519_modulus_wf as Hm. pose proof gen_p25519_modulus_odd as Ho. pose proof gen_p25519_modulus_ne as Hne. rewrite gen_p25519_neg_in_place_eq. rewrite <- Hv in *. exact (neg_in_place_spec gen_p25519_modulus [a0; a1; a2; a3] Hm Ha eq_refl Hx). Qed.
Lemma gen_p25519_mul_assign_spec a0 a1 a2 a3 b0 b1 b2 b3 :
  wf [a0; a1; a2; a3] -> val [a0; a1; a2; a3] < gen_p25519_modulus_attr -> wf [b0; b1; b2; b3] -> val [b0; b1; b2; b3] < gen_p25519_modulus_attr ->
  let r := gen_p25519_mul_assign (inv_of gen_p25519_modulus) a0 a1 a2 a3 b0 b1 b2 b3 in
  wf r /\ length r = 4%nat /\ val r < gen_p25519_modulus_attr /\ (val r * Wn 4) mod gen_p25519_modulus_attr = (val [a0; a1; a2; a3] * val [b0; b1; b2; b3]) mod gen_p25519_modulus_attr.
Proof. intros Ha Hx Hb Hy. pose proof (proj1 gen_p25519_modulus_val) as Hv. pose proof gen_p25519_modulus_wf as Hm. pose proof gen_p25519_modulus_odd as Ho. pose proof gen_p25519_modulus_ne as Hne. rewrite <- Hv in *. rewrite gen_p25519_mul_assign_eq, mul_assign_w_derived_eq by auto. exact (mul_assign_spec true gen_p25519_modulus [a0; a1; a2; a3] [b0; b1; b2; b3] Hm Ha Hb eq_refl eq_refl Ho Hx Hy). Qed.
Lemma gen_p25519_square_in_place_spec a0 a1 a2 a3 :
  wf [a0; a1; a2; a3] -> val [a0; a1; a2; a3] < gen_p25519_modulus_attr ->
  let r := gen_p25519_square_in_place (inv_of gen_p25519_modulus) a0 a1 a2 a3 in
  wf r /\ length r = 4%nat /\ val r < gen_p25519_modulus_attr /\ (val r * Wn 4) mod gen_p25519_modulus_attr = (val [a0; a1; a2; a3] * val [a0; a1; a2; a3]) mod gen_p25519_modulus_attr.
Proof. intros Ha Hx. pose proof (proj1 gen_p25519_modulus_val) as Hv. pose proof gen_p25519_modulus_wf as Hm. pose proof gen_p25519_modulus_odd as Ho. pose proof gen_p25519_modulus_ne as Hne. rewrite <- Hv in *. rewrite gen_p25519_square_in_place_eq. exact (square_full_spec gen_p25519_modulus [a0; a1; a2; a3] Hm Ha eq_refl Ho Hx). Qed.
Lemma gen_p25519_mul_assign_model a0 a1 a2 a3 b0 b1 b2 b3 :
  wf [a0; a1; a2; a3] -> wf [b0; b1; b2; b3] -> val [a0; a1; a2; a3] < gen_p25519_modulus_attr ->
  gen_p25519_mul_assign (inv_of gen_p25519_modulus) a0 a1 a2 a3 b0 b1 b2 b3 = mul_assign true gen_p25519_modulus [a0; a1; a2; a3] [b0; b1; b2; b3].
Proof. intros Ha Hb Hx. pose proof (proj1 gen_p25519_modulus_val) as Hv. pose proof gen_p25519_modulus_wf as Hm. pose proof gen_p25519_modulus_odd as Ho. pose proof gen_p25519_modulus_ne as Hne. rewrite <- Hv in *. rewrite gen_p25519_mul_assign_eq. apply mul_assign_w_derived_eq; auto. Qed.
Lemma gen_p25519_square_in_place_model a0 a1 a2 a3 :
  wf [a0; a1; a2; a3] -> val [a0; a1; a2; a3] < gen_p25519_modulus_attr ->
  gen_p25519_square_in_place (inv_of gen_p25519_modulus) a0 a1 a2 a3 = square_in_place true gen_p25519_modulus [a0; a1; a2; a3].
Proof. intros Ha Hx. pose proof (proj1 gen_p25519_modulus_val) as Hv. pose proof gen_p25519_modulus_wf as Hm. pose proof gen_p25519_modulus_odd as Ho. pose proof gen_p25519_modulus_ne as Hne. rewrite <- Hv in *. rewrite gen_p25519_square_in_place_eq. cbv [square_in_place length Nat.eqb gen_p25519_modulus]. reflexivity. Qed.

(* ================= Secp256k1P: N = 4, 256 bits, no-carry false, spare bit false ================= *)
Lemma gen_secp256k1p_modulus_val  :
  val gen_secp256k1p_modulus = gen_secp256k1p_modulus_attr /\ length gen_secp256k1p_modulus = 4%nat /\ wf gen_secp256k1p_modulus /\ gen_secp256k1p_modulus_attr mod 2 = 1 /\
  gen_secp256k1p_modulus_attr = 115792089237316195423570985008687907853269984665640564039457584007908834671663.
Proof. split; [vm_compute; reflexivity|]. split; [reflexivity|]. split; [cbv [gen_secp256k1p_modulus]; lit_wf |]. split; [vm_compute; reflexivity | reflexivity]. Qed.
Lemma gen_secp256k1p_modulus_wf : wf gen_secp256k1p_modulus. Proof. exact (proj1 (proj2 (proj2 gen_secp256k1p_modulus_val))). Qed.
Lemma gen_secp256k1p_modulus_odd : val gen_secp256k1p_modulus mod 2 = 1. Proof. rewrite (proj1 gen_secp256k1p_modulus_val). exact (proj1 (proj2 (proj2 (proj2 gen_secp256k1p_modulus_val)))). Qed.
Lemma gen_secp256k1p_modulus_ne : gen_secp256k1p_modulus <> []. Proof. discriminate. Qed.
Lemma gen_secp256k1p_flags  :
  has_spare_bit gen_secp256k1p_modulus = false /\ nocarry_macro gen_secp256k1p_modulus = false.
Proof. split; vm_compute; reflexivity. Qed.
Lemma gen_secp256k1p_spare : has_spare_bit gen_secp256k1p_modulus = false. Proof. exact (proj1 gen_secp256k1p_flags). Qed.
Lemma gen_secp256k1p_nc : nocarry_macro gen_secp256k1p_modulus = false. Proof. exact (proj2 gen_secp256k1p_flags). Qed.
Lemma gen_secp256k1p_add_with_carry_eq a0 a1 a2 a3 b0 b1 b2 b3 :
  gen_secp256k1p_add_with_carry a0 a1 a2 a3 b0 b1 b2 b3 = add_with_carry [a0; a1; a2; a3] [b0; b1; b2; b3].
Proof. cbv [gen_secp256k1p_add_with_carry add_with_carry add_chain]. crush. Qed.
Lemma gen_secp256k1p_sub_with_borrow_eq a0 a1 a2 a3 b0 b1 b2 b3 :
  gen_secp256k1p_sub_with_borrow a0 a1 a2 a3 b0 b1 b2 b3 = sub_with_borrow [a0; a1; a2; a3] [b0; b1; b2; b3].
Proof. cbv [gen_secp256k1p_sub_with_borrow sub_with_borrow sub_chain]. crush. Qed.
Lemma gen_secp256k1p_subtract_modulus_eq a0 a1 a2 a3 :
  gen_secp256k1p_subtract_modulus a0 a1 a2 a3 = subtract_modulus gen_secp256k1p_modulus [a0; a1; a2; a3].
Proof. cbv [gen_secp256k1p_subtract_modulus gen_secp256k1p_modulus subtract_modulus subtract_modulus_with_carry is_geq_modulus sub_with_borrow sub_chain add_with_carry add_chain fst snd negb orb andb]. gen_lits gen_secp256k1p_modulus. crush. Qed.
Lemma gen_secp256k1p_subtract_modulus_with_carry_eq a0 a1 a2 a3 carry :
  gen_secp256k1p_subtract_modulus_with_carry a0 a1 a2 a3 carry = subtract_modulus_with_carry gen_secp256k1p_modulus [a0; a1; a2; a3] carry.
Proof. cbv [gen_secp256k1p_subtract_modulus_with_carry gen_secp256k1p_modulus subtract_modulus subtract_modulus_with_carry is_geq_modulus sub_with_borrow sub_chain add_with_carry add_chain fst snd negb orb andb]. gen_lits gen_secp256k1p_modulus. crush. Qed.
Lemma gen_secp256k1p_add_assign_eq a0 a1 a2 a3 b0 b1 b2 b3 :
  gen_secp256k1p_add_assign a0 a1 a2 a3 b0 b1 b2 b3 = add_assign gen_secp256k1p_modulus [a0; a1; a2; a3] [b0; b1; b2; b3].
Proof. cbv [add_assign final_sub]. rewrite gen_secp256k1p_spare. cbv [gen_secp256k1p_add_assign gen_secp256k1p_modulus subtract_modulus subtract_modulus_with_carry is_geq_modulus sub_with_borrow sub_chain add_with_carry add_chain fst snd negb orb andb]. gen_lits gen_secp256k1p_modulus. crush. Qed.
Lemma gen_secp256k1p_sub_assign_eq a0 a1 a2 a3 b0 b1 b2 b3 :
  gen_secp256k1p_sub_assign a0 a1 a2 a3 b0 b1 b2 b3 = sub_assign gen_secp256k1p_modulus [a0; a1; a2; a3] [b0; b1; b2; b3].
Proof. cbv [gen_secp256k1p_sub_assign gen_secp256k1p_modulus sub_assign sub_with_borrow sub_chain add_with_carry add_chain fst snd negb orb andb]. gen_lits gen_secp256k1p_modulus. crush. Qed.
Lemma gen_secp256k1p_double_in_place_eq a0 a1 a2 a3 :
  gen_secp256k1p_double_in_place a0 a1 a2 a3 = double_in_place gen_secp256k1p_modulus [a0; a1; a2; a3].
Proof. cbv [double_in_place final_sub]. rewrite gen_secp256k1p_spare. cbv [gen_secp256k1p_double_in_place gen_secp256k1p_modulus mul2 mul2_chain subtract_modulus subtract_modulus_with_carry is_geq_modulus sub_with_borrow sub_chain add_with_carry add_chain fst snd negb orb andb]. gen_lits gen_secp256k1p_modulus. crush. Qed.
Lemma gen_secp256k1p_neg_in_place_eq a0 a1 a2 a3 :
  gen_secp256k1p_neg_in_place a0 a1 a2 a3 = neg_in_place gen_secp256k1p_modulus [a0; a1; a2; a3].
Proof. cbv [gen_secp256k1p_neg_in_place gen_secp256k1p_modulus neg_in_place is_zero forallb sub_with_borrow sub_chain add_with_carry add_chain fst snd negb orb andb]. gen_lits gen_secp256k1p_modulus. crush. Qed.
Lemma gen_secp256k1p_mul_assign_eq a0 a1 a2 a3 b0 b1 b2 b3 :
  gen_secp256k1p_mul_assign (inv_of gen_secp256k1p_modulus) a0 a1 a2 a3 b0 b1 b2 b3 = mul_assign_w (nocarry_macro gen_secp256k1p_modulus) (has_spare_bit gen_secp256k1p_modulus) gen_secp256k1p_modulus [a0; a1; a2; a3] [b0; b1; b2; b3].
Proof. rewrite gen_secp256k1p_spare, gen_secp256k1p_nc. cbv [gen_secp256k1p_mul_assign gen_secp256k1p_modulus mul_assign_w nc_rows_w nc_row_w nc_inner fold_left mul_without_cond_subtract red_rows mul_rows mac_row set_first skipn firstn length zeros repeat app Nat.add subtract_modulus subtract_modulus_with_carry is_geq_modulus sub_with_borrow sub_chain add_with_carry add_chain fst snd negb orb andb]. gen_lits gen_secp256k1p_modulus. crush. Qed.
Lemma gen_secp256k1p_square_in_place_eq a0 a1 a2 a3 :
  gen_secp256k1p_square_in_place (inv_of gen_secp256k1p_modulus) a0 a1 a2 a3 = square_full gen_secp256k1p_modulus [a0; a1; a2; a3].
Proof. cbv [square_full final_sub]. rewrite gen_secp256k1p_spare. cbv [gen_secp256k1p_square_in_place gen_secp256k1p_modulus sq_offdiag shl1_chain sq_diag sq_red_rows subtract_modulus subtract_modulus_with_carry is_geq_modulus mul_rows mac_row set_first skipn firstn length zeros repeat app Nat.add sub_with_borrow sub_chain add_with_carry add_chain fst snd negb orb andb]. gen_lits gen_secp256k1p_modulus. crush_sq. Qed.
Lemma gen_secp256k1p_add_assign_spec a0 a1 a2 a3 b0 b1 b2 b3 :
  wf [a0; a1; a2; a3] -> val [a0; a1; a2; a3] < gen_secp256k1p_modulus_attr -> wf [b0; b1; b2; b3] -> val [b0; b1; b2; b3] < gen_secp256k1p_modulus_attr ->
  let r := gen_secp256k1p_add_assign a0 a1 a2 a3 b0 b1 b2 b3 in
  wf r /\ length r = 4%nat /\ val r < gen_secp256k1p_modulus_attr /\ val r = (val [a0; a1; a2; a3] + val [b0; b1; b2; b3]) mod gen_secp256k1p_modulus_attr.
Proof. intros Ha Hx Hb Hy. pose proof (proj1 gen_secp256k1p_modulus_val) as Hv. pose proof gen_secp256k1p_modulus_wf as Hm. pose proof gen_secp256k1p_modulus_odd as Ho. pose proof gen_secp256k1p_modulus_ne as Hne. rewrite gen_secp256k1p_add_assign_eq. rewrite <- Hv in *. exact (add_assign_spec gen_secp256k1p_modulus [a0; a1; a2; a3] [b0; b1; b2; b3] Hm Hne Ha Hb eq_refl eq_refl Hx Hy). Qed.
Lemma gen_secp256k1p_sub_assign_spec a0 a1 a2 a3 b0 b1 b2 b3 :
  wf [a0; a1; a2; a3] -> val [a0; a1; a2; a3] < gen_secp256k1p_modulus_attr -> wf [b0; b1; b2; b3] -> val [b0; b1; b2; b3] < gen_secp256k1p_modulus_attr ->
  let r := gen_secp256k1p_sub_assign a0 a1 a2 a3 b0 b1 b2 b3 in
  wf r /\ length r = 4%nat /\ val r < gen_secp256k1p_modulus_attr /\ val r = (val [a0; a1; a2; a3] - val [b0; b1; b2; b3]) mod gen_secp256k1p_modulus_attr.
Proof. intros Ha Hx Hb Hy. pose proof (proj1 gen_secp256k1p_modulus_val) as Hv. pose proof gen_secp256k1p_modulus_wf as Hm. pose proof gen_secp256k1p_modulus_odd as Ho. pose proof gen_secp256k1p_modulus_ne as Hne. rewrite gen_secp256k1p_sub_assign_eq. rewrite <- Hv in *. exact (sub_assign_spec gen_secp256k1p_modulus [a0; a1; a2; a3] [b0; b1; b2; b3] Hm Ha Hb eq_refl eq_refl Hx Hy). Qed.
Lemma gen_secp256k1p_double_in_place_spec a0 a1 a2 a3 :
  wf [a0; a1; a2; a3] -> val [a0; a1; a2; a3] < gen_secp256k1p_modulus_attr ->
  let r := gen_secp256k1p_double_in_place a0 a1 a2 a3 in
  wf r /\ length r = 4%nat /\ val r < gen_secp256k1p_modulus_attr /\ val r = (2 * val [a0; a1; a2; a3]) mod gen_secp256k1p_modulus_attr.
Proof. intros Ha Hx. pose proof (proj1 gen_secp256k1p_modulus_val) as Hv. pose proof gen_secp256k1p_modulus_wf as Hm. pose proof gen_secp256k1p_modulus_odd as Ho. pose proof gen_secp256k1p_modulus_ne as Hne. rewrite gen_secp256k1p_double_in_place_eq. rewrite <- Hv in *. exact (double_in_place_spec gen_secp256k1p_modulus [a0; a1; a2; a3] Hm Hne Ha eq_refl Hx). Qed.
Lemma gen_secp256k1p_neg_in_place_spec a0 a1 a2 a3 :
  wf [a0; a1; a2; a3] -> val [a0; a1; a2; a3] < gen_secp256k1p_modulus_attr ->
  let r := gen_secp256k1p_neg_in_place a0 a1 a2 a3 in
  wf r /\ length r = 4%nat /\ val r < gen_secp256k1p_modulus_attr /\ val r = (- val [a0; a1; a2; a3]) mod gen_secp256k1p_modulus_attr.
Proof. intros Ha Hx. pose proof (proj1 gen_secp256k1p_modulus_val) as Hv. pose proof gen_secp256k1p_modulus_wf as Hm. pose proof gen_secp256k1p_modulus_odd as Ho. pose proof gen_secp256k1p_modulus_ne as Hne. rewrite gen_secp256k1p_neg_in_place_eq. rewrite <- Hv in *. exact (neg_in_place_spec gen_secp256k1p_modulus [a0; a1; a2; a3] Hm Ha eq_refl Hx). Qed.
Lemma gen_secp256k1p_mul_assign_spec a0 a1 a2 a3 b0 b1 b2 b3 :
  wf [a0; a1; a2; a3] -> val [a0; a1; a2; a3] < gen_secp256k1p_modulus_attr -> wf [b0; b1; b2; b3] -> val [b0; b1; b2; b3] < gen_secp256k1p_modulus_attr ->
  let r := gen_secp256k1p_mul_assign (inv_of gen_secp256k1p_modulus) a0 a1 a2 a3 b0 b1 b2 b3 in
  wf r /\ length r = 4%nat /\ val r < gen_secp256k1p_modulus_attr /\ (val r * Wn 4) mod gen_secp256k1p_modulus_attr = (val [a0; a1; a2; a3] * val [b0; b1; b2; b3]) mod gen_secp256k1p_modulus_attr.
Proof. intros Ha Hx Hb Hy. pose proof (proj1 gen_secp256k1p_modulus_val) as Hv. pose proof gen_secp256k1p_modulus_wf as Hm. pose proof gen_secp256k1p_modulus_odd as Ho. pose proof gen_secp256k1p_modulus_ne as Hne. rewrite <- Hv in *. rewrite gen_secp256k1p_mul_assign_eq, mul_assign_w_derived_eq by auto. exact (mul_assign_spec true gen_secp256k1p_modulus [a0; a1; a2; a3] [b0; b1; b2; b3] Hm Ha Hb eq_refl eq_refl Ho Hx Hy). Qed.
Lemma gen_secp256k1p_square_in_place_spec a0 a1 a2 a3 :
  wf [a0; a1; a2; a3] -> val [a0; a1; a2; a3] < gen_secp256k1p_modulus_attr ->
  let r := gen_secp256k1p_square_in_place (inv_of gen_secp256k1p_modulus) a0 a1 a2 a3 in
  wf r /\ length r = 4%nat /\ val r < gen_secp256k1p_modulus_attr /\ (val r * Wn 4) mod gen_secp256k1p_modulus_attr = (val [a0; a1; a2; a3] * val [a0; a1; a2; a3]) mod gen_secp256k1p_modulus_attr.
Proof. intros Ha Hx. pose proof (proj1 gen_secp256k1p_modulus_val) as Hv. pose proof gen_secp256k1p_modulus_wf as Hm. pose proof gen_secp256k1p_modulus_odd as Ho. pose proof gen_secp256k1p_modulus_ne as Hne. rewrite <- Hv in *. rewrite gen_secp256k1p_square_in_place_eq. exact (square_full_spec gen_secp256k1p_modulus [a0; a1; a2; a3] Hm Ha eq_refl Ho Hx). Qed.
Lemma gen_secp256k1p_mul_assign_model a0 a1 a2 a3 b0 b1 b2 b3 :
  wf [a0; a1; a2; a3] -> wf [b0; b1; b2; b3] -> val [a0; a1; a2; a3] < gen_secp256k1p_modulus_attr ->
  gen_secp256k1p_mul_assign (inv_of gen_secp256k1p_modulus) a0 a1 a2 a3 b0 b1 b2 b3 = mul_assign true gen_secp256k1p_modulus [a0; a1; a2; a3] [b0; b1; b2; b3].
Proof. intros Ha Hb Hx. pose proof (proj1 gen_secp256k1p_modulus_val) as Hv. pose proof gen_secp256k1p_modulus_wf as Hm. pose proof gen_secp256k1p_modulus_odd as Ho. pose proof gen_secp256k1p_modulus_ne as Hne. rewrite <- Hv in *. rewrite gen_secp256k1p_mul_assign_eq. apply mul_assign_w_derived_eq; auto. Qed.
Lemma gen_secp256k1p_square_in_place_model a0 a1 a2 a3 :
  wf [a0; a1; a2; a3] -> val [a0; a1; a2; a3] < gen_secp256k1p_modulus_attr ->
  gen_secp256k1p_square_in_place (inv_of gen_secp256k1p_modulus) a0 a1 a2 a3 = square_in_place true gen_secp256k1p_modulus [a0; a1; a2; a3].
Proof. intros Ha Hx. pose proof (proj1 gen_secp256k1p_modulus_val) as Hv. pose proof gen_secp256k1p_modulus_wf as Hm. pose proof gen_secp256k1p_modulus_odd as Ho. pose proof gen_secp256k1p_modulus_ne as Hne. rewrite <- Hv in *. rewrite gen_secp256k1p_square_in_place_eq. cbv [square_in_place length Nat.eqb gen_secp256k1p_modulus]. reflexivity. Qed.

(* ================= Bls381Fq: N = 6, 381 bits, no-carry true, spare bit true ================= *)
Lemma gen_bls381fq_modulus_val  :
  val gen_bls381fq_modulus = gen_bls381fq_modulus_attr /\ length gen_bls381fq_modulus = 6%nat /\ wf gen_bls381fq_modulus /\ gen_bls381fq_modulus_attr mod 2 = 1 /\
  gen_bls381fq_modulus_attr = 4002409555221667393417789825735904156556882819939007885332058136124031650490837864442687629129015664037894272559787.
Proof. split; [vm_compute; reflexivity|]. split; [reflexivity|]. split; [cbv [gen_bls381fq_modulus]; lit_wf |]. split; [vm_compute; reflexivity | reflexivity]. Qed.
Lemma gen_bls381fq_modulus_wf : wf gen_bls381fq_modulus. Proof. exact (proj1 (proj2 (proj2 gen_bls381fq_modulus_val))). Qed.
Lemma gen_bls381fq_modulus_odd : val gen_bls381fq_modulus mod 2 = 1. Proof. rewrite (proj1 gen_bls381fq_modulus_val). exact (proj1 (proj2 (proj2 (proj2 gen_bls381fq_modulus_val)))). Qed.
Lemma gen_bls381fq_modulus_ne : gen_bls381fq_modulus <> []. Proof. discriminate. Qed.
Lemma gen_bls381fq_flags  :
  has_spare_bit gen_bls381fq_modulus = true /\ nocarry_macro gen_bls381fq_modulus = true.
Proof. split; vm_compute; reflexivity. Qed.
Lemma gen_bls381fq_spare : has_spare_bit gen_bls381fq_modulus = true. Proof. exact (proj1 gen_bls381fq_flags). Qed.
Lemma gen_bls381fq_nc : nocarry_macro gen_bls381fq_modulus = true. Proof. exact (proj2 gen_bls381fq_flags). Qed.
Lemma gen_bls381fq_add_with_carry_eq a0 a1 a2 a3 a4 a5 b0 b1 b2 b3 b4 b5 :
  gen_bls381fq_add_with_carry a0 a1 a2 a3 a4 a5 b0 b1 b2 b3 b4 b5 = add_with_carry [a0; a1; a2; a3; a4; a5] [b0; b1; b2; b3; b4; b5].
Proof. cbv [gen_bls381fq_add_with_carry add_with_carry add_chain]. crush. Qed.
Lemma gen_bls381fq_sub_with_borrow_eq a0 a1 a2 a3 a4 a5 b0 b1 b2 b3 b4 b5 :
  gen_bls381fq_sub_with_borrow a0 a1 a2 a3 a4 a5 b0 b1 b2 b3 b4 b5 = sub_with_borrow [a0; a1; a2; a3; a4; a5] [b0; b1; b2; b3; b4; b5].
Proof. cbv [gen_bls381fq_sub_with_borrow sub_with_borrow sub_chain]. crush. Qed.
Lemma gen_bls381fq_subtract_modulus_eq a0 a1 a2 a3 a4 a5 :
  gen_bls381fq_subtract_modulus a0 a1 a2 a3 a4 a5 = subtract_modulus gen_bls381fq_modulus [a0; a1; a2; a3; a4; a5].
Proof. cbv [gen_bls381fq_subtract_modulus gen_bls381fq_modulus subtract_modulus subtract_modulus_with_carry is_geq_modulus sub_with_borrow sub_chain add_with_carry add_chain fst snd negb orb andb]. gen_lits gen_bls381fq_modulus. crush. Qed.
Lemma gen_bls381fq_subtract_modulus_with_carry_eq a0 a1 a2 a3 a4 a5 carry :
  gen_bls381fq_subtract_modulus_with_carry a0 a1 a2 a3 a4 a5 carry = subtract_modulus_with_carry gen_bls381fq_modulus [a0; a1; a2; a3; a4; a5] carry.
Proof. cbv [gen_bls381fq_subtract_modulus_with_carry gen_bls381fq_modulus subtract_modulus subtract_modulus_with_carry is_geq_modulus sub_with_borrow sub_chain add_with_carry add_chain fst snd negb orb andb]. gen_lits gen_bls381fq_modulus. crush. Qed.
Lemma gen_bls381fq_add_assign_eq a0 a1 a2 a3 a4 a5 b0 b1 b2 b3 b4 b5 :
  gen_bls381fq_add_assign a0 a1 a2 a3 a4 a5 b0 b1 b2 b3 b4 b5 = add_assign gen_bls381fq_modulus [a0; a1; a2; a3; a4; a5] [b0; b1; b2; b3; b4; b5].
Proof. cbv [add_assign final_sub]. rewrite gen_bls381fq_spare. cbv [gen_bls381fq_add_assign gen_bls381fq_modulus subtract_modulus subtract_modulus_with_carry is_geq_modulus sub_with_borrow sub_chain add_with_carry add_chain fst snd negb orb andb]. gen_lits gen_bls381fq_modulus. crush. Qed.
Lemma gen_bls381fq_sub_assign_eq a0 a1 a2 a3 a4 a5 b0 b1 b2 b3 b4 b5 :
  gen_bls381fq_sub_assign a0 a1 a2 a3 a4 a5 b0 b1 b2 b3 b4 b5 = sub_assign gen_bls381fq_modulus [a0; a1; a2; a3; a4; a5] [b0; b1; b2; b3; b4; b5].
Proof. cbv [gen_bls381fq_sub_assign gen_bls381fq_modulus sub_assign sub_with_borrow sub_chain add_with_carry add_chain fst snd negb orb andb]. gen_lits gen_bls381fq_modulus. crush. Qed.
Lemma gen_bls381fq_double_in_place_eq a0 a1 a2 a3 a4 a5 :
  gen_bls381fq_double_in_place a0 a1 a2 a3 a4 a5 = double_in_place gen_bls381fq_modulus [a0; a1; a2; a3; a4; a5].
Proof. cbv [double_in_place final_sub]. rewrite gen_bls381fq_spare. cbv [gen_bls381fq_double_in_place gen_bls381fq_modulus mul2 mul2_chain subtract_modulus subtract_modulus_with_carry is_geq_modulus sub_with_borrow sub_chain add_with_carry add_chain fst snd negb orb andb]. gen_lits gen_bls381fq_modulus. crush. Qed.
Lemma gen_bls381fq_neg_in_place_eq a0 a1 a2 a3 a4 a5 :
  gen_bls381fq_neg_in_place a0 a1 a2 a3 a4 a5 = neg_in_place gen_bls381fq_modulus [a0; a1; a2; a3; a4; a5].
Proof. cbv [gen_bls381fq_neg_in_place gen_bls381fq_modulus neg_in_place is_zero forallb sub_with_borrow sub_chain add_with_carry add_chain fst snd negb orb andb]. gen_lits gen_bls381fq_modulus. crush. Qed.
Lemma gen_bls381fq_mul_assign_eq a0 a1 a2 a3 a4 a5 b0 b1 b2 b3 b4 b5 :
  gen_bls381fq_mul_assign (inv_of gen_bls381fq_modulus) a0 a1 a2 a3 a4 a5 b0 b1 b2 b3 b4 b5 = mul_assign_w (nocarry_macro gen_bls381fq_modulus) (has_spare_bit gen_bls381fq_modulus) gen_bls381fq_modulus [a0; a1; a2; a3; a4; a5] [b0; b1; b2; b3; b4; b5].
Proof. rewrite gen_bls381fq_spare, gen_bls381fq_nc. cbv [gen_bls381fq_mul_assign gen_bls381fq_modulus mul_assign_w nc_rows_w nc_row_w nc_inner fold_left mul_without_cond_subtract red_rows mul_rows mac_row set_first skipn firstn length zeros repeat app Nat.add subtract_modulus subtract_modulus_with_carry is_geq_modulus sub_with_borrow sub_chain add_with_carry add_chain fst snd negb orb andb]. gen_lits gen_bls381fq_modulus. crush. Qed.
Lemma gen_bls381fq_square_in_place_eq a0 a1 a2 a3 a4 a5 :
  gen_bls381fq_square_in_place (inv_of gen_bls381fq_modulus) a0 a1 a2 a3 a4 a5 = square_full gen_bls381fq_modulus [a0; a1; a2; a3; a4; a5].
Proof. cbv [square_full final_sub]. rewrite gen_bls381fq_spare. cbv [gen_bls381fq_square_in_place gen_bls381fq_modulus sq_offdiag shl1_chain sq_diag sq_red_rows subtract_modulus subtract_modulus_with_carry is_geq_modulus mul_rows mac_row set_first skipn firstn length zeros repeat app Nat.add sub_with_borrow sub_chain add_with_carry add_chain fst snd negb orb andb]. gen_lits gen_bls381fq_modulus. crush_sq. Qed.
Lemma gen_bls381fq_add_assign_spec a0 a1 a2 a3 a4 a5 b0 b1 b2 b3 b4 b5 :
  wf [a0; a1; a2; a3; a4; a5] -> val [a0; a1; a2; a3; a4; a5] < gen_bls381fq_modulus_attr -> wf [b0; b1; b2; b3; b4; b5] -> val [b0; b1; b2; b3; b4; b5] < gen_bls381fq_modulus_attr ->
  let r := gen_bls381fq_add_assign a0 a1 a2 a3 a4 a5 b0 b1 b2 b3 b4 b5 in
  wf r /\ length r = 6%nat /\ val r < gen_bls381fq_modulus_attr /\ val r = (val [a0; a1; a2; a3; a4; a5] + val [b0; b1; b2; b3; b4; b5]) mod gen_bls381fq_modulus_attr.
Proof. intros Ha Hx Hb Hy. pose proof (proj1 gen_bls381fq_modulus_val) as Hv. pose proof gen_bls381fq_modulus_wf as Hm. pose proof gen_bls381fq_modulus_odd as Ho. pose proof gen_bls381fq_modulus_ne as Hne. rewrite gen_bls381fq_add_assign_eq. rewrite <- Hv in *. exact (add_assign_spec gen_bls381fq_modulus [a0; a1; a2; a3; a4; a5] [b0; b1; b2; b3; b4; b5] Hm Hne Ha Hb eq_refl eq_refl Hx Hy). Qed.
Lemma gen_bls381fq_sub_assign_spec a0 a1 a2 a3 a4 a5 b0 b1 b2 b3 b4 b5 :
  wf [a0; a1; a2; a3; a4; a5] -> val [a0; a1; a2; a3; a4; a5] < gen_bls381fq_modulus_attr -> wf [b0; b1; b2; b3; b4; b5] -> val [b0; b1; b2; b3; b4; b5] < gen_bls381fq_modulus_attr ->
  let r := gen_bls381fq_sub_assign a0 a1 a2 a3 a4 a5 b0 b1 b2 b3 b4 b5 in
  wf r /\ length r = 6%nat /\ val r < gen_bls381fq_modulus_attr /\ val r = (val [a0; a1; a2; a3; a4; a5] - val [b0; b1; b2; b3; b4; b5]) mod gen_bls381fq_modulus_attr.
Proof. intros Ha Hx Hb Hy. pose proof (proj1 gen_bls381fq_modulus_val) as Hv. pose proof gen_bls381fq_modulus_wf as Hm. pose proof gen_bls381fq_modulus_odd as Ho. pose proof gen_bls381fq_modulus_ne as Hne. rewrite gen_bls381fq_sub_assign_eq. rewrite <- Hv in *. exact (sub_assign_spec gen_bls381fq_modulus [a0; a1; a2; a3; a4; a5] [b0; b1; b2; b3; b4; b5] Hm Ha Hb eq_refl eq_refl Hx Hy). Qed.
Lemma gen_bls381fq_double_in_place_spec a0 a1 a2 a3 a4 a5 :
  wf [a0; a1; a2; a3; a4; a5] -> val [a0; a1; a2; a3; a4; a5] < gen_bls381fq_modulus_attr ->
  let r := gen_bls381fq_double_in_place a0 a1 a2 a3 a4 a5 in
  wf r /\ length r = 6%nat /\ val r < gen_bls381fq_modulus_attr /\ val r = (2 * val [a0; a1; a2; a3; a4; a5]) mod gen_bls381fq_modulus_attr.
Proof. intros Ha Hx. pose proof (proj1 gen_bls381fq_modulus_val) as Hv. pose proof gen_bls381fq_modulus_wf as Hm. pose proof gen_bls381fq_modulus_odd as Ho. pose proof gen_bls381fq_modulus_ne as Hne. rewrite gen_bls381fq_double_in_place_eq. rewrite <- Hv in *. exact (double_in_place_spec gen_bls381fq_modulus [a0; a1; a2; a3; a4; a5] Hm Hne Ha eq_refl Hx). Qed.
Lemma gen_bls381fq_neg_in_place_spec a0 a1 a2 a3 a4 a5 :
  wf [a0; a1; a2; a3; a4; a5] -> val [a0; a1; a2; a3; a4; a5] < gen_bls381fq_modulus_attr ->
  let r := gen_bls381fq_neg_in_place a0 a1 a2 a3 a4 a5 in
  wf r /\ length r = 6%nat /\ val r < gen_bls381fq_modulus_attr /\ val r = (- val [a0; a1; a2; a3; a4; a5]) mod gen_bls381fq_modulus_attr.
Proof. intros Ha Hx. pose proof (proj1 gen_bls381fq_modulus_val) as Hv. pose proof gen_bls381fq_modulus_wf as Hm. pose proof gen_bls381fq_modulus_odd as Ho. pose proof gen_bls381fq_modulus_ne as Hne. rewrite gen_bls381fq_neg_in_place_eq. rewrite <- Hv in *. exact (neg_in_place_spec gen_bls381fq_modulus [a0; a1; a2; a3; a4; a5] Hm Ha eq_refl Hx). Qed.
Lemma gen_bls381fq_mul_assign_spec a0 a1 a2 a3 a4 a5 b0 b1 b2 b3 b4 b5 :
  wf [a0; a1; a2; a3; a4; a5] -> val [a0; a1; a2; a3; a4; a5] < gen_bls381fq_modulus_attr -> wf [b0; b1; b2; b3; b4; b5] -> val [b0; b1; b2; b3; b4; b5] < gen_bls381fq_modulus_attr ->
  let r := gen_bls381fq_mul_assign (inv_of gen_bls381fq_modulus) a0 a1 a2 a3 a4 a5 b0 b1 b2 b3 b4 b5 in
  wf r /\ length r = 6%nat /\ val r < gen_bls381fq_modulus_attr /\ (val r * Wn 6) mod gen_bls381fq_modulus_attr = (val [a0; a1; a2; a3; a4; a5] * val [b0; b1; b2; b3; b4; b5]) mod gen_bls381fq_modulus_attr.
Proof. intros Ha Hx Hb Hy. pose proof (proj1 gen_bls381fq_modulus_val) as Hv. pose proof gen_bls381fq_modulus_wf as Hm. pose proof gen_bls381fq_modulus_odd as Ho. pose proof gen_bls381fq_modulus_ne as Hne. rewrite <- Hv in *. rewrite gen_bls381fq_mul_assign_eq, mul_assign_w_derived_eq by auto. exact (mul_assign_spec true gen_bls381fq_modulus [a0; a1; a2; a3; a4; a5] [b0; b1; b2; b3; b4; b5] Hm Ha Hb eq_refl eq_refl Ho Hx Hy). Qed.
Lemma gen_bls381fq_square_in_place_spec a0 a1 a2 a3 a4 a5 :
  wf [a0; a1; a2; a3; a4; a5] -> val [a0; a1; a2; a3; a4; a5] < gen_bls381fq_modulus_attr ->
  let r := gen_bls381fq_square_in_place (inv_of gen_bls381fq_modulus) a0 a1 a2 a3 a4 a5 in
  wf r /\ length r = 6%nat /\ val r < gen_bls381fq_modulus_attr /\ (val r * Wn 6) mod gen_bls381fq_modulus_attr = (val [a0; a1; a2; a3; a4; a5] * val [a0; a1; a2; a3; a4; a5]) mod gen_bls381fq_modulus_attr.
Proof. intros Ha Hx. pose proof (proj1 gen_bls381fq_modulus_val) as Hv. pose proof gen_bls381fq_modulus_wf as Hm. pose proof gen_bls381fq_modulus_odd as Ho. pose proof gen_bls381fq_modulus_ne as Hne. rewrite <- Hv in *. rewrite gen_bls381fq_square_in_place_eq. exact (square_full_spec gen_bls381fq_modulus [a0; a1; a2; a3; a4; a5] Hm Ha eq_refl Ho Hx). Qed.
Lemma gen_bls381fq_mul_assign_model a0 a1 a2 a3 a4 a5 b0 b1 b2 b3 b4 b5 :
  wf [a0; a1; a2; a3; a4; a5] -> wf [b0; b1; b2; b3; b4; b5] -> val [a0; a1; a2; a3; a4; a5] < gen_bls381fq_modulus_attr ->
  gen_bls381fq_mul_assign (inv_of gen_bls381fq_modulus) a0 a1 a2 a3 a4 a5 b0 b1 b2 b3 b4 b5 = mul_assign true gen_bls381fq_modulus [a0; a1; a2; a3; a4; a5] [b0; b1; b2; b3; b4; b5].
Proof. intros Ha Hb Hx. pose proof (proj1 gen_bls381fq_modulus_val) as Hv. pose proof gen_bls381fq_modulus_wf as Hm. pose proof gen_bls381fq_modulus_odd as Ho. pose proof gen_bls381fq_modulus_ne as Hne. rewrite <- Hv in *. rewrite gen_bls381fq_mul_assign_eq. apply mul_assign_w_derived_eq; auto. Qed.
Lemma gen_bls381fq_square_in_place_model a0 a1 a2 a3 a4 a5 :
  wf [a0; a1; a2; a3; a4; a5] -> val [a0; a1; a2; a3; a4; a5] < gen_bls381fq_modulus_attr ->
  gen_bls381fq_square_in_place (inv_of gen_bls381fq_modulus) a0 a1 a2 a3 a4 a5 = square_in_place true gen_bls381fq_modulus [a0; a1; a2; a3; a4; a5].
Proof. intros Ha Hx. pose proof (proj1 gen_bls381fq_modulus_val) as Hv. pose proof gen_bls381fq_modulus_wf as Hm. pose proof gen_bls381fq_modulus_odd as Ho. pose proof gen_bls381fq_modulus_ne as Hne. rewrite <- Hv in *. rewrite gen_bls381fq_square_in_place_eq. cbv [square_in_place length Nat.eqb gen_bls381fq_modulus]. reflexivity. Qed.

(* ================= Z191: N = 3, 191 bits, no-carry false, spare bit true ================= *)
Lemma gen_z191_modulus_val  :
  val gen_z191_modulus = gen_z191_modulus_attr /\ length gen_z191_modulus = 3%nat /\ wf gen_z191_modulus /\ gen_z191_modulus_attr mod 2 = 1 /\
  gen_z191_modulus_attr = 3138550867693340381577612344682894744587803114800249045299.
Proof. split; [vm_compute; reflexivity|]. split; [reflexivity|]. split; [cbv [gen_z191_modulus]; lit_wf |]. split; [vm_compute; reflexivity | reflexivity]. Qed.
Lemma gen_z191_modulus_wf : wf gen_z191_modulus. Proof. exact (proj1 (proj2 (proj2 gen_z191_modulus_val))). Qed.
Lemma gen_z191_modulus_odd : val gen_z191_modulus mod 2 = 1. Proof. rewrite (proj1 gen_z191_modulus_val). exact (proj1 (proj2 (proj2 (proj2 gen_z191_modulus_val)))). Qed.
Lemma gen_z191_modulus_ne : gen_z191_modulus <> []. Proof. discriminate. Qed.
Lemma gen_z191_flags  :
  has_spare_bit gen_z191_modulus = true /\ nocarry_macro gen_z191_modulus = false.
Proof. split; vm_compute; reflexivity. Qed.
Lemma gen_z191_spare : has_spare_bit gen_z191_modulus = true. Proof. exact (proj1 gen_z191_flags). Qed.
Lemma gen_z191_nc : nocarry_macro gen_z191_modulus = false. Proof. exact (proj2 gen_z191_flags). Qed.
Lemma gen_z191_add_with_carry_eq a0 a1 a2 b0 b1 b2 :
  gen_z191_add_with_carry a0 a1 a2 b0 b1 b2 = add_with_carry [a0; a1; a2] [b0; b1; b2].
Proof. cbv [gen_z191_add_with_carry add_with_carry add_chain]. crush. Qed.
Lemma gen_z191_sub_with_borrow_eq a0 a1 a2 b0 b1 b2 :
  gen_z191_sub_with_borrow a0 a1 a2 b0 b1 b2 = sub_with_borrow [a0; a1; a2] [b0; b1; b2].
Proof. cbv [gen_z191_sub_with_borrow sub_with_borrow sub_chain]. crush. Qed.
Lemma gen_z191_subtract_modulus_eq a0 a1 a2 :
  gen_z191_subtract_modulus a0 a1 a2 = subtract_modulus gen_z191_modulus [a0; a1; a2].
Proof. cbv [gen_z191_subtract_modulus gen_z191_modulus subtract_modulus subtract_modulus_with_carry is_geq_modulus sub_with_borrow sub_chain add_with_carry add_chain fst snd negb orb andb]. gen_lits gen_z191_modulus. crush. Qed.
Lemma gen_z191_subtract_modulus_with_carry_eq a0 a1 a2 carry :
  gen_z191_subtract_modulus_with_carry a0 a1 a2 carry = subtract_modulus_with_carry gen_z191_modulus [a0; a1; a2] carry.
Proof. cbv [gen_z191_subtract_modulus_with_carry gen_z191_modulus subtract_modulus subtract_modulus_with_carry is_geq_modulus sub_with_borrow sub_chain add_with_carry add_chain fst snd negb orb andb]. gen_lits gen_z191_modulus. crush. Qed.
Lemma gen_z191_add_assign_eq a0 a1 a2 b0 b1 b2 :
  gen_z191_add_assign a0 a1 a2 b0 b1 b2 = add_assign gen_z191_modulus [a0; a1; a2] [b0; b1; b2].
Proof. cbv [add_assign final_sub]. rewrite gen_z191_spare. cbv [gen_z191_add_assign gen_z191_modulus subtract_modulus subtract_modulus_with_carry is_geq_modulus sub_with_borrow sub_chain add_with_carry add_chain fst snd negb orb andb]. gen_lits gen_z191_modulus. crush. Qed.
Lemma gen_z191_sub_assign_eq a0 a1 a2 b0 b1 b2 :
  gen_z191_sub_assign a0 a1 a2 b0 b1 b2 = sub_assign gen_z191_modulus [a0; a1; a2] [b0; b1; b2].
Proof. cbv [gen_z191_sub_assign gen_z191_modulus sub_assign sub_with_borrow sub_chain add_with_carry add_chain fst snd negb orb andb]. gen_lits gen_z191_modulus. crush. Qed.
Lemma gen_z191_double_in_place_eq a0 a1 a2 :
  gen_z191_double_in_place a0 a1 a2 = double_in_place gen_z191_modulus [a0; a1; a2].
Proof. cbv [double_in_place final_sub]. rewrite gen_z191_spare. cbv [gen_z191_double_in_place gen_z191_modulus mul2 mul2_chain subtract_modulus subtract_modulus_with_carry is_geq_modulus sub_with_borrow sub_chain add_with_carry add_chain fst snd negb orb andb]. gen_lits gen_z191_modulus. crush. Qed.
Lemma gen_z191_neg_in_place_eq a0 a1 a2 :
  gen_z191_neg_in_place a0 a1 a2 = neg_in_place gen_z191_modulus [a0; a1; a2].
Proof. cbv [gen_z191_neg_in_place gen_z191_modulus neg_in_place is_zero forallb sub_with_borrow sub_chain add_with_carry add_chain fst snd negb orb andb]. gen_lits gen_z191_modulus. crush. Qed.
Lemma gen_z191_mul_assign_eq a0 a1 a2 b0 b1 b2 :
  gen_z191_mul_assign (inv_of gen_z191_modulus) a0 a1 a2 b0 b1 b2 = mul_assign_w (nocarry_macro gen_z191_modulus) (has_spare_bit gen_z191_modulus) gen_z191_modulus [a0; a1; a2] [b0; b1; b2].
Proof. rewrite gen_z191_spare, gen_z191_nc. cbv [gen_z191_mul_assign gen_z191_modulus mul_assign_w nc_rows_w nc_row_w nc_inner fold_left mul_without_cond_subtract red_rows mul_rows mac_row set_first skipn firstn length zeros repeat app Nat.add subtract_modulus subtract_modulus_with_carry is_geq_modulus sub_with_borrow sub_chain add_with_carry add_chain fst snd negb orb andb]. gen_lits gen_z191_modulus. crush. Qed.
Lemma gen_z191_square_in_place_eq a0 a1 a2 :
  gen_z191_square_in_place (inv_of gen_z191_modulus) a0 a1 a2 = square_full gen_z191_modulus [a0; a1; a2].
Proof. cbv [square_full final_sub]. rewrite gen_z191_spare. cbv [gen_z191_square_in_place gen_z191_modulus sq_offdiag shl1_chain sq_diag sq_red_rows subtract_modulus subtract_modulus_with_carry is_geq_modulus mul_rows mac_row set_first skipn firstn length zeros repeat app Nat.add sub_with_borrow sub_chain add_with_carry add_chain fst snd negb orb andb]. gen_lits gen_z191_modulus. crush_sq. Qed.
Lemma gen_z191_add_assign_spec a0 a1 a2 b0 b1 b2 :
  wf [a0; a1; a2] -> val [a0; a1; a2] < gen_z191_modulus_attr -> wf [b0; b1; b2] -> val [b0; b1; b2] < gen_z191_modulus_attr ->
  let r := gen_z191_add_assign a0 a1 a2 b0 b1 b2 in
  wf r /\ length r = 3%nat /\ val r < gen_z191_modulus_attr /\ val r = (val [a0; a1; a2] + val [b0; b1; b2]) mod gen_z191_modulus_attr.
Proof. intros Ha Hx Hb Hy. pose proof (proj1 gen_z191_modulus_val) as Hv. pose proof gen_z191_modulus_wf as Hm. pose proof gen_z191_modulus_odd as Ho. pose proof gen_z191_modulus_ne as Hne. rewrite gen_z191_add_assign_eq. rewrite <- Hv in *. exact (add_assign_spec gen_z191_modulus [a0; a1; a2] [b0; b1; b2] Hm Hne Ha Hb eq_refl eq_refl Hx Hy). Qed.
Lemma gen_z191_sub_assign_spec a0 a1 a2 b0 b1 b2 :
  wf [a0; a1; a2] -> val [a0; a1; a2] < gen_z191_modulus_attr -> wf [b0; b1; b2] -> val [b0; b1; b2] < gen_z191_modulus_attr ->
  let r := gen_z191_sub_assign a0 a1 a2 b0 b1 b2 in
  wf r /\ length r = 3%nat /\ val r < gen_z191_modulus_attr /\ val r = (val [a0; a1; a2] - val [b0; b1; b2]) mod gen_z191_modulus_attr.
Proof. intros Ha Hx Hb Hy. pose proof (proj1 gen_z191_modulus_val) as Hv. pose proof gen_z191_modulus_wf as Hm. pose proof gen_z191_modulus_odd as Ho. pose proof gen_z191_modulus_ne as Hne. rewrite gen_z191_sub_assign_eq. rewrite <- Hv in *. exact (sub_assign_spec gen_z191_modulus [a0; a1; a2] [b0; b1; b2] Hm Ha Hb eq_refl eq_refl Hx Hy). Qed.
Lemma gen_z191_double_in_place_spec a0 a1 a2 :
  wf [a0; a1; a2] -> val [a0; a1; a2] < gen_z191_modulus_attr ->
  let r := gen_z191_double_in_place a0 a1 a2 in
  wf r /\ length r = 3%nat /\ val r < gen_z191_modulus_attr /\ val r = (2 * val [a0; a1; a2]) mod gen_z191_modulus_attr.
Proof. intros Ha Hx. pose proof (proj1 gen_z191_modulus_val) as Hv. pose proof gen_z191_modulus_wf as Hm. pose proof gen_z191_modulus_odd as Ho. pose proof gen_z191_modulus_ne as Hne. rewrite gen_z191_double_in_place_eq. rewrite <- Hv in *. exact (double_in_place_spec gen_z191_modulus [a0; a1; a2] Hm Hne Ha eq_refl Hx). Qed.
Lemma gen_z191_neg_in_place_spec a0 a1 a2 :
  wf [a0; a1; a2] -> val [a0; a1; a2] < gen_z191_modulus_attr ->
  let r := gen_z191_neg_in_place a0 a1 a2 in
  wf r /\ length r = 3%nat /\ val r < gen_z191_modulus_attr /\ val r = (- val [a0; a1; a2]) mod gen_z191_modulus_attr.
Proof. intros Ha Hx. pose proof (proj1 gen_z191_modulus_val) as Hv. pose proof gen_z191_modulus_wf as Hm. pose proof gen_z191_modulus_odd as Ho. pose proof gen_z191_modulus_ne as Hne. rewrite gen_z191_neg_in_place_eq. rewrite <- Hv in *. exact (neg_in_place_spec gen_z191_modulus [a0; a1; a2] Hm Ha eq_refl Hx). Qed.
Lemma gen_z191_mul_assign_spec a0 a1 a2 b0 b1 b2 :
  wf [a0; a1; a2] -> val [a0; a1; a2] < gen_z191_modulus_attr -> wf [b0; b1; b2] -> val [b0; b1; b2] < gen_z191_modulus_attr ->
  let r := gen_z191_mul_assign (inv_of gen_z191_modulus) a0 a1 a2 b0 b1 b2 in
  wf r /\ length r = 3%nat /\ val r < gen_z191_modulus_attr /\ (val r * Wn 3) mod gen_z191_modulus_attr = (val [a0; a1; a2] * val [b0; b1; b2]) mod gen_z191_modulus_attr.
Proof. intros Ha Hx Hb Hy. pose proof (proj1 gen_z191_modulus_val) as Hv. pose proof gen_z191_modulus_wf as Hm. pose proof gen_z191_modulus_odd as Ho. pose proof gen_z191_modulus_ne as Hne. rewrite <- Hv in *. rewrite gen_z191_mul_assign_eq, mul_assign_w_derived_eq by auto. exact (mul_assign_spec true gen_z191_modulus [a0; a1; a2] [b0; b1; b2] Hm Ha Hb eq_refl eq_refl Ho Hx Hy). Qed.
Lemma gen_z191_square_in_place_spec a0 a1 a2 :
  wf [a0; a1; a2] -> val [a0; a1; a2] < gen_z191_modulus_attr ->
  let r := gen_z191_square_in_place (inv_of gen_z191_modulus) a0 a1 a2 in
  wf r /\ length r = 3%nat /\ val r < gen_z191_modulus_attr /\ (val r * Wn 3) mod gen_z191_modulus_attr = (val [a0; a1; a2] * val [a0; a1; a2]) mod gen_z191_modulus_attr.
Proof. intros Ha Hx. pose proof (proj1 gen_z191_modulus_val) as Hv. pose proof gen_z191_modulus_wf as Hm. pose proof gen_z191_modulus_odd as Ho. pose proof gen_z191_modulus_ne as Hne. rewrite <- Hv in *. rewrite gen_z191_square_in_place_eq. exact (square_full_spec gen_z191_modulus [a0; a1; a2] Hm Ha eq_refl Ho Hx). Qed.
Lemma gen_z191_mul_assign_model a0 a1 a2 b0 b1 b2 :
  wf [a0; a1; a2] -> wf [b0; b1; b2] -> val [a0; a1; a2] < gen_z191_modulus_attr ->
  gen_z191_mul_assign (inv_of gen_z191_modulus) a0 a1 a2 b0 b1 b2 = mul_assign true gen_z191_modulus [a0; a1; a2] [b0; b1; b2].
Proof. intros Ha Hb Hx. pose proof (proj1 gen_z191_modulus_val) as Hv. pose proof gen_z191_modulus_wf as Hm. pose proof gen_z191_modulus_odd as Ho. pose proof gen_z191_modulus_ne as Hne. rewrite <- Hv in *. rewrite gen_z191_mul_assign_eq. apply mul_assign_w_derived_eq; auto. Qed.
Lemma gen_z191_square_in_place_model a0 a1 a2 :
  wf [a0; a1; a2] -> val [a0; a1; a2] < gen_z191_modulus_attr ->
  gen_z191_square_in_place (inv_of gen_z191_modulus) a0 a1 a2 = square_in_place true gen_z191_modulus [a0; a1; a2].
Proof. intros Ha Hx. pose proof (proj1 gen_z191_modulus_val) as Hv. pose proof gen_z191_modulus_wf as Hm. pose proof gen_z191_modulus_odd as Ho. pose proof gen_z191_modulus_ne as Hne. rewrite <- Hv in *. rewrite gen_z191_square_in_place_eq. cbv [square_in_place length Nat.eqb gen_z191_modulus]. reflexivity. Qed.

(* ================= Z254: N = 4, 254 bits, no-carry true, spare bit true ================= *)
Lemma gen_z254_modulus_val  :
  val gen_z254_modulus = gen_z254_modulus_attr /\ length gen_z254_modulus = 4%nat /\ wf gen_z254_modulus /\ gen_z254_modulus_attr mod 2 = 1 /\
  gen_z254_modulus_attr = 14474011154664524434223474861472669245494537506412736921034553445453175718117.
Proof. split; [vm_compute; reflexivity|]. split; [reflexivity|]. split; [cbv [gen_z254_modulus]; lit_wf |]. split; [vm_compute; reflexivity | reflexivity]. Qed.
Lemma gen_z254_modulus_wf : wf gen_z254_modulus. Proof. exact (proj1 (proj2 (proj2 gen_z254_modulus_val))). Qed.
Lemma gen_z254_modulus_odd : val gen_z254_modulus mod 2 = 1. Proof. rewrite (proj1 gen_z254_modulus_val). exact (proj1 (proj2 (proj2 (proj2 gen_z254_modulus_val)))). Qed.
Lemma gen_z254_modulus_ne : gen_z254_modulus <> []. Proof. discriminate. Qed.
Lemma gen_z254_flags  :
  has_spare_bit gen_z254_modulus = true /\ nocarry_macro gen_z254_modulus = true.
Proof. split; vm_compute; reflexivity. Qed.
Lemma gen_z254_spare : has_spare_bit gen_z254_modulus = true. Proof. exact (proj1 gen_z254_flags). Qed.
Lemma gen_z254_nc : nocarry_macro gen_z254_modulus = true. Proof. exact (proj2 gen_z254_flags). Qed.
Lemma gen_z254_add_with_carry_eq a0 a1 a2 a3 b0 b1 b2 b3 :
  gen_z254_add_with_carry a0 a1 a2 a3 b0 b1 b2 b3 = add_with_carry [a0; a1; a2; a3] [b0; b1; b2; b3].
Proof. cbv [gen_z254_add_with_carry add_with_carry add_chain]. crush. Qed.
Lemma gen_z254_sub_with_borrow_eq a0 a1 a2 a3 b0 b1 b2 b3 :
  gen_z254_sub_with_borrow a0 a1 a2 a3 b0 b1 b2 b3 = sub_with_borrow [a0; a1; a2; a3] [b0; b1; b2; b3].
Proof. cbv [gen_z254_sub_with_borrow sub_with_borrow sub_chain]. crush. Qed.
Lemma gen_z254_subtract_modulus_eq a0 a1 a2 a3 :
  gen_z254_subtract_modulus a0 a1 a2 a3 = subtract_modulus gen_z254_modulus [a0; a1; a2; a3].
Proof. cbv [gen_z254_subtract_modulus gen_z254_modulus subtract_modulus subtract_modulus_with_carry is_geq_modulus sub_with_borrow sub_chain add_with_carry add_chain fst snd negb orb andb]. gen_lits gen_z254_modulus. crush. Qed.
Lemma gen_z254_subtract_modulus_with_carry_eq a0 a1 a2 a3 carry :
  gen_z254_subtract_modulus_with_carry a0 a1 a2 a3 carry = subtract_modulus_with_carry gen_z254_modulus [a0; a1; a2; a3] carry.
Proof. cbv [gen_z254_subtract_modulus_with_carry gen_z254_modulus subtract_modulus subtract_modulus_with_carry is_geq_modulus sub_with_borrow sub_chain add_with_carry add_chain fst snd negb orb andb]. gen_lits gen_z254_modulus. crush. Qed.
Lemma gen_z254_add_assign_eq a0 a1 a2 a3 b0 b1 b2 b3 :
  gen_z254_add_assign a0 a1 a2 a3 b0 b1 b2 b3 = add_assign gen_z254_modulus [a0; a1; a2; a3] [b0; b1; b2; b3].
Proof. cbv [add_assign final_sub]. rewrite gen_z254_spare. cbv [gen_z254_add_assign gen_z254_modulus subtract_modulus subtract_modulus_with_carry is_geq_modulus sub_with_borrow sub_chain add_with_carry add_chain fst snd negb orb andb]. gen_lits gen_z254_modulus. crush. Qed.
Lemma gen_z254_sub_assign_eq a0 a1 a2 a3 b0 b1 b2 b3 :
  gen_z254_sub_assign a0 a1 a2 a3 b0 b1 b2 b3 = sub_assign gen_z254_modulus [a0; a1; a2; a3] [b0; b1; b2; b3].
Proof. cbv [gen_z254_sub_assign gen_z254_modulus sub_assign sub_with_borrow sub_chain add_with_carry add_chain fst snd negb orb andb]. gen_lits gen_z254_modulus. crush. Qed.
Lemma gen_z254_double_in_place_eq a0 a1 a2 a3 :
  gen_z254_double_in_place a0 a1 a2 a3 = double_in_place gen_z254_modulus [a0; a1; a2; a3].
Proof. cbv [double_in_place final_sub]. rewrite gen_z254_spare. cbv [gen_z254_double_in_place gen_z254_modulus mul2 mul2_chain subtract_modulus subtract_modulus_with_carry is_geq_modulus sub_with_borrow sub_chain add_with_carry add_chain fst snd negb orb andb]. gen_lits gen_z254_modulus. crush. Qed.
Lemma gen_z254_neg_in_place_eq a0 a1 a2 a3 :
  gen_z254_neg_in_place a0 a1 a2 a3 = neg_in_place gen_z254_modulus [a0; a1; a2; a3].
Proof. cbv [gen_z254_neg_in_place gen_z254_modulus neg_in_place is_zero forallb sub_with_borrow sub_chain add_with_carry add_chain fst snd negb orb andb]. gen_lits gen_z254_modulus. crush. Qed.
Lemma gen_z254_mul_assign_eq a0 a1 a2 a3 b0 b1 b2 b3 :
  gen_z254_mul_assign (inv_of gen_z254_modulus) a0 a1 a2 a3 b0 b1 b2 b3 = mul_assign_w (nocarry_macro gen_z254_modulus) (has_spare_bit gen_z254_modulus) gen_z254_modulus [a0; a1; a2; a3] [b0; b1; b2; b3].
Proof. rewrite gen_z254_spare, gen_z254_nc. cbv [gen_z254_mul_assign gen_z254_modulus mul_assign_w nc_rows_w nc_row_w nc_inner fold_left mul_without_cond_subtract red_rows mul_rows mac_row set_first skipn firstn length zeros repeat app Nat.add subtract_modulus subtract_modulus_with_carry is_geq_modulus sub_with_borrow sub_chain add_with_carry add_chain fst snd negb orb andb]. gen_lits gen_z254_modulus. crush. Qed.
Lemma gen_z254_square_in_place_eq a0 a1 a2 a3 :
  gen_z254_square_in_place (inv_of gen_z254_modulus) a0 a1 a2 a3 = square_full gen_z254_modulus [a0; a1; a2; a3].
Proof. cbv [square_full final_sub]. rewrite gen_z254_spare. cbv [gen_z254_square_in_place gen_z254_modulus sq_offdiag shl1_chain sq_diag sq_red_rows subtract_modulus subtract_modulus_with_carry is_geq_modulus mul_rows mac_row set_first skipn firstn length zeros repeat app Nat.add sub_with_borrow sub_chain add_with_carry add_chain fst snd negb orb andb]. gen_lits gen_z254_modulus. crush_sq. Qed.
Lemma gen_z254_add_assign_spec a0 a1 a2 a3 b0 b1 b2 b3 :
  wf [a0; a1; a2; a3] -> val [a0; a1; a2; a3] < gen_z254_modulus_attr -> wf [b0; b1; b2; b3] -> val [b0; b1; b2; b3] < gen_z254_modulus_attr ->
  let r := gen_z254_add_assign a0 a1 a2 a3 b0 b1 b2 b3 in
  wf r /\ length r = 4%nat /\ val r < gen_z254_modulus_attr /\ val r = (val [a0; a1; a2; a3] + val [b0; b1; b2; b3]) mod gen_z254_modulus_attr.
Proof. intros Ha Hx Hb Hy. pose proof (proj1 gen_z254_modulus_val) as Hv. pose proof gen_z254_modulus_wf as Hm. pose proof gen_z254_modulus_odd as Ho. pose proof gen_z254_modulus_ne as Hne. rewrite gen_z254_add_assign_eq. rewrite <- Hv in *. exact (add_assign_spec gen_z254_modulus [a0; a1; a2; a3] [b0; b1; b2; b3] Hm Hne Ha Hb eq_refl eq_refl Hx Hy). Qed.
Lemma gen_z254_sub_assign_spec a0 a1 a2 a3 b0 b1 b2 b3 :
  wf [a0; a1; a2; a3] -> val [a0; a1; a2; a3] < gen_z254_modulus_attr -> wf [b0; b1; b2; b3] -> val [b0; b1; b2; b3] < gen_z254_modulus_attr ->
  let r := gen_z254_sub_assign a0 a1 a2 a3 b0 b1 b2 b3 in
  wf r /\ length r = 4%nat /\ val r < gen_z254_modulus_attr /\ val r = (val [a0; a1; a2; a3] - val [b0; b1; b2; b3]) mod gen_z254_modulus_attr.
Proof. intros Ha Hx Hb Hy. pose proof (proj1 gen_z254_modulus_val) as Hv. pose proof gen_z254_modulus_wf as Hm. pose proof gen_z254_modulus_odd as Ho. pose proof gen_z254_modulus_ne as Hne. rewrite gen_z254_sub_assign_eq. rewrite <- Hv in *. exact (sub_assign_spec gen_z254_modulus [a0; a1; a2; a3] [b0; b1; b2; b3] Hm Ha Hb eq_refl eq_refl Hx Hy). Qed.
Lemma gen_z254_double_in_place_spec a0 a1 a2 a3 :
  wf [a0; a1; a2; a3] -> val [a0; a1; a2; a3] < gen_z254_modulus_attr ->
  let r := gen_z254_double_in_place a0 a1 a2 a3 in
  wf r /\ length r = 4%nat /\ val r < gen_z254_modulus_attr /\ val r = (2 * val [a0; a1; a2; a3]) mod gen_z254_modulus_attr.
Proof. intros Ha Hx. pose proof (proj1 gen_z254_modulus_val) as Hv. pose proof gen_z254_modulus_wf as Hm. pose proof gen_z254_modulus_odd as Ho. pose proof gen_z254_modulus_ne as Hne. rewrite gen_z254_double_in_place_eq. rewrite <- Hv in *. exact (double_in_place_spec gen_z254_modulus [a0; a1; a2; a3] Hm Hne Ha eq_refl Hx). Qed.
Lemma gen_z254_neg_in_place_spec a0 a1 a2 a3 :
  wf [a0; a1; a2; a3] -> val [a0; a1; a2; a3] < gen_z254_modulus_attr ->
  let r := gen_z254_neg_in_place a0 a1 a2 a3 in
  wf r /\ length r = 4%nat /\ val r < gen_z254_modulus_attr /\ val r = (- val [a0; a1; a2; a3]) mod gen_z254_modulus_attr.
Proof. intros Ha Hx. pose proof (proj1 gen_z254_modulus_val) as Hv. pose proof gen_z254_modulus_wf as Hm. pose proof gen_z254_modulus_odd as Ho. pose proof gen_z254_modulus_ne as Hne. rewrite gen_z254_neg_in_place_eq. rewrite <- Hv in *. exact (neg_in_place_spec gen_z254_modulus [a0; a1; a2; a3] Hm Ha eq_refl Hx). Qed.
Lemma gen_z254_mul_assign_spec a0 a1 a2 a3 b0 b1 b2 b3 :
  wf [a0; a1; a2; a3] -> val [a0; a1; a2; a3] < gen_z254_modulus_attr -> wf [b0; b1; b2; b3] -> val [b0; b1; b2; b3] < gen_z254_modulus_attr ->
  let r := gen_z254_mul_assign (inv_of gen_z254_modulus) a0 a1 a2 a3 b0 b1 b2 b3 in
  wf r /\ length r = 4%nat /\ val r < gen_z254_modulus_attr /\ (val r * Wn 4) mod gen_z254_modulus_attr = (val [a0; a1; a2; a3] * val [b0; b1; b2; b3]) mod gen_z254_modulus_attr.
Proof. intros Ha Hx Hb Hy. pose proof (proj1 gen_z254_modulus_val) as Hv. pose proof gen_z254_modulus_wf as Hm. pose proof gen_z254_modulus_odd as Ho. pose proof gen_z254_modulus_ne as Hne. rewrite <- Hv in *. rewrite gen_z254_mul_assign_eq, mul_assign_w_derived_eq by auto. exact (mul_assign_spec true gen_z254_modulus [a0; a1; a2; a3] [b0; b1; b2; b3] Hm Ha Hb eq_refl eq_refl Ho Hx Hy). Qed.
Lemma gen_z254_square_in_place_spec a0 a1 a2 a3 :
  wf [a0; a1; a2; a3] -> val [a0; a1; a2; a3] < gen_z254_modulus_attr ->
  let r := gen_z254_square_in_place (inv_of gen_z254_modulus) a0 a1 a2 a3 in
  wf r /\ length r = 4%nat /\ val r < gen_z254_modulus_attr /\ (val r * Wn 4) mod gen_z254_modulus_attr = (val [a0; a1; a2; a3] * val [a0; a1; a2; a3]) mod gen_z254_modulus_attr.
Proof. intros Ha Hx. pose proof (proj1 gen_z254_modulus_val) as Hv. pose proof gen_z254_modulus_wf as Hm. pose proof gen_z254_modulus_odd as Ho. pose proof gen_z254_modulus_ne as Hne. rewrite <- Hv in *. rewrite gen_z254_square_in_place_eq. exact (square_full_spec gen_z254_modulus [a0; a1; a2; a3] Hm Ha eq_refl Ho Hx). Qed.
Lemma gen_z254_mul_assign_model a0 a1 a2 a3 b0 b1 b2 b3 :
  wf [a0; a1; a2; a3] -> wf [b0; b1; b2; b3] -> val [a0; a1; a2; a3] < gen_z254_modulus_attr ->
  gen_z254_mul_assign (inv_of gen_z254_modulus) a0 a1 a2 a3 b0 b1 b2 b3 = mul_assign true gen_z254_modulus [a0; a1; a2; a3] [b0; b1; b2; b3].
Proof. intros Ha Hb Hx. pose proof (proj1 gen_z254_modulus_val) as Hv. pose proof gen_z254_modulus_wf as Hm. pose proof gen_z254_modulus_odd as Ho. pose proof gen_z254_modulus_ne as Hne. rewrite <- Hv in *. rewrite gen_z254_mul_assign_eq. apply mul_assign_w_derived_eq; auto. Qed.
Lemma gen_z254_square_in_place_model a0 a1 a2 a3 :
  wf [a0; a1; a2; a3] -> val [a0; a1; a2; a3] < gen_z254_modulus_attr ->
  gen_z254_square_in_place (inv_of gen_z254_modulus) a0 a1 a2 a3 = square_in_place true gen_z254_modulus [a0; a1; a2; a3].
Proof. intros Ha Hx. pose proof (proj1 gen_z254_modulus_val) as Hv. pose proof gen_z254_modulus_wf as Hm. pose proof gen_z254_modulus_odd as Ho. pose proof gen_z254_modulus_ne as Hne. rewrite <- Hv in *. rewrite gen_z254_square_in_place_eq. cbv [square_in_place length Nat.eqb gen_z254_modulus]. reflexivity. Qed.

(* ================= Z255: N = 4, 255 bits, no-carry false, spare bit true ================= *)
Lemma gen_z255_modulus_val  :
  val gen_z255_modulus = gen_z255_modulus_attr /\ length gen_z255_modulus = 4%nat /\ wf gen_z255_modulus /\ gen_z255_modulus_attr mod 2 = 1 /\
  gen_z255_modulus_attr = 57896044618658097705508390768957273162799202909612615603626436559492530307207.
Proof. split; [vm_compute; reflexivity|]. split; [reflexivity|]. split; [cbv [gen_z255_modulus]; lit_wf |]. split; [vm_compute; reflexivity | reflexivity]. Qed.
Lemma gen_z255_modulus_wf : wf gen_z255_modulus. Proof. exact (proj1 (proj2 (proj2 gen_z255_modulus_val))). Qed.
Lemma gen_z255_modulus_odd : val gen_z255_modulus mod 2 = 1. Proof. rewrite (proj1 gen_z255_modulus_val). exact (proj1 (proj2 (proj2 (proj2 gen_z255_modulus_val)))). Qed.
Lemma gen_z255_modulus_ne : gen_z255_modulus <> []. Proof. discriminate. Qed.
Lemma gen_z255_flags  :
  has_spare_bit gen_z255_modulus = true /\ nocarry_macro gen_z255_modulus = false.
Proof. split; vm_compute; reflexivity. Qed.
Lemma gen_z255_spare : has_spare_bit gen_z255_modulus = true. Proof. exact (proj1 gen_z255_flags). Qed.
Lemma gen_z255_nc : nocarry_macro gen_z255_modulus = false. Proof. exact (proj2 gen_z255_flags). Qed.
Lemma gen_z255_add_with_carry_eq a0 a1 a2 a3 b0 b1 b2 b3 :
  gen_z255_add_with_carry a0 a1 a2 a3 b0 b1 b2 b3 = add_with_carry [a0; a1; a2; a3] [b0; b1; b2; b3].
Proof. cbv [gen_z255_add_with_carry add_with_carry add_chain]. crush. Qed.
Lemma gen_z255_sub_with_borrow_eq a0 a1 a2 a3 b0 b1 b2 b3 :
  gen_z255_sub_with_borrow a0 a1 a2 a3 b0 b1 b2 b3 = sub_with_borrow [a0; a1; a2; a3] [b0; b1; b2; b3].
Proof. cbv [gen_z255_sub_with_borrow sub_with_borrow sub_chain]. crush. Qed.
Lemma gen_z255_subtract_modulus_eq a0 a1 a2 a3 :
  gen_z255_subtract_modulus a0 a1 a2 a3 = subtract_modulus gen_z255_modulus [a0; a1; a2; a3].
Proof. cbv [gen_z255_subtract_modulus gen_z255_modulus subtract_modulus subtract_modulus_with_carry is_geq_modulus sub_with_borrow sub_chain add_with_carry add_chain fst snd negb orb andb]. gen_lits gen_z255_modulus. crush. Qed.
Lemma gen_z255_subtract_modulus_with_carry_eq a0 a1 a2 a3 carry :
  gen_z255_subtract_modulus_with_carry a0 a1 a2 a3 carry = subtract_modulus_with_carry gen_z255_modulus [a0; a1; a2; a3] carry.
Proof. cbv [gen_z255_subtract_modulus_with_carry gen_z255_modulus subtract_modulus subtract_modulus_with_carry is_geq_modulus sub_with_borrow sub_chain add_with_carry add_chain fst snd negb orb andb]. gen_lits gen_z255_modulus. crush. Qed.
Lemma gen_z255_add_assign_eq a0 a1 a2 a3 b0 b1 b2 b3 :
  gen_z255_add_assign a0 a1 a2 a3 b0 b1 b2 b3 = add_assign gen_z255_modulus [a0; a1; a2; a3] [b0; b1; b2; b3].
Proof. cbv [add_assign final_sub]. rewrite gen_z255_spare. cbv [gen_z255_add_assign gen_z255_modulus subtract_modulus subtract_modulus_with_carry is_geq_modulus sub_with_borrow sub_chain add_with_carry add_chain fst snd negb orb andb]. gen_lits gen_z255_modulus. crush. Qed.
Lemma gen_z255_sub_assign_eq a0 a1 a2 a3 b0 b1 b2 b3 :
  gen_z255_sub_assign a0 a1 a2 a3 b0 b1 b2 b3 = sub_assign gen_z255_modulus [a0; a1; a2; a3] [b0; b1; b2; b3].
Proof. cbv [gen_z255_sub_assign gen_z255_modulus sub_assign sub_with_borrow sub_chain add_with_carry add_chain fst snd negb orb andb]. gen_lits gen_z255_modulus. crush. Qed.
Lemma gen_z255_double_in_place_eq a0 a1 a2 a3 :
  gen_z255_double_in_place a0 a1 a2 a3 = double_in_place gen_z255_modulus [a0; a1; a2; a3].
Proof. cbv [double_in_place final_sub]. rewrite gen_z255_spare. cbv [gen_z255_double_in_place gen_z255_modulus mul2 mul2_chain subtract_modulus subtract_modulus_with_carry is_geq_modulus sub_with_borrow sub_chain add_with_carry add_chain fst snd negb orb andb]. gen_lits gen_z255_modulus. crush. Qed.
Lemma gen_z255_neg_in_place_eq a0 a1 a2 a3 :
  gen_z255_neg_in_place a0 a1 a2 a3 = neg_in_place gen_z255_modulus [a0; a1; a2; a3].
Proof. cbv [gen_z255_neg_in_place gen_z255_modulus neg_in_place is_zero forallb sub_with_borrow sub_chain add_with_carry add_chain fst snd negb orb andb]. gen_lits gen_z255_modulus. crush. Qed.
Lemma gen_z255_mul_assign_eq a0 a1 a2 a3 b0 b1 b2 b3 :
  gen_z255_mul_assign (inv_of gen_z255_modulus) a0 a1 a2 a3 b0 b1 b2 b3 = mul_assign_w (nocarry_macro gen_z255_modulus) (has_spare_bit gen_z255_modulus) gen_z255_modulus [a0; a1; a2; a3] [b0; b1; b2; b3].
Proof. rewrite gen_z255_spare, gen_z255_nc. cbv [gen_z255_mul_assign gen_z255_modulus mul_assign_w nc_rows_w nc_row_w nc_inner fold_left mul_without_cond_subtract red_rows mul_rows mac_row set_first skipn firstn length zeros repeat app Nat.add subtract_modulus subtract_modulus_with_carry is_geq_modulus sub_with_borrow sub_chain add_with_carry add_chain fst snd negb orb andb]. gen_lits gen_z255_modulus. crush. Qed.
Lemma gen_z255_square_in_place_eq a0 a1 a2 a3 :
  gen_z255_square_in_place (inv_of gen_z255_modulus) a0 a1 a2 a3 = square_full gen_z255_modulus [a0; a1; a2; a3].
Proof. cbv [square_full final_sub]. rewrite gen_z255_spare. cbv [gen_z255_square_in_place gen_z255_modulus sq_offdiag shl1_chain sq_diag sq_red_rows subtract_modulus subtract_modulus_with_carry is_geq_modulus mul_rows mac_row set_first skipn firstn length zeros repeat app Nat.add sub_with_borrow sub_chain add_with_carry add_chain fst snd negb orb andb]. gen_lits gen_z255_modulus. crush_sq. Qed.
Lemma gen_z255_add_assign_spec a0 a1 a2 a3 b0 b1 b2 b3 :
  wf [a0; a1; a2; a3] -> val [a0; a1; a2; a3] < gen_z255_modulus_attr -> wf [b0; b1; b2; b3] -> val [b0; b1; b2; b3] < gen_z255_modulus_attr ->
  let r := gen_z255_add_assign a0 a1 a2 a3 b0 b1 b2 b3 in
  wf r /\ length r = 4%nat /\ val r < gen_z255_modulus_attr /\ val r = (val [a0; a1; a2; a3] + val [b0; b1; b2; b3]) mod gen_z255_modulus_attr.
Proof. intros Ha Hx Hb Hy. pose proof (proj1 gen_z255_modulus_val) as Hv. pose proof gen_z255_modulus_wf as Hm. pose proof gen_z255_modulus_odd as Ho. pose proof gen_z255_modulus_ne as Hne. rewrite gen_z255_add_assign_eq. rewrite <- Hv in *. exact (add_assign_spec gen_z255_modulus [a0; a1; a2; a3] [b0; b1; b2; b3] Hm Hne Ha Hb eq_refl eq_refl Hx Hy). Qed.
Lemma gen_z255_sub_assign_spec a0 a1 a2 a3 b0 b1 b2 b3 :
  wf [a0; a1; a2; a3] -> val [a0; a1; a2; a3] < gen_z255_modulus_attr -> wf [b0; b1; b2; b3] -> val [b0; b1; b2; b3] < gen_z255_modulus_attr ->
  let r := gen_z255_sub_assign a0 a1 a2 a3 b0 b1 b2 b3 in
  wf r /\ length r = 4%nat /\ val r < gen_z255_modulus_attr /\ val r = (val [a0; a1; a2; a3] - val [b0; b1; b2; b3]) mod gen_z255_modulus_attr.
Proof. intros Ha Hx Hb Hy. pose proof (proj1 gen_z255_modulus_val) as Hv. pose proof gen_z255_modulus_wf as Hm. pose proof gen_z255_modulus_odd as Ho. pose proof gen_z255_modulus_ne as Hne. rewrite gen_z255_sub_assign_eq. rewrite <- Hv in *. exact (sub_assign_spec gen_z255_modulus [a0; a1; a2; a3] [b0; b1; b2; b3] Hm Ha Hb eq_refl eq_refl Hx Hy). Qed.
Lemma gen_z255_double_in_place_spec a0 a1 a2 a3 :
  wf [a0; a1; a2; a3] -> val [a0; a1; a2; a3] < gen_z255_modulus_attr ->
  let r := gen_z255_double_in_place a0 a1 a2 a3 in
  wf r /\ length r = 4%nat /\ val r < gen_z255_modulus_attr /\ val r = (2 * val [a0; a1; a2; a3]) mod gen_z255_modulus_attr.
Proof. intros Ha Hx. pose proof (proj1 gen_z255_modulus_val) as Hv. pose proof gen_z255_modulus_wf as Hm. pose proof gen_z255_modulus_odd as Ho. pose proof gen_z255_modulus_ne as Hne. rewrite gen_z255_double_in_place_eq. rewrite <- Hv in *. exact (double_in_place_spec gen_z255_modulus [a0; a1; a2; a3] Hm Hne Ha eq_refl Hx). Qed.
Lemma gen_z255_neg_in_place_spec a0 a1 a2 a3 :
  wf [a0; a1; a2; a3] -> val [a0; a1; a2; a3] < gen_z255_modulus_attr ->
  let r := gen_z255_neg_in_place a0 a1 a2 a3 in
  wf r /\ length r = 4%nat /\ val r < gen_z255_modulus_attr /\ val r = (- val [a0; a1; a2; a3]) mod gen_z255_modulus_attr.
Proof. intros Ha Hx. pose proof (proj1 gen_z255_modulus_val) as Hv. pose proof gen_z255_modulus_wf as Hm. pose proof gen_z255_modulus_odd as Ho. pose proof gen_z255_modulus_ne as Hne. rewrite gen_z255_neg_in_place_eq. rewrite <- Hv in *. exact (neg_in_place_spec gen_z255_modulus [a0; a1; a2; a3] Hm Ha eq_refl Hx). Qed.
Lemma gen_z255_mul_assign_spec a0 a1 a2 a3 b0 b1 b2 b3 :
  wf [a0; a1; a2; a3] -> val [a0; a1; a2; a3] < gen_z255_modulus_attr -> wf [b0; b1; b2; b3] -> val [b0; b1; b2; b3] < gen_z255_modulus_attr ->
  let r := gen_z255_mul_assign (inv_of gen_z255_modulus) a0 a1 a2 a3 b0 b1 b2 b3 in
  wf r /\ length r = 4%nat /\ val r < gen_z255_modulus_attr /\ (val r * Wn 4) mod gen_z255_modulus_attr = (val [a0; a1; a2; a3] * val [b0; b1; b2; b3]) mod gen_z255_modulus_attr.
Proof. intros Ha Hx Hb Hy. pose proof (proj1 gen_z255_modulus_val) as Hv. pose proof gen_z255_modulus_wf as Hm. pose proof gen_z255_modulus_odd as Ho. pose proof gen_z255_modulus_ne as Hne. rewrite <- Hv in *. rewrite gen_z255_mul_assign_eq, mul_assign_w_derived_eq by auto. exact (mul_assign_spec true gen_z255_modulus [a0; a1; a2; a3] [b0; b1; b2; b3] Hm Ha Hb eq_refl eq_refl Ho Hx Hy). Qed.
Lemma gen_z255_square_in_place_spec a0 a1 a2 a3 :
  wf [a0; a1; a2; a3] -> val [a0; a1; a2; a3] < gen_z255_modulus_attr ->
  let r := gen_z255_square_in_place (inv_of gen_z255_modulus) a0 a1 a2 a3 in
  wf r /\ length r = 4%nat /\ val r < gen_z255_modulus_attr /\ (val r * Wn 4) mod gen_z255_modulus_attr = (val [a0; a1; a2; a3] * val [a0; a1; a2; a3]) mod gen_z255_modulus_attr.
Proof. intros Ha Hx. pose proof (proj1 gen_z255_modulus_val) as Hv. pose proof gen_z255_modulus_wf as Hm. pose proof gen_z255_modulus_odd as Ho. pose proof gen_z255_modulus_ne as Hne. rewrite <- Hv in *. rewrite gen_z255_square_in_place_eq. exact (square_full_spec gen_z255_modulus [a0; a1; a2; a3] Hm Ha eq_refl Ho Hx). Qed.
Lemma gen_z255_mul_assign_model a0 a1 a2 a3 b0 b1 b2 b3 :
  wf [a0; a1; a2; a3] -> wf [b0; b1; b2; b3] -> val [a0; a1; a2; a3] < gen_z255_modulus_attr ->
  gen_z255_mul_assign (inv_of gen_z255_modulus) a0 a1 a2 a3 b0 b1 b2 b3 = mul_assign true gen_z255_modulus [a0; a1; a2; a3] [b0; b1; b2; b3].
Proof. intros Ha Hb Hx. pose proof (proj1 gen_z255_modulus_val) as Hv. pose proof gen_z255_modulus_wf as Hm. pose proof gen_z255_modulus_odd as Ho. pose proof gen_z255_modulus_ne as Hne. rewrite <- Hv in *. rewrite gen_z255_mul_assign_eq. apply mul_assign_w_derived_eq; auto. Qed.
Lemma gen_z255_square_in_place_model a0 a1 a2 a3 :
  wf [a0; a1; a2; a3] -> val [a0; a1; a2; a3] < gen_z255_modulus_attr ->
  gen_z255_square_in_place (inv_of gen_z255_modulus) a0 a1 a2 a3 = square_in_place true gen_z255_modulus [a0; a1; a2; a3].
Proof. intros Ha Hx. pose proof (proj1 gen_z255_modulus_val) as Hv. pose proof gen_z255_modulus_wf as Hm. pose proof gen_z255_modulus_odd as Ho. pose proof gen_z255_modulus_ne as Hne. rewrite <- Hv in *. rewrite gen_z255_square_in_place_eq. cbv [square_in_place length Nat.eqb gen_z255_modulus]. reflexivity. Qed.

(* ================= P124: N = 2, 124 bits, no-carry true, spare bit true ================= *)
Lemma gen_p124_modulus_val  :
  val gen_p124_modulus = gen_p124_modulus_attr /\ length gen_p124_modulus = 2%nat /\ wf gen_p124_modulus /\ gen_p124_modulus_attr mod 2 = 1 /\
  gen_p124_modulus_attr = 21267647932558653948014168890775961601.
Proof. split; [vm_compute; reflexivity|]. split; [reflexivity|]. split; [cbv [gen_p124_modulus]; lit_wf |]. split; [vm_compute; reflexivity | reflexivity]. Qed.
Lemma gen_p124_modulus_wf : wf gen_p124_modulus. Proof. exact (proj1 (proj2 (proj2 gen_p124_modulus_val))). Qed.
Lemma gen_p124_modulus_odd : val gen_p124_modulus mod 2 = 1. Proof. rewrite (proj1 gen_p124_modulus_val). exact (proj1 (proj2 (proj2 (proj2 gen_p124_modulus_val)))). Qed.
Lemma gen_p124_modulus_ne : gen_p124_modulus <> []. Proof. discriminate. Qed.
Lemma gen_p124_flags  :
  has_spare_bit gen_p124_modulus = true /\ nocarry_macro gen_p124_modulus = true.
Proof. split; vm_compute; reflexivity. Qed.
Lemma gen_p124_spare : has_spare_bit gen_p124_modulus = true. Proof. exact (proj1 gen_p124_flags). Qed.
Lemma gen_p124_nc : nocarry_macro gen_p124_modulus = true. Proof. exact (proj2 gen_p124_flags). Qed.
Lemma gen_p124_add_with_carry_eq a0 a1 b0 b1 :
  gen_p124_add_with_carry a0 a1 b0 b1 = add_with_carry [a0; a1] [b0; b1].
Proof. cbv [gen_p124_add_with_carry add_with_carry add_chain]. crush. Qed.
Lemma gen_p124_sub_with_borrow_eq a0 a1 b0 b1 :
  gen_p124_sub_with_borrow a0 a1 b0 b1 = sub_with_borrow [a0; a1] [b0; b1].
Proof. cbv [gen_p124_sub_with_borrow sub_with_borrow sub_chain]. crush. Qed.
Lemma gen_p124_subtract_modulus_eq a0 a1 :
  gen_p124_subtract_modulus a0 a1 = subtract_modulus gen_p124_modulus [a0; a1].
Proof. cbv [gen_p124_subtract_modulus gen_p124_modulus subtract_modulus subtract_modulus_with_carry is_geq_modulus sub_with_borrow sub_chain add_with_carry add_chain fst snd negb orb andb]. gen_lits gen_p124_modulus. crush. Qed.
Lemma gen_p124_subtract_modulus_with_carry_eq a0 a1 carry :
  gen_p124_subtract_modulus_with_carry a0 a1 carry = subtract_modulus_with_carry gen_p124_modulus [a0; a1] carry.
Proof. cbv [gen_p124_subtract_modulus_with_carry gen_p124_modulus subtract_modulus subtract_modulus_with_carry is_geq_modulus sub_with_borrow sub_chain add_with_carry add_chain fst snd negb orb andb]. gen_lits gen_p124_modulus. crush. Qed.
Lemma gen_p124_add_assign_eq a0 a1 b0 b1 :
  gen_p124_add_assign a0 a1 b0 b1 = add_assign gen_p124_modulus [a0; a1] [b0; b1].
Proof. cbv [add_assign final_sub]. rewrite gen_p124_spare. cbv [gen_p124_add_assign gen_p124_modulus subtract_modulus subtract_modulus_with_carry is_geq_modulus sub_with_borrow sub_chain add_with_carry add_chain fst snd negb orb andb]. gen_lits gen_p124_modulus. crush. Qed.
Lemma gen_p124_sub_assign_eq a0 a1 b0 b1 :
  gen_p124_sub_assign a0 a1 b0 b1 = sub_assign gen_p124_modulus [a0; a1] [b0; b1].
Proof. cbv [gen_p124_sub_assign gen_p124_modulus sub_assign sub_with_borrow sub_chain add_with_carry add_chain fst snd negb orb andb]. gen_lits gen_p124_modulus. crush. Qed.
Lemma gen_p124_double_in_place_eq a0 a1 :
  gen_p124_double_in_place a0 a1 = double_in_place gen_p124_modulus [a0; a1].
Proof. cbv [double_in_place final_sub]. rewrite gen_p124_spare. cbv [gen_p124_double_in_place gen_p124_modulus mul2 mul2_chain subtract_modulus subtract_modulus_with_carry is_geq_modulus sub_with_borrow sub_chain add_with_carry add_chain fst snd negb orb andb]. gen_lits gen_p124_modulus. crush. Qed.
Lemma gen_p124_neg_in_place_eq a0 a1 :
  gen_p124_neg_in_place a0 a1 = neg_in_place gen_p124_modulus [a0; a1].
Proof. cbv [gen_p124_neg_in_place gen_p124_modulus neg_in_place is_zero forallb sub_with_borrow sub_chain add_with_carry add_chain fst snd negb orb andb]. gen_lits gen_p124_modulus. crush. Qed.
Lemma gen_p124_mul_assign_eq a0 a1 b0 b1 :
  gen_p124_mul_assign (inv_of gen_p124_modulus) a0 a1 b0 b1 = mul_assign_w (nocarry_macro gen_p124_modulus) (has_spare_bit gen_p124_modulus) gen_p124_modulus [a0; a1] [b0; b1].
Proof. rewrite gen_p124_spare, gen_p124_nc. cbv [gen_p124_mul_assign gen_p124_modulus mul_assign_w nc_rows_w nc_row_w nc_inner fold_left mul_without_cond_subtract red_rows mul_rows mac_row set_first skipn firstn length zeros repeat app Nat.add subtract_modulus subtract_modulus_with_carry is_geq_modulus sub_with_borrow sub_chain add_with_carry add_chain fst snd negb orb andb]. gen_lits gen_p124_modulus. crush. Qed.
Lemma gen_p124_square_in_place_eq a0 a1 :
  gen_p124_square_in_place (inv_of gen_p124_modulus) a0 a1 = square_full gen_p124_modulus [a0; a1].
Proof. cbv [square_full final_sub]. rewrite gen_p124_spare. cbv [gen_p124_square_in_place gen_p124_modulus sq_offdiag shl1_chain sq_diag sq_red_rows subtract_modulus subtract_modulus_with_carry is_geq_modulus mul_rows mac_row set_first skipn firstn length zeros repeat app Nat.add sub_with_borrow sub_chain add_with_carry add_chain fst snd negb orb andb]. gen_lits gen_p124_modulus. crush_sq. Qed.
Lemma gen_p124_add_assign_spec a0 a1 b0 b1 :
  wf [a0; a1] -> val [a0; a1] < gen_p124_modulus_attr -> wf [b0; b1] -> val [b0; b1] < gen_p124_modulus_attr ->
  let r := gen_p124_add_assign a0 a1 b0 b1 in
  wf r /\ length r = 2%nat /\ val r < gen_p124_modulus_attr /\ val r = (val [a0; a1] + val [b0; b1]) mod gen_p124_modulus_attr.
Proof. intros Ha Hx Hb Hy. pose proof (proj1 gen_p124_modulus_val) as Hv. pose proof gen_p124_modulus_wf as Hm. pose proof gen_p124_modulus_odd as Ho. pose proof gen_p124_modulus_ne as Hne. rewrite gen_p124_add_assign_eq. rewrite <- Hv in *. exact (add_assign_spec gen_p124_modulus [a0; a1] [b0; b1] Hm Hne Ha Hb eq_refl eq_refl Hx Hy). Qed.
Lemma gen_p124_sub_assign_spec a0 a1 b0 b1 :
  wf [a0; a1] -> val [a0; a1] < gen_p124_modulus_attr -> wf [b0; b1] -> val [b0; b1] < gen_p124_modulus_attr ->
  let r := gen_p124_sub_assign a0 a1 b0 b1 in
  wf r /\ length r = 2%nat /\ val r < gen_p124_modulus_attr /\ val r = (val [a0; a1] - val [b0; b1]) mod gen_p124_modulus_attr.
Proof. intros Ha Hx Hb Hy. pose proof (proj1 gen_p124_modulus_val) as Hv. pose proof gen_p124_modulus_wf as Hm. pose proof gen_p124_modulus_odd as Ho. pose proof gen_p124_modulus_ne as Hne. rewrite gen_p124_sub_assign_eq. rewrite <- Hv in *. exact (sub_assign_spec gen_p124_modulus [a0; a1] [b0; b1] Hm Ha Hb eq_refl eq_refl Hx Hy). Qed.
Lemma gen_p124_double_in_place_spec a0 a1 :
  wf [a0; a1] -> val [a0; a1] < gen_p124_modulus_attr ->
  let r := gen_p124_double_in_place a0 a1 in
  wf r /\ length r = 2%nat /\ val r < gen_p124_modulus_attr /\ val r = (2 * val [a0; a1]) mod gen_p124_modulus_attr.
Proof. intros Ha Hx. pose proof (proj1 gen_p124_modulus_val) as Hv. pose proof gen_p124_modulus_wf as Hm. pose proof gen_p124_modulus_odd as Ho. pose proof gen_p124_modulus_ne as Hne. rewrite gen_p124_double_in_place_eq. rewrite <- Hv in *. exact (double_in_place_spec gen_p124_modulus [a0; a1] Hm Hne Ha eq_refl Hx). Qed.
Lemma gen_p124_neg_in_place_spec a0 a1 :
  wf [a0; a1] -> val [a0; a1] < gen_p124_modulus_attr ->
  let r := gen_p124_neg_in_place a0 a1 in
  wf r /\ length r = 2%nat /\ val r < gen_p124_modulus_attr /\ val r = (- val [a0; a1]) mod gen_p124_modulus_attr.
Proof. intros Ha Hx. pose proof (proj1 gen_p124_modulus_val) as Hv. pose proof gen_p124_modulus_wf as Hm. pose proof gen_p124_modulus_odd as Ho. pose proof gen_p124_modulus_ne as Hne. rewrite gen_p124_neg_in_place_eq. rewrite <- Hv in *. exact (neg_in_place_spec gen_p124_modulus [a0; a1] Hm Ha eq_refl Hx). Qed.
Lemma gen_p124_mul_assign_spec a0 a1 b0 b1 :
  wf [a0; a1] -> val [a0; a1] < gen_p124_modulus_attr -> wf [b0; b1] -> val [b0; b1] < gen_p124_modulus_attr ->
  let r := gen_p124_mul_assign (inv_of gen_p124_modulus) a0 a1 b0 b1 in
  wf r /\ length r = 2%nat /\ val r < gen_p124_modulus_attr /\ (val r * Wn 2) mod gen_p124_modulus_attr = (val [a0; a1] * val [b0; b1]) mod gen_p124_modulus_attr.
Proof. intros Ha Hx Hb Hy. pose proof (proj1 gen_p124_modulus_val) as Hv. pose proof gen_p124_modulus_wf as Hm. pose proof gen_p124_modulus_odd as Ho. pose proof gen_p124_modulus_ne as Hne. rewrite <- Hv in *. rewrite gen_p124_mul_assign_eq, mul_assign_w_derived_eq by auto. exact (mul_assign_spec true gen_p124_modulus [a0; a1] [b0; b1] Hm Ha Hb eq_refl eq_refl Ho Hx Hy). Qed.
Lemma gen_p124_square_in_place_spec a0 a1 :
  wf [a0; a1] -> val [a0; a1] < gen_p124_modulus_attr ->
  let r := gen_p124_square_in_place (inv_of gen_p124_modulus) a0 a1 in
  wf r /\ length r = 2%nat /\ val r < gen_p124_modulus_attr /\ (val r * Wn 2) mod gen_p124_modulus_attr = (val [a0; a1] * val [a0; a1]) mod gen_p124_modulus_attr.
Proof. intros Ha Hx. pose proof (proj1 gen_p124_modulus_val) as Hv. pose proof gen_p124_modulus_wf as Hm. pose proof gen_p124_modulus_odd as Ho. pose proof gen_p124_modulus_ne as Hne. rewrite <- Hv in *. rewrite gen_p124_square_in_place_eq. exact (square_full_spec gen_p124_modulus [a0; a1] Hm Ha eq_refl Ho Hx). Qed.
Lemma gen_p124_mul_assign_model a0 a1 b0 b1 :
  wf [a0; a1] -> wf [b0; b1] -> val [a0; a1] < gen_p124_modulus_attr ->
  gen_p124_mul_assign (inv_of gen_p124_modulus) a0 a1 b0 b1 = mul_assign true gen_p124_modulus [a0; a1] [b0; b1].
Proof. intros Ha Hb Hx. pose proof (proj1 gen_p124_modulus_val) as Hv. pose proof gen_p124_modulus_wf as Hm. pose proof gen_p124_modulus_odd as Ho. pose proof gen_p124_modulus_ne as Hne. rewrite <- Hv in *. rewrite gen_p124_mul_assign_eq. apply mul_assign_w_derived_eq; auto. Qed.
Lemma gen_p124_square_in_place_model a0 a1 :
  wf [a0; a1] -> val [a0; a1] < gen_p124_modulus_attr ->
  gen_p124_square_in_place (inv_of gen_p124_modulus) a0 a1 = square_in_place true gen_p124_modulus [a0; a1].
Proof. intros Ha Hx. pose proof (proj1 gen_p124_modulus_val) as Hv. pose proof gen_p124_modulus_wf as Hm. pose proof gen_p124_modulus_odd as Ho. pose proof gen_p124_modulus_ne as Hne. rewrite <- Hv in *. rewrite gen_p124_square_in_place_eq. cbv [square_in_place length Nat.eqb gen_p124_modulus]. reflexivity. Qed.

(* ================= sum_of_products::<M> (interleaved branch: M <= chunk size) ================= *)
(* the generated code starts each row with `fa::mac(.., &mut carry2)` on a zero carry; the model's mac_row starts
   with mac_with_carry on the carry 0 *)
Lemma mac_with_carry_m_0 a b c : mac_with_carry_m a b c 0 = mac a b c 0.
Proof. unfold mac_with_carry_m, mac. cbv zeta. rewrite Z.add_0_r, Z.mod_mod by (cbv; discriminate). reflexivity. Qed.
Ltac norm_mac0 := repeat match goal with |- context [mac_with_carry_m ?a ?b ?c 0] => rewrite (mac_with_carry_m_0 a b c) end.
Ltac crush0 := repeat (cbv beta iota zeta; norm_mac0; hstep).
Lemma gen_r62_sop_branch ab :
  (length ab <= 3)%nat -> sum_of_products true gen_r62_modulus ab = sop_interleaved_ab gen_r62_modulus ab.
Proof. intros H. unfold sum_of_products. replace (const_num_bits gen_r62_modulus) with 62 by (vm_compute; reflexivity). change (64 * Z.of_nat (length gen_r62_modulus) - 1 <=? 62) with false. cbv iota. change (Z.to_nat (2 * (Z.of_nat (length gen_r62_modulus) * 64 - 62) - 1)) with 3%nat. destruct (Nat.leb_spec (length ab) 3); [reflexivity | lia]. Qed.
Lemma gen_r62_sum_of_products_1_eq a0l0 b0l0 :
  gen_r62_sum_of_products_1 (inv_of gen_r62_modulus) a0l0 b0l0 = sop_interleaved_ab gen_r62_modulus
    [([a0l0], [b0l0])].
Proof. cbv [gen_r62_sum_of_products_1 gen_r62_modulus sop_interleaved_ab sop_row_ab sop_red fold_left seq nth mac_row length zeros repeat app Nat.add subtract_modulus subtract_modulus_with_carry is_geq_modulus sub_with_borrow sub_chain add_with_carry add_chain fst snd negb orb andb]. gen_lits gen_r62_modulus. crush0. Qed.
Lemma gen_r62_sum_of_products_1_spec a0l0 b0l0 :
  let ab := [([a0l0], [b0l0])] in
  Forall (okpair gen_r62_modulus) ab ->
  let r := gen_r62_sum_of_products_1 (inv_of gen_r62_modulus) a0l0 b0l0 in
  r = sum_of_products true gen_r62_modulus ab /\ elem_ok gen_r62_modulus r /\ std gen_r62_modulus r = dot gen_r62_modulus ab 0 mod gen_r62_modulus_attr.
Proof. intros ab Hab. cbv zeta. rewrite gen_r62_sum_of_products_1_eq. fold ab. rewrite <- (gen_r62_sop_branch ab) by (cbv [ab length]; lia). split; [reflexivity|]. rewrite <- (proj1 gen_r62_modulus_val). exact (sum_of_products_spec true gen_r62_modulus ab gen_r62_modulus_wf gen_r62_modulus_odd Hab). Qed.
Lemma gen_r62_sum_of_products_2_eq a0l0 a1l0 b0l0 b1l0 :
  gen_r62_sum_of_products_2 (inv_of gen_r62_modulus) a0l0 a1l0 b0l0 b1l0 = sop_interleaved_ab gen_r62_modulus
    [([a0l0], [b0l0]); ([a1l0], [b1l0])].
Proof. cbv [gen_r62_sum_of_products_2 gen_r62_modulus sop_interleaved_ab sop_row_ab sop_red fold_left seq nth mac_row length zeros repeat app Nat.add subtract_modulus subtract_modulus_with_carry is_geq_modulus sub_with_borrow sub_chain add_with_carry add_chain fst snd negb orb andb]. gen_lits gen_r62_modulus. crush0. Qed.
Lemma gen_r62_sum_of_products_2_spec a0l0 a1l0 b0l0 b1l0 :
  let ab := [([a0l0], [b0l0]); ([a1l0], [b1l0])] in
  Forall (okpair gen_r62_modulus) ab ->
  let r := gen_r62_sum_of_products_2 (inv_of gen_r62_modulus) a0l0 a1l0 b0l0 b1l0 in
  r = sum_of_products true gen_r62_modulus ab /\ elem_ok gen_r62_modulus r /\ std gen_r62_modulus r = dot gen_r62_modulus ab 0 mod gen_r62_modulus_attr.
Proof. intros ab Hab. cbv zeta. rewrite gen_r62_sum_of_products_2_eq. fold ab. rewrite <- (gen_r62_sop_branch ab) by (cbv [ab length]; lia). split; [reflexivity|]. rewrite <- (proj1 gen_r62_modulus_val). exact (sum_of_products_spec true gen_r62_modulus ab gen_r62_modulus_wf gen_r62_modulus_odd Hab). Qed.
Lemma gen_r62_sum_of_products_3_eq a0l0 a1l0 a2l0 b0l0 b1l0 b2l0 :
  gen_r62_sum_of_products_3 (inv_of gen_r62_modulus) a0l0 a1l0 a2l0 b0l0 b1l0 b2l0 = sop_interleaved_ab gen_r62_modulus
    [([a0l0], [b0l0]); ([a1l0], [b1l0]); ([a2l0], [b2l0])].
Proof. cbv [gen_r62_sum_of_products_3 gen_r62_modulus sop_interleaved_ab sop_row_ab sop_red fold_left seq nth mac_row length zeros repeat app Nat.add subtract_modulus subtract_modulus_with_carry is_geq_modulus sub_with_borrow sub_chain add_with_carry add_chain fst snd negb orb andb]. gen_lits gen_r62_modulus. crush0. Qed.
Lemma gen_r62_sum_of_products_3_spec a0l0 a1l0 a2l0 b0l0 b1l0 b2l0 :
  let ab := [([a0l0], [b0l0]); ([a1l0], [b1l0]); ([a2l0], [b2l0])] in
  Forall (okpair gen_r62_modulus) ab ->
  let r := gen_r62_sum_of_products_3 (inv_of gen_r62_modulus) a0l0 a1l0 a2l0 b0l0 b1l0 b2l0 in
  r = sum_of_products true gen_r62_modulus ab /\ elem_ok gen_r62_modulus r /\ std gen_r62_modulus r = dot gen_r62_modulus ab 0 mod gen_r62_modulus_attr.
Proof. intros ab Hab. cbv zeta. rewrite gen_r62_sum_of_products_3_eq. fold ab. rewrite <- (gen_r62_sop_branch ab) by (cbv [ab length]; lia). split; [reflexivity|]. rewrite <- (proj1 gen_r62_modulus_val). exact (sum_of_products_spec true gen_r62_modulus ab gen_r62_modulus_wf gen_r62_modulus_odd Hab). Qed.
Lemma gen_r125_sop_branch ab :
  (length ab <= 5)%nat -> sum_of_products true gen_r125_modulus ab = sop_interleaved_ab gen_r125_modulus ab.
Proof. intros H. unfold sum_of_products. replace (const_num_bits gen_r125_modulus) with 125 by (vm_compute; reflexivity). change (64 * Z.of_nat (length gen_r125_modulus) - 1 <=? 125) with false. cbv iota. change (Z.to_nat (2 * (Z.of_nat (length gen_r125_modulus) * 64 - 125) - 1)) with 5%nat. destruct (Nat.leb_spec (length ab) 5); [reflexivity | lia]. Qed.
Lemma gen_r125_sum_of_products_1_eq a0l0 a0l1 b0l0 b0l1 :
  gen_r125_sum_of_products_1 (inv_of gen_r125_modulus) a0l0 a0l1 b0l0 b0l1 = sop_interleaved_ab gen_r125_modulus
    [([a0l0; a0l1], [b0l0; b0l1])].
Proof. cbv [gen_r125_sum_of_products_1 gen_r125_modulus sop_interleaved_ab sop_row_ab sop_red fold_left seq nth mac_row length zeros repeat app Nat.add subtract_modulus subtract_modulus_with_carry is_geq_modulus sub_with_borrow sub_chain add_with_carry add_chain fst snd negb orb andb]. gen_lits gen_r125_modulus. crush0. Qed.
Lemma gen_r125_sum_of_products_1_spec a0l0 a0l1 b0l0 b0l1 :
  let ab := [([a0l0; a0l1], [b0l0; b0l1])] in
  Forall (okpair gen_r125_modulus) ab ->
  let r := gen_r125_sum_of_products_1 (inv_of gen_r125_modulus) a0l0 a0l1 b0l0 b0l1 in
  r = sum_of_products true gen_r125_modulus ab /\ elem_ok gen_r125_modulus r /\ std gen_r125_modulus r = dot gen_r125_modulus ab 0 mod gen_r125_modulus_attr.
Proof. intros ab Hab. cbv zeta. rewrite gen_r125_sum_of_products_1_eq. fold ab. rewrite <- (gen_r125_sop_branch ab) by (cbv [ab length]; lia). split; [reflexivity|]. rewrite <- (proj1 gen_r125_modulus_val). exact (sum_of_products_spec true gen_r125_modulus ab gen_r125_modulus_wf gen_r125_modulus_odd Hab). Qed.
Lemma gen_r125_sum_of_products_2_eq a0l0 a0l1 a1l0 a1l1 b0l0 b0l1 b1l0 b1l1 :
  gen_r125_sum_of_products_2 (inv_of gen_r125_modulus) a0l0 a0l1 a1l0 a1l1 b0l0 b0l1 b1l0 b1l1 = sop_interleaved_ab gen_r125_modulus
    [([a0l0; a0l1], [b0l0; b0l1]); ([a1l0; a1l1], [b1l0; b1l1])].
Proof. cbv [gen_r125_sum_of_products_2 gen_r125_modulus sop_interleaved_ab sop_row_ab sop_red fold_left seq nth mac_row length zeros repeat app Nat.add subtract_modulus subtract_modulus_with_carry is_geq_modulus sub_with_borrow sub_chain add_with_carry add_chain fst snd negb orb andb]. gen_lits gen_r125_modulus. crush0. Qed.
Lemma gen_r125_sum_of_products_2_spec a0l0 a0l1 a1l0 a1l1 b0l0 b0l1 b1l0 b1l1 :
  let ab := [([a0l0; a0l1], [b0l0; b0l1]); ([a1l0; a1l1], [b1l0; b1l1])] in
  Forall (okpair gen_r125_modulus) ab ->
  let r := gen_r125_sum_of_products_2 (inv_of gen_r125_modulus) a0l0 a0l1 a1l0 a1l1 b0l0 b0l1 b1l0 b1l1 in
  r = sum_of_products true gen_r125_modulus ab /\ elem_ok gen_r125_modulus r /\ std gen_r125_modulus r = dot gen_r125_modulus ab 0 mod gen_r125_modulus_attr.
Proof. intros ab Hab. cbv zeta. rewrite gen_r125_sum_of_products_2_eq. fold ab. rewrite <- (gen_r125_sop_branch ab) by (cbv [ab length]; lia). split; [reflexivity|]. rewrite <- (proj1 gen_r125_modulus_val). exact (sum_of_products_spec true gen_r125_modulus ab gen_r125_modulus_wf gen_r125_modulus_odd Hab). Qed.
Lemma gen_bn254fr_sop_branch ab :
  (length ab <= 3)%nat -> sum_of_products true gen_bn254fr_modulus ab = sop_interleaved_ab gen_bn254fr_modulus ab.
Proof. intros H. unfold sum_of_products. replace (const_num_bits gen_bn254fr_modulus) with 254 by (vm_compute; reflexivity). change (64 * Z.of_nat (length gen_bn254fr_modulus) - 1 <=? 254) with false. cbv iota. change (Z.to_nat (2 * (Z.of_nat (length gen_bn254fr_modulus) * 64 - 254) - 1)) with 3%nat. destruct (Nat.leb_spec (length ab) 3); [reflexivity | lia]. Qed.
Lemma gen_bn254fr_sum_of_products_1_eq a0l0 a0l1 a0l2 a0l3 b0l0 b0l1 b0l2 b0l3 :
  gen_bn254fr_sum_of_products_1 (inv_of gen_bn254fr_modulus) a0l0 a0l1 a0l2 a0l3 b0l0 b0l1 b0l2 b0l3 = sop_interleaved_ab gen_bn254fr_modulus
    [([a0l0; a0l1; a0l2; a0l3], [b0l0; b0l1; b0l2; b0l3])].
Proof. cbv [gen_bn254fr_sum_of_products_1 gen_bn254fr_modulus sop_interleaved_ab sop_row_ab sop_red fold_left seq nth mac_row length zeros repeat app Nat.add subtract_modulus subtract_modulus_with_carry is_geq_modulus sub_with_borrow sub_chain add_with_carry add_chain fst snd negb orb andb]. gen_lits gen_bn254fr_modulus. crush0. Qed.
Lemma gen_bn254fr_sum_of_products_1_spec a0l0 a0l1 a0l2 a0l3 b0l0 b0l1 b0l2 b0l3 :
  let ab := [([a0l0; a0l1; a0l2; a0l3], [b0l0; b0l1; b0l2; b0l3])] in
  Forall (okpair gen_bn254fr_modulus) ab ->
  let r := gen_bn254fr_sum_of_products_1 (inv_of gen_bn254fr_modulus) a0l0 a0l1 a0l2 a0l3 b0l0 b0l1 b0l2 b0l3 in
  r = sum_of_products true gen_bn254fr_modulus ab /\ elem_ok gen_bn254fr_modulus r /\ std gen_bn254fr_modulus r = dot gen_bn254fr_modulus ab 0 mod gen_bn254fr_modulus_attr.
Proof. intros ab Hab. cbv zeta. rewrite gen_bn254fr_sum_of_products_1_eq. fold ab. rewrite <- (gen_bn254fr_sop_branch ab) by (cbv [ab length]; lia). split; [reflexivity|]. rewrite <- (proj1 gen_bn254fr_modulus_val). exact (sum_of_products_spec true gen_bn254fr_modulus ab gen_bn254fr_modulus_wf gen_bn254fr_modulus_odd Hab). Qed.
Lemma gen_bn254fr_sum_of_products_2_eq a0l0 a0l1 a0l2 a0l3 a1l0 a1l1 a1l2 a1l3 b0l0 b0l1 b0l2 b0l3 b1l0 b1l1 b1l2 b1l3 :
  gen_bn254fr_sum_of_products_2 (inv_of gen_bn254fr_modulus) a0l0 a0l1 a0l2 a0l3 a1l0 a1l1 a1l2 a1l3 b0l0 b0l1 b0l2 b0l3 b1l0 b1l1 b1l2 b1l3 = sop_interleaved_ab gen_bn254fr_modulus
    [([a0l0; a0l1; a0l2; a0l3], [b0l0; b0l1; b0l2; b0l3]); ([a1l0; a1l1; a1l2; a1l3], [b1l0; b1l1; b1l2; b1l3])].
Proof. cbv [gen_bn254fr_sum_of_products_2 gen_bn254fr_modulus sop_interleaved_ab sop_row_ab sop_red fold_left seq nth mac_row length zeros repeat app Nat.add subtract_modulus subtract_modulus_with_carry is_geq_modulus sub_with_borrow sub_chain add_with_carry add_chain fst snd negb orb andb]. gen_lits gen_bn254fr_modulus. crush0. Qed.
Lemma gen_bn254fr_sum_of_products_2_spec a0l0 a0l1 a0l2 a0l3 a1l0 a1l1 a1l2 a1l3 b0l0 b0l1 b0l2 b0l3 b1l0 b1l1 b1l2 b1l3 :
  let ab := [([a0l0; a0l1; a0l2; a0l3], [b0l0; b0l1; b0l2; b0l3]); ([a1l0; a1l1; a1l2; a1l3], [b1l0; b1l1; b1l2; b1l3])] in
  Forall (okpair gen_bn254fr_modulus) ab ->
  let r := gen_bn254fr_sum_of_products_2 (inv_of gen_bn254fr_modulus) a0l0 a0l1 a0l2 a0l3 a1l0 a1l1 a1l2 a1l3 b0l0 b0l1 b0l2 b0l3 b1l0 b1l1 b1l2 b1l3 in
  r = sum_of_products true gen_bn254fr_modulus ab /\ elem_ok gen_bn254fr_modulus r /\ std gen_bn254fr_modulus r = dot gen_bn254fr_modulus ab 0 mod gen_bn254fr_modulus_attr.
Proof. intros ab Hab. cbv zeta. rewrite gen_bn254fr_sum_of_products_2_eq. fold ab. rewrite <- (gen_bn254fr_sop_branch ab) by (cbv [ab length]; lia). split; [reflexivity|]. rewrite <- (proj1 gen_bn254fr_modulus_val). exact (sum_of_products_spec true gen_bn254fr_modulus ab gen_bn254fr_modulus_wf gen_bn254fr_modulus_odd Hab). Qed.
Lemma gen_bn254fr_sum_of_products_3_eq a0l0 a0l1 a0l2 a0l3 a1l0 a1l1 a1l2 a1l3 a2l0 a2l1 a2l2 a2l3 b0l0 b0l1 b0l2 b0l3 b1l0 b1l1 b1l2 b1l3 b2l0 b2l1 b2l2 b2l3 :
  gen_bn254fr_sum_of_products_3 (inv_of gen_bn254fr_modulus) a0l0 a0l1 a0l2 a0l3 a1l0 a1l1 a1l2 a1l3 a2l0 a2l1 a2l2 a2l3 b0l0 b0l1 b0l2 b0l3 b1l0 b1l1 b1l2 b1l3 b2l0 b2l1 b2l2 b2l3 = sop_interleaved_ab gen_bn254fr_modulus
    [([a0l0; a0l1; a0l2; a0l3], [b0l0; b0l1; b0l2; b0l3]); ([a1l0; a1l1; a1l2; a1l3], [b1l0; b1l1; b1l2; b1l3]); ([a2l0; a2l1; a2l2; a2l3], [b2l0; b2l1; b2l2; b2l3])].
Proof. cbv [gen_bn254fr_sum_of_products_3 gen_bn254fr_modulus sop_interleaved_ab sop_row_ab sop_red fold_left seq nth mac_row length zeros repeat app Nat.add subtract_modulus subtract_modulus_with_carry is_geq_modulus sub_with_borrow sub_chain add_with_carry add_chain fst snd negb orb andb]. gen_lits gen_bn254fr_modulus. crush0. Qed.
Lemma gen_bn254fr_sum_of_products_3_spec a0l0 a0l1 a0l2 a0l3 a1l0 a1l1 a1l2 a1l3 a2l0 a2l1 a2l2 a2l3 b0l0 b0l1 b0l2 b0l3 b1l0 b1l1 b1l2 b1l3 b2l0 b2l1 b2l2 b2l3 :
  let ab := [([a0l0; a0l1; a0l2; a0l3], [b0l0; b0l1; b0l2; b0l3]); ([a1l0; a1l1; a1l2; a1l3], [b1l0; b1l1; b1l2; b1l3]); ([a2l0; a2l1; a2l2; a2l3], [b2l0; b2l1; b2l2; b2l3])] in
  Forall (okpair gen_bn254fr_modulus) ab ->
  let r := gen_bn254fr_sum_of_products_3 (inv_of gen_bn254fr_modulus) a0l0 a0l1 a0l2 a0l3 a1l0 a1l1 a1l2 a1l3 a2l0 a2l1 a2l2 a2l3 b0l0 b0l1 b0l2 b0l3 b1l0 b1l1 b1l2 b1l3 b2l0 b2l1 b2l2 b2l3 in
  r = sum_of_products true gen_bn254fr_modulus ab /\ elem_ok gen_bn254fr_modulus r /\ std gen_bn254fr_modulus r = dot gen_bn254fr_modulus ab 0 mod gen_bn254fr_modulus_attr.
Proof. intros ab Hab. cbv zeta. rewrite gen_bn254fr_sum_of_products_3_eq. fold ab. rewrite <- (gen_bn254fr_sop_branch ab) by (cbv [ab length]; lia). split; [reflexivity|]. rewrite <- (proj1 gen_bn254fr_modulus_val). exact (sum_of_products_spec true gen_bn254fr_modulus ab gen_bn254fr_modulus_wf gen_bn254fr_modulus_odd Hab). Qed.
Lemma gen_bls381fq_sop_branch ab :
  (length ab <= 5)%nat -> sum_of_products true gen_bls381fq_modulus ab = sop_interleaved_ab gen_bls381fq_modulus ab.
Proof. intros H. unfold sum_of_products. replace (const_num_bits gen_bls381fq_modulus) with 381 by (vm_compute; reflexivity). change (64 * Z.of_nat (length gen_bls381fq_modulus) - 1 <=? 381) with false. cbv iota. change (Z.to_nat (2 * (Z.of_nat (length gen_bls381fq_modulus) * 64 - 381) - 1)) with 5%nat. destruct (Nat.leb_spec (length ab) 5); [reflexivity | lia]. Qed.
Lemma gen_bls381fq_sum_of_products_1_eq a0l0 a0l1 a0l2 a0l3 a0l4 a0l5 b0l0 b0l1 b0l2 b0l3 b0l4 b0l5 :
  gen_bls381fq_sum_of_products_1 (inv_of gen_bls381fq_modulus) a0l0 a0l1 a0l2 a0l3 a0l4 a0l5 b0l0 b0l1 b0l2 b0l3 b0l4 b0l5 = sop_interleaved_ab gen_bls381fq_modulus
    [([a0l0; a0l1; a0l2; a0l3; a0l4; a0l5], [b0l0; b0l1; b0l2; b0l3; b0l4; b0l5])].
Proof. cbv [gen_bls381fq_sum_of_products_1 gen_bls381fq_modulus sop_interleaved_ab sop_row_ab sop_red fold_left seq nth mac_row length zeros repeat app Nat.add subtract_modulus subtract_modulus_with_carry is_geq_modulus sub_with_borrow sub_chain add_with_carry add_chain fst snd negb orb andb]. gen_lits gen_bls381fq_modulus. crush0. Qed.
Lemma gen_bls381fq_sum_of_products_1_spec a0l0 a0l1 a0l2 a0l3 a0l4 a0l5 b0l0 b0l1 b0l2 b0l3 b0l4 b0l5 :
  let ab := [([a0l0; a0l1; a0l2; a0l3; a0l4; a0l5], [b0l0; b0l1; b0l2; b0l3; b0l4; b0l5])] in
  Forall (okpair gen_bls381fq_modulus) ab ->
  let r := gen_bls381fq_sum_of_products_1 (inv_of gen_bls381fq_modulus) a0l0 a0l1 a0l2 a0l3 a0l4 a0l5 b0l0 b0l1 b0l2 b0l3 b0l4 b0l5 in
  r = sum_of_products true gen_bls381fq_modulus ab /\ elem_ok gen_bls381fq_modulus r /\ std gen_bls381fq_modulus r = dot gen_bls381fq_modulus ab 0 mod gen_bls381fq_modulus_attr.
Proof. intros ab Hab. cbv zeta. rewrite gen_bls381fq_sum_of_products_1_eq. fold ab. rewrite <- (gen_bls381fq_sop_branch ab) by (cbv [ab length]; lia). split; [reflexivity|]. rewrite <- (proj1 gen_bls381fq_modulus_val). exact (sum_of_products_spec true gen_bls381fq_modulus ab gen_bls381fq_modulus_wf gen_bls381fq_modulus_odd Hab). Qed.

(* ================= GenShift: BigInt shifts by concrete amounts ================= *)
(* muln / divn / <<= / >>= / << / >> of ff/src/biginteger/mod.rs, translated for concrete (N, amount) (the `while n >= 64`
   loop is concrete then); each generated definition is the C15 model `shl` / `shr` at that amount BY COMPUTATION
   (the limb values stay variables; only the closed arithmetic on the amount and on the shifted-in zero limbs is
   evaluated by the conversion check). *)
Ltac use_eqs E :=
  lazymatch type of E with
  | _ /\ _ => let H := fresh in let E' := fresh in destruct E as [H E']; try rewrite H; use_eqs E'
  | _ => try rewrite E
  end.
Ltac shift_close Ha :=
  match goal with
  | |- wf (shl ?A ?k) => exact (proj1 (shl_spec A k Ha ltac:(lia)))
  | |- val (shl ?A ?k) = _ => exact (proj2 (proj2 (shl_spec A k Ha ltac:(lia))))
  | |- wf (shr ?A ?k) => exact (proj1 (shr_spec A k Ha ltac:(lia)))
  | |- val (shr ?A ?k) = _ => exact (proj2 (proj2 (shr_spec A k Ha ltac:(lia))))
  end.
Lemma gen_muln_1_eq a0 :
  gen_muln_1_0 a0 = shl [a0] 0 /\
  gen_muln_1_1 a0 = shl [a0] 1 /\
  gen_muln_1_63 a0 = shl [a0] 63 /\
  gen_muln_1_64 a0 = shl [a0] 64 /\
  gen_muln_1_65 a0 = shl [a0] 65 /\
  gen_muln_1_127 a0 = shl [a0] 127 /\
  gen_muln_1_128 a0 = shl [a0] 128.
Proof. repeat split; reflexivity. Qed.
Lemma gen_muln_1_spec a0 :
  wf [a0] ->
  (wf (gen_muln_1_0 a0) /\ val (gen_muln_1_0 a0) = (val [a0] * 2 ^ 0) mod Wn 1) /\
  (wf (gen_muln_1_1 a0) /\ val (gen_muln_1_1 a0) = (val [a0] * 2 ^ 1) mod Wn 1) /\
  (wf (gen_muln_1_63 a0) /\ val (gen_muln_1_63 a0) = (val [a0] * 2 ^ 63) mod Wn 1) /\
  (wf (gen_muln_1_64 a0) /\ val (gen_muln_1_64 a0) = (val [a0] * 2 ^ 64) mod Wn 1) /\
  (wf (gen_muln_1_65 a0) /\ val (gen_muln_1_65 a0) = (val [a0] * 2 ^ 65) mod Wn 1) /\
  (wf (gen_muln_1_127 a0) /\ val (gen_muln_1_127 a0) = (val [a0] * 2 ^ 127) mod Wn 1) /\
  (wf (gen_muln_1_128 a0) /\ val (gen_muln_1_128 a0) = (val [a0] * 2 ^ 128) mod Wn 1).
Proof. intros Ha. repeat split; (pose proof (gen_muln_1_eq a0) as E; use_eqs E); shift_close Ha. Qed.
Lemma gen_muln_2_eq a0 a1 :
  gen_muln_2_0 a0 a1 = shl [a0; a1] 0 /\
  gen_muln_2_1 a0 a1 = shl [a0; a1] 1 /\
  gen_muln_2_63 a0 a1 = shl [a0; a1] 63 /\
  gen_muln_2_64 a0 a1 = shl [a0; a1] 64 /\
  gen_muln_2_65 a0 a1 = shl [a0; a1] 65 /\
  gen_muln_2_127 a0 a1 = shl [a0; a1] 127 /\
  gen_muln_2_128 a0 a1 = shl [a0; a1] 128 /\
  gen_muln_2_129 a0 a1 = shl [a0; a1] 129.
Proof. repeat split; reflexivity. Qed.
Lemma gen_muln_2_spec a0 a1 :
  wf [a0; a1] ->
  (wf (gen_muln_2_0 a0 a1) /\ val (gen_muln_2_0 a0 a1) = (val [a0; a1] * 2 ^ 0) mod Wn 2) /\
  (wf (gen_muln_2_1 a0 a1) /\ val (gen_muln_2_1 a0 a1) = (val [a0; a1] * 2 ^ 1) mod Wn 2) /\
  (wf (gen_muln_2_63 a0 a1) /\ val (gen_muln_2_63 a0 a1) = (val [a0; a1] * 2 ^ 63) mod Wn 2) /\
  (wf (gen_muln_2_64 a0 a1) /\ val (gen_muln_2_64 a0 a1) = (val [a0; a1] * 2 ^ 64) mod Wn 2) /\
  (wf (gen_muln_2_65 a0 a1) /\ val (gen_muln_2_65 a0 a1) = (val [a0; a1] * 2 ^ 65) mod Wn 2) /\
  (wf (gen_muln_2_127 a0 a1) /\ val (gen_muln_2_127 a0 a1) = (val [a0; a1] * 2 ^ 127) mod Wn 2) /\
  (wf (gen_muln_2_128 a0 a1) /\ val (gen_muln_2_128 a0 a1) = (val [a0; a1] * 2 ^ 128) mod Wn 2) /\
  (wf (gen_muln_2_129 a0 a1) /\ val (gen_muln_2_129 a0 a1) = (val [a0; a1] * 2 ^ 129) mod Wn 2).
Proof. intros Ha. repeat split; (pose proof (gen_muln_2_eq a0 a1) as E; use_eqs E); shift_close Ha. Qed.
Lemma gen_muln_3_eq a0 a1 a2 :
  gen_muln_3_0 a0 a1 a2 = shl [a0; a1; a2] 0 /\
  gen_muln_3_1 a0 a1 a2 = shl [a0; a1; a2] 1 /\
  gen_muln_3_63 a0 a1 a2 = shl [a0; a1; a2] 63 /\
  gen_muln_3_64 a0 a1 a2 = shl [a0; a1; a2] 64 /\
  gen_muln_3_65 a0 a1 a2 = shl [a0; a1; a2] 65 /\
  gen_muln_3_127 a0 a1 a2 = shl [a0; a1; a2] 127 /\
  gen_muln_3_128 a0 a1 a2 = shl [a0; a1; a2] 128 /\
  gen_muln_3_191 a0 a1 a2 = shl [a0; a1; a2] 191 /\
  gen_muln_3_192 a0 a1 a2 = shl [a0; a1; a2] 192 /\
  gen_muln_3_193 a0 a1 a2 = shl [a0; a1; a2] 193.
Proof. repeat split; reflexivity. Qed.
Lemma gen_muln_3_spec a0 a1 a2 :
  wf [a0; a1; a2] ->
  (wf (gen_muln_3_0 a0 a1 a2) /\ val (gen_muln_3_0 a0 a1 a2) = (val [a0; a1; a2] * 2 ^ 0) mod Wn 3) /\
  (wf (gen_muln_3_1 a0 a1 a2) /\ val (gen_muln_3_1 a0 a1 a2) = (val [a0; a1; a2] * 2 ^ 1) mod Wn 3) /\
  (wf (gen_muln_3_63 a0 a1 a2) /\ val (gen_muln_3_63 a0 a1 a2) = (val [a0; a1; a2] * 2 ^ 63) mod Wn 3) /\
  (wf (gen_muln_3_64 a0 a1 a2) /\ val (gen_muln_3_64 a0 a1 a2) = (val [a0; a1; a2] * 2 ^ 64) mod Wn 3) /\
  (wf (gen_muln_3_65 a0 a1 a2) /\ val (gen_muln_3_65 a0 a1 a2) = (val [a0; a1; a2] * 2 ^ 65) mod Wn 3) /\
  (wf (gen_muln_3_127 a0 a1 a2) /\ val (gen_muln_3_127 a0 a1 a2) = (val [a0; a1; a2] * 2 ^ 127) mod Wn 3) /\
  (wf (gen_muln_3_128 a0 a1 a2) /\ val (gen_muln_3_128 a0 a1 a2) = (val [a0; a1; a2] * 2 ^ 128) mod Wn 3) /\
  (wf (gen_muln_3_191 a0 a1 a2) /\ val (gen_muln_3_191 a0 a1 a2) = (val [a0; a1; a2] * 2 ^ 191) mod Wn 3) /\
  (wf (gen_muln_3_192 a0 a1 a2) /\ val (gen_muln_3_192 a0 a1 a2) = (val [a0; a1; a2] * 2 ^ 192) mod Wn 3) /\
  (wf (gen_muln_3_193 a0 a1 a2) /\ val (gen_muln_3_193 a0 a1 a2) = (val [a0; a1; a2] * 2 ^ 193) mod Wn 3).
Proof. intros Ha. repeat split; (pose proof (gen_muln_3_eq a0 a1 a2) as E; use_eqs E); shift_close Ha. Qed.
Lemma gen_muln_4_eq a0 a1 a2 a3 :
  gen_muln_4_0 a0 a1 a2 a3 = shl [a0; a1; a2; a3] 0 /\
  gen_muln_4_1 a0 a1 a2 a3 = shl [a0; a1; a2; a3] 1 /\
  gen_muln_4_63 a0 a1 a2 a3 = shl [a0; a1; a2; a3] 63 /\
  gen_muln_4_64 a0 a1 a2 a3 = shl [a0; a1; a2; a3] 64 /\
  gen_muln_4_65 a0 a1 a2 a3 = shl [a0; a1; a2; a3] 65 /\
  gen_muln_4_127 a0 a1 a2 a3 = shl [a0; a1; a2; a3] 127 /\
  gen_muln_4_128 a0 a1 a2 a3 = shl [a0; a1; a2; a3] 128 /\
  gen_muln_4_255 a0 a1 a2 a3 = shl [a0; a1; a2; a3] 255 /\
  gen_muln_4_256 a0 a1 a2 a3 = shl [a0; a1; a2; a3] 256 /\
  gen_muln_4_257 a0 a1 a2 a3 = shl [a0; a1; a2; a3] 257.
Proof. repeat split; reflexivity. Qed.
Lemma gen_muln_4_spec a0 a1 a2 a3 :
  wf [a0; a1; a2; a3] ->
  (wf (gen_muln_4_0 a0 a1 a2 a3) /\ val (gen_muln_4_0 a0 a1 a2 a3) = (val [a0; a1; a2; a3] * 2 ^ 0) mod Wn 4) /\
  (wf (gen_muln_4_1 a0 a1 a2 a3) /\ val (gen_muln_4_1 a0 a1 a2 a3) = (val [a0; a1; a2; a3] * 2 ^ 1) mod Wn 4) /\
  (wf (gen_muln_4_63 a0 a1 a2 a3) /\ val (gen_muln_4_63 a0 a1 a2 a3) = (val [a0; a1; a2; a3] * 2 ^ 63) mod Wn 4) /\
  (wf (gen_muln_4_64 a0 a1 a2 a3) /\ val (gen_muln_4_64 a0 a1 a2 a3) = (val [a0; a1; a2; a3] * 2 ^ 64) mod Wn 4) /\
  (wf (gen_muln_4_65 a0 a1 a2 a3) /\ val (gen_muln_4_65 a0 a1 a2 a3) = (val [a0; a1; a2; a3] * 2 ^ 65) mod Wn 4) /\
  (wf (gen_muln_4_127 a0 a1 a2 a3) /\ val (gen_muln_4_127 a0 a1 a2 a3) = (val [a0; a1; a2; a3] * 2 ^ 127) mod Wn 4) /\
  (wf (gen_muln_4_128 a0 a1 a2 a3) /\ val (gen_muln_4_128 a0 a1 a2 a3) = (val [a0; a1; a2; a3] * 2 ^ 128) mod Wn 4) /\
  (wf (gen_muln_4_255 a0 a1 a2 a3) /\ val (gen_muln_4_255 a0 a1 a2 a3) = (val [a0; a1; a2; a3] * 2 ^ 255) mod Wn 4) /\
  (wf (gen_muln_4_256 a0 a1 a2 a3) /\ val (gen_muln_4_256 a0 a1 a2 a3) = (val [a0; a1; a2; a3] * 2 ^ 256) mod Wn 4) /\
  (wf (gen_muln_4_257 a0 a1 a2 a3) /\ val (gen_muln_4_257 a0 a1 a2 a3) = (val [a0; a1; a2; a3] * 2 ^ 257) mod Wn 4).
Proof. intros Ha. repeat split; (pose proof (gen_muln_4_eq a0 a1 a2 a3) as E; use_eqs E); shift_close Ha. Qed.
Lemma gen_divn_1_eq a0 :
  gen_divn_1_0 a0 = shr [a0] 0 /\
  gen_divn_1_1 a0 = shr [a0] 1 /\
  gen_divn_1_63 a0 = shr [a0] 63 /\
  gen_divn_1_64 a0 = shr [a0] 64 /\
  gen_divn_1_65 a0 = shr [a0] 65 /\
  gen_divn_1_127 a0 = shr [a0] 127 /\
  gen_divn_1_128 a0 = shr [a0] 128.
Proof. repeat split; reflexivity. Qed.
Lemma gen_divn_1_spec a0 :
  wf [a0] ->
  (wf (gen_divn_1_0 a0) /\ val (gen_divn_1_0 a0) = val [a0] / 2 ^ 0) /\
  (wf (gen_divn_1_1 a0) /\ val (gen_divn_1_1 a0) = val [a0] / 2 ^ 1) /\
  (wf (gen_divn_1_63 a0) /\ val (gen_divn_1_63 a0) = val [a0] / 2 ^ 63) /\
  (wf (gen_divn_1_64 a0) /\ val (gen_divn_1_64 a0) = val [a0] / 2 ^ 64) /\
  (wf (gen_divn_1_65 a0) /\ val (gen_divn_1_65 a0) = val [a0] / 2 ^ 65) /\
  (wf (gen_divn_1_127 a0) /\ val (gen_divn_1_127 a0) = val [a0] / 2 ^ 127) /\
  (wf (gen_divn_1_128 a0) /\ val (gen_divn_1_128 a0) = val [a0] / 2 ^ 128).
Proof. intros Ha. repeat split; (pose proof (gen_divn_1_eq a0) as E; use_eqs E); shift_close Ha. Qed.
Lemma gen_divn_2_eq a0 a1 :
  gen_divn_2_0 a0 a1 = shr [a0; a1] 0 /\
  gen_divn_2_1 a0 a1 = shr [a0; a1] 1 /\
  gen_divn_2_63 a0 a1 = shr [a0; a1] 63 /\
  gen_divn_2_64 a0 a1 = shr [a0; a1] 64 /\
  gen_divn_2_65 a0 a1 = shr [a0; a1] 65 /\
  gen_divn_2_127 a0 a1 = shr [a0; a1] 127 /\
  gen_divn_2_128 a0 a1 = shr [a0; a1] 128 /\
  gen_divn_2_129 a0 a1 = shr [a0; a1] 129.
Proof. repeat split; reflexivity. Qed.
Lemma gen_divn_2_spec a0 a1 :
  wf [a0; a1] ->
  (wf (gen_divn_2_0 a0 a1) /\ val (gen_divn_2_0 a0 a1) = val [a0; a1] / 2 ^ 0) /\
  (wf (gen_divn_2_1 a0 a1) /\ val (gen_divn_2_1 a0 a1) = val [a0; a1] / 2 ^ 1) /\
  (wf (gen_divn_2_63 a0 a1) /\ val (gen_divn_2_63 a0 a1) = val [a0; a1] / 2 ^ 63) /\
  (wf (gen_divn_2_64 a0 a1) /\ val (gen_divn_2_64 a0 a1) = val [a0; a1] / 2 ^ 64) /\
  (wf (gen_divn_2_65 a0 a1) /\ val (gen_divn_2_65 a0 a1) = val [a0; a1] / 2 ^ 65) /\
  (wf (gen_divn_2_127 a0 a1) /\ val (gen_divn_2_127 a0 a1) = val [a0; a1] / 2 ^ 127) /\
  (wf (gen_divn_2_128 a0 a1) /\ val (gen_divn_2_128 a0 a1) = val [a0; a1] / 2 ^ 128) /\
  (wf (gen_divn_2_129 a0 a1) /\ val (gen_divn_2_129 a0 a1) = val [a0; a1] / 2 ^ 129).
Proof. intros Ha. repeat split; (pose proof (gen_divn_2_eq a0 a1) as E; use_eqs E); shift_close Ha. Qed.
Lemma gen_divn_3_eq a0 a1 a2 :
  gen_divn_3_0 a0 a1 a2 = shr [a0; a1; a2] 0 /\
  gen_divn_3_1 a0 a1 a2 = shr [a0; a1; a2] 1 /\
  gen_divn_3_63 a0 a1 a2 = shr [a0; a1; a2] 63 /\
  gen_divn_3_64 a0 a1 a2 = shr [a0; a1; a2] 64 /\
  gen_divn_3_65 a0 a1 a2 = shr [a0; a1; a2] 65 /\
  gen_divn_3_127 a0 a1 a2 = shr [a0; a1; a2] 127 /\
  gen_divn_3_128 a0 a1 a2 = shr [a0; a1; a2] 128 /\
  gen_divn_3_191 a0 a1 a2 = shr [a0; a1; a2] 191 /\
  gen_divn_3_192 a0 a1 a2 = shr [a0; a1; a2] 192 /\
  gen_divn_3_193 a0 a1 a2 = shr [a0; a1; a2] 193.
Proof. repeat split; reflexivity. Qed.
Lemma gen_divn_3_spec a0 a1 a2 :
  wf [a0; a1; a2] ->
  (wf (gen_divn_3_0 a0 a1 a2) /\ val (gen_divn_3_0 a0 a1 a2) = val [a0; a1; a2] / 2 ^ 0) /\
  (wf (gen_divn_3_1 a0 a1 a2) /\ val (gen_divn_3_1 a0 a1 a2) = val [a0; a1; a2] / 2 ^ 1) /\
  (wf (gen_divn_3_63 a0 a1 a2) /\ val (gen_divn_3_63 a0 a1 a2) = val [a0; a1; a2] / 2 ^ 63) /\
  (wf (gen_divn_3_64 a0 a1 a2) /\ val (gen_divn_3_64 a0 a1 a2) = val [a0; a1; a2] / 2 ^ 64) /\
  (wf (gen_divn_3_65 a0 a1 a2) /\ val (gen_divn_3_65 a0 a1 a2) = val [a0; a1; a2] / 2 ^ 65) /\
  (wf (gen_divn_3_127 a0 a1 a2) /\ val (gen_divn_3_127 a0 a1 a2) = val [a0; a1; a2] / 2 ^ 127) /\
  (wf (gen_divn_3_128 a0 a1 a2) /\ val (gen_divn_3_128 a0 a1 a2) = val [a0; a1; a2] / 2 ^ 128) /\
  (wf (gen_divn_3_191 a0 a1 a2) /\ val (gen_divn_3_191 a0 a1 a2) = val [a0; a1; a2] / 2 ^ 191) /\
  (wf (gen_divn_3_192 a0 a1 a2) /\ val (gen_divn_3_192 a0 a1 a2) = val [a0; a1; a2] / 2 ^ 192) /\
  (wf (gen_divn_3_193 a0 a1 a2) /\ val (gen_divn_3_193 a0 a1 a2) = val [a0; a1; a2] / 2 ^ 193).
Proof. intros Ha. repeat split; (pose proof (gen_divn_3_eq a0 a1 a2) as E; use_eqs E); shift_close Ha. Qed.
Lemma gen_divn_4_eq a0 a1 a2 a3 :
  gen_divn_4_0 a0 a1 a2 a3 = shr [a0; a1; a2; a3] 0 /\
  gen_divn_4_1 a0 a1 a2 a3 = shr [a0; a1; a2; a3] 1 /\
  gen_divn_4_63 a0 a1 a2 a3 = shr [a0; a1; a2; a3] 63 /\
  gen_divn_4_64 a0 a1 a2 a3 = shr [a0; a1; a2; a3] 64 /\
  gen_divn_4_65 a0 a1 a2 a3 = shr [a0; a1; a2; a3] 65 /\
  gen_divn_4_127 a0 a1 a2 a3 = shr [a0; a1; a2; a3] 127 /\
  gen_divn_4_128 a0 a1 a2 a3 = shr [a0; a1; a2; a3] 128 /\
  gen_divn_4_255 a0 a1 a2 a3 = shr [a0; a1; a2; a3] 255 /\
  gen_divn_4_256 a0 a1 a2 a3 = shr [a0; a1; a2; a3] 256 /\
  gen_divn_4_257 a0 a1 a2 a3 = shr [a0; a1; a2; a3] 257.
Proof. repeat split; reflexivity. Qed.
Lemma gen_divn_4_spec a0 a1 a2 a3 :
  wf [a0; a1; a2; a3] ->
  (wf (gen_divn_4_0 a0 a1 a2 a3) /\ val (gen_divn_4_0 a0 a1 a2 a3) = val [a0; a1; a2; a3] / 2 ^ 0) /\
  (wf (gen_divn_4_1 a0 a1 a2 a3) /\ val (gen_divn_4_1 a0 a1 a2 a3) = val [a0; a1; a2; a3] / 2 ^ 1) /\
  (wf (gen_divn_4_63 a0 a1 a2 a3) /\ val (gen_divn_4_63 a0 a1 a2 a3) = val [a0; a1; a2; a3] / 2 ^ 63) /\
  (wf (gen_divn_4_64 a0 a1 a2 a3) /\ val (gen_divn_4_64 a0 a1 a2 a3) = val [a0; a1; a2; a3] / 2 ^ 64) /\
  (wf (gen_divn_4_65 a0 a1 a2 a3) /\ val (gen_divn_4_65 a0 a1 a2 a3) = val [a0; a1; a2; a3] / 2 ^ 65) /\
  (wf (gen_divn_4_127 a0 a1 a2 a3) /\ val (gen_divn_4_127 a0 a1 a2 a3) = val [a0; a1; a2; a3] / 2 ^ 127) /\
  (wf (gen_divn_4_128 a0 a1 a2 a3) /\ val (gen_divn_4_128 a0 a1 a2 a3) = val [a0; a1; a2; a3] / 2 ^ 128) /\
  (wf (gen_divn_4_255 a0 a1 a2 a3) /\ val (gen_divn_4_255 a0 a1 a2 a3) = val [a0; a1; a2; a3] / 2 ^ 255) /\
  (wf (gen_divn_4_256 a0 a1 a2 a3) /\ val (gen_divn_4_256 a0 a1 a2 a3) = val [a0; a1; a2; a3] / 2 ^ 256) /\
  (wf (gen_divn_4_257 a0 a1 a2 a3) /\ val (gen_divn_4_257 a0 a1 a2 a3) = val [a0; a1; a2; a3] / 2 ^ 257).
Proof. intros Ha. repeat split; (pose proof (gen_divn_4_eq a0 a1 a2 a3) as E; use_eqs E); shift_close Ha. Qed.
Lemma gen_shl_assign_1_eq a0 :
  gen_shl_assign_1_0 a0 = shl [a0] 0 /\
  gen_shl_assign_1_1 a0 = shl [a0] 1 /\
  gen_shl_assign_1_63 a0 = shl [a0] 63 /\
  gen_shl_assign_1_64 a0 = shl [a0] 64 /\
  gen_shl_assign_1_65 a0 = shl [a0] 65 /\
  gen_shl_assign_1_127 a0 = shl [a0] 127 /\
  gen_shl_assign_1_128 a0 = shl [a0] 128.
Proof. repeat split; reflexivity. Qed.
Lemma gen_shl_assign_1_spec a0 :
  wf [a0] ->
  (wf (gen_shl_assign_1_0 a0) /\ val (gen_shl_assign_1_0 a0) = (val [a0] * 2 ^ 0) mod Wn 1) /\
  (wf (gen_shl_assign_1_1 a0) /\ val (gen_shl_assign_1_1 a0) = (val [a0] * 2 ^ 1) mod Wn 1) /\
  (wf (gen_shl_assign_1_63 a0) /\ val (gen_shl_assign_1_63 a0) = (val [a0] * 2 ^ 63) mod Wn 1) /\
  (wf (gen_shl_assign_1_64 a0) /\ val (gen_shl_assign_1_64 a0) = (val [a0] * 2 ^ 64) mod Wn 1) /\
  (wf (gen_shl_assign_1_65 a0) /\ val (gen_shl_assign_1_65 a0) = (val [a0] * 2 ^ 65) mod Wn 1) /\
  (wf (gen_shl_assign_1_127 a0) /\ val (gen_shl_assign_1_127 a0) = (val [a0] * 2 ^ 127) mod Wn 1) /\
  (wf (gen_shl_assign_1_128 a0) /\ val (gen_shl_assign_1_128 a0) = (val [a0] * 2 ^ 128) mod Wn 1).
Proof. intros Ha. repeat split; (pose proof (gen_shl_assign_1_eq a0) as E; use_eqs E); shift_close Ha. Qed.
Lemma gen_shl_assign_2_eq a0 a1 :
  gen_shl_assign_2_0 a0 a1 = shl [a0; a1] 0 /\
  gen_shl_assign_2_1 a0 a1 = shl [a0; a1] 1 /\
  gen_shl_assign_2_63 a0 a1 = shl [a0; a1] 63 /\
  gen_shl_assign_2_64 a0 a1 = shl [a0; a1] 64 /\
  gen_shl_assign_2_65 a0 a1 = shl [a0; a1] 65 /\
  gen_shl_assign_2_127 a0 a1 = shl [a0; a1] 127 /\
  gen_shl_assign_2_128 a0 a1 = shl [a0; a1] 128 /\
  gen_shl_assign_2_129 a0 a1 = shl [a0; a1] 129.
Proof. repeat split; reflexivity. Qed.
Lemma gen_shl_assign_2_spec a0 a1 :
  wf [a0; a1] ->
  (wf (gen_shl_assign_2_0 a0 a1) /\ val (gen_shl_assign_2_0 a0 a1) = (val [a0; a1] * 2 ^ 0) mod Wn 2) /\
  (wf (gen_shl_assign_2_1 a0 a1) /\ val (gen_shl_assign_2_1 a0 a1) = (val [a0; a1] * 2 ^ 1) mod Wn 2) /\
  (wf (gen_shl_assign_2_63 a0 a1) /\ val (gen_shl_assign_2_63 a0 a1) = (val [a0; a1] * 2 ^ 63) mod Wn 2) /\
  (wf (gen_shl_assign_2_64 a0 a1) /\ val (gen_shl_assign_2_64 a0 a1) = (val [a0; a1] * 2 ^ 64) mod Wn 2) /\
  (wf (gen_shl_assign_2_65 a0 a1) /\ val (gen_shl_assign_2_65 a0 a1) = (val [a0; a1] * 2 ^ 65) mod Wn 2) /\
  (wf (gen_shl_assign_2_127 a0 a1) /\ val (gen_shl_assign_2_127 a0 a1) = (val [a0; a1] * 2 ^ 127) mod Wn 2) /\
  (wf (gen_shl_assign_2_128 a0 a1) /\ val (gen_shl_assign_2_128 a0 a1) = (val [a0; a1] * 2 ^ 128) mod Wn 2) /\
  (wf (gen_shl_assign_2_129 a0 a1) /\ val (gen_shl_assign_2_129 a0 a1) = (val [a0; a1] * 2 ^ 129) mod Wn 2).
Proof. intros Ha. repeat split; (pose proof (gen_shl_assign_2_eq a0 a1) as E; use_eqs E); shift_close Ha. Qed.
Lemma gen_shl_assign_3_eq a0 a1 a2 :
  gen_shl_assign_3_0 a0 a1 a2 = shl [a0; a1; a2] 0 /\
  gen_shl_assign_3_1 a0 a1 a2 = shl [a0; a1; a2] 1 /\
  gen_shl_assign_3_63 a0 a1 a2 = shl [a0; a1; a2] 63 /\
  gen_shl_assign_3_64 a0 a1 a2 = shl [a0; a1; a2] 64 /\
  gen_shl_assign_3_65 a0 a1 a2 = shl [a0; a1; a2] 65 /\
  gen_shl_assign_3_127 a0 a1 a2 = shl [a0; a1; a2] 127 /\
  gen_shl_assign_3_128 a0 a1 a2 = shl [a0; a1; a2] 128 /\
  gen_shl_assign_3_191 a0 a1 a2 = shl [a0; a1; a2] 191 /\
  gen_shl_assign_3_192 a0 a1 a2 = shl [a0; a1; a2] 192 /\
  gen_shl_assign_3_193 a0 a1 a2 = shl [a0; a1; a2] 193.
Proof. repeat split; reflexivity. Qed.
Lemma gen_shl_assign_3_spec a0 a1 a2 :
  wf [a0; a1; a2] ->
  (wf (gen_shl_assign_3_0 a0 a1 a2) /\ val (gen_shl_assign_3_0 a0 a1 a2) = (val [a0; a1; a2] * 2 ^ 0) mod Wn 3) /\
  (wf (gen_shl_assign_3_1 a0 a1 a2) /\ val (gen_shl_assign_3_1 a0 a1 a2) = (val [a0; a1; a2] * 2 ^ 1) mod Wn 3) /\
  (wf (gen_shl_assign_3_63 a0 a1 a2) /\ val (gen_shl_assign_3_63 a0 a1 a2) = (val [a0; a1; a2] * 2 ^ 63) mod Wn 3) /\
  (wf (gen_shl_assign_3_64 a0 a1 a2) /\ val (gen_shl_assign_3_64 a0 a1 a2) = (val [a0; a1; a2] * 2 ^ 64) mod Wn 3) /\
  (wf (gen_shl_assign_3_65 a0 a1 a2) /\ val (gen_shl_assign_3_65 a0 a1 a2) = (val [a0; a1; a2] * 2 ^ 65) mod Wn 3) /\
  (wf (gen_shl_assign_3_127 a0 a1 a2) /\ val (gen_shl_assign_3_127 a0 a1 a2) = (val [a0; a1; a2] * 2 ^ 127) mod Wn 3) /\
  (wf (gen_shl_assign_3_128 a0 a1 a2) /\ val (gen_shl_assign_3_128 a0 a1 a2) = (val [a0; a1; a2] * 2 ^ 128) mod Wn 3) /\
  (wf (gen_shl_assign_3_191 a0 a1 a2) /\ val (gen_shl_assign_3_191 a0 a1 a2) = (val [a0; a1; a2] * 2 ^ 191) mod Wn 3) /\
  (wf (gen_shl_assign_3_192 a0 a1 a2) /\ val (gen_shl_assign_3_192 a0 a1 a2) = (val [a0; a1; a2] * 2 ^ 192) mod Wn 3) /\
  (wf (gen_shl_assign_3_193 a0 a1 a2) /\ val (gen_shl_assign_3_193 a0 a1 a2) = (val [a0; a1; a2] * 2 ^ 193) mod Wn 3).
Proof. intros Ha. repeat split; (pose proof (gen_shl_assign_3_eq a0 a1 a2) as E; use_eqs E); shift_close Ha. Qed.
Lemma gen_shl_assign_4_eq a0 a1 a2 a3 :
  gen_shl_assign_4_0 a0 a1 a2 a3 = shl [a0; a1; a2; a3] 0 /\
  gen_shl_assign_4_1 a0 a1 a2 a3 = shl [a0; a1; a2; a3] 1 /\
  gen_shl_assign_4_63 a0 a1 a2 a3 = shl [a0; a1; a2; a3] 63 /\
  gen_shl_assign_4_64 a0 a1 a2 a3 = shl [a0; a1; a2; a3] 64 /\
  gen_shl_assign_4_65 a0 a1 a2 a3 = shl [a0; a1; a2; a3] 65 /\
  gen_shl_assign_4_127 a0 a1 a2 a3 = shl [a0; a1; a2; a3] 127 /\
  gen_shl_assign_4_128 a0 a1 a2 a3 = shl [a0; a1; a2; a3] 128 /\
  gen_shl_assign_4_255 a0 a1 a2 a3 = shl [a0; a1; a2; a3] 255 /\
  gen_shl_assign_4_256 a0 a1 a2 a3 = shl [a0; a1; a2; a3] 256 /\
  gen_shl_assign_4_257 a0 a1 a2 a3 = shl [a0; a1; a2; a3] 257.
Proof. repeat split; reflexivity. Qed.
Lemma gen_shl_assign_4_spec a0 a1 a2 a3 :
  wf [a0; a1; a2; a3] ->
  (wf (gen_shl_assign_4_0 a0 a1 a2 a3) /\ val (gen_shl_assign_4_0 a0 a1 a2 a3) = (val [a0; a1; a2; a3] * 2 ^ 0) mod Wn 4) /\
  (wf (gen_shl_assign_4_1 a0 a1 a2 a3) /\ val (gen_shl_assign_4_1 a0 a1 a2 a3) = (val [a0; a1; a2; a3] * 2 ^ 1) mod Wn 4) /\
  (wf (gen_shl_assign_4_63 a0 a1 a2 a3) /\ val (gen_shl_assign_4_63 a0 a1 a2 a3) = (val [a0; a1; a2; a3] * 2 ^ 63) mod Wn 4) /\
  (wf (gen_shl_assign_4_64 a0 a1 a2 a3) /\ val (gen_shl_assign_4_64 a0 a1 a2 a3) = (val [a0; a1; a2; a3] * 2 ^ 64) mod Wn 4) /\
  (wf (gen_shl_assign_4_65 a0 a1 a2 a3) /\ val (gen_shl_assign_4_65 a0 a1 a2 a3) = (val [a0; a1; a2; a3] * 2 ^ 65) mod Wn 4) /\
  (wf (gen_shl_assign_4_127 a0 a1 a2 a3) /\ val (gen_shl_assign_4_127 a0 a1 a2 a3) = (val [a0; a1; a2; a3] * 2 ^ 127) mod Wn 4) /\
  (wf (gen_shl_assign_4_128 a0 a1 a2 a3) /\ val (gen_shl_assign_4_128 a0 a1 a2 a3) = (val [a0; a1; a2; a3] * 2 ^ 128) mod Wn 4) /\
  (wf (gen_shl_assign_4_255 a0 a1 a2 a3) /\ val (gen_shl_assign_4_255 a0 a1 a2 a3) = (val [a0; a1; a2; a3] * 2 ^ 255) mod Wn 4) /\
  (wf (gen_shl_assign_4_256 a0 a1 a2 a3) /\ val (gen_shl_assign_4_256 a0 a1 a2 a3) = (val [a0; a1; a2; a3] * 2 ^ 256) mod Wn 4) /\
  (wf (gen_shl_assign_4_257 a0 a1 a2 a3) /\ val (gen_shl_assign_4_257 a0 a1 a2 a3) = (val [a0; a1; a2; a3] * 2 ^ 257) mod Wn 4).
Proof. intros Ha. repeat split; (pose proof (gen_shl_assign_4_eq a0 a1 a2 a3) as E; use_eqs E); shift_close Ha. Qed.
Lemma gen_shr_assign_1_eq a0 :
  gen_shr_assign_1_0 a0 = shr [a0] 0 /\
  gen_shr_assign_1_1 a0 = shr [a0] 1 /\
  gen_shr_assign_1_63 a0 = shr [a0] 63 /\
  gen_shr_assign_1_64 a0 = shr [a0] 64 /\
  gen_shr_assign_1_65 a0 = shr [a0] 65 /\
  gen_shr_assign_1_127 a0 = shr [a0] 127 /\
  gen_shr_assign_1_128 a0 = shr [a0] 128.
Proof. repeat split; reflexivity. Qed.
Lemma gen_shr_assign_1_spec a0 :
  wf [a0] ->
  (wf (gen_shr_assign_1_0 a0) /\ val (gen_shr_assign_1_0 a0) = val [a0] / 2 ^ 0) /\
  (wf (gen_shr_assign_1_1 a0) /\ val (gen_shr_assign_1_1 a0) = val [a0] / 2 ^ 1) /\
  (wf (gen_shr_assign_1_63 a0) /\ val (gen_shr_assign_1_63 a0) = val [a0] / 2 ^ 63) /\
  (wf (gen_shr_assign_1_64 a0) /\ val (gen_shr_assign_1_64 a0) = val [a0] / 2 ^ 64) /\
  (wf (gen_shr_assign_1_65 a0) /\ val (gen_shr_assign_1_65 a0) = val [a0] / 2 ^ 65) /\
  (wf (gen_shr_assign_1_127 a0) /\ val (gen_shr_assign_1_127 a0) = val [a0] / 2 ^ 127) /\
  (wf (gen_shr_assign_1_128 a0) /\ val (gen_shr_assign_1_128 a0) = val [a0] / 2 ^ 128).
Proof. intros Ha. repeat split; (pose proof (gen_shr_assign_1_eq a0) as E; use_eqs E); shift_close Ha. Qed.
Lemma gen_shr_assign_2_eq a0 a1 :
  gen_shr_assign_2_0 a0 a1 = shr [a0; a1] 0 /\
  gen_shr_assign_2_1 a0 a1 = shr [a0; a1] 1 /\
  gen_shr_assign_2_63 a0 a1 = shr [a0; a1] 63 /\
  gen_shr_assign_2_64 a0 a1 = shr [a0; a1] 64 /\
  gen_shr_assign_2_65 a0 a1 = shr [a0; a1] 65 /\
  gen_shr_assign_2_127 a0 a1 = shr [a0; a1] 127 /\
  gen_shr_assign_2_128 a0 a1 = shr [a0; a1] 128 /\
  gen_shr_assign_2_129 a0 a1 = shr [a0; a1] 129.
Proof. repeat split; reflexivity. Qed.
Lemma gen_shr_assign_2_spec a0 a1 :
  wf [a0; a1] ->
  (wf (gen_shr_assign_2_0 a0 a1) /\ val (gen_shr_assign_2_0 a0 a1) = val [a0; a1] / 2 ^ 0) /\
  (wf (gen_shr_assign_2_1 a0 a1) /\ val (gen_shr_assign_2_1 a0 a1) = val [a0; a1] / 2 ^ 1) /\
  (wf (gen_shr_assign_2_63 a0 a1) /\ val (gen_shr_assign_2_63 a0 a1) = val [a0; a1] / 2 ^ 63) /\
  (wf (gen_shr_assign_2_64 a0 a1) /\ val (gen_shr_assign_2_64 a0 a1) = val [a0; a1] / 2 ^ 64) /\
  (wf (gen_shr_assign_2_65 a0 a1) /\ val (gen_shr_assign_2_65 a0 a1) = val [a0; a1] / 2 ^ 65) /\
  (wf (gen_shr_assign_2_127 a0 a1) /\ val (gen_shr_assign_2_127 a0 a1) = val [a0; a1] / 2 ^ 127) /\
  (wf (gen_shr_assign_2_128 a0 a1) /\ val (gen_shr_assign_2_128 a0 a1) = val [a0; a1] / 2 ^ 128) /\
  (wf (gen_shr_assign_2_129 a0 a1) /\ val (gen_shr_assign_2_129 a0 a1) = val [a0; a1] / 2 ^ 129).
Proof. intros Ha. repeat split; (pose proof (gen_shr_assign_2_eq a0 a1) as E; use_eqs E); shift_close Ha. Qed.
Lemma gen_shr_assign_3_eq a0 a1 a2 :
  gen_shr_assign_3_0 a0 a1 a2 = shr [a0; a1; a2] 0 /\
  gen_shr_assign_3_1 a0 a1 a2 = shr [a0; a1; a2] 1 /\
  gen_shr_assign_3_63 a0 a1 a2 = shr [a0; a1; a2] 63 /\
  gen_shr_assign_3_64 a0 a1 a2 = shr [a0; a1; a2] 64 /\
  gen_shr_assign_3_65 a0 a1 a2 = shr [a0; a1; a2] 65 /\
  gen_shr_assign_3_127 a0 a1 a2 = shr [a0; a1; a2] 127 /\
  gen_shr_assign_3_128 a0 a1 a2 = shr [a0; a1; a2] 128 /\
  gen_shr_assign_3_191 a0 a1 a2 = shr [a0; a1; a2] 191 /\
  gen_shr_assign_3_192 a0 a1 a2 = shr [a0; a1; a2] 192 /\
  gen_shr_assign_3_193 a0 a1 a2 = shr [a0; a1; a2] 193.
Proof. repeat split; reflexivity. Qed.
Lemma gen_shr_assign_3_spec a0 a1 a2 :
  wf [a0; a1; a2] ->
  (wf (gen_shr_assign_3_0 a0 a1 a2) /\ val (gen_shr_assign_3_0 a0 a1 a2) = val [a0; a1; a2] / 2 ^ 0) /\
  (wf (gen_shr_assign_3_1 a0 a1 a2) /\ val (gen_shr_assign_3_1 a0 a1 a2) = val [a0; a1; a2] / 2 ^ 1) /\
  (wf (gen_shr_assign_3_63 a0 a1 a2) /\ val (gen_shr_assign_3_63 a0 a1 a2) = val [a0; a1; a2] / 2 ^ 63) /\
  (wf (gen_shr_assign_3_64 a0 a1 a2) /\ val (gen_shr_assign_3_64 a0 a1 a2) = val [a0; a1; a2] / 2 ^ 64) /\
  (wf (gen_shr_assign_3_65 a0 a1 a2) /\ val (gen_shr_assign_3_65 a0 a1 a2) = val [a0; a1; a2] / 2 ^ 65) /\
  (wf (gen_shr_assign_3_127 a0 a1 a2) /\ val (gen_shr_assign_3_127 a0 a1 a2) = val [a0; a1; a2] / 2 ^ 127) /\
  (wf (gen_shr_assign_3_128 a0 a1 a2) /\ val (gen_shr_assign_3_128 a0 a1 a2) = val [a0; a1; a2] / 2 ^ 128) /\
  (wf (gen_shr_assign_3_191 a0 a1 a2) /\ val (gen_shr_assign_3_191 a0 a1 a2) = val [a0; a1; a2] / 2 ^ 191) /\
  (wf (gen_shr_assign_3_192 a0 a1 a2) /\ val (gen_shr_assign_3_192 a0 a1 a2) = val [a0; a1; a2] / 2 ^ 192) /\
  (wf (gen_shr_assign_3_193 a0 a1 a2) /\ val (gen_shr_assign_3_193 a0 a1 a2) = val [a0; a1; a2] / 2 ^ 193).
Proof. intros Ha. repeat split; (pose proof (gen_shr_assign_3_eq a0 a1 a2) as E; use_eqs E); shift_close Ha. Qed.
Lemma gen_shr_assign_4_eq a0 a1 a2 a3 :
  gen_shr_assign_4_0 a0 a1 a2 a3 = shr [a0; a1; a2; a3] 0 /\
  gen_shr_assign_4_1 a0 a1 a2 a3 = shr [a0; a1; a2; a3] 1 /\
  gen_shr_assign_4_63 a0 a1 a2 a3 = shr [a0; a1; a2; a3] 63 /\
  gen_shr_assign_4_64 a0 a1 a2 a3 = shr [a0; a1; a2; a3] 64 /\
  gen_shr_assign_4_65 a0 a1 a2 a3 = shr [a0; a1; a2; a3] 65 /\
  gen_shr_assign_4_127 a0 a1 a2 a3 = shr [a0; a1; a2; a3] 127 /\
  gen_shr_assign_4_128 a0 a1 a2 a3 = shr [a0; a1; a2; a3] 128 /\
  gen_shr_assign_4_255 a0 a1 a2 a3 = shr [a0; a1; a2; a3] 255 /\
  gen_shr_assign_4_256 a0 a1 a2 a3 = shr [a0; a1; a2; a3] 256 /\
  gen_shr_assign_4_257 a0 a1 a2 a3 = shr [a0; a1; a2; a3] 257.
Proof. repeat split; reflexivity. Qed.
Lemma gen_shr_assign_4_spec a0 a1 a2 a3 :
  wf [a0; a1; a2; a3] ->
  (wf (gen_shr_assign_4_0 a0 a1 a2 a3) /\ val (gen_shr_assign_4_0 a0 a1 a2 a3) = val [a0; a1; a2; a3] / 2 ^ 0) /\
  (wf (gen_shr_assign_4_1 a0 a1 a2 a3) /\ val (gen_shr_assign_4_1 a0 a1 a2 a3) = val [a0; a1; a2; a3] / 2 ^ 1) /\
  (wf (gen_shr_assign_4_63 a0 a1 a2 a3) /\ val (gen_shr_assign_4_63 a0 a1 a2 a3) = val [a0; a1; a2; a3] / 2 ^ 63) /\
  (wf (gen_shr_assign_4_64 a0 a1 a2 a3) /\ val (gen_shr_assign_4_64 a0 a1 a2 a3) = val [a0; a1; a2; a3] / 2 ^ 64) /\
  (wf (gen_shr_assign_4_65 a0 a1 a2 a3) /\ val (gen_shr_assign_4_65 a0 a1 a2 a3) = val [a0; a1; a2; a3] / 2 ^ 65) /\
  (wf (gen_shr_assign_4_127 a0 a1 a2 a3) /\ val (gen_shr_assign_4_127 a0 a1 a2 a3) = val [a0; a1; a2; a3] / 2 ^ 127) /\
  (wf (gen_shr_assign_4_128 a0 a1 a2 a3) /\ val (gen_shr_assign_4_128 a0 a1 a2 a3) = val [a0; a1; a2; a3] / 2 ^ 128) /\
  (wf (gen_shr_assign_4_255 a0 a1 a2 a3) /\ val (gen_shr_assign_4_255 a0 a1 a2 a3) = val [a0; a1; a2; a3] / 2 ^ 255) /\
  (wf (gen_shr_assign_4_256 a0 a1 a2 a3) /\ val (gen_shr_assign_4_256 a0 a1 a2 a3) = val [a0; a1; a2; a3] / 2 ^ 256) /\
  (wf (gen_shr_assign_4_257 a0 a1 a2 a3) /\ val (gen_shr_assign_4_257 a0 a1 a2 a3) = val [a0; a1; a2; a3] / 2 ^ 257).
Proof. intros Ha. repeat split; (pose proof (gen_shr_assign_4_eq a0 a1 a2 a3) as E; use_eqs E); shift_close Ha. Qed.
Lemma gen_shl_1_eq a0 :
  gen_shl_1_0 a0 = shl [a0] 0 /\
  gen_shl_1_1 a0 = shl [a0] 1 /\
  gen_shl_1_63 a0 = shl [a0] 63 /\
  gen_shl_1_64 a0 = shl [a0] 64 /\
  gen_shl_1_65 a0 = shl [a0] 65 /\
  gen_shl_1_127 a0 = shl [a0] 127 /\
  gen_shl_1_128 a0 = shl [a0] 128.
Proof. repeat split; reflexivity. Qed.
Lemma gen_shl_1_spec a0 :
  wf [a0] ->
  (wf (gen_shl_1_0 a0) /\ val (gen_shl_1_0 a0) = (val [a0] * 2 ^ 0) mod Wn 1) /\
  (wf (gen_shl_1_1 a0) /\ val (gen_shl_1_1 a0) = (val [a0] * 2 ^ 1) mod Wn 1) /\
  (wf (gen_shl_1_63 a0) /\ val (gen_shl_1_63 a0) = (val [a0] * 2 ^ 63) mod Wn 1) /\
  (wf (gen_shl_1_64 a0) /\ val (gen_shl_1_64 a0) = (val [a0] * 2 ^ 64) mod Wn 1) /\
  (wf (gen_shl_1_65 a0) /\ val (gen_shl_1_65 a0) = (val [a0] * 2 ^ 65) mod Wn 1) /\
  (wf (gen_shl_1_127 a0) /\ val (gen_shl_1_127 a0) = (val [a0] * 2 ^ 127) mod Wn 1) /\
  (wf (gen_shl_1_128 a0) /\ val (gen_shl_1_128 a0) = (val [a0] * 2 ^ 128) mod Wn 1).
Proof. intros Ha. repeat split; (pose proof (gen_shl_1_eq a0) as E; use_eqs E); shift_close Ha. Qed.
Lemma gen_shl_2_eq a0 a1 :
  gen_shl_2_0 a0 a1 = shl [a0; a1] 0 /\
  gen_shl_2_1 a0 a1 = shl [a0; a1] 1 /\
  gen_shl_2_63 a0 a1 = shl [a0; a1] 63 /\
  gen_shl_2_64 a0 a1 = shl [a0; a1] 64 /\
  gen_shl_2_65 a0 a1 = shl [a0; a1] 65 /\
  gen_shl_2_127 a0 a1 = shl [a0; a1] 127 /\
  gen_shl_2_128 a0 a1 = shl [a0; a1] 128 /\
  gen_shl_2_129 a0 a1 = shl [a0; a1] 129.
Proof. repeat split; reflexivity. Qed.
Lemma gen_shl_2_spec a0 a1 :
  wf [a0; a1] ->
  (wf (gen_shl_2_0 a0 a1) /\ val (gen_shl_2_0 a0 a1) = (val [a0; a1] * 2 ^ 0) mod Wn 2) /\
  (wf (gen_shl_2_1 a0 a1) /\ val (gen_shl_2_1 a0 a1) = (val [a0; a1] * 2 ^ 1) mod Wn 2) /\
  (wf (gen_shl_2_63 a0 a1) /\ val (gen_shl_2_63 a0 a1) = (val [a0; a1] * 2 ^ 63) mod Wn 2) /\
  (wf (gen_shl_2_64 a0 a1) /\ val (gen_shl_2_64 a0 a1) = (val [a0; a1] * 2 ^ 64) mod Wn 2) /\
  (wf (gen_shl_2_65 a0 a1) /\ val (gen_shl_2_65 a0 a1) = (val [a0; a1] * 2 ^ 65) mod Wn 2) /\
  (wf (gen_shl_2_127 a0 a1) /\ val (gen_shl_2_127 a0 a1) = (val [a0; a1] * 2 ^ 127) mod Wn 2) /\
  (wf (gen_shl_2_128 a0 a1) /\ val (gen_shl_2_128 a0 a1) = (val [a0; a1] * 2 ^ 128) mod Wn 2) /\
  (wf (gen_shl_2_129 a0 a1) /\ val (gen_shl_2_129 a0 a1) = (val [a0; a1] * 2 ^ 129) mod Wn 2).
Proof. intros Ha. repeat split; (pose proof (gen_shl_2_eq a0 a1) as E; use_eqs E); shift_close Ha. Qed.
Lemma gen_shl_3_eq a0 a1 a2 :
  gen_shl_3_0 a0 a1 a2 = shl [a0; a1; a2] 0 /\
  gen_shl_3_1 a0 a1 a2 = shl [a0; a1; a2] 1 /\
  gen_shl_3_63 a0 a1 a2 = shl [a0; a1; a2] 63 /\
  gen_shl_3_64 a0 a1 a2 = shl [a0; a1; a2] 64 /\
  gen_shl_3_65 a0 a1 a2 = shl [a0; a1; a2] 65 /\
  gen_shl_3_127 a0 a1 a2 = shl [a0; a1; a2] 127 /\
  gen_shl_3_128 a0 a1 a2 = shl [a0; a1; a2] 128 /\
  gen_shl_3_191 a0 a1 a2 = shl [a0; a1; a2] 191 /\
  gen_shl_3_192 a0 a1 a2 = shl [a0; a1; a2] 192 /\
  gen_shl_3_193 a0 a1 a2 = shl [a0; a1; a2] 193.
Proof. repeat split; reflexivity. Qed.
Lemma gen_shl_3_spec a0 a1 a2 :
  wf [a0; a1; a2] ->
  (wf (gen_shl_3_0 a0 a1 a2) /\ val (gen_shl_3_0 a0 a1 a2) = (val [a0; a1; a2] * 2 ^ 0) mod Wn 3) /\
  (wf (gen_shl_3_1 a0 a1 a2) /\ val (gen_shl_3_1 a0 a1 a2) = (val [a0; a1; a2] * 2 ^ 1) mod Wn 3) /\
  (wf (gen_shl_3_63 a0 a1 a2) /\ val (gen_shl_3_63 a0 a1 a2) = (val [a0; a1; a2] * 2 ^ 63) mod Wn 3) /\
  (wf (gen_shl_3_64 a0 a1 a2) /\ val (gen_shl_3_64 a0 a1 a2) = (val [a0; a1; a2] * 2 ^ 64) mod Wn 3) /\
  (wf (gen_shl_3_65 a0 a1 a2) /\ val (gen_shl_3_65 a0 a1 a2) = (val [a0; a1; a2] * 2 ^ 65) mod Wn 3) /\
  (wf (gen_shl_3_127 a0 a1 a2) /\ val (gen_shl_3_127 a0 a1 a2) = (val [a0; a1; a2] * 2 ^ 127) mod Wn 3) /\
  (wf (gen_shl_3_128 a0 a1 a2) /\ val (gen_shl_3_128 a0 a1 a2) = (val [a0; a1; a2] * 2 ^ 128) mod Wn 3) /\
  (wf (gen_shl_3_191 a0 a1 a2) /\ val (gen_shl_3_191 a0 a1 a2) = (val [a0; a1; a2] * 2 ^ 191) mod Wn 3) /\
  (wf (gen_shl_3_192 a0 a1 a2) /\ val (gen_shl_3_192 a0 a1 a2) = (val [a0; a1; a2] * 2 ^ 192) mod Wn 3) /\
  (wf (gen_shl_3_193 a0 a1 a2) /\ val (gen_shl_3_193 a0 a1 a2) = (val [a0; a1; a2] * 2 ^ 193) mod Wn 3).
Proof. intros Ha. repeat split; (pose proof (gen_shl_3_eq a0 a1 a2) as E; use_eqs E); shift_close Ha. Qed.
Lemma gen_shl_4_eq a0 a1 a2 a3 :
  gen_shl_4_0 a0 a1 a2 a3 = shl [a0; a1; a2; a3] 0 /\
  gen_shl_4_1 a0 a1 a2 a3 = shl [a0; a1; a2; a3] 1 /\
  gen_shl_4_63 a0 a1 a2 a3 = shl [a0; a1; a2; a3] 63 /\
  gen_shl_4_64 a0 a1 a2 a3 = shl [a0; a1; a2; a3] 64 /\
  gen_shl_4_65 a0 a1 a2 a3 = shl [a0; a1; a2; a3] 65 /\
  gen_shl_4_127 a0 a1 a2 a3 = shl [a0; a1; a2; a3] 127 /\
  gen_shl_4_128 a0 a1 a2 a3 = shl [a0; a1; a2; a3] 128 /\
  gen_shl_4_255 a0 a1 a2 a3 = shl [a0; a1; a2; a3] 255 /\
  gen_shl_4_256 a0 a1 a2 a3 = shl [a0; a1; a2; a3] 256 /\
  gen_shl_4_257 a0 a1 a2 a3 = shl [a0; a1; a2; a3] 257.
Proof. repeat split; reflexivity. Qed.
Lemma gen_shl_4_spec a0 a1 a2 a3 :
  wf [a0; a1; a2; a3] ->
  (wf (gen_shl_4_0 a0 a1 a2 a3) /\ val (gen_shl_4_0 a0 a1 a2 a3) = (val [a0; a1; a2; a3] * 2 ^ 0) mod Wn 4) /\
  (wf (gen_shl_4_1 a0 a1 a2 a3) /\ val (gen_shl_4_1 a0 a1 a2 a3) = (val [a0; a1; a2; a3] * 2 ^ 1) mod Wn 4) /\
  (wf (gen_shl_4_63 a0 a1 a2 a3) /\ val (gen_shl_4_63 a0 a1 a2 a3) = (val [a0; a1; a2; a3] * 2 ^ 63) mod Wn 4) /\
  (wf (gen_shl_4_64 a0 a1 a2 a3) /\ val (gen_shl_4_64 a0 a1 a2 a3) = (val [a0; a1; a2; a3] * 2 ^ 64) mod Wn 4) /\
  (wf (gen_shl_4_65 a0 a1 a2 a3) /\ val (gen_shl_4_65 a0 a1 a2 a3) = (val [a0; a1; a2; a3] * 2 ^ 65) mod Wn 4) /\
  (wf (gen_shl_4_127 a0 a1 a2 a3) /\ val (gen_shl_4_127 a0 a1 a2 a3) = (val [a0; a1; a2; a3] * 2 ^ 127) mod Wn 4) /\
  (wf (gen_shl_4_128 a0 a1 a2 a3) /\ val (gen_shl_4_128 a0 a1 a2 a3) = (val [a0; a1; a2; a3] * 2 ^ 128) mod Wn 4) /\
  (wf (gen_shl_4_255 a0 a1 a2 a3) /\ val (gen_shl_4_255 a0 a1 a2 a3) = (val [a0; a1; a2; a3] * 2 ^ 255) mod Wn 4) /\
  (wf (gen_shl_4_256 a0 a1 a2 a3) /\ val (gen_shl_4_256 a0 a1 a2 a3) = (val [a0; a1; a2; a3] * 2 ^ 256) mod Wn 4) /\
  (wf (gen_shl_4_257 a0 a1 a2 a3) /\ val (gen_shl_4_257 a0 a1 a2 a3) = (val [a0; a1; a2; a3] * 2 ^ 257) mod Wn 4).
Proof. intros Ha. repeat split; (pose proof (gen_shl_4_eq a0 a1 a2 a3) as E; use_eqs E); shift_close Ha. Qed.
Lemma gen_shr_1_eq a0 :
  gen_shr_1_0 a0 = shr [a0] 0 /\
  gen_shr_1_1 a0 = shr [a0] 1 /\
  gen_shr_1_63 a0 = shr [a0] 63 /\
  gen_shr_1_64 a0 = shr [a0] 64 /\
  gen_shr_1_65 a0 = shr [a0] 65 /\
  gen_shr_1_127 a0 = shr [a0] 127 /\
  gen_shr_1_128 a0 = shr [a0] 128.
Proof. repeat split; reflexivity. Qed.
Lemma gen_shr_1_spec a0 :
  wf [a0] ->
  (wf (gen_shr_1_0 a0) /\ val (gen_shr_1_0 a0) = val [a0] / 2 ^ 0) /\
  (wf (gen_shr_1_1 a0) /\ val (gen_shr_1_1 a0) = val [a0] / 2 ^ 1) /\
  (wf (gen_shr_1_63 a0) /\ val (gen_shr_1_63 a0) = val [a0] / 2 ^ 63) /\
  (wf (gen_shr_1_64 a0) /\ val (gen_shr_1_64 a0) = val [a0] / 2 ^ 64) /\
  (wf (gen_shr_1_65 a0) /\ val (gen_shr_1_65 a0) = val [a0] / 2 ^ 65) /\
  (wf (gen_shr_1_127 a0) /\ val (gen_shr_1_127 a0) = val [a0] / 2 ^ 127) /\
  (wf (gen_shr_1_128 a0) /\ val (gen_shr_1_128 a0) = val [a0] / 2 ^ 128).
Proof. intros Ha. repeat split; (pose proof (gen_shr_1_eq a0) as E; use_eqs E); shift_close Ha. Qed.
Lemma gen_shr_2_eq a0 a1 :
  gen_shr_2_0 a0 a1 = shr [a0; a1] 0 /\
  gen_shr_2_1 a0 a1 = shr [a0; a1] 1 /\
  gen_shr_2_63 a0 a1 = shr [a0; a1] 63 /\
  gen_shr_2_64 a0 a1 = shr [a0; a1] 64 /\
  gen_shr_2_65 a0 a1 = shr [a0; a1] 65 /\
  gen_shr_2_127 a0 a1 = shr [a0; a1] 127 /\
  gen_shr_2_128 a0 a1 = shr [a0; a1] 128 /\
  gen_shr_2_129 a0 a1 = shr [a0; a1] 129.
Proof. repeat split; reflexivity. Qed.
Lemma gen_shr_2_spec a0 a1 :
  wf [a0; a1] ->
  (wf (gen_shr_2_0 a0 a1) /\ val (gen_shr_2_0 a0 a1) = val [a0; a1] / 2 ^ 0) /\
  (wf (gen_shr_2_1 a0 a1) /\ val (gen_shr_2_1 a0 a1) = val [a0; a1] / 2 ^ 1) /\
  (wf (gen_shr_2_63 a0 a1) /\ val (gen_shr_2_63 a0 a1) = val [a0; a1] / 2 ^ 63) /\
  (wf (gen_shr_2_64 a0 a1) /\ val (gen_shr_2_64 a0 a1) = val [a0; a1] / 2 ^ 64) /\
  (wf (gen_shr_2_65 a0 a1) /\ val (gen_shr_2_65 a0 a1) = val [a0; a1] / 2 ^ 65) /\
  (wf (gen_shr_2_127 a0 a1) /\ val (gen_shr_2_127 a0 a1) = val [a0; a1] / 2 ^ 127) /\
  (wf (gen_shr_2_128 a0 a1) /\ val (gen_shr_2_128 a0 a1) = val [a0; a1] / 2 ^ 128) /\
  (wf (gen_shr_2_129 a0 a1) /\ val (gen_shr_2_129 a0 a1) = val [a0; a1] / 2 ^ 129).
Proof. intros Ha. repeat split; (pose proof (gen_shr_2_eq a0 a1) as E; use_eqs E); shift_close Ha. Qed.
Lemma gen_shr_3_eq a0 a1 a2 :
  gen_shr_3_0 a0 a1 a2 = shr [a0; a1; a2] 0 /\
  gen_shr_3_1 a0 a1 a2 = shr [a0; a1; a2] 1 /\
  gen_shr_3_63 a0 a1 a2 = shr [a0; a1; a2] 63 /\
  gen_shr_3_64 a0 a1 a2 = shr [a0; a1; a2] 64 /\
  gen_shr_3_65 a0 a1 a2 = shr [a0; a1; a2] 65 /\
  gen_shr_3_127 a0 a1 a2 = shr [a0; a1; a2] 127 /\
  gen_shr_3_128 a0 a1 a2 = shr [a0; a1; a2] 128 /\
  gen_shr_3_191 a0 a1 a2 = shr [a0; a1; a2] 191 /\
  gen_shr_3_192 a0 a1 a2 = shr [a0; a1; a2] 192 /\
  gen_shr_3_193 a0 a1 a2 = shr [a0; a1; a2] 193.
Proof. repeat split; reflexivity. Qed.
Lemma gen_shr_3_spec a0 a1 a2 :
  wf [a0; a1; a2] ->
  (wf (gen_shr_3_0 a0 a1 a2) /\ val (gen_shr_3_0 a0 a1 a2) = val [a0; a1; a2] / 2 ^ 0) /\
  (wf (gen_shr_3_1 a0 a1 a2) /\ val (gen_shr_3_1 a0 a1 a2) = val [a0; a1; a2] / 2 ^ 1) /\
  (wf (gen_shr_3_63 a0 a1 a2) /\ val (gen_shr_3_63 a0 a1 a2) = val [a0; a1; a2] / 2 ^ 63) /\
  (wf (gen_shr_3_64 a0 a1 a2) /\ val (gen_shr_3_64 a0 a1 a2) = val [a0; a1; a2] / 2 ^ 64) /\
  (wf (gen_shr_3_65 a0 a1 a2) /\ val (gen_shr_3_65 a0 a1 a2) = val [a0; a1; a2] / 2 ^ 65) /\
  (wf (gen_shr_3_127 a0 a1 a2) /\ val (gen_shr_3_127 a0 a1 a2) = val [a0; a1; a2] / 2 ^ 127) /\
  (wf (gen_shr_3_128 a0 a1 a2) /\ val (gen_shr_3_128 a0 a1 a2) = val [a0; a1; a2] / 2 ^ 128) /\
  (wf (gen_shr_3_191 a0 a1 a2) /\ val (gen_shr_3_191 a0 a1 a2) = val [a0; a1; a2] / 2 ^ 191) /\
  (wf (gen_shr_3_192 a0 a1 a2) /\ val (gen_shr_3_192 a0 a1 a2) = val [a0; a1; a2] / 2 ^ 192) /\
  (wf (gen_shr_3_193 a0 a1 a2) /\ val (gen_shr_3_193 a0 a1 a2) = val [a0; a1; a2] / 2 ^ 193).
Proof. intros Ha. repeat split; (pose proof (gen_shr_3_eq a0 a1 a2) as E; use_eqs E); shift_close Ha. Qed.
Lemma gen_shr_4_eq a0 a1 a2 a3 :
  gen_shr_4_0 a0 a1 a2 a3 = shr [a0; a1; a2; a3] 0 /\
  gen_shr_4_1 a0 a1 a2 a3 = shr [a0; a1; a2; a3] 1 /\
  gen_shr_4_63 a0 a1 a2 a3 = shr [a0; a1; a2; a3] 63 /\
  gen_shr_4_64 a0 a1 a2 a3 = shr [a0; a1; a2; a3] 64 /\
  gen_shr_4_65 a0 a1 a2 a3 = shr [a0; a1; a2; a3] 65 /\
  gen_shr_4_127 a0 a1 a2 a3 = shr [a0; a1; a2; a3] 127 /\
  gen_shr_4_128 a0 a1 a2 a3 = shr [a0; a1; a2; a3] 128 /\
  gen_shr_4_255 a0 a1 a2 a3 = shr [a0; a1; a2; a3] 255 /\
  gen_shr_4_256 a0 a1 a2 a3 = shr [a0; a1; a2; a3] 256 /\
  gen_shr_4_257 a0 a1 a2 a3 = shr [a0; a1; a2; a3] 257.
Proof. repeat split; reflexivity. Qed.
Lemma gen_shr_4_spec a0 a1 a2 a3 :
  wf [a0; a1; a2; a3] ->
  (wf (gen_shr_4_0 a0 a1 a2 a3) /\ val (gen_shr_4_0 a0 a1 a2 a3) = val [a0; a1; a2; a3] / 2 ^ 0) /\
  (wf (gen_shr_4_1 a0 a1 a2 a3) /\ val (gen_shr_4_1 a0 a1 a2 a3) = val [a0; a1; a2; a3] / 2 ^ 1) /\
  (wf (gen_shr_4_63 a0 a1 a2 a3) /\ val (gen_shr_4_63 a0 a1 a2 a3) = val [a0; a1; a2; a3] / 2 ^ 63) /\
  (wf (gen_shr_4_64 a0 a1 a2 a3) /\ val (gen_shr_4_64 a0 a1 a2 a3) = val [a0; a1; a2; a3] / 2 ^ 64) /\
  (wf (gen_shr_4_65 a0 a1 a2 a3) /\ val (gen_shr_4_65 a0 a1 a2 a3) = val [a0; a1; a2; a3] / 2 ^ 65) /\
  (wf (gen_shr_4_127 a0 a1 a2 a3) /\ val (gen_shr_4_127 a0 a1 a2 a3) = val [a0; a1; a2; a3] / 2 ^ 127) /\
  (wf (gen_shr_4_128 a0 a1 a2 a3) /\ val (gen_shr_4_128 a0 a1 a2 a3) = val [a0; a1; a2; a3] / 2 ^ 128) /\
  (wf (gen_shr_4_255 a0 a1 a2 a3) /\ val (gen_shr_4_255 a0 a1 a2 a3) = val [a0; a1; a2; a3] / 2 ^ 255) /\
  (wf (gen_shr_4_256 a0 a1 a2 a3) /\ val (gen_shr_4_256 a0 a1 a2 a3) = val [a0; a1; a2; a3] / 2 ^ 256) /\
  (wf (gen_shr_4_257 a0 a1 a2 a3) /\ val (gen_shr_4_257 a0 a1 a2 a3) = val [a0; a1; a2; a3] / 2 ^ 257).
Proof. intros Ha. repeat split; (pose proof (gen_shr_4_eq a0 a1 a2 a3) as E; use_eqs E); shift_close Ha. Qed.
