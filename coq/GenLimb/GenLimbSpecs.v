(* GenLimb -- lemmas about the definitions that lib/xlate_limb.py re-generates from the current /repo
   source on every check run (coq/GenLimb/GenLimb.v; one definition per (function, limb count N)).

   Part 1 (`gen_f_N_eq`): for ALL limb values, the generated definition equals the hand-written model
   (C15.BigIntModel / C01.MontModel) applied to the literal-length limb lists.  The proof unfolds the
   model's structural recursion on the literal lists and then walks the decision tree of the generated
   term in program order: the head scrutinee (a leaf call `adc ..`/`mac ..`, a comparison, a flag) is
   destructed on both sides at once; leaf functions stay folded; no `vm_compute`, no `simpl`.
   Part 2: the two places where the code's shape differs from the model's (the wrapping `carry1 + carry2`
   of the no-carry CIOS row; configuration flags as parameters) are bridged by all-N lemmas.
   Part 3 (`gen_f_N_spec`): composition with the all-N theorems of C15 / C01: statements about the
   TRANSLATED code for each validated N. *)
From V Require Import Base.Word C15.GenArith C15.LeafSpecs C15.BigIntModel C15.BigIntProofs C15.ShiftProofs
  C15.MulProofs C01.InvModel C01.MontModel C01.MontProofs C01.SquareProofs GenLimb.GenLimb.

(* ================= tactics ================= *)

(* the macro and the function version of a leaf are the same Gallina term (T-leaf emits identical bodies) *)
Lemma sbb_m_eq a b c : sbb_m a b c = sbb_for_sub_with_borrow a b c.
Proof. reflexivity. Qed.
Lemma sbb_fn_eq a b c : sbb a b c = sbb_for_sub_with_borrow a b c.
Proof. reflexivity. Qed.
Lemma adc_m_eq a b c : adc_m a b c = adc a b c.
Proof. reflexivity. Qed.
Lemma mac_m_eq a b c d : mac_m a b c d = mac a b c d.
Proof. reflexivity. Qed.
Lemma mac_with_carry_m_eq a b c d : mac_with_carry_m a b c d = mac_with_carry a b c d.
Proof. reflexivity. Qed.

Ltac head_scrut t :=
  lazymatch t with
  | match ?x with _ => _ end => head_scrut x
  | _ => t
  end.

(* rewrite the macro variant of the leaf call [s] (a closed term) into the function variant, everywhere *)
Ltac norm_leaf s :=
  lazymatch s with
  | sbb_m ?a ?b ?c => rewrite (sbb_m_eq a b c)
  | sbb ?a ?b ?c => rewrite (sbb_fn_eq a b c)
  | sbb_for_sub_with_borrow ?a ?b ?c => rewrite ?(sbb_m_eq a b c), ?(sbb_fn_eq a b c)
  | adc_m ?a ?b ?c => rewrite (adc_m_eq a b c)
  | adc ?a ?b ?c => rewrite ?(adc_m_eq a b c)
  | mac_m ?a ?b ?c ?d => rewrite (mac_m_eq a b c d)
  | mac ?a ?b ?c ?d => rewrite ?(mac_m_eq a b c d)
  | mac_with_carry_m ?a ?b ?c ?d => rewrite (mac_with_carry_m_eq a b c d)
  | mac_with_carry ?a ?b ?c ?d => rewrite ?(mac_with_carry_m_eq a b c d)
  | _ => idtac
  end.

(* calls of generated definitions that have their own lemma (gen_cmp_N, gen_is_zero_N): re-defined
   below, after those lemmas *)
Ltac head_const t := lazymatch t with ?f _ => head_const f | _ => t end.
Ltac norm_gen s := idtac.

Ltac on_head tac_found tac_none :=
  lazymatch goal with
  | |- ?l = ?r =>
      let s := head_scrut l in
      tryif constr_eq s l then
        (let s' := head_scrut r in
         tryif constr_eq s' r then tac_none else tac_found s')
      else tac_found s
  end.

Ltac hstep :=
  on_head ltac:(fun s => norm_leaf s; norm_gen s) ltac:(reflexivity);
  on_head ltac:(fun s => destruct s) ltac:(idtac).

Ltac crush := repeat (cbv beta iota zeta; hstep).

Ltac cmp_known :=
  repeat match goal with
  | |- context [?x ?= ?x] => rewrite (Z.compare_refl x)
  | H : ?x < ?y |- context [?x ?= ?y] => rewrite (proj2 (Z.compare_lt_iff x y) H)
  | H : ?x < ?y |- context [?y ?= ?x] => rewrite (proj2 (Z.compare_gt_iff y x) H)
  end.

Ltac geq_step :=
  cbv beta iota zeta;
  lazymatch goal with
  | |- ?l = ?r =>
      first [ reflexivity
            | let s := head_scrut l in
              lazymatch s with
              | ?x ?= ?y => destruct (Z.compare_spec x y); [subst x | | ]; cmp_known
              end ]
  end.
Ltac geq_crush := cbv [Z.ltb]; repeat geq_step.

Lemma gen_add_with_carry_1_eq a0 b0 :
  gen_add_with_carry_1 a0 b0 = add_with_carry [a0] [b0].
Proof. cbv [gen_add_with_carry_1 add_with_carry add_chain negb]. crush. Qed.
Lemma gen_sub_with_borrow_1_eq a0 b0 :
  gen_sub_with_borrow_1 a0 b0 = sub_with_borrow [a0] [b0].
Proof. cbv [gen_sub_with_borrow_1 sub_with_borrow sub_chain negb]. crush. Qed.
Lemma gen_mul2_1_eq a0 :
  gen_mul2_1 a0 = mul2 [a0].
Proof. cbv [gen_mul2_1 mul2 mul2_chain negb]. crush. Qed.
Lemma gen_div2_1_eq a0 :
  gen_div2_1 a0 = div2 [a0].
Proof. cbv [gen_div2_1 div2 div2_chain fst]. crush. Qed.
Lemma gen_is_zero_1_eq a0 :
  gen_is_zero_1 a0 = is_zero [a0].
Proof. cbv [gen_is_zero_1 is_zero forallb andb]. crush. Qed.
Lemma gen_is_odd_1_eq a0 :
  gen_is_odd_1 a0 = is_odd [a0].
Proof. reflexivity. Qed.
Lemma gen_is_even_1_eq a0 :
  gen_is_even_1 a0 = is_even [a0].
Proof. reflexivity. Qed.
Lemma gen_cmp_1_eq a0 b0 :
  gen_cmp_1 a0 b0 = cmp [a0] [b0].
Proof. cbv [gen_cmp_1 cmp]. crush. Qed.
Lemma gen_const_mul2_with_carry_1_eq a0 :
  gen_const_mul2_with_carry_1 a0 = mul2 [a0].
Proof. cbv [gen_const_mul2_with_carry_1 mul2 mul2_chain negb]. crush. Qed.
Lemma gen_const_shr_1_eq a0 :
  gen_const_shr_1 a0 = const_shr [a0].
Proof. cbv [gen_const_shr_1 const_shr div2 div2_chain fst]. crush. Qed.
Lemma gen_const_is_zero_1_eq a0 :
  gen_const_is_zero_1 a0 = is_zero [a0].
Proof. cbv [gen_const_is_zero_1 is_zero forallb andb]. crush. Qed.
Lemma gen_const_sub_with_borrow_1_eq a0 b0 :
  gen_const_sub_with_borrow_1 a0 b0 = sub_with_borrow [a0] [b0].
Proof. cbv [gen_const_sub_with_borrow_1 sub_with_borrow sub_chain negb]. crush. Qed.
Lemma gen_const_geq_1_eq a0 b0 :
  gen_const_geq_1 a0 b0 = const_geq [a0] [b0].
Proof. cbv [gen_const_geq_1 const_geq cmp]. geq_crush. Qed.
Lemma gen_add_with_carry_2_eq a0 a1 b0 b1 :
  gen_add_with_carry_2 a0 a1 b0 b1 = add_with_carry [a0; a1] [b0; b1].
Proof. cbv [gen_add_with_carry_2 add_with_carry add_chain negb]. crush. Qed.
Lemma gen_sub_with_borrow_2_eq a0 a1 b0 b1 :
  gen_sub_with_borrow_2 a0 a1 b0 b1 = sub_with_borrow [a0; a1] [b0; b1].
Proof. cbv [gen_sub_with_borrow_2 sub_with_borrow sub_chain negb]. crush. Qed.
Lemma gen_mul2_2_eq a0 a1 :
  gen_mul2_2 a0 a1 = mul2 [a0; a1].
Proof. cbv [gen_mul2_2 mul2 mul2_chain negb]. crush. Qed.
Lemma gen_div2_2_eq a0 a1 :
  gen_div2_2 a0 a1 = div2 [a0; a1].
Proof. cbv [gen_div2_2 div2 div2_chain fst]. crush. Qed.
Lemma gen_is_zero_2_eq a0 a1 :
  gen_is_zero_2 a0 a1 = is_zero [a0; a1].
Proof. cbv [gen_is_zero_2 is_zero forallb andb]. crush. Qed.
Lemma gen_is_odd_2_eq a0 a1 :
  gen_is_odd_2 a0 a1 = is_odd [a0; a1].
Proof. reflexivity. Qed.
Lemma gen_is_even_2_eq a0 a1 :
  gen_is_even_2 a0 a1 = is_even [a0; a1].
Proof. reflexivity. Qed.
Lemma gen_cmp_2_eq a0 a1 b0 b1 :
  gen_cmp_2 a0 a1 b0 b1 = cmp [a0; a1] [b0; b1].
Proof. cbv [gen_cmp_2 cmp]. crush. Qed.
Lemma gen_const_mul2_with_carry_2_eq a0 a1 :
  gen_const_mul2_with_carry_2 a0 a1 = mul2 [a0; a1].
Proof. cbv [gen_const_mul2_with_carry_2 mul2 mul2_chain negb]. crush. Qed.
Lemma gen_const_shr_2_eq a0 a1 :
  gen_const_shr_2 a0 a1 = const_shr [a0; a1].
Proof. cbv [gen_const_shr_2 const_shr div2 div2_chain fst]. crush. Qed.
Lemma gen_const_is_zero_2_eq a0 a1 :
  gen_const_is_zero_2 a0 a1 = is_zero [a0; a1].
Proof. cbv [gen_const_is_zero_2 is_zero forallb andb]. crush. Qed.
Lemma gen_const_sub_with_borrow_2_eq a0 a1 b0 b1 :
  gen_const_sub_with_borrow_2 a0 a1 b0 b1 = sub_with_borrow [a0; a1] [b0; b1].
Proof. cbv [gen_const_sub_with_borrow_2 sub_with_borrow sub_chain negb]. crush. Qed.
Lemma gen_const_geq_2_eq a0 a1 b0 b1 :
  gen_const_geq_2 a0 a1 b0 b1 = const_geq [a0; a1] [b0; b1].
Proof. cbv [gen_const_geq_2 const_geq cmp]. geq_crush. Qed.
Lemma gen_add_with_carry_3_eq a0 a1 a2 b0 b1 b2 :
  gen_add_with_carry_3 a0 a1 a2 b0 b1 b2 = add_with_carry [a0; a1; a2] [b0; b1; b2].
Proof. cbv [gen_add_with_carry_3 add_with_carry add_chain negb]. crush. Qed.
Lemma gen_sub_with_borrow_3_eq a0 a1 a2 b0 b1 b2 :
  gen_sub_with_borrow_3 a0 a1 a2 b0 b1 b2 = sub_with_borrow [a0; a1; a2] [b0; b1; b2].
Proof. cbv [gen_sub_with_borrow_3 sub_with_borrow sub_chain negb]. crush. Qed.
Lemma gen_mul2_3_eq a0 a1 a2 :
  gen_mul2_3 a0 a1 a2 = mul2 [a0; a1; a2].
Proof. cbv [gen_mul2_3 mul2 mul2_chain negb]. crush. Qed.
Lemma gen_div2_3_eq a0 a1 a2 :
  gen_div2_3 a0 a1 a2 = div2 [a0; a1; a2].
Proof. cbv [gen_div2_3 div2 div2_chain fst]. crush. Qed.
Lemma gen_is_zero_3_eq a0 a1 a2 :
  gen_is_zero_3 a0 a1 a2 = is_zero [a0; a1; a2].
Proof. cbv [gen_is_zero_3 is_zero forallb andb]. crush. Qed.
Lemma gen_is_odd_3_eq a0 a1 a2 :
  gen_is_odd_3 a0 a1 a2 = is_odd [a0; a1; a2].
Proof. reflexivity. Qed.
Lemma gen_is_even_3_eq a0 a1 a2 :
  gen_is_even_3 a0 a1 a2 = is_even [a0; a1; a2].
Proof. reflexivity. Qed.
Lemma gen_cmp_3_eq a0 a1 a2 b0 b1 b2 :
  gen_cmp_3 a0 a1 a2 b0 b1 b2 = cmp [a0; a1; a2] [b0; b1; b2].
Proof. cbv [gen_cmp_3 cmp]. crush. Qed.
Lemma gen_const_mul2_with_carry_3_eq a0 a1 a2 :
  gen_const_mul2_with_carry_3 a0 a1 a2 = mul2 [a0; a1; a2].
Proof. cbv [gen_const_mul2_with_carry_3 mul2 mul2_chain negb]. crush. Qed.
Lemma gen_const_shr_3_eq a0 a1 a2 :
  gen_const_shr_3 a0 a1 a2 = const_shr [a0; a1; a2].
Proof. cbv [gen_const_shr_3 const_shr div2 div2_chain fst]. crush. Qed.
Lemma gen_const_is_zero_3_eq a0 a1 a2 :
  gen_const_is_zero_3 a0 a1 a2 = is_zero [a0; a1; a2].
Proof. cbv [gen_const_is_zero_3 is_zero forallb andb]. crush. Qed.
Lemma gen_const_sub_with_borrow_3_eq a0 a1 a2 b0 b1 b2 :
  gen_const_sub_with_borrow_3 a0 a1 a2 b0 b1 b2 = sub_with_borrow [a0; a1; a2] [b0; b1; b2].
Proof. cbv [gen_const_sub_with_borrow_3 sub_with_borrow sub_chain negb]. crush. Qed.
Lemma gen_const_geq_3_eq a0 a1 a2 b0 b1 b2 :
  gen_const_geq_3 a0 a1 a2 b0 b1 b2 = const_geq [a0; a1; a2] [b0; b1; b2].
Proof. cbv [gen_const_geq_3 const_geq cmp]. geq_crush. Qed.
Lemma gen_add_with_carry_4_eq a0 a1 a2 a3 b0 b1 b2 b3 :
  gen_add_with_carry_4 a0 a1 a2 a3 b0 b1 b2 b3 = add_with_carry [a0; a1; a2; a3] [b0; b1; b2; b3].
Proof. cbv [gen_add_with_carry_4 add_with_carry add_chain negb]. crush. Qed.
Lemma gen_sub_with_borrow_4_eq a0 a1 a2 a3 b0 b1 b2 b3 :
  gen_sub_with_borrow_4 a0 a1 a2 a3 b0 b1 b2 b3 = sub_with_borrow [a0; a1; a2; a3] [b0; b1; b2; b3].
Proof. cbv [gen_sub_with_borrow_4 sub_with_borrow sub_chain negb]. crush. Qed.
Lemma gen_mul2_4_eq a0 a1 a2 a3 :
  gen_mul2_4 a0 a1 a2 a3 = mul2 [a0; a1; a2; a3].
Proof. cbv [gen_mul2_4 mul2 mul2_chain negb]. crush. Qed.
Lemma gen_div2_4_eq a0 a1 a2 a3 :
  gen_div2_4 a0 a1 a2 a3 = div2 [a0; a1; a2; a3].
Proof. cbv [gen_div2_4 div2 div2_chain fst]. crush. Qed.
Lemma gen_is_zero_4_eq a0 a1 a2 a3 :
  gen_is_zero_4 a0 a1 a2 a3 = is_zero [a0; a1; a2; a3].
Proof. cbv [gen_is_zero_4 is_zero forallb andb]. crush. Qed.
Lemma gen_is_odd_4_eq a0 a1 a2 a3 :
  gen_is_odd_4 a0 a1 a2 a3 = is_odd [a0; a1; a2; a3].
Proof. reflexivity. Qed.
Lemma gen_is_even_4_eq a0 a1 a2 a3 :
  gen_is_even_4 a0 a1 a2 a3 = is_even [a0; a1; a2; a3].
Proof. reflexivity. Qed.
Lemma gen_cmp_4_eq a0 a1 a2 a3 b0 b1 b2 b3 :
  gen_cmp_4 a0 a1 a2 a3 b0 b1 b2 b3 = cmp [a0; a1; a2; a3] [b0; b1; b2; b3].
Proof. cbv [gen_cmp_4 cmp]. crush. Qed.
Lemma gen_const_mul2_with_carry_4_eq a0 a1 a2 a3 :
  gen_const_mul2_with_carry_4 a0 a1 a2 a3 = mul2 [a0; a1; a2; a3].
Proof. cbv [gen_const_mul2_with_carry_4 mul2 mul2_chain negb]. crush. Qed.
Lemma gen_const_shr_4_eq a0 a1 a2 a3 :
  gen_const_shr_4 a0 a1 a2 a3 = const_shr [a0; a1; a2; a3].
Proof. cbv [gen_const_shr_4 const_shr div2 div2_chain fst]. crush. Qed.
Lemma gen_const_is_zero_4_eq a0 a1 a2 a3 :
  gen_const_is_zero_4 a0 a1 a2 a3 = is_zero [a0; a1; a2; a3].
Proof. cbv [gen_const_is_zero_4 is_zero forallb andb]. crush. Qed.
Lemma gen_const_sub_with_borrow_4_eq a0 a1 a2 a3 b0 b1 b2 b3 :
  gen_const_sub_with_borrow_4 a0 a1 a2 a3 b0 b1 b2 b3 = sub_with_borrow [a0; a1; a2; a3] [b0; b1; b2; b3].
Proof. cbv [gen_const_sub_with_borrow_4 sub_with_borrow sub_chain negb]. crush. Qed.
Lemma gen_const_geq_4_eq a0 a1 a2 a3 b0 b1 b2 b3 :
  gen_const_geq_4 a0 a1 a2 a3 b0 b1 b2 b3 = const_geq [a0; a1; a2; a3] [b0; b1; b2; b3].
Proof. cbv [gen_const_geq_4 const_geq cmp]. geq_crush. Qed.
Lemma gen_add_with_carry_6_eq a0 a1 a2 a3 a4 a5 b0 b1 b2 b3 b4 b5 :
  gen_add_with_carry_6 a0 a1 a2 a3 a4 a5 b0 b1 b2 b3 b4 b5 = add_with_carry [a0; a1; a2; a3; a4; a5] [b0; b1; b2; b3; b4; b5].
Proof. cbv [gen_add_with_carry_6 add_with_carry add_chain negb]. crush. Qed.
Lemma gen_sub_with_borrow_6_eq a0 a1 a2 a3 a4 a5 b0 b1 b2 b3 b4 b5 :
  gen_sub_with_borrow_6 a0 a1 a2 a3 a4 a5 b0 b1 b2 b3 b4 b5 = sub_with_borrow [a0; a1; a2; a3; a4; a5] [b0; b1; b2; b3; b4; b5].
Proof. cbv [gen_sub_with_borrow_6 sub_with_borrow sub_chain negb]. crush. Qed.
Lemma gen_mul2_6_eq a0 a1 a2 a3 a4 a5 :
  gen_mul2_6 a0 a1 a2 a3 a4 a5 = mul2 [a0; a1; a2; a3; a4; a5].
Proof. cbv [gen_mul2_6 mul2 mul2_chain negb]. crush. Qed.
Lemma gen_div2_6_eq a0 a1 a2 a3 a4 a5 :
  gen_div2_6 a0 a1 a2 a3 a4 a5 = div2 [a0; a1; a2; a3; a4; a5].
Proof. cbv [gen_div2_6 div2 div2_chain fst]. crush. Qed.
Lemma gen_is_zero_6_eq a0 a1 a2 a3 a4 a5 :
  gen_is_zero_6 a0 a1 a2 a3 a4 a5 = is_zero [a0; a1; a2; a3; a4; a5].
Proof. cbv [gen_is_zero_6 is_zero forallb andb]. crush. Qed.
Lemma gen_is_odd_6_eq a0 a1 a2 a3 a4 a5 :
  gen_is_odd_6 a0 a1 a2 a3 a4 a5 = is_odd [a0; a1; a2; a3; a4; a5].
Proof. reflexivity. Qed.
Lemma gen_is_even_6_eq a0 a1 a2 a3 a4 a5 :
  gen_is_even_6 a0 a1 a2 a3 a4 a5 = is_even [a0; a1; a2; a3; a4; a5].
Proof. reflexivity. Qed.
Lemma gen_cmp_6_eq a0 a1 a2 a3 a4 a5 b0 b1 b2 b3 b4 b5 :
  gen_cmp_6 a0 a1 a2 a3 a4 a5 b0 b1 b2 b3 b4 b5 = cmp [a0; a1; a2; a3; a4; a5] [b0; b1; b2; b3; b4; b5].
Proof. cbv [gen_cmp_6 cmp]. crush. Qed.
Lemma gen_const_mul2_with_carry_6_eq a0 a1 a2 a3 a4 a5 :
  gen_const_mul2_with_carry_6 a0 a1 a2 a3 a4 a5 = mul2 [a0; a1; a2; a3; a4; a5].
Proof. cbv [gen_const_mul2_with_carry_6 mul2 mul2_chain negb]. crush. Qed.
Lemma gen_const_shr_6_eq a0 a1 a2 a3 a4 a5 :
  gen_const_shr_6 a0 a1 a2 a3 a4 a5 = const_shr [a0; a1; a2; a3; a4; a5].
Proof. cbv [gen_const_shr_6 const_shr div2 div2_chain fst]. crush. Qed.
Lemma gen_const_is_zero_6_eq a0 a1 a2 a3 a4 a5 :
  gen_const_is_zero_6 a0 a1 a2 a3 a4 a5 = is_zero [a0; a1; a2; a3; a4; a5].
Proof. cbv [gen_const_is_zero_6 is_zero forallb andb]. crush. Qed.
Lemma gen_const_sub_with_borrow_6_eq a0 a1 a2 a3 a4 a5 b0 b1 b2 b3 b4 b5 :
  gen_const_sub_with_borrow_6 a0 a1 a2 a3 a4 a5 b0 b1 b2 b3 b4 b5 = sub_with_borrow [a0; a1; a2; a3; a4; a5] [b0; b1; b2; b3; b4; b5].
Proof. cbv [gen_const_sub_with_borrow_6 sub_with_borrow sub_chain negb]. crush. Qed.
Lemma gen_const_geq_6_eq a0 a1 a2 a3 a4 a5 b0 b1 b2 b3 b4 b5 :
  gen_const_geq_6 a0 a1 a2 a3 a4 a5 b0 b1 b2 b3 b4 b5 = const_geq [a0; a1; a2; a3; a4; a5] [b0; b1; b2; b3; b4; b5].
Proof. cbv [gen_const_geq_6 const_geq cmp]. geq_crush. Qed.
Lemma gen_add_with_carry_12_eq a0 a1 a2 a3 a4 a5 a6 a7 a8 a9 a10 a11 b0 b1 b2 b3 b4 b5 b6 b7 b8 b9 b10 b11 :
  gen_add_with_carry_12 a0 a1 a2 a3 a4 a5 a6 a7 a8 a9 a10 a11 b0 b1 b2 b3 b4 b5 b6 b7 b8 b9 b10 b11 = add_with_carry [a0; a1; a2; a3; a4; a5; a6; a7; a8; a9; a10; a11] [b0; b1; b2; b3; b4; b5; b6; b7; b8; b9; b10; b11].
Proof. cbv [gen_add_with_carry_12 add_with_carry add_chain negb]. crush. Qed.
Lemma gen_sub_with_borrow_12_eq a0 a1 a2 a3 a4 a5 a6 a7 a8 a9 a10 a11 b0 b1 b2 b3 b4 b5 b6 b7 b8 b9 b10 b11 :
  gen_sub_with_borrow_12 a0 a1 a2 a3 a4 a5 a6 a7 a8 a9 a10 a11 b0 b1 b2 b3 b4 b5 b6 b7 b8 b9 b10 b11 = sub_with_borrow [a0; a1; a2; a3; a4; a5; a6; a7; a8; a9; a10; a11] [b0; b1; b2; b3; b4; b5; b6; b7; b8; b9; b10; b11].
Proof. cbv [gen_sub_with_borrow_12 sub_with_borrow sub_chain negb]. crush. Qed.
Lemma gen_mul2_12_eq a0 a1 a2 a3 a4 a5 a6 a7 a8 a9 a10 a11 :
  gen_mul2_12 a0 a1 a2 a3 a4 a5 a6 a7 a8 a9 a10 a11 = mul2 [a0; a1; a2; a3; a4; a5; a6; a7; a8; a9; a10; a11].
Proof. cbv [gen_mul2_12 mul2 mul2_chain negb]. crush. Qed.
Lemma gen_div2_12_eq a0 a1 a2 a3 a4 a5 a6 a7 a8 a9 a10 a11 :
  gen_div2_12 a0 a1 a2 a3 a4 a5 a6 a7 a8 a9 a10 a11 = div2 [a0; a1; a2; a3; a4; a5; a6; a7; a8; a9; a10; a11].
Proof. cbv [gen_div2_12 div2 div2_chain fst]. crush. Qed.
Lemma gen_is_zero_12_eq a0 a1 a2 a3 a4 a5 a6 a7 a8 a9 a10 a11 :
  gen_is_zero_12 a0 a1 a2 a3 a4 a5 a6 a7 a8 a9 a10 a11 = is_zero [a0; a1; a2; a3; a4; a5; a6; a7; a8; a9; a10; a11].
Proof. cbv [gen_is_zero_12 is_zero forallb andb]. crush. Qed.
Lemma gen_is_odd_12_eq a0 a1 a2 a3 a4 a5 a6 a7 a8 a9 a10 a11 :
  gen_is_odd_12 a0 a1 a2 a3 a4 a5 a6 a7 a8 a9 a10 a11 = is_odd [a0; a1; a2; a3; a4; a5; a6; a7; a8; a9; a10; a11].
Proof. reflexivity. Qed.
Lemma gen_is_even_12_eq a0 a1 a2 a3 a4 a5 a6 a7 a8 a9 a10 a11 :
  gen_is_even_12 a0 a1 a2 a3 a4 a5 a6 a7 a8 a9 a10 a11 = is_even [a0; a1; a2; a3; a4; a5; a6; a7; a8; a9; a10; a11].
Proof. reflexivity. Qed.
Lemma gen_cmp_12_eq a0 a1 a2 a3 a4 a5 a6 a7 a8 a9 a10 a11 b0 b1 b2 b3 b4 b5 b6 b7 b8 b9 b10 b11 :
  gen_cmp_12 a0 a1 a2 a3 a4 a5 a6 a7 a8 a9 a10 a11 b0 b1 b2 b3 b4 b5 b6 b7 b8 b9 b10 b11 = cmp [a0; a1; a2; a3; a4; a5; a6; a7; a8; a9; a10; a11] [b0; b1; b2; b3; b4; b5; b6; b7; b8; b9; b10; b11].
Proof. cbv [gen_cmp_12 cmp]. crush. Qed.
Lemma gen_const_mul2_with_carry_12_eq a0 a1 a2 a3 a4 a5 a6 a7 a8 a9 a10 a11 :
  gen_const_mul2_with_carry_12 a0 a1 a2 a3 a4 a5 a6 a7 a8 a9 a10 a11 = mul2 [a0; a1; a2; a3; a4; a5; a6; a7; a8; a9; a10; a11].
Proof. cbv [gen_const_mul2_with_carry_12 mul2 mul2_chain negb]. crush. Qed.
Lemma gen_const_shr_12_eq a0 a1 a2 a3 a4 a5 a6 a7 a8 a9 a10 a11 :
  gen_const_shr_12 a0 a1 a2 a3 a4 a5 a6 a7 a8 a9 a10 a11 = const_shr [a0; a1; a2; a3; a4; a5; a6; a7; a8; a9; a10; a11].
Proof. cbv [gen_const_shr_12 const_shr div2 div2_chain fst]. crush. Qed.
Lemma gen_const_is_zero_12_eq a0 a1 a2 a3 a4 a5 a6 a7 a8 a9 a10 a11 :
  gen_const_is_zero_12 a0 a1 a2 a3 a4 a5 a6 a7 a8 a9 a10 a11 = is_zero [a0; a1; a2; a3; a4; a5; a6; a7; a8; a9; a10; a11].
Proof. cbv [gen_const_is_zero_12 is_zero forallb andb]. crush. Qed.
Lemma gen_const_sub_with_borrow_12_eq a0 a1 a2 a3 a4 a5 a6 a7 a8 a9 a10 a11 b0 b1 b2 b3 b4 b5 b6 b7 b8 b9 b10 b11 :
  gen_const_sub_with_borrow_12 a0 a1 a2 a3 a4 a5 a6 a7 a8 a9 a10 a11 b0 b1 b2 b3 b4 b5 b6 b7 b8 b9 b10 b11 = sub_with_borrow [a0; a1; a2; a3; a4; a5; a6; a7; a8; a9; a10; a11] [b0; b1; b2; b3; b4; b5; b6; b7; b8; b9; b10; b11].
Proof. cbv [gen_const_sub_with_borrow_12 sub_with_borrow sub_chain negb]. crush. Qed.
Lemma gen_const_geq_12_eq a0 a1 a2 a3 a4 a5 a6 a7 a8 a9 a10 a11 b0 b1 b2 b3 b4 b5 b6 b7 b8 b9 b10 b11 :
  gen_const_geq_12 a0 a1 a2 a3 a4 a5 a6 a7 a8 a9 a10 a11 b0 b1 b2 b3 b4 b5 b6 b7 b8 b9 b10 b11 = const_geq [a0; a1; a2; a3; a4; a5; a6; a7; a8; a9; a10; a11] [b0; b1; b2; b3; b4; b5; b6; b7; b8; b9; b10; b11].
Proof. cbv [gen_const_geq_12 const_geq cmp]. geq_crush. Qed.
Lemma gen_mul_1_eq a0 b0 :
  gen_mul_1 a0 b0 = mul [a0] [b0].
Proof. cbv [gen_mul_1]. rewrite !gen_is_zero_1_eq. cbv [mul mul_rows mac_row set_first skipn firstn length zeros repeat app Nat.add orb]. crush. Qed.
Lemma gen_mul_low_1_eq a0 b0 :
  gen_mul_low_1 a0 b0 = mul_low [a0] [b0].
Proof. cbv [gen_mul_low_1]. rewrite !gen_is_zero_1_eq. cbv [mul_low mul_low_rows mul_rows mac_row set_first skipn firstn length zeros repeat app Nat.add orb]. crush. Qed.
Lemma gen_mul_high_1_eq a0 b0 :
  gen_mul_high_1 a0 b0 = mul_high [a0] [b0].
Proof. cbv [gen_mul_high_1]. rewrite !gen_is_zero_1_eq. cbv [mul_high mul snd mul_rows mac_row set_first skipn firstn length zeros repeat app Nat.add orb]. crush. Qed.
Lemma gen_mul_2_eq a0 a1 b0 b1 :
  gen_mul_2 a0 a1 b0 b1 = mul [a0; a1] [b0; b1].
Proof. cbv [gen_mul_2]. rewrite !gen_is_zero_2_eq. cbv [mul mul_rows mac_row set_first skipn firstn length zeros repeat app Nat.add orb]. crush. Qed.
Lemma gen_mul_low_2_eq a0 a1 b0 b1 :
  gen_mul_low_2 a0 a1 b0 b1 = mul_low [a0; a1] [b0; b1].
Proof. cbv [gen_mul_low_2]. rewrite !gen_is_zero_2_eq. cbv [mul_low mul_low_rows mul_rows mac_row set_first skipn firstn length zeros repeat app Nat.add orb]. crush. Qed.
Lemma gen_mul_high_2_eq a0 a1 b0 b1 :
  gen_mul_high_2 a0 a1 b0 b1 = mul_high [a0; a1] [b0; b1].
Proof. cbv [gen_mul_high_2]. rewrite !gen_is_zero_2_eq. cbv [mul_high mul snd mul_rows mac_row set_first skipn firstn length zeros repeat app Nat.add orb]. crush. Qed.
Lemma gen_mul_3_eq a0 a1 a2 b0 b1 b2 :
  gen_mul_3 a0 a1 a2 b0 b1 b2 = mul [a0; a1; a2] [b0; b1; b2].
Proof. cbv [gen_mul_3]. rewrite !gen_is_zero_3_eq. cbv [mul mul_rows mac_row set_first skipn firstn length zeros repeat app Nat.add orb]. crush. Qed.
Lemma gen_mul_low_3_eq a0 a1 a2 b0 b1 b2 :
  gen_mul_low_3 a0 a1 a2 b0 b1 b2 = mul_low [a0; a1; a2] [b0; b1; b2].
Proof. cbv [gen_mul_low_3]. rewrite !gen_is_zero_3_eq. cbv [mul_low mul_low_rows mul_rows mac_row set_first skipn firstn length zeros repeat app Nat.add orb]. crush. Qed.
Lemma gen_mul_high_3_eq a0 a1 a2 b0 b1 b2 :
  gen_mul_high_3 a0 a1 a2 b0 b1 b2 = mul_high [a0; a1; a2] [b0; b1; b2].
Proof. cbv [gen_mul_high_3]. rewrite !gen_is_zero_3_eq. cbv [mul_high mul snd mul_rows mac_row set_first skipn firstn length zeros repeat app Nat.add orb]. crush. Qed.
Lemma gen_mul_4_eq a0 a1 a2 a3 b0 b1 b2 b3 :
  gen_mul_4 a0 a1 a2 a3 b0 b1 b2 b3 = mul [a0; a1; a2; a3] [b0; b1; b2; b3].
Proof. cbv [gen_mul_4]. rewrite !gen_is_zero_4_eq. cbv [mul mul_rows mac_row set_first skipn firstn length zeros repeat app Nat.add orb]. crush. Qed.
Lemma gen_mul_low_4_eq a0 a1 a2 a3 b0 b1 b2 b3 :
  gen_mul_low_4 a0 a1 a2 a3 b0 b1 b2 b3 = mul_low [a0; a1; a2; a3] [b0; b1; b2; b3].
Proof. cbv [gen_mul_low_4]. rewrite !gen_is_zero_4_eq. cbv [mul_low mul_low_rows mul_rows mac_row set_first skipn firstn length zeros repeat app Nat.add orb]. crush. Qed.
Lemma gen_mul_high_4_eq a0 a1 a2 a3 b0 b1 b2 b3 :
  gen_mul_high_4 a0 a1 a2 a3 b0 b1 b2 b3 = mul_high [a0; a1; a2; a3] [b0; b1; b2; b3].
Proof. cbv [gen_mul_high_4]. rewrite !gen_is_zero_4_eq. cbv [mul_high mul snd mul_rows mac_row set_first skipn firstn length zeros repeat app Nat.add orb]. crush. Qed.
Lemma gen_mul_6_eq a0 a1 a2 a3 a4 a5 b0 b1 b2 b3 b4 b5 :
  gen_mul_6 a0 a1 a2 a3 a4 a5 b0 b1 b2 b3 b4 b5 = mul [a0; a1; a2; a3; a4; a5] [b0; b1; b2; b3; b4; b5].
Proof. cbv [gen_mul_6]. rewrite !gen_is_zero_6_eq. cbv [mul mul_rows mac_row set_first skipn firstn length zeros repeat app Nat.add orb]. crush. Qed.
Lemma gen_mul_low_6_eq a0 a1 a2 a3 a4 a5 b0 b1 b2 b3 b4 b5 :
  gen_mul_low_6 a0 a1 a2 a3 a4 a5 b0 b1 b2 b3 b4 b5 = mul_low [a0; a1; a2; a3; a4; a5] [b0; b1; b2; b3; b4; b5].
Proof. cbv [gen_mul_low_6]. rewrite !gen_is_zero_6_eq. cbv [mul_low mul_low_rows mul_rows mac_row set_first skipn firstn length zeros repeat app Nat.add orb]. crush. Qed.
Lemma gen_mul_high_6_eq a0 a1 a2 a3 a4 a5 b0 b1 b2 b3 b4 b5 :
  gen_mul_high_6 a0 a1 a2 a3 a4 a5 b0 b1 b2 b3 b4 b5 = mul_high [a0; a1; a2; a3; a4; a5] [b0; b1; b2; b3; b4; b5].
Proof. cbv [gen_mul_high_6]. rewrite !gen_is_zero_6_eq. cbv [mul_high mul snd mul_rows mac_row set_first skipn firstn length zeros repeat app Nat.add orb]. crush. Qed.

(* ================= Montgomery backend ================= *)

Ltac norm_gen s ::=
  let h := head_const s in
  lazymatch h with
  | gen_cmp_1 => rewrite gen_cmp_1_eq
  | gen_is_zero_1 => rewrite gen_is_zero_1_eq
  | gen_cmp_2 => rewrite gen_cmp_2_eq
  | gen_is_zero_2 => rewrite gen_is_zero_2_eq
  | gen_cmp_3 => rewrite gen_cmp_3_eq
  | gen_is_zero_3 => rewrite gen_is_zero_3_eq
  | gen_cmp_4 => rewrite gen_cmp_4_eq
  | gen_is_zero_4 => rewrite gen_is_zero_4_eq
  | gen_cmp_6 => rewrite gen_cmp_6_eq
  | gen_is_zero_6 => rewrite gen_is_zero_6_eq
  | gen_cmp_12 => rewrite gen_cmp_12_eq
  | gen_is_zero_12 => rewrite gen_is_zero_12_eq
  | _ => idtac
  end.

(* the code computes the last limb of a no-carry CIOS row as the u64 sum `carry1 + carry2` (wrapping
   in release builds); the model writes the plain sum and MontProofs proves that it never overflows *)
Definition nc_row_w (m a : list Z) (inv : Z) (r : list Z) (bi : Z) : list Z :=
  match r, a, m with
  | r0 :: r', a0 :: a', m0 :: m' =>
      let '(v0, c1) := mac r0 a0 bi 0 in
      let k := (v0 * inv) mod W64 in
      let c2 := mac_discard v0 k m0 0 in
      let '(rs, c1f, c2f) := nc_inner r' a' m' bi k c1 c2 in
      rs ++ [(c1f + c2f) mod W64]
  | _, _, _ => []
  end.
Definition nc_rows_w (m a b : list Z) : list Z :=
  fold_left (nc_row_w m a (inv_of m)) b (zeros (length m)).
(* trait-default mul_assign with its two configuration flags as parameters *)
Definition mul_assign_w (can_nc spare : bool) (m a b : list Z) : list Z :=
  if can_nc then subtract_modulus m (nc_rows_w m a b)
  else let '(c, r) := mul_without_cond_subtract m a b in
       if spare then subtract_modulus m r else subtract_modulus_with_carry m r c.
(* the doubling pass of square_in_place: the code special-cases the two ends of the shift chain *)
Lemma lor_shl0 y : Z.lor ((Z.shiftl 0 1) mod W64) y = y.
Proof. reflexivity. Qed.
Ltac crush_sq := repeat (cbv beta iota zeta; rewrite ?Z.lor_0_r, ?lor_shl0; hstep).

Definition from_bigint_w (can_nc spare : bool) (m r2 r : list Z) : option (list Z) :=
  if is_zero r then Some r
  else if is_geq_modulus m r then None
  else Some (mul_assign_w can_nc spare m r r2).

Lemma gen_fp_is_geq_modulus_1_eq m0 a0 :
  gen_fp_is_geq_modulus_1 m0 a0 = is_geq_modulus [m0] [a0].
Proof. cbv [gen_fp_is_geq_modulus_1 is_geq_modulus]. crush. Qed.
Lemma gen_fp_subtract_modulus_1_eq m0 a0 :
  gen_fp_subtract_modulus_1 m0 a0 = subtract_modulus [m0] [a0].
Proof. cbv [gen_fp_subtract_modulus_1 subtract_modulus is_geq_modulus sub_with_borrow sub_chain add_with_carry add_chain fst snd negb orb andb]. crush. Qed.
Lemma gen_fp_subtract_modulus_with_carry_1_eq m0 a0 carry :
  gen_fp_subtract_modulus_with_carry_1 m0 a0 carry = subtract_modulus_with_carry [m0] [a0] carry.
Proof. cbv [gen_fp_subtract_modulus_with_carry_1 subtract_modulus_with_carry is_geq_modulus sub_with_borrow sub_chain add_with_carry add_chain fst snd negb orb andb]. crush. Qed.
Lemma gen_fp_const_is_valid_1_eq m0 a0 :
  gen_fp_const_is_valid_1 m0 a0 = negb (is_geq_modulus [m0] [a0]).
Proof. cbv [gen_fp_const_is_valid_1 is_geq_modulus cmp negb]. geq_crush. Qed.
Lemma gen_mont_add_assign_1_eq m0 a0 b0 :
  gen_mont_add_assign_1 (has_spare_bit [m0]) m0 a0 b0 = add_assign [m0] [a0] [b0].
Proof. cbv [gen_mont_add_assign_1 add_assign final_sub subtract_modulus subtract_modulus_with_carry is_geq_modulus sub_with_borrow sub_chain add_with_carry add_chain fst snd negb orb andb]. crush. Qed.
Lemma gen_mont_sub_assign_1_eq m0 a0 b0 :
  gen_mont_sub_assign_1 m0 a0 b0 = sub_assign [m0] [a0] [b0].
Proof. cbv [gen_mont_sub_assign_1 sub_assign sub_with_borrow sub_chain add_with_carry add_chain fst snd negb orb andb]. crush. Qed.
Lemma gen_mont_double_in_place_1_eq m0 a0 :
  gen_mont_double_in_place_1 (has_spare_bit [m0]) m0 a0 = double_in_place [m0] [a0].
Proof. cbv [gen_mont_double_in_place_1 double_in_place mul2 mul2_chain final_sub subtract_modulus subtract_modulus_with_carry is_geq_modulus sub_with_borrow sub_chain add_with_carry add_chain fst snd negb orb andb]. crush. Qed.
Lemma gen_mont_neg_in_place_1_eq m0 a0 :
  gen_mont_neg_in_place_1 m0 a0 = neg_in_place [m0] [a0].
Proof. cbv [gen_mont_neg_in_place_1 neg_in_place is_zero forallb sub_with_borrow sub_chain add_with_carry add_chain fst snd negb orb andb]. crush. Qed.
Lemma gen_mont_mul_without_cond_subtract_1_eq m0 a0 b0 :
  gen_mont_mul_without_cond_subtract_1 (inv_of [m0]) m0 a0 b0 = mul_without_cond_subtract [m0] [a0] [b0].
Proof. cbv [gen_mont_mul_without_cond_subtract_1 mul_without_cond_subtract red_rows mul_rows mac_row set_first skipn firstn length zeros repeat app Nat.add sub_with_borrow sub_chain add_with_carry add_chain fst snd negb orb andb]. crush. Qed.
Lemma gen_mont_mul_assign_1_eq can_nc spare m0 a0 b0 :
  gen_mont_mul_assign_1 can_nc spare (inv_of [m0]) m0 a0 b0 = mul_assign_w can_nc spare [m0] [a0] [b0].
Proof. cbv [gen_mont_mul_assign_1 mul_assign_w nc_rows_w nc_row_w nc_inner fold_left mul_without_cond_subtract red_rows mul_rows mac_row set_first skipn firstn length zeros repeat app Nat.add subtract_modulus subtract_modulus_with_carry is_geq_modulus sub_with_borrow sub_chain add_with_carry add_chain fst snd negb orb andb]. crush. Qed.
Lemma gen_mont_into_bigint_1_eq m0 a0 :
  gen_mont_into_bigint_1 (inv_of [m0]) m0 a0 = into_bigint [m0] [a0].
Proof. cbv [gen_mont_into_bigint_1 into_bigint into_row Nat.iter nat_rect mul_rows mac_row set_first skipn firstn length zeros repeat app Nat.add sub_with_borrow sub_chain add_with_carry add_chain fst snd negb orb andb]. crush. Qed.
Lemma gen_mont_from_bigint_1_eq can_nc spare m0 rr0 x0 :
  gen_mont_from_bigint_1 can_nc spare (inv_of [m0]) m0 rr0 x0 = from_bigint_w can_nc spare [m0] [rr0] [x0].
Proof. cbv [gen_mont_from_bigint_1]. rewrite ?gen_mont_mul_assign_1_eq. cbv [from_bigint_w is_geq_modulus is_zero forallb sub_with_borrow sub_chain add_with_carry add_chain fst snd negb orb andb]. crush. Qed.
Lemma gen_mont_square_in_place_1_eq can_nc can_sq spare m0 a0 :
  gen_mont_square_in_place_1 can_nc can_sq spare (inv_of [m0]) m0 a0 = mul_assign_w can_nc spare [m0] [a0] [a0].
Proof. cbv [gen_mont_square_in_place_1 mul_assign_w nc_rows_w nc_row_w nc_inner fold_left mul_without_cond_subtract red_rows mul_rows mac_row set_first skipn firstn length zeros repeat app Nat.add subtract_modulus subtract_modulus_with_carry is_geq_modulus sub_with_borrow sub_chain add_with_carry add_chain fst snd negb orb andb]. crush. Qed.
Lemma gen_fp_is_geq_modulus_2_eq m0 m1 a0 a1 :
  gen_fp_is_geq_modulus_2 m0 m1 a0 a1 = is_geq_modulus [m0; m1] [a0; a1].
Proof. cbv [gen_fp_is_geq_modulus_2 is_geq_modulus]. crush. Qed.
Lemma gen_fp_subtract_modulus_2_eq m0 m1 a0 a1 :
  gen_fp_subtract_modulus_2 m0 m1 a0 a1 = subtract_modulus [m0; m1] [a0; a1].
Proof. cbv [gen_fp_subtract_modulus_2 subtract_modulus is_geq_modulus sub_with_borrow sub_chain add_with_carry add_chain fst snd negb orb andb]. crush. Qed.
Lemma gen_fp_subtract_modulus_with_carry_2_eq m0 m1 a0 a1 carry :
  gen_fp_subtract_modulus_with_carry_2 m0 m1 a0 a1 carry = subtract_modulus_with_carry [m0; m1] [a0; a1] carry.
Proof. cbv [gen_fp_subtract_modulus_with_carry_2 subtract_modulus_with_carry is_geq_modulus sub_with_borrow sub_chain add_with_carry add_chain fst snd negb orb andb]. crush. Qed.
Lemma gen_fp_const_is_valid_2_eq m0 m1 a0 a1 :
  gen_fp_const_is_valid_2 m0 m1 a0 a1 = negb (is_geq_modulus [m0; m1] [a0; a1]).
Proof. cbv [gen_fp_const_is_valid_2 is_geq_modulus cmp negb]. geq_crush. Qed.
Lemma gen_mont_add_assign_2_eq m0 m1 a0 a1 b0 b1 :
  gen_mont_add_assign_2 (has_spare_bit [m0; m1]) m0 m1 a0 a1 b0 b1 = add_assign [m0; m1] [a0; a1] [b0; b1].
Proof. cbv [gen_mont_add_assign_2 add_assign final_sub subtract_modulus subtract_modulus_with_carry is_geq_modulus sub_with_borrow sub_chain add_with_carry add_chain fst snd negb orb andb]. crush. Qed.
Lemma gen_mont_sub_assign_2_eq m0 m1 a0 a1 b0 b1 :
  gen_mont_sub_assign_2 m0 m1 a0 a1 b0 b1 = sub_assign [m0; m1] [a0; a1] [b0; b1].
Proof. cbv [gen_mont_sub_assign_2 sub_assign sub_with_borrow sub_chain add_with_carry add_chain fst snd negb orb andb]. crush. Qed.
Lemma gen_mont_double_in_place_2_eq m0 m1 a0 a1 :
  gen_mont_double_in_place_2 (has_spare_bit [m0; m1]) m0 m1 a0 a1 = double_in_place [m0; m1] [a0; a1].
Proof. cbv [gen_mont_double_in_place_2 double_in_place mul2 mul2_chain final_sub subtract_modulus subtract_modulus_with_carry is_geq_modulus sub_with_borrow sub_chain add_with_carry add_chain fst snd negb orb andb]. crush. Qed.
Lemma gen_mont_neg_in_place_2_eq m0 m1 a0 a1 :
  gen_mont_neg_in_place_2 m0 m1 a0 a1 = neg_in_place [m0; m1] [a0; a1].
Proof. cbv [gen_mont_neg_in_place_2 neg_in_place is_zero forallb sub_with_borrow sub_chain add_with_carry add_chain fst snd negb orb andb]. crush. Qed.
Lemma gen_mont_mul_without_cond_subtract_2_eq m0 m1 a0 a1 b0 b1 :
  gen_mont_mul_without_cond_subtract_2 (inv_of [m0; m1]) m0 m1 a0 a1 b0 b1 = mul_without_cond_subtract [m0; m1] [a0; a1] [b0; b1].
Proof. cbv [gen_mont_mul_without_cond_subtract_2 mul_without_cond_subtract red_rows mul_rows mac_row set_first skipn firstn length zeros repeat app Nat.add sub_with_borrow sub_chain add_with_carry add_chain fst snd negb orb andb]. crush. Qed.
Lemma gen_mont_mul_assign_2_eq can_nc spare m0 m1 a0 a1 b0 b1 :
  gen_mont_mul_assign_2 can_nc spare (inv_of [m0; m1]) m0 m1 a0 a1 b0 b1 = mul_assign_w can_nc spare [m0; m1] [a0; a1] [b0; b1].
Proof. cbv [gen_mont_mul_assign_2 mul_assign_w nc_rows_w nc_row_w nc_inner fold_left mul_without_cond_subtract red_rows mul_rows mac_row set_first skipn firstn length zeros repeat app Nat.add subtract_modulus subtract_modulus_with_carry is_geq_modulus sub_with_borrow sub_chain add_with_carry add_chain fst snd negb orb andb]. crush. Qed.
Lemma gen_mont_into_bigint_2_eq m0 m1 a0 a1 :
  gen_mont_into_bigint_2 (inv_of [m0; m1]) m0 m1 a0 a1 = into_bigint [m0; m1] [a0; a1].
Proof. cbv [gen_mont_into_bigint_2 into_bigint into_row Nat.iter nat_rect mul_rows mac_row set_first skipn firstn length zeros repeat app Nat.add sub_with_borrow sub_chain add_with_carry add_chain fst snd negb orb andb]. crush. Qed.
Lemma gen_mont_from_bigint_2_eq can_nc spare m0 m1 rr0 rr1 x0 x1 :
  gen_mont_from_bigint_2 can_nc spare (inv_of [m0; m1]) m0 m1 rr0 rr1 x0 x1 = from_bigint_w can_nc spare [m0; m1] [rr0; rr1] [x0; x1].
Proof. cbv [gen_mont_from_bigint_2]. rewrite ?gen_mont_mul_assign_2_eq. cbv [from_bigint_w is_geq_modulus is_zero forallb sub_with_borrow sub_chain add_with_carry add_chain fst snd negb orb andb]. crush. Qed.
Lemma gen_mont_square_in_place_2_eq can_nc can_sq m0 m1 a0 a1 :
  gen_mont_square_in_place_2 can_nc can_sq (has_spare_bit [m0; m1]) (inv_of [m0; m1]) m0 m1 a0 a1 = square_full [m0; m1] [a0; a1].
Proof. cbv [gen_mont_square_in_place_2 square_full sq_offdiag shl1_chain sq_diag sq_red_rows final_sub subtract_modulus subtract_modulus_with_carry is_geq_modulus mul_rows mac_row set_first skipn firstn length zeros repeat app Nat.add sub_with_borrow sub_chain add_with_carry add_chain fst snd negb orb andb]. crush_sq. Qed.
Lemma gen_fp_is_geq_modulus_4_eq m0 m1 m2 m3 a0 a1 a2 a3 :
  gen_fp_is_geq_modulus_4 m0 m1 m2 m3 a0 a1 a2 a3 = is_geq_modulus [m0; m1; m2; m3] [a0; a1; a2; a3].
Proof. cbv [gen_fp_is_geq_modulus_4 is_geq_modulus]. crush. Qed.
Lemma gen_fp_subtract_modulus_4_eq m0 m1 m2 m3 a0 a1 a2 a3 :
  gen_fp_subtract_modulus_4 m0 m1 m2 m3 a0 a1 a2 a3 = subtract_modulus [m0; m1; m2; m3] [a0; a1; a2; a3].
Proof. cbv [gen_fp_subtract_modulus_4 subtract_modulus is_geq_modulus sub_with_borrow sub_chain add_with_carry add_chain fst snd negb orb andb]. crush. Qed.
Lemma gen_fp_subtract_modulus_with_carry_4_eq m0 m1 m2 m3 a0 a1 a2 a3 carry :
  gen_fp_subtract_modulus_with_carry_4 m0 m1 m2 m3 a0 a1 a2 a3 carry = subtract_modulus_with_carry [m0; m1; m2; m3] [a0; a1; a2; a3] carry.
Proof. cbv [gen_fp_subtract_modulus_with_carry_4 subtract_modulus_with_carry is_geq_modulus sub_with_borrow sub_chain add_with_carry add_chain fst snd negb orb andb]. crush. Qed.
Lemma gen_fp_const_is_valid_4_eq m0 m1 m2 m3 a0 a1 a2 a3 :
  gen_fp_const_is_valid_4 m0 m1 m2 m3 a0 a1 a2 a3 = negb (is_geq_modulus [m0; m1; m2; m3] [a0; a1; a2; a3]).
Proof. cbv [gen_fp_const_is_valid_4 is_geq_modulus cmp negb]. geq_crush. Qed.
Lemma gen_mont_add_assign_4_eq m0 m1 m2 m3 a0 a1 a2 a3 b0 b1 b2 b3 :
  gen_mont_add_assign_4 (has_spare_bit [m0; m1; m2; m3]) m0 m1 m2 m3 a0 a1 a2 a3 b0 b1 b2 b3 = add_assign [m0; m1; m2; m3] [a0; a1; a2; a3] [b0; b1; b2; b3].
Proof. cbv [gen_mont_add_assign_4 add_assign final_sub subtract_modulus subtract_modulus_with_carry is_geq_modulus sub_with_borrow sub_chain add_with_carry add_chain fst snd negb orb andb]. crush. Qed.
Lemma gen_mont_sub_assign_4_eq m0 m1 m2 m3 a0 a1 a2 a3 b0 b1 b2 b3 :
  gen_mont_sub_assign_4 m0 m1 m2 m3 a0 a1 a2 a3 b0 b1 b2 b3 = sub_assign [m0; m1; m2; m3] [a0; a1; a2; a3] [b0; b1; b2; b3].
Proof. cbv [gen_mont_sub_assign_4 sub_assign sub_with_borrow sub_chain add_with_carry add_chain fst snd negb orb andb]. crush. Qed.
Lemma gen_mont_double_in_place_4_eq m0 m1 m2 m3 a0 a1 a2 a3 :
  gen_mont_double_in_place_4 (has_spare_bit [m0; m1; m2; m3]) m0 m1 m2 m3 a0 a1 a2 a3 = double_in_place [m0; m1; m2; m3] [a0; a1; a2; a3].
Proof. cbv [gen_mont_double_in_place_4 double_in_place mul2 mul2_chain final_sub subtract_modulus subtract_modulus_with_carry is_geq_modulus sub_with_borrow sub_chain add_with_carry add_chain fst snd negb orb andb]. crush. Qed.
Lemma gen_mont_neg_in_place_4_eq m0 m1 m2 m3 a0 a1 a2 a3 :
  gen_mont_neg_in_place_4 m0 m1 m2 m3 a0 a1 a2 a3 = neg_in_place [m0; m1; m2; m3] [a0; a1; a2; a3].
Proof. cbv [gen_mont_neg_in_place_4 neg_in_place is_zero forallb sub_with_borrow sub_chain add_with_carry add_chain fst snd negb orb andb]. crush. Qed.
Lemma gen_mont_mul_without_cond_subtract_4_eq m0 m1 m2 m3 a0 a1 a2 a3 b0 b1 b2 b3 :
  gen_mont_mul_without_cond_subtract_4 (inv_of [m0; m1; m2; m3]) m0 m1 m2 m3 a0 a1 a2 a3 b0 b1 b2 b3 = mul_without_cond_subtract [m0; m1; m2; m3] [a0; a1; a2; a3] [b0; b1; b2; b3].
Proof. cbv [gen_mont_mul_without_cond_subtract_4 mul_without_cond_subtract red_rows mul_rows mac_row set_first skipn firstn length zeros repeat app Nat.add sub_with_borrow sub_chain add_with_carry add_chain fst snd negb orb andb]. crush. Qed.
Lemma gen_mont_mul_assign_4_eq can_nc spare m0 m1 m2 m3 a0 a1 a2 a3 b0 b1 b2 b3 :
  gen_mont_mul_assign_4 can_nc spare (inv_of [m0; m1; m2; m3]) m0 m1 m2 m3 a0 a1 a2 a3 b0 b1 b2 b3 = mul_assign_w can_nc spare [m0; m1; m2; m3] [a0; a1; a2; a3] [b0; b1; b2; b3].
Proof. cbv [gen_mont_mul_assign_4 mul_assign_w nc_rows_w nc_row_w nc_inner fold_left mul_without_cond_subtract red_rows mul_rows mac_row set_first skipn firstn length zeros repeat app Nat.add subtract_modulus subtract_modulus_with_carry is_geq_modulus sub_with_borrow sub_chain add_with_carry add_chain fst snd negb orb andb]. crush. Qed.
Lemma gen_mont_into_bigint_4_eq m0 m1 m2 m3 a0 a1 a2 a3 :
  gen_mont_into_bigint_4 (inv_of [m0; m1; m2; m3]) m0 m1 m2 m3 a0 a1 a2 a3 = into_bigint [m0; m1; m2; m3] [a0; a1; a2; a3].
Proof. cbv [gen_mont_into_bigint_4 into_bigint into_row Nat.iter nat_rect mul_rows mac_row set_first skipn firstn length zeros repeat app Nat.add sub_with_borrow sub_chain add_with_carry add_chain fst snd negb orb andb]. crush. Qed.
Lemma gen_mont_from_bigint_4_eq can_nc spare m0 m1 m2 m3 rr0 rr1 rr2 rr3 x0 x1 x2 x3 :
  gen_mont_from_bigint_4 can_nc spare (inv_of [m0; m1; m2; m3]) m0 m1 m2 m3 rr0 rr1 rr2 rr3 x0 x1 x2 x3 = from_bigint_w can_nc spare [m0; m1; m2; m3] [rr0; rr1; rr2; rr3] [x0; x1; x2; x3].
Proof. cbv [gen_mont_from_bigint_4]. rewrite ?gen_mont_mul_assign_4_eq. cbv [from_bigint_w is_geq_modulus is_zero forallb sub_with_borrow sub_chain add_with_carry add_chain fst snd negb orb andb]. crush. Qed.
Lemma gen_mont_square_in_place_4_eq can_nc can_sq m0 m1 m2 m3 a0 a1 a2 a3 :
  gen_mont_square_in_place_4 can_nc can_sq (has_spare_bit [m0; m1; m2; m3]) (inv_of [m0; m1; m2; m3]) m0 m1 m2 m3 a0 a1 a2 a3 = square_full [m0; m1; m2; m3] [a0; a1; a2; a3].
Proof. cbv [gen_mont_square_in_place_4 square_full sq_offdiag shl1_chain sq_diag sq_red_rows final_sub subtract_modulus subtract_modulus_with_carry is_geq_modulus mul_rows mac_row set_first skipn firstn length zeros repeat app Nat.add sub_with_borrow sub_chain add_with_carry add_chain fst snd negb orb andb]. crush_sq. Qed.
Lemma gen_fp_is_geq_modulus_6_eq m0 m1 m2 m3 m4 m5 a0 a1 a2 a3 a4 a5 :
  gen_fp_is_geq_modulus_6 m0 m1 m2 m3 m4 m5 a0 a1 a2 a3 a4 a5 = is_geq_modulus [m0; m1; m2; m3; m4; m5] [a0; a1; a2; a3; a4; a5].
Proof. cbv [gen_fp_is_geq_modulus_6 is_geq_modulus]. crush. Qed.
Lemma gen_fp_subtract_modulus_6_eq m0 m1 m2 m3 m4 m5 a0 a1 a2 a3 a4 a5 :
  gen_fp_subtract_modulus_6 m0 m1 m2 m3 m4 m5 a0 a1 a2 a3 a4 a5 = subtract_modulus [m0; m1; m2; m3; m4; m5] [a0; a1; a2; a3; a4; a5].
Proof. cbv [gen_fp_subtract_modulus_6 subtract_modulus is_geq_modulus sub_with_borrow sub_chain add_with_carry add_chain fst snd negb orb andb]. crush. Qed.
Lemma gen_fp_subtract_modulus_with_carry_6_eq m0 m1 m2 m3 m4 m5 a0 a1 a2 a3 a4 a5 carry :
  gen_fp_subtract_modulus_with_carry_6 m0 m1 m2 m3 m4 m5 a0 a1 a2 a3 a4 a5 carry = subtract_modulus_with_carry [m0; m1; m2; m3; m4; m5] [a0; a1; a2; a3; a4; a5] carry.
Proof. cbv [gen_fp_subtract_modulus_with_carry_6 subtract_modulus_with_carry is_geq_modulus sub_with_borrow sub_chain add_with_carry add_chain fst snd negb orb andb]. crush. Qed.
Lemma gen_fp_const_is_valid_6_eq m0 m1 m2 m3 m4 m5 a0 a1 a2 a3 a4 a5 :
  gen_fp_const_is_valid_6 m0 m1 m2 m3 m4 m5 a0 a1 a2 a3 a4 a5 = negb (is_geq_modulus [m0; m1; m2; m3; m4; m5] [a0; a1; a2; a3; a4; a5]).
Proof. cbv [gen_fp_const_is_valid_6 is_geq_modulus cmp negb]. geq_crush. Qed.
Lemma gen_mont_add_assign_6_eq m0 m1 m2 m3 m4 m5 a0 a1 a2 a3 a4 a5 b0 b1 b2 b3 b4 b5 :
  gen_mont_add_assign_6 (has_spare_bit [m0; m1; m2; m3; m4; m5]) m0 m1 m2 m3 m4 m5 a0 a1 a2 a3 a4 a5 b0 b1 b2 b3 b4 b5 = add_assign [m0; m1; m2; m3; m4; m5] [a0; a1; a2; a3; a4; a5] [b0; b1; b2; b3; b4; b5].
Proof. cbv [gen_mont_add_assign_6 add_assign final_sub subtract_modulus subtract_modulus_with_carry is_geq_modulus sub_with_borrow sub_chain add_with_carry add_chain fst snd negb orb andb]. crush. Qed.
Lemma gen_mont_sub_assign_6_eq m0 m1 m2 m3 m4 m5 a0 a1 a2 a3 a4 a5 b0 b1 b2 b3 b4 b5 :
  gen_mont_sub_assign_6 m0 m1 m2 m3 m4 m5 a0 a1 a2 a3 a4 a5 b0 b1 b2 b3 b4 b5 = sub_assign [m0; m1; m2; m3; m4; m5] [a0; a1; a2; a3; a4; a5] [b0; b1; b2; b3; b4; b5].
Proof. cbv [gen_mont_sub_assign_6 sub_assign sub_with_borrow sub_chain add_with_carry add_chain fst snd negb orb andb]. crush. Qed.
Lemma gen_mont_double_in_place_6_eq m0 m1 m2 m3 m4 m5 a0 a1 a2 a3 a4 a5 :
  gen_mont_double_in_place_6 (has_spare_bit [m0; m1; m2; m3; m4; m5]) m0 m1 m2 m3 m4 m5 a0 a1 a2 a3 a4 a5 = double_in_place [m0; m1; m2; m3; m4; m5] [a0; a1; a2; a3; a4; a5].
Proof. cbv [gen_mont_double_in_place_6 double_in_place mul2 mul2_chain final_sub subtract_modulus subtract_modulus_with_carry is_geq_modulus sub_with_borrow sub_chain add_with_carry add_chain fst snd negb orb andb]. crush. Qed.
Lemma gen_mont_neg_in_place_6_eq m0 m1 m2 m3 m4 m5 a0 a1 a2 a3 a4 a5 :
  gen_mont_neg_in_place_6 m0 m1 m2 m3 m4 m5 a0 a1 a2 a3 a4 a5 = neg_in_place [m0; m1; m2; m3; m4; m5] [a0; a1; a2; a3; a4; a5].
Proof. cbv [gen_mont_neg_in_place_6 neg_in_place is_zero forallb sub_with_borrow sub_chain add_with_carry add_chain fst snd negb orb andb]. crush. Qed.
Lemma gen_mont_mul_without_cond_subtract_6_eq m0 m1 m2 m3 m4 m5 a0 a1 a2 a3 a4 a5 b0 b1 b2 b3 b4 b5 :
  gen_mont_mul_without_cond_subtract_6 (inv_of [m0; m1; m2; m3; m4; m5]) m0 m1 m2 m3 m4 m5 a0 a1 a2 a3 a4 a5 b0 b1 b2 b3 b4 b5 = mul_without_cond_subtract [m0; m1; m2; m3; m4; m5] [a0; a1; a2; a3; a4; a5] [b0; b1; b2; b3; b4; b5].
Proof. cbv [gen_mont_mul_without_cond_subtract_6 mul_without_cond_subtract red_rows mul_rows mac_row set_first skipn firstn length zeros repeat app Nat.add sub_with_borrow sub_chain add_with_carry add_chain fst snd negb orb andb]. crush. Qed.
Lemma gen_mont_mul_assign_6_eq can_nc spare m0 m1 m2 m3 m4 m5 a0 a1 a2 a3 a4 a5 b0 b1 b2 b3 b4 b5 :
  gen_mont_mul_assign_6 can_nc spare (inv_of [m0; m1; m2; m3; m4; m5]) m0 m1 m2 m3 m4 m5 a0 a1 a2 a3 a4 a5 b0 b1 b2 b3 b4 b5 = mul_assign_w can_nc spare [m0; m1; m2; m3; m4; m5] [a0; a1; a2; a3; a4; a5] [b0; b1; b2; b3; b4; b5].
Proof. cbv [gen_mont_mul_assign_6 mul_assign_w nc_rows_w nc_row_w nc_inner fold_left mul_without_cond_subtract red_rows mul_rows mac_row set_first skipn firstn length zeros repeat app Nat.add subtract_modulus subtract_modulus_with_carry is_geq_modulus sub_with_borrow sub_chain add_with_carry add_chain fst snd negb orb andb]. crush. Qed.
Lemma gen_mont_into_bigint_6_eq m0 m1 m2 m3 m4 m5 a0 a1 a2 a3 a4 a5 :
  gen_mont_into_bigint_6 (inv_of [m0; m1; m2; m3; m4; m5]) m0 m1 m2 m3 m4 m5 a0 a1 a2 a3 a4 a5 = into_bigint [m0; m1; m2; m3; m4; m5] [a0; a1; a2; a3; a4; a5].
Proof. cbv [gen_mont_into_bigint_6 into_bigint into_row Nat.iter nat_rect mul_rows mac_row set_first skipn firstn length zeros repeat app Nat.add sub_with_borrow sub_chain add_with_carry add_chain fst snd negb orb andb]. crush. Qed.
Lemma gen_mont_from_bigint_6_eq can_nc spare m0 m1 m2 m3 m4 m5 rr0 rr1 rr2 rr3 rr4 rr5 x0 x1 x2 x3 x4 x5 :
  gen_mont_from_bigint_6 can_nc spare (inv_of [m0; m1; m2; m3; m4; m5]) m0 m1 m2 m3 m4 m5 rr0 rr1 rr2 rr3 rr4 rr5 x0 x1 x2 x3 x4 x5 = from_bigint_w can_nc spare [m0; m1; m2; m3; m4; m5] [rr0; rr1; rr2; rr3; rr4; rr5] [x0; x1; x2; x3; x4; x5].
Proof. cbv [gen_mont_from_bigint_6]. rewrite ?gen_mont_mul_assign_6_eq. cbv [from_bigint_w is_geq_modulus is_zero forallb sub_with_borrow sub_chain add_with_carry add_chain fst snd negb orb andb]. crush. Qed.
Lemma gen_mont_square_in_place_6_eq can_nc can_sq m0 m1 m2 m3 m4 m5 a0 a1 a2 a3 a4 a5 :
  gen_mont_square_in_place_6 can_nc can_sq (has_spare_bit [m0; m1; m2; m3; m4; m5]) (inv_of [m0; m1; m2; m3; m4; m5]) m0 m1 m2 m3 m4 m5 a0 a1 a2 a3 a4 a5 = square_full [m0; m1; m2; m3; m4; m5] [a0; a1; a2; a3; a4; a5].
Proof. cbv [gen_mont_square_in_place_6 square_full sq_offdiag shl1_chain sq_diag sq_red_rows final_sub subtract_modulus subtract_modulus_with_carry is_geq_modulus mul_rows mac_row set_first skipn firstn length zeros repeat app Nat.add sub_with_borrow sub_chain add_with_carry add_chain fst snd negb orb andb]. crush_sq. Qed.

(* ================= all-N bridges ================= *)

Lemma nc_row_w_eq m a inv r bi :
  wf (nc_row m a inv r bi) -> nc_row_w m a inv r bi = nc_row m a inv r bi.
Proof.
  unfold nc_row_w, nc_row.
  destruct r as [|r0 r'], a as [|a0 a'], m as [|m0 m']; auto.
  destruct (mac r0 a0 bi 0) as [v0 c1].
  destruct (nc_inner r' a' m' bi ((v0 * inv) mod W64) c1 (mac_discard v0 ((v0 * inv) mod W64) m0 0))
    as [[rs c1f] c2f].
  intros H. apply wf_app in H as [_ H]. apply wf_cons in H as [H _].
  rewrite Z.mod_small by exact H. reflexivity.
Qed.

Lemma nc_fold_w_eq m0 m' a inv :
  (forall x, (x + ((x * inv) mod W64) * m0) mod W64 = 0) ->
  wf (m0 :: m') -> wf a -> length a = length (m0 :: m') -> val a < val (m0 :: m') ->
  2 * val (m0 :: m') <= Wn (length (m0 :: m')) ->
  forall bs r, wf bs -> wf r -> length r = length (m0 :: m') -> val r < 2 * val (m0 :: m') ->
  fold_left (nc_row_w (m0 :: m') a inv) bs r = fold_left (nc_row (m0 :: m') a inv) bs r.
Proof.
  intros Hkill Hm Ha Hla Halt Hsp.
  induction bs as [|bi bs IH]; intros r Hbs Hr Hlr Hrlt; [reflexivity|].
  apply wf_cons in Hbs as [Hbi Hbs]. cbn [fold_left].
  destruct (nc_fold_spec m0 inv m' a Hkill Hm Ha Hla Halt Hsp [bi] r
              ltac:(apply wf_cons; split; [exact Hbi | apply wf_nil]) Hr Hlr Hrlt)
    as (Hw & Hlen & Hlt & _).
  cbn [fold_left] in Hw, Hlen, Hlt.
  rewrite nc_row_w_eq by exact Hw.
  apply IH; auto.
Qed.

Theorem mul_assign_w_eq m a b : wf m -> wf a -> wf b ->
  length a = length m -> length b = length m -> val m mod 2 = 1 -> val a < val m ->
  mul_assign_w (nocarry_trait m) (has_spare_bit m) m a b = mul_assign false m a b.
Proof.
  intros Hm Ha Hb Hla Hlb Hodd Halt. unfold mul_assign_w, mul_assign.
  destruct (nocarry_trait m) eqn:E.
  - unfold mul_nocarry, nc_rows_w, nc_rows. f_equal.
    pose proof (odd_nonempty m Hodd) as Hne. destruct m as [|m0 m']; [congruence|].
    apply nc_fold_w_eq; auto.
    + apply inv_of_kills; auto.
    + apply spare_bit_bound; auto. apply nocarry_trait_spare; exact E.
    + apply wf_zeros.
    + apply length_zeros.
    + rewrite val_zeros. pose proof (val_bound a Ha). lia.
  - unfold mul_cios, final_sub. destruct (mul_without_cond_subtract m a b). reflexivity.
Qed.

Theorem from_bigint_w_eq m r2 x : wf m -> wf r2 -> wf x ->
  length x = length m -> length r2 = length m -> val m mod 2 = 1 ->
  from_bigint_w (nocarry_trait m) (has_spare_bit m) m r2 x = from_bigint_with false m r2 x.
Proof.
  intros Hm Hr2 Hx Hlx Hlr Hodd. unfold from_bigint_w, from_bigint_with.
  destruct (is_zero x); [reflexivity|].
  destruct (is_geq_modulus m x) eqn:E; [reflexivity|].
  rewrite mul_assign_w_eq; auto.
  pose proof (is_geq_modulus_spec m x Hm Hx Hlx) as H. rewrite E in H.
  destruct (Z.leb_spec (val m) (val x)); [discriminate | lia].
Qed.

(* ================= composed corollaries ================= *)
Lemma gen_add_with_carry_1_spec a0 b0 :
  wf [a0] -> wf [b0] ->
  let '(r, c) := gen_add_with_carry_1 a0 b0 in
  wf r /\ length r = 1%nat /\ val r + Wn 1 * Z.b2z c = val [a0] + val [b0].
Proof.
  intros Ha Hb. rewrite gen_add_with_carry_1_eq. apply (add_with_carry_spec [a0] [b0] Ha Hb eq_refl).
Qed.
Lemma gen_sub_with_borrow_1_spec a0 b0 :
  wf [a0] -> wf [b0] ->
  let '(r, c) := gen_sub_with_borrow_1 a0 b0 in
  wf r /\ length r = 1%nat /\ val r - Wn 1 * Z.b2z c = val [a0] - val [b0].
Proof.
  intros Ha Hb. rewrite gen_sub_with_borrow_1_eq. apply (sub_with_borrow_spec [a0] [b0] Ha Hb eq_refl).
Qed.
Lemma gen_mul2_1_spec a0 :
  wf [a0] ->
  let '(r, c) := gen_mul2_1 a0 in
  wf r /\ length r = 1%nat /\ val r + Wn 1 * Z.b2z c = 2 * val [a0].
Proof.
  intros Ha. rewrite gen_mul2_1_eq. apply (mul2_spec [a0] Ha).
Qed.
Lemma gen_div2_1_spec a0 :
  wf [a0] ->
  wf (gen_div2_1 a0) /\ length (gen_div2_1 a0) = 1%nat /\ val (gen_div2_1 a0) = val [a0] / 2.
Proof.
  intros Ha. rewrite gen_div2_1_eq. apply (div2_spec [a0] Ha).
Qed.
Lemma gen_cmp_1_spec a0 b0 :
  wf [a0] -> wf [b0] ->
  gen_cmp_1 a0 b0 = Z.compare (val [a0]) (val [b0]).
Proof.
  intros Ha Hb. rewrite gen_cmp_1_eq. apply (cmp_spec [a0] [b0] Ha Hb eq_refl).
Qed.
Lemma gen_is_zero_1_spec a0 :
  wf [a0] ->
  gen_is_zero_1 a0 = (val [a0] =? 0).
Proof.
  intros Ha. rewrite gen_is_zero_1_eq. apply (is_zero_spec [a0] Ha).
Qed.
Lemma gen_add_with_carry_2_spec a0 a1 b0 b1 :
  wf [a0; a1] -> wf [b0; b1] ->
  let '(r, c) := gen_add_with_carry_2 a0 a1 b0 b1 in
  wf r /\ length r = 2%nat /\ val r + Wn 2 * Z.b2z c = val [a0; a1] + val [b0; b1].
Proof.
  intros Ha Hb. rewrite gen_add_with_carry_2_eq. apply (add_with_carry_spec [a0; a1] [b0; b1] Ha Hb eq_refl).
Qed.
Lemma gen_sub_with_borrow_2_spec a0 a1 b0 b1 :
  wf [a0; a1] -> wf [b0; b1] ->
  let '(r, c) := gen_sub_with_borrow_2 a0 a1 b0 b1 in
  wf r /\ length r = 2%nat /\ val r - Wn 2 * Z.b2z c = val [a0; a1] - val [b0; b1].
Proof.
  intros Ha Hb. rewrite gen_sub_with_borrow_2_eq. apply (sub_with_borrow_spec [a0; a1] [b0; b1] Ha Hb eq_refl).
Qed.
Lemma gen_mul2_2_spec a0 a1 :
  wf [a0; a1] ->
  let '(r, c) := gen_mul2_2 a0 a1 in
  wf r /\ length r = 2%nat /\ val r + Wn 2 * Z.b2z c = 2 * val [a0; a1].
Proof.
  intros Ha. rewrite gen_mul2_2_eq. apply (mul2_spec [a0; a1] Ha).
Qed.
Lemma gen_div2_2_spec a0 a1 :
  wf [a0; a1] ->
  wf (gen_div2_2 a0 a1) /\ length (gen_div2_2 a0 a1) = 2%nat /\ val (gen_div2_2 a0 a1) = val [a0; a1] / 2.
Proof.
  intros Ha. rewrite gen_div2_2_eq. apply (div2_spec [a0; a1] Ha).
Qed.
Lemma gen_cmp_2_spec a0 a1 b0 b1 :
  wf [a0; a1] -> wf [b0; b1] ->
  gen_cmp_2 a0 a1 b0 b1 = Z.compare (val [a0; a1]) (val [b0; b1]).
Proof.
  intros Ha Hb. rewrite gen_cmp_2_eq. apply (cmp_spec [a0; a1] [b0; b1] Ha Hb eq_refl).
Qed.
Lemma gen_is_zero_2_spec a0 a1 :
  wf [a0; a1] ->
  gen_is_zero_2 a0 a1 = (val [a0; a1] =? 0).
Proof.
  intros Ha. rewrite gen_is_zero_2_eq. apply (is_zero_spec [a0; a1] Ha).
Qed.
Lemma gen_add_with_carry_3_spec a0 a1 a2 b0 b1 b2 :
  wf [a0; a1; a2] -> wf [b0; b1; b2] ->
  let '(r, c) := gen_add_with_carry_3 a0 a1 a2 b0 b1 b2 in
  wf r /\ length r = 3%nat /\ val r + Wn 3 * Z.b2z c = val [a0; a1; a2] + val [b0; b1; b2].
Proof.
  intros Ha Hb. rewrite gen_add_with_carry_3_eq. apply (add_with_carry_spec [a0; a1; a2] [b0; b1; b2] Ha Hb eq_refl).
Qed.
Lemma gen_sub_with_borrow_3_spec a0 a1 a2 b0 b1 b2 :
  wf [a0; a1; a2] -> wf [b0; b1; b2] ->
  let '(r, c) := gen_sub_with_borrow_3 a0 a1 a2 b0 b1 b2 in
  wf r /\ length r = 3%nat /\ val r - Wn 3 * Z.b2z c = val [a0; a1; a2] - val [b0; b1; b2].
Proof.
  intros Ha Hb. rewrite gen_sub_with_borrow_3_eq. apply (sub_with_borrow_spec [a0; a1; a2] [b0; b1; b2] Ha Hb eq_refl).
Qed.
Lemma gen_mul2_3_spec a0 a1 a2 :
  wf [a0; a1; a2] ->
  let '(r, c) := gen_mul2_3 a0 a1 a2 in
  wf r /\ length r = 3%nat /\ val r + Wn 3 * Z.b2z c = 2 * val [a0; a1; a2].
Proof.
  intros Ha. rewrite gen_mul2_3_eq. apply (mul2_spec [a0; a1; a2] Ha).
Qed.
Lemma gen_div2_3_spec a0 a1 a2 :
  wf [a0; a1; a2] ->
  wf (gen_div2_3 a0 a1 a2) /\ length (gen_div2_3 a0 a1 a2) = 3%nat /\ val (gen_div2_3 a0 a1 a2) = val [a0; a1; a2] / 2.
Proof.
  intros Ha. rewrite gen_div2_3_eq. apply (div2_spec [a0; a1; a2] Ha).
Qed.
Lemma gen_cmp_3_spec a0 a1 a2 b0 b1 b2 :
  wf [a0; a1; a2] -> wf [b0; b1; b2] ->
  gen_cmp_3 a0 a1 a2 b0 b1 b2 = Z.compare (val [a0; a1; a2]) (val [b0; b1; b2]).
Proof.
  intros Ha Hb. rewrite gen_cmp_3_eq. apply (cmp_spec [a0; a1; a2] [b0; b1; b2] Ha Hb eq_refl).
Qed.
Lemma gen_is_zero_3_spec a0 a1 a2 :
  wf [a0; a1; a2] ->
  gen_is_zero_3 a0 a1 a2 = (val [a0; a1; a2] =? 0).
Proof.
  intros Ha. rewrite gen_is_zero_3_eq. apply (is_zero_spec [a0; a1; a2] Ha).
Qed.
Lemma gen_add_with_carry_4_spec a0 a1 a2 a3 b0 b1 b2 b3 :
  wf [a0; a1; a2; a3] -> wf [b0; b1; b2; b3] ->
  let '(r, c) := gen_add_with_carry_4 a0 a1 a2 a3 b0 b1 b2 b3 in
  wf r /\ length r = 4%nat /\ val r + Wn 4 * Z.b2z c = val [a0; a1; a2; a3] + val [b0; b1; b2; b3].
Proof.
  intros Ha Hb. rewrite gen_add_with_carry_4_eq. apply (add_with_carry_spec [a0; a1; a2; a3] [b0; b1; b2; b3] Ha Hb eq_refl).
Qed.
Lemma gen_sub_with_borrow_4_spec a0 a1 a2 a3 b0 b1 b2 b3 :
  wf [a0; a1; a2; a3] -> wf [b0; b1; b2; b3] ->
  let '(r, c) := gen_sub_with_borrow_4 a0 a1 a2 a3 b0 b1 b2 b3 in
  wf r /\ length r = 4%nat /\ val r - Wn 4 * Z.b2z c = val [a0; a1; a2; a3] - val [b0; b1; b2; b3].
Proof.
  intros Ha Hb. rewrite gen_sub_with_borrow_4_eq. apply (sub_with_borrow_spec [a0; a1; a2; a3] [b0; b1; b2; b3] Ha Hb eq_refl).
Qed.
Lemma gen_mul2_4_spec a0 a1 a2 a3 :
  wf [a0; a1; a2; a3] ->
  let '(r, c) := gen_mul2_4 a0 a1 a2 a3 in
  wf r /\ length r = 4%nat /\ val r + Wn 4 * Z.b2z c = 2 * val [a0; a1; a2; a3].
Proof.
  intros Ha. rewrite gen_mul2_4_eq. apply (mul2_spec [a0; a1; a2; a3] Ha).
Qed.
Lemma gen_div2_4_spec a0 a1 a2 a3 :
  wf [a0; a1; a2; a3] ->
  wf (gen_div2_4 a0 a1 a2 a3) /\ length (gen_div2_4 a0 a1 a2 a3) = 4%nat /\ val (gen_div2_4 a0 a1 a2 a3) = val [a0; a1; a2; a3] / 2.
Proof.
  intros Ha. rewrite gen_div2_4_eq. apply (div2_spec [a0; a1; a2; a3] Ha).
Qed.
Lemma gen_cmp_4_spec a0 a1 a2 a3 b0 b1 b2 b3 :
  wf [a0; a1; a2; a3] -> wf [b0; b1; b2; b3] ->
  gen_cmp_4 a0 a1 a2 a3 b0 b1 b2 b3 = Z.compare (val [a0; a1; a2; a3]) (val [b0; b1; b2; b3]).
Proof.
  intros Ha Hb. rewrite gen_cmp_4_eq. apply (cmp_spec [a0; a1; a2; a3] [b0; b1; b2; b3] Ha Hb eq_refl).
Qed.
Lemma gen_is_zero_4_spec a0 a1 a2 a3 :
  wf [a0; a1; a2; a3] ->
  gen_is_zero_4 a0 a1 a2 a3 = (val [a0; a1; a2; a3] =? 0).
Proof.
  intros Ha. rewrite gen_is_zero_4_eq. apply (is_zero_spec [a0; a1; a2; a3] Ha).
Qed.
Lemma gen_add_with_carry_6_spec a0 a1 a2 a3 a4 a5 b0 b1 b2 b3 b4 b5 :
  wf [a0; a1; a2; a3; a4; a5] -> wf [b0; b1; b2; b3; b4; b5] ->
  let '(r, c) := gen_add_with_carry_6 a0 a1 a2 a3 a4 a5 b0 b1 b2 b3 b4 b5 in
  wf r /\ length r = 6%nat /\ val r + Wn 6 * Z.b2z c = val [a0; a1; a2; a3; a4; a5] + val [b0; b1; b2; b3; b4; b5].
Proof.
  intros Ha Hb. rewrite gen_add_with_carry_6_eq. apply (add_with_carry_spec [a0; a1; a2; a3; a4; a5] [b0; b1; b2; b3; b4; b5] Ha Hb eq_refl).
Qed.
Lemma gen_sub_with_borrow_6_spec a0 a1 a2 a3 a4 a5 b0 b1 b2 b3 b4 b5 :
  wf [a0; a1; a2; a3; a4; a5] -> wf [b0; b1; b2; b3; b4; b5] ->
  let '(r, c) := gen_sub_with_borrow_6 a0 a1 a2 a3 a4 a5 b0 b1 b2 b3 b4 b5 in
  wf r /\ length r = 6%nat /\ val r - Wn 6 * Z.b2z c = val [a0; a1; a2; a3; a4; a5] - val [b0; b1; b2; b3; b4; b5].
Proof.
  intros Ha Hb. rewrite gen_sub_with_borrow_6_eq. apply (sub_with_borrow_spec [a0; a1; a2; a3; a4; a5] [b0; b1; b2; b3; b4; b5] Ha Hb eq_refl).
Qed.
Lemma gen_mul2_6_spec a0 a1 a2 a3 a4 a5 :
  wf [a0; a1; a2; a3; a4; a5] ->
  let '(r, c) := gen_mul2_6 a0 a1 a2 a3 a4 a5 in
  wf r /\ length r = 6%nat /\ val r + Wn 6 * Z.b2z c = 2 * val [a0; a1; a2; a3; a4; a5].
Proof.
  intros Ha. rewrite gen_mul2_6_eq. apply (mul2_spec [a0; a1; a2; a3; a4; a5] Ha).
Qed.
Lemma gen_div2_6_spec a0 a1 a2 a3 a4 a5 :
  wf [a0; a1; a2; a3; a4; a5] ->
  wf (gen_div2_6 a0 a1 a2 a3 a4 a5) /\ length (gen_div2_6 a0 a1 a2 a3 a4 a5) = 6%nat /\ val (gen_div2_6 a0 a1 a2 a3 a4 a5) = val [a0; a1; a2; a3; a4; a5] / 2.
Proof.
  intros Ha. rewrite gen_div2_6_eq. apply (div2_spec [a0; a1; a2; a3; a4; a5] Ha).
Qed.
Lemma gen_cmp_6_spec a0 a1 a2 a3 a4 a5 b0 b1 b2 b3 b4 b5 :
  wf [a0; a1; a2; a3; a4; a5] -> wf [b0; b1; b2; b3; b4; b5] ->
  gen_cmp_6 a0 a1 a2 a3 a4 a5 b0 b1 b2 b3 b4 b5 = Z.compare (val [a0; a1; a2; a3; a4; a5]) (val [b0; b1; b2; b3; b4; b5]).
Proof.
  intros Ha Hb. rewrite gen_cmp_6_eq. apply (cmp_spec [a0; a1; a2; a3; a4; a5] [b0; b1; b2; b3; b4; b5] Ha Hb eq_refl).
Qed.
Lemma gen_is_zero_6_spec a0 a1 a2 a3 a4 a5 :
  wf [a0; a1; a2; a3; a4; a5] ->
  gen_is_zero_6 a0 a1 a2 a3 a4 a5 = (val [a0; a1; a2; a3; a4; a5] =? 0).
Proof.
  intros Ha. rewrite gen_is_zero_6_eq. apply (is_zero_spec [a0; a1; a2; a3; a4; a5] Ha).
Qed.
Lemma gen_add_with_carry_12_spec a0 a1 a2 a3 a4 a5 a6 a7 a8 a9 a10 a11 b0 b1 b2 b3 b4 b5 b6 b7 b8 b9 b10 b11 :
  wf [a0; a1; a2; a3; a4; a5; a6; a7; a8; a9; a10; a11] -> wf [b0; b1; b2; b3; b4; b5; b6; b7; b8; b9; b10; b11] ->
  let '(r, c) := gen_add_with_carry_12 a0 a1 a2 a3 a4 a5 a6 a7 a8 a9 a10 a11 b0 b1 b2 b3 b4 b5 b6 b7 b8 b9 b10 b11 in
  wf r /\ length r = 12%nat /\ val r + Wn 12 * Z.b2z c = val [a0; a1; a2; a3; a4; a5; a6; a7; a8; a9; a10; a11] + val [b0; b1; b2; b3; b4; b5; b6; b7; b8; b9; b10; b11].
Proof.
  intros Ha Hb. rewrite gen_add_with_carry_12_eq. apply (add_with_carry_spec [a0; a1; a2; a3; a4; a5; a6; a7; a8; a9; a10; a11] [b0; b1; b2; b3; b4; b5; b6; b7; b8; b9; b10; b11] Ha Hb eq_refl).
Qed.
Lemma gen_sub_with_borrow_12_spec a0 a1 a2 a3 a4 a5 a6 a7 a8 a9 a10 a11 b0 b1 b2 b3 b4 b5 b6 b7 b8 b9 b10 b11 :
  wf [a0; a1; a2; a3; a4; a5; a6; a7; a8; a9; a10; a11] -> wf [b0; b1; b2; b3; b4; b5; b6; b7; b8; b9; b10; b11] ->
  let '(r, c) := gen_sub_with_borrow_12 a0 a1 a2 a3 a4 a5 a6 a7 a8 a9 a10 a11 b0 b1 b2 b3 b4 b5 b6 b7 b8 b9 b10 b11 in
  wf r /\ length r = 12%nat /\ val r - Wn 12 * Z.b2z c = val [a0; a1; a2; a3; a4; a5; a6; a7; a8; a9; a10; a11] - val [b0; b1; b2; b3; b4; b5; b6; b7; b8; b9; b10; b11].
Proof.
  intros Ha Hb. rewrite gen_sub_with_borrow_12_eq. apply (sub_with_borrow_spec [a0; a1; a2; a3; a4; a5; a6; a7; a8; a9; a10; a11] [b0; b1; b2; b3; b4; b5; b6; b7; b8; b9; b10; b11] Ha Hb eq_refl).
Qed.
Lemma gen_mul2_12_spec a0 a1 a2 a3 a4 a5 a6 a7 a8 a9 a10 a11 :
  wf [a0; a1; a2; a3; a4; a5; a6; a7; a8; a9; a10; a11] ->
  let '(r, c) := gen_mul2_12 a0 a1 a2 a3 a4 a5 a6 a7 a8 a9 a10 a11 in
  wf r /\ length r = 12%nat /\ val r + Wn 12 * Z.b2z c = 2 * val [a0; a1; a2; a3; a4; a5; a6; a7; a8; a9; a10; a11].
Proof.
  intros Ha. rewrite gen_mul2_12_eq. apply (mul2_spec [a0; a1; a2; a3; a4; a5; a6; a7; a8; a9; a10; a11] Ha).
Qed.
Lemma gen_div2_12_spec a0 a1 a2 a3 a4 a5 a6 a7 a8 a9 a10 a11 :
  wf [a0; a1; a2; a3; a4; a5; a6; a7; a8; a9; a10; a11] ->
  wf (gen_div2_12 a0 a1 a2 a3 a4 a5 a6 a7 a8 a9 a10 a11) /\ length (gen_div2_12 a0 a1 a2 a3 a4 a5 a6 a7 a8 a9 a10 a11) = 12%nat /\ val (gen_div2_12 a0 a1 a2 a3 a4 a5 a6 a7 a8 a9 a10 a11) = val [a0; a1; a2; a3; a4; a5; a6; a7; a8; a9; a10; a11] / 2.
Proof.
  intros Ha. rewrite gen_div2_12_eq. apply (div2_spec [a0; a1; a2; a3; a4; a5; a6; a7; a8; a9; a10; a11] Ha).
Qed.
Lemma gen_cmp_12_spec a0 a1 a2 a3 a4 a5 a6 a7 a8 a9 a10 a11 b0 b1 b2 b3 b4 b5 b6 b7 b8 b9 b10 b11 :
  wf [a0; a1; a2; a3; a4; a5; a6; a7; a8; a9; a10; a11] -> wf [b0; b1; b2; b3; b4; b5; b6; b7; b8; b9; b10; b11] ->
  gen_cmp_12 a0 a1 a2 a3 a4 a5 a6 a7 a8 a9 a10 a11 b0 b1 b2 b3 b4 b5 b6 b7 b8 b9 b10 b11 = Z.compare (val [a0; a1; a2; a3; a4; a5; a6; a7; a8; a9; a10; a11]) (val [b0; b1; b2; b3; b4; b5; b6; b7; b8; b9; b10; b11]).
Proof.
  intros Ha Hb. rewrite gen_cmp_12_eq. apply (cmp_spec [a0; a1; a2; a3; a4; a5; a6; a7; a8; a9; a10; a11] [b0; b1; b2; b3; b4; b5; b6; b7; b8; b9; b10; b11] Ha Hb eq_refl).
Qed.
Lemma gen_is_zero_12_spec a0 a1 a2 a3 a4 a5 a6 a7 a8 a9 a10 a11 :
  wf [a0; a1; a2; a3; a4; a5; a6; a7; a8; a9; a10; a11] ->
  gen_is_zero_12 a0 a1 a2 a3 a4 a5 a6 a7 a8 a9 a10 a11 = (val [a0; a1; a2; a3; a4; a5; a6; a7; a8; a9; a10; a11] =? 0).
Proof.
  intros Ha. rewrite gen_is_zero_12_eq. apply (is_zero_spec [a0; a1; a2; a3; a4; a5; a6; a7; a8; a9; a10; a11] Ha).
Qed.
Lemma gen_mul_1_spec a0 b0 :
  wf [a0] -> wf [b0] ->
  let '(lo, hi) := gen_mul_1 a0 b0 in
  wf lo /\ wf hi /\ length lo = 1%nat /\ length hi = 1%nat /\ val lo + Wn 1 * val hi = val [a0] * val [b0].
Proof.
  intros Ha Hb. rewrite gen_mul_1_eq. apply (mul_spec [a0] [b0] Ha Hb eq_refl).
Qed.
Lemma gen_mul_low_1_spec a0 b0 :
  wf [a0] -> wf [b0] ->
  val (gen_mul_low_1 a0 b0) = (val [a0] * val [b0]) mod Wn 1.
Proof.
  intros Ha Hb. rewrite gen_mul_low_1_eq. apply (mul_low_spec [a0] [b0] Ha Hb eq_refl).
Qed.
Lemma gen_mul_high_1_spec a0 b0 :
  wf [a0] -> wf [b0] ->
  val (gen_mul_high_1 a0 b0) = (val [a0] * val [b0]) / Wn 1.
Proof.
  intros Ha Hb. rewrite gen_mul_high_1_eq. apply (mul_high_spec [a0] [b0] Ha Hb eq_refl).
Qed.
Lemma gen_mul_2_spec a0 a1 b0 b1 :
  wf [a0; a1] -> wf [b0; b1] ->
  let '(lo, hi) := gen_mul_2 a0 a1 b0 b1 in
  wf lo /\ wf hi /\ length lo = 2%nat /\ length hi = 2%nat /\ val lo + Wn 2 * val hi = val [a0; a1] * val [b0; b1].
Proof.
  intros Ha Hb. rewrite gen_mul_2_eq. apply (mul_spec [a0; a1] [b0; b1] Ha Hb eq_refl).
Qed.
Lemma gen_mul_low_2_spec a0 a1 b0 b1 :
  wf [a0; a1] -> wf [b0; b1] ->
  val (gen_mul_low_2 a0 a1 b0 b1) = (val [a0; a1] * val [b0; b1]) mod Wn 2.
Proof.
  intros Ha Hb. rewrite gen_mul_low_2_eq. apply (mul_low_spec [a0; a1] [b0; b1] Ha Hb eq_refl).
Qed.
Lemma gen_mul_high_2_spec a0 a1 b0 b1 :
  wf [a0; a1] -> wf [b0; b1] ->
  val (gen_mul_high_2 a0 a1 b0 b1) = (val [a0; a1] * val [b0; b1]) / Wn 2.
Proof.
  intros Ha Hb. rewrite gen_mul_high_2_eq. apply (mul_high_spec [a0; a1] [b0; b1] Ha Hb eq_refl).
Qed.
Lemma gen_mul_3_spec a0 a1 a2 b0 b1 b2 :
  wf [a0; a1; a2] -> wf [b0; b1; b2] ->
  let '(lo, hi) := gen_mul_3 a0 a1 a2 b0 b1 b2 in
  wf lo /\ wf hi /\ length lo = 3%nat /\ length hi = 3%nat /\ val lo + Wn 3 * val hi = val [a0; a1; a2] * val [b0; b1; b2].
Proof.
  intros Ha Hb. rewrite gen_mul_3_eq. apply (mul_spec [a0; a1; a2] [b0; b1; b2] Ha Hb eq_refl).
Qed.
Lemma gen_mul_low_3_spec a0 a1 a2 b0 b1 b2 :
  wf [a0; a1; a2] -> wf [b0; b1; b2] ->
  val (gen_mul_low_3 a0 a1 a2 b0 b1 b2) = (val [a0; a1; a2] * val [b0; b1; b2]) mod Wn 3.
Proof.
  intros Ha Hb. rewrite gen_mul_low_3_eq. apply (mul_low_spec [a0; a1; a2] [b0; b1; b2] Ha Hb eq_refl).
Qed.
Lemma gen_mul_high_3_spec a0 a1 a2 b0 b1 b2 :
  wf [a0; a1; a2] -> wf [b0; b1; b2] ->
  val (gen_mul_high_3 a0 a1 a2 b0 b1 b2) = (val [a0; a1; a2] * val [b0; b1; b2]) / Wn 3.
Proof.
  intros Ha Hb. rewrite gen_mul_high_3_eq. apply (mul_high_spec [a0; a1; a2] [b0; b1; b2] Ha Hb eq_refl).
Qed.
Lemma gen_mul_4_spec a0 a1 a2 a3 b0 b1 b2 b3 :
  wf [a0; a1; a2; a3] -> wf [b0; b1; b2; b3] ->
  let '(lo, hi) := gen_mul_4 a0 a1 a2 a3 b0 b1 b2 b3 in
  wf lo /\ wf hi /\ length lo = 4%nat /\ length hi = 4%nat /\ val lo + Wn 4 * val hi = val [a0; a1; a2; a3] * val [b0; b1; b2; b3].
Proof.
  intros Ha Hb. rewrite gen_mul_4_eq. apply (mul_spec [a0; a1; a2; a3] [b0; b1; b2; b3] Ha Hb eq_refl).
Qed.
Lemma gen_mul_low_4_spec a0 a1 a2 a3 b0 b1 b2 b3 :
  wf [a0; a1; a2; a3] -> wf [b0; b1; b2; b3] ->
  val (gen_mul_low_4 a0 a1 a2 a3 b0 b1 b2 b3) = (val [a0; a1; a2; a3] * val [b0; b1; b2; b3]) mod Wn 4.
Proof.
  intros Ha Hb. rewrite gen_mul_low_4_eq. apply (mul_low_spec [a0; a1; a2; a3] [b0; b1; b2; b3] Ha Hb eq_refl).
Qed.
Lemma gen_mul_high_4_spec a0 a1 a2 a3 b0 b1 b2 b3 :
  wf [a0; a1; a2; a3] -> wf [b0; b1; b2; b3] ->
  val (gen_mul_high_4 a0 a1 a2 a3 b0 b1 b2 b3) = (val [a0; a1; a2; a3] * val [b0; b1; b2; b3]) / Wn 4.
Proof.
  intros Ha Hb. rewrite gen_mul_high_4_eq. apply (mul_high_spec [a0; a1; a2; a3] [b0; b1; b2; b3] Ha Hb eq_refl).
Qed.
Lemma gen_mul_6_spec a0 a1 a2 a3 a4 a5 b0 b1 b2 b3 b4 b5 :
  wf [a0; a1; a2; a3; a4; a5] -> wf [b0; b1; b2; b3; b4; b5] ->
  let '(lo, hi) := gen_mul_6 a0 a1 a2 a3 a4 a5 b0 b1 b2 b3 b4 b5 in
  wf lo /\ wf hi /\ length lo = 6%nat /\ length hi = 6%nat /\ val lo + Wn 6 * val hi = val [a0; a1; a2; a3; a4; a5] * val [b0; b1; b2; b3; b4; b5].
Proof.
  intros Ha Hb. rewrite gen_mul_6_eq. apply (mul_spec [a0; a1; a2; a3; a4; a5] [b0; b1; b2; b3; b4; b5] Ha Hb eq_refl).
Qed.
Lemma gen_mul_low_6_spec a0 a1 a2 a3 a4 a5 b0 b1 b2 b3 b4 b5 :
  wf [a0; a1; a2; a3; a4; a5] -> wf [b0; b1; b2; b3; b4; b5] ->
  val (gen_mul_low_6 a0 a1 a2 a3 a4 a5 b0 b1 b2 b3 b4 b5) = (val [a0; a1; a2; a3; a4; a5] * val [b0; b1; b2; b3; b4; b5]) mod Wn 6.
Proof.
  intros Ha Hb. rewrite gen_mul_low_6_eq. apply (mul_low_spec [a0; a1; a2; a3; a4; a5] [b0; b1; b2; b3; b4; b5] Ha Hb eq_refl).
Qed.
Lemma gen_mul_high_6_spec a0 a1 a2 a3 a4 a5 b0 b1 b2 b3 b4 b5 :
  wf [a0; a1; a2; a3; a4; a5] -> wf [b0; b1; b2; b3; b4; b5] ->
  val (gen_mul_high_6 a0 a1 a2 a3 a4 a5 b0 b1 b2 b3 b4 b5) = (val [a0; a1; a2; a3; a4; a5] * val [b0; b1; b2; b3; b4; b5]) / Wn 6.
Proof.
  intros Ha Hb. rewrite gen_mul_high_6_eq. apply (mul_high_spec [a0; a1; a2; a3; a4; a5] [b0; b1; b2; b3; b4; b5] Ha Hb eq_refl).
Qed.
Lemma gen_mont_add_assign_1_spec m0 a0 b0 :
  wf [m0] -> wf [a0] -> wf [b0] -> val [a0] < val [m0] -> val [b0] < val [m0] ->
  let r := gen_mont_add_assign_1 (has_spare_bit [m0]) m0 a0 b0 in
  wf r /\ length r = 1%nat /\ val r < val [m0] /\ val r = (val [a0] + val [b0]) mod val [m0].
Proof.
  intros Hm Ha Hb Hx Hy. rewrite gen_mont_add_assign_1_eq. apply (add_assign_spec [m0] [a0] [b0]); auto; discriminate.
Qed.
Lemma gen_mont_sub_assign_1_spec m0 a0 b0 :
  wf [m0] -> wf [a0] -> wf [b0] -> val [a0] < val [m0] -> val [b0] < val [m0] ->
  let r := gen_mont_sub_assign_1 m0 a0 b0 in
  wf r /\ length r = 1%nat /\ val r < val [m0] /\ val r = (val [a0] - val [b0]) mod val [m0].
Proof.
  intros Hm Ha Hb Hx Hy. rewrite gen_mont_sub_assign_1_eq. apply (sub_assign_spec [m0] [a0] [b0]); auto.
Qed.
Lemma gen_mont_double_in_place_1_spec m0 a0 :
  wf [m0] -> wf [a0] -> val [a0] < val [m0] ->
  let r := gen_mont_double_in_place_1 (has_spare_bit [m0]) m0 a0 in
  wf r /\ length r = 1%nat /\ val r < val [m0] /\ val r = (2 * val [a0]) mod val [m0].
Proof.
  intros Hm Ha Hx. rewrite gen_mont_double_in_place_1_eq. apply (double_in_place_spec [m0] [a0]); auto; discriminate.
Qed.
Lemma gen_mont_neg_in_place_1_spec m0 a0 :
  wf [m0] -> wf [a0] -> val [a0] < val [m0] ->
  let r := gen_mont_neg_in_place_1 m0 a0 in
  wf r /\ length r = 1%nat /\ val r < val [m0] /\ val r = (- val [a0]) mod val [m0].
Proof.
  intros Hm Ha Hx. rewrite gen_mont_neg_in_place_1_eq. apply (neg_in_place_spec [m0] [a0]); auto.
Qed.
Lemma gen_mont_mul_assign_1_spec m0 a0 b0 :
  wf [m0] -> wf [a0] -> wf [b0] -> val [m0] mod 2 = 1 -> val [a0] < val [m0] -> val [b0] < val [m0] ->
  let r := gen_mont_mul_assign_1 (nocarry_trait [m0]) (has_spare_bit [m0]) (inv_of [m0]) m0 a0 b0 in
  wf r /\ length r = 1%nat /\ val r < val [m0] /\ (val r * Wn 1) mod val [m0] = (val [a0] * val [b0]) mod val [m0].
Proof.
  intros Hm Ha Hb Ho Hx Hy. rewrite gen_mont_mul_assign_1_eq, mul_assign_w_eq by auto. apply (mul_assign_spec false [m0] [a0] [b0]); auto.
Qed.
Lemma gen_mont_square_in_place_1_spec can_sq m0 a0 :
  wf [m0] -> wf [a0] -> val [m0] mod 2 = 1 -> val [a0] < val [m0] ->
  let r := gen_mont_square_in_place_1 (nocarry_trait [m0]) can_sq (has_spare_bit [m0]) (inv_of [m0]) m0 a0 in
  wf r /\ length r = 1%nat /\ val r < val [m0] /\ (val r * Wn 1) mod val [m0] = (val [a0] * val [a0]) mod val [m0].
Proof.
  intros Hm Ha Ho Hx. rewrite gen_mont_square_in_place_1_eq, mul_assign_w_eq by auto. apply (mul_assign_spec false [m0] [a0] [a0]); auto.
Qed.
Lemma gen_mont_into_bigint_1_spec m0 a0 :
  wf [m0] -> wf [a0] -> val [m0] mod 2 = 1 -> val [a0] < val [m0] ->
  let r := gen_mont_into_bigint_1 (inv_of [m0]) m0 a0 in
  wf r /\ length r = 1%nat /\ val r < val [m0] /\ (val r * Wn 1) mod val [m0] = val [a0] mod val [m0].
Proof.
  intros Hm Ha Ho Hx. rewrite gen_mont_into_bigint_1_eq. apply (into_bigint_spec [m0] [a0]); auto.
Qed.
Lemma gen_mont_from_bigint_1_spec m0 rr0 x0 :
  wf [m0] -> wf [x0] -> val [m0] mod 2 = 1 -> [rr0] = R2_of [m0] ->
  match gen_mont_from_bigint_1 (nocarry_trait [m0]) (has_spare_bit [m0]) (inv_of [m0]) m0 rr0 x0 with
  | None => val [m0] <= val [x0]
  | Some r => val [x0] < val [m0] /\ wf r /\ length r = 1%nat /\ val r < val [m0] /\ val r = (val [x0] * Wn 1) mod val [m0]
  end.
Proof.
  intros Hm Hx Ho Hr. assert (Hw : wf [rr0]) by (rewrite Hr; apply R2_of_spec; auto using odd_pos).
  rewrite gen_mont_from_bigint_1_eq, from_bigint_w_eq, Hr by auto. apply (from_bigint_spec false [m0] [x0]); auto.
Qed.
Lemma gen_mont_add_assign_2_spec m0 m1 a0 a1 b0 b1 :
  wf [m0; m1] -> wf [a0; a1] -> wf [b0; b1] -> val [a0; a1] < val [m0; m1] -> val [b0; b1] < val [m0; m1] ->
  let r := gen_mont_add_assign_2 (has_spare_bit [m0; m1]) m0 m1 a0 a1 b0 b1 in
  wf r /\ length r = 2%nat /\ val r < val [m0; m1] /\ val r = (val [a0; a1] + val [b0; b1]) mod val [m0; m1].
Proof.
  intros Hm Ha Hb Hx Hy. rewrite gen_mont_add_assign_2_eq. apply (add_assign_spec [m0; m1] [a0; a1] [b0; b1]); auto; discriminate.
Qed.
Lemma gen_mont_sub_assign_2_spec m0 m1 a0 a1 b0 b1 :
  wf [m0; m1] -> wf [a0; a1] -> wf [b0; b1] -> val [a0; a1] < val [m0; m1] -> val [b0; b1] < val [m0; m1] ->
  let r := gen_mont_sub_assign_2 m0 m1 a0 a1 b0 b1 in
  wf r /\ length r = 2%nat /\ val r < val [m0; m1] /\ val r = (val [a0; a1] - val [b0; b1]) mod val [m0; m1].
Proof.
  intros Hm Ha Hb Hx Hy. rewrite gen_mont_sub_assign_2_eq. apply (sub_assign_spec [m0; m1] [a0; a1] [b0; b1]); auto.
Qed.
Lemma gen_mont_double_in_place_2_spec m0 m1 a0 a1 :
  wf [m0; m1] -> wf [a0; a1] -> val [a0; a1] < val [m0; m1] ->
  let r := gen_mont_double_in_place_2 (has_spare_bit [m0; m1]) m0 m1 a0 a1 in
  wf r /\ length r = 2%nat /\ val r < val [m0; m1] /\ val r = (2 * val [a0; a1]) mod val [m0; m1].
Proof.
  intros Hm Ha Hx. rewrite gen_mont_double_in_place_2_eq. apply (double_in_place_spec [m0; m1] [a0; a1]); auto; discriminate.
Qed.
Lemma gen_mont_neg_in_place_2_spec m0 m1 a0 a1 :
  wf [m0; m1] -> wf [a0; a1] -> val [a0; a1] < val [m0; m1] ->
  let r := gen_mont_neg_in_place_2 m0 m1 a0 a1 in
  wf r /\ length r = 2%nat /\ val r < val [m0; m1] /\ val r = (- val [a0; a1]) mod val [m0; m1].
Proof.
  intros Hm Ha Hx. rewrite gen_mont_neg_in_place_2_eq. apply (neg_in_place_spec [m0; m1] [a0; a1]); auto.
Qed.
Lemma gen_mont_mul_assign_2_spec m0 m1 a0 a1 b0 b1 :
  wf [m0; m1] -> wf [a0; a1] -> wf [b0; b1] -> val [m0; m1] mod 2 = 1 -> val [a0; a1] < val [m0; m1] -> val [b0; b1] < val [m0; m1] ->
  let r := gen_mont_mul_assign_2 (nocarry_trait [m0; m1]) (has_spare_bit [m0; m1]) (inv_of [m0; m1]) m0 m1 a0 a1 b0 b1 in
  wf r /\ length r = 2%nat /\ val r < val [m0; m1] /\ (val r * Wn 2) mod val [m0; m1] = (val [a0; a1] * val [b0; b1]) mod val [m0; m1].
Proof.
  intros Hm Ha Hb Ho Hx Hy. rewrite gen_mont_mul_assign_2_eq, mul_assign_w_eq by auto. apply (mul_assign_spec false [m0; m1] [a0; a1] [b0; b1]); auto.
Qed.
Lemma gen_mont_square_in_place_2_spec can_nc can_sq m0 m1 a0 a1 :
  wf [m0; m1] -> wf [a0; a1] -> val [m0; m1] mod 2 = 1 -> val [a0; a1] < val [m0; m1] ->
  let r := gen_mont_square_in_place_2 can_nc can_sq (has_spare_bit [m0; m1]) (inv_of [m0; m1]) m0 m1 a0 a1 in
  wf r /\ length r = 2%nat /\ val r < val [m0; m1] /\ (val r * Wn 2) mod val [m0; m1] = (val [a0; a1] * val [a0; a1]) mod val [m0; m1].
Proof.
  intros Hm Ha Ho Hx. rewrite gen_mont_square_in_place_2_eq. apply (square_full_spec [m0; m1] [a0; a1]); auto.
Qed.
Lemma gen_mont_into_bigint_2_spec m0 m1 a0 a1 :
  wf [m0; m1] -> wf [a0; a1] -> val [m0; m1] mod 2 = 1 -> val [a0; a1] < val [m0; m1] ->
  let r := gen_mont_into_bigint_2 (inv_of [m0; m1]) m0 m1 a0 a1 in
  wf r /\ length r = 2%nat /\ val r < val [m0; m1] /\ (val r * Wn 2) mod val [m0; m1] = val [a0; a1] mod val [m0; m1].
Proof.
  intros Hm Ha Ho Hx. rewrite gen_mont_into_bigint_2_eq. apply (into_bigint_spec [m0; m1] [a0; a1]); auto.
Qed.
Lemma gen_mont_from_bigint_2_spec m0 m1 rr0 rr1 x0 x1 :
  wf [m0; m1] -> wf [x0; x1] -> val [m0; m1] mod 2 = 1 -> [rr0; rr1] = R2_of [m0; m1] ->
  match gen_mont_from_bigint_2 (nocarry_trait [m0; m1]) (has_spare_bit [m0; m1]) (inv_of [m0; m1]) m0 m1 rr0 rr1 x0 x1 with
  | None => val [m0; m1] <= val [x0; x1]
  | Some r => val [x0; x1] < val [m0; m1] /\ wf r /\ length r = 2%nat /\ val r < val [m0; m1] /\ val r = (val [x0; x1] * Wn 2) mod val [m0; m1]
  end.
Proof.
  intros Hm Hx Ho Hr. assert (Hw : wf [rr0; rr1]) by (rewrite Hr; apply R2_of_spec; auto using odd_pos).
  rewrite gen_mont_from_bigint_2_eq, from_bigint_w_eq, Hr by auto. apply (from_bigint_spec false [m0; m1] [x0; x1]); auto.
Qed.
Lemma gen_mont_add_assign_4_spec m0 m1 m2 m3 a0 a1 a2 a3 b0 b1 b2 b3 :
  wf [m0; m1; m2; m3] -> wf [a0; a1; a2; a3] -> wf [b0; b1; b2; b3] -> val [a0; a1; a2; a3] < val [m0; m1; m2; m3] -> val [b0; b1; b2; b3] < val [m0; m1; m2; m3] ->
  let r := gen_mont_add_assign_4 (has_spare_bit [m0; m1; m2; m3]) m0 m1 m2 m3 a0 a1 a2 a3 b0 b1 b2 b3 in
  wf r /\ length r = 4%nat /\ val r < val [m0; m1; m2; m3] /\ val r = (val [a0; a1; a2; a3] + val [b0; b1; b2; b3]) mod val [m0; m1; m2; m3].
Proof.
  intros Hm Ha Hb Hx Hy. rewrite gen_mont_add_assign_4_eq. apply (add_assign_spec [m0; m1; m2; m3] [a0; a1; a2; a3] [b0; b1; b2; b3]); auto; discriminate.
Qed.
Lemma gen_mont_sub_assign_4_spec m0 m1 m2 m3 a0 a1 a2 a3 b0 b1 b2 b3 :
  wf [m0; m1; m2; m3] -> wf [a0; a1; a2; a3] -> wf [b0; b1; b2; b3] -> val [a0; a1; a2; a3] < val [m0; m1; m2; m3] -> val [b0; b1; b2; b3] < val [m0; m1; m2; m3] ->
  let r := gen_mont_sub_assign_4 m0 m1 m2 m3 a0 a1 a2 a3 b0 b1 b2 b3 in
  wf r /\ length r = 4%nat /\ val r < val [m0; m1; m2; m3] /\ val r = (val [a0; a1; a2; a3] - val [b0; b1; b2; b3]) mod val [m0; m1; m2; m3].
Proof.
  intros Hm Ha Hb Hx Hy. rewrite gen_mont_sub_assign_4_eq. apply (sub_assign_spec [m0; m1; m2; m3] [a0; a1; a2; a3] [b0; b1; b2; b3]); auto.
Qed.
Lemma gen_mont_double_in_place_4_spec m0 m1 m2 m3 a0 a1 a2 a3 :
  wf [m0; m1; m2; m3] -> wf [a0; a1; a2; a3] -> val [a0; a1; a2; a3] < val [m0; m1; m2; m3] ->
  let r := gen_mont_double_in_place_4 (has_spare_bit [m0; m1; m2; m3]) m0 m1 m2 m3 a0 a1 a2 a3 in
  wf r /\ length r = 4%nat /\ val r < val [m0; m1; m2; m3] /\ val r = (2 * val [a0; a1; a2; a3]) mod val [m0; m1; m2; m3].
Proof.
  intros Hm Ha Hx. rewrite gen_mont_double_in_place_4_eq. apply (double_in_place_spec [m0; m1; m2; m3] [a0; a1; a2; a3]); auto; discriminate.
Qed.
Lemma gen_mont_neg_in_place_4_spec m0 m1 m2 m3 a0 a1 a2 a3 :
  wf [m0; m1; m2; m3] -> wf [a0; a1; a2; a3] -> val [a0; a1; a2; a3] < val [m0; m1; m2; m3] ->
  let r := gen_mont_neg_in_place_4 m0 m1 m2 m3 a0 a1 a2 a3 in
  wf r /\ length r = 4%nat /\ val r < val [m0; m1; m2; m3] /\ val r = (- val [a0; a1; a2; a3]) mod val [m0; m1; m2; m3].
Proof.
  intros Hm Ha Hx. rewrite gen_mont_neg_in_place_4_eq. apply (neg_in_place_spec [m0; m1; m2; m3] [a0; a1; a2; a3]); auto.
Qed.
Lemma gen_mont_mul_assign_4_spec m0 m1 m2 m3 a0 a1 a2 a3 b0 b1 b2 b3 :
  wf [m0; m1; m2; m3] -> wf [a0; a1; a2; a3] -> wf [b0; b1; b2; b3] -> val [m0; m1; m2; m3] mod 2 = 1 -> val [a0; a1; a2; a3] < val [m0; m1; m2; m3] -> val [b0; b1; b2; b3] < val [m0; m1; m2; m3] ->
  let r := gen_mont_mul_assign_4 (nocarry_trait [m0; m1; m2; m3]) (has_spare_bit [m0; m1; m2; m3]) (inv_of [m0; m1; m2; m3]) m0 m1 m2 m3 a0 a1 a2 a3 b0 b1 b2 b3 in
  wf r /\ length r = 4%nat /\ val r < val [m0; m1; m2; m3] /\ (val r * Wn 4) mod val [m0; m1; m2; m3] = (val [a0; a1; a2; a3] * val [b0; b1; b2; b3]) mod val [m0; m1; m2; m3].
Proof.
  intros Hm Ha Hb Ho Hx Hy. rewrite gen_mont_mul_assign_4_eq, mul_assign_w_eq by auto. apply (mul_assign_spec false [m0; m1; m2; m3] [a0; a1; a2; a3] [b0; b1; b2; b3]); auto.
Qed.
Lemma gen_mont_square_in_place_4_spec can_nc can_sq m0 m1 m2 m3 a0 a1 a2 a3 :
  wf [m0; m1; m2; m3] -> wf [a0; a1; a2; a3] -> val [m0; m1; m2; m3] mod 2 = 1 -> val [a0; a1; a2; a3] < val [m0; m1; m2; m3] ->
  let r := gen_mont_square_in_place_4 can_nc can_sq (has_spare_bit [m0; m1; m2; m3]) (inv_of [m0; m1; m2; m3]) m0 m1 m2 m3 a0 a1 a2 a3 in
  wf r /\ length r = 4%nat /\ val r < val [m0; m1; m2; m3] /\ (val r * Wn 4) mod val [m0; m1; m2; m3] = (val [a0; a1; a2; a3] * val [a0; a1; a2; a3]) mod val [m0; m1; m2; m3].
Proof.
  intros Hm Ha Ho Hx. rewrite gen_mont_square_in_place_4_eq. apply (square_full_spec [m0; m1; m2; m3] [a0; a1; a2; a3]); auto.
Qed.
Lemma gen_mont_into_bigint_4_spec m0 m1 m2 m3 a0 a1 a2 a3 :
  wf [m0; m1; m2; m3] -> wf [a0; a1; a2; a3] -> val [m0; m1; m2; m3] mod 2 = 1 -> val [a0; a1; a2; a3] < val [m0; m1; m2; m3] ->
  let r := gen_mont_into_bigint_4 (inv_of [m0; m1; m2; m3]) m0 m1 m2 m3 a0 a1 a2 a3 in
  wf r /\ length r = 4%nat /\ val r < val [m0; m1; m2; m3] /\ (val r * Wn 4) mod val [m0; m1; m2; m3] = val [a0; a1; a2; a3] mod val [m0; m1; m2; m3].
Proof.
  intros Hm Ha Ho Hx. rewrite gen_mont_into_bigint_4_eq. apply (into_bigint_spec [m0; m1; m2; m3] [a0; a1; a2; a3]); auto.
Qed.
Lemma gen_mont_from_bigint_4_spec m0 m1 m2 m3 rr0 rr1 rr2 rr3 x0 x1 x2 x3 :
  wf [m0; m1; m2; m3] -> wf [x0; x1; x2; x3] -> val [m0; m1; m2; m3] mod 2 = 1 -> [rr0; rr1; rr2; rr3] = R2_of [m0; m1; m2; m3] ->
  match gen_mont_from_bigint_4 (nocarry_trait [m0; m1; m2; m3]) (has_spare_bit [m0; m1; m2; m3]) (inv_of [m0; m1; m2; m3]) m0 m1 m2 m3 rr0 rr1 rr2 rr3 x0 x1 x2 x3 with
  | None => val [m0; m1; m2; m3] <= val [x0; x1; x2; x3]
  | Some r => val [x0; x1; x2; x3] < val [m0; m1; m2; m3] /\ wf r /\ length r = 4%nat /\ val r < val [m0; m1; m2; m3] /\ val r = (val [x0; x1; x2; x3] * Wn 4) mod val [m0; m1; m2; m3]
  end.
Proof.
  intros Hm Hx Ho Hr. assert (Hw : wf [rr0; rr1; rr2; rr3]) by (rewrite Hr; apply R2_of_spec; auto using odd_pos).
  rewrite gen_mont_from_bigint_4_eq, from_bigint_w_eq, Hr by auto. apply (from_bigint_spec false [m0; m1; m2; m3] [x0; x1; x2; x3]); auto.
Qed.
Lemma gen_mont_add_assign_6_spec m0 m1 m2 m3 m4 m5 a0 a1 a2 a3 a4 a5 b0 b1 b2 b3 b4 b5 :
  wf [m0; m1; m2; m3; m4; m5] -> wf [a0; a1; a2; a3; a4; a5] -> wf [b0; b1; b2; b3; b4; b5] -> val [a0; a1; a2; a3; a4; a5] < val [m0; m1; m2; m3; m4; m5] -> val [b0; b1; b2; b3; b4; b5] < val [m0; m1; m2; m3; m4; m5] ->
  let r := gen_mont_add_assign_6 (has_spare_bit [m0; m1; m2; m3; m4; m5]) m0 m1 m2 m3 m4 m5 a0 a1 a2 a3 a4 a5 b0 b1 b2 b3 b4 b5 in
  wf r /\ length r = 6%nat /\ val r < val [m0; m1; m2; m3; m4; m5] /\ val r = (val [a0; a1; a2; a3; a4; a5] + val [b0; b1; b2; b3; b4; b5]) mod val [m0; m1; m2; m3; m4; m5].
Proof.
  intros Hm Ha Hb Hx Hy. rewrite gen_mont_add_assign_6_eq. apply (add_assign_spec [m0; m1; m2; m3; m4; m5] [a0; a1; a2; a3; a4; a5] [b0; b1; b2; b3; b4; b5]); auto; discriminate.
Qed.
Lemma gen_mont_sub_assign_6_spec m0 m1 m2 m3 m4 m5 a0 a1 a2 a3 a4 a5 b0 b1 b2 b3 b4 b5 :
  wf [m0; m1; m2; m3; m4; m5] -> wf [a0; a1; a2; a3; a4; a5] -> wf [b0; b1; b2; b3; b4; b5] -> val [a0; a1; a2; a3; a4; a5] < val [m0; m1; m2; m3; m4; m5] -> val [b0; b1; b2; b3; b4; b5] < val [m0; m1; m2; m3; m4; m5] ->
  let r := gen_mont_sub_assign_6 m0 m1 m2 m3 m4 m5 a0 a1 a2 a3 a4 a5 b0 b1 b2 b3 b4 b5 in
  wf r /\ length r = 6%nat /\ val r < val [m0; m1; m2; m3; m4; m5] /\ val r = (val [a0; a1; a2; a3; a4; a5] - val [b0; b1; b2; b3; b4; b5]) mod val [m0; m1; m2; m3; m4; m5].
Proof.
  intros Hm Ha Hb Hx Hy. rewrite gen_mont_sub_assign_6_eq. apply (sub_assign_spec [m0; m1; m2; m3; m4; m5] [a0; a1; a2; a3; a4; a5] [b0; b1; b2; b3; b4; b5]); auto.
Qed.
Lemma gen_mont_double_in_place_6_spec m0 m1 m2 m3 m4 m5 a0 a1 a2 a3 a4 a5 :
  wf [m0; m1; m2; m3; m4; m5] -> wf [a0; a1; a2; a3; a4; a5] -> val [a0; a1; a2; a3; a4; a5] < val [m0; m1; m2; m3; m4; m5] ->
  let r := gen_mont_double_in_place_6 (has_spare_bit [m0; m1; m2; m3; m4; m5]) m0 m1 m2 m3 m4 m5 a0 a1 a2 a3 a4 a5 in
  wf r /\ length r = 6%nat /\ val r < val [m0; m1; m2; m3; m4; m5] /\ val r = (2 * val [a0; a1; a2; a3; a4; a5]) mod val [m0; m1; m2; m3; m4; m5].
Proof.
  intros Hm Ha Hx. rewrite gen_mont_double_in_place_6_eq. apply (double_in_place_spec [m0; m1; m2; m3; m4; m5] [a0; a1; a2; a3; a4; a5]); auto; discriminate.
Qed.
Lemma gen_mont_neg_in_place_6_spec m0 m1 m2 m3 m4 m5 a0 a1 a2 a3 a4 a5 :
  wf [m0; m1; m2; m3; m4; m5] -> wf [a0; a1; a2; a3; a4; a5] -> val [a0; a1; a2; a3; a4; a5] < val [m0; m1; m2; m3; m4; m5] ->
  let r := gen_mont_neg_in_place_6 m0 m1 m2 m3 m4 m5 a0 a1 a2 a3 a4 a5 in
  wf r /\ length r = 6%nat /\ val r < val [m0; m1; m2; m3; m4; m5] /\ val r = (- val [a0; a1; a2; a3; a4; a5]) mod val [m0; m1; m2; m3; m4; m5].
Proof.
  intros Hm Ha Hx. rewrite gen_mont_neg_in_place_6_eq. apply (neg_in_place_spec [m0; m1; m2; m3; m4; m5] [a0; a1; a2; a3; a4; a5]); auto.
Qed.
Lemma gen_mont_mul_assign_6_spec m0 m1 m2 m3 m4 m5 a0 a1 a2 a3 a4 a5 b0 b1 b2 b3 b4 b5 :
  wf [m0; m1; m2; m3; m4; m5] -> wf [a0; a1; a2; a3; a4; a5] -> wf [b0; b1; b2; b3; b4; b5] -> val [m0; m1; m2; m3; m4; m5] mod 2 = 1 -> val [a0; a1; a2; a3; a4; a5] < val [m0; m1; m2; m3; m4; m5] -> val [b0; b1; b2; b3; b4; b5] < val [m0; m1; m2; m3; m4; m5] ->
  let r := gen_mont_mul_assign_6 (nocarry_trait [m0; m1; m2; m3; m4; m5]) (has_spare_bit [m0; m1; m2; m3; m4; m5]) (inv_of [m0; m1; m2; m3; m4; m5]) m0 m1 m2 m3 m4 m5 a0 a1 a2 a3 a4 a5 b0 b1 b2 b3 b4 b5 in
  wf r /\ length r = 6%nat /\ val r < val [m0; m1; m2; m3; m4; m5] /\ (val r * Wn 6) mod val [m0; m1; m2; m3; m4; m5] = (val [a0; a1; a2; a3; a4; a5] * val [b0; b1; b2; b3; b4; b5]) mod val [m0; m1; m2; m3; m4; m5].
Proof.
  intros Hm Ha Hb Ho Hx Hy. rewrite gen_mont_mul_assign_6_eq, mul_assign_w_eq by auto. apply (mul_assign_spec false [m0; m1; m2; m3; m4; m5] [a0; a1; a2; a3; a4; a5] [b0; b1; b2; b3; b4; b5]); auto.
Qed.
Lemma gen_mont_square_in_place_6_spec can_nc can_sq m0 m1 m2 m3 m4 m5 a0 a1 a2 a3 a4 a5 :
  wf [m0; m1; m2; m3; m4; m5] -> wf [a0; a1; a2; a3; a4; a5] -> val [m0; m1; m2; m3; m4; m5] mod 2 = 1 -> val [a0; a1; a2; a3; a4; a5] < val [m0; m1; m2; m3; m4; m5] ->
  let r := gen_mont_square_in_place_6 can_nc can_sq (has_spare_bit [m0; m1; m2; m3; m4; m5]) (inv_of [m0; m1; m2; m3; m4; m5]) m0 m1 m2 m3 m4 m5 a0 a1 a2 a3 a4 a5 in
  wf r /\ length r = 6%nat /\ val r < val [m0; m1; m2; m3; m4; m5] /\ (val r * Wn 6) mod val [m0; m1; m2; m3; m4; m5] = (val [a0; a1; a2; a3; a4; a5] * val [a0; a1; a2; a3; a4; a5]) mod val [m0; m1; m2; m3; m4; m5].
Proof.
  intros Hm Ha Ho Hx. rewrite gen_mont_square_in_place_6_eq. apply (square_full_spec [m0; m1; m2; m3; m4; m5] [a0; a1; a2; a3; a4; a5]); auto.
Qed.
Lemma gen_mont_into_bigint_6_spec m0 m1 m2 m3 m4 m5 a0 a1 a2 a3 a4 a5 :
  wf [m0; m1; m2; m3; m4; m5] -> wf [a0; a1; a2; a3; a4; a5] -> val [m0; m1; m2; m3; m4; m5] mod 2 = 1 -> val [a0; a1; a2; a3; a4; a5] < val [m0; m1; m2; m3; m4; m5] ->
  let r := gen_mont_into_bigint_6 (inv_of [m0; m1; m2; m3; m4; m5]) m0 m1 m2 m3 m4 m5 a0 a1 a2 a3 a4 a5 in
  wf r /\ length r = 6%nat /\ val r < val [m0; m1; m2; m3; m4; m5] /\ (val r * Wn 6) mod val [m0; m1; m2; m3; m4; m5] = val [a0; a1; a2; a3; a4; a5] mod val [m0; m1; m2; m3; m4; m5].
Proof.
  intros Hm Ha Ho Hx. rewrite gen_mont_into_bigint_6_eq. apply (into_bigint_spec [m0; m1; m2; m3; m4; m5] [a0; a1; a2; a3; a4; a5]); auto.
Qed.
Lemma gen_mont_from_bigint_6_spec m0 m1 m2 m3 m4 m5 rr0 rr1 rr2 rr3 rr4 rr5 x0 x1 x2 x3 x4 x5 :
  wf [m0; m1; m2; m3; m4; m5] -> wf [x0; x1; x2; x3; x4; x5] -> val [m0; m1; m2; m3; m4; m5] mod 2 = 1 -> [rr0; rr1; rr2; rr3; rr4; rr5] = R2_of [m0; m1; m2; m3; m4; m5] ->
  match gen_mont_from_bigint_6 (nocarry_trait [m0; m1; m2; m3; m4; m5]) (has_spare_bit [m0; m1; m2; m3; m4; m5]) (inv_of [m0; m1; m2; m3; m4; m5]) m0 m1 m2 m3 m4 m5 rr0 rr1 rr2 rr3 rr4 rr5 x0 x1 x2 x3 x4 x5 with
  | None => val [m0; m1; m2; m3; m4; m5] <= val [x0; x1; x2; x3; x4; x5]
  | Some r => val [x0; x1; x2; x3; x4; x5] < val [m0; m1; m2; m3; m4; m5] /\ wf r /\ length r = 6%nat /\ val r < val [m0; m1; m2; m3; m4; m5] /\ val r = (val [x0; x1; x2; x3; x4; x5] * Wn 6) mod val [m0; m1; m2; m3; m4; m5]
  end.
Proof.
  intros Hm Hx Ho Hr. assert (Hw : wf [rr0; rr1; rr2; rr3; rr4; rr5]) by (rewrite Hr; apply R2_of_spec; auto using odd_pos).
  rewrite gen_mont_from_bigint_6_eq, from_bigint_w_eq, Hr by auto. apply (from_bigint_spec false [m0; m1; m2; m3; m4; m5] [x0; x1; x2; x3; x4; x5]); auto.
Qed.
