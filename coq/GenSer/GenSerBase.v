(* GenSer -- the few definitions the GENERATED file coq/GenSer/GenSer.v (lib/xlate_serde.py) is written with.
   Model side only (no proofs here).  A value of a derived struct is the right-nested tuple of its fields in declaration
   order (C18.Codec: TStruct (TPair t0 (TPair t1 (.. TUnit))), VPair f0 (VPair f1 (.. VUnit))); tuple-typed fields are again
   such tuples. *)
From V Require Import Base.Word C18.Codec.

(* identity marker around the NON-tuple field types of a generated descriptor: the derive macros recurse through tuple
   syntax and stop at everything else, so the proofs unfold enc / dec / .. along the TPair spine and stop at [leaf] *)
Definition leaf (t : ty) : ty := t.

(* `.i` on a tuple value / the i-th field of a struct value (VUnit when there is no such component) *)
Fixpoint tnth (i : nat) (v : value) : value :=
  match v with
  | VPair a b => match i with O => a | S j => tnth j b end
  | _ => VUnit
  end.

(* Valid::batch_check over the values an iterator yields: C18 models every batch_check as "all check" *)
Definition batch_check (t : ty) (l : list value) : bool := forallb (check t) l.

(* v has the tuple spine of t: a VPair wherever t has a TPair (weaker than [wt t v], which also constrains the leaves) *)
Fixpoint spine (t : ty) (v : value) {struct t} : Prop :=
  match t with
  | TPair a b => match v with VPair y z => spine a y /\ spine b z | _ => False end
  | TStruct t' => spine t' v
  | _ => True
  end.
