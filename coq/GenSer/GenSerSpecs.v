(* GenSer -- lemmas about the definitions that lib/xlate_serde.py re-generates from the macro expansion of
   #[derive(CanonicalSerialize, CanonicalDeserialize)] on every check run (coq/GenSer/GenSer.v: one definition per
   (struct of lib/expand_serde_crate, generated function)).

   Part 1: tactics.  Every `_eq` lemma unfolds the C18 model (enc / size / dec / check of the descriptor `gen_S_ty`,
   i.e. of `TStruct <fields as a tuple>`) along the TPair spine only -- the non-tuple field types sit under the identity
   marker [leaf] and stay folded -- and compares with the generated definition: same leaf calls, same order, same
   projections, same mode arguments.  Lists are compared up to associativity of `++`, sizes by `lia`, validity
   conjunctions by `btauto`, decoders by running both sides through the same sequence of leaf results.
   Part 2: composition lemmas (generic in the struct): what the C18 theorems say about functions that satisfy the `_eq`
   statements.
   Part 3 (per struct S; statements are hand-written, the proofs are the tactics of part 1):
     gen_S_ty_val            the descriptor computed from the declaration is the expected literal
     gen_S_{enc,size,check,batch_check,dec}_eq
                             generated function = C18 model of the derived struct, for ALL values with the tuple spine
                             of S (implied by [wt]) / all lists of such values and every size hint / ALL byte strings
     gen_S_roundtrip, gen_S_size_exact, gen_S_decode_validates, gen_S_dec_total, gen_S_truncation, gen_S_batch_check_spec
                             the C18 theorems restated for the generated functions
   A struct added to lib/expand_serde_crate/src/lib.rs needs one stanza here and its pins in Props/GenSer.v. *)
From Coq Require Import Btauto Lia.
From V Require Import Base.Word C18.Codec C18.CodecProofs C18.CodecLaws C18.Validate GenSer.GenSerBase GenSer.GenSer.
Local Open Scope bool_scope.

(* ================= part 1: spine facts and tactics ================= *)
Lemma wt_spine : forall t v, wt t v -> spine t v.
Proof.
  induction t; intros v H; cbn [spine wt] in *; auto.
  destruct v; try contradiction. destruct H; split; auto.
Qed.

Lemma dec_spine : forall t c vl bs v r, dec c vl t bs = Ok (v, r) -> spine t v.
Proof.
  induction t; intros c0 vl0 bs v r H; cbn [spine]; auto.
  - cbn [dec] in H. destruct (dec c0 vl0 t1 bs) as [[y r1]| |] eqn:E1; cbn [bind fst snd] in H; try discriminate.
    destruct (dec c0 vl0 t2 r1) as [[z r2]| |] eqn:E2; cbn [bind fst snd] in H; try discriminate.
    inversion H; subst. split; eauto.
  - cbn [dec] in H. eauto.
Qed.

Lemma forallb_ext_Forall {A} (f g : A -> bool) (P : A -> Prop) l :
  (forall x, P x -> f x = g x) -> Forall P l -> forallb f l = forallb g l.
Proof. intros E H. induction H as [|x l Hx _ IH]; cbn [forallb]; [reflexivity|]. rewrite (E x Hx), IH. reflexivity. Qed.

(* take a value apart along the spine hypothesis H : spine <descriptor with its TPair spine visible> v *)
Ltac dspine H :=
  cbn [spine] in H;
  lazymatch type of H with
  | match ?v with _ => _ end => destruct v; try (exact (False_ind _ H)); dspine H
  | _ /\ _ => let H1 := fresh "Hs" in let H2 := fresh "Hs" in destruct H as [H1 H2]; dspine H1; dspine H2
  | _ => idtac
  end.

(* T = the constant gen_S_ty, F = the constant gen_S_<method>.  The model side is unfolded FIRST (while the generated
   function is still folded), so that `cbn` never touches the generated leaf calls. *)
Ltac enc_tac T F :=
  let H := fresh "H" in intro H; unfold T in *; dspine H; cbn [enc]; unfold leaf; unfold F; cbn [tnth];
  rewrite <- ?app_assoc, ?app_nil_r; reflexivity.
Ltac size_tac T F :=
  let H := fresh "H" in intro H; unfold T in *; dspine H; cbn [size]; unfold leaf; unfold F; cbn [tnth]; lia.
Ltac check_tac T F :=
  let H := fresh "H" in intro H; unfold T in *; dspine H; cbn [check]; unfold leaf; unfold F; cbn [tnth]; btauto.
(* one leaf decoder: the generated side is `bind (dec ..) (fun r => ..)`; give both sides the same result *)
Ltac dstep :=
  lazymatch goal with
  | |- bind ?o _ = _ => destruct o as [[? ?]| ? | ?]; cbn [bind fst snd]; [ | reflexivity | reflexivity ]
  end.
Ltac dec_tac T F := unfold T; cbn [dec]; unfold leaf; unfold F; repeat dstep; reflexivity.
(* B = gen_S_batch_check, C = gen_S_check (constants), Capp = gen_S_check applied to the type parameters, Ceq = its _eq *)
Ltac batch_tac B C Capp Ceq :=
  let H := fresh "H" in let IH := fresh "IH" in
  intro H;
  lazymatch goal with
  | |- _ = forallb _ ?l =>
    transitivity (forallb Capp l);
    [ clear H; unfold B, batch_check; induction l as [|? ? IH];
      [ reflexivity | cbn [map forallb]; rewrite <- IH; unfold C; btauto ]
    | eapply forallb_ext_Forall; [ intros ? ?; apply Ceq; eassumption | exact H ] ]
  end.

(* ================= part 2: composition with the C18 theorems ================= *)
Section Compose.
  Context {t : ty} {genc : bool -> value -> list Z} {gsize : bool -> value -> Z}
          {gdec : bool -> bool -> list Z -> outcome (value * list Z)} {gcheck : value -> bool}
          {gbatch : Z -> list value -> bool}.

  Lemma compose_roundtrip :
    (forall c v, spine t v -> genc c v = enc c t v) -> (forall c vl bs, gdec c vl bs = dec c vl t bs) ->
    (forall v, spine t v -> gcheck v = check t v) -> ty_ok t = true ->
    forall c vl v rest, wt t v -> gcheck v = true -> gdec c vl (genc c v ++ rest) = Ok (v, rest).
  Proof.
    intros He Hd Hc Hok c vl v rest Hw Hv. pose proof (wt_spine _ _ Hw) as Hs.
    rewrite Hd, He by exact Hs. rewrite Hc in Hv by exact Hs. apply roundtrip; assumption.
  Qed.

  Lemma compose_size_exact :
    (forall c v, spine t v -> genc c v = enc c t v) -> (forall c v, spine t v -> gsize c v = size c t v) ->
    forall c v, wt t v -> zlen (genc c v) = gsize c v.
  Proof.
    intros He Hz c v Hw. pose proof (wt_spine _ _ Hw) as Hs. rewrite He, Hz by exact Hs. apply size_exact; assumption.
  Qed.

  Lemma compose_decode_validates :
    (forall c vl bs, gdec c vl bs = dec c vl t bs) -> (forall v, spine t v -> gcheck v = check t v) -> checked t = true ->
    forall c bs v r, gdec c true bs = Ok (v, r) -> gcheck v = true.
  Proof.
    intros Hd Hc Hck c bs v r H. rewrite Hd in H. rewrite Hc by (eapply dec_spine; exact H).
    eapply dec_yes_valid; eassumption.
  Qed.

  Lemma compose_dec_total :
    (forall c vl bs, gdec c vl bs = dec c vl t bs) -> ty_ok t = true ->
    forall c vl bs, match gdec c vl bs with Ok (_, r) => exists u, bs = u ++ r | Err _ => True | Panic _ => False end.
  Proof.
    intros Hd Hok c vl bs. rewrite Hd. pose proof (dec_total t Hok c vl bs) as Ht.
    destruct (dec c vl t bs) as [[v r]| |]; auto. destruct Ht as [u [Hu _]]. exists u; exact Hu.
  Qed.

  Lemma compose_truncation :
    (forall c v, spine t v -> genc c v = enc c t v) -> (forall c vl bs, gdec c vl bs = dec c vl t bs) ->
    (forall v, spine t v -> gcheck v = check t v) -> ty_ok t = true ->
    forall c vl v p q, wt t v -> gcheck v = true -> genc c v = p ++ q -> q <> [] -> exists k, gdec c vl p = Err k.
  Proof.
    intros He Hd Hc Hok c vl v p q Hw Hv Hpq Hq. pose proof (wt_spine _ _ Hw) as Hs.
    rewrite Hd. rewrite He in Hpq by exact Hs. rewrite Hc in Hv by exact Hs.
    eapply truncation_is_err; eassumption.
  Qed.

  Lemma compose_batch_spec :
    (forall v, spine t v -> gcheck v = check t v) ->
    (forall hint l, Forall (spine t) l -> gbatch hint l = forallb (check t) l) ->
    forall hint l, Forall (spine t) l -> (gbatch hint l = true <-> Forall (fun v => gcheck v = true) l).
  Proof.
    intros Hc Hb hint l Hl. rewrite Hb by exact Hl. rewrite forallb_forall, Forall_forall.
    rewrite Forall_forall in Hl. split; intros H x Hx; [rewrite Hc | rewrite <- Hc]; auto.
  Qed.
End Compose.

(* ================= part 3: the structs of lib/expand_serde_crate/src/lib.rs ================= *)
(* ================= struct Named { a: u64, b: bool, c: u16 } ================= *)
Lemma gen_Named_ty_val : gen_Named_ty = TStruct (TPair (TUInt 8) (TPair TBool (TPair (TUInt 2) TUnit))).
Proof. reflexivity. Qed.
Lemma gen_Named_enc_eq c v : spine gen_Named_ty v -> gen_Named_enc c v = enc c gen_Named_ty v.
Proof. enc_tac gen_Named_ty gen_Named_enc. Qed.
Lemma gen_Named_size_eq c v : spine gen_Named_ty v -> gen_Named_size c v = size c gen_Named_ty v.
Proof. size_tac gen_Named_ty gen_Named_size. Qed.
Lemma gen_Named_check_eq v : spine gen_Named_ty v -> gen_Named_check v = check gen_Named_ty v.
Proof. check_tac gen_Named_ty gen_Named_check. Qed.
Lemma gen_Named_batch_check_eq hint l : Forall (spine gen_Named_ty) l -> gen_Named_batch_check hint l = forallb (check gen_Named_ty) l.
Proof. batch_tac gen_Named_batch_check gen_Named_check gen_Named_check gen_Named_check_eq. Qed.
Lemma gen_Named_dec_eq c vl bs : gen_Named_dec c vl bs = dec c vl gen_Named_ty bs.
Proof. dec_tac gen_Named_ty gen_Named_dec. Qed.
Lemma gen_Named_ty_ok : ty_ok gen_Named_ty = true /\ checked gen_Named_ty = true /\ exact_ty gen_Named_ty = true.
Proof. repeat split; reflexivity. Qed.
Lemma gen_Named_roundtrip : forall c vl v rest, wt gen_Named_ty v -> gen_Named_check v = true ->
  gen_Named_dec c vl (gen_Named_enc c v ++ rest) = Ok (v, rest).
Proof. exact (compose_roundtrip gen_Named_enc_eq gen_Named_dec_eq gen_Named_check_eq (proj1 gen_Named_ty_ok)). Qed.
Lemma gen_Named_size_exact : forall c v, wt gen_Named_ty v -> zlen (gen_Named_enc c v) = gen_Named_size c v.
Proof. exact (compose_size_exact gen_Named_enc_eq gen_Named_size_eq). Qed.
Lemma gen_Named_decode_validates : forall c bs v r, gen_Named_dec c true bs = Ok (v, r) -> gen_Named_check v = true.
Proof. exact (compose_decode_validates gen_Named_dec_eq gen_Named_check_eq (proj1 (proj2 gen_Named_ty_ok))). Qed.
Lemma gen_Named_dec_total : forall c vl bs,
  match gen_Named_dec c vl bs with Ok (_, r) => exists u, bs = u ++ r | Err _ => True | Panic _ => False end.
Proof. exact (compose_dec_total gen_Named_dec_eq (proj1 gen_Named_ty_ok)). Qed.
Lemma gen_Named_truncation : forall c vl v p q, wt gen_Named_ty v -> gen_Named_check v = true -> gen_Named_enc c v = p ++ q -> q <> [] ->
  exists k, gen_Named_dec c vl p = Err k.
Proof. exact (compose_truncation gen_Named_enc_eq gen_Named_dec_eq gen_Named_check_eq (proj1 gen_Named_ty_ok)). Qed.
Lemma gen_Named_batch_check_spec : forall hint l, Forall (spine gen_Named_ty) l ->
  (gen_Named_batch_check hint l = true <-> Forall (fun v => gen_Named_check v = true) l).
Proof. exact (compose_batch_spec gen_Named_check_eq gen_Named_batch_check_eq). Qed.

(* ================= struct Tup(u8, u32, bool) ================= *)
Lemma gen_Tup_ty_val : gen_Tup_ty = TStruct (TPair (TUInt 1) (TPair (TUInt 4) (TPair TBool TUnit))).
Proof. reflexivity. Qed.
Lemma gen_Tup_enc_eq c v : spine gen_Tup_ty v -> gen_Tup_enc c v = enc c gen_Tup_ty v.
Proof. enc_tac gen_Tup_ty gen_Tup_enc. Qed.
Lemma gen_Tup_size_eq c v : spine gen_Tup_ty v -> gen_Tup_size c v = size c gen_Tup_ty v.
Proof. size_tac gen_Tup_ty gen_Tup_size. Qed.
Lemma gen_Tup_check_eq v : spine gen_Tup_ty v -> gen_Tup_check v = check gen_Tup_ty v.
Proof. check_tac gen_Tup_ty gen_Tup_check. Qed.
Lemma gen_Tup_batch_check_eq hint l : Forall (spine gen_Tup_ty) l -> gen_Tup_batch_check hint l = forallb (check gen_Tup_ty) l.
Proof. batch_tac gen_Tup_batch_check gen_Tup_check gen_Tup_check gen_Tup_check_eq. Qed.
Lemma gen_Tup_dec_eq c vl bs : gen_Tup_dec c vl bs = dec c vl gen_Tup_ty bs.
Proof. dec_tac gen_Tup_ty gen_Tup_dec. Qed.
Lemma gen_Tup_ty_ok : ty_ok gen_Tup_ty = true /\ checked gen_Tup_ty = true /\ exact_ty gen_Tup_ty = true.
Proof. repeat split; reflexivity. Qed.
Lemma gen_Tup_roundtrip : forall c vl v rest, wt gen_Tup_ty v -> gen_Tup_check v = true ->
  gen_Tup_dec c vl (gen_Tup_enc c v ++ rest) = Ok (v, rest).
Proof. exact (compose_roundtrip gen_Tup_enc_eq gen_Tup_dec_eq gen_Tup_check_eq (proj1 gen_Tup_ty_ok)). Qed.
Lemma gen_Tup_size_exact : forall c v, wt gen_Tup_ty v -> zlen (gen_Tup_enc c v) = gen_Tup_size c v.
Proof. exact (compose_size_exact gen_Tup_enc_eq gen_Tup_size_eq). Qed.
Lemma gen_Tup_decode_validates : forall c bs v r, gen_Tup_dec c true bs = Ok (v, r) -> gen_Tup_check v = true.
Proof. exact (compose_decode_validates gen_Tup_dec_eq gen_Tup_check_eq (proj1 (proj2 gen_Tup_ty_ok))). Qed.
Lemma gen_Tup_dec_total : forall c vl bs,
  match gen_Tup_dec c vl bs with Ok (_, r) => exists u, bs = u ++ r | Err _ => True | Panic _ => False end.
Proof. exact (compose_dec_total gen_Tup_dec_eq (proj1 gen_Tup_ty_ok)). Qed.
Lemma gen_Tup_truncation : forall c vl v p q, wt gen_Tup_ty v -> gen_Tup_check v = true -> gen_Tup_enc c v = p ++ q -> q <> [] ->
  exists k, gen_Tup_dec c vl p = Err k.
Proof. exact (compose_truncation gen_Tup_enc_eq gen_Tup_dec_eq gen_Tup_check_eq (proj1 gen_Tup_ty_ok)). Qed.
Lemma gen_Tup_batch_check_spec : forall hint l, Forall (spine gen_Tup_ty) l ->
  (gen_Tup_batch_check hint l = true <-> Forall (fun v => gen_Tup_check v = true) l).
Proof. exact (compose_batch_spec gen_Tup_check_eq gen_Tup_batch_check_eq). Qed.

(* ================= struct NT { a: u8, b: (u8, (u16, u32)), c: u64 } ================= *)
Lemma gen_NT_ty_val : gen_NT_ty = TStruct (TPair (TUInt 1) (TPair (TPair (TUInt 1) (TPair (TPair (TUInt 2) (TPair (TUInt 4) TUnit)) TUnit)) (TPair (TUInt 8) TUnit))).
Proof. reflexivity. Qed.
Lemma gen_NT_enc_eq c v : spine gen_NT_ty v -> gen_NT_enc c v = enc c gen_NT_ty v.
Proof. enc_tac gen_NT_ty gen_NT_enc. Qed.
Lemma gen_NT_size_eq c v : spine gen_NT_ty v -> gen_NT_size c v = size c gen_NT_ty v.
Proof. size_tac gen_NT_ty gen_NT_size. Qed.
Lemma gen_NT_check_eq v : spine gen_NT_ty v -> gen_NT_check v = check gen_NT_ty v.
Proof. check_tac gen_NT_ty gen_NT_check. Qed.
Lemma gen_NT_batch_check_eq hint l : Forall (spine gen_NT_ty) l -> gen_NT_batch_check hint l = forallb (check gen_NT_ty) l.
Proof. batch_tac gen_NT_batch_check gen_NT_check gen_NT_check gen_NT_check_eq. Qed.
Lemma gen_NT_dec_eq c vl bs : gen_NT_dec c vl bs = dec c vl gen_NT_ty bs.
Proof. dec_tac gen_NT_ty gen_NT_dec. Qed.
Lemma gen_NT_ty_ok : ty_ok gen_NT_ty = true /\ checked gen_NT_ty = true /\ exact_ty gen_NT_ty = true.
Proof. repeat split; reflexivity. Qed.
Lemma gen_NT_roundtrip : forall c vl v rest, wt gen_NT_ty v -> gen_NT_check v = true ->
  gen_NT_dec c vl (gen_NT_enc c v ++ rest) = Ok (v, rest).
Proof. exact (compose_roundtrip gen_NT_enc_eq gen_NT_dec_eq gen_NT_check_eq (proj1 gen_NT_ty_ok)). Qed.
Lemma gen_NT_size_exact : forall c v, wt gen_NT_ty v -> zlen (gen_NT_enc c v) = gen_NT_size c v.
Proof. exact (compose_size_exact gen_NT_enc_eq gen_NT_size_eq). Qed.
Lemma gen_NT_decode_validates : forall c bs v r, gen_NT_dec c true bs = Ok (v, r) -> gen_NT_check v = true.
Proof. exact (compose_decode_validates gen_NT_dec_eq gen_NT_check_eq (proj1 (proj2 gen_NT_ty_ok))). Qed.
Lemma gen_NT_dec_total : forall c vl bs,
  match gen_NT_dec c vl bs with Ok (_, r) => exists u, bs = u ++ r | Err _ => True | Panic _ => False end.
Proof. exact (compose_dec_total gen_NT_dec_eq (proj1 gen_NT_ty_ok)). Qed.
Lemma gen_NT_truncation : forall c vl v p q, wt gen_NT_ty v -> gen_NT_check v = true -> gen_NT_enc c v = p ++ q -> q <> [] ->
  exists k, gen_NT_dec c vl p = Err k.
Proof. exact (compose_truncation gen_NT_enc_eq gen_NT_dec_eq gen_NT_check_eq (proj1 gen_NT_ty_ok)). Qed.
Lemma gen_NT_batch_check_spec : forall hint l, Forall (spine gen_NT_ty) l ->
  (gen_NT_batch_check hint l = true <-> Forall (fun v => gen_NT_check v = true) l).
Proof. exact (compose_batch_spec gen_NT_check_eq gen_NT_batch_check_eq). Qed.

(* ================= struct TNT(((u8, u16), u32), bool, (i64,), ()) ================= *)
Lemma gen_TNT_ty_val : gen_TNT_ty = TStruct (TPair (TPair (TPair (TUInt 1) (TPair (TUInt 2) TUnit)) (TPair (TUInt 4) TUnit)) (TPair TBool (TPair (TPair (TSInt 8) TUnit) (TPair TUnit TUnit)))).
Proof. reflexivity. Qed.
Lemma gen_TNT_enc_eq c v : spine gen_TNT_ty v -> gen_TNT_enc c v = enc c gen_TNT_ty v.
Proof. enc_tac gen_TNT_ty gen_TNT_enc. Qed.
Lemma gen_TNT_size_eq c v : spine gen_TNT_ty v -> gen_TNT_size c v = size c gen_TNT_ty v.
Proof. size_tac gen_TNT_ty gen_TNT_size. Qed.
Lemma gen_TNT_check_eq v : spine gen_TNT_ty v -> gen_TNT_check v = check gen_TNT_ty v.
Proof. check_tac gen_TNT_ty gen_TNT_check. Qed.
Lemma gen_TNT_batch_check_eq hint l : Forall (spine gen_TNT_ty) l -> gen_TNT_batch_check hint l = forallb (check gen_TNT_ty) l.
Proof. batch_tac gen_TNT_batch_check gen_TNT_check gen_TNT_check gen_TNT_check_eq. Qed.
Lemma gen_TNT_dec_eq c vl bs : gen_TNT_dec c vl bs = dec c vl gen_TNT_ty bs.
Proof. dec_tac gen_TNT_ty gen_TNT_dec. Qed.
Lemma gen_TNT_ty_ok : ty_ok gen_TNT_ty = true /\ checked gen_TNT_ty = true /\ exact_ty gen_TNT_ty = true.
Proof. repeat split; reflexivity. Qed.
Lemma gen_TNT_roundtrip : forall c vl v rest, wt gen_TNT_ty v -> gen_TNT_check v = true ->
  gen_TNT_dec c vl (gen_TNT_enc c v ++ rest) = Ok (v, rest).
Proof. exact (compose_roundtrip gen_TNT_enc_eq gen_TNT_dec_eq gen_TNT_check_eq (proj1 gen_TNT_ty_ok)). Qed.
Lemma gen_TNT_size_exact : forall c v, wt gen_TNT_ty v -> zlen (gen_TNT_enc c v) = gen_TNT_size c v.
Proof. exact (compose_size_exact gen_TNT_enc_eq gen_TNT_size_eq). Qed.
Lemma gen_TNT_decode_validates : forall c bs v r, gen_TNT_dec c true bs = Ok (v, r) -> gen_TNT_check v = true.
Proof. exact (compose_decode_validates gen_TNT_dec_eq gen_TNT_check_eq (proj1 (proj2 gen_TNT_ty_ok))). Qed.
Lemma gen_TNT_dec_total : forall c vl bs,
  match gen_TNT_dec c vl bs with Ok (_, r) => exists u, bs = u ++ r | Err _ => True | Panic _ => False end.
Proof. exact (compose_dec_total gen_TNT_dec_eq (proj1 gen_TNT_ty_ok)). Qed.
Lemma gen_TNT_truncation : forall c vl v p q, wt gen_TNT_ty v -> gen_TNT_check v = true -> gen_TNT_enc c v = p ++ q -> q <> [] ->
  exists k, gen_TNT_dec c vl p = Err k.
Proof. exact (compose_truncation gen_TNT_enc_eq gen_TNT_dec_eq gen_TNT_check_eq (proj1 gen_TNT_ty_ok)). Qed.
Lemma gen_TNT_batch_check_spec : forall hint l, Forall (spine gen_TNT_ty) l ->
  (gen_TNT_batch_check hint l = true <-> Forall (fun v => gen_TNT_check v = true) l).
Proof. exact (compose_batch_spec gen_TNT_check_eq gen_TNT_batch_check_eq). Qed.

(* ================= struct Unit; ================= *)
Lemma gen_Unit_ty_val : gen_Unit_ty = TStruct (TUnit).
Proof. reflexivity. Qed.
Lemma gen_Unit_enc_eq c v : spine gen_Unit_ty v -> gen_Unit_enc c v = enc c gen_Unit_ty v.
Proof. enc_tac gen_Unit_ty gen_Unit_enc. Qed.
Lemma gen_Unit_size_eq c v : spine gen_Unit_ty v -> gen_Unit_size c v = size c gen_Unit_ty v.
Proof. size_tac gen_Unit_ty gen_Unit_size. Qed.
Lemma gen_Unit_check_eq v : spine gen_Unit_ty v -> gen_Unit_check v = check gen_Unit_ty v.
Proof. check_tac gen_Unit_ty gen_Unit_check. Qed.
Lemma gen_Unit_batch_check_eq hint l : Forall (spine gen_Unit_ty) l -> gen_Unit_batch_check hint l = forallb (check gen_Unit_ty) l.
Proof. batch_tac gen_Unit_batch_check gen_Unit_check gen_Unit_check gen_Unit_check_eq. Qed.
Lemma gen_Unit_dec_eq c vl bs : gen_Unit_dec c vl bs = dec c vl gen_Unit_ty bs.
Proof. dec_tac gen_Unit_ty gen_Unit_dec. Qed.
Lemma gen_Unit_ty_ok : ty_ok gen_Unit_ty = true /\ checked gen_Unit_ty = true /\ exact_ty gen_Unit_ty = true.
Proof. repeat split; reflexivity. Qed.
Lemma gen_Unit_roundtrip : forall c vl v rest, wt gen_Unit_ty v -> gen_Unit_check v = true ->
  gen_Unit_dec c vl (gen_Unit_enc c v ++ rest) = Ok (v, rest).
Proof. exact (compose_roundtrip gen_Unit_enc_eq gen_Unit_dec_eq gen_Unit_check_eq (proj1 gen_Unit_ty_ok)). Qed.
Lemma gen_Unit_size_exact : forall c v, wt gen_Unit_ty v -> zlen (gen_Unit_enc c v) = gen_Unit_size c v.
Proof. exact (compose_size_exact gen_Unit_enc_eq gen_Unit_size_eq). Qed.
Lemma gen_Unit_decode_validates : forall c bs v r, gen_Unit_dec c true bs = Ok (v, r) -> gen_Unit_check v = true.
Proof. exact (compose_decode_validates gen_Unit_dec_eq gen_Unit_check_eq (proj1 (proj2 gen_Unit_ty_ok))). Qed.
Lemma gen_Unit_dec_total : forall c vl bs,
  match gen_Unit_dec c vl bs with Ok (_, r) => exists u, bs = u ++ r | Err _ => True | Panic _ => False end.
Proof. exact (compose_dec_total gen_Unit_dec_eq (proj1 gen_Unit_ty_ok)). Qed.
Lemma gen_Unit_truncation : forall c vl v p q, wt gen_Unit_ty v -> gen_Unit_check v = true -> gen_Unit_enc c v = p ++ q -> q <> [] ->
  exists k, gen_Unit_dec c vl p = Err k.
Proof. exact (compose_truncation gen_Unit_enc_eq gen_Unit_dec_eq gen_Unit_check_eq (proj1 gen_Unit_ty_ok)). Qed.
Lemma gen_Unit_batch_check_spec : forall hint l, Forall (spine gen_Unit_ty) l ->
  (gen_Unit_batch_check hint l = true <-> Forall (fun v => gen_Unit_check v = true) l).
Proof. exact (compose_batch_spec gen_Unit_check_eq gen_Unit_batch_check_eq). Qed.

(* ================= struct Empty {} ================= *)
Lemma gen_Empty_ty_val : gen_Empty_ty = TStruct (TUnit).
Proof. reflexivity. Qed.
Lemma gen_Empty_enc_eq c v : spine gen_Empty_ty v -> gen_Empty_enc c v = enc c gen_Empty_ty v.
Proof. enc_tac gen_Empty_ty gen_Empty_enc. Qed.
Lemma gen_Empty_size_eq c v : spine gen_Empty_ty v -> gen_Empty_size c v = size c gen_Empty_ty v.
Proof. size_tac gen_Empty_ty gen_Empty_size. Qed.
Lemma gen_Empty_check_eq v : spine gen_Empty_ty v -> gen_Empty_check v = check gen_Empty_ty v.
Proof. check_tac gen_Empty_ty gen_Empty_check. Qed.
Lemma gen_Empty_batch_check_eq hint l : Forall (spine gen_Empty_ty) l -> gen_Empty_batch_check hint l = forallb (check gen_Empty_ty) l.
Proof. batch_tac gen_Empty_batch_check gen_Empty_check gen_Empty_check gen_Empty_check_eq. Qed.
Lemma gen_Empty_dec_eq c vl bs : gen_Empty_dec c vl bs = dec c vl gen_Empty_ty bs.
Proof. dec_tac gen_Empty_ty gen_Empty_dec. Qed.
Lemma gen_Empty_ty_ok : ty_ok gen_Empty_ty = true /\ checked gen_Empty_ty = true /\ exact_ty gen_Empty_ty = true.
Proof. repeat split; reflexivity. Qed.
Lemma gen_Empty_roundtrip : forall c vl v rest, wt gen_Empty_ty v -> gen_Empty_check v = true ->
  gen_Empty_dec c vl (gen_Empty_enc c v ++ rest) = Ok (v, rest).
Proof. exact (compose_roundtrip gen_Empty_enc_eq gen_Empty_dec_eq gen_Empty_check_eq (proj1 gen_Empty_ty_ok)). Qed.
Lemma gen_Empty_size_exact : forall c v, wt gen_Empty_ty v -> zlen (gen_Empty_enc c v) = gen_Empty_size c v.
Proof. exact (compose_size_exact gen_Empty_enc_eq gen_Empty_size_eq). Qed.
Lemma gen_Empty_decode_validates : forall c bs v r, gen_Empty_dec c true bs = Ok (v, r) -> gen_Empty_check v = true.
Proof. exact (compose_decode_validates gen_Empty_dec_eq gen_Empty_check_eq (proj1 (proj2 gen_Empty_ty_ok))). Qed.
Lemma gen_Empty_dec_total : forall c vl bs,
  match gen_Empty_dec c vl bs with Ok (_, r) => exists u, bs = u ++ r | Err _ => True | Panic _ => False end.
Proof. exact (compose_dec_total gen_Empty_dec_eq (proj1 gen_Empty_ty_ok)). Qed.
Lemma gen_Empty_truncation : forall c vl v p q, wt gen_Empty_ty v -> gen_Empty_check v = true -> gen_Empty_enc c v = p ++ q -> q <> [] ->
  exists k, gen_Empty_dec c vl p = Err k.
Proof. exact (compose_truncation gen_Empty_enc_eq gen_Empty_dec_eq gen_Empty_check_eq (proj1 gen_Empty_ty_ok)). Qed.
Lemma gen_Empty_batch_check_spec : forall hint l, Forall (spine gen_Empty_ty) l ->
  (gen_Empty_batch_check hint l = true <-> Forall (fun v => gen_Empty_check v = true) l).
Proof. exact (compose_batch_spec gen_Empty_check_eq gen_Empty_batch_check_eq). Qed.

(* ================= struct Gen<T> { x: T, y: (bool, T) } ================= *)
Lemma gen_Gen_ty_val (T : ty) : gen_Gen_ty T = TStruct (TPair T (TPair (TPair TBool (TPair T TUnit)) TUnit)).
Proof. reflexivity. Qed.
Lemma gen_Gen_enc_eq (T : ty) c v : spine (gen_Gen_ty T) v -> gen_Gen_enc T c v = enc c (gen_Gen_ty T) v.
Proof. enc_tac gen_Gen_ty gen_Gen_enc. Qed.
Lemma gen_Gen_size_eq (T : ty) c v : spine (gen_Gen_ty T) v -> gen_Gen_size T c v = size c (gen_Gen_ty T) v.
Proof. size_tac gen_Gen_ty gen_Gen_size. Qed.
Lemma gen_Gen_check_eq (T : ty) v : spine (gen_Gen_ty T) v -> gen_Gen_check T v = check (gen_Gen_ty T) v.
Proof. check_tac gen_Gen_ty gen_Gen_check. Qed.
Lemma gen_Gen_batch_check_eq (T : ty) hint l : Forall (spine (gen_Gen_ty T)) l -> gen_Gen_batch_check T hint l = forallb (check (gen_Gen_ty T)) l.
Proof. batch_tac gen_Gen_batch_check gen_Gen_check (gen_Gen_check T) (gen_Gen_check_eq T). Qed.
Lemma gen_Gen_dec_eq (T : ty) c vl bs : gen_Gen_dec T c vl bs = dec c vl (gen_Gen_ty T) bs.
Proof. dec_tac gen_Gen_ty gen_Gen_dec. Qed.
Lemma gen_Gen_roundtrip (T : ty) : ty_ok (gen_Gen_ty T) = true -> forall c vl v rest, wt (gen_Gen_ty T) v -> gen_Gen_check T v = true ->
  gen_Gen_dec T c vl (gen_Gen_enc T c v ++ rest) = Ok (v, rest).
Proof. intro Hok. exact (compose_roundtrip (gen_Gen_enc_eq T) (gen_Gen_dec_eq T) (gen_Gen_check_eq T) Hok). Qed.
Lemma gen_Gen_size_exact (T : ty) : forall c v, wt (gen_Gen_ty T) v -> zlen (gen_Gen_enc T c v) = gen_Gen_size T c v.
Proof. exact (compose_size_exact (gen_Gen_enc_eq T) (gen_Gen_size_eq T)). Qed.
Lemma gen_Gen_decode_validates (T : ty) : checked (gen_Gen_ty T) = true -> forall c bs v r, gen_Gen_dec T c true bs = Ok (v, r) -> gen_Gen_check T v = true.
Proof. intro Hck. exact (compose_decode_validates (gen_Gen_dec_eq T) (gen_Gen_check_eq T) Hck). Qed.
Lemma gen_Gen_dec_total (T : ty) : ty_ok (gen_Gen_ty T) = true -> forall c vl bs,
  match gen_Gen_dec T c vl bs with Ok (_, r) => exists u, bs = u ++ r | Err _ => True | Panic _ => False end.
Proof. intro Hok. exact (compose_dec_total (gen_Gen_dec_eq T) Hok). Qed.
Lemma gen_Gen_truncation (T : ty) : ty_ok (gen_Gen_ty T) = true -> forall c vl v p q, wt (gen_Gen_ty T) v -> gen_Gen_check T v = true -> gen_Gen_enc T c v = p ++ q -> q <> [] ->
  exists k, gen_Gen_dec T c vl p = Err k.
Proof. intro Hok. exact (compose_truncation (gen_Gen_enc_eq T) (gen_Gen_dec_eq T) (gen_Gen_check_eq T) Hok). Qed.
Lemma gen_Gen_batch_check_spec (T : ty) : forall hint l, Forall (spine (gen_Gen_ty T)) l ->
  (gen_Gen_batch_check T hint l = true <-> Forall (fun v => gen_Gen_check T v = true) l).
Proof. exact (compose_batch_spec (gen_Gen_check_eq T) (gen_Gen_batch_check_eq T)). Qed.

(* ================= struct Gen2<A, B>(A, (B, A), Vec<B>) ================= *)
Lemma gen_Gen2_ty_val (A : ty) (B : ty) : gen_Gen2_ty A B = TStruct (TPair A (TPair (TPair B (TPair A TUnit)) (TPair (TSeq B) TUnit))).
Proof. reflexivity. Qed.
Lemma gen_Gen2_enc_eq (A : ty) (B : ty) c v : spine (gen_Gen2_ty A B) v -> gen_Gen2_enc A B c v = enc c (gen_Gen2_ty A B) v.
Proof. enc_tac gen_Gen2_ty gen_Gen2_enc. Qed.
Lemma gen_Gen2_size_eq (A : ty) (B : ty) c v : spine (gen_Gen2_ty A B) v -> gen_Gen2_size A B c v = size c (gen_Gen2_ty A B) v.
Proof. size_tac gen_Gen2_ty gen_Gen2_size. Qed.
Lemma gen_Gen2_check_eq (A : ty) (B : ty) v : spine (gen_Gen2_ty A B) v -> gen_Gen2_check A B v = check (gen_Gen2_ty A B) v.
Proof. check_tac gen_Gen2_ty gen_Gen2_check. Qed.
Lemma gen_Gen2_batch_check_eq (A : ty) (B : ty) hint l : Forall (spine (gen_Gen2_ty A B)) l -> gen_Gen2_batch_check A B hint l = forallb (check (gen_Gen2_ty A B)) l.
Proof. batch_tac gen_Gen2_batch_check gen_Gen2_check (gen_Gen2_check A B) (gen_Gen2_check_eq A B). Qed.
Lemma gen_Gen2_dec_eq (A : ty) (B : ty) c vl bs : gen_Gen2_dec A B c vl bs = dec c vl (gen_Gen2_ty A B) bs.
Proof. dec_tac gen_Gen2_ty gen_Gen2_dec. Qed.
Lemma gen_Gen2_roundtrip (A : ty) (B : ty) : ty_ok (gen_Gen2_ty A B) = true -> forall c vl v rest, wt (gen_Gen2_ty A B) v -> gen_Gen2_check A B v = true ->
  gen_Gen2_dec A B c vl (gen_Gen2_enc A B c v ++ rest) = Ok (v, rest).
Proof. intro Hok. exact (compose_roundtrip (gen_Gen2_enc_eq A B) (gen_Gen2_dec_eq A B) (gen_Gen2_check_eq A B) Hok). Qed.
Lemma gen_Gen2_size_exact (A : ty) (B : ty) : forall c v, wt (gen_Gen2_ty A B) v -> zlen (gen_Gen2_enc A B c v) = gen_Gen2_size A B c v.
Proof. exact (compose_size_exact (gen_Gen2_enc_eq A B) (gen_Gen2_size_eq A B)). Qed.
Lemma gen_Gen2_decode_validates (A : ty) (B : ty) : checked (gen_Gen2_ty A B) = true -> forall c bs v r, gen_Gen2_dec A B c true bs = Ok (v, r) -> gen_Gen2_check A B v = true.
Proof. intro Hck. exact (compose_decode_validates (gen_Gen2_dec_eq A B) (gen_Gen2_check_eq A B) Hck). Qed.
Lemma gen_Gen2_dec_total (A : ty) (B : ty) : ty_ok (gen_Gen2_ty A B) = true -> forall c vl bs,
  match gen_Gen2_dec A B c vl bs with Ok (_, r) => exists u, bs = u ++ r | Err _ => True | Panic _ => False end.
Proof. intro Hok. exact (compose_dec_total (gen_Gen2_dec_eq A B) Hok). Qed.
Lemma gen_Gen2_truncation (A : ty) (B : ty) : ty_ok (gen_Gen2_ty A B) = true -> forall c vl v p q, wt (gen_Gen2_ty A B) v -> gen_Gen2_check A B v = true -> gen_Gen2_enc A B c v = p ++ q -> q <> [] ->
  exists k, gen_Gen2_dec A B c vl p = Err k.
Proof. intro Hok. exact (compose_truncation (gen_Gen2_enc_eq A B) (gen_Gen2_dec_eq A B) (gen_Gen2_check_eq A B) Hok). Qed.
Lemma gen_Gen2_batch_check_spec (A : ty) (B : ty) : forall hint l, Forall (spine (gen_Gen2_ty A B)) l ->
  (gen_Gen2_batch_check A B hint l = true <-> Forall (fun v => gen_Gen2_check A B v = true) l).
Proof. exact (compose_batch_spec (gen_Gen2_check_eq A B) (gen_Gen2_batch_check_eq A B)). Qed.

(* ================= struct Cont<T> { v: Vec<T>, o: Option<T>, w: Vec<Option<u16>>, s: String, p: (Vec<u8>, Option<bool>) } ================= *)
Lemma gen_Cont_ty_val (T : ty) : gen_Cont_ty T = TStruct (TPair (TSeq T) (TPair (TOption T) (TPair (TSeq (TOption (TUInt 2))) (TPair TString (TPair (TPair (TSeq (TUInt 1)) (TPair (TOption TBool) TUnit)) TUnit))))).
Proof. reflexivity. Qed.
Lemma gen_Cont_enc_eq (T : ty) c v : spine (gen_Cont_ty T) v -> gen_Cont_enc T c v = enc c (gen_Cont_ty T) v.
Proof. enc_tac gen_Cont_ty gen_Cont_enc. Qed.
Lemma gen_Cont_size_eq (T : ty) c v : spine (gen_Cont_ty T) v -> gen_Cont_size T c v = size c (gen_Cont_ty T) v.
Proof. size_tac gen_Cont_ty gen_Cont_size. Qed.
Lemma gen_Cont_check_eq (T : ty) v : spine (gen_Cont_ty T) v -> gen_Cont_check T v = check (gen_Cont_ty T) v.
Proof. check_tac gen_Cont_ty gen_Cont_check. Qed.
Lemma gen_Cont_batch_check_eq (T : ty) hint l : Forall (spine (gen_Cont_ty T)) l -> gen_Cont_batch_check T hint l = forallb (check (gen_Cont_ty T)) l.
Proof. batch_tac gen_Cont_batch_check gen_Cont_check (gen_Cont_check T) (gen_Cont_check_eq T). Qed.
Lemma gen_Cont_dec_eq (T : ty) c vl bs : gen_Cont_dec T c vl bs = dec c vl (gen_Cont_ty T) bs.
Proof. dec_tac gen_Cont_ty gen_Cont_dec. Qed.
Lemma gen_Cont_roundtrip (T : ty) : ty_ok (gen_Cont_ty T) = true -> forall c vl v rest, wt (gen_Cont_ty T) v -> gen_Cont_check T v = true ->
  gen_Cont_dec T c vl (gen_Cont_enc T c v ++ rest) = Ok (v, rest).
Proof. intro Hok. exact (compose_roundtrip (gen_Cont_enc_eq T) (gen_Cont_dec_eq T) (gen_Cont_check_eq T) Hok). Qed.
Lemma gen_Cont_size_exact (T : ty) : forall c v, wt (gen_Cont_ty T) v -> zlen (gen_Cont_enc T c v) = gen_Cont_size T c v.
Proof. exact (compose_size_exact (gen_Cont_enc_eq T) (gen_Cont_size_eq T)). Qed.
Lemma gen_Cont_decode_validates (T : ty) : checked (gen_Cont_ty T) = true -> forall c bs v r, gen_Cont_dec T c true bs = Ok (v, r) -> gen_Cont_check T v = true.
Proof. intro Hck. exact (compose_decode_validates (gen_Cont_dec_eq T) (gen_Cont_check_eq T) Hck). Qed.
Lemma gen_Cont_dec_total (T : ty) : ty_ok (gen_Cont_ty T) = true -> forall c vl bs,
  match gen_Cont_dec T c vl bs with Ok (_, r) => exists u, bs = u ++ r | Err _ => True | Panic _ => False end.
Proof. intro Hok. exact (compose_dec_total (gen_Cont_dec_eq T) Hok). Qed.
Lemma gen_Cont_truncation (T : ty) : ty_ok (gen_Cont_ty T) = true -> forall c vl v p q, wt (gen_Cont_ty T) v -> gen_Cont_check T v = true -> gen_Cont_enc T c v = p ++ q -> q <> [] ->
  exists k, gen_Cont_dec T c vl p = Err k.
Proof. intro Hok. exact (compose_truncation (gen_Cont_enc_eq T) (gen_Cont_dec_eq T) (gen_Cont_check_eq T) Hok). Qed.
Lemma gen_Cont_batch_check_spec (T : ty) : forall hint l, Forall (spine (gen_Cont_ty T)) l ->
  (gen_Cont_batch_check T hint l = true <-> Forall (fun v => gen_Cont_check T v = true) l).
Proof. exact (compose_batch_spec (gen_Cont_check_eq T) (gen_Cont_batch_check_eq T)). Qed.

(* ================= struct Outer { h: u8, n: Named, t: (Tup, Vec<NT>), g: Gen<u16>, u: Unit } ================= *)
Lemma gen_Outer_ty_val : gen_Outer_ty = TStruct (TPair (TUInt 1) (TPair gen_Named_ty (TPair (TPair gen_Tup_ty (TPair (TSeq gen_NT_ty) TUnit)) (TPair (gen_Gen_ty (TUInt 2)) (TPair gen_Unit_ty TUnit))))).
Proof. reflexivity. Qed.
Lemma gen_Outer_enc_eq c v : spine gen_Outer_ty v -> gen_Outer_enc c v = enc c gen_Outer_ty v.
Proof. enc_tac gen_Outer_ty gen_Outer_enc. Qed.
Lemma gen_Outer_size_eq c v : spine gen_Outer_ty v -> gen_Outer_size c v = size c gen_Outer_ty v.
Proof. size_tac gen_Outer_ty gen_Outer_size. Qed.
Lemma gen_Outer_check_eq v : spine gen_Outer_ty v -> gen_Outer_check v = check gen_Outer_ty v.
Proof. check_tac gen_Outer_ty gen_Outer_check. Qed.
Lemma gen_Outer_batch_check_eq hint l : Forall (spine gen_Outer_ty) l -> gen_Outer_batch_check hint l = forallb (check gen_Outer_ty) l.
Proof. batch_tac gen_Outer_batch_check gen_Outer_check gen_Outer_check gen_Outer_check_eq. Qed.
Lemma gen_Outer_dec_eq c vl bs : gen_Outer_dec c vl bs = dec c vl gen_Outer_ty bs.
Proof. dec_tac gen_Outer_ty gen_Outer_dec. Qed.
Lemma gen_Outer_ty_ok : ty_ok gen_Outer_ty = true /\ checked gen_Outer_ty = true /\ exact_ty gen_Outer_ty = true.
Proof. repeat split; reflexivity. Qed.
Lemma gen_Outer_roundtrip : forall c vl v rest, wt gen_Outer_ty v -> gen_Outer_check v = true ->
  gen_Outer_dec c vl (gen_Outer_enc c v ++ rest) = Ok (v, rest).
Proof. exact (compose_roundtrip gen_Outer_enc_eq gen_Outer_dec_eq gen_Outer_check_eq (proj1 gen_Outer_ty_ok)). Qed.
Lemma gen_Outer_size_exact : forall c v, wt gen_Outer_ty v -> zlen (gen_Outer_enc c v) = gen_Outer_size c v.
Proof. exact (compose_size_exact gen_Outer_enc_eq gen_Outer_size_eq). Qed.
Lemma gen_Outer_decode_validates : forall c bs v r, gen_Outer_dec c true bs = Ok (v, r) -> gen_Outer_check v = true.
Proof. exact (compose_decode_validates gen_Outer_dec_eq gen_Outer_check_eq (proj1 (proj2 gen_Outer_ty_ok))). Qed.
Lemma gen_Outer_dec_total : forall c vl bs,
  match gen_Outer_dec c vl bs with Ok (_, r) => exists u, bs = u ++ r | Err _ => True | Panic _ => False end.
Proof. exact (compose_dec_total gen_Outer_dec_eq (proj1 gen_Outer_ty_ok)). Qed.
Lemma gen_Outer_truncation : forall c vl v p q, wt gen_Outer_ty v -> gen_Outer_check v = true -> gen_Outer_enc c v = p ++ q -> q <> [] ->
  exists k, gen_Outer_dec c vl p = Err k.
Proof. exact (compose_truncation gen_Outer_enc_eq gen_Outer_dec_eq gen_Outer_check_eq (proj1 gen_Outer_ty_ok)). Qed.
Lemma gen_Outer_batch_check_spec : forall hint l, Forall (spine gen_Outer_ty) l ->
  (gen_Outer_batch_check hint l = true <-> Forall (fun v => gen_Outer_check v = true) l).
Proof. exact (compose_batch_spec gen_Outer_check_eq gen_Outer_batch_check_eq). Qed.


(* ================= concrete instances (used by the Examples of Props/GenSer.v) ================= *)
(* NT { a: 7, b: (9, (0x0102, 0x03040506)), c: 1 } *)
Definition ex_NT : value :=
  VPair (VInt 7) (VPair (VPair (VInt 9) (VPair (VPair (VInt 258) (VPair (VInt 50595078) VUnit)) VUnit)) (VPair (VInt 1) VUnit)).
Lemma ex_NT_ok : wt gen_NT_ty ex_NT /\ spine gen_NT_ty ex_NT /\ gen_NT_check ex_NT = true.
Proof. vm_compute. repeat split; discriminate || reflexivity. Qed.
(* Gen<Even> { x: 4, y: (true, 6) } and { x: 4, y: (true, 3) } *)
Definition ex_Gen_good : value := VPair (VInt 4) (VPair (VPair (VInt 1) (VPair (VInt 6) VUnit)) VUnit).
Definition ex_Gen_bad : value := VPair (VInt 4) (VPair (VPair (VInt 1) (VPair (VInt 3) VUnit)) VUnit).
Lemma ex_Gen_batch :
  gen_Gen_batch_check TEven 0 [ex_Gen_good; ex_Gen_bad] = false /\ gen_Gen_batch_check TEven 0 [ex_Gen_good; ex_Gen_good] = true /\
  Forall (spine (gen_Gen_ty TEven)) [ex_Gen_good; ex_Gen_bad].
Proof. split; [vm_compute; reflexivity|]. split; [vm_compute; reflexivity|]. repeat constructor. Qed.
