(* Link/Examples -- non-vacuity of the Link theorems over the prime field F_13
   ([FpOps 13 : Fops (Fp 13)], the subset-type field of Base/ZpField.v, a [good_field]).

   Short Weierstrass  y^2 = x^3 + 2   (a = 0, b = 2; 19 points: toy curve of C03/C04/C05/Bridge),
   (the twisted-Edwards instance is in Link/ExamplesTE.v)
   Every premise of the Link theorems is discharged here, INCLUDING associativity of the affine
   laws: over a 13-element field it is a finite statement ((#E + 1)^3 triples), checked by
   [vm_compute] (on the integer dictionary ZpOps 13, carried over by Base/ZpTransfer.v) after
   proving that the enumeration of F_13 is exhaustive. *)
From V Require Import Base.Field Base.Word Base.ZpField Base.ZpInstances C03.CurveExec C03.SWProofs
  C03.FieldHyp C12.SWSubgroupProofs Base.ZpTransfer
  Link.SubGroup Link.SWGroup Link.SWRealises.
From V Require C04.GroupOps C04.GroupTheory C04.ScalarMul C04.Run C05.Run.
Require Import Lia Bool.

Definition F13 : Fops (Fp 13) := FpOps 13.
Lemma F13_good : good_field F13.
Proof. exact (FpOps_good_field 13 prime_13 eq_refl). Qed.
Lemma Feq13 : forall x y : Fp 13, feqb F13 x y = true <-> x = y.
Proof. exact (gf_eqb F13 F13_good). Qed.

(* ---- exhaustive enumeration of F_13 ---- *)
Definition els13 : list (Fp 13) := map (fp_of 13) [0; 1; 2; 3; 4; 5; 6; 7; 8; 9; 10; 11; 12].
Lemma els13_all : forall x : Fp 13, In x els13.
Proof.
  intros x. rewrite <- (fp_of_fpv 13 x). pose proof (fpv_canon 13 x eq_refl) as H. unfold canon in H.
  apply in_map. set (v := fpv x) in *. clearbody v.
  assert (E : v = 0 \/ v = 1 \/ v = 2 \/ v = 3 \/ v = 4 \/ v = 5 \/ v = 6 \/ v = 7 \/ v = 8 \/ v = 9 \/
              v = 10 \/ v = 11 \/ v = 12) by lia.
  cbn [In]. intuition.
Qed.
Lemma all13 (Pd : Fp 13 -> bool) : forallb Pd els13 = true -> forall x, Pd x = true.
Proof. intros H x. rewrite forallb_forall in H. apply H. apply els13_all. Qed.

(* a finite associativity check, generically *)
Definition assoc_check {X : Type} (pts : list X) (beq : X -> X -> bool) (op : X -> X -> X) : bool :=
  forallb (fun A => forallb (fun B => forallb (fun C => beq (op A (op B C)) (op (op A B) C)) pts) pts) pts.
Lemma assoc_from_check {X : Type} (pts : list X) (beq : X -> X -> bool) (op : X -> X -> X) :
  assoc_check pts beq op = true ->
  forall A B C, In A pts -> In B pts -> In C pts -> beq (op A (op B C)) (op (op A B) C) = true.
Proof.
  unfold assoc_check. intros K A B C IA IB IC. rewrite forallb_forall in K. specialize (K A IA).
  rewrite forallb_forall in K. specialize (K B IB). rewrite forallb_forall in K. exact (K C IC).
Qed.

(* ================= short Weierstrass: y^2 = x^3 + 2 ================= *)
Definition a13 : Fp 13 := fp_of 13 0.
Definition b13 : Fp 13 := fp_of 13 2.
Definition P13 : @sw_jac (Fp 13) := (fp_of 13 4, fp_of 13 6, fp_of 13 2).   (* the point (1,4), Z = 2 *)
Definition A13 : @sw_aff (Fp 13) := Some (fp_of 13 1, fp_of 13 4).

Lemma onb_13 A : sw_aff_on_curve F13 a13 b13 A = true <-> aff_on F13 a13 b13 A.
Proof. exact (onb_on F13 a13 b13 F13_good A). Qed.
Lemma A13_on : aff_on F13 a13 b13 A13.
Proof. apply onb_13. vm_compute. reflexivity. Qed.
Lemma P13_on : jac_on F13 a13 b13 P13.
Proof. unfold jac_on. apply onb_13. vm_compute. reflexivity. Qed.

Definition sw_beq (A B : @sw_aff (Fp 13)) : bool := C05.Run.sw_aff_beq F13 A B.
Lemma sw_beq_eq A B : sw_beq A B = true -> A = B.
Proof.
  destruct A as [[x y]|], B as [[x' y']|]; cbn; intros H; try discriminate H; [|reflexivity].
  apply andb_true_iff in H. destruct H as [H1 H2]. apply Feq13 in H1, H2. subst. reflexivity.
Qed.

(* The finite check runs on plain integers (the executed dictionary ZpOps 13: fast in the VM) and
   is carried to FpOps 13 by the value lemmas of Base/ZpTransfer.v (aff_add_sw_val, aff_on_val). *)
Definition Z13 : Fops Z := ZpOps 13.
Definition zels13 : list Z := [0; 1; 2; 3; 4; 5; 6; 7; 8; 9; 10; 11; 12].
Lemma zels13_all : forall x : Fp 13, In (fpv x) zels13.
Proof.
  intros x. pose proof (fpv_canon 13 x eq_refl) as H. unfold canon in H. set (v := fpv x) in *. clearbody v.
  assert (E : v = 0 \/ v = 1 \/ v = 2 \/ v = 3 \/ v = 4 \/ v = 5 \/ v = 6 \/ v = 7 \/ v = 8 \/ v = 9 \/
              v = 10 \/ v = 11 \/ v = 12) by lia.
  unfold zels13. cbn [In]. intuition.
Qed.
Definition zsw_onb (A : option (Z * Z)) : bool :=
  match A with
  | None => true
  | Some (x, y) => fmul Z13 y y =? fadd Z13 (fadd Z13 (fmul Z13 (fmul Z13 x x) x) (fmul Z13 0 x)) 2
  end.
Lemma zsw_onb_on A : aff_on Z13 0 2 A -> zsw_onb A = true.
Proof. destruct A as [[x y]|]; [|reflexivity]. unfold zsw_onb, aff_on. intros H. apply Z.eqb_eq. exact H. Qed.
Definition zsw_beq (A B : option (Z * Z)) : bool :=
  match A, B with
  | None, None => true
  | Some (x, y), Some (x', y') => (x =? x') && (y =? y')
  | _, _ => false
  end.
Lemma zsw_beq_eq A B : zsw_beq A B = true -> A = B.
Proof.
  destruct A as [[x y]|], B as [[x' y']|]; cbn; intros H; try discriminate H; [|reflexivity].
  apply andb_true_iff in H. destruct H as [H1 H2]. apply Z.eqb_eq in H1, H2. subst. reflexivity.
Qed.
Definition zsw_pts13 : list (option (Z * Z)) := filter zsw_onb (None :: map Some (list_prod zels13 zels13)).
(* 18 affine points and the point at infinity; 19^3 triples *)
Lemma zsw_pts13_count : length zsw_pts13 = 19%nat.
Proof. vm_compute. reflexivity. Qed.
Lemma zsw_assoc_check_true : assoc_check zsw_pts13 zsw_beq (aff_add_sw Z13 0) = true.
Proof. vm_compute. reflexivity. Qed.
Lemma zsw_pts13_in (A : @sw_aff (Fp 13)) : aff_on F13 a13 b13 A -> In (aff_val A) zsw_pts13.
Proof.
  intros H. apply filter_In. split.
  - destruct A as [[x y]|]; [right | left; reflexivity]. cbn [aff_val option_map pair_val fst snd].
    apply in_map. apply in_prod; apply zels13_all.
  - apply zsw_onb_on. apply (aff_on_val 13 a13 b13 A) in H. exact H.
Qed.
Lemma aff_val_inj (A B : @sw_aff (Fp 13)) : aff_val A = aff_val B -> A = B.
Proof.
  destruct A as [[x y]|], B as [[x' y']|]; cbn; intros H; try discriminate H; [|reflexivity].
  injection H as H1 H2. apply fp_eq in H1, H2. subst. reflexivity.
Qed.
Theorem sw_assoc_13 : sw_law_assoc F13 a13 b13.
Proof.
  intros A B C HA HB HC. apply aff_val_inj. unfold F13. rewrite !aff_add_sw_val.
  change (fpv a13) with 0. change (ZpOps 13) with Z13. apply zsw_beq_eq.
  exact (assoc_from_check zsw_pts13 zsw_beq (aff_add_sw Z13 0) zsw_assoc_check_true _ _ _
           (zsw_pts13_in A HA) (zsw_pts13_in B HB) (zsw_pts13_in C HC)).
Qed.

(* the C04 / C05 headline statements with NO remaining premise: every limb slice, the point P13 *)
Theorem sw_double_and_add_13 : forall limbs, wf limbs ->
  sw_to_affine F13 (C04.ScalarMul.mul_bigint_proj (C04.Run.sw_gops F13 a13) limbs P13)
  = C04.GroupTheory.smul (aff_add_sw F13 a13) (aff_neg_sw F13) None (val limbs) A13.
Proof.
  intros limbs Hwf.
  rewrite (proj2 (sw_double_and_add F13 a13 b13 F13_good sw_assoc_13 limbs P13 Hwf P13_on)).
  f_equal. apply sw_beq_eq. vm_compute. reflexivity.
Qed.


Lemma ex_wf : wf [5; 0].
Proof. unfold wf. repeat constructor; unfold u64, W64; lia. Qed.
