(* Link/Examples -- non-vacuity of the Link theorems over the prime field F_13
   ([FpOps 13 : Fops (Fp 13)], the subset-type field of Base/ZpField.v, a [good_field]).

   Short Weierstrass  y^2 = x^3 + 2   (a = 0, b = 2; 19 points: toy curve of C03/C04/C05/Bridge),
   (the twisted-Edwards instance is in Link/ExamplesTE.v)
   Every premise of the Link theorems is discharged here, INCLUDING associativity of the affine
   laws: over a 13-element field it is a finite statement ((#E + 1)^3 triples), checked by
   [vm_compute] after proving that the enumeration of F_13 is exhaustive. *)
From V Require Import Base.Field Base.Word Base.ZpField Base.ZpInstances C03.CurveExec C03.SWProofs
  C03.FieldHyp C12.SWSubgroupProofs
  Link.SubGroup Link.SWGroup Link.SWRealises.
From V Require C04.GroupOps C04.GroupTheory C04.ScalarMul C04.Run C05.Run.
Require Import Lia Bool.

Definition F13 : Fops (Fp 13) := FpOps 13.
Lemma F13_good : good_field F13.
Proof. exact (FpOps_good_field 13 prime_13 eq_refl). Qed.
Lemma Feq13 : forall x y : Fp 13, feqb F13 x y = true <-> x = y.
Proof. exact (gf_eqb F13 F13_good). Qed.

(* ---- exhaustive enumeration of F_13 ---- *)
Definition els13 : list (Fp 13) := map (fp_of 13) [0; 1; 2; 3; 4; 5; 6; 7; 8; 9; 10; 11; 12].
Lemma els13_all : forall x : Fp 13, In x els13.
Proof.
  intros x. rewrite <- (fp_of_fpv 13 x). pose proof (fpv_canon 13 x eq_refl) as H. unfold canon in H.
  apply in_map. set (v := fpv x) in *. clearbody v.
  assert (E : v = 0 \/ v = 1 \/ v = 2 \/ v = 3 \/ v = 4 \/ v = 5 \/ v = 6 \/ v = 7 \/ v = 8 \/ v = 9 \/
              v = 10 \/ v = 11 \/ v = 12) by lia.
  cbn [In]. intuition.
Qed.
Lemma all13 (Pd : Fp 13 -> bool) : forallb Pd els13 = true -> forall x, Pd x = true.
Proof. intros H x. rewrite forallb_forall in H. apply H. apply els13_all. Qed.

(* a finite associativity check, generically *)
Lemma assoc_from_check {X : Type} (pts : list X) (beq : X -> X -> bool) (op : X -> X -> X) :
  forallb (fun A => forallb (fun B => forallb (fun C => beq (op A (op B C)) (op (op A B) C)) pts) pts) pts = true ->
  forall A B C, In A pts -> In B pts -> In C pts -> beq (op A (op B C)) (op (op A B) C) = true.
Proof.
  intros K A B C IA IB IC. rewrite forallb_forall in K. specialize (K A IA).
  rewrite forallb_forall in K. specialize (K B IB). rewrite forallb_forall in K. exact (K C IC).
Qed.

(* ================= short Weierstrass: y^2 = x^3 + 2 ================= *)
Definition a13 : Fp 13 := fp_of 13 0.
Definition b13 : Fp 13 := fp_of 13 2.
Definition P13 : @sw_jac (Fp 13) := (fp_of 13 4, fp_of 13 6, fp_of 13 2).   (* the point (1,4), Z = 2 *)
Definition A13 : @sw_aff (Fp 13) := Some (fp_of 13 1, fp_of 13 4).

Lemma onb_13 A : sw_aff_on_curve F13 a13 b13 A = true <-> aff_on F13 a13 b13 A.
Proof. exact (onb_on F13 a13 b13 F13_good A). Qed.
Lemma A13_on : aff_on F13 a13 b13 A13.
Proof. apply onb_13. vm_compute. reflexivity. Qed.
Lemma P13_on : jac_on F13 a13 b13 P13.
Proof. unfold jac_on. apply onb_13. vm_compute. reflexivity. Qed.

Definition sw_beq (A B : @sw_aff (Fp 13)) : bool := C05.Run.sw_aff_beq F13 A B.
Lemma sw_beq_eq A B : sw_beq A B = true -> A = B.
Proof.
  destruct A as [[x y]|], B as [[x' y']|]; cbn; intros H; try discriminate H; [|reflexivity].
  apply andb_true_iff in H. destruct H as [H1 H2]. apply Feq13 in H1, H2. subst. reflexivity.
Qed.
Definition sw_all13 : list (@sw_aff (Fp 13)) := None :: map Some (list_prod els13 els13).
Lemma sw_all13_in A : In A sw_all13.
Proof.
  destruct A as [[x y]|]; [right | left; reflexivity].
  apply in_map. apply in_prod; apply els13_all.
Qed.
Definition sw_pts13 : list (@sw_aff (Fp 13)) := filter (sw_aff_on_curve F13 a13 b13) sw_all13.
Definition sw_assoc_check : bool :=
  forallb (fun A => forallb (fun B => forallb (fun C =>
    sw_beq (aff_add_sw F13 a13 A (aff_add_sw F13 a13 B C)) (aff_add_sw F13 a13 (aff_add_sw F13 a13 A B) C))
    sw_pts13) sw_pts13) sw_pts13.

(* the curve has 19 points (18 affine and the point at infinity); the law is associative on them (19^3 triples) *)
Lemma sw_pts13_count : length sw_pts13 = 19%nat.
Proof. vm_compute. reflexivity. Qed.
Lemma sw_assoc_check_true : sw_assoc_check = true.
Proof. vm_cast_no_check (eq_refl true). Qed.   (* evaluated once, by the kernel, at Qed (~25 s) *)
Lemma sw_pts13_in A : aff_on F13 a13 b13 A -> In A sw_pts13.
Proof. intros H. apply onb_13 in H. apply filter_In. split; [apply sw_all13_in | exact H]. Qed.
Theorem sw_assoc_13 : sw_law_assoc F13 a13 b13.
Proof.
  intros A B C HA HB HC. apply sw_beq_eq.
  exact (assoc_from_check sw_pts13 sw_beq (aff_add_sw F13 a13) sw_assoc_check_true A B C
           (sw_pts13_in A HA) (sw_pts13_in B HB) (sw_pts13_in C HC)).
Qed.

(* the C04 / C05 headline statements with NO remaining premise: every limb slice, the point P13 *)
Theorem sw_double_and_add_13 : forall limbs, wf limbs ->
  sw_to_affine F13 (C04.ScalarMul.mul_bigint_proj (C04.Run.sw_gops F13 a13) limbs P13)
  = C04.GroupTheory.smul (aff_add_sw F13 a13) (aff_neg_sw F13) None (val limbs) A13.
Proof.
  intros limbs Hwf.
  rewrite (proj2 (sw_double_and_add F13 a13 b13 F13_good sw_assoc_13 limbs P13 Hwf P13_on)).
  f_equal. apply sw_beq_eq. vm_compute. reflexivity.
Qed.

