(* Link/ExamplesTE -- non-vacuity of the twisted-Edwards Link theorems over F_13:
   12 x^2 + y^2 = 1 + 6 x^2 y^2  (a = 12 = 5^2, d = 6 a non-square, hence complete: toy curve
   te13_m1_complete of C03; 20 points).  Completeness is derived from C03_te_complete (the
   non-squareness of 6 by exhausting F_13), associativity by exhausting the 20^3 triples. *)
From Param Require Import Param.
From V Require Import Base.Field Base.Word Base.ZpField Base.ZpInstances Base.ZpTransfer C03.CurveExec
  C03.TEProofs C03.FieldHyp Props.C03 C12.TESubgroupProofs
  Link.SubGroup Link.TEGroup Link.TERealises Link.Examples.
From V Require C04.GroupOps C04.GroupTheory C04.ScalarMul C04.Run C05.Run.
Require Import Lia Bool.

(* ================= twisted Edwards: 12 x^2 + y^2 = 1 + 6 x^2 y^2 ================= *)
Definition ta13 : Fp 13 := fp_of 13 12.
Definition td13 : Fp 13 := fp_of 13 6.
Lemma te_complete_13 : te_law_complete F13 ta13 td13.
Proof.
  intros A B. apply (C03_te_complete (Fp 13) F13 ta13 td13 (fp_of 13 5) F13_good).
  - apply (fp_eq 13). vm_compute. reflexivity.
  - intros w E.
    assert (K : negb (feqb F13 (fmul F13 w w) td13) = true).
    { revert w E. intros w _. revert w. apply all13. vm_compute. reflexivity. }
    apply Feq13 in E. rewrite E in K. discriminate K.
Qed.

(* value lemmas for the Edwards law (same recipe as Base/ZpTransfer.v) *)
Parametricity Recursive aff_add_te.
Lemma pair_R_val p (A : Fp p * Fp p) B : prod_R _ _ (Rp p) _ _ (Rp p) A B -> pair_val A = B.
Proof. intros H. destruct H as [x1 x2 Hx y1 y2 Hy]. unfold Rp in *. subst. reflexivity. Qed.
Lemma pair_val_R p (A : Fp p * Fp p) : prod_R _ _ (Rp p) _ _ (Rp p) A (pair_val A).
Proof. destruct A. constructor; reflexivity. Qed.
Lemma aff_add_te_val p a d (A B : Fp p * Fp p) :
  pair_val (aff_add_te (FpOps p) a d A B) = aff_add_te (ZpOps p) (fpv a) (fpv d) (pair_val A) (pair_val B).
Proof.
  apply pair_R_val.
  apply (aff_add_te_R _ _ (Rp p) _ _ (FpZp_R p) _ _ (Rp_fpv p a) _ _ (Rp_fpv p d)); apply pair_val_R.
Qed.
Lemma te_aff_on_val p a d (A : Fp p * Fp p) :
  te_aff_on (FpOps p) a d A <-> te_aff_on (ZpOps p) (fpv a) (fpv d) (pair_val A).
Proof.
  destruct A as [x y]. cbn [pair_val fst snd te_aff_on].
  apply Rp_eq; repeat first [apply Rp_fmul | apply Rp_fadd | apply Rp_fpv | apply Rp_f1].
Qed.

Definition zte_onb (A : Z * Z) : bool :=
  let '(x, y) := A in
  fadd Z13 (fmul Z13 12 (fmul Z13 x x)) (fmul Z13 y y)
  =? fadd Z13 1 (fmul Z13 6 (fmul Z13 (fmul Z13 x x) (fmul Z13 y y))).
Lemma zte_onb_on A : te_aff_on Z13 12 6 A -> zte_onb A = true.
Proof. destruct A as [x y]. unfold zte_onb, te_aff_on. intros H. apply Z.eqb_eq. exact H. Qed.
Definition zte_beq (A B : Z * Z) : bool := (fst A =? fst B) && (snd A =? snd B).
Lemma zte_beq_eq A B : zte_beq A B = true -> A = B.
Proof.
  destruct A as [x y], B as [x' y']. unfold zte_beq. cbn [fst snd]. intros H.
  apply andb_true_iff in H. destruct H as [H1 H2]. apply Z.eqb_eq in H1, H2. subst. reflexivity.
Qed.
Definition zte_pts13 : list (Z * Z) := filter zte_onb (list_prod zels13 zels13).
(* 20 points; 20^3 triples *)
Lemma zte_pts13_count : length zte_pts13 = 20%nat.
Proof. vm_compute. reflexivity. Qed.
Lemma zte_assoc_check_true : assoc_check zte_pts13 zte_beq (aff_add_te Z13 12 6) = true.
Proof. vm_compute. reflexivity. Qed.
Lemma zte_pts13_in (A : @te_aff (Fp 13)) : te_aff_on F13 ta13 td13 A -> In (pair_val A) zte_pts13.
Proof.
  intros H. apply filter_In. split.
  - destruct A as [x y]. cbn [pair_val fst snd]. apply in_prod; apply zels13_all.
  - apply zte_onb_on. apply (te_aff_on_val 13 ta13 td13 A) in H. exact H.
Qed.
Lemma pair_val_inj (A B : Fp 13 * Fp 13) : pair_val A = pair_val B -> A = B.
Proof.
  destruct A as [x y], B as [x' y']. cbn [pair_val fst snd]. intros H.
  injection H as H1 H2. apply fp_eq in H1, H2. subst. reflexivity.
Qed.
Theorem te_assoc_13 : te_law_assoc F13 ta13 td13.
Proof.
  intros A B C HA HB HC. apply pair_val_inj. unfold F13. rewrite !aff_add_te_val.
  change (fpv ta13) with 12. change (fpv td13) with 6. change (ZpOps 13) with Z13. apply zte_beq_eq.
  exact (assoc_from_check zte_pts13 zte_beq (aff_add_te Z13 12 6) zte_assoc_check_true _ _ _
           (zte_pts13_in A HA) (zte_pts13_in B HB) (zte_pts13_in C HC)).
Qed.

Definition Q13 : @te_ext (Fp 13) := te_of_affine F13 (fp_of 13 0, fp_of 13 12).   (* the point of order 2 *)
Lemma Q13_ok : okR F13 ta13 td13 Q13.
Proof.
  apply (te_of_affine_ok F13 ta13 td13 F13_good). apply (te_onb_on F13 ta13 td13 F13_good). vm_compute. reflexivity.
Qed.

(* the C04 headline statement with NO remaining premise *)
Theorem te_double_and_add_13 : forall limbs, wf limbs ->
  te_to_affine F13 (C04.ScalarMul.mul_bigint_proj (C04.Run.te_gops F13 ta13 td13) limbs Q13)
  = C04.GroupTheory.smul (aff_add_te F13 ta13 td13) (aff_neg_te F13) (te_aff_zero F13) (val limbs)
      (fp_of 13 0, fp_of 13 12).
Proof.
  intros limbs Hwf.
  rewrite (proj2 (te_double_and_add F13 ta13 td13 F13_good te_complete_13 te_assoc_13 limbs Q13 Hwf Q13_ok)).
  f_equal; apply pair_val_inj; vm_compute; reflexivity.
Qed.
