(* Link/ExamplesTE -- non-vacuity of the twisted-Edwards Link theorems over F_13:
   12 x^2 + y^2 = 1 + 6 x^2 y^2  (a = 12 = 5^2, d = 6 a non-square, hence complete: toy curve
   te13_m1_complete of C03; 20 points).  Completeness is derived from C03_te_complete (the
   non-squareness of 6 by exhausting F_13), associativity by exhausting the 20^3 triples. *)
From V Require Import Base.Field Base.Word Base.ZpField Base.ZpInstances C03.CurveExec
  C03.TEProofs C03.FieldHyp Props.C03 C12.TESubgroupProofs
  Link.SubGroup Link.TEGroup Link.TERealises Link.Examples.
From V Require C04.GroupOps C04.GroupTheory C04.ScalarMul C04.Run C05.Run.
Require Import Lia Bool.

(* ================= twisted Edwards: 12 x^2 + y^2 = 1 + 6 x^2 y^2 ================= *)
Definition ta13 : Fp 13 := fp_of 13 12.
Definition td13 : Fp 13 := fp_of 13 6.
Lemma te_complete_13 : te_law_complete F13 ta13 td13.
Proof.
  intros A B. apply (C03_te_complete (Fp 13) F13 ta13 td13 (fp_of 13 5) F13_good).
  - apply (fp_eq 13). vm_compute. reflexivity.
  - intros w E.
    assert (K : negb (feqb F13 (fmul F13 w w) td13) = true).
    { revert w E. intros w _. revert w. apply all13. vm_compute. reflexivity. }
    apply Feq13 in E. rewrite E in K. discriminate K.
Qed.

Definition te_beq (A B : @te_aff (Fp 13)) : bool := C05.Run.te_aff_beq F13 A B.
Lemma te_beq_eq A B : te_beq A B = true -> A = B.
Proof.
  destruct A as [x y], B as [x' y']. unfold te_beq, C05.Run.te_aff_beq. cbn [fst snd]. intros H.
  apply andb_true_iff in H. destruct H as [H1 H2]. apply Feq13 in H1, H2. subst. reflexivity.
Qed.
Definition te_pts13 : list (@te_aff (Fp 13)) := filter (te_aff_on_curve F13 ta13 td13) (list_prod els13 els13).
Definition te_assoc_check : bool :=
  forallb (fun A => forallb (fun B => forallb (fun C =>
    te_beq (aff_add_te F13 ta13 td13 A (aff_add_te F13 ta13 td13 B C))
           (aff_add_te F13 ta13 td13 (aff_add_te F13 ta13 td13 A B) C))
    te_pts13) te_pts13) te_pts13.
Lemma te_assoc_check_true : te_assoc_check = true.
Proof. vm_cast_no_check (eq_refl true). Qed.   (* evaluated once, by the kernel, at Qed (~60 s) *)
Lemma te_pts13_in A : te_aff_on F13 ta13 td13 A -> In A te_pts13.
Proof.
  destruct A as [x y]. intros H. apply filter_In. split; [apply in_prod; apply els13_all|].
  apply (te_onb_on F13 ta13 td13 F13_good). exact H.
Qed.
Theorem te_assoc_13 : te_law_assoc F13 ta13 td13.
Proof.
  intros A B C HA HB HC. apply te_beq_eq.
  exact (assoc_from_check te_pts13 te_beq (aff_add_te F13 ta13 td13) te_assoc_check_true A B C
           (te_pts13_in A HA) (te_pts13_in B HB) (te_pts13_in C HC)).
Qed.

Definition Q13 : @te_ext (Fp 13) := te_of_affine F13 (fp_of 13 0, fp_of 13 12).   (* the point of order 2 *)
Lemma Q13_ok : okR F13 ta13 td13 Q13.
Proof.
  apply (te_of_affine_ok F13 ta13 td13 F13_good). apply (te_onb_on F13 ta13 td13 F13_good). vm_compute. reflexivity.
Qed.
Lemma te_pts13_count : length te_pts13 = 20%nat.
Proof. vm_compute. reflexivity. Qed.
