(* Link/SWGroup -- the affine points of a short-Weierstrass curve form a commutative group
   under the chord-and-tangent law of C03 ([aff_add_sw], identity [None], inverse
   [aff_neg_sw]) -- GIVEN associativity.

   Proved here from the field axioms and C03: closure (C03_sw_affine_law_closed), identity,
   inverse, COMMUTATIVITY (the chord slope is symmetric; in the tangent branch two curve points
   with the same x and y1 <> -y2 have y1 = y2).  Associativity of the law on curve points is the
   one classical fact that is not formalised: Section hypothesis [affine_law_assoc], of type
   [sw_law_assoc F a b] (the definition C12 already uses).

   Output: [sw_group_on] ([abelian_group_on] on the boolean subset [sw_aff_on_curve F a b] of
   [option (T*T)]), hence [abelian_group] (C04) and [group_laws] (C05) for the subset type
   [sw_point F a b] of curve points with Leibniz equality. *)
From V Require Import Base.Field C03.CurveExec C03.SWProofs C03.FieldHyp C12.SWSubgroupProofs Link.SubGroup.
From V Require C04.GroupTheory C05.GroupProofs.
Require Import Coq.setoid_ring.Field Coq.setoid_ring.Ring.

Section SWGroup.
  Context {T : Type} (F : Fops T) (a b : T).
  Hypothesis GF : good_field F.
  Let Fth := gf_th F GF.
  Let Feq := gf_eqb F GF.
  Let Ftwo := gf_two F GF.
  Add Field KfLinkSW : Fth.

  Local Notation "0" := (f0 F).
  Local Notation "1" := (f1 F).
  Local Infix "+" := (fadd F).
  Local Infix "-" := (fsub F).
  Local Infix "*" := (fmul F).
  Local Infix "/" := (fdiv F).
  Local Infix "==" := (feqb F) (at level 70).
  Local Notation "- x" := (fneg F x).

  Local Notation on := (aff_on F a b).
  Local Notation onb := (sw_aff_on_curve F a b).
  Local Notation law := (aff_add_sw F a).
  Local Notation inv := (aff_neg_sw F).

  Lemma onb_on A : onb A = true <-> on A.
  Proof. exact (sw_aff_on_curve_spec F a b Fth Feq A). Qed.

  Lemma sw_law_zero_l A : law None A = A.
  Proof. reflexivity. Qed.
  Lemma sw_law_zero_r A : law A None = A.
  Proof. destruct A as [[x y]|]; reflexivity. Qed.

  Lemma sw_law_neg_l A : law (inv A) A = None.
  Proof.
    destruct A as [[x y]|]; [|reflexivity]. cbn [aff_neg_sw aff_add_sw].
    rewrite (eqb_refl F Feq x), (eqb_refl F Feq (- y)). reflexivity.
  Qed.

  (* the law is symmetric on curve points *)
  Lemma sw_law_comm A B : on A -> on B -> law A B = law B A.
  Proof.
    destruct A as [[x1 y1]|], B as [[x2 y2]|]; intros HA HB; try reflexivity.
    cbn [aff_on] in HA, HB. cbn [aff_add_sw].
    destruct (x1 == x2) eqn:Ex.
    - apply Feq in Ex. subst x2. rewrite (eqb_refl F Feq x1).
      destruct (y1 == - y2) eqn:Ey.
      + apply Feq in Ey. replace (y2 == - y1) with true; [reflexivity|].
        symmetry. apply Feq. rewrite Ey. ring.
      + apply (eqb_false F Feq) in Ey.
        assert (Ey' : (y2 == - y1) = false).
        { apply (eqb_false F Feq). intros E. apply Ey. rewrite E. ring. }
        rewrite Ey'.
        assert (E12 : y1 = y2).
        { destruct (y1 == y2) eqn:E; [apply Feq; exact E|]. apply (eqb_false F Feq) in E.
          exfalso. apply Ey. exact (aff_on_opposite F a b Fth Feq x1 y1 y2 HA HB E). }
        subst y2. reflexivity.
    - apply (eqb_false F Feq) in Ex.
      assert (Ex' : (x2 == x1) = false) by (apply (eqb_false F Feq); congruence).
      rewrite Ex'.
      assert (N1 : x2 - x1 <> 0) by (apply (sub_nz F Fth); congruence).
      assert (N2 : x1 - x2 <> 0) by (apply (sub_nz F Fth); congruence).
      f_equal. f_equal; field; auto.
  Qed.

  (* ---- the one classical premise ---- *)
  Hypothesis affine_law_assoc : sw_law_assoc F a b.

  Theorem sw_group_on : abelian_group_on onb law inv None.
  Proof.
    constructor.
    - apply onb_on. exact I.
    - intros x y Hx Hy. apply onb_on in Hx, Hy. apply onb_on. exact (aff_add_sw_on F a b Fth Feq Ftwo x y Hx Hy).
    - intros x Hx. apply onb_on in Hx. apply onb_on. exact (aff_neg_on F a b Fth x Hx).
    - intros x y z Hx Hy Hz. apply onb_on in Hx, Hy, Hz. exact (affine_law_assoc x y z Hx Hy Hz).
    - intros x y Hx Hy. apply onb_on in Hx, Hy. exact (sw_law_comm x y Hx Hy).
    - intros x _. reflexivity.
    - intros x _. apply sw_law_neg_l.
  Qed.

  (* the set of curve points, as a type with Leibniz equality *)
  Definition sw_point : Type := sub onb.
  Definition sw_point_add : sw_point -> sw_point -> sw_point := sub_add onb law inv None sw_group_on.
  Definition sw_point_neg : sw_point -> sw_point := sub_neg onb law inv None sw_group_on.
  Definition sw_point_zero : sw_point := sub_zero onb law inv None sw_group_on.

  Theorem sw_points_abelian_group : C04.GroupTheory.abelian_group sw_point_add sw_point_neg sw_point_zero.
  Proof. exact (sub_abelian onb law inv None sw_group_on). Qed.
  Theorem sw_points_group_laws : C05.GroupProofs.group_laws sw_point_add sw_point_neg sw_point_zero.
  Proof. exact (sub_group_laws onb law inv None sw_group_on). Qed.
End SWGroup.
