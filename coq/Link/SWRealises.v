(* Link/SWRealises -- the short-Weierstrass (Jacobian) dictionaries that the C04 and C05
   correspondence checks execute ([C04.Run.sw_gops F a], [C05.Run.sw_gops F a], built from the
   C03 model functions) realise the affine chord-and-tangent group on on-curve representatives:
   [sw_realises_on] (premise shape of C04, relativised: Link/Transfer04.v) and [sw_gops_hom_on]
   (premise shape of C05: Link/Transfer05.v), interpretation = [sw_to_affine F], invariants
   [jac_on F a b] / [aff_on F a b].  Proof: C03's per-operation theorems (sw_add_correct,
   sw_madd_correct, sw_double_correct, sw_neg_correct, sw_sub/msub_correct, round trips,
   sw_normalize_batch_spec, the closure theorems).  No associativity is needed for this part.

   With [affine_law_assoc] (associativity of the affine law on curve points, Section hypothesis)
   the affine points are a commutative group (Link/SWGroup.v) and the C04/C05 headline theorems
   follow for the executed Jacobian dictionaries: [sw_double_and_add], [sw_wnaf_mul], [sw_msm],
   [sw_chunked_pippenger], ...  All right-hand sides are iterations of the RAW affine law
   [aff_add_sw F a] on [option (T*T)]: no subset type appears in the statements. *)
From V Require Import Base.Field Base.Word C03.CurveExec C03.SWProofs C03.FieldHyp C12.SWSubgroupProofs
  C15.BitsProofs Link.SubGroup Link.SWGroup.
From V Require C04.GroupOps C04.GroupTheory C04.ScalarMul C04.Wnaf C04.WnafProofs C04.Run.
From V Require C05.MsmModel C05.StreamModel C05.GroupProofs C05.MsmProofs C05.Run.
From V Require Link.Transfer04 Link.Transfer05.
Require Import Coq.setoid_ring.Field Coq.setoid_ring.Ring Lia.

Section SWRealises.
  Context {T : Type} (F : Fops T) (a b : T).
  Hypothesis GF : good_field F.
  Let Fth := gf_th F GF.
  Let Feq := gf_eqb F GF.
  Let Ftwo := gf_two F GF.

  Local Notation on := (aff_on F a b).
  Local Notation jon := (jac_on F a b).
  Local Notation onb := (sw_aff_on_curve F a b).
  Local Notation law := (aff_add_sw F a).
  Local Notation inv := (aff_neg_sw F).
  Local Notation toaff := (sw_to_affine F).

  Lemma jon_neg P : jon P -> jon (sw_neg F P).
  Proof. intros H. unfold jac_on. rewrite (sw_neg_correct F Fth Feq). apply (aff_neg_on F a b Fth). exact H. Qed.
  Lemma jon_of_affine A : on A -> jon (sw_of_affine F A).
  Proof. intros H. unfold jac_on. rewrite (sw_roundtrip_affine F Fth Feq). exact H. Qed.
  Lemma jon_zero : jon (sw_zero F) /\ toaff (sw_zero F) = None.
  Proof.
    assert (E : toaff (sw_zero F) = None) by apply (sw_to_affine_zero F Feq).
    split; [unfold jac_on; rewrite E; exact I | exact E].
  Qed.

  (* ---- C04: the dictionary of coq/C04/Run.v ---- *)
  Theorem sw_realises_on :
    Transfer04.realises_on onb law inv None (C04.Run.sw_gops F a) jon on toaff (fun A => A).
  Proof.
    constructor; cbn [C04.Run.sw_gops C04.GroupOps.gzero C04.GroupOps.gadd C04.GroupOps.gsub C04.GroupOps.gaddb
                      C04.GroupOps.gdbl C04.GroupOps.gneg C04.GroupOps.gnegb C04.GroupOps.gofb C04.GroupOps.gtob
                      C04.GroupOps.gnorm C04.GroupOps.gaddbb].
    - intros P HP. apply (onb_on F a b GF). exact HP.
    - intros A HA. apply (onb_on F a b GF). exact HA.
    - exact jon_zero.
    - intros P Q HP HQ. split; [apply (sw_add_on_curve F a b Fth Feq Ftwo) | apply (sw_add_correct F a b Fth Feq Ftwo)]; assumption.
    - intros P Q HP HQ. split; [|apply (sw_sub_correct F a b Fth Feq Ftwo); assumption].
      unfold sw_sub. apply (sw_add_on_curve F a b Fth Feq Ftwo); [exact HP | apply jon_neg; exact HQ].
    - intros P A HP HA. split; [apply (sw_madd_on_curve F a b Fth Feq Ftwo) | apply (sw_madd_correct F a b Fth Feq Ftwo)]; assumption.
    - intros P HP. split; [apply (sw_double_on_curve F a b Fth Feq Ftwo); exact HP | apply (sw_double_correct F a Fth Feq Ftwo)].
    - intros P HP. split; [apply jon_neg; exact HP | apply (sw_neg_correct F Fth Feq)].
    - intros A HA. split; [exact (aff_neg_on F a b Fth A HA) | reflexivity].
    - intros A HA. split; [apply jon_of_affine; exact HA | apply (sw_roundtrip_affine F Fth Feq)].
    - intros P HP. split; [exact HP | reflexivity].
    - intros l Hl. rewrite (sw_normalize_batch_spec F Fth Feq), map_id. split; [|reflexivity].
      apply Forall_map. exact Hl.
    - intros A C HA HC. unfold sw_aff_add_aff. split.
      + apply (sw_madd_on_curve F a b Fth Feq Ftwo); [apply jon_of_affine; exact HA | exact HC].
      + rewrite (sw_madd_correct F a b Fth Feq Ftwo) by (try apply jon_of_affine; assumption).
        rewrite (sw_roundtrip_affine F Fth Feq). reflexivity.
  Qed.

  (* ---- C05: the dictionary of coq/C05/Run.v ---- *)
  Theorem sw_gops_hom_on :
    Transfer05.gops_hom_on onb law inv None (C05.Run.sw_gops F a) jon on toaff (fun A => A).
  Proof.
    constructor; cbn [C05.Run.sw_gops C05.MsmModel.gzero C05.MsmModel.gadd C05.MsmModel.gmadd C05.MsmModel.gmsub
                      C05.MsmModel.gdbl].
    - intros P HP. apply (onb_on F a b GF). exact HP.
    - intros A HA. apply (onb_on F a b GF). exact HA.
    - exact jon_zero.
    - intros P Q HP HQ. split; [apply (sw_add_on_curve F a b Fth Feq Ftwo) | apply (sw_add_correct F a b Fth Feq Ftwo)]; assumption.
    - intros P A HP HA. split; [apply (sw_madd_on_curve F a b Fth Feq Ftwo) | apply (sw_madd_correct F a b Fth Feq Ftwo)]; assumption.
    - intros P A HP HA. split; [|apply (sw_msub_correct F a b Fth Feq Ftwo); assumption].
      unfold sw_msub. apply (sw_madd_on_curve F a b Fth Feq Ftwo); [exact HP | exact (aff_neg_on F a b Fth A HA)].
    - intros P HP. split; [apply (sw_double_on_curve F a b Fth Feq Ftwo); exact HP | apply (sw_double_correct F a Fth Feq Ftwo)].
  Qed.

  (* ================= with associativity: the headline theorems ================= *)
  Hypothesis affine_law_assoc : sw_law_assoc F a b.
  Let GA := sw_group_on F a b GF affine_law_assoc.

  Local Notation smul4 := (C04.GroupTheory.smul law inv None).
  Local Notation smul5 := (C05.GroupProofs.smul law inv None).
  Local Notation Ops4 := (C04.Run.sw_gops F a).
  Local Notation Ops5 := (C05.Run.sw_gops F a).

  (* C04_double_and_add_spec / _affine_spec / mul_bits_be / mul_scalar *)
  Theorem sw_double_and_add limbs P : wf limbs -> jon P ->
    jon (C04.ScalarMul.mul_bigint_proj Ops4 limbs P) /\
    toaff (C04.ScalarMul.mul_bigint_proj Ops4 limbs P) = smul4 (val limbs) (toaff P).
  Proof. exact (Transfer04.double_and_add_on onb law inv None Ops4 jon on toaff (fun A => A) GA sw_realises_on limbs P). Qed.
  Theorem sw_double_and_add_affine limbs A : wf limbs -> on A ->
    jon (C04.ScalarMul.mul_bigint_aff Ops4 limbs A) /\
    toaff (C04.ScalarMul.mul_bigint_aff Ops4 limbs A) = smul4 (val limbs) A.
  Proof. exact (Transfer04.double_and_add_affine_on onb law inv None Ops4 jon on toaff (fun A => A) GA sw_realises_on limbs A). Qed.
  Theorem sw_mul_bits_be bits P : Forall is_bit bits -> jon P ->
    jon (C04.ScalarMul.mul_bits_be Ops4 bits P) /\
    toaff (C04.ScalarMul.mul_bits_be Ops4 bits P) = smul4 (C04.GroupOps.bval_be bits) (toaff P).
  Proof. exact (Transfer04.mul_bits_be_on onb law inv None Ops4 jon on toaff (fun A => A) GA sw_realises_on bits P). Qed.
  Theorem sw_mul_scalar N r k P : 0 < r <= Wn N -> jon P ->
    jon (C04.ScalarMul.mul_scalar_proj Ops4 N r k P) /\
    toaff (C04.ScalarMul.mul_scalar_proj Ops4 N r k P) = smul4 (k mod r) (toaff P).
  Proof. exact (Transfer04.mul_scalar_on onb law inv None Ops4 jon on toaff (fun A => A) GA sw_realises_on N r k P). Qed.

  (* C04_wnaf_mul_fresh_spec, C04_wnaf_mul_spec, C04_wnaf_table_spec *)
  Theorem sw_wnaf_mul w limbs P : 2 <= w < 64 -> wf limbs -> jon P ->
    exists res, C04.Wnaf.wnaf_mul Ops4 w P limbs = C04.GroupOps.Ok res /\ jon res /\
                toaff res = smul4 (val limbs) (toaff P).
  Proof. exact (Transfer04.wnaf_mul_fresh_on onb law inv None Ops4 jon on toaff (fun A => A) GA sw_realises_on w limbs P). Qed.
  Theorem sw_wnaf_mul_with_table w table limbs X : 2 <= w < 64 -> wf limbs -> on X ->
    2 ^ (w - 1) <= Z.of_nat (length table) -> Forall jon table ->
    C04.WnafProofs.table_ok law inv None toaff X table ->
    exists res, C04.Wnaf.wnaf_mul_with_table Ops4 w table limbs = C04.GroupOps.Ok res /\ jon res /\
                toaff res = smul4 (val limbs) X.
  Proof.
    intros Hw Hwf HX. apply (onb_on F a b GF) in HX.
    exact (Transfer04.wnaf_mul_on onb law inv None Ops4 jon on toaff (fun A => A) GA sw_realises_on w table limbs X Hw Hwf HX).
  Qed.
  Theorem sw_wnaf_table w base : 1 <= w -> jon base ->
    Z.of_nat (length (C04.Wnaf.wnaf_table Ops4 w base)) = 2 ^ (w - 1) /\
    Forall jon (C04.Wnaf.wnaf_table Ops4 w base) /\
    C04.WnafProofs.table_ok law inv None toaff (toaff base) (C04.Wnaf.wnaf_table Ops4 w base).
  Proof. exact (Transfer04.wnaf_table_on onb law inv None Ops4 jon on toaff (fun A => A) GA sw_realises_on w base). Qed.

  (* C05_msm_bigint_spec, C05_msm_checked_spec, C05_msm_unchecked_truncates, C05_msm_chunks_spec *)
  Theorem sw_msm cheap nb bases scalars :
    1 <= nb -> Z.min (C05.MsmModel.len bases) (C05.MsmModel.len scalars) < 2 ^ 64 -> Forall on bases ->
    Forall (fun s => wf s /\ nb <= 64 * C05.MsmModel.len s /\ val s < 2 ^ nb) scalars ->
    exists g, C05.MsmModel.msm_bigint Ops5 cheap nb bases scalars = C05.MsmModel.Ok g /\ jon g /\
              toaff g = C05.GroupProofs.msum law None
                          (map (fun p => smul5 (val (fst p)) (snd p)) (combine scalars bases)).
  Proof. exact (Transfer05.msm_bigint_on onb law inv None Ops5 jon on toaff (fun A => A) GA sw_gops_hom_on cheap nb bases scalars). Qed.
  Theorem sw_msm_checked cheap nb N bases ks :
    1 <= nb <= 64 * Z.of_nat N -> C05.MsmModel.len bases < 2 ^ 64 -> Forall on bases ->
    Forall (fun k => 0 <= k < 2 ^ nb) ks ->
    (length bases = length ks ->
       exists g, C05.MsmModel.msm_checked Ops5 cheap nb N bases ks = C05.MsmModel.Ok g /\ jon g /\
                 toaff g = C05.GroupProofs.msum law None (map (fun p => smul5 (fst p) (snd p)) (combine ks bases))) /\
    (length bases <> length ks ->
       C05.MsmModel.msm_checked Ops5 cheap nb N bases ks
       = C05.MsmModel.Err (Z.min (C05.MsmModel.len bases) (C05.MsmModel.len ks))).
  Proof. exact (Transfer05.msm_checked_on onb law inv None Ops5 jon on toaff (fun A => A) GA sw_gops_hom_on cheap nb N bases ks). Qed.
  Theorem sw_msm_unchecked cheap nb N bases ks :
    1 <= nb <= 64 * Z.of_nat N -> Z.min (C05.MsmModel.len bases) (C05.MsmModel.len ks) < 2 ^ 64 -> Forall on bases ->
    Forall (fun k => 0 <= k < 2 ^ nb) ks ->
    exists g, C05.MsmModel.msm_unchecked Ops5 cheap nb N bases ks = C05.MsmModel.Ok g /\ jon g /\
              toaff g = C05.GroupProofs.msum law None (map (fun p => smul5 (fst p) (snd p))
                          (combine (firstn (length bases) ks) (firstn (length ks) bases))).
  Proof. exact (Transfer05.msm_unchecked_on onb law inv None Ops5 jon on toaff (fun A => A) GA sw_gops_hom_on cheap nb N bases ks). Qed.
  Theorem sw_msm_chunks cheap nb N step bases ks :
    1 <= nb <= 64 * Z.of_nat N -> 0 < step -> C05.MsmModel.len bases < 2 ^ 64 -> Forall on bases ->
    Forall (fun k => 0 <= k < 2 ^ nb) ks -> (length ks <= length bases)%nat ->
    exists g, C05.MsmModel.msm_chunks Ops5 cheap nb N step bases ks = C05.MsmModel.Ok g /\ jon g /\
              toaff g = C05.GroupProofs.msum law None (map (fun p => smul5 (fst p) (snd p))
                          (combine ks (skipn (length bases - length ks) bases))).
  Proof. exact (Transfer05.msm_chunks_on onb law inv None Ops5 jon on toaff (fun A => A) GA sw_gops_hom_on cheap nb N step bases ks). Qed.

  (* C05_chunked_msm_refines_sum *)
  Theorem sw_chunked_pippenger cheap nb size ops :
    1 <= nb -> C05.MsmModel.len ops < 2 ^ 64 -> Forall (fun p => on (fst p)) ops ->
    Forall (fun p => wf (snd p) /\ nb <= 64 * C05.MsmModel.len (snd p) /\ val (snd p) < 2 ^ nb) ops ->
    exists g, C05.StreamModel.cp_run Ops5 (C05.MsmModel.msm_bigint Ops5 cheap nb) size ops = C05.MsmModel.Ok g /\ jon g /\
              toaff g = C05.GroupProofs.msum law None (map (fun p => smul5 (val (snd p)) (fst p)) ops).
  Proof. exact (Transfer05.chunked_msm_on onb law inv None Ops5 jon on toaff (fun A => A) GA sw_gops_hom_on cheap nb size ops). Qed.
End SWRealises.
