(* Link/SubGroup -- a commutative group given on a decidable SUBSET of a raw carrier.

   The curve laws of C03 ([aff_add_sw], [aff_add_te]) are total functions on ALL coordinate
   pairs but satisfy the group laws only on curve points.  C04 ([abelian_group]) and C05
   ([group_laws]) want a group on a whole type with Leibniz equality.  This file builds
   that type generically: [sub okA := { x | okA x = true }] (boolean invariant, hence
   proof-irrelevant by UIP on bool: no axiom), with the restricted operations, proves the
   bundled laws of both packages, and shows that k . X and finite sums computed in the
   subset type project to the same iteration of the raw operations -- so final statements
   never mention the subset type. *)
From V Require Import Base.Word.
From V Require C04.GroupOps C04.GroupTheory C05.GroupProofs.
Require Import Eqdep_dec Bool Lia.

Section Sub.
  Context {A : Type} (okA : A -> bool) (aadd : A -> A -> A) (aneg : A -> A) (azero : A).

  (* the laws of a commutative group, required on the subset [okA] only *)
  Record abelian_group_on : Prop := mkAGO {
    ago_zero : okA azero = true;
    ago_add : forall x y, okA x = true -> okA y = true -> okA (aadd x y) = true;
    ago_neg : forall x, okA x = true -> okA (aneg x) = true;
    ago_assoc : forall x y z, okA x = true -> okA y = true -> okA z = true ->
                aadd x (aadd y z) = aadd (aadd x y) z;
    ago_comm : forall x y, okA x = true -> okA y = true -> aadd x y = aadd y x;
    ago_zero_l : forall x, okA x = true -> aadd azero x = x;
    ago_neg_l : forall x, okA x = true -> aadd (aneg x) x = azero
  }.

  Definition sub : Type := { x : A | okA x = true }.
  Definition sval (x : sub) : A := proj1_sig x.

  Lemma sub_eq (x y : sub) : sval x = sval y -> x = y.
  Proof.
    destruct x as [x Hx], y as [y Hy]. unfold sval; cbn [proj1_sig]. intros E. subst y.
    f_equal. apply (UIP_dec bool_dec).
  Qed.
  Lemma sval_ok (x : sub) : okA (sval x) = true.
  Proof. exact (proj2_sig x). Qed.

  Hypothesis G : abelian_group_on.

  Definition sub_zero : sub := exist _ azero (ago_zero G).
  Definition sub_add (x y : sub) : sub :=
    exist _ (aadd (sval x) (sval y)) (ago_add G _ _ (sval_ok x) (sval_ok y)).
  Definition sub_neg (x : sub) : sub := exist _ (aneg (sval x)) (ago_neg G _ (sval_ok x)).

  Lemma sub_abelian : C04.GroupTheory.abelian_group sub_add sub_neg sub_zero.
  Proof.
    constructor; intros; apply sub_eq; unfold sval; cbn [sub_add sub_neg sub_zero proj1_sig].
    - apply (ago_assoc G); apply sval_ok.
    - apply (ago_comm G); apply sval_ok.
    - apply (ago_zero_l G); apply sval_ok.
    - apply (ago_neg_l G); apply sval_ok.
  Qed.
  Lemma sub_group_laws : C05.GroupProofs.group_laws sub_add sub_neg sub_zero.
  Proof.
    constructor; intros; apply sub_eq; unfold sval; cbn [sub_add sub_neg sub_zero proj1_sig].
    - apply (ago_assoc G); apply sval_ok.
    - apply (ago_comm G); apply sval_ok.
    - apply (ago_zero_l G); apply sval_ok.
    - rewrite (ago_comm G) by (try apply (ago_neg G); apply sval_ok). apply (ago_neg_l G); apply sval_ok.
  Qed.

  (* scalar multiples and sums computed in the subset type are the raw iterations *)
  Lemma sub_nsmul04 n X :
    sval (C04.GroupTheory.nsmul sub_add sub_zero n X) = C04.GroupTheory.nsmul aadd azero n (sval X).
  Proof. induction n as [|n IH]; cbn [C04.GroupTheory.nsmul]; [reflexivity|]. unfold sval in *; cbn [sub_add proj1_sig]. rewrite <- IH. reflexivity. Qed.
  Lemma sub_smul04 k X :
    sval (C04.GroupTheory.smul sub_add sub_neg sub_zero k X) = C04.GroupTheory.smul aadd aneg azero k (sval X).
  Proof.
    unfold C04.GroupTheory.smul. destruct (k <? 0).
    - unfold sval at 1; cbn [sub_neg proj1_sig]. f_equal. apply sub_nsmul04.
    - apply sub_nsmul04.
  Qed.
  Lemma sub_pmul05 p X :
    sval (C05.GroupProofs.pmul sub_add sub_zero p X) = C05.GroupProofs.pmul aadd azero p (sval X).
  Proof.
    unfold C05.GroupProofs.pmul. rewrite !Pos2Nat.inj_iter.
    induction (Pos.to_nat p) as [|n IH]; cbn [nat_rect]; [reflexivity|].
    unfold sval in *; cbn [sub_add proj1_sig]. rewrite <- IH. reflexivity.
  Qed.
  Lemma sub_smul05 k X :
    sval (C05.GroupProofs.smul sub_add sub_neg sub_zero k X) = C05.GroupProofs.smul aadd aneg azero k (sval X).
  Proof.
    destruct k; cbn [C05.GroupProofs.smul]; [reflexivity | apply sub_pmul05 |].
    unfold sval at 1; cbn [sub_neg proj1_sig]. f_equal. apply sub_pmul05.
  Qed.
  Lemma sub_msum05 l :
    sval (C05.GroupProofs.msum sub_add sub_zero l) = C05.GroupProofs.msum aadd azero (map sval l).
  Proof.
    induction l as [|x l IH]; [reflexivity|]. cbn [map]. unfold C05.GroupProofs.msum in *. cbn [fold_right].
    unfold sval at 1; cbn [sub_add proj1_sig]. f_equal. exact IH.
  Qed.

  (* closure of the raw iteration (so the right-hand sides above stay in the subset) *)
  Lemma smul04_ok k x : okA x = true -> okA (C04.GroupTheory.smul aadd aneg azero k x) = true.
  Proof. intros Hx. change x with (sval (exist _ x Hx)). rewrite <- sub_smul04. apply sval_ok. Qed.
  Lemma smul05_ok k x : okA x = true -> okA (C05.GroupProofs.smul aadd aneg azero k x) = true.
  Proof. intros Hx. change x with (sval (exist _ x Hx)). rewrite <- sub_smul05. apply sval_ok. Qed.
End Sub.
