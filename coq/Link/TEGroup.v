(* Link/TEGroup -- the affine points of a twisted-Edwards curve whose addition law is complete
   on the curve ([te_law_complete]: both denominators non-zero for every pair of curve points;
   C03_te_complete proves it for a a square, d a non-square) form a commutative group under the
   Edwards law of C03 ([aff_add_te], identity (0,1), inverse (-x,y)) -- GIVEN associativity.

   Proved here from the field axioms, C03 and completeness: closure (C03_te_law_closed),
   identity, inverse, commutativity.  Associativity of the law on curve points is the Section
   hypothesis [affine_law_assoc : te_law_assoc F a d] (definition shared with C12). *)
From V Require Import Base.Field C03.CurveExec C03.TEProofs C03.FieldHyp Props.C03
  C12.TESubgroupProofs Link.SubGroup.
From V Require C04.GroupTheory C05.GroupProofs.
Require Import Coq.setoid_ring.Field Coq.setoid_ring.Ring.

Section TEGroup.
  Context {T : Type} (F : Fops T) (a d : T).
  Hypothesis GF : good_field F.
  Hypothesis Hcomplete : te_law_complete F a d.
  Let Fth := gf_th F GF.
  Let Feq := gf_eqb F GF.
  Add Field KfLinkTE : Fth.

  Local Notation "0" := (f0 F).
  Local Notation "1" := (f1 F).
  Local Infix "+" := (fadd F).
  Local Infix "-" := (fsub F).
  Local Infix "*" := (fmul F).
  Local Infix "/" := (fdiv F).
  Local Notation "- x" := (fneg F x).

  Local Notation on := (te_aff_on F a d).
  Local Notation onb := (te_aff_on_curve F a d).
  Local Notation law := (aff_add_te F a d).
  Local Notation inv := (aff_neg_te F).
  Local Notation gid := (te_aff_zero F).

  Lemma te_onb_on A : onb A = true <-> on A.
  Proof. exact (te_aff_on_curve_spec F a d Fth Feq A). Qed.

  Lemma te_neg_on A : on A -> on (inv A).
  Proof.
    destruct A as [x y]. unfold te_aff_on, aff_neg_te. intros H.
    transitivity (a * (x * x) + y * y); [ring|]. rewrite H. ring.
  Qed.

  Lemma te_law_neg_l A : on A -> law (inv A) A = gid.
  Proof.
    destruct A as [x y]. intros H. pose proof (Hcomplete _ _ (te_neg_on (x, y) H) H) as D.
    unfold te_aff_on in H. unfold aff_neg_te, te_dens_ok in D. unfold aff_add_te, aff_neg_te, te_aff_zero.
    cbv beta iota zeta in *. destruct D as [D1 D2]. f_equal.
    - field. exact D1.
    - assert (E : y * y - a * (- x * x) = 1 - d * (- x * x * (y * y))).
      { transitivity (a * (x * x) + y * y); [ring|]. rewrite H. ring. }
      rewrite E. field. exact D2.
  Qed.

  Lemma te_law_comm A B : on A -> on B -> law A B = law B A.
  Proof.
    destruct A as [x1 y1], B as [x2 y2]. intros HA HB.
    pose proof (Hcomplete _ _ HA HB) as D. pose proof (Hcomplete _ _ HB HA) as D'.
    unfold te_dens_ok in D, D'. unfold aff_add_te. cbv beta iota zeta in *. destruct D as [D1 D2], D' as [D3 D4].
    f_equal; apply (div_eq_cross F Fth); try assumption; ring.
  Qed.

  Hypothesis affine_law_assoc : te_law_assoc F a d.

  Theorem te_group_on : abelian_group_on onb law inv gid.
  Proof.
    constructor.
    - apply te_onb_on. exact (gid_on F a d GF).
    - intros x y Hx Hy. apply te_onb_on in Hx, Hy. apply te_onb_on. exact (gadd_in F a d GF Hcomplete x y Hx Hy).
    - intros x Hx. apply te_onb_on in Hx. apply te_onb_on. exact (te_neg_on x Hx).
    - intros x y z Hx Hy Hz. apply te_onb_on in Hx, Hy, Hz. exact (affine_law_assoc x y z Hx Hy Hz).
    - intros x y Hx Hy. apply te_onb_on in Hx, Hy. exact (te_law_comm x y Hx Hy).
    - intros x Hx. apply te_onb_on in Hx. exact (gadd_id_l F a d GF x Hx).
    - intros x Hx. apply te_onb_on in Hx. exact (te_law_neg_l x Hx).
  Qed.

  Definition te_point : Type := sub onb.
  Definition te_point_add : te_point -> te_point -> te_point := sub_add onb law inv gid te_group_on.
  Definition te_point_neg : te_point -> te_point := sub_neg onb law inv gid te_group_on.
  Definition te_point_zero : te_point := sub_zero onb law inv gid te_group_on.

  Theorem te_points_abelian_group : C04.GroupTheory.abelian_group te_point_add te_point_neg te_point_zero.
  Proof. exact (sub_abelian onb law inv gid te_group_on). Qed.
  Theorem te_points_group_laws : C05.GroupProofs.group_laws te_point_add te_point_neg te_point_zero.
  Proof. exact (sub_group_laws onb law inv gid te_group_on). Qed.
End TEGroup.
