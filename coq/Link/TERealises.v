(* Link/TERealises -- the twisted-Edwards (extended coordinates) dictionaries executed by the C04
   and C05 correspondence checks ([C04.Run.te_gops F a d], [C05.Run.te_gops F a d]) realise the
   Edwards group on valid on-curve representatives, on curves whose law is complete
   ([te_law_complete], Section hypothesis [Hcomplete]; C03_te_complete: a square, d non-square).
   Invariants: [okR] = [te_valid] (Z <> 0, T Z = X Y) and the affine image on the curve (the C12
   definition); [te_aff_on] for affine bases; interpretation [te_to_affine F].
   Then, with [affine_law_assoc : te_law_assoc F a d], the same headline theorems as
   Link/SWRealises.v. *)
From V Require Import Base.Field Base.Word C03.CurveExec C03.TEProofs C03.FieldHyp Props.C03
  C12.TESubgroupProofs C15.BitsProofs Link.SubGroup Link.TEGroup.
From V Require C04.GroupOps C04.GroupTheory C04.ScalarMul C04.Wnaf C04.WnafProofs C04.Run.
From V Require C05.MsmModel C05.StreamModel C05.GroupProofs C05.MsmProofs C05.Run.
From V Require Link.Transfer04 Link.Transfer05.
Require Import Lia.

Section TERealises.
  Context {T : Type} (F : Fops T) (a d : T).
  Hypothesis GF : good_field F.
  Hypothesis Hcomplete : te_law_complete F a d.

  Local Notation on := (te_aff_on F a d).
  Local Notation jon := (okR F a d).
  Local Notation onb := (te_aff_on_curve F a d).
  Local Notation law := (aff_add_te F a d).
  Local Notation inv := (aff_neg_te F).
  Local Notation gid := (te_aff_zero F).
  Local Notation toaff := (te_to_affine F).

  Lemma te_add_ok P Q : jon P -> jon Q -> jon (te_add F a d P Q) /\ toaff (te_add F a d P Q) = law (toaff P) (toaff Q).
  Proof.
    intros [V1 O1] [V2 O2]. destruct (C03_te_add T F a d GF P Q V1 V2 (Hcomplete _ _ O1 O2)) as [V' E].
    split; [split; [exact V' | rewrite E; apply (gadd_in F a d GF Hcomplete); assumption] | exact E].
  Qed.
  Lemma te_neg_ok P : jon P -> jon (te_neg F P) /\ toaff (te_neg F P) = inv (toaff P).
  Proof.
    intros [V O]. destruct (C03_te_neg T F GF P V) as [V' E].
    split; [split; [exact V' | rewrite E; apply (te_neg_on F a d GF); exact O] | exact E].
  Qed.
  Lemma te_of_affine_ok A : on A -> jon (te_of_affine F A) /\ toaff (te_of_affine F A) = A.
  Proof.
    intros H. destruct (C03_te_roundtrip_affine T F GF A) as [V E].
    split; [split; [exact V | rewrite E; exact H] | exact E].
  Qed.
  Lemma te_msub_ok P A : jon P -> on A -> jon (te_msub F a d P A) /\ toaff (te_msub F a d P A) = law (toaff P) (inv A).
  Proof.
    intros HP HA. unfold te_msub.
    exact (madd_ok F a d GF Hcomplete P (te_aff_neg F A) HP (te_neg_on F a d GF A HA)).
  Qed.

  (* ---- C04: the dictionary of coq/C04/Run.v ---- *)
  Theorem te_realises_on :
    Transfer04.realises_on onb law inv gid (C04.Run.te_gops F a d) jon on toaff (fun A => A).
  Proof.
    constructor; cbn [C04.Run.te_gops C04.GroupOps.gzero C04.GroupOps.gadd C04.GroupOps.gsub C04.GroupOps.gaddb
                      C04.GroupOps.gdbl C04.GroupOps.gneg C04.GroupOps.gnegb C04.GroupOps.gofb C04.GroupOps.gtob
                      C04.GroupOps.gnorm C04.GroupOps.gaddbb].
    - intros P [_ HP]. apply (te_onb_on F a d GF). exact HP.
    - intros A HA. apply (te_onb_on F a d GF). exact HA.
    - exact (zero_ok F a d GF).
    - exact te_add_ok.
    - intros P Q HP HQ. unfold te_sub. destruct (te_neg_ok Q HQ) as [K1 K2].
      destruct (te_add_ok P (te_neg F Q) HP K1) as [K3 K4]. split; [exact K3 | rewrite K4, K2; reflexivity].
    - exact (madd_ok F a d GF Hcomplete).
    - exact (dbl_ok F a d GF Hcomplete).
    - exact te_neg_ok.
    - intros A HA. split; [exact (te_neg_on F a d GF A HA) | reflexivity].
    - exact te_of_affine_ok.
    - intros P HP. split; [exact (proj2 HP) | reflexivity].
    - intros l Hl. rewrite (C03_te_normalize_batch T F GF), map_id.
      + split; [|reflexivity]. apply Forall_map. revert Hl. apply Forall_impl. intros P HP. exact (proj2 HP).
      + revert Hl. apply Forall_impl. intros [[[x y] t] z] [[Hz _] _]. exact Hz.
    - intros A C HA HC. unfold te_aff_add_aff. destruct (te_of_affine_ok A HA) as [K1 K2].
      destruct (madd_ok F a d GF Hcomplete _ C K1 HC) as [K3 K4]. split; [exact K3 | rewrite K4, K2; reflexivity].
  Qed.

  (* ---- C05: the dictionary of coq/C05/Run.v ---- *)
  Theorem te_gops_hom_on :
    Transfer05.gops_hom_on onb law inv gid (C05.Run.te_gops F a d) jon on toaff (fun A => A).
  Proof.
    constructor; cbn [C05.Run.te_gops C05.MsmModel.gzero C05.MsmModel.gadd C05.MsmModel.gmadd C05.MsmModel.gmsub
                      C05.MsmModel.gdbl].
    - intros P [_ HP]. apply (te_onb_on F a d GF). exact HP.
    - intros A HA. apply (te_onb_on F a d GF). exact HA.
    - exact (zero_ok F a d GF).
    - exact te_add_ok.
    - exact (madd_ok F a d GF Hcomplete).
    - exact te_msub_ok.
    - exact (dbl_ok F a d GF Hcomplete).
  Qed.

  (* ================= with associativity: the headline theorems ================= *)
  Hypothesis affine_law_assoc : te_law_assoc F a d.
  Let GA := te_group_on F a d GF Hcomplete affine_law_assoc.

  Local Notation smul4 := (C04.GroupTheory.smul law inv gid).
  Local Notation smul5 := (C05.GroupProofs.smul law inv gid).
  Local Notation Ops4 := (C04.Run.te_gops F a d).
  Local Notation Ops5 := (C05.Run.te_gops F a d).

  (* C04_double_and_add_spec / _affine_spec / mul_bits_be / mul_scalar *)
  Theorem te_double_and_add limbs P : wf limbs -> jon P ->
    jon (C04.ScalarMul.mul_bigint_proj Ops4 limbs P) /\
    toaff (C04.ScalarMul.mul_bigint_proj Ops4 limbs P) = smul4 (val limbs) (toaff P).
  Proof. exact (Transfer04.double_and_add_on onb law inv gid Ops4 jon on toaff (fun A => A) GA te_realises_on limbs P). Qed.
  Theorem te_double_and_add_affine limbs A : wf limbs -> on A ->
    jon (C04.ScalarMul.mul_bigint_aff Ops4 limbs A) /\
    toaff (C04.ScalarMul.mul_bigint_aff Ops4 limbs A) = smul4 (val limbs) A.
  Proof. exact (Transfer04.double_and_add_affine_on onb law inv gid Ops4 jon on toaff (fun A => A) GA te_realises_on limbs A). Qed.
  Theorem te_mul_bits_be bits P : Forall is_bit bits -> jon P ->
    jon (C04.ScalarMul.mul_bits_be Ops4 bits P) /\
    toaff (C04.ScalarMul.mul_bits_be Ops4 bits P) = smul4 (C04.GroupOps.bval_be bits) (toaff P).
  Proof. exact (Transfer04.mul_bits_be_on onb law inv gid Ops4 jon on toaff (fun A => A) GA te_realises_on bits P). Qed.
  Theorem te_mul_scalar N r k P : 0 < r <= Wn N -> jon P ->
    jon (C04.ScalarMul.mul_scalar_proj Ops4 N r k P) /\
    toaff (C04.ScalarMul.mul_scalar_proj Ops4 N r k P) = smul4 (k mod r) (toaff P).
  Proof. exact (Transfer04.mul_scalar_on onb law inv gid Ops4 jon on toaff (fun A => A) GA te_realises_on N r k P). Qed.

  (* C04_wnaf_mul_fresh_spec, C04_wnaf_mul_spec, C04_wnaf_table_spec *)
  Theorem te_wnaf_mul w limbs P : 2 <= w < 64 -> wf limbs -> jon P ->
    exists res, C04.Wnaf.wnaf_mul Ops4 w P limbs = C04.GroupOps.Ok res /\ jon res /\
                toaff res = smul4 (val limbs) (toaff P).
  Proof. exact (Transfer04.wnaf_mul_fresh_on onb law inv gid Ops4 jon on toaff (fun A => A) GA te_realises_on w limbs P). Qed.
  Theorem te_wnaf_mul_with_table w table limbs X : 2 <= w < 64 -> wf limbs -> on X ->
    2 ^ (w - 1) <= Z.of_nat (length table) -> Forall jon table ->
    C04.WnafProofs.table_ok law inv gid toaff X table ->
    exists res, C04.Wnaf.wnaf_mul_with_table Ops4 w table limbs = C04.GroupOps.Ok res /\ jon res /\
                toaff res = smul4 (val limbs) X.
  Proof.
    intros Hw Hwf HX. apply (te_onb_on F a d GF) in HX.
    exact (Transfer04.wnaf_mul_on onb law inv gid Ops4 jon on toaff (fun A => A) GA te_realises_on w table limbs X Hw Hwf HX).
  Qed.
  Theorem te_wnaf_table w base : 1 <= w -> jon base ->
    Z.of_nat (length (C04.Wnaf.wnaf_table Ops4 w base)) = 2 ^ (w - 1) /\
    Forall jon (C04.Wnaf.wnaf_table Ops4 w base) /\
    C04.WnafProofs.table_ok law inv gid toaff (toaff base) (C04.Wnaf.wnaf_table Ops4 w base).
  Proof. exact (Transfer04.wnaf_table_on onb law inv gid Ops4 jon on toaff (fun A => A) GA te_realises_on w base). Qed.

  (* C05_msm_bigint_spec, C05_msm_checked_spec, C05_msm_unchecked_truncates, C05_msm_chunks_spec *)
  Theorem te_msm cheap nb bases scalars :
    1 <= nb -> Z.min (C05.MsmModel.len bases) (C05.MsmModel.len scalars) < 2 ^ 64 -> Forall on bases ->
    Forall (fun s => wf s /\ nb <= 64 * C05.MsmModel.len s /\ val s < 2 ^ nb) scalars ->
    exists g, C05.MsmModel.msm_bigint Ops5 cheap nb bases scalars = C05.MsmModel.Ok g /\ jon g /\
              toaff g = C05.GroupProofs.msum law gid
                          (map (fun p => smul5 (val (fst p)) (snd p)) (combine scalars bases)).
  Proof. exact (Transfer05.msm_bigint_on onb law inv gid Ops5 jon on toaff (fun A => A) GA te_gops_hom_on cheap nb bases scalars). Qed.
  Theorem te_msm_checked cheap nb N bases ks :
    1 <= nb <= 64 * Z.of_nat N -> C05.MsmModel.len bases < 2 ^ 64 -> Forall on bases ->
    Forall (fun k => 0 <= k < 2 ^ nb) ks ->
    (length bases = length ks ->
       exists g, C05.MsmModel.msm_checked Ops5 cheap nb N bases ks = C05.MsmModel.Ok g /\ jon g /\
                 toaff g = C05.GroupProofs.msum law gid (map (fun p => smul5 (fst p) (snd p)) (combine ks bases))) /\
    (length bases <> length ks ->
       C05.MsmModel.msm_checked Ops5 cheap nb N bases ks
       = C05.MsmModel.Err (Z.min (C05.MsmModel.len bases) (C05.MsmModel.len ks))).
  Proof. exact (Transfer05.msm_checked_on onb law inv gid Ops5 jon on toaff (fun A => A) GA te_gops_hom_on cheap nb N bases ks). Qed.
  Theorem te_msm_unchecked cheap nb N bases ks :
    1 <= nb <= 64 * Z.of_nat N -> Z.min (C05.MsmModel.len bases) (C05.MsmModel.len ks) < 2 ^ 64 -> Forall on bases ->
    Forall (fun k => 0 <= k < 2 ^ nb) ks ->
    exists g, C05.MsmModel.msm_unchecked Ops5 cheap nb N bases ks = C05.MsmModel.Ok g /\ jon g /\
              toaff g = C05.GroupProofs.msum law gid (map (fun p => smul5 (fst p) (snd p))
                          (combine (firstn (length bases) ks) (firstn (length ks) bases))).
  Proof. exact (Transfer05.msm_unchecked_on onb law inv gid Ops5 jon on toaff (fun A => A) GA te_gops_hom_on cheap nb N bases ks). Qed.
  Theorem te_msm_chunks cheap nb N step bases ks :
    1 <= nb <= 64 * Z.of_nat N -> 0 < step -> C05.MsmModel.len bases < 2 ^ 64 -> Forall on bases ->
    Forall (fun k => 0 <= k < 2 ^ nb) ks -> (length ks <= length bases)%nat ->
    exists g, C05.MsmModel.msm_chunks Ops5 cheap nb N step bases ks = C05.MsmModel.Ok g /\ jon g /\
              toaff g = C05.GroupProofs.msum law gid (map (fun p => smul5 (fst p) (snd p))
                          (combine ks (skipn (length bases - length ks) bases))).
  Proof. exact (Transfer05.msm_chunks_on onb law inv gid Ops5 jon on toaff (fun A => A) GA te_gops_hom_on cheap nb N step bases ks). Qed.

  (* C05_chunked_msm_refines_sum *)
  Theorem te_chunked_pippenger cheap nb size ops :
    1 <= nb -> C05.MsmModel.len ops < 2 ^ 64 -> Forall (fun p => on (fst p)) ops ->
    Forall (fun p => wf (snd p) /\ nb <= 64 * C05.MsmModel.len (snd p) /\ val (snd p) < 2 ^ nb) ops ->
    exists g, C05.StreamModel.cp_run Ops5 (C05.MsmModel.msm_bigint Ops5 cheap nb) size ops = C05.MsmModel.Ok g /\ jon g /\
              toaff g = C05.GroupProofs.msum law gid (map (fun p => smul5 (val (snd p)) (fst p)) ops).
  Proof. exact (Transfer05.chunked_msm_on onb law inv gid Ops5 jon on toaff (fun A => A) GA te_gops_hom_on cheap nb size ops). Qed.
End TERealises.
